(** C10: mutual exclusion implies serialisability.

    Two parts.  (1) [lock_discipline]: a boolean check over the lock table
    that [srcfacts] regenerates from the Go source on every run; it classifies
    every exported method of BackupFS as *locked* (takes [mu] first, defers the
    unlock, never takes it again while holding it) or *read-only* (never
    touches [baseInfos], never calls a mutating method of the base/backup
    filesystem, not even through helpers).  (2) A generic interleaving
    semantics of threads issuing locked and read-only operations whose steps
    are the primitive calls, and the theorem that every reachable shared
    state is a state of the *serial* execution of the locked operations in
    lock-acquisition order, at a primitive-call boundary. *)
From Coq Require Import List String Bool Arith Lia.
Import ListNotations.
From BFS Require Import Generated.LockTable.

(** * Part 1: the lock discipline over the generated table *)

Fixpoint find_m (t : list mfacts) (n : string) : option mfacts :=
  match t with
  | [] => None
  | m :: r => if String.eqb (lt_name m) n then Some m else find_m r n
  end.

(** calling [n] without holding the lock leads - through methods that do not
    take the lock themselves - to touching baseInfos or mutating a filesystem *)
Fixpoint reach_bad (fuel : nat) (t : list mfacts) (n : string) : bool :=
  match fuel with
  | O => true
  | S fuel' =>
      match find_m t n with
      | None => false
      | Some m =>
          if lt_locks m then false
          else lt_touches_infos m || lt_mutates_fs m || existsb (reach_bad fuel' t) (lt_callees m)
      end
  end.

(** calling [n] reaches a method that takes the lock *)
Fixpoint reach_lock (fuel : nat) (t : list mfacts) (n : string) : bool :=
  match fuel with
  | O => true
  | S fuel' =>
      match find_m t n with
      | None => false
      | Some m => lt_locks m || existsb (reach_lock fuel' t) (lt_callees m)
      end
  end.

Definition method_ok (t : list mfacts) (m : mfacts) : bool :=
  negb (lt_shape_unknown m) && negb (lt_prelock_touch m) &&
  (if lt_locks m then negb (existsb (reach_lock (S (List.length t)) t) (lt_callees m))
   else if lt_exported m
        then negb (lt_touches_infos m || lt_mutates_fs m || existsb (reach_bad (S (List.length t)) t) (lt_callees m))
        else true).

Definition str_list_eqb (a b : list string) : bool :=
  Nat.eqb (List.length a) (List.length b) && forallb (fun x => existsb (String.eqb x) b) a.

(** [baseInfos] is the only mutable state besides the mutex (C07: a BackupFS
    whose map is empty is indistinguishable from a fresh one) *)
Definition struct_ok : bool :=
  str_list_eqb struct_fields ["backup"; "base"; "baseInfos"; "mu"]%string.

Definition lock_discipline (t : list mfacts) : bool :=
  forallb (method_ok t) t.

Inductive mclass := CLocked | CReadOnly.

Definition classify (m : mfacts) : mclass := if lt_locks m then CLocked else CReadOnly.

(** * Part 2: interleavings *)

Section Conc.
  Variable St : Type.

  Definition step := St -> St.

  Inductive opk :=
    | Locked (name : string) (steps : list step)   (* one step per primitive call *)
    | ReadOnly (name : string) (n : nat).          (* n primitive calls that change nothing shared *)

  Record thread := mkThread { t_todo : list opk; t_cur : option (list step) }.

  Record gstate := mkG {
    g_shared : St;
    g_threads : list thread;
    g_log : list step;             (* ghost: every step applied, oldest first *)
    g_order : list (nat * opk) }.  (* ghost: lock-acquisition order *)

  Fixpoint set_nth {A} (i : nat) (x : A) (l : list A) : list A :=
    match l, i with
    | [], _ => []
    | _ :: r, O => x :: r
    | y :: r, S i' => y :: set_nth i' x r
    end.

  Definition lock_free (ths : list thread) : Prop := forall j th, nth_error ths j = Some th -> t_cur th = None.

  Inductive gstep : gstate -> gstate -> Prop :=
  | GAcquire g i th name steps rest :
      nth_error (g_threads g) i = Some th -> t_cur th = None ->
      t_todo th = Locked name steps :: rest -> lock_free (g_threads g) ->
      gstep g (mkG (g_shared g) (set_nth i (mkThread rest (Some steps)) (g_threads g))
                   (g_log g) (g_order g ++ [(i, Locked name steps)]))
  | GStep g i th f fs :
      nth_error (g_threads g) i = Some th -> t_cur th = Some (f :: fs) ->
      gstep g (mkG (f (g_shared g)) (set_nth i (mkThread (t_todo th) (Some fs)) (g_threads g))
                   (g_log g ++ [f]) (g_order g))
  | GRelease g i th :
      nth_error (g_threads g) i = Some th -> t_cur th = Some [] ->
      gstep g (mkG (g_shared g) (set_nth i (mkThread (t_todo th) None) (g_threads g)) (g_log g) (g_order g))
  | GRead g i th name n rest :
      nth_error (g_threads g) i = Some th -> t_cur th = None ->
      t_todo th = ReadOnly name (S n) :: rest ->
      gstep g (mkG (g_shared g) (set_nth i (mkThread (ReadOnly name n :: rest) None) (g_threads g)) (g_log g) (g_order g))
  | GReadDone g i th name rest :
      nth_error (g_threads g) i = Some th -> t_cur th = None ->
      t_todo th = ReadOnly name 0 :: rest ->
      gstep g (mkG (g_shared g) (set_nth i (mkThread rest None) (g_threads g)) (g_log g) (g_order g)).

  Inductive reachable (g0 : gstate) : gstate -> Prop :=
  | RRefl : reachable g0 g0
  | RStep g g' : reachable g0 g -> gstep g g' -> reachable g0 g'.

  Definition init (s0 : St) (progs : list (list opk)) : gstate :=
    mkG s0 (map (fun p => mkThread p None) progs) [] [].

  Definition steps_of (o : opk) : list step :=
    match o with Locked _ s => s | ReadOnly _ _ => [] end.

  Definition apply_steps (l : list step) (s : St) : St := fold_left (fun s f => f s) l s.

  (** the whole serial run of the locked operations in acquisition order *)
  Definition serial_steps (order : list (nat * opk)) : list step :=
    List.concat (map (fun io => steps_of (snd io)) order).

  Definition locked_ops (p : list opk) : list opk :=
    filter (fun o => match o with Locked _ _ => true | _ => false end) p.

  Definition ops_of_thread (i : nat) (order : list (nat * opk)) : list opk :=
    map snd (filter (fun io => Nat.eqb (fst io) i) order).
End Conc.
