(** Additional laws of an [fsapi] with respect to its abstract view, next to
    [api_laws] of Spec/Laws.v (same parameters, same style).  They are what
    the step theorem (Proofs/BackupTry.v) needs on the *base* side for the
    operations BackupFS forwards without backing anything up (Stat, Readlink,
    OpenFile with flags 0 and what is done through such a handle) and for
    the directory walk of RemoveAll.  All of them say that a reading call
    leaves the view alone; [law2_readdir] also says that the reported names
    are entries of the directory. *)
From stdpp Require Import gmap.
From BFS Require Export Spec.Laws.

(** same parameters as [api_laws] (the laws below only mention the
    filesystem and the two views) *)
Record api_laws2 (a : fsapi) (V V' : world -> store) (tnorm : str -> str)
       (accepts : str -> str -> Prop) (rh wh : fhandle -> str -> nat -> Prop) : Prop := {
    (** Stat and Readlink change nothing, whatever they return *)
    law2_stat : forall w p, quiet w -> swf (V w) -> snolinkpar (V w) p ->
      framed V V' (a_stat a p) w [];
    law2_readlink : forall w p, quiet w -> swf (V w) -> snolinkpar (V w) p ->
      framed V V' (a_readlink a p) w [];
    (** opening read-only (flags 0: O_RDONLY, no O_CREATE, no O_TRUNC) changes nothing *)
    law2_open_ro : forall w p, quiet w -> swf (V w) -> snolinkpar (V w) p ->
      framed V V' (a_openfile a p 0 0) w [];
    (** nothing can be changed through a handle that was opened read-only:
        reading it to the end, listing it, closing it and the attempt to
        write to it leave the view alone, in whatever state they happen *)
    law2_ro_handle : forall w p h w1, quiet w -> swf (V w) -> snolinkpar (V w) p ->
      a_openfile a p 0 0 w = (MOk h, w1) ->
      forall w2, quiet w2 -> swf (V w2) ->
        (forall acc, framed V V' (read_all tree_fuel h acc) w2 []) /\
        framed V V' (hreaddirnames h) w2 [] /\
        framed V V' (hclose h) w2 [] /\
        (forall d, framed V V' (write_close h d) w2 []);
    (** listing a directory (open, Readdirnames(-1), close: [read_dir_names]
        of Walk) changes nothing at all, and every reported name is an entry
        of the view directly or indirectly below the directory *)
    law2_readdir : forall w p m, quiet w -> swf (V w) -> snolinkpar (V w) p -> V w !! p = Some (Dir m) ->
      exists r w', read_dir_names a p w = (r, w') /\ r <> MHalt /\ V w' = V w /\ same_rest V' w w' /\
        forall names, r = MOk names ->
          Forall (fun nm => V w !! join2 p nm <> None /\ In p (ancestors (join2 p nm))) names
}.
