(** The abstract view of a filesystem as BackupFS sees it through an [fsapi]:
    a finite map from *resolved* path strings (cleaned, absolute, no symlink
    among the parents) to nodes.  Link targets in a view are the strings
    [Readlink] reports.  The laws an [fsapi] has to satisfy with respect to
    such a view are in Spec/Laws.v; the theorems about BackupFS in
    Proofs/Backup*.v are proved from those laws alone. *)
From stdpp Require Import gmap.
From BFS Require Export Backup.History Fs.FsSpec.

Notation store := (gmap str node).

(** proper ancestors of a resolved path, root first: for "/a/b/c": ["/"; "/a"; "/a/b"] *)
Definition ancestors (p : str) : list str := removelast (cands p).

Definition sdir (s : store) (p : str) : Prop := exists m, s !! p = Some (Dir m).
Definition snotlink (s : store) (p : str) : Prop := forall m t, s !! p <> Some (Link m t).

(** [p] can be addressed directly: all proper ancestors are directories *)
Definition sdirect (s : store) (p : str) : Prop :=
  abs_cleaned p /\ Forall (sdir s) (ancestors p).

(** no proper ancestor of [p] is a symlink *)
Definition snolinkpar (s : store) (p : str) : Prop :=
  abs_cleaned p /\ Forall (snotlink s) (ancestors p).

(** permission words have 12 bits (rwx for user/group/other, setuid, setgid, sticky) *)
Definition perm12 (n : node) : Prop := N.land (m_perm (node_meta n)) 4095 = m_perm (node_meta n).

(** well-formed: the root is a directory; every entry is addressable; permission words are 12-bit *)
Definition swf (s : store) : Prop :=
  sdir s s_root /\ forall p n, s !! p = Some n -> sdirect s p /\ perm12 n.

(** * Equality up to what the properties exempt *)

(** directories: everything but the timestamp; symlinks: everything but the
    timestamp (a link's mtime cannot be set through the FS interface);
    regular files: everything *)
Definition snode_eqv (a b : node) : Prop :=
  match a, b with
  | Dir ma, Dir mb => meta_eq_nomt ma mb
  | Link ma ta, Link mb tb => meta_eq_nomt ma mb /\ ta = tb
  | File ma ca, File mb cb => ma = mb /\ ca = cb
  | _, _ => False
  end.

Definition sonode_eqv (a b : option node) : Prop :=
  match a, b with
  | Some x, Some y => snode_eqv x y
  | None, None => True
  | _, _ => False
  end.

(** the two views agree everywhere except at the root directory's own entry *)
Definition store_eqv (s t : store) : Prop :=
  forall p, p <> s_root -> sonode_eqv (s !! p) (t !! p).

(** agreement outside a set of touched paths *)
Definition store_eqv_except (touched : list str) (s t : store) : Prop :=
  forall p, ~ In p touched -> sonode_eqv (s !! p) (t !! p).

(** * What stays the same around a call on one filesystem *)

Definition quiet (w : world) : Prop := w_crash w = None /\ w_faults w = [].

(** the world with BackupFS's bookkeeping replaced (what [put_infos] does) *)
Definition with_infos (w : world) (i : infomap) : world :=
  mkWorld (w_st w) (w_trace w) (w_ticks w) (w_crash w) (w_faults w) i.

(** a call on one filesystem leaves the other view, the tracked state and the
    crash/fault plan alone *)
Definition same_rest (V' : world -> store) (w w' : world) : Prop :=
  V' w' = V' w /\ w_infos w' = w_infos w /\ w_crash w' = w_crash w /\ w_faults w' = w_faults w.

(** the [FileInfo] BackupFS stores for a node found at path [p] *)
Definition sinfo (p : str) (n : node) : finfo := info_of (GoPath.base p) n.

(** metadata of [n] is what [info] records (type, permission bits, owner; for
    regular files also the modification time) *)
Definition info_matches (fi : finfo) (n : node) : Prop :=
  fi_kind fi = node_kind n /\ fi_perm fi = m_perm (node_meta n) /\
  fi_uid fi = Z.of_N (m_uid (node_meta n)) /\ fi_gid fi = Z.of_N (m_gid (node_meta n)) /\
  (node_kind n = KFile -> fi_mt fi = m_mt (node_meta n)).
