(** Fault plans: the laws a filesystem has to satisfy in a world with a fault
    plan, and the statements of properties C08 and C09 under a single fault.

    The model's fault semantics ([spied], [faulted], [occurrences] of
    Base/Monad.v): [w_faults w] lists sites (filesystem tag, method, path,
    occurrence); a primitive call at a site whose number of earlier calls at
    the same site in [w_trace w] equals the occurrence is *refused*: it
    returns [EIO] without being executed (it is recorded and counts).  An
    entry whose occurrence has been passed can never fire again ([spent]).

    Proofs: Proofs/FaultLib.v (rules), Proofs/FaultTry.v (tryBackup and the
    covered operations: C08), Proofs/FaultRollback.v (Rollback: C09),
    Proofs/LawsOsfsFault.v (the fault laws for the concrete layered OS
    filesystem, closed theorems). *)
From stdpp Require Import gmap.
From BFS Require Export Spec.Always.

(** * Fault plans *)

(** replace the fault plan (the same function as [with_faults] of Backup/History.v) *)
Definition set_faults (w : world) (fl : list fault) : world :=
  mkWorld (w_st w) (w_trace w) (w_ticks w) (w_crash w) fl (w_infos w).

(** the same world without fault plan *)
Definition unfault (w : world) : world := set_faults w [].

(** the entry can no longer fire: its occurrence has been passed *)
Definition fault_spent (tr : list tcall) (f : fault) : Prop :=
  (f_occ f < occurrences (f_fs f) (f_meth f) (f_path f) tr)%N.

Definition spent (w : world) : Prop := Forall (fault_spent (w_trace w)) (w_faults w).

(** at most one entry (what the differential test enumerates) *)
Definition single (fl : list fault) : Prop := (length fl <= 1)%nat.

(** the same filesystem state and bookkeeping (traces, counters, plans aside) *)
Definition sim (w w' : world) : Prop := w_st w' = w_st w /\ w_infos w' = w_infos w.

(** one primitive call, made by a filesystem whose tag satisfies [T], in a
    world without crash point: either it is executed - it does exactly what
    it does without fault plan, the plan is carried along, no entry changes
    its status - or it is refused: [EIO], nothing happens to the filesystem
    state nor to the bookkeeping; that takes an entry of the plan for a
    filesystem satisfying [T] that was not spent; a single entry is spent
    afterwards *)
Definition fcall {A} (T : fstag -> Prop) (m : M A) : Prop :=
  forall w, w_crash w = None ->
    (exists r w1, m (unfault w) = (r, w1) /\ r <> MHalt /\ quiet w1 /\
                  m w = (r, set_faults w1 (w_faults w)) /\
                  (spent (set_faults w1 (w_faults w)) <-> spent w))
    \/
    (exists w', m w = (MErr EIO, w') /\ w_st w' = w_st w /\ w_infos w' = w_infos w /\
                w_crash w' = None /\ w_faults w' = w_faults w /\
                ~ spent w /\ (single (w_faults w) -> spent w') /\
                exists f, In f (w_faults w) /\ T (f_fs f)).

(** the handle belongs to the filesystem with tag [tag] (or is not spied at all) *)
Definition handle_tag (tag : fstag) (h : fhandle) : Prop :=
  forall t q, fh_spy h = Some (t, q) -> t = tag.

(** * The fault laws of the filesystem with tag [tag] and view [V]

    The view is a function of the filesystem state; every method is one
    primitive call of that filesystem; the handles it hands out are its own. *)
Record fault_laws (a : fsapi) (V : world -> store) (tag : fstag)
       (rh wh : fhandle -> str -> nat -> Prop) : Prop := {
  flaw_st : forall w w', w_st w' = w_st w -> V w' = V w;
  flaw_lstat : forall p, fcall (eq tag) (a_lstat a p);
  flaw_stat : forall p, fcall (eq tag) (a_stat a p);
  flaw_readlink : forall p, fcall (eq tag) (a_readlink a p);
  flaw_open : forall p, fcall (eq tag) (a_open a p);
  flaw_openfile : forall p fl perm, fcall (eq tag) (a_openfile a p fl perm);
  flaw_create : forall p, fcall (eq tag) (a_create a p);
  flaw_mkdir : forall p perm, fcall (eq tag) (a_mkdir a p perm);
  flaw_mkdirall : forall p perm, fcall (eq tag) (a_mkdirall a p perm);
  flaw_remove : forall p, fcall (eq tag) (a_remove a p);
  flaw_removeall : forall p, fcall (eq tag) (a_removeall a p);
  flaw_rename : forall o n, fcall (eq tag) (a_rename a o n);
  flaw_chmod : forall p m, fcall (eq tag) (a_chmod a p m);
  flaw_chown : forall p u g, fcall (eq tag) (a_chown a p u g);
  flaw_lchown : forall p u g, fcall (eq tag) (a_lchown a p u g);
  flaw_chtimes : forall p t, fcall (eq tag) (a_chtimes a p t);
  flaw_symlink : forall t p, fcall (eq tag) (a_symlink a t p);
  flaw_rh : forall h p pos, rh h p pos -> handle_tag tag h;
  flaw_wh : forall h p pos, wh h p pos -> handle_tag tag h;
  flaw_user : forall p w w' h,
    (a_open a p w = (MOk h, w') \/ (exists fl perm, a_openfile a p fl perm w = (MOk h, w')) \/
     a_create a p w = (MOk h, w')) -> handle_tag tag h
}.

(** * The invariant in a world with a fault plan *)

Section InvF.
  Variables Vb Vk : world -> store.
  Variable B0 : store.

  (** the transaction invariant of the state, the fault plan aside *)
  Definition InvF (w : world) : Prop := w_crash w = None /\ Inv Vb Vk B0 (unfault w).
End InvF.

(** * Statements (C08 and C09 under a single fault) *)

(** the operations that take a backup and then issue their call(s) on the base *)
Definition takes_backup (o : op) : bool :=
  match o with
  | OCreate _ _ | OMkdir _ _ | OMkdirAll _ _ | ORemove _ | ORename _ _ | OSymlink _ _
  | OChmod _ _ | OChown _ _ _ | OLchown _ _ _ | OChtimes _ _ => true
  | OOpenWrite _ fl _ _ => negb (N.eqb fl 0)
  | _ => false
  end.

Section FaultStatements.
  Variables base backup : fsapi.
  Variables Vb Vk : world -> store.
  Variables tnb tnk : str -> str.
  Variables accb acck : str -> str -> Prop.
  Variables rhb rhk whb whk : fhandle -> str -> nat -> Prop.
  Variables hid anc : str -> Prop.
  Variable B0 : store.
  Variables tagb tagk : fstag.

  Let Lb := base_laws base Vb Vk tnb accb rhb whb hid anc.
  Let Lk := backup_laws backup Vb Vk tnk acck rhk whk.
  Let Lb2 := base_laws2 base Vb Vk tnb accb rhb whb.
  Let Fb := fault_laws base Vb tagb rhb whb.
  Let Fk := fault_laws backup Vk tagk rhk whk.
  Let invf := InvF Vb Vk B0.

  (** no entry of the plan is for the base filesystem *)
  Definition no_base_fault (w : world) : Prop := forall f, In f (w_faults w) -> f_fs f <> tagb.

  (** tryBackup under a single fault: it never changes the base view; whatever
      call is refused the invariant survives and bookkeeping only grows; if a
      call was refused and tryBackup did not fail, that call was one on the
      base filesystem (the final Close of the original) *)
  Definition try_backup_fault_stmt : Prop :=
    Lb -> Lk -> Fb -> Fk -> links_ok tnb tnk accb acck B0 -> all_small B0 -> swf B0 ->
    forall w p, invf w -> single (w_faults w) -> snolinkpar (Vb w) p ->
    exists r w', try_backup base backup p w = (r, w') /\ r <> MHalt /\ invf w' /\
      w_faults w' = w_faults w /\ Vb w' = Vb w /\ infos_ext w w' (cands p) /\
      (r = MOk tt -> tracked w' p /\ Forall (tracked w') (ancestors p)) /\
      (spent w -> spent w') /\
      (~ spent w -> spent w' -> (exists e, r = MErr e) \/ ~ no_base_fault w).

  (** every covered operation under a single fault: no halt, the invariant
      survives whatever call is refused (if no tracked path changed its type,
      as without faults); and if the fault is one of the backup filesystem and
      fires during an operation that takes a backup, the operation returns an
      error and the base view is untouched *)
  Definition step_fault_stmt : Prop :=
    Lb -> Lb2 -> Lk -> Fb -> Fk -> links_ok tnb tnk accb acck B0 -> all_small B0 -> swf B0 ->
    forall o w, invf w -> single (w_faults w) -> covered Vb o w ->
    exists r w', step base backup o w = (r, w') /\ r <> MHalt /\ w_crash w' = None /\
      w_faults w' = w_faults w /\
      (kind_stable Vb w' -> invf w') /\ infos_ext_in w w' (op_touches o) /\
      (spent w -> spent w') /\
      (takes_backup o = true -> no_base_fault w -> ~ spent w -> spent w' ->
       (exists e, r = MErr e) /\ Vb w' = Vb w).

  (** Rollback under a single fault: no halt; nil only if the base view is
      restored, the backup view empty and nothing tracked any more; and once
      the plan is spent Rollback does return nil *)
  Definition rollback_fault_stmt : Prop :=
    Lb -> Lk -> Fb -> Fk -> links_ok tnb tnk accb acck B0 -> all_small B0 -> swf B0 -> loc_ok hid anc B0 ->
    forall w, invf w -> single (w_faults w) ->
    exists r w', b_rollback base backup w = (r, w') /\ r <> MHalt /\ w_crash w' = None /\
      (r = MOk tt -> store_eqv (Vb w') B0 /\ (forall p, p <> s_root -> Vk w' !! p = None) /\
                     w_infos w' = ∅) /\
      (spent w -> r = MOk tt).

  (** ... and the first half for every fault plan, whatever its length *)
  Definition rollback_nil_stmt : Prop :=
    Lb -> Lk -> Fb -> Fk -> links_ok tnb tnk accb acck B0 -> all_small B0 -> swf B0 -> loc_ok hid anc B0 ->
    forall w r w', invf w -> b_rollback base backup w = (r, w') ->
    r <> MHalt /\
    (r = MOk tt -> store_eqv (Vb w') B0 /\ (forall p, p <> s_root -> Vk w' !! p = None) /\
                   w_infos w' = ∅).

  (** a transaction that begins with a single-fault plan *)
  Definition initialF (w0 : world) : Prop :=
    w_crash w0 = None /\ single (w_faults w0) /\
    initial Vb Vk tnb tnk accb acck B0 (unfault w0).

  (** a history of covered operations under a single fault: the invariant at
      the end, originals recoverable (C02), and Rollback: nil only if restored
      (C01 / C09); if the plan is spent by then, Rollback does restore *)
  Definition run_fault_stmt : Prop :=
    Lb -> Lb2 -> Lk -> Fb -> Fk -> all_small B0 ->
    forall w0 ops w, initialF w0 -> good_run base backup Vb w0 ops w ->
    invf w /\ recoverable Vb Vk B0 w /\
    exists r w', b_rollback base backup w = (r, w') /\ r <> MHalt /\
      (r = MOk tt -> store_eqv (Vb w') B0 /\ (forall p, p <> s_root -> Vk w' !! p = None) /\
                     w_infos w' = ∅) /\
      (spent w -> r = MOk tt).
End FaultStatements.
