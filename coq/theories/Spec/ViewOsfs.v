(** The concrete view: what [spy tag (prefixfs pfx osfs)] shows of the one
    world filesystem, as a [store] keyed by the view's own resolved paths.
    Proofs/LawsOsfs.v proves [api_laws] for it, so that the BackupFS theorems
    of Proofs/Backup*.v become closed theorems about the concrete model for
    the layering "base and backup are two PrefixFS over the OS filesystem with
    disjoint prefixes" (the layering [generic p=/base q=/backup] of the
    correspondence check). *)
From stdpp Require Import gmap.
From BFS Require Export Spec.Laws Proofs.PathFacts Proofs.FsFacts.

Section ViewOsfs.
  Variable tag : fstag.
  Variable pfx : str.          (* the stored (cleaned) prefix *)

  Definition kp : key := comps pfx.

  (** a link target as the view reports it ([PrefixFS.Readlink]) *)
  Definition vtarget (t : str) : str := prefixfs_readlink_result pfx t.

  Definition vnode (n : node) : node :=
    match n with Link m t => Link m (vtarget t) | _ => n end.

  (** world key of a view path *)
  Definition wkey (p : str) : key := kp ++ comps p.
  (** world path of a view path *)
  Definition wpath (p : str) : str := kpath (wkey p).

  Definition view_entry (kv : key * node) : option (str * node) :=
    if key_prefixb kp (fst kv)
    then Some (kpath (skipn (length kp) (fst kv)), vnode (snd kv))
    else None.

  Definition view_of (f : fs) : store := list_to_map (omap view_entry (entries f)).

  (** every key of the world consists of proper components (what [init_*],
      and every primitive, maintain) *)
  Definition good_key (k : key) : Prop := Forall good_comp k /\ ~ In s_dotdot k.
  Definition keys_good (f : fs) : Prop := forall k n, f !! k = Some n -> good_key k.

  (** The laws speak about *every* world whose view is well formed.  The view
      is therefore defined to be empty (hence not well formed: no root) unless
      the world as a whole is well formed, its keys are proper, permission words
      are 12-bit and the prefix directory exists; these are boolean checks over
      the finite map, reflected in Proofs/LawsOsfs.v. *)
  Definition good_compb (c : str) : bool :=
    negb (str_eqb c []) && negb (str_eqb c s_dot) && negb (str_eqb c s_dotdot) &&
    negb (existsb (N.eqb sep) c).
  Definition is_dirb (f : fs) (k : key) : bool :=
    match f !! k with Some (Dir _) => true | _ => false end.
  Definition entry_okb (f : fs) (kv : key * node) : bool :=
    forallb good_compb (fst kv) &&
    (match fst kv with [] => true | _ => is_dirb f (removelast (fst kv)) end) &&
    N.eqb (N.land (m_perm (node_meta (snd kv))) 4095) (m_perm (node_meta (snd kv))).
  Definition world_okb (f : fs) : bool :=
    is_dirb f [] && is_dirb f kp && forallb (entry_okb f) (entries f).

  Definition Vp (w : world) : store :=
    if world_okb (st_fs (w_st w)) then view_of (st_fs (w_st w)) else ∅.

  (** handles of this filesystem *)
  Definition rh_p (h : fhandle) (p : str) (pos : nat) : Prop :=
    fh_spy h = Some (tag, p) /\ h_key (fh h) = wkey p /\ h_pos (fh h) = N.of_nat pos /\
    h_read (fh h) = true /\ h_dir (fh h) = false /\ fh_hidden h = None.

  Definition wh_p (h : fhandle) (p : str) (pos : nat) : Prop :=
    fh_spy h = Some (tag, p) /\ h_key (fh h) = wkey p /\ h_pos (fh h) = N.of_nat pos /\
    h_write (fh h) = true /\ h_append (fh h) = false /\ h_dir (fh h) = false.

  (** Symlink accepts a (target, location) pair iff the call transformer forwards it *)
  Definition acc_p (t p : str) : Prop :=
    exists c', prefixfs_call pfx (mkCall MSymlink t p []) = Fwd c'.

  Definition the_api : fsapi := spy tag (prefixfs pfx osfs).
End ViewOsfs.

(** side conditions on the two prefixes and on the world for the laws to hold *)
Definition prefix_ok (pfx : str) : Prop := abs_cleaned pfx /\ pfx <> s_root.

Definition disjoint_prefixes (pa pb : str) : Prop :=
  key_prefixb (comps pa) (comps pb) = false /\ key_prefixb (comps pb) (comps pa) = false.

(** the part of the world's well-formedness the laws need *)
Definition world_ok (pfx : str) (w : world) : Prop :=
  wf (st_fs (w_st w)) /\ keys_good (st_fs (w_st w)) /\ is_dir_at (st_fs (w_st w)) (comps pfx) /\
  direct (st_fs (w_st w)) pfx.
