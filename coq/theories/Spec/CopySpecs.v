(** Statements (as [Prop] definitions) of the specifications of the copying
    helpers of fs_utils.go and of tryBackup/backupDirs over two filesystems
    satisfying the laws.  Proved in Proofs/BackupCopy.v and
    Proofs/BackupTry.v; used by the step and rollback theorems. *)
From stdpp Require Import gmap.
From BFS Require Export Spec.Inv.

Section CopySpecs.
  (** [a] is the filesystem written to (view [V]), [a'] the one read from (view [V']) *)
  Variables a a' : fsapi.
  Variables V V' : world -> store.
  Variables tn tn' : str -> str.
  Variables acc acc' : str -> str -> Prop.
  Variables rh rh' wh wh' : fhandle -> str -> nat -> Prop.
  Variables hid hid' anc anc' : str -> Prop.

  Definition La := api_laws a V V' tn acc rh wh hid anc.
  Definition La' := api_laws a' V' V tn' acc' rh' wh' hid' anc'.

  Definition meta_of_info (fi : finfo) (m : meta) : Prop :=
    m_perm m = N.land (fi_perm fi) 4095 /\ Z.of_N (m_uid m) = fi_uid fi /\ Z.of_N (m_gid m) = fi_gid fi.

  (** the world after a step that only changed this filesystem *)
  Definition step_post (w w' : world) (touched : list str) : Prop :=
    same_rest V' w w' /\ swf (V w') /\ store_eqv_except touched (V w') (V w).

  (** files larger than the copy loop's budget are outside the model (128 MiB) *)
  Definition small (c : list N) : Prop := (length c < chunk_size * (tree_fuel - 2))%nat.

  Definition copy_dir_root_stmt : Prop :=
    forall w fi, fi_kind fi = KDir -> copy_dir a s_root fi w = (MOk tt, w).

  Definition copy_dir_stmt : Prop :=
    La -> forall w p fi,
    quiet w -> swf (V w) -> sdirect (V w) p -> p <> s_root -> fi_kind fi = KDir ->
    (0 <= fi_uid fi)%Z -> (0 <= fi_gid fi)%Z ->
    (V w !! p = None \/ sdir (V w) p) -> ~ hid p ->
    exists w' m', copy_dir a p fi w = (MOk tt, w') /\ step_post w w' [p] /\
                  V w' !! p = Some (Dir m') /\ meta_of_info fi m'.

  Definition copy_dir_badinfo_stmt : Prop :=
    forall w p fi, fi_kind fi <> KDir -> exists e, copy_dir a p fi w = (MErr e, w).

  (** [src] is an open read handle at offset 0 on the file [ps] of the other filesystem *)
  Definition copy_file_stmt : Prop :=
    La -> La' -> forall w p fi src ps ms c,
    quiet w -> swf (V w) -> swf (V' w) -> sdirect (V w) p -> fi_kind fi = KFile ->
    (0 <= fi_uid fi)%Z -> (0 <= fi_gid fi)%Z ->
    (V w !! p = None \/ exists m0 c0, V w !! p = Some (File m0 c0)) ->
    rh' src ps 0 -> V' w !! ps = Some (File ms c) -> small c -> ~ hid p ->
    exists w' m', copy_file a p fi src w = (MOk tt, w') /\ step_post w w' [p] /\
                  V w' !! p = Some (File m' c) /\ meta_of_info fi m' /\ m_mt m' = fi_mt fi.

  Definition copy_symlink_stmt : Prop :=
    La -> La' -> forall w p fi ms t,
    quiet w -> swf (V w) -> swf (V' w) -> snolinkpar (V' w) p -> V' w !! p = Some (Link ms t) ->
    sdirect (V w) p -> V w !! p = None -> fi_kind fi = KLink ->
    (0 <= fi_uid fi)%Z -> (0 <= fi_gid fi)%Z -> t <> [] -> acc t p -> ~ hid p ->
    exists w' m', copy_symlink a' a p fi w = (MOk tt, w') /\ step_post w w' [p] /\
                  V w' !! p = Some (Link m' (tn t)) /\ m_perm m' = 511 /\
                  Z.of_N (m_uid m') = fi_uid fi /\ Z.of_N (m_gid m') = fi_gid fi.

  Definition lexists_stmt : Prop :=
    La -> forall w p, quiet w -> swf (V w) -> snolinkpar (V w) p ->
    exists w', lexists a p w = (MOk (match V w !! p with Some _ => true | None => false end), w') /\
               V w' = V w /\ same_rest V' w w'.
End CopySpecs.

Section TrySpecs.
  Variables base backup : fsapi.
  Variables Vb Vk : world -> store.
  Variables tnb tnk : str -> str.
  Variables accb acck : str -> str -> Prop.
  Variables rhb rhk whb whk : fhandle -> str -> nat -> Prop.
  Variables hid anc : str -> Prop.
  Variable B0 : store.

  Let Lb := base_laws base Vb Vk tnb accb rhb whb hid anc.
  Let Lk := backup_laws backup Vb Vk tnk acck rhk whk.
  Let Lb2 := base_laws2 base Vb Vk tnb accb rhb whb.
  Let inv := Inv Vb Vk B0.

  Definition all_small (s : store) : Prop := forall p m c, s !! p = Some (File m c) -> small c.

  (** a name already resolved: [realPath] is the identity on it (C16 partial) *)
  Definition real_path_resolved_stmt : Prop :=
    Lb -> forall w n, quiet w -> swf (Vb w) -> snolinkpar (Vb w) n ->
    exists w', real_path base n w = (MOk n, w') /\ Vb w' = Vb w /\ same_rest Vk w w'.

  (** tryBackup: the base is untouched, the invariant is kept whether it
      succeeds or fails; on success the path and all its ancestors are tracked *)
  (** bookkeeping only grows, and only inside [l] *)
  Definition infos_ext (w w' : world) (l : list str) : Prop :=
    (forall q, w_infos w !! q <> None -> w_infos w' !! q = w_infos w !! q) /\
    (forall q, w_infos w' !! q <> None -> w_infos w !! q <> None \/ In q l).

  Definition try_backup_stmt : Prop :=
    Lb -> Lk -> links_ok tnb tnk accb acck B0 -> all_small B0 -> swf B0 ->
    forall w p, inv w -> snolinkpar (Vb w) p ->
    exists r w', try_backup base backup p w = (r, w') /\ r <> MHalt /\ inv w' /\ Vb w' = Vb w /\
                 infos_ext w w' (cands p) /\
                 (r = MOk tt -> tracked w' p /\ Forall (tracked w') (ancestors p)).

  (** the same with the paths given by a predicate *)
  Definition infos_ext_in (w w' : world) (P : str -> Prop) : Prop :=
    (forall q, w_infos w !! q <> None -> w_infos w' !! q = w_infos w !! q) /\
    (forall q, w_infos w' !! q <> None -> w_infos w !! q <> None \/ P q).

  (** every covered operation keeps the invariant (if it leaves no tracked path
      with another type, D13), whether it succeeds or fails; the base has to
      satisfy the reading laws of Spec/Laws2.v as well *)
  Definition step_stmt : Prop :=
    Lb -> Lb2 -> Lk -> links_ok tnb tnk accb acck B0 -> all_small B0 -> swf B0 ->
    forall o w, inv w -> covered Vb o w ->
    exists r w', step base backup o w = (r, w') /\ r <> MHalt /\ (kind_stable Vb w' -> inv w') /\
                 infos_ext_in w w' (op_touches o).

  (** Rollback from any state satisfying the invariant: returns nil, the base
      is back (directory timestamps and the root's own metadata aside), the
      backup holds nothing any more, nothing is tracked *)
  Definition rollback_stmt : Prop :=
    Lb -> Lk -> links_ok tnb tnk accb acck B0 -> all_small B0 -> swf B0 -> loc_ok hid anc B0 ->
    forall w, inv w ->
    exists w', b_rollback base backup w = (MOk tt, w') /\ quiet w' /\
               store_eqv (Vb w') B0 /\ (forall p, p <> s_root -> Vk w' !! p = None) /\
               w_infos w' = ∅.

  Inductive good_run : world -> list op -> world -> Prop :=
    | gr_nil w : good_run w [] w
    | gr_cons w o ops r w1 w2 :
        covered Vb o w -> step base backup o w = (r, w1) -> kind_stable Vb w1 ->
        good_run w1 ops w2 -> good_run w (o :: ops) w2.

  (** the initial state satisfies the invariant *)
  Definition initial_inv_stmt : Prop :=
    forall w0, initial Vb Vk tnb tnk accb acck B0 w0 -> inv w0.

  Definition c01_stmt : Prop :=
    Lb -> Lb2 -> Lk -> all_small B0 ->
    forall w0 ops w, initial Vb Vk tnb tnk accb acck B0 w0 -> good_run w0 ops w ->
    exists w', b_rollback base backup w = (MOk tt, w') /\
               store_eqv (Vb w') B0 /\ (forall p, p <> s_root -> Vk w' !! p = None) /\
               w_infos w' = ∅.
End TrySpecs.
