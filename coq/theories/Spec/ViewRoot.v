(** The concrete view for the layering of the constructors New / NewWithFS
    of the library: the backup location [q] is hidden from the base by
    HiddenFS directly over the OS filesystem (no PrefixFS),

      [ncfg q = mkConfig None [q] q]:
      base   = spy TBase   (hiddenfs [q] osfs)
      backup = spy TBackup (prefixfs q osfs)

    [q] an absolute cleaned path other than the root.  The base view
    [V0H q] is the view [V0] of the WHOLE OS filesystem (keyed by the
    absolute cleaned path of every entry; link targets as they are stored:
    the OS filesystem reports them unchanged) without everything at or below
    [q]; it is defined to be empty unless the world is well formed
    ([world_okb] with the root as prefix: parents are directories, proper
    component names, 12-bit permission words) and [q] exists as a directory.
    Proofs/LawsNew*.v prove the laws of Spec/Laws.v for it. *)
From stdpp Require Import gmap.
From BFS Require Export Spec.ViewOsfs Spec.ViewHidden.

(** the view of the whole filesystem *)
Definition rview_entry (kv : key * node) : option (str * node) := Some (kpath (fst kv), snd kv).

Definition rview (f : fs) : store := list_to_map (omap rview_entry (entries f)).

Definition V0 (w : world) : store :=
  if world_okb s_root (st_fs (w_st w)) then rview (st_fs (w_st w)) else ∅.

Section ViewNew.
  Variable tag : fstag.
  Variable q : str.     (* the backup location *)

  Definition V0H (w : world) : store :=
    match V0 w !! q with
    | Some (Dir _) => base.filter (fun kv : str * node => shownb q (fst kv) = true) (V0 w)
    | _ => ∅
    end.

  (** the base filesystem *)
  Definition hid_api0 : fsapi := spy tag (hiddenfs [q] osfs).

  (** handles (the [hiddenFile] mark is not looked at) *)
  (** the handle predicates do not look at the [hiddenFile] mark; the key of
      the view path [p] is [comps p] ([wkey s_root p], by computation) *)
  Definition rh_0 (x : fhandle) (p : str) (pos : nat) : Prop := rh_p tag s_root (unmark x) p pos.
  Definition wh_0 (x : fhandle) (p : str) (pos : nat) : Prop := wh_p tag s_root (unmark x) p pos.

  Definition acc_0 (t p : str) : Prop := is_hidden (to_abs_symlink t p) [q] = Some false.
End ViewNew.

(** the OS filesystem reports link targets unchanged *)
Definition tn_0 (t : str) : str := t.

(** the layering of New / NewWithFS *)
Definition ncfg (q : str) : config := mkConfig None [q] q.
