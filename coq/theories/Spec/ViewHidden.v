(** The concrete view for the DOCUMENTED layering: the backup location lies
    inside the base tree and is hidden from the base by HiddenFS.

      base   = spy TBase   (hiddenfs [h] (prefixfs pa osfs))
      backup = spy TBackup (prefixfs (pa ++ h) osfs)

    [pa] is the prefix of the base, [h] the view path (absolute, cleaned, not
    the root) of the hidden location, [pa ++ h] its world path.  The view of
    the base is the view [Vp pa] of Spec/ViewOsfs.v without everything at or
    below [h]; as [world_okb] does for the prefix directory, the view is
    defined to be empty (hence not well formed) unless the location exists as
    a directory, so that the laws speak about the worlds in which the layering
    is set up.  Proofs/LawsHidden*.v prove [api_laws] (Spec/Laws.v, with
    [hid]/[anc] instantiated by [hid_h]/[anc_h]) for it. *)
From stdpp Require Import gmap.
From BFS Require Export Spec.ViewOsfs Layers.LayerSpec.

Section ViewHidden.
  Variable tag : fstag.
  Variable pa : str.          (* the prefix of the base *)
  Variable h : str.           (* the hidden location, as a view path of the base *)

  (** the world path of the location: the prefix of the backup filesystem *)
  Definition pk_h : str := pa ++ h.

  (** at or below the hidden location (any spelling; all view paths the laws
      speak about are absolute and cleaned) *)
  Definition hid_h (p : str) : Prop := below (hidden_norm [h]) p.

  (** proper ancestor of the hidden location *)
  Definition anc_h (p : str) : Prop := In p (ancestors h).

  (** [p] is not at or below the location (component-wise, decidable) *)
  Definition shownb (p : str) : bool := negb (key_prefixb (comps h) (comps p)).

  Definition VpH (w : world) : store :=
    match Vp pa w !! h with
    | Some (Dir _) => base.filter (fun kv : str * node => shownb (fst kv) = true) (Vp pa w)
    | _ => ∅
    end.

  (** the base filesystem *)
  Definition hid_api : fsapi := spy tag (hiddenfs [h] (prefixfs pa osfs)).

  (** the handle Open/OpenFile/Create of [hid_api] return is the handle of
      [the_api tag pa] with the [hiddenFile] mark; the predicates do not look
      at the mark *)
  Definition unmark (x : fhandle) : fhandle := mkFh (fh x) (fh_name x) (fh_spy x) None.

  Definition rh_h (x : fhandle) (p : str) (pos : nat) : Prop := rh_p tag pa (unmark x) p pos.
  Definition wh_h (x : fhandle) (p : str) (pos : nat) : Prop := wh_p tag pa (unmark x) p pos.

  (** Symlink accepts a (target, location) pair iff PrefixFS forwards it and
      HiddenFS does not find the lexical target at or below the location *)
  Definition acc_h (t p : str) : Prop :=
    acc_p pa t p /\ is_hidden (to_abs_symlink t p) [h] = Some false.
End ViewHidden.

(** side conditions on the location *)
Definition hidden_ok (h : str) : Prop := abs_cleaned h /\ h <> s_root.

(** the documented layering *)
Definition dcfg (pa h : str) : config := mkConfig (Some pa) [h] (pa ++ h).
