(** "At every instant": crash points, the laws a filesystem has to satisfy in
    a world with a crash point, and the statement that originals stay
    recoverable at every primitive call inside an operation (second half of
    property C02).

    The state "at instant [k]" of a computation [m] started in the quiet
    world [w] is the world in which [m (set_crash w (Some k))] halts: the spy
    layer ([spied] of Base/Monad.v) stops the whole computation, world
    unchanged, at the first primitive call made when [k] calls have been made.

    Proofs: Proofs/AlwaysLib.v (rules), Proofs/AlwaysTry.v (tryBackup and the
    covered operations), Proofs/AlwaysRollback.v (Rollback),
    Proofs/LawsOsfsCrash.v (the crash laws for the concrete layered OS
    filesystem and the closed theorems). *)
From stdpp Require Import gmap.
From BFS Require Export Spec.CopySpecs.

(** * Crash points *)

(** replace the crash point (the same function as [with_crash] of Backup/History.v) *)
Definition set_crash (w : world) (c : option N) : world :=
  mkWorld (w_st w) (w_trace w) (w_ticks w) c (w_faults w) (w_infos w).

(** [I] holds in every world in which [m], started in [w] with a crash point,
    halts *)
Definition always {A} (I : world -> Prop) (m : M A) (w : world) : Prop :=
  forall k wh, m (set_crash w (Some k)) = (MHalt, wh) -> I wh.

(** the compositional form: the run with crash point [k] either halts in a
    world that - crash point removed - satisfies [I], or it agrees with the
    run without crash point and leaves the crash point alone *)
Definition safe {A} (I : world -> Prop) (m : M A) (w : world) : Prop :=
  forall k r w', m (set_crash w (Some k)) = (r, w') ->
    (r = MHalt /\ I (set_crash w' None)) \/
    (exists w1, m w = (r, w1) /\ w' = set_crash w1 (Some k)).

(** one primitive call: in a quiet world it ends in a quiet world; with a
    crash point it either halts at once, world unchanged, or does exactly
    what it does without (the crash point stays) *)
Definition atomic {A} (m : M A) : Prop :=
  forall w, quiet w -> exists r w', m w = (r, w') /\ quiet w' /\
    forall k, m (set_crash w (Some k)) = (MHalt, set_crash w (Some k)) \/
              m (set_crash w (Some k)) = (r, set_crash w' (Some k)).

(** the tick-faithful form (what [spied] does): the call halts iff the crash
    point has been reached, and counts otherwise *)
Definition uniform {A} (m : M A) : Prop :=
  forall w k, quiet w ->
    (N.leb k (w_ticks w) = true ->
       m (set_crash w (Some k)) = (MHalt, set_crash w (Some k))) /\
    (N.leb k (w_ticks w) = false ->
       forall r w', m w = (r, w') ->
         m (set_crash w (Some k)) = (r, set_crash w' (Some k)) /\ w_ticks w' = N.succ (w_ticks w)).

(** a computation that makes no primitive call: it never halts and does not
    look at the crash point *)
Definition silent {A} (m : M A) : Prop :=
  forall w c, exists r w', m w = (r, w') /\ r <> MHalt /\ m (set_crash w c) = (r, set_crash w' c).

(** * The crash laws of a filesystem with view [V]

    Every method is one primitive call; the view does not look at the crash
    point; reading from, listing, closing a handle and asking it for its info
    change no view (whatever handle). *)
Record api_crash_laws (a : fsapi) (V : world -> store) : Prop := {
  claw_view : forall w c, V (set_crash w c) = V w;
  claw_lstat : forall p, atomic (a_lstat a p);
  claw_stat : forall p, atomic (a_stat a p);
  claw_readlink : forall p, atomic (a_readlink a p);
  claw_open : forall p, atomic (a_open a p);
  claw_openfile : forall p fl perm, atomic (a_openfile a p fl perm);
  claw_create : forall p, atomic (a_create a p);
  claw_mkdir : forall p perm, atomic (a_mkdir a p perm);
  claw_mkdirall : forall p perm, atomic (a_mkdirall a p perm);
  claw_remove : forall p, atomic (a_remove a p);
  claw_removeall : forall p, atomic (a_removeall a p);
  claw_rename : forall o n, atomic (a_rename a o n);
  claw_chmod : forall p m, atomic (a_chmod a p m);
  claw_chown : forall p u g, atomic (a_chown a p u g);
  claw_lchown : forall p u g, atomic (a_lchown a p u g);
  claw_chtimes : forall p t, atomic (a_chtimes a p t);
  claw_symlink : forall t p, atomic (a_symlink a t p);
  claw_hread : forall h w r w', hread h w = (r, w') -> V w' = V w;
  claw_hclose : forall h w r w', hclose h w = (r, w') -> V w' = V w;
  claw_hstat : forall h w r w', hstat h w = (r, w') -> V w' = V w;
  claw_hreaddirnames : forall h w r w', hreaddirnames h w = (r, w') -> V w' = V w
}.

(** * Recoverable states *)

Section Recoverable.
  Variables Vb Vk : world -> store.
  Variable B0 : store.

  (** a copy that is still being written: a directory whose mode, owner and
      times are not yet adjusted; a regular file holding a prefix of the
      original's content, whatever its metadata; a symlink with the right
      target whose owner is not yet adjusted *)
  Definition growing_copy (n0 nk : node) : Prop :=
    match n0, nk with
    | Dir _, Dir _ => True
    | File _ c0, File _ c => exists rest, c0 = c ++ rest
    | Link _ t0, Link _ t => t = t0
    | _, _ => False
    end.

  (** every original is intact at its path in the base or copied at the same
      path in the backup; the backup holds nothing but copies of originals, at
      most one of them - the one being written - still incomplete *)
  Definition recoverable (w : world) : Prop :=
    (forall p n0, B0 !! p = Some n0 -> p <> s_root ->
       sonode_eqv (Vb w !! p) (Some n0) \/ exists nk, Vk w !! p = Some nk /\ copy_of n0 nk) /\
    (exists wp, forall p nk, p <> s_root -> Vk w !! p = Some nk ->
       exists n0, B0 !! p = Some n0 /\ (copy_of n0 nk \/ (p = wp /\ growing_copy n0 nk))).

  (** the form of the task statement (no bound on the number of incomplete copies) *)
  Definition recoverable_weak (w : world) : Prop :=
    (forall p n0, B0 !! p = Some n0 -> p <> s_root ->
       sonode_eqv (Vb w !! p) (Some n0) \/ exists nk, Vk w !! p = Some nk /\ copy_of n0 nk) /\
    (forall p nk, p <> s_root -> Vk w !! p = Some nk ->
       exists n0, B0 !! p = Some n0 /\ (copy_of n0 nk \/ growing_copy n0 nk)).
End Recoverable.

(** * Statements *)

Section Statements.
  Variables base backup : fsapi.
  Variables Vb Vk : world -> store.
  Variables tnb tnk : str -> str.
  Variables accb acck : str -> str -> Prop.
  Variables rhb rhk whb whk : fhandle -> str -> nat -> Prop.
  Variables hid anc : str -> Prop.
  Variable B0 : store.

  Let Lb := base_laws base Vb Vk tnb accb rhb whb hid anc.
  Let Lk := backup_laws backup Vb Vk tnk acck rhk whk.
  Let Lb2 := base_laws2 base Vb Vk tnb accb rhb whb.
  Let Cb := api_crash_laws base Vb.
  Let Ck := api_crash_laws backup Vk.
  Let inv := Inv Vb Vk B0.
  Let recov := recoverable Vb Vk B0.

  (** at every instant of [tryBackup] *)
  Definition try_backup_always_stmt : Prop :=
    Lb -> Lk -> Cb -> Ck -> links_ok tnb tnk accb acck B0 -> all_small B0 -> swf B0 ->
    forall w p, inv w -> snolinkpar (Vb w) p -> always recov (try_backup base backup p) w.

  (** at every instant of every covered operation *)
  Definition step_always_stmt : Prop :=
    Lb -> Lb2 -> Lk -> Cb -> Ck -> links_ok tnb tnk accb acck B0 -> all_small B0 -> swf B0 ->
    forall o w, inv w -> covered Vb o w -> always recov (step base backup o) w.

  (** at every instant of a history of covered operations: wherever the run
      with a crash point stops (or if it does not stop at all) *)
  Definition run_always_stmt : Prop :=
    Lb -> Lb2 -> Lk -> Cb -> Ck -> all_small B0 ->
    forall w0 ops w, initial Vb Vk tnb tnk accb acck B0 w0 -> good_run base backup Vb w0 ops w ->
    forall k outs wh, run_ops base backup ops (set_crash w0 (Some k)) = (outs, wh) -> recov wh.

  (** at every instant of Rollback, from any state satisfying the invariant *)
  Definition rollback_always_stmt : Prop :=
    Lb -> Lk -> Cb -> Ck -> links_ok tnb tnk accb acck B0 -> all_small B0 -> swf B0 -> loc_ok hid anc B0 ->
    forall w, inv w -> always recov (b_rollback base backup) w.

  (** ... and of a history followed by Rollback *)
  Definition run_rollback_always_stmt : Prop :=
    Lb -> Lb2 -> Lk -> Cb -> Ck -> all_small B0 ->
    forall w0 ops w, initial Vb Vk tnb tnk accb acck B0 w0 -> good_run base backup Vb w0 ops w ->
    forall k outs wh, run_ops base backup (ops ++ [ORollback]) (set_crash w0 (Some k)) = (outs, wh) ->
    recov wh.
End Statements.
