(** The transaction invariant of BackupFS over two filesystems that satisfy
    the laws of Spec/Laws.v, and the statements of the central theorems
    (proved in Proofs/Backup*.v).

    [B0] is the base view when the transaction began.  The backup filesystem
    starts with nothing but its root directory (foreign content: see C13). *)
From stdpp Require Import gmap.
From BFS Require Export Spec.Laws Spec.Laws2.

Section Inv.
  Variables base backup : fsapi.
  Variables Vb Vk : world -> store.
  Variables tnb tnk : str -> str.
  Variables accb acck : str -> str -> Prop.
  Variables rhb rhk : fhandle -> str -> nat -> Prop.
  Variables whb whk : fhandle -> str -> nat -> Prop.
  (** what the base hides (HiddenFS): paths at or below a hidden location, and
      the proper ancestors of one; the backup filesystem hides nothing *)
  Variables hid anc : str -> Prop.

  Definition base_laws := api_laws base Vb Vk tnb accb rhb whb hid anc.
  Definition backup_laws := api_laws backup Vk Vb tnk acck rhk whk nohid nohid.
  (** the reading laws of Spec/Laws2.v are needed for the base only *)
  Definition base_laws2 := api_laws2 base Vb Vk tnb accb rhb whb.

  Variable B0 : store.

  (** the backup copy of an original node: exact for files and links,
      mode and owner for directories *)
  Definition copy_of (n0 : node) (nk : node) : Prop :=
    match n0 with
    | Dir m0 => exists mk, nk = Dir mk /\ meta_eq_nomt mk m0
    | _ => snode_eqv nk n0
    end.

  (** what the initial tree has to look like (quantifier of C01, and the
      recorded findings K2/K3 as preconditions): link targets are in the normal
      form both filesystems report, and both accept them *)
  Definition links_ok (s : store) : Prop :=
    forall p m t, s !! p = Some (Link m t) ->
      tnb t = t /\ tnk t = t /\ t <> [] /\ accb t p /\ acck t p /\ m_perm m = 511.

  Definition tracked (w : world) (q : str) : Prop := w_infos w !! q <> None.

  Record Inv (w : world) : Prop := mkInv {
    inv_quiet : quiet w;
    inv_wf_b : swf (Vb w);
    inv_wf_k : swf (Vk w);
    (** untracked paths are as they were (directory and link timestamps aside) *)
    inv_untracked : forall p, w_infos w !! p = None -> sonode_eqv (Vb w !! p) (B0 !! p);
    (** tracked "did not exist" *)
    inv_none : forall p, w_infos w !! p = Some None -> B0 !! p = None;
    (** tracked "existed": the info is the original's, and (except for the
        root) the backup holds a copy at the same path *)
    inv_some : forall p fi, w_infos w !! p = Some (Some fi) ->
                 exists n0, B0 !! p = Some n0 /\ info_matches fi n0 /\
                            (p = s_root \/ exists nk, Vk w !! p = Some nk /\ copy_of n0 nk);
    (** tracked paths are resolved; the ancestors of a tracked original are tracked *)
    inv_abs : forall p, tracked w p -> abs_cleaned p;
    inv_closed : forall p fi, w_infos w !! p = Some (Some fi) -> Forall (tracked w) (ancestors p);
    inv_nolink : forall p, tracked w p -> snolinkpar (Vb w) p;
    (** the backup holds nothing but those copies *)
    inv_backup_only : forall p, p <> s_root -> Vk w !! p <> None ->
                        exists fi, w_infos w !! p = Some (Some fi);
    (** no tracked path changed its type (recorded finding D13 excluded) *)
    inv_kind : forall p fi n, w_infos w !! p = Some (Some fi) -> Vb w !! p = Some n ->
                 node_kind n = fi_kind fi
  }.

  (** the state in which a transaction begins *)
  Definition initial (w : world) : Prop :=
    quiet w /\ w_infos w = ∅ /\ Vb w = B0 /\ swf B0 /\ links_ok B0 /\
    (forall p, p <> s_root -> Vk w !! p = None) /\ swf (Vk w).

  (** a name that is already resolved in the current base view: cleaned,
      absolute, no symlink among its parents *)
  Definition resolved (w : world) (n : str) : Prop := snolinkpar (Vb w) n.

  (** the operations covered by the step theorem: the mutating ones resolve
      their name(s), back them up, and issue one call (OpenWrite, Create: and
      write through the handle) on the base; RemoveAll looks at the target
      and removes a directory entry by entry (Walk); the read-only ones
      (and OpenFile with flags 0) are forwarded to the base as they are *)
  Inductive simple_op : op -> Prop :=
    | SoCreate n d : simple_op (OCreate n d)
    | SoOpenWrite n fl perm d : simple_op (OOpenWrite n fl perm d)
    | SoMkdir n perm : simple_op (OMkdir n perm)
    | SoMkdirAll n perm : simple_op (OMkdirAll n perm)
    | SoRemove n : simple_op (ORemove n)
    | SoRemoveAll n : simple_op (ORemoveAll n)
    | SoRename o n : simple_op (ORename o n)
    | SoSymlink t n : simple_op (OSymlink t n)
    | SoChmod n m : simple_op (OChmod n m)
    | SoChown n u g : simple_op (OChown n u g)
    | SoLchown n u g : simple_op (OLchown n u g)
    | SoChtimes n t : simple_op (OChtimes n t)
    | SoStat n : simple_op (OStat n)
    | SoLstat n : simple_op (OLstat n)
    | SoReadlink n : simple_op (OReadlink n)
    | SoRead n : simple_op (ORead n)
    | SoReaddir n : simple_op (OReaddir n).

  (** the names an operation hands to BackupFS (Rename: source, then target) *)
  Definition op_names (o : op) : list str :=
    match o with
    | OCreate n _ | OOpenWrite n _ _ _ | OMkdir n _ | OMkdirAll n _ | ORemove n | ORemoveAll n
    | OSymlink _ n | OChmod n _ | OChown n _ _ | OLchown n _ _ | OChtimes n _
    | OStat n | OLstat n | OReadlink n | ORead n | OReaddir n => [n]
    | ORename o n => [o; n]
    | _ => []
    end.

  (** the first of them *)
  Definition op_name (o : op) : str :=
    match op_names o with n :: _ => n | [] => [] end.

  (** operations that descend into the directory they name *)
  Definition deep (o : op) : bool := match o with ORemoveAll _ => true | _ => false end.

  (** the paths at which an operation may add bookkeeping: those on the chain
      from the root to one of its names or - for a deep operation - to
      something below one of its names *)
  Definition op_touches (o : op) (q : str) : Prop :=
    exists n s, In n (op_names o) /\ (s = n \/ (deep o = true /\ In n (ancestors s))) /\
                In q (cands s).

  (** mutating operations that follow a symlink in the final component
      (recorded finding D14); OpenFile with flags 0 is forwarded without backup *)
  Definition follows (o : op) : bool :=
    match o with
    | OCreate _ _ | OChmod _ _ | OChown _ _ _ | OChtimes _ _ => true
    | OOpenWrite _ fl _ _ => negb (N.eqb fl 0)
    | _ => false
    end.

  (** Rename is covered for a source without children in the view (a file, a
      symlink, an empty directory, or nothing at all); a directory with
      entries is the recorded finding "rename of a non-empty directory" *)
  Definition rename_source_leaf (o : op) (w : world) : Prop :=
    match o with ORename old _ => no_children (Vb w) old | _ => True end.

  (** Remove and RemoveAll of the root itself are not covered (recorded finding "removes
      the root"); everything else is: nothing, a file, a symlink, a directory
      with whatever lies below it *)
  Definition removeall_not_root (o : op) : Prop :=
    match o with ORemoveAll n | ORemove n => n <> s_root | _ => True end.

  (** the side conditions under which an operation is covered: its names are
      resolved, it does not follow a final symlink, and the two restrictions
      above (that it does not leave a tracked path with another type, D13, is
      [kind_stable] of the state it ends in: see [step_stmt], [good_run]) *)
  Definition covered (o : op) (w : world) : Prop :=
    simple_op o /\ Forall (resolved w) (op_names o) /\
    (follows o = true -> Forall (snotlink (Vb w)) (op_names o)) /\
    rename_source_leaf o w /\ removeall_not_root o.

  Definition kind_stable (w' : world) : Prop :=
    (forall p fi n, w_infos w' !! p = Some (Some fi) -> Vb w' !! p = Some n -> node_kind n = fi_kind fi) /\
    (forall p, w_infos w' !! p <> None -> snolinkpar (Vb w') p).
End Inv.
