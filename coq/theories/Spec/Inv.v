(** The transaction invariant of BackupFS over two filesystems that satisfy
    the laws of Spec/Laws.v, and the statements of the central theorems
    (proved in Proofs/Backup*.v).

    [B0] is the base view when the transaction began.  The backup filesystem
    starts with nothing but its root directory (foreign content: see C13). *)
From stdpp Require Import gmap.
From BFS Require Export Spec.Laws.

Section Inv.
  Variables base backup : fsapi.
  Variables Vb Vk : world -> store.
  Variables tnb tnk : str -> str.
  Variables accb acck : str -> str -> Prop.
  Variables rhb rhk : fhandle -> str -> nat -> Prop.
  Variables whb whk : fhandle -> str -> nat -> Prop.

  Definition base_laws := api_laws base Vb Vk tnb accb rhb whb.
  Definition backup_laws := api_laws backup Vk Vb tnk acck rhk whk.

  Variable B0 : store.

  (** the backup copy of an original node: exact for files and links,
      mode and owner for directories *)
  Definition copy_of (n0 : node) (nk : node) : Prop :=
    match n0 with
    | Dir m0 => exists mk, nk = Dir mk /\ meta_eq_nomt mk m0
    | _ => snode_eqv nk n0
    end.

  (** what the initial tree has to look like (quantifier of C01, and the
      recorded findings K2/K3 as preconditions): link targets are in the normal
      form both filesystems report, and both accept them *)
  Definition links_ok (s : store) : Prop :=
    forall p m t, s !! p = Some (Link m t) ->
      tnb t = t /\ tnk t = t /\ t <> [] /\ accb t p /\ acck t p /\ m_perm m = 511.

  Definition tracked (w : world) (q : str) : Prop := w_infos w !! q <> None.

  Record Inv (w : world) : Prop := mkInv {
    inv_quiet : quiet w;
    inv_wf_b : swf (Vb w);
    inv_wf_k : swf (Vk w);
    (** untracked paths are as they were (directory and link timestamps aside) *)
    inv_untracked : forall p, w_infos w !! p = None -> sonode_eqv (Vb w !! p) (B0 !! p);
    (** tracked "did not exist" *)
    inv_none : forall p, w_infos w !! p = Some None -> B0 !! p = None;
    (** tracked "existed": the info is the original's, and (except for the
        root) the backup holds a copy at the same path *)
    inv_some : forall p fi, w_infos w !! p = Some (Some fi) ->
                 exists n0, B0 !! p = Some n0 /\ info_matches fi n0 /\
                            (p = s_root \/ exists nk, Vk w !! p = Some nk /\ copy_of n0 nk);
    (** tracked paths are resolved; the ancestors of a tracked original are tracked *)
    inv_abs : forall p, tracked w p -> abs_cleaned p;
    inv_closed : forall p fi, w_infos w !! p = Some (Some fi) -> Forall (tracked w) (ancestors p);
    inv_nolink : forall p, tracked w p -> snolinkpar (Vb w) p;
    (** the backup holds nothing but those copies *)
    inv_backup_only : forall p, p <> s_root -> Vk w !! p <> None ->
                        exists fi, w_infos w !! p = Some (Some fi);
    (** no tracked path changed its type (recorded finding D13 excluded) *)
    inv_kind : forall p fi n, w_infos w !! p = Some (Some fi) -> Vb w !! p = Some n ->
                 node_kind n = fi_kind fi
  }.

  (** the state in which a transaction begins *)
  Definition initial (w : world) : Prop :=
    quiet w /\ w_infos w = ∅ /\ Vb w = B0 /\ swf B0 /\ links_ok B0 /\
    (forall p, p <> s_root -> Vk w !! p = None) /\ swf (Vk w).

  (** a name that is already resolved in the current base view: cleaned,
      absolute, no symlink among its parents *)
  Definition resolved (w : world) (n : str) : Prop := snolinkpar (Vb w) n.

  (** the operations of the first proof phase (each: resolve, back up, one base call) *)
  Inductive simple_op : op -> Prop :=
    | SoCreate n d : simple_op (OCreate n d)
    | SoMkdir n perm : simple_op (OMkdir n perm)
    | SoRemove n : simple_op (ORemove n)
    | SoSymlink t n : simple_op (OSymlink t n)
    | SoChmod n m : simple_op (OChmod n m)
    | SoChown n u g : simple_op (OChown n u g)
    | SoLchown n u g : simple_op (OLchown n u g)
    | SoChtimes n t : simple_op (OChtimes n t).

  Definition op_name (o : op) : str :=
    match o with
    | OCreate n _ | OMkdir n _ | ORemove n | OSymlink _ n | OChmod n _ | OChown n _ _
    | OLchown n _ _ | OChtimes n _ => n
    | _ => []
    end.

  (** operations that follow a symlink in the final component (recorded finding D14) *)
  Definition follows (o : op) : bool :=
    match o with OCreate _ _ | OChmod _ _ | OChown _ _ _ | OChtimes _ _ => true | _ => false end.

  (** the side conditions under which an operation is covered: the name is
      resolved, it does not follow a final symlink, and it does not leave a
      tracked path with another type (D13) *)
  Definition covered (o : op) (w : world) : Prop :=
    simple_op o /\ resolved w (op_name o) /\
    (follows o = true -> snotlink (Vb w) (op_name o)).

  Definition kind_stable (w' : world) : Prop :=
    (forall p fi n, w_infos w' !! p = Some (Some fi) -> Vb w' !! p = Some n -> node_kind n = fi_kind fi) /\
    (forall p, w_infos w' !! p <> None -> snolinkpar (Vb w') p).
End Inv.
