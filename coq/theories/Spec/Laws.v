(** The laws an [fsapi] has to satisfy with respect to its abstract view
    (Spec/View.v).  The theorems about BackupFS in Proofs/Backup*.v assume
    [api_laws] for the base and for the backup filesystem - and nothing else
    about them - so they hold for every layering whose two filesystems
    satisfy the laws.  Proofs/LawsOsfs.v establishes the laws for the
    concrete layered OS filesystem model (so that the end results are closed
    theorems); the laws are exactly what the correspondence check validates
    against the real kernel and the real wrapper layers.

    [hid] / [anc]: what the filesystem hides (HiddenFS): view paths at or
    below a hidden location, and the proper ancestors of one.  Creation is
    promised outside [hid] only, removal of an entry without children in the
    view for entries outside [anc] only (a proper ancestor of a hidden location
    has the location inside).  For a filesystem that hides nothing both are
    [nohid] and the laws are the ones of the generic layering
    (Proofs/LawsOsfs.v); Proofs/LawsHidden*.v instantiate them for the
    documented layering (base = HiddenFS over PrefixFS, the backup location
    inside the base tree). *)
From stdpp Require Import gmap.
From BFS Require Export Spec.View.

Section Laws.
  Variable a : fsapi.                 (* the filesystem *)
  Variable V : world -> store.        (* its view *)
  Variable V' : world -> store.       (* the view of the *other* filesystem *)
  Variable tnorm : str -> str.        (* how this filesystem reports a link target given to Symlink *)
  Variable accepts : str -> str -> Prop.   (* (target, location) pairs Symlink does not refuse *)
  Variable rh : fhandle -> str -> nat -> Prop.  (* read handle on path at offset *)
  Variable wh : fhandle -> str -> nat -> Prop.  (* write handle on path positioned at offset (= current length) *)
  Variable hid : str -> Prop.         (* view paths at or below a location this filesystem hides (HiddenFS) *)
  Variable anc : str -> Prop.         (* proper ancestors of such a location *)

  (** the call succeeds with result [x]; afterwards the view is [s'] *)
  Definition ok_step {A} (m : M A) (w : world) (x : A) (s' : store) : Prop :=
    exists w', m w = (MOk x, w') /\ V w' = s' /\ same_rest V' w w'.

  (** the call fails with an error satisfying [P]; nothing changes *)
  Definition err_step {A} (m : M A) (w : world) (P : errno -> Prop) : Prop :=
    exists e w', m w = (MErr e, w') /\ P e /\ V w' = V w /\ same_rest V' w w'.

  (** whatever happens: no halt, the rest of the world is left alone, the
      view stays well formed and changes at most at [touched] (directory
      timestamps aside) *)
  Definition framed {A} (m : M A) (w : world) (touched : list str) : Prop :=
    exists r w', m w = (r, w') /\ r <> MHalt /\ same_rest V' w w' /\ swf (V w') /\
                 store_eqv_except touched (V w') (V w).

  Definition not_found (e : errno) : Prop := is_not_found e = true.
  Definition any_err (e : errno) : Prop := True.

  Definition with_meta (n : node) (f : meta -> meta) : node := set_meta n (f (node_meta n)).
  Definition set_perm (p : N) (m : meta) : meta := mkMeta (N.land p 4095) (m_uid m) (m_gid m) (m_mt m).
  Definition set_mt (t : mtime) (m : meta) : meta := mkMeta (m_perm m) (m_uid m) (m_gid m) t.

  Definition is_link (n : node) : Prop := exists m t, n = Link m t.
  Definition no_children (s : store) (p : str) : Prop :=
    forall q n, s !! q = Some n -> q <> p -> ~ In p (ancestors q).

  (** two stores agree except for the timestamps of directories (all keys) *)
  Definition dir_mt_only (s t : store) : Prop := forall p, sonode_eqv (s !! p) (t !! p).

  Record api_laws : Prop := {
    (** the view is a view of the filesystem: it does not look at BackupFS's own bookkeeping *)
    law_infos_indep : forall w i, V (with_infos w i) = V w;
    (** ** reading *)
    law_lstat_some : forall w p n, quiet w -> swf (V w) -> snolinkpar (V w) p -> V w !! p = Some n ->
      exists fi, ok_step (a_lstat a p) w fi (V w) /\ info_matches fi n /\ fi_mt fi = m_mt (node_meta n) /\
                 fi_name fi = GoPath.base p;
    law_lstat_none : forall w p, quiet w -> swf (V w) -> snolinkpar (V w) p -> V w !! p = None ->
      err_step (a_lstat a p) w not_found;
    law_readlink : forall w p m t, quiet w -> swf (V w) -> snolinkpar (V w) p -> V w !! p = Some (Link m t) ->
      ok_step (a_readlink a p) w t (V w);
    law_open_file : forall w p m c, quiet w -> swf (V w) -> snolinkpar (V w) p -> V w !! p = Some (File m c) ->
      exists h, ok_step (a_open a p) w h (V w) /\ rh h p 0;
    law_open_err : forall w p, quiet w -> swf (V w) -> snolinkpar (V w) p -> V w !! p = None ->
      err_step (a_open a p) w not_found;
    law_hread : forall w h p pos m c, quiet w -> rh h p pos -> V w !! p = Some (File m c) ->
      match skipn pos c with
      | [] => exists h', ok_step (hread h) w (None, h') (V w)
      | rest => exists h', ok_step (hread h) w (Some (firstn chunk_size rest), h') (V w) /\
                           rh h' p (pos + length (firstn chunk_size rest))
      end;
    law_hstat : forall w h p pos n, quiet w -> rh h p pos -> V w !! p = Some n ->
      exists fi, ok_step (hstat h) w fi (V w) /\ info_matches fi n;
    law_hclose_r : forall w h p pos, quiet w -> rh h p pos -> ok_step (hclose h) w tt (V w);

    (** ** the calls copies are made of (precise) *)
    law_mkdirall_new : forall w p perm, quiet w -> swf (V w) -> sdirect (V w) p -> V w !! p = None ->
      ~ hid p ->
      exists m' s', ok_step (a_mkdirall a p perm) w tt s' /\ s' !! p = Some (Dir m') /\
                    store_eqv_except [p] s' (V w) /\ swf s';
    law_mkdirall_dir : forall w p perm m, quiet w -> swf (V w) -> sdirect (V w) p -> V w !! p = Some (Dir m) ->
      ok_step (a_mkdirall a p perm) w tt (V w);
    law_chmod : forall w p mode n, quiet w -> swf (V w) -> snolinkpar (V w) p -> V w !! p = Some n -> ~ is_link n ->
      ok_step (a_chmod a p mode) w tt (<[ p := with_meta n (set_perm mode) ]> (V w));
    law_chtimes : forall w p t n, quiet w -> swf (V w) -> snolinkpar (V w) p -> V w !! p = Some n -> ~ is_link n ->
      ok_step (a_chtimes a p t) w tt (<[ p := with_meta n (set_mt t) ]> (V w));
    law_chown : forall w p u g n, quiet w -> swf (V w) -> snolinkpar (V w) p -> V w !! p = Some n -> ~ is_link n ->
      ok_step (a_chown a p u g) w tt (<[ p := chown_node n u g ]> (V w));
    law_lchown : forall w p u g n, quiet w -> swf (V w) -> snolinkpar (V w) p -> V w !! p = Some n ->
      ok_step (a_lchown a p u g) w tt (<[ p := chown_node n u g ]> (V w));
    law_symlink : forall w t p, quiet w -> swf (V w) -> sdirect (V w) p -> V w !! p = None ->
      t <> [] -> accepts t p -> ~ hid p ->
      exists m' s', ok_step (a_symlink a t p) w tt s' /\ s' !! p = Some (Link m' (tnorm t)) /\
                    m_perm m' = 511 /\ store_eqv_except [p] s' (V w) /\ swf s';
    (** create or truncate a regular file for writing (flags O_RDWR|O_CREATE|O_TRUNC) *)
    law_openfile_new : forall w p perm, quiet w -> swf (V w) -> sdirect (V w) p -> V w !! p = None ->
      ~ hid p ->
      exists h m' s', ok_step (a_openfile a p 578 perm) w h s' /\ wh h p 0 /\ s' !! p = Some (File m' []) /\
                      store_eqv_except [p] s' (V w) /\ swf s';
    law_openfile_trunc : forall w p perm m c, quiet w -> swf (V w) -> snolinkpar (V w) p -> V w !! p = Some (File m c) ->
      exists h t', ok_step (a_openfile a p 578 perm) w h (<[ p := File (set_mt t' m) [] ]> (V w)) /\ wh h p 0;
    law_hwrite : forall w h p pos m c data, quiet w -> wh h p pos -> V w !! p = Some (File m c) -> length c = pos ->
      exists h' t', ok_step (hwrite h data) w h' (<[ p := File (set_mt t' m) (c ++ data) ]> (V w)) /\
                    wh h' p (pos + length data);
    law_hclose_w : forall w h p pos, quiet w -> wh h p pos -> ok_step (hclose h) w tt (V w);
    law_remove_leaf : forall w p n, quiet w -> swf (V w) -> snolinkpar (V w) p -> V w !! p = Some n ->
      no_children (V w) p -> p <> s_root -> ~ anc p ->
      exists s', ok_step (a_remove a p) w tt s' /\ s' !! p = None /\ store_eqv_except [p] s' (V w) /\ swf s';
    (** RemoveAll of a non-directory is Remove *)
    law_removeall_leaf : forall w p n, quiet w -> swf (V w) -> snolinkpar (V w) p -> V w !! p = Some n ->
      node_kind n <> KDir -> p <> s_root ->
      exists s', ok_step (a_removeall a p) w tt s' /\ s' !! p = None /\ store_eqv_except [p] s' (V w) /\ swf s';
    law_remove_none : forall w p, quiet w -> swf (V w) -> snolinkpar (V w) p -> V w !! p = None ->
      err_step (a_remove a p) w not_found;
    law_remove_nonempty : forall w p n, quiet w -> swf (V w) -> snolinkpar (V w) p -> V w !! p = Some n ->
      ~ no_children (V w) p -> err_step (a_remove a p) w any_err;

    (** ** the user's own mutations: only a frame is needed (what they do to the
        entry they name is the base filesystem's business) *)
    law_user_create : forall w p, quiet w -> swf (V w) -> snolinkpar (V w) p -> snotlink (V w) p ->
      framed (a_create a p) w [p];
    law_user_openfile : forall w p fl perm, quiet w -> swf (V w) -> snolinkpar (V w) p -> snotlink (V w) p -> framed (a_openfile a p fl perm) w [p];
    (** writing through / closing a handle the user obtained for [p] touches at most [p] *)
    law_user_handle : forall w p r w1, quiet w -> swf (V w) -> snolinkpar (V w) p -> snotlink (V w) p ->
      (exists fl perm, a_openfile a p fl perm w = (r, w1)) \/ a_create a p w = (r, w1) ->
      forall h data, r = MOk h -> quiet w1 -> swf (V w1) -> framed (write_close h data) w1 [p];
    law_user_mkdir : forall w p perm, quiet w -> swf (V w) -> snolinkpar (V w) p -> framed (a_mkdir a p perm) w [p];
    law_user_mkdirall : forall w p perm, quiet w -> swf (V w) -> snolinkpar (V w) p -> framed (a_mkdirall a p perm) w (cands p);
    (** (removing the root directory of the view itself is the recorded finding K6) *)
    law_user_remove : forall w p, quiet w -> swf (V w) -> snolinkpar (V w) p -> p <> s_root -> framed (a_remove a p) w [p];
    law_user_rename : forall w po pn, quiet w -> swf (V w) -> snolinkpar (V w) po -> snolinkpar (V w) pn ->
      no_children (V w) po -> framed (a_rename a po pn) w [po; pn];
    law_user_chmod : forall w p mode, quiet w -> swf (V w) -> snolinkpar (V w) p -> snotlink (V w) p -> framed (a_chmod a p mode) w [p];
    law_user_chown : forall w p u g, quiet w -> swf (V w) -> snolinkpar (V w) p -> snotlink (V w) p -> framed (a_chown a p u g) w [p];
    law_user_chtimes : forall w p t, quiet w -> swf (V w) -> snolinkpar (V w) p -> snotlink (V w) p -> framed (a_chtimes a p t) w [p];
    law_user_lchown : forall w p u g, quiet w -> swf (V w) -> snolinkpar (V w) p -> framed (a_lchown a p u g) w [p];
    law_user_symlink : forall w t p, quiet w -> swf (V w) -> snolinkpar (V w) p -> framed (a_symlink a t p) w [p];

    (** ** link targets *)
    law_tnorm_idem : forall t, tnorm (tnorm t) = tnorm t;

    (** ** hidden locations (HiddenFS): the view never shows hidden content;
        the proper ancestors of a hidden location are always there, as
        directories, and cannot be removed (the hidden location is inside).
        For a filesystem that hides nothing [hid] and [anc] are empty
        ([nohid]) and these four fields are trivial. *)
    law_hid_absent : forall w p, hid p -> V w !! p = None;
    law_anc_dir : forall w p, anc p -> swf (V w) -> sdir (V w) p;
    law_remove_anc : forall w p, quiet w -> swf (V w) -> anc p -> err_step (a_remove a p) w any_err;
    law_anc_dec : forall p, anc p \/ ~ anc p
  }.
End Laws.

(** nothing is hidden *)
Definition nohid : str -> Prop := fun _ => False.
Lemma not_nohid (p : str) : ~ nohid p.
Proof. intros []. Qed.

(** what the store a transaction begins with has to satisfy with respect to
    the hidden locations of the base (it does, when it is the base view of an
    [initial] state: [law_hid_absent], [law_anc_dir]) *)
Definition loc_ok (hid anc : str -> Prop) (s : store) : Prop :=
  (forall p, hid p -> s !! p = None) /\ (forall p, anc p -> sdir s p).

Lemma loc_ok_nohid (s : store) : loc_ok nohid nohid s.
Proof. split; intros p []. Qed.
