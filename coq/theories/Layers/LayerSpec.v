(** Specification vocabulary for the wrapper layers (component-level). *)
From BFS Require Export Base.Bytes Path.GoPath Path.PathSpec Layers.Call.

(** semantic containment: [p] is [pfx] or below it and does not climb out
    again.  For absolute paths this is [inside]. *)
Definition within (pfx p : str) : Prop :=
  is_abs pfx = is_abs p /\
  exists rest, comps p = comps pfx ++ rest /\ ~ In s_dotdot rest.

Definition withinb (pfx p : str) : bool :=
  insideb pfx p && negb (str_in s_dotdot (skipn (length (comps pfx)) (comps p))).

(** no ".." component (always true of cleaned absolute paths) *)
Definition plain (p : str) : Prop := ~ In s_dotdot (comps p).

(** the path arguments a forwarded call hands to the underlying filesystem *)
Definition path_args (c : call) : list str :=
  match c_meth c with
  | MRename => [c_a c; c_b c]
  | MSymlink => [c_b c]
  | _ => [c_a c]
  end.

(** where a link created by the forwarded call [c] lexically points *)
Definition link_effective_target (c : call) : str :=
  to_abs_symlink (c_a c) (c_b c).

(** [n] (any spelling) is a hidden path or lies below one *)
Definition below (hs : list str) (n : str) : Prop :=
  exists h, In h hs /\ within h (clean n).

(** lexically comparable: same absoluteness, no ".." components *)
Definition comparable (hs : list str) (n : str) : Prop :=
  plain (clean n) /\ Forall (fun h => is_abs h = is_abs (clean n) /\ plain h) hs.

(** [n] is a proper ancestor of some hidden path *)
Definition above_hidden (hs : list str) (n : str) : Prop :=
  exists h, In h hs /\ within (clean n) h /\ clean n <> h.

(** the call with every path argument cleaned the way VolumeFS does *)
Definition vol_clean_call (c : call) : call :=
  match c_meth c with
  | MRename => mkCall MRename (clean (c_a c)) (clean (c_b c)) (c_aux c)
  | MSymlink => mkCall MSymlink (if is_abs (c_a c) then clean (c_a c) else c_a c) (clean (c_b c)) (c_aux c)
  | m => mkCall m (clean (c_a c)) [] (c_aux c)
  end.
