(** The [FS] interface as a record of monadic functions, the OS filesystem,
    the spy (tick) layer, and the three wrapper layers built from their call
    transformers (Layers/Call.v).  Method by method in the order of checks and
    calls of the Go sources. *)
From BFS Require Export Base.Monad Layers.HiddenList Sort.Order.

(** An open file as the layers see it. *)
Record fhandle := mkFh {
  fh : FsModel.handle;                          (* the OS object *)
  fh_name : str;                        (* what File.Name() reports *)
  fh_spy : option (fstag * str);        (* spied: tag and the path it was opened with *)
  fh_hidden : option (str * list str)   (* hiddenFile: its filePath and the hidden paths *)
}.

Record fsapi := mkApi {
  a_lstat : str -> M finfo;
  a_stat : str -> M finfo;
  a_readlink : str -> M str;
  a_open : str -> M fhandle;
  a_openfile : str -> N -> N -> M fhandle;
  a_create : str -> M fhandle;
  a_mkdir : str -> N -> M unit;
  a_mkdirall : str -> N -> M unit;
  a_remove : str -> M unit;
  a_removeall : str -> M unit;
  a_rename : str -> str -> M unit;
  a_chmod : str -> N -> M unit;
  a_chown : str -> Z -> Z -> M unit;
  a_lchown : str -> Z -> Z -> M unit;
  a_chtimes : str -> mtime -> M unit;
  a_symlink : str -> str -> M unit }.

(** * The OS filesystem *)

Definition os_openfile (p : str) (fl perm : N) : M fhandle :=
  h <- fs_upd (fun s => fs_open s p fl perm) ;;
  ret (mkFh h p None None).

Definition osfs : fsapi := {|
  a_lstat p := fs_get (fun s => fs_lstat s p);
  a_stat p := fs_get (fun s => fs_stat s p);
  a_readlink p := fs_get (fun s => fs_readlink s p);
  a_open p := os_openfile p 0 0;
  a_openfile := os_openfile;
  a_create p := os_openfile p 578 438;   (* O_RDWR|O_CREATE|O_TRUNC, 0666 *)
  a_mkdir p perm := fs_upd (fun s => fs_mkdir s p perm);
  a_mkdirall p perm := fs_upd (fun s => fs_mkdirall s p perm);
  a_remove p := fs_upd (fun s => fs_remove s p);
  a_removeall p := fs_upd (fun s => fs_removeall s p);
  a_rename o n := fs_upd (fun s => fs_rename s o n);
  a_chmod p m := fs_upd (fun s => fs_chmod s p m);
  a_chown p u g := fs_upd (fun s => fs_chown s p u g);
  a_lchown p u g := fs_upd (fun s => fs_lchown s p u g);
  a_chtimes p t := fs_upd (fun s => fs_chtimes s p t);
  a_symlink t p := fs_upd (fun s => fs_symlink s t p) |}.

(** * Operations on open files (they go to the OS object; a spied handle ticks) *)

Definition spy_h {A} (h : fhandle) (m : pmeth) (op : M A) : M A :=
  match fh_spy h with
  | Some (t, p) => spied t m p [] op
  | None => op
  end.

Definition set_fh (h : fhandle) (h' : FsModel.handle) : fhandle :=
  mkFh h' (fh_name h) (fh_spy h) (fh_hidden h).

Definition hread (h : fhandle) : M (option (list N) * fhandle) :=
  spy_h h PRead
    (fun w => let '(r, h') := fs_read (w_st w) (fh h) in
              match r with
              | Ok d => (MOk (d, set_fh h h'), w)
              | Err e => (MErr e, w)
              end).

Definition hwrite (h : fhandle) (data : list N) : M fhandle :=
  spy_h h PWrite
    (fun w => let '(r, (s', h')) := fs_write (w_st w) (fh h) data in
              match r with
              | Ok _ => (MOk (set_fh h h'), mkWorld s' (w_trace w) (w_ticks w) (w_crash w) (w_faults w) (w_infos w))
              | Err e => (MErr e, w)
              end).

Definition hclose (h : fhandle) : M unit := spy_h h PClose (ret tt).

Definition hstat (h : fhandle) : M finfo :=
  spy_h h PHStat (fs_get (fun s => fs_hstat s (fh h))).

(** [Readdirnames(-1)] (the only form the code under study uses on real
    directories); a hiddenFile filters the hidden entries *)
Definition hreaddirnames (h : fhandle) : M (list str) :=
  spy_h h PReaddirnames
    (names <- fs_get (fun s => fs_readdirnames s (fh h)) ;;
     match fh_hidden h with
     | None => ret names
     | Some (dirp, hs) =>
         match fst (hidden_list dirp hs (-1) names) with
         | LOk l | LEof l => ret l
         | LErr => fail (ELayer EHiddenCheck)
         end
     end).

(** * The spy layer: one tick per method call *)

Definition spy_handle (t : fstag) (p : str) (h : fhandle) : fhandle :=
  mkFh (fh h) (fh_name h) (Some (t, p)) (fh_hidden h).

Definition spy (t : fstag) (b : fsapi) : fsapi := {|
  a_lstat p := spied t (PM MLstat) p [] (a_lstat b p);
  a_stat p := spied t (PM MStat) p [] (a_stat b p);
  a_readlink p := spied t (PM MReadlink) p [] (a_readlink b p);
  a_open p := spied t (PM MOpen) p [] (h <- a_open b p ;; ret (spy_handle t p h));
  a_openfile p fl perm := spied t (PM MOpenFile) p [] (h <- a_openfile b p fl perm ;; ret (spy_handle t p h));
  a_create p := spied t (PM MCreate) p [] (h <- a_create b p ;; ret (spy_handle t p h));
  a_mkdir p perm := spied t (PM MMkdir) p [] (a_mkdir b p perm);
  a_mkdirall p perm := spied t (PM MMkdirAll) p [] (a_mkdirall b p perm);
  a_remove p := spied t (PM MRemove) p [] (a_remove b p);
  a_removeall p := spied t (PM MRemoveAll) p [] (a_removeall b p);
  a_rename o n := spied t (PM MRename) o n (a_rename b o n);
  a_chmod p m := spied t (PM MChmod) p [] (a_chmod b p m);
  a_chown p u g := spied t (PM MChown) p [] (a_chown b p u g);
  a_lchown p u g := spied t (PM MLchown) p [] (a_lchown b p u g);
  a_chtimes p mt := spied t (PM MChtimes) p [] (a_chtimes b p mt);
  a_symlink tg p := spied t (PM MSymlink) p tg (a_symlink b tg p) |}.

(** * Building a layer from its call transformer *)

Definition mtime_to_z (t : mtime) : Z :=
  match t with Preset n => Z.of_N n | Now i => (- (Z.of_N i) - 1)%Z end.
Definition z_to_mtime (z : Z) : mtime :=
  if (z <? 0)%Z then Now (Z.to_N (- z - 1)) else Preset (Z.to_N z).

Definition aux0 (c : call) : Z := nth 0 (c_aux c) 0%Z.
Definition aux1 (c : call) : Z := nth 1 (c_aux c) 0%Z.

Definition dispatch_unit (b : fsapi) (c : call) : M unit :=
  match c_meth c with
  | MMkdir => a_mkdir b (c_a c) (Z.to_N (aux0 c))
  | MMkdirAll => a_mkdirall b (c_a c) (Z.to_N (aux0 c))
  | MRemove => a_remove b (c_a c)
  | MRemoveAll => a_removeall b (c_a c)
  | MRename => a_rename b (c_a c) (c_b c)
  | MChmod => a_chmod b (c_a c) (Z.to_N (aux0 c))
  | MChown => a_chown b (c_a c) (aux0 c) (aux1 c)
  | MLchown => a_lchown b (c_a c) (aux0 c) (aux1 c)
  | MChtimes => a_chtimes b (c_a c) (z_to_mtime (aux0 c))
  | MSymlink => a_symlink b (c_a c) (c_b c)
  | _ => fail EOther
  end.

Definition dispatch_info (b : fsapi) (c : call) : M finfo :=
  match c_meth c with
  | MStat => a_stat b (c_a c)
  | MLstat => a_lstat b (c_a c)
  | _ => fail EOther
  end.

Definition dispatch_handle (b : fsapi) (c : call) : M fhandle :=
  match c_meth c with
  | MOpen => a_open b (c_a c)
  | MCreate => a_create b (c_a c)
  | MOpenFile => a_openfile b (c_a c) (Z.to_N (aux0 c)) (Z.to_N (aux1 c))
  | _ => fail EOther
  end.

Record layer := mkLayer {
  l_call : call -> outcome;
  l_info : str -> finfo -> finfo;          (* forwarded path -> reported info *)
  l_handle : str -> str -> fhandle -> fhandle;   (* given name, forwarded path *)
  l_link : str -> str;                     (* underlying Readlink answer -> reported *)
  l_multi : fsapi -> fsapi -> call -> M unit   (* base, the layered api itself, call *)
}.

Definition with_outcome {A} (o : outcome) (k : call -> M A) (multi : M A) : M A :=
  match o with
  | Fwd c' => k c'
  | Rej e => fail (ELayer e)
  | Multi => multi
  end.

Definition set_info_name (fi : finfo) (n : str) : finfo :=
  mkFinfo n (fi_kind fi) (fi_perm fi) (fi_uid fi) (fi_gid fi) (fi_mt fi) (fi_size fi).

(** The layered filesystem.  [self] ties the knot for methods that call the
    layer's own methods (HiddenFS.RemoveAll); it is instantiated with a
    bounded unfolding in [layered]. *)
Definition layered_with (l : layer) (b self : fsapi) : fsapi :=
  let one m p aux := l_call l (mkCall m p [] aux) in
  {|
  a_lstat p := with_outcome (one MLstat p [])
                 (fun c' => fi <- dispatch_info b c' ;; ret (l_info l (c_a c') fi)) (fail EOther);
  a_stat p := with_outcome (one MStat p [])
                (fun c' => fi <- dispatch_info b c' ;; ret (l_info l (c_a c') fi)) (fail EOther);
  a_readlink p := with_outcome (one MReadlink p [])
                    (fun c' => t <- a_readlink b (c_a c') ;; ret (l_link l t)) (fail EOther);
  a_open p := with_outcome (one MOpen p [])
                (fun c' => h <- dispatch_handle b c' ;; ret (l_handle l p (c_a c') h)) (fail EOther);
  a_openfile p fl perm := with_outcome (one MOpenFile p [Z.of_N fl; Z.of_N perm])
                (fun c' => h <- dispatch_handle b c' ;; ret (l_handle l p (c_a c') h)) (fail EOther);
  a_create p := with_outcome (one MCreate p [])
                (fun c' => h <- dispatch_handle b c' ;; ret (l_handle l p (c_a c') h)) (fail EOther);
  a_mkdir p perm := with_outcome (one MMkdir p [Z.of_N perm]) (dispatch_unit b) (fail EOther);
  a_mkdirall p perm := with_outcome (one MMkdirAll p [Z.of_N perm]) (dispatch_unit b) (fail EOther);
  a_remove p := with_outcome (one MRemove p []) (dispatch_unit b) (fail EOther);
  a_removeall p := with_outcome (one MRemoveAll p []) (dispatch_unit b)
                     (l_multi l b self (mkCall MRemoveAll p [] []));
  a_rename o n := with_outcome (l_call l (mkCall MRename o n [])) (dispatch_unit b) (fail EOther);
  a_chmod p m := with_outcome (one MChmod p [Z.of_N m]) (dispatch_unit b) (fail EOther);
  a_chown p u g := with_outcome (one MChown p [u; g]) (dispatch_unit b) (fail EOther);
  a_lchown p u g := with_outcome (one MLchown p [u; g]) (dispatch_unit b) (fail EOther);
  a_chtimes p t := with_outcome (one MChtimes p [mtime_to_z t]) (dispatch_unit b) (fail EOther);
  a_symlink tg p := with_outcome (l_call l (mkCall MSymlink tg p [])) (dispatch_unit b) (fail EOther)
  |}.

Definition null_api : fsapi := {|
  a_lstat _ := fail EFUEL; a_stat _ := fail EFUEL; a_readlink _ := fail EFUEL;
  a_open _ := fail EFUEL; a_openfile _ _ _ := fail EFUEL; a_create _ := fail EFUEL;
  a_mkdir _ _ := fail EFUEL; a_mkdirall _ _ := fail EFUEL; a_remove _ := fail EFUEL;
  a_removeall _ := fail EFUEL; a_rename _ _ := fail EFUEL; a_chmod _ _ := fail EFUEL;
  a_chown _ _ _ := fail EFUEL; a_lchown _ _ _ := fail EFUEL; a_chtimes _ _ := fail EFUEL;
  a_symlink _ _ := fail EFUEL |}.

(** HiddenFS.RemoveAll only calls the layer's own Lstat and Remove, which do
    not recurse into RemoveAll: two unfoldings suffice. *)
Definition layered (l : layer) (b : fsapi) : fsapi :=
  layered_with l b (layered_with l b null_api).

(** * Walk (walk.go) *)

Definition read_dir_names (b : fsapi) (dirname : str) : M (list str) :=
  h <- a_open b dirname ;;
  r <- try_ (hreaddirnames h) ;;
  _ <- try_ (hclose h) ;;
  match r with
  | Ok names => ret (sort_strings names)
  | Err e => fail e
  end.

Definition is_dir_info (fi : finfo) : bool :=
  match fi_kind fi with KDir => true | _ => false end.

(** [fn] is the success branch of the callers' callbacks (it threads the
    callers' captured variables as an accumulator); every caller returns the
    error it is handed, so errors simply propagate *)
Fixpoint walk_fold {A} (fuel : nat) (b : fsapi) (path : str) (info : finfo)
         (fn : A -> str -> finfo -> M A) (acc : A) : M A :=
  match fuel with
  | O => fail EFUEL
  | S fuel' =>
      acc1 <- fn acc path info ;;
      if is_dir_info info then
        names <- read_dir_names b path ;;
        mfold (fun a name =>
                 let filename := join2 path name in
                 fi <- a_lstat b filename ;;
                 walk_fold fuel' b filename fi fn a) names acc1
      else ret acc1
  end.

Definition tree_fuel : nat := (64 * 64)%nat.

(** [Walk fsys root walkFn] *)
Definition walk_m {A} (b : fsapi) (root : str) (fn : A -> str -> finfo -> M A) (acc : A) : M A :=
  info <- a_lstat b root ;;
  walk_fold tree_fuel b root info fn acc.

(** * PrefixFS *)

Definition prefix_layer (pfx : str) : layer := {|
  l_call := prefixfs_call pfx;
  l_info p fi := set_info_name fi (prefix_info_reported_name pfx p (fi_name fi));
  l_handle _ p h := mkFh (fh h) (prefix_file_reported_name pfx p (fh_name h)) (fh_spy h) (fh_hidden h);
  l_link := prefixfs_readlink_result pfx;
  l_multi _ _ _ := fail EOther |}.

(** [NewPrefixFS fsys prefixPath] *)
Definition prefixfs (prefixPath : str) (b : fsapi) : fsapi := layered (prefix_layer (clean prefixPath)) b.

(** * VolumeFS (Linux) *)

Definition volume_layer : layer := {|
  l_call := volumefs_call;
  l_info _ fi := fi;
  l_handle _ _ h := h;
  l_link := volumefs_readlink_result;
  l_multi _ _ _ := fail EOther |}.

Definition volumefs (b : fsapi) : fsapi := layered volume_layer b.

(** * HiddenFS *)

(** the walk callback of HiddenFS.RemoveAll: skips hidden entries, collects
    directories, removes everything else through the layer's own Remove *)
Definition hidden_walk_fn (hs : list str) (self : fsapi) (dirs : list str) (path : str) (info : finfo)
  : M (list str) :=
  match is_hidden path hs with
  | None => fail (ELayer EHiddenCheck)
  | Some true => ret dirs
  | Some false =>
      if is_dir_info info then ret (dirs ++ [path])
      else a_remove self path ;;; ret dirs
  end.

(** errors.Is(err, fs.ErrNotExist): ENOENT (and the hidden not-exist error), not ENOTDIR *)
Definition is_enoent (e : errno) : bool :=
  match e with ENOENT | ELayer EHiddenNotExist => true | _ => false end.

Definition hidden_removeall (hs : list str) (b self : fsapi) (name : str) : M unit :=
  r <- try_ (a_lstat self name) ;;
  match r with
  | Err e => if is_enoent e then ret tt else fail e
  | Ok fi =>
      if negb (is_dir_info fi) then a_remove self name
      else
        dirs <- walk_m b name (hidden_walk_fn hs self) [] ;;
        miter (fun d =>
                 match is_parent_of_hidden d hs with
                 | None => fail (ELayer EHiddenCheck)
                 | Some true => ret tt
                 | Some false => a_remove b d
                 end) (sort_most dirs)
  end.

Definition hidden_layer (hs : list str) : layer := {|
  l_call := hiddenfs_call hs;
  l_info _ fi := fi;
  l_handle name _ h := mkFh (fh h) (fh_name h) (fh_spy h) (Some (name, hs));
  l_link t := t;
  l_multi b self c := hidden_removeall hs b self (c_a c) |}.

(** [NewHiddenFS base hiddenPaths...] *)
Definition hiddenfs (hiddenPaths : list str) (b : fsapi) : fsapi :=
  layered (hidden_layer (hidden_norm hiddenPaths)) b.
