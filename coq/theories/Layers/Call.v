(** The three wrapper layers as *call transformers*.

    Every method of PrefixFS / VolumeFS / HiddenFS (except HiddenFS.RemoveAll
    and the directory listings, modelled elsewhere) has the same shape in the
    Go code: map/check the path argument(s); on failure return an error
    without touching the underlying filesystem; otherwise forward exactly one
    call to the underlying filesystem.  [*_call] returns that forwarded call
    ([Fwd]) or the error class ([Rej]).  Non-path arguments (permissions,
    ids, times, flags) are carried opaquely in [c_aux] and pass through. *)
From BFS Require Export Base.Bytes Path.GoPath.

Inductive meth :=
  | MCreate | MMkdir | MMkdirAll | MOpen | MOpenFile | MRemove | MRemoveAll
  | MRename | MStat | MChmod | MChown | MChtimes | MLstat | MSymlink
  | MReadlink | MLchown.

(** For [MRename]: [c_a] = oldname, [c_b] = newname.
    For [MSymlink]: [c_a] = oldname (the target), [c_b] = newname (the link).
    Otherwise [c_a] is the path and [c_b = []]. *)
Record call := mkCall { c_meth : meth; c_a : str; c_b : str; c_aux : list Z }.

Inductive errclass :=
  | EPERM | EHiddenNotExist | EHiddenPerm | EHiddenCheck.

(** [Multi]: the method is implemented by several underlying calls
    (HiddenFS.RemoveAll on a non-hidden name; modelled in Layers/HiddenOps.v). *)
Inductive outcome := Fwd (c : call) | Rej (e : errclass) | Multi.

Definition two_paths (m : meth) : bool :=
  match m with MRename | MSymlink => true | _ => false end.

(** * PrefixFS *)

(** [hasPathPrefix p prefix] (prefixfs.go): [p] is [prefix] or below it, at a
    path-element boundary, and the remainder does not climb. *)
Definition climbs (rest : str) : bool :=
  str_eqb rest s_dotdot || has_prefix rest (s_dotdot ++ [sep]).

Definition ends_with_sep (p : str) : bool :=
  match rev p with c :: _ => N.eqb c sep | [] => false end.

Definition has_path_prefix (p pfx : str) : bool :=
  if str_eqb p pfx then true
  else if str_eqb pfx s_dot then
    if is_abs p then false else negb (climbs p)
  else if ends_with_sep pfx then
    if has_prefix p pfx then negb (climbs (skipn (length pfx) p)) else false
  else
    if has_prefix p (pfx ++ [sep]) then negb (climbs (skipn (S (length pfx)) p)) else false.

(** [PrefixFS.prefixPath] on Linux ([VolumeName] is empty). [pfx] is the
    stored prefix, i.e. already cleaned by [NewPrefixFS]. *)
Definition prefix_path (pfx name : str) : option str :=
  let p := join2 pfx (clean name) in
  if has_path_prefix p pfx then Some p else None.

Definition prefixfs_call (pfx : str) (c : call) : outcome :=
  match c_meth c with
  | MRename =>
      match prefix_path pfx (c_a c) with
      | None => Rej EPERM
      | Some a =>
          match prefix_path pfx (c_b c) with
          | None => Rej EPERM
          | Some b => Fwd (mkCall MRename a b (c_aux c))
          end
      end
  | MSymlink =>
      match prefix_path pfx (c_b c) with
      | None => Rej EPERM
      | Some newp =>
          if is_abs (c_a c) then
            match prefix_path pfx (c_a c) with
            | None => Rej EPERM
            | Some oldp => Fwd (mkCall MSymlink oldp newp (c_aux c))
            end
          else
            if has_path_prefix (join2 (dir newp) (c_a c)) pfx
            then Fwd (mkCall MSymlink (c_a c) newp (c_aux c))
            else Rej EPERM
      end
  | m =>
      match prefix_path pfx (c_a c) with
      | None => Rej EPERM
      | Some a => Fwd (mkCall m a [] (c_aux c))
      end
  end.

(** [trimPathPrefix p prefix] *)
Definition trim_path_prefix (p pfx : str) : str :=
  let rest := if str_eqb pfx s_dot then p else trim_prefix p pfx in
  if is_abs rest then rest else sep :: rest.

(** [PrefixFS.Readlink]'s post-processing of the underlying answer. *)
Definition prefixfs_readlink_result (pfx linked : str) : str :=
  let c := clean linked in
  if negb (is_abs c) || negb (has_path_prefix c pfx) then c
  else trim_path_prefix c pfx.

(** [newPrefixFile] / [newPrefixFileInfo]: the reported name.
    [path] is the prefixed path, [bname] what the underlying object reports. *)
Definition prefix_file_reported_name (pfx path bname : str) : str :=
  let override :=
    if str_eqb path pfx then s_root
    else if negb (str_eqb pfx []) && has_path_prefix bname pfx then trim_path_prefix bname pfx
    else [] in
  match override with [] => bname | _ => override end.

Definition prefix_info_reported_name (pfx path bname : str) : str :=
  let override :=
    if str_eqb path pfx then s_root
    else if negb (str_eqb pfx []) && is_abs bname && has_path_prefix bname pfx then trim_path_prefix bname pfx
    else [] in
  match override with [] => bname | _ => override end.

(** * VolumeFS on Linux: [filepath.VolumeName] is always empty, so the stored
    volume is [""] whatever string the constructor was given. *)
Definition volumefs_call (c : call) : outcome :=
  match c_meth c with
  | MRename => Fwd (mkCall MRename (clean (c_a c)) (clean (c_b c)) (c_aux c))
  | MSymlink =>
      Fwd (mkCall MSymlink (if is_abs (c_a c) then clean (c_a c) else c_a c) (clean (c_b c)) (c_aux c))
  | m => Fwd (mkCall m (clean (c_a c)) [] (c_aux c))
  end.

Definition volumefs_readlink_result (linked : str) : str := clean linked.

(** * HiddenFS *)

(** [isInHiddenPath name hiddenDir]; [None] = [filepath.Rel] failed. *)
Definition is_in_hidden_path (name hidden : str) : option bool :=
  match rel hidden name with
  | None => None
  | Some r =>
      let outside := has_prefix r (s_dotdot ++ [sep]) in
      let is_parent := str_eqb r s_dotdot in
      let is_hidden_dir := str_eqb r s_dot in
      Some (negb (negb is_hidden_dir && (outside || is_parent)))
  end.

Fixpoint is_hidden_loop (name : str) (hs : list str) : option bool :=
  match hs with
  | [] => Some false
  | h :: r =>
      match is_in_hidden_path name h with
      | None => None
      | Some true => Some true
      | Some false => is_hidden_loop name r
      end
  end.

(** [isHidden name hiddenPaths] *)
Definition is_hidden (name : str) (hs : list str) : option bool :=
  match hs with
  | [] => Some false
  | _ => is_hidden_loop (clean name) hs
  end.

(** [dirContains parent subdir] *)
Definition dir_contains (parent subdir : str) : option bool :=
  match rel parent subdir with
  | None => None
  | Some r =>
      let same := str_eqb r s_dot in
      let outside := has_prefix r (s_dotdot ++ [sep]) || str_eqb r s_dotdot in
      Some (negb same && negb outside)
  end.

Fixpoint parent_hidden_loop (name : str) (hs : list str) : option bool :=
  match hs with
  | [] => Some false
  | h :: r =>
      match dir_contains name h with
      | None => None
      | Some true => Some true
      | Some false => parent_hidden_loop name r
      end
  end.

(** [isParentOfHiddenDir name hiddenPaths] *)
Definition is_parent_of_hidden (name : str) (hs : list str) : option bool :=
  match hs with
  | [] => Some false
  | _ => parent_hidden_loop (clean name) hs
  end.

(** [toAbsSymlink oldname newname] *)
Definition to_abs_symlink (oldname newname : str) : str :=
  if is_abs oldname then oldname else join2 (dir newname) oldname.

(** O_CREATE = 0x40 on Linux; the flag word is the first aux value of OpenFile. *)
Definition has_o_create (aux : list Z) : bool :=
  match aux with f :: _ => Z.testbit f 6 | [] => false end.

(** which error a hidden name gets, per method *)
Definition hidden_err (m : meth) (aux : list Z) : errclass :=
  match m with
  | MMkdir | MMkdirAll | MCreate => EHiddenPerm
  | MOpenFile => if has_o_create aux then EHiddenPerm else EHiddenNotExist
  | _ => EHiddenNotExist
  end.

(** aux of the OpenFile call that Create/Open turn into:
    O_RDWR|O_CREATE|O_TRUNC = 578, perm 0666 = 438;  O_RDONLY = 0, perm 0 *)
Definition hiddenfs_call (hs : list str) (c : call) : outcome :=
  match c_meth c with
  | MRename =>
      match is_hidden (c_a c) hs with
      | None => Rej EHiddenCheck
      | Some true => Rej EHiddenNotExist
      | Some false =>
          match is_hidden (c_b c) hs with
          | None => Rej EHiddenCheck
          | Some true => Rej EHiddenPerm
          | Some false =>
              (* an ancestor of a hidden path must not be moved away *)
              match is_parent_of_hidden (c_a c) hs with
              | None => Rej EHiddenCheck
              | Some true => Rej EHiddenPerm
              | Some false => Fwd c
              end
          end
      end
  | MSymlink =>
      match is_hidden (to_abs_symlink (c_a c) (c_b c)) hs with
      | None => Rej EHiddenCheck
      | Some true => Rej EHiddenPerm
      | Some false =>
          match is_hidden (c_b c) hs with
          | None => Rej EHiddenCheck
          | Some true => Rej EHiddenPerm
          | Some false => Fwd c
          end
      end
  | MCreate =>
      match is_hidden (c_a c) hs with
      | None => Rej EHiddenCheck
      | Some true => Rej EHiddenPerm
      | Some false => Fwd (mkCall MOpenFile (c_a c) [] [578%Z; 438%Z])
      end
  | MOpen =>
      match is_hidden (c_a c) hs with
      | None => Rej EHiddenCheck
      | Some true => Rej EHiddenNotExist
      | Some false => Fwd (mkCall MOpenFile (c_a c) [] [0%Z; 0%Z])
      end
  | m =>
      match is_hidden (c_a c) hs with
      | None => Rej EHiddenCheck
      | Some true => Rej (hidden_err m (c_aux c))
      | Some false => match m with MRemoveAll => Multi | _ => Fwd c end
      end
  end.

(** [NewHiddenFS]: clean every hidden path, sort deepest first. *)
From BFS Require Import Sort.Order.
Definition hidden_norm (hs : list str) : list str := sort_most (map clean hs).

(** The name an opened file / a file info reports back through each layer,
    given the forwarded path [a'] (the harness's stub file reports the path it
    was opened with, its stub info the base name). *)
Definition prefixfs_file_name (pfx a' : str) : str := prefix_file_reported_name pfx a' a'.
Definition prefixfs_info_name (pfx a' : str) : str := prefix_info_reported_name pfx a' (base a').
