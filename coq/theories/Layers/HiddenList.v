(** Model of [hiddenFile.Readdir] / [hiddenFile.Readdirnames] (hiddenfs_file.go).
    The underlying directory handle is its list of not-yet-returned entries;
    [take] is os.File's contract: for n <= 0 everything at once and never EOF,
    for n > 0 up to n entries, and (nothing, EOF) once exhausted. *)
From BFS Require Export Layers.Call.

Definition handle := list str.

Definition take (n : Z) (h : handle) : list str * bool * handle :=
  if (n <=? 0)%Z then (h, false, [])
  else match h with
       | [] => ([], true, [])
       | _ => (firstn (Z.to_nat n) h, false, skipn (Z.to_nat n) h)
       end.

(** keep the entries that are not hidden; [None] if a hidden check fails *)
Fixpoint filter_visible (dirp : str) (hs : list str) (names : list str) : option (list str) :=
  match names with
  | [] => Some []
  | n :: r =>
      match is_hidden (join2 dirp n) hs with
      | None => None
      | Some hid =>
          match filter_visible dirp hs r with
          | None => None
          | Some r' => Some (if hid then r' else n :: r')
          end
      end
  end.

Inductive lres := LOk (names : list str) | LEof (names : list str) | LErr.

(** the [for len(availableFiles) < count] loop *)
Fixpoint list_loop (fuel : nat) (dirp : str) (hs : list str) (count : Z)
         (avail : list str) (h : handle) : lres * handle :=
  match fuel with
  | O => (LErr, h)
  | S fuel' =>
      if (Z.of_nat (length avail) <? count)%Z then
        let diff := (count - Z.of_nat (length avail))%Z in
        let '(names, eof, h') := take diff h in
        match filter_visible dirp hs names with
        | None => (LErr, h')
        | Some vis =>
            let avail' := avail ++ vis in
            if eof then (LEof avail', h') else list_loop fuel' dirp hs count avail' h'
        end
      else (LOk avail, h)
  end.

(** one call of Readdirnames / Readdir (entries are identified by name) *)
Definition hidden_list (dirp : str) (hs : list str) (count : Z) (h : handle) : lres * handle :=
  if (count <=? 0)%Z then
    let '(names, _, h') := take count h in
    match filter_visible dirp hs names with
    | None => (LErr, h')
    | Some vis => (LOk vis, h')
    end
  else list_loop (S (S (length h))) dirp hs count [] h.

(** a sequence of calls on one handle *)
Fixpoint hidden_list_calls (dirp : str) (hs : list str) (counts : list Z) (h : handle) : list lres :=
  match counts with
  | [] => []
  | c :: r => let '(res, h') := hidden_list dirp hs c h in res :: hidden_list_calls dirp hs r h'
  end.
