(** Model of sort.go: [LessFilePathSeparators], the two sorters' [Less], and
    sorting.  [sort.Sort] itself (pdqsort) is standard library: modelled as
    insertion sort; the theorems show that on duplicate-free input *any* sorted
    permutation is the same list, so the algorithm does not matter. *)
From BFS Require Export Base.Bytes.

(** number of separators, except that the root itself ranks lowest (-1) *)
Definition sep_rank (a : str) : Z :=
  if str_eqb a s_root then (-1)%Z else Z.of_nat (count_sep a).

(** [LessFilePathSeparators a b] (Linux: [TrimVolume] is the identity) *)
Definition less (a b : str) : bool :=
  let ca := sep_rank a in
  let cb := sep_rank b in
  if Z.eqb ca cb then str_ltb a b else Z.ltb ca cb.

(** [ByLeastFilePathSeparators.Less] *)
Definition least (a b : str) : bool := less a b.
(** [ByMostFilePathSeparators.Less] *)
Definition most (a b : str) : bool := negb (less a b).

Section Isort.
  Variable lt : str -> str -> bool.
  Fixpoint insert (x : str) (l : list str) : list str :=
    match l with
    | [] => [x]
    | y :: r => if lt x y then x :: l else y :: insert x r
    end.
  Fixpoint isort (l : list str) : list str :=
    match l with
    | [] => []
    | x :: r => insert x (isort r)
    end.
End Isort.

Definition sort_most (l : list str) : list str := isort most l.
Definition sort_least (l : list str) : list str := isort least l.
(** [sort.Strings] *)
Definition sort_strings (l : list str) : list str := isort str_ltb l.
