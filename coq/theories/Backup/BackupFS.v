(** Model of BackupFS (backupfs.go, backupfs_ready_only.go, fs_utils.go),
    function by function, in the order of checks and primitive calls of the Go
    source.  [base] and [backup] are the two filesystems handed to
    [NewBackupFS] (in the checks: spied layered filesystems). *)
From stdpp Require Import gmap.
From BFS Require Export Layers.Api Path.Iterate.

Section Backup.
  Variable base backup : fsapi.

  (** * baseInfos bookkeeping *)
  Definition already_seen (p : str) : M (option (option finfo)) :=
    i <- get_infos ;; ret (i !! p).

  Definition set_info_if_new (p : str) (fi : option finfo) : M unit :=
    i <- get_infos ;;
    match i !! p with
    | Some _ => ret tt
    | None => put_infos (<[ p := fi ]> i)
    end.

  Definition delete_info (p : str) : M unit :=
    i <- get_infos ;; put_infos (base.delete p i).

  (** * resolvePathWithInfo: one pass over the ancestor chain, rewriting the
      remaining elements in place whenever a symlink is met.  [f] is the
      accumulated rewriting of the not yet visited elements. *)
  Fixpoint resolve_loop (acc : list str) (f : str -> str) (final : str) : M (str * option finfo) :=
    match acc with
    | [] => fail EOther
    | q :: rest =>
        let p := f q in
        r <- try_ (a_lstat base p) ;;
        match r with
        | Err e => if is_not_found e then ret (f final, None) else fail e
        | Ok fi =>
            match fi_kind fi with
            | KLink =>
                linked <- a_readlink base p ;;
                let l := to_abs_symlink linked p in
                let f' := fun x => join2 l (trim_prefix (f x) p) in
                match rest with
                | [] => ret (p, Some fi)
                | _ => resolve_loop rest f' final
                end
            | _ =>
                match rest with
                | [] => ret (p, Some fi)
                | _ => resolve_loop rest f final
                end
            end
        end
    end.

  Definition resolve_path_with_info (filePath : str) : M (str * option finfo) :=
    match filePath with
    | [] => fail EOther
    | _ => resolve_loop (cands filePath) (fun x => x) filePath
    end.

  Definition real_path (name : str) : M str :=
    r <- resolve_path_with_info (clean name) ;; ret (fst r).

  Definition real_path_found (name : str) : M (str * bool) :=
    r <- resolve_path_with_info (clean name) ;;
    ret (fst r, match snd r with Some _ => true | None => false end).

  (** * copying (fs_utils.go) *)

  Definition perm9 (fi : finfo) : N := N.land (fi_perm fi) 511.
  Definition mode12 (fi : finfo) : N := N.land (fi_perm fi) 4095.

  (** the deferred wrappers [fmt.Errorf("%w: %s: %v", errCopy...Failed, name, err)]
      format the cause with %v: the errno leaves the error chain *)
  Definition wrap_other (m : M unit) : M unit :=
    r <- try_ m ;;
    match r with Ok _ => ret tt | Err _ => fail EOther end.

  Definition ignore_permission (m : M unit) : M unit :=
    r <- try_ m ;;
    match r with
    | Ok _ => ret tt
    | Err e => if is_permission e then ret tt else fail e
    end.

  (** [chown from toName fs] *)
  Definition chown_to (fsys : fsapi) (from : finfo) (name : str) : M unit :=
    old <- a_lstat fsys name ;;
    if negb (Z.eqb (fi_uid old) (fi_uid from)) || negb (Z.eqb (fi_gid old) (fi_gid from))
    then a_chown fsys name (fi_uid from) (fi_gid from)
    else ret tt.

  Definition copy_dir (fsys : fsapi) (name : str) (info : finfo) : M unit :=
    wrap_other (
    if negb (is_dir_info info) then fail EBadInfo
    else if str_eqb name s_root then ret tt
    else
      a_mkdirall fsys name (perm9 info) ;;;
      nfi <- a_lstat fsys name ;;
      (if negb (N.eqb (mode12 nfi) (mode12 info)) then a_chmod fsys name (mode12 info) else ret tt) ;;;
      (if negb (mtime_eqb (fi_mt nfi) (fi_mt info))
       then ignore_permission (a_chtimes fsys name (fi_mt info)) else ret tt) ;;;
      ignore_permission (chown_to fsys info name)).

  Fixpoint io_copy (fuel : nat) (dst src : fhandle) : M unit :=
    match fuel with
    | O => fail EFUEL
    | S fuel' =>
        r <- hread src ;;
        match fst r with
        | None => ret tt
        | Some chunk => dst' <- hwrite dst chunk ;; io_copy fuel' dst' (snd r)
        end
    end.

  (** [writeFile]: create/truncate with the given permissions, copy, close;
      the close error is joined after the copy error *)
  Definition write_file (fsys : fsapi) (name : str) (perm : N) (src : fhandle) : M unit :=
    file <- a_openfile fsys name 578 perm ;;
    r <- try_ (io_copy tree_fuel file src) ;;
    c <- try_ (hclose file) ;;
    match r, c with
    | Err e, _ => fail e
    | Ok _, Err e => fail e
    | Ok _, Ok _ => ret tt
    end.

  Definition copy_file (fsys : fsapi) (name : str) (info : finfo) (src : fhandle) : M unit :=
    wrap_other
    match fi_kind info with
    | KFile =>
        write_file fsys name (perm9 info) src ;;;
        ignore_permission (chown_to fsys info name) ;;;
        nfi <- a_lstat fsys name ;;
        (if negb (N.eqb (mode12 nfi) (mode12 info)) then a_chmod fsys name (mode12 info) else ret tt) ;;;
        (if negb (mtime_eqb (fi_mt nfi) (fi_mt info))
         then ignore_permission (a_chtimes fsys name (fi_mt info)) else ret tt)
    | _ => fail EBadInfo
    end.

  Definition copy_symlink (source target : fsapi) (name : str) (info : finfo) : M unit :=
    wrap_other
    match fi_kind info with
    | KLink =>
        pointsAt <- a_readlink source name ;;
        a_symlink target pointsAt name ;;;
        ignore_permission (a_lchown target name (fi_uid info) (fi_gid info))
    | _ => fail EBadInfo
    end.

  (** [lexists] *)
  Definition lexists (fsys : fsapi) (p : str) : M bool :=
    r <- try_ (a_lstat fsys p) ;;
    match r with
    | Ok _ => ret true
    | Err e => if is_not_found e then ret false else fail e
    end.

  (** * backup on write *)

  Definition backup_required (p : str) : M (option finfo * bool) :=
    seen <- already_seen p ;;
    match seen with
    | Some info => ret (info, false)
    | None =>
        r <- try_ (a_lstat base p) ;;
        match r with
        | Err e => if is_not_found e then set_info_if_new p None ;;; ret (None, false) else fail e
        | Ok fi => ret (Some fi, true)
        end
    end.

  Definition backup_dirs (dirPath : str) : M unit :=
    miter (fun sub =>
             r <- backup_required sub ;;
             match r with
             | (Some fi, true) =>
                 r <- try_ (copy_dir backup sub fi) ;;
                 match r with
                 | Err e => _ <- try_ (a_remove backup sub) ;; fail e
                 | Ok _ => set_info_if_new sub (Some fi)
                 end
             | _ => ret tt
             end) (cands dirPath).

  Definition try_backup (p : str) : M unit :=
    r <- backup_required p ;;
    let '(info, needs) := r in
    let dirPath := match info with
                   | Some fi => if is_dir_info fi then p else dir p
                   | None => dir p
                   end in
    backup_dirs dirPath ;;;
    if negb needs then ret tt
    else match info with
         | None => ret tt
         | Some fi =>
             match fi_kind fi with
             | KDir => ret tt
             | KFile =>
                 sf <- a_open base p ;;
                 r <- try_ (copy_file backup p fi sf) ;;
                 match r with
                 | Err e => _ <- try_ (a_remove backup p) ;; _ <- try_ (hclose sf) ;; fail e
                 | Ok _ => set_info_if_new p (Some fi) ;;; _ <- try_ (hclose sf) ;; ret tt
                 end
             | KLink =>
                 r <- try_ (copy_symlink base backup p fi) ;;
                 match r with
                 | Err e => _ <- try_ (a_remove backup p) ;; fail e
                 | Ok _ => set_info_if_new p (Some fi)
                 end
             end
         end.

  (** * the mutating operations *)

  Definition b_create (name : str) : M fhandle :=
    rn <- real_path name ;; try_backup rn ;;; a_create base rn.

  Definition b_mkdir (name : str) (perm : N) : M unit :=
    rn <- real_path name ;; try_backup rn ;;; a_mkdir base rn perm.

  Definition b_mkdirall (name : str) (perm : N) : M unit :=
    rn <- real_path name ;; try_backup rn ;;; a_mkdirall base rn perm.

  Definition b_openfile (name : str) (fl perm : N) : M fhandle :=
    if N.eqb fl 0 then a_openfile base name 0 0
    else rn <- real_path name ;; try_backup rn ;;; a_openfile base rn fl perm.

  Definition b_remove (name : str) : M unit :=
    rn <- real_path name ;; try_backup rn ;;; a_remove base rn.

  Definition b_removeall (name : str) : M unit :=
    rn <- real_path name ;;
    r <- try_ (a_lstat base rn) ;;
    match r with
    | Err e => if is_not_found e then ret tt else fail e
    | Ok fi =>
        if negb (is_dir_info fi) then b_remove rn
        else
          dirs <- walk_m base rn
                    (fun (acc : list str) sub info =>
                       if is_dir_info info then ret (acc ++ [sub])
                       else b_remove sub ;;; ret acc) [] ;;
          miter b_remove (sort_most dirs)
    end.

  Definition b_rename (oldname newname : str) : M unit :=
    ro <- real_path oldname ;;
    rn <- real_path newname ;;
    try_backup rn ;;;
    try_backup ro ;;;
    a_rename base ro rn.

  Definition b_chmod (name : str) (mode : N) : M unit :=
    rn <- real_path name ;; try_backup rn ;;; a_chmod base rn mode.

  Definition b_chown (name : str) (uid gid : Z) : M unit :=
    rn <- real_path name ;; try_backup rn ;;; a_chown base rn uid gid.

  Definition b_chtimes (name : str) (t : mtime) : M unit :=
    rn <- real_path name ;; try_backup rn ;;; a_chtimes base rn t.

  Definition b_symlink (oldname newname : str) : M unit :=
    rn <- real_path newname ;; try_backup rn ;;; a_symlink base oldname rn.

  Definition b_lchown (name : str) (uid gid : Z) : M unit :=
    rn <- real_path name ;; try_backup rn ;;; a_lchown base rn uid gid.

  (** read-only operations are forwarded unresolved *)
  Definition b_lstat (name : str) : M finfo := a_lstat base name.
  Definition b_stat (name : str) : M finfo := a_stat base name.
  Definition b_readlink (name : str) : M str := a_readlink base name.
  Definition b_open (name : str) : M fhandle := b_openfile name 0 0.

  (** * ForceBackup *)

  Definition try_remove_backup (p : str) : M unit :=
    seen <- already_seen p ;;
    match seen with
    | None => ret tt
    | Some None => delete_info p   (* did not exist: there is no copy *)
    | Some (Some _) =>
        r <- try_ (a_lstat backup p) ;;
        match r with
        | Err e => if is_not_found e then delete_info p else fail e
        | Ok fi =>
            if negb (is_dir_info fi) then a_remove backup p ;;; delete_info p
            else
              dirs <- walk_m backup p
                        (fun (acc : list str) path info =>
                           if is_dir_info info then ret (acc ++ [path])
                           else a_remove backup path ;;; delete_info path ;;; ret acc) [] ;;
              miter (fun d => a_removeall backup d ;;; delete_info d) (sort_most dirs)
        end
    end.

  Definition b_force_backup (name : str) : M unit :=
    rn <- real_path name ;;
    prev <- already_seen rn ;;
    try_remove_backup rn ;;;
    r <- try_ (try_backup rn) ;;
    match r with
    | Ok _ => ret tt
    | Err e =>
        (* the path did not exist when first seen and its new backup could not
           be taken: the record is kept *)
        (match prev with Some None => set_info_if_new rn None | _ => ret tt end) ;;; fail e
    end.

  (** * Rollback *)

  (** [removeIfSymlink] (fix D23): a symlink that took the place of a tracked
      file or directory is removed before the original is copied back *)
  Definition remove_if_symlink (fsys : fsapi) (name : str) : M unit :=
    r <- try_ (a_lstat fsys name) ;;
    match r with
    | Err e => if is_not_found e then ret tt else fail e
    | Ok fi => match fi_kind fi with KLink => a_remove fsys name | _ => ret tt end
    end.

  Definition restore_file (name : str) (info : finfo) : M unit :=
    r <- try_ (a_open backup name) ;;
    match r with
    | Err e => if is_not_found e then ret tt else fail e
    | Ok f =>
        r2 <- try_ (hstat f) ;;
        match r2 with
        | Err e => _ <- try_ (hclose f) ;; fail e
        | Ok fi =>
            r3 <- (match fi_kind fi with
                   | KFile => ret (Ok tt)
                   | _ => try_ (a_removeall base name)
                   end) ;;
            match r3 with
            | Err e => _ <- try_ (hclose f) ;; fail e
            | Ok _ =>
                r3b <- try_ (remove_if_symlink base name) ;;
                match r3b with
                | Err e => _ <- try_ (hclose f) ;; fail e
                | Ok _ =>
                    r4 <- try_ (copy_file base name info f) ;;
                    _ <- try_ (hclose f) ;;
                    lift_res r4
                end
            end
        end
    end.

  Definition restore_symlink (name : str) (info : finfo) : M unit :=
    ex <- lexists backup name ;;
    if negb ex then ret tt
    else
      ex2 <- lexists base name ;;
      (if ex2 then a_removeall base name else ret tt) ;;;
      copy_symlink backup base name info.

  (** run every element, collecting the errors (errors.Join) *)
  Fixpoint collect_errs {A} (f : A -> M unit) (l : list A) : M (list errno) :=
    match l with
    | [] => ret []
    | x :: r =>
        e <- try_ (f x) ;;
        es <- collect_errs f r ;;
        ret (match e with Ok _ => es | Err er => er :: es end)
    end.

  Definition try_remove_backup_paths (paths : list str) : M (list errno) :=
    collect_errs (fun p =>
                    found <- lexists backup p ;;
                    if found then a_remove backup p else ret tt) (sort_most paths).

  Definition info_of_key (i : infomap) (p : str) : option finfo :=
    match i !! p with Some (Some fi) => Some fi | _ => None end.

  (** the first loop ranges over a Go map: order unspecified; the model
      iterates in sorted key order *)
  Definition b_rollback : M unit :=
    infos <- get_infos ;;
    let keys := sort_strings (map fst (map_to_list infos)) in
    (* classify *)
    cls <- mfold (fun (acc : list errno * list str * list str * list str * list str) p =>
                    let '(errs, rm, ds, fs, ls) := acc in
                    match infos !! p with
                    | Some None =>
                        r <- try_ (lexists base p) ;;
                        match r with
                        | Err e => ret (errs ++ [e], rm, ds, fs, ls)
                        | Ok true => ret (errs, rm ++ [p], ds, fs, ls)
                        | Ok false => ret acc
                        end
                    | Some (Some fi) =>
                        if str_eqb p s_root then ret acc
                        else match fi_kind fi with
                             | KDir => ret (errs, rm, ds ++ [p], fs, ls)
                             | KFile => ret (errs, rm, ds, fs ++ [p], ls)
                             | KLink => ret (errs, rm, ds, fs, ls ++ [p])
                             end
                    | None => ret acc
                    end) keys ([], [], [], [], []) ;;
    let '(errs0, rm, ds, fs, ls) := cls in
    e1 <- collect_errs (fun p => a_remove base p) (sort_most rm) ;;
    (* `multiErr = errors.Join(err)` : a failure here replaces the earlier errors *)
    let errs1 := match e1 with [] => errs0 | _ => e1 end in
    e2 <- collect_errs (fun p => match info_of_key infos p with
                                 | Some fi => remove_if_symlink base p ;;; copy_dir base p fi
                                 | None => fail EOther end) (sort_least ds) ;;
    e3 <- collect_errs (fun p => match info_of_key infos p with
                                 | Some fi => restore_file p fi
                                 | None => fail EOther end) (sort_strings fs) ;;
    e4 <- collect_errs (fun p => match info_of_key infos p with
                                 | Some fi => restore_symlink p fi
                                 | None => fail EOther end) (sort_strings ls) ;;
    e5 <- try_remove_backup_paths ls ;;
    e6 <- try_remove_backup_paths fs ;;
    e7 <- try_remove_backup_paths ds ;;
    put_infos ∅ ;;;
    match errs1 ++ e2 ++ e3 ++ e4 ++ e5 ++ e6 ++ e7 with
    | [] => ret tt
    | _ => fail ERollback
    end.

  (** * serialisation round trip (Map/MarshalJSON ... UnmarshalJSON/SetMap into
      a fresh instance): an [fInfo] keeps mode, mtime, size, uid, gid; its
      Name() is the base name of the map key *)
  Definition reload_info (p : str) (fi : finfo) : finfo :=
    mkFinfo (GoPath.base p) (fi_kind fi) (fi_perm fi) (fi_uid fi) (fi_gid fi) (fi_mt fi) (fi_size fi).

  Definition b_persist_reload : M unit :=
    infos <- get_infos ;;
    put_infos (map_imap (fun p v => Some (option_map (reload_info p) v)) infos).
End Backup.
