(** Histories: user-level operations on a BackupFS in a layering, and how a
    world is set up and observed.  This is what the correspondence check (T2)
    runs on both sides. *)
From stdpp Require Import gmap.
From BFS Require Export Backup.BackupFS.

Inductive op :=
  | OCreate (n : str) (d : list N)
  | OOpenWrite (n : str) (fl perm : N) (d : list N)
  | OMkdir (n : str) (perm : N)
  | OMkdirAll (n : str) (perm : N)
  | ORemove (n : str)
  | ORemoveAll (n : str)
  | ORename (o n : str)
  | OSymlink (t n : str)
  | OChmod (n : str) (m : N)
  | OChown (n : str) (u g : Z)
  | OLchown (n : str) (u g : Z)
  | OChtimes (n : str) (t : N)
  | OStat (n : str)
  | OLstat (n : str)
  | OReadlink (n : str)
  | ORead (n : str)
  | OReaddir (n : str)
  | OForceBackup (n : str)
  | ORealPath (n : str)
  | ORollback
  | OPersist
  (* direct modifications of the world by another actor (not through BackupFS, not spied) *)
  | OExtWrite (p : str) (d : list N)
  | OExtMkdirAll (p : str)
  | OExtRemoveAll (p : str)
  | OExtSymlink (t p : str).

Inductive obs :=
  | ObUnit | ObInfo (fi : finfo) | ObStr (s : str) | ObData (d : list N) | ObNames (l : list str).

Fixpoint read_all (fuel : nat) (h : fhandle) (acc : list N) : M (list N) :=
  match fuel with
  | O => fail EFUEL
  | S fuel' =>
      r <- hread h ;;
      match fst r with
      | None => ret acc
      | Some ch => read_all fuel' (snd r) (acc ++ ch)
      end
  end.

(** write (if there is anything to write), then close; the first error wins *)
Definition write_close (h : fhandle) (d : list N) : M unit :=
  r <- try_ (match d with [] => ret h | _ => hwrite h d end) ;;
  c <- try_ (hclose h) ;;
  match r, c with
  | Err e, _ => fail e
  | Ok _, Err e => fail e
  | Ok _, Ok _ => ret tt
  end.

Section Step.
  Variable base backup : fsapi.

  Definition step (o : op) : M obs :=
    match o with
    | OCreate n d => h <- b_create base backup n ;; write_close h d ;;; ret ObUnit
    | OOpenWrite n fl perm d => h <- b_openfile base backup n fl perm ;; write_close h d ;;; ret ObUnit
    | OMkdir n perm => b_mkdir base backup n perm ;;; ret ObUnit
    | OMkdirAll n perm => b_mkdirall base backup n perm ;;; ret ObUnit
    | ORemove n => b_remove base backup n ;;; ret ObUnit
    | ORemoveAll n => b_removeall base backup n ;;; ret ObUnit
    | ORename o n => b_rename base backup o n ;;; ret ObUnit
    | OSymlink t n => b_symlink base backup t n ;;; ret ObUnit
    | OChmod n m => b_chmod base backup n m ;;; ret ObUnit
    | OChown n u g => b_chown base backup n u g ;;; ret ObUnit
    | OLchown n u g => b_lchown base backup n u g ;;; ret ObUnit
    | OChtimes n t => b_chtimes base backup n (Preset t) ;;; ret ObUnit
    | OStat n => fi <- b_stat base n ;; ret (ObInfo fi)
    | OLstat n => fi <- b_lstat base n ;; ret (ObInfo fi)
    | OReadlink n => t <- b_readlink base n ;; ret (ObStr t)
    | ORead n =>
        h <- b_open base backup n ;;
        r <- try_ (read_all tree_fuel h []) ;;
        _ <- try_ (hclose h) ;;
        d <- lift_res r ;; ret (ObData d)
    | OReaddir n =>
        h <- b_open base backup n ;;
        r <- try_ (hreaddirnames h) ;;
        _ <- try_ (hclose h) ;;
        l <- lift_res r ;; ret (ObNames (sort_strings l))
    | OForceBackup n => b_force_backup base backup n ;;; ret ObUnit
    | ORealPath n => rp <- real_path base n ;; ret (ObStr rp)
    | ORollback => b_rollback base backup ;;; ret ObUnit
    | OPersist => b_persist_reload ;;; ret ObUnit
    | OExtWrite p d => h <- a_openfile osfs p 577 420 ;; write_close h d ;;; ret ObUnit
    | OExtMkdirAll p => a_mkdirall osfs p 493 ;;; ret ObUnit
    | OExtRemoveAll p => a_removeall osfs p ;;; ret ObUnit
    | OExtSymlink t p => a_symlink osfs t p ;;; ret ObUnit
    end.

  (** run a history; stops at a crash point *)
  Fixpoint run_ops (ops : list op) (w : world) : list (mres obs) * world :=
    match ops with
    | [] => ([], w)
    | o :: r =>
        match step o w with
        | (MHalt, w') => ([MHalt], w')
        | (x, w') => let '(xs, w'') := run_ops r w' in (x :: xs, w'')
        end
    end.
End Step.

(** The same operations issued directly on a filesystem [b] (no BackupFS):
    used to check the wrapper layers on real trees. *)
Definition step_direct (b : fsapi) (o : op) : M obs :=
  match o with
  | OCreate n d => h <- a_create b n ;; write_close h d ;;; ret ObUnit
  | OOpenWrite n fl perm d => h <- a_openfile b n fl perm ;; write_close h d ;;; ret ObUnit
  | OMkdir n perm => a_mkdir b n perm ;;; ret ObUnit
  | OMkdirAll n perm => a_mkdirall b n perm ;;; ret ObUnit
  | ORemove n => a_remove b n ;;; ret ObUnit
  | ORemoveAll n => a_removeall b n ;;; ret ObUnit
  | ORename o n => a_rename b o n ;;; ret ObUnit
  | OSymlink t n => a_symlink b t n ;;; ret ObUnit
  | OChmod n m => a_chmod b n m ;;; ret ObUnit
  | OChown n u g => a_chown b n u g ;;; ret ObUnit
  | OLchown n u g => a_lchown b n u g ;;; ret ObUnit
  | OChtimes n t => a_chtimes b n (Preset t) ;;; ret ObUnit
  | OStat n => fi <- a_stat b n ;; ret (ObInfo fi)
  | OLstat n => fi <- a_lstat b n ;; ret (ObInfo fi)
  | OReadlink n => t <- a_readlink b n ;; ret (ObStr t)
  | ORead n =>
      h <- a_open b n ;;
      r <- try_ (read_all tree_fuel h []) ;;
      _ <- try_ (hclose h) ;;
      d <- lift_res r ;; ret (ObData d)
  | OReaddir n =>
      h <- a_open b n ;;
      r <- try_ (hreaddirnames h) ;;
      _ <- try_ (hclose h) ;;
      l <- lift_res r ;; ret (ObNames (sort_strings l))
  | OExtWrite p d => h <- a_openfile osfs p 577 420 ;; write_close h d ;;; ret ObUnit
  | OExtMkdirAll p => a_mkdirall osfs p 493 ;;; ret ObUnit
  | OExtRemoveAll p => a_removeall osfs p ;;; ret ObUnit
  | OExtSymlink t p => a_symlink osfs t p ;;; ret ObUnit
  | _ => fail EOther
  end.

(** * Layerings.  base = HiddenFS hs (PrefixFS p OSFS), backup = PrefixFS q OSFS,
    each wrapper omitted when its parameter is absent; both spied.
    The README layering and New/NewWithFS on Linux are [Some]-less prefix,
    [hs = [q]]. *)
Record config := mkConfig { c_prefix : option str; c_hidden : list str; c_backup : str }.

Definition cfg_base_unspied (c : config) : fsapi :=
  let b := match c_prefix c with Some p => prefixfs p osfs | None => osfs end in
  match c_hidden c with [] => b | hs => hiddenfs hs b end.

Definition cfg_base (c : config) : fsapi := spy TBase (cfg_base_unspied c).
Definition cfg_backup (c : config) : fsapi := spy TBackup (prefixfs (c_backup c) osfs).

Definition run_history (c : config) (ops : list op) (w : world) : list (mres obs) * world :=
  run_ops (cfg_base c) (cfg_backup c) ops w.

(** * World construction (INIT lines): absolute cleaned paths, parents first *)
Definition init_world : world := mkWorld fs_empty [] 0 None [] ∅.

Definition put_node (w : world) (p : str) (n : node) : world :=
  mkWorld (mkFstate (<[ comps p := n ]> (st_fs (w_st w))) (st_clock (w_st w)))
          (w_trace w) (w_ticks w) (w_crash w) (w_faults w) (w_infos w).

Definition init_dir (w : world) (p : str) (perm uid gid mt : N) : world :=
  put_node w p (Dir (mkMeta perm uid gid (Preset mt))).
Definition init_file (w : world) (p : str) (perm uid gid mt : N) (c : list N) : world :=
  put_node w p (File (mkMeta perm uid gid (Preset mt)) c).
Definition init_link (w : world) (p : str) (uid gid mt : N) (t : str) : world :=
  put_node w p (Link (mkMeta 511 uid gid (Preset mt)) t).

Definition with_crash (w : world) (k : option N) : world :=
  mkWorld (w_st w) (w_trace w) (w_ticks w) k (w_faults w) (w_infos w).
Definition with_faults (w : world) (fl : list fault) : world :=
  mkWorld (w_st w) (w_trace w) (w_ticks w) (w_crash w) fl (w_infos w).

Definition dump_fs (w : world) : list (key * node) := entries (st_fs (w_st w)).
Definition dump_infos (w : world) : list (str * option finfo) := map_to_list (w_infos w).
Definition dump_trace (w : world) : list tcall := rev (w_trace w).
