(** Trigger predicates of the recorded known findings.  Each is a boolean
    function of the model state just before an operation; the same predicate
    (i) is the hypothesis excluded in the [_partial] theorems and (ii) is
    evaluated by the check on minimized failing histories to decide whether a
    failure is a recorded finding or a new violation. *)
From stdpp Require Import gmap.
From BFS Require Export Backup.History.

Inductive trigger :=
  | TrFollowFinalLink     (* D14: the operation follows a symlink in the final component *)
  | TrRenameNonEmptyDir   (* D12: Rename of a directory that has entries *)
  | TrTypeChange          (* D13: at Rollback, a tracked path holds an entry of another type *)
  | TrUncleanLinkTarget   (* K2: a symlink whose stored target is not lexically clean *)
  | TrLinkThroughLink     (* D17: the resolved path still has a symlink among its parents *)
  | TrClimbingLink        (* K3: a relative link target that lexically climbs above the root *)
  | TrDanglingParent      (* K4: a parent component of the name is a dangling symlink *)
  | TrRelativeName        (* D20: the operation names its path relatively *)
  | TrHiddenViaLink       (* D9: a name that is not lexically hidden resolves (through a symlink or a physical ..) into a hidden path *)
  | TrHopLimit            (* K8: the kernel refuses the caller's name with ELOOP (more than 40 symlink hops), BackupFS resolves it *)
  | TrForceNewParent      (* D22 (repaired: no finding uses it any more): ForceBackup of a path below a directory that was created in the transaction *)
  | TrRemovesRoot.        (* K6: Remove/RemoveAll/Rename of the root directory of the base view itself *)

(** evaluate a read-only monadic query on a world, discarding effects *)
Definition query {A} (m : M A) (w : world) : option A :=
  match fst (m w) with MOk a => Some a | _ => None end.

Section Trig.
  Variable cfg : config.
  Let b := cfg_base_unspied cfg.

  Definition resolved_kind (n : str) (w : world) : option (str * option kind) :=
    match query (real_path b n) w with
    | None => None
    | Some rp =>
        Some (rp, match query (a_lstat b rp) w with Some fi => Some (fi_kind fi) | None => None end)
    end.

  Definition parents_have_link (rp : str) (w : world) : bool :=
    existsb (fun a => match query (a_lstat b a) w with
                      | Some fi => match fi_kind fi with KLink => true | _ => false end
                      | None => false end)
            (removelast (cands rp)).

  Definition is_link_at (a : str) (w : world) : bool :=
    match query (a_lstat b a) w with
    | Some fi => match fi_kind fi with KLink => true | _ => false end
    | None => false
    end.

  (** D17, on the resolution process itself: while resolving, a symlink in a
      parent position has a target that (made absolute) runs through another
      symlink - in one of its parents or as its last component *)
  Fixpoint resolve_through_link (acc : list str) (f : str -> str) (w : world) : bool :=
    match acc with
    | [] => false
    | q :: rest =>
        let p := f q in
        match query (a_lstat b p) w with
        | None => false
        | Some fi =>
            match fi_kind fi with
            | KLink =>
                match query (a_readlink b p) w with
                | None => false
                | Some linked =>
                    let l := to_abs_symlink linked p in
                    match rest with
                    | [] => false
                    | _ => existsb (fun a => is_link_at a w) (cands l)
                           || resolve_through_link rest (fun x => join2 l (trim_prefix (f x) p)) w
                    end
                end
            | _ => resolve_through_link rest f w
            end
        end
    end.

  Definition follows_final (o : op) : option str :=
    match o with
    | OCreate n _ | OChmod n _ | OChown n _ _ | OChtimes n _ => Some n
    | OOpenWrite n fl _ _ => if N.eqb fl 0 then None else Some n
    | _ => None
    end.

  Definition op_paths (o : op) : list str :=
    match o with
    | OCreate n _ | OOpenWrite n _ _ _ | OMkdir n _ | OMkdirAll n _ | ORemove n | ORemoveAll n
    | OChmod n _ | OChown n _ _ | OLchown n _ _ | OChtimes n _ | OForceBackup n | ORealPath n => [n]
    | ORename o n => [o; n]
    | OSymlink _ n => [n]
    | _ => []
    end.

  Definition kind_eqb (a c : kind) : bool :=
    match a, c with KDir, KDir | KFile, KFile | KLink, KLink => true | _, _ => false end.

  Definition type_changed (w : world) : bool :=
    existsb (fun kv =>
               match snd kv with
               | Some fi =>
                   match query (a_lstat b (fst kv)) w with
                   | Some fi' =>
                       (* an original symlink is restored whatever took its place
                          (restoreSymlink removes it first): only files and
                          directories are affected by D13 *)
                       (* ... and since fix D23 a symlink that took the place of a
                          file or directory is removed before the original is copied back *)
                       negb (kind_eqb (fi_kind fi) (fi_kind fi')) && negb (kind_eqb (fi_kind fi) KLink)
                       && negb (kind_eqb (fi_kind fi') KLink)
                   | None => false
                   end
               | None => false
               end) (map_to_list (w_infos w)).

  Definition climbs_above_root (k : key) (t : str) : bool :=
    (* a relative target with more leading ".." than the link's directory is deep
       below the root of the base view (the prefix directory, if there is one) *)
    negb (is_abs t) &&
    Nat.ltb (length k - length (match c_prefix cfg with Some p => comps p | None => [] end) - 1)
            (length (List.filter (fun c => str_eqb c s_dotdot) (comps t))).

  Definition link_flags (w : world) : list trigger :=
    let links := List.filter (fun kv => match snd kv with Link _ _ => true | _ => false end) (dump_fs w) in
    (if existsb (fun kv => match snd kv with Link _ t => negb (str_eqb (clean t) t) | _ => false end) links
     then [TrUncleanLinkTarget] else []) ++
    (if existsb (fun kv => match snd kv with Link _ t => climbs_above_root (fst kv) t | _ => false end) links
     then [TrClimbingLink] else []).

  (** some proper prefix of the cleaned name is a symlink that leads nowhere *)
  Definition dangling_parent (n : str) (w : world) : bool :=
    existsb (fun a => match query (a_lstat b a) w with
                      | Some fi =>
                          match fi_kind fi with
                          | KLink => match fst (a_stat b a w) with
                                     | MErr e => is_not_found e   (* leads nowhere; ELOOP is K8 *)
                                     | _ => false end
                          | _ => false
                          end
                      | None => false end)
            (removelast (cands (clean n))).

  (** D9 (layerings without a base prefix): the kernel resolves the name to a
      key at or below a hidden path although the lexical check lets it pass *)
  Definition hidden_via_link (n : str) (w : world) : bool :=
    match c_prefix cfg with
    | Some _ => false
    | None =>
        let hs := hidden_norm (c_hidden cfg) in
        match is_hidden n hs with
        | Some false =>
            let hit k := existsb (fun h => key_prefixb (comps h) k) hs in
            match resolve (st_fs (w_st w)) n true with
            | WFound k _ => hit k
            | WMissing pk name _ => hit (pk ++ [name])
            | WErr _ => false
            end
        | _ => false
        end
    end.

  Definition triggers (o : op) (w : world) : list trigger :=
    (match follows_final o with
     | Some n => match resolved_kind n w with
                 | Some (_, Some KLink) => [TrFollowFinalLink]
                 | _ => []
                 end
     | None => []
     end) ++
    (match o with
     | ORename old _ =>
         match resolved_kind old w with
         | Some (rp, Some KDir) =>
             match query (read_dir_names b rp) w with
             | Some (_ :: _) => [TrRenameNonEmptyDir]
             | _ => []
             end
         | _ => []
         end
     | ORollback => if type_changed w then [TrTypeChange] else []
     | _ => []
     end) ++
    (if existsb (fun n => match query (real_path b n) w with
                          | Some rp => parents_have_link rp w
                          | None => false end
                          || resolve_through_link (cands (clean n)) (fun x => x) w) (op_paths o)
     then [TrLinkThroughLink] else []) ++
    (if existsb (fun n => dangling_parent n w) (op_paths o) then [TrDanglingParent] else []) ++
    (if existsb (fun n => negb (is_abs (clean n))) (op_paths o) then [TrRelativeName] else []) ++
    (match o with
     | ORemove n | ORemoveAll n | ORename n _ => if str_eqb (clean n) s_root then [TrRemovesRoot] else []
     | _ => []
     end) ++
    (if existsb (fun n => match fst (a_lstat b n w), query (real_path b n) w with
                          | MErr ELOOP, Some _ => true
                          | _, _ => false end) (op_paths o)
     then [TrHopLimit] else []) ++
    (match o with
     | OForceBackup n =>
         match query (real_path b n) w with
         | Some rp =>
             if existsb (fun a => match w_infos w !! a with Some None => true | _ => false end)
                        (removelast (cands rp))
             then [TrForceNewParent] else []
         | None => []
         end
     | _ => []
     end) ++
    (if existsb (fun n => hidden_via_link n w)
                (op_paths o ++ match o with OStat n | OLstat n | OReadlink n | ORead n | OReaddir n => [n] | _ => [] end)
     then [TrHiddenViaLink] else []) ++
    link_flags w.
End Trig.
