(** C09 — every error Rollback returns is ErrRollbackFailed.  (The other half
    - never nil while an entry is unrestored, under every single fault - is
    decided by exhaustive fault enumeration against the code and the model,
    see the check.) *)
From stdpp Require Import gmap.
From BFS Require Import Backup.History Proofs.RollbackFacts.

Theorem C09_error_class :
  forall base backup w e w', b_rollback base backup w = (MErr e, w') -> e = ERollback.
Proof. exact rollback_err_class. Qed.
Print Assumptions C09_error_class.

(** restoreFile / restoreSymlink propagate every failure of the calls they
    depend on, except "the copy is not there" *)
Theorem C09_restore_file_propagates :
  forall base backup name info w e w',
  a_open backup name w = (MErr e, w') -> is_not_found e = false ->
  exists e' w'', restore_file base backup name info w = (MErr e', w'').
Proof. exact restore_file_open_error. Qed.
Print Assumptions C09_restore_file_propagates.

Theorem C09_restore_symlink_propagates :
  forall base backup name info w e w',
  a_lstat backup name w = (MErr e, w') -> is_not_found e = false ->
  exists e' w'', restore_symlink base backup name info w = (MErr e', w'').
Proof. exact restore_symlink_lstat_error. Qed.
Print Assumptions C09_restore_symlink_propagates.
