From BFS Require Import Backup.History.
Example placeholder_C09 : True. Proof. exact I. Qed.
