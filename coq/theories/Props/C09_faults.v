(** C09 — Rollback returns nil only if it restored everything: under faults.

    Props/C09.v has the error class (every error of Rollback is
    ErrRollbackFailed).  Here, with the fault laws of Spec/Faults.v (a
    primitive call at a planned site is refused with EIO without being
    executed), from any state whose fault-free part satisfies the transaction
    invariant ([InvF]) and without crash point:

    - [C09_nil_only_if_restored]: for EVERY fault plan (any number of
      entries, on either filesystem) Rollback does not halt, and if it
      returns nil the base view is restored (up to [store_eqv]: directory
      timestamps and the root's own entry aside), the backup view is empty
      and nothing is tracked any more.  (A refused call makes the element it
      belongs to fail and the error is collected - the one exception is the
      final Close in restoreFile, whose error the code drops: the copy is
      complete by then.)  Together with [C09_error_class] of Props/C09.v: if
      any entry could not be removed, restored or cleaned up, the result is
      an error satisfying errors.Is(err, ErrRollbackFailed).
    - [C09_rollback_single_fault]: the same for a single-fault plan, and in
      addition: once the plan is spent Rollback does return nil.
    - closed versions for the concrete layering; [C09_fault_example]: a fault
      during Rollback on the instance of Proofs/ConcreteExample.v makes it
      return ErrRollbackFailed (by running the model).

    NOT proved: what the state looks like after a Rollback that returned an
    error (nothing is claimed beyond the error class); faults combined with
    crash points.

    The law-level statements are parameterised by [hid]/[anc] (what the base
    hides: paths at or below a hidden location, its proper ancestors; [nohid]
    for a base that hides nothing) and the Rollback statements from an
    arbitrary invariant state ask for [loc_ok hid anc B0] (see Props/C01.v);
    the [*_documented] theorems at the end of the file are the closed
    instances for the documented layering (location inside the base tree,
    hidden by HiddenFS: Proofs/LawsHidden*.v). *)
From stdpp Require Import gmap.
From BFS Require Import Spec.Faults Spec.ViewOsfs.
From BFS Require Import Proofs.LawsOsfsBase Proofs.LawsOsfs Proofs.ConcreteExample.
From BFS Require Import Proofs.FaultLib Proofs.FaultTry Proofs.FaultRollback Proofs.LawsOsfsFault
                        Proofs.FaultExample.

Theorem C09_nil_only_if_restored :
  forall base backup Vb Vk tnb tnk accb acck rhb rhk whb whk hid anc B0 tagb tagk,
  base_laws base Vb Vk tnb accb rhb whb hid anc -> backup_laws backup Vb Vk tnk acck rhk whk ->
  fault_laws base Vb tagb rhb whb -> fault_laws backup Vk tagk rhk whk ->
  links_ok tnb tnk accb acck B0 -> all_small B0 -> swf B0 -> loc_ok hid anc B0 ->
  forall w r w', InvF Vb Vk B0 w -> b_rollback base backup w = (r, w') ->
  r <> MHalt /\
  (r = MOk tt -> store_eqv (Vb w') B0 /\ (forall p, p <> s_root -> Vk w' !! p = None) /\
                 w_infos w' = ∅).
Proof. exact rollback_nil_restored. Qed.
Print Assumptions C09_nil_only_if_restored.

Theorem C09_rollback_single_fault :
  forall base backup Vb Vk tnb tnk accb acck rhb rhk whb whk hid anc B0 tagb tagk,
  base_laws base Vb Vk tnb accb rhb whb hid anc -> backup_laws backup Vb Vk tnk acck rhk whk ->
  fault_laws base Vb tagb rhb whb -> fault_laws backup Vk tagk rhk whk ->
  links_ok tnb tnk accb acck B0 -> all_small B0 -> swf B0 -> loc_ok hid anc B0 ->
  forall w, InvF Vb Vk B0 w -> single (w_faults w) ->
  exists r w', b_rollback base backup w = (r, w') /\ r <> MHalt /\ w_crash w' = None /\
    (r = MOk tt -> store_eqv (Vb w') B0 /\ (forall p, p <> s_root -> Vk w' !! p = None) /\
                   w_infos w' = ∅) /\
    (spent w -> r = MOk tt).
Proof. exact rollback_fault. Qed.
Print Assumptions C09_rollback_single_fault.

(** * The concrete layering: closed theorems *)

Theorem C09_nil_only_if_restored_concrete :
  forall pa pb, prefix_ok pa -> prefix_ok pb -> disjoint_prefixes pa pb ->
  forall B0, links_ok clean clean (acc_p pa) (acc_p pb) B0 -> all_small B0 -> swf B0 ->
  forall w r w', InvF (Vp pa) (Vp pb) B0 w ->
  b_rollback (cfg_base (gcfg pa pb)) (cfg_backup (gcfg pa pb)) w = (r, w') ->
  r <> MHalt /\
  (r = MOk tt -> store_eqv (Vp pa w') B0 /\ (forall p, p <> s_root -> Vp pb w' !! p = None) /\
                 w_infos w' = ∅).
Proof. exact rollback_nil_concrete. Qed.
Print Assumptions C09_nil_only_if_restored_concrete.

Theorem C09_rollback_single_fault_concrete :
  forall pa pb, prefix_ok pa -> prefix_ok pb -> disjoint_prefixes pa pb ->
  forall B0, links_ok clean clean (acc_p pa) (acc_p pb) B0 -> all_small B0 -> swf B0 ->
  forall w, InvF (Vp pa) (Vp pb) B0 w -> single (w_faults w) ->
  exists r w', b_rollback (cfg_base (gcfg pa pb)) (cfg_backup (gcfg pa pb)) w = (r, w') /\ r <> MHalt /\
    w_crash w' = None /\
    (r = MOk tt -> store_eqv (Vp pa w') B0 /\ (forall p, p <> s_root -> Vp pb w' !! p = None) /\
                   w_infos w' = ∅) /\
    (spent w -> r = MOk tt).
Proof. exact rollback_fault_concrete. Qed.
Print Assumptions C09_rollback_single_fault_concrete.

(** a refused Remove on the base during Rollback: ErrRollbackFailed *)
Theorem C09_fault_example :
  fst (b_rollback cbase cbackup (with_faults ConcreteExample.w [f3])) = MErr ERollback.
Proof. exact f3_rollback_fails. Qed.
Print Assumptions C09_fault_example.

(** Rollback under any fault plan returns nil only if restored, closed, for the
    DOCUMENTED layering (location inside the base tree, hidden by HiddenFS:
    Proofs/LawsHidden.v) *)
From BFS Require Import Spec.ViewHidden Proofs.LawsHidden.

Theorem C09_nil_only_if_restored_documented :
  forall pa h, prefix_ok pa -> hidden_ok h ->
  forall B0, links_ok clean clean (acc_h pa h) (acc_p (pk_h pa h)) B0 -> all_small B0 -> swf B0 ->
  loc_ok (hid_h h) (anc_h h) B0 ->
  forall w r w', InvF (VpH pa h) (Vp (pk_h pa h)) B0 w ->
  b_rollback (cfg_base (dcfg pa h)) (cfg_backup (dcfg pa h)) w = (r, w') ->
  r <> MHalt /\
  (r = MOk tt -> store_eqv (VpH pa h w') B0 /\ (forall p, p <> s_root -> Vp (pk_h pa h) w' !! p = None) /\
                 w_infos w' = ∅).
Proof. exact rollback_nil_documented. Qed.
Print Assumptions C09_nil_only_if_restored_documented.

Theorem C09_history_single_fault_documented :
  forall pa h, prefix_ok pa -> hidden_ok h ->
  forall B0, all_small B0 ->
  forall w0 ops w,
    initialF (VpH pa h) (Vp (pk_h pa h)) clean clean (acc_h pa h) (acc_p (pk_h pa h)) B0 w0 ->
    good_run (cfg_base (dcfg pa h)) (cfg_backup (dcfg pa h)) (VpH pa h) w0 ops w ->
  InvF (VpH pa h) (Vp (pk_h pa h)) B0 w /\ recoverable (VpH pa h) (Vp (pk_h pa h)) B0 w /\
  exists r w', b_rollback (cfg_base (dcfg pa h)) (cfg_backup (dcfg pa h)) w = (r, w') /\ r <> MHalt /\
    (r = MOk tt -> store_eqv (VpH pa h w') B0 /\ (forall p, p <> s_root -> Vp (pk_h pa h) w' !! p = None) /\
                   w_infos w' = ∅) /\
    (spent w -> r = MOk tt).
Proof. exact run_fault_documented. Qed.
Print Assumptions C09_history_single_fault_documented.

(* ------------------------------------------------------------------ *)
(** ** the layering of the constructors New / NewWithFS
    [ncfg q = mkConfig None [q] q]: HiddenFS directly over the OS filesystem
    (no PrefixFS), the backup location [q] - an absolute cleaned path other
    than "/" - hidden from the base and the root of the backup filesystem.
    The base view [V0H q] (Spec/ViewRoot.v) is the WHOLE filesystem except the
    location and what lies below it; it shows link targets as stored ([tn_0],
    the identity: without PrefixFS nothing cleans them).  The root "/" is a
    proper ancestor of the location ([anc_h q]): it cannot be removed (EBUSY)
    or renamed.  Proofs/LawsNew.v. *)
From BFS Require Import Spec.ViewHidden Spec.ViewRoot Proofs.LawsNew.

Theorem C09_nil_only_if_restored_new :
  forall q, hidden_ok q ->
  forall B0, links_ok tn_0 clean (acc_0 q) (acc_p q) B0 -> all_small B0 -> swf B0 ->
  loc_ok (hid_h q) (anc_h q) B0 ->
  forall w r w', InvF (V0H q) (Vp q) B0 w ->
  b_rollback (cfg_base (ncfg q)) (cfg_backup (ncfg q)) w = (r, w') ->
  r <> MHalt /\
  (r = MOk tt -> store_eqv (V0H q w') B0 /\ (forall p, p <> s_root -> Vp q w' !! p = None) /\
                 w_infos w' = ∅).
Proof. exact rollback_nil_new. Qed.
Print Assumptions C09_nil_only_if_restored_new.

Theorem C09_history_single_fault_new :
  forall q, hidden_ok q ->
  forall B0, all_small B0 ->
  forall w0 ops w,
    initialF (V0H q) (Vp q) tn_0 clean (acc_0 q) (acc_p q) B0 w0 ->
    good_run (cfg_base (ncfg q)) (cfg_backup (ncfg q)) (V0H q) w0 ops w ->
  InvF (V0H q) (Vp q) B0 w /\ recoverable (V0H q) (Vp q) B0 w /\
  exists r w', b_rollback (cfg_base (ncfg q)) (cfg_backup (ncfg q)) w = (r, w') /\ r <> MHalt /\
    (r = MOk tt -> store_eqv (V0H q w') B0 /\ (forall p, p <> s_root -> Vp q w' !! p = None) /\
                   w_infos w' = ∅) /\
    (spent w -> r = MOk tt).
Proof. exact run_fault_new. Qed.
Print Assumptions C09_history_single_fault_new.
