(** C02 — originals stay recoverable, *at every instant*.

    Props/C02.v proves the property between operations.  Here it is proved
    at every primitive filesystem call inside an operation, in the middle of
    RemoveAll and of Rollback included, with the model's own crash points:
    "the state at instant [k]" is the world in which a run started with the
    crash point [w_crash = Some k] halts - the spy layer ([spied] of
    Base/Monad.v) stops the whole computation, world unchanged, at the first
    primitive call made when [k] calls have been made
    ([C02_crash_points_concrete]: for the concrete filesystems every method
    and every operation on their handles is such a call, and halts exactly
    then).

    What is proved ([recoverable] of Spec/Always.v, about every world in which
    such a run halts - and about the world it ends in if it does not halt):
    - every entry [n0] of the base view [B0] the transaction began with
      (the root's own entry aside) is intact at its path in the base view -
      up to [sonode_eqv]: timestamps of directories and of symlinks are
      exempt, regular files are equal in content and all metadata - or the
      backup view holds at the same path a copy [copy_of n0 nk]: type,
      content, link target, mode, owner, file mtime (for directories: mode and
      owner);
    - the backup view holds (below its root) nothing but entries at paths of
      originals, each of them such a copy, with at most one exception [wp]:
      the entry being written at that instant, which is a [growing_copy] -
      a directory whose mode/owner/times are not yet adjusted (MkdirAll has
      been done, Chmod/Chtimes/Chown not yet), a regular file holding a
      prefix of the original's content with whatever metadata (the copy loop,
      then Chown/Chmod/Chtimes), a symlink with the original's target whose
      owner is not yet adjusted (Symlink done, Lchown not yet).  Nothing
      created during the transaction is ever in the backup view, and the
      copy of a tracked path is never touched again (it stays [copy_of]).

    The theorems:
    - [C02_instant_try_backup], [C02_instant_step]: every instant of
      tryBackup / of every covered operation ([covered] of Spec/Inv.v: the
      same operations and side conditions as the step theorem of C01/C02:
      Create, OpenFile+write, Mkdir, MkdirAll, Remove, RemoveAll, Rename
      of a leaf, Symlink, Chmod, Chown, Lchown, Chtimes, Stat, Lstat, Readlink,
      Read, Readdir) started in a state satisfying the invariant;
    - [C02_instant_history]: every instant of a history of covered operations
      ([good_run]) started in an [initial] state;
    - [C02_instant_rollback], [C02_instant_history_rollback]: every instant
      of Rollback (the copies are removed only after all restoring passes);
    all four over two abstract filesystems satisfying the laws of
    Spec/Laws.v, Spec/Laws2.v and the crash laws [api_crash_laws] of
    Spec/Always.v;
    - [C02_instant_concrete], [C02_instant_rollback_concrete]: the same,
      closed (no hypotheses about the filesystems), for the concrete layering
      base = PrefixFS(pa) over the OS filesystem, backup = PrefixFS(pb) over
      the same OS filesystem, disjoint prefixes (Theorem B and
      [the_api_crash_laws]).

    Not proved here: operations outside [covered] (ForceBackup; operations
    whose names are not resolved or that follow a final symlink, D14; Rename
    of a non-empty directory; Remove/RemoveAll of the root) and runs with a
    fault plan (the laws speak about worlds without faults).

    The law-level theorems take two more parameters than the laws had before
    the documented layering was added: [hid] (view paths at or below a
    location the base hides, HiddenFS) and [anc] (the proper ancestors of such
    a location); for a base that hides nothing both are [nohid] and nothing
    changes.  Theorems that start from an arbitrary state satisfying the
    invariant and run Rollback ask for [loc_ok hid anc B0] in addition: the
    baseline shows nothing hidden and shows the ancestors of the hidden
    locations as directories ([loc_ok_nohid] when nothing is hidden; a
    consequence of the laws for the base view of an [initial] state).
    [C02_instant_documented], [C02_instant_rollback_documented] (end of the
    file): the same, closed, for the documented layering (backup location
    inside the base tree, hidden by HiddenFS: Proofs/LawsHidden*.v). *)
From stdpp Require Import gmap.
From BFS Require Import Spec.Always Spec.ViewOsfs.
From BFS Require Import Proofs.LawsOsfsBase Proofs.LawsOsfs.
From BFS Require Import Proofs.AlwaysLib Proofs.AlwaysTry Proofs.AlwaysRollback Proofs.LawsOsfsCrash.

Theorem C02_instant_try_backup :
  forall base backup Vb Vk tnb tnk accb acck rhb rhk whb whk hid anc B0,
  base_laws base Vb Vk tnb accb rhb whb hid anc -> backup_laws backup Vb Vk tnk acck rhk whk ->
  api_crash_laws base Vb -> api_crash_laws backup Vk ->
  links_ok tnb tnk accb acck B0 -> all_small B0 -> swf B0 ->
  forall w p, Inv Vb Vk B0 w -> snolinkpar (Vb w) p ->
  forall k wh, try_backup base backup p (set_crash w (Some k)) = (MHalt, wh) ->
  recoverable Vb Vk B0 wh.
Proof. exact try_backup_always. Qed.
Print Assumptions C02_instant_try_backup.

Theorem C02_instant_step :
  forall base backup Vb Vk tnb tnk accb acck rhb rhk whb whk hid anc B0,
  base_laws base Vb Vk tnb accb rhb whb hid anc -> base_laws2 base Vb Vk tnb accb rhb whb ->
  backup_laws backup Vb Vk tnk acck rhk whk ->
  api_crash_laws base Vb -> api_crash_laws backup Vk ->
  links_ok tnb tnk accb acck B0 -> all_small B0 -> swf B0 ->
  forall o w, Inv Vb Vk B0 w -> covered Vb o w ->
  forall k wh, step base backup o (set_crash w (Some k)) = (MHalt, wh) ->
  recoverable Vb Vk B0 wh.
Proof. exact step_always. Qed.
Print Assumptions C02_instant_step.

Theorem C02_instant_history :
  forall base backup Vb Vk tnb tnk accb acck rhb rhk whb whk hid anc B0,
  base_laws base Vb Vk tnb accb rhb whb hid anc -> base_laws2 base Vb Vk tnb accb rhb whb ->
  backup_laws backup Vb Vk tnk acck rhk whk ->
  api_crash_laws base Vb -> api_crash_laws backup Vk ->
  all_small B0 ->
  forall w0 ops w, initial Vb Vk tnb tnk accb acck B0 w0 -> good_run base backup Vb w0 ops w ->
  forall k outs wh, run_ops base backup ops (set_crash w0 (Some k)) = (outs, wh) ->
  recoverable Vb Vk B0 wh.
Proof. exact run_always. Qed.
Print Assumptions C02_instant_history.

Theorem C02_instant_rollback :
  forall base backup Vb Vk tnb tnk accb acck rhb rhk whb whk hid anc B0,
  base_laws base Vb Vk tnb accb rhb whb hid anc -> backup_laws backup Vb Vk tnk acck rhk whk ->
  api_crash_laws base Vb -> api_crash_laws backup Vk ->
  links_ok tnb tnk accb acck B0 -> all_small B0 -> swf B0 -> loc_ok hid anc B0 ->
  forall w, Inv Vb Vk B0 w ->
  forall k wh, b_rollback base backup (set_crash w (Some k)) = (MHalt, wh) ->
  recoverable Vb Vk B0 wh.
Proof. exact rollback_always. Qed.
Print Assumptions C02_instant_rollback.

Theorem C02_instant_history_rollback :
  forall base backup Vb Vk tnb tnk accb acck rhb rhk whb whk hid anc B0,
  base_laws base Vb Vk tnb accb rhb whb hid anc -> base_laws2 base Vb Vk tnb accb rhb whb ->
  backup_laws backup Vb Vk tnk acck rhk whk ->
  api_crash_laws base Vb -> api_crash_laws backup Vk ->
  all_small B0 ->
  forall w0 ops w, initial Vb Vk tnb tnk accb acck B0 w0 -> good_run base backup Vb w0 ops w ->
  forall k outs wh, run_ops base backup (ops ++ [ORollback]) (set_crash w0 (Some k)) = (outs, wh) ->
  recoverable Vb Vk B0 wh.
Proof. exact run_rollback_always. Qed.
Print Assumptions C02_instant_history_rollback.

(** the form of the property with no bound on the number of incomplete copies *)
Theorem C02_recoverable_weaken :
  forall Vb Vk B0 w, recoverable Vb Vk B0 w ->
  (forall p n0, B0 !! p = Some n0 -> p <> s_root ->
     sonode_eqv (Vb w !! p) (Some n0) \/ exists nk, Vk w !! p = Some nk /\ copy_of n0 nk) /\
  (forall p nk, p <> s_root -> Vk w !! p = Some nk ->
     exists n0, B0 !! p = Some n0 /\ (copy_of n0 nk \/ growing_copy n0 nk)).
Proof. exact recoverable_weaken. Qed.
Print Assumptions C02_recoverable_weaken.

(** * The concrete layering: closed theorems *)

(** the crash laws hold for the concrete filesystems *)
Theorem C02_crash_laws_concrete :
  forall tag pfx, api_crash_laws (the_api tag pfx) (Vp pfx).
Proof. exact the_api_crash_laws. Qed.
Print Assumptions C02_crash_laws_concrete.

(** every method of the concrete filesystems is a crash point: with
    [w_crash = Some k] it halts, world unchanged, iff [k <= w_ticks], and
    otherwise does what it does without crash point and counts; so do the
    operations on the handles these filesystems return (which are spied) *)
Theorem C02_crash_points_concrete :
  forall tag pfx,
  (forall p, uniform (a_lstat (the_api tag pfx) p)) /\
  (forall p, uniform (a_stat (the_api tag pfx) p)) /\
  (forall p, uniform (a_readlink (the_api tag pfx) p)) /\
  (forall p, uniform (a_open (the_api tag pfx) p)) /\
  (forall p fl perm, uniform (a_openfile (the_api tag pfx) p fl perm)) /\
  (forall p, uniform (a_create (the_api tag pfx) p)) /\
  (forall p perm, uniform (a_mkdir (the_api tag pfx) p perm)) /\
  (forall p perm, uniform (a_mkdirall (the_api tag pfx) p perm)) /\
  (forall p, uniform (a_remove (the_api tag pfx) p)) /\
  (forall p, uniform (a_removeall (the_api tag pfx) p)) /\
  (forall o n, uniform (a_rename (the_api tag pfx) o n)) /\
  (forall p m, uniform (a_chmod (the_api tag pfx) p m)) /\
  (forall p u g, uniform (a_chown (the_api tag pfx) p u g)) /\
  (forall p u g, uniform (a_lchown (the_api tag pfx) p u g)) /\
  (forall p t, uniform (a_chtimes (the_api tag pfx) p t)) /\
  (forall t p, uniform (a_symlink (the_api tag pfx) t p)).
Proof. exact the_api_uniform. Qed.
Print Assumptions C02_crash_points_concrete.

Theorem C02_handles_spied_concrete :
  forall tag pfx p w w' h,
  (a_open (the_api tag pfx) p w = (MOk h, w') \/
   (exists fl perm, a_openfile (the_api tag pfx) p fl perm w = (MOk h, w')) \/
   a_create (the_api tag pfx) p w = (MOk h, w')) -> fh_spy h = Some (tag, p).
Proof. exact the_api_handles_spied. Qed.
Print Assumptions C02_handles_spied_concrete.

Theorem C02_handle_crash_points :
  forall h, fh_spy h <> None ->
  uniform (hread h) /\ (forall d, uniform (hwrite h d)) /\ uniform (hclose h) /\
  uniform (hstat h) /\ uniform (hreaddirnames h).
Proof.
  exact (fun h Hs => conj (uniform_hread h Hs) (conj (fun d => uniform_hwrite h d Hs)
          (conj (uniform_hclose h Hs) (conj (uniform_hstat h Hs) (uniform_hreaddirnames h Hs))))).
Qed.
Print Assumptions C02_handle_crash_points.

(** at every instant of a history of covered operations *)
Theorem C02_instant_concrete :
  forall pa pb, prefix_ok pa -> prefix_ok pb -> disjoint_prefixes pa pb ->
  forall B0, all_small B0 ->
  forall w0 ops w,
    initial (Vp pa) (Vp pb) clean clean (acc_p pa) (acc_p pb) B0 w0 ->
    good_run (cfg_base (gcfg pa pb)) (cfg_backup (gcfg pa pb)) (Vp pa) w0 ops w ->
  forall k outs wh, run_history (gcfg pa pb) ops (with_crash w0 (Some k)) = (outs, wh) ->
  recoverable (Vp pa) (Vp pb) B0 wh.
Proof. exact c02_instant_concrete. Qed.
Print Assumptions C02_instant_concrete.

(** ... followed by Rollback *)
Theorem C02_instant_rollback_concrete :
  forall pa pb, prefix_ok pa -> prefix_ok pb -> disjoint_prefixes pa pb ->
  forall B0, all_small B0 ->
  forall w0 ops w,
    initial (Vp pa) (Vp pb) clean clean (acc_p pa) (acc_p pb) B0 w0 ->
    good_run (cfg_base (gcfg pa pb)) (cfg_backup (gcfg pa pb)) (Vp pa) w0 ops w ->
  forall k outs wh, run_history (gcfg pa pb) (ops ++ [ORollback]) (with_crash w0 (Some k)) = (outs, wh) ->
  recoverable (Vp pa) (Vp pb) B0 wh.
Proof. exact c02_instant_rollback_concrete. Qed.
Print Assumptions C02_instant_rollback_concrete.

(** one operation / Rollback from any state satisfying the invariant *)
Theorem C02_instant_step_concrete :
  forall pa pb, prefix_ok pa -> prefix_ok pb -> disjoint_prefixes pa pb ->
  forall B0, links_ok clean clean (acc_p pa) (acc_p pb) B0 -> all_small B0 -> swf B0 ->
  forall o w, Inv (Vp pa) (Vp pb) B0 w -> covered (Vp pa) o w ->
  forall k wh, step (cfg_base (gcfg pa pb)) (cfg_backup (gcfg pa pb)) o (with_crash w (Some k)) = (MHalt, wh) ->
  recoverable (Vp pa) (Vp pb) B0 wh.
Proof. exact step_always_concrete. Qed.
Print Assumptions C02_instant_step_concrete.

Theorem C02_instant_rollback_step_concrete :
  forall pa pb, prefix_ok pa -> prefix_ok pb -> disjoint_prefixes pa pb ->
  forall B0, links_ok clean clean (acc_p pa) (acc_p pb) B0 -> all_small B0 -> swf B0 ->
  forall w, Inv (Vp pa) (Vp pb) B0 w ->
  forall k wh, b_rollback (cfg_base (gcfg pa pb)) (cfg_backup (gcfg pa pb)) (with_crash w (Some k)) = (MHalt, wh) ->
  recoverable (Vp pa) (Vp pb) B0 wh.
Proof. exact rollback_always_concrete. Qed.
Print Assumptions C02_instant_rollback_step_concrete.

(** at every instant, closed, for the DOCUMENTED layering (location inside the
    base tree, hidden by HiddenFS: Proofs/LawsHidden.v), Rollback included *)
From BFS Require Import Spec.ViewHidden Proofs.LawsHidden.

Theorem C02_instant_documented :
  forall pa h, prefix_ok pa -> hidden_ok h ->
  forall B0, all_small B0 ->
  forall w0 ops w,
    initial (VpH pa h) (Vp (pk_h pa h)) clean clean (acc_h pa h) (acc_p (pk_h pa h)) B0 w0 ->
    good_run (cfg_base (dcfg pa h)) (cfg_backup (dcfg pa h)) (VpH pa h) w0 ops w ->
  forall k outs wh, run_history (dcfg pa h) ops (with_crash w0 (Some k)) = (outs, wh) ->
  recoverable (VpH pa h) (Vp (pk_h pa h)) B0 wh.
Proof. exact c02_instant_documented. Qed.
Print Assumptions C02_instant_documented.

Theorem C02_instant_rollback_documented :
  forall pa h, prefix_ok pa -> hidden_ok h ->
  forall B0, all_small B0 ->
  forall w0 ops w,
    initial (VpH pa h) (Vp (pk_h pa h)) clean clean (acc_h pa h) (acc_p (pk_h pa h)) B0 w0 ->
    good_run (cfg_base (dcfg pa h)) (cfg_backup (dcfg pa h)) (VpH pa h) w0 ops w ->
  forall k outs wh, run_history (dcfg pa h) (ops ++ [ORollback]) (with_crash w0 (Some k)) = (outs, wh) ->
  recoverable (VpH pa h) (Vp (pk_h pa h)) B0 wh.
Proof. exact c02_instant_rollback_documented. Qed.
Print Assumptions C02_instant_rollback_documented.

(* ------------------------------------------------------------------ *)
(** ** the layering of the constructors New / NewWithFS
    [ncfg q = mkConfig None [q] q]: HiddenFS directly over the OS filesystem
    (no PrefixFS), the backup location [q] - an absolute cleaned path other
    than "/" - hidden from the base and the root of the backup filesystem.
    The base view [V0H q] (Spec/ViewRoot.v) is the WHOLE filesystem except the
    location and what lies below it; it shows link targets as stored ([tn_0],
    the identity: without PrefixFS nothing cleans them).  The root "/" is a
    proper ancestor of the location ([anc_h q]): it cannot be removed (EBUSY)
    or renamed.  Proofs/LawsNew.v. *)
From BFS Require Import Spec.ViewHidden Spec.ViewRoot Proofs.LawsNew.

Theorem C02_instant_new :
  forall q, hidden_ok q ->
  forall B0, all_small B0 ->
  forall w0 ops w,
    initial (V0H q) (Vp q) tn_0 clean (acc_0 q) (acc_p q) B0 w0 ->
    good_run (cfg_base (ncfg q)) (cfg_backup (ncfg q)) (V0H q) w0 ops w ->
  forall k outs wh, run_history (ncfg q) ops (with_crash w0 (Some k)) = (outs, wh) ->
  recoverable (V0H q) (Vp q) B0 wh.
Proof. exact c02_instant_new. Qed.
Print Assumptions C02_instant_new.

Theorem C02_instant_rollback_new :
  forall q, hidden_ok q ->
  forall B0, all_small B0 ->
  forall w0 ops w,
    initial (V0H q) (Vp q) tn_0 clean (acc_0 q) (acc_p q) B0 w0 ->
    good_run (cfg_base (ncfg q)) (cfg_backup (ncfg q)) (V0H q) w0 ops w ->
  forall k outs wh, run_history (ncfg q) (ops ++ [ORollback]) (with_crash w0 (Some k)) = (outs, wh) ->
  recoverable (V0H q) (Vp q) B0 wh.
Proof. exact c02_instant_rollback_new. Qed.
Print Assumptions C02_instant_rollback_new.
