(** C02 — originals stay recoverable (backup before write).

    Proved here: *between* operations.  In every state reached by covered
    operations ([good_run], see Props/C01.v) every original entry is intact in
    the base view or copied at the same path of the backup view, and the
    backup view holds nothing but such copies.  The statement at every
    primitive call *inside* an operation (crash points) is decided by the
    correspondence streams of this property (model and implementation stopped
    after k calls, for every k) and not yet by a theorem: C02_between_operations
    is therefore labelled partial.

    The laws are hypotheses of [C02_between_operations_partial]; they are
    proved for the concrete generic layering (two PrefixFS with disjoint
    prefixes over the OS filesystem) in Proofs/LawsOsfs*.v, which gives the
    closed [C02_concrete_between_operations_partial] below.
    Proofs/ConcreteExample.v exhibits a non-trivial instance of its
    hypotheses ([c02_concrete_instance]).

    The law-level statements are parameterised by [hid]/[anc] (what the base
    hides: paths at or below a hidden location, its proper ancestors; [nohid]
    for a base that hides nothing) and the Rollback statements from an
    arbitrary invariant state ask for [loc_ok hid anc B0] (see Props/C01.v);
    the [*_documented] theorems at the end of the file are the closed
    instances for the documented layering (location inside the base tree,
    hidden by HiddenFS: Proofs/LawsHidden*.v). *)
From stdpp Require Import gmap.
From BFS Require Import Spec.CopySpecs.
From BFS Require Import Proofs.BackupCopy Proofs.BackupTry Proofs.BackupRollback Proofs.BackupC01.
From BFS Require Import Spec.ViewOsfs Proofs.LawsOsfs.


Theorem C02_between_operations_partial :
  forall base backup Vb Vk tnb tnk accb acck rhb rhk whb whk hid anc B0,
    base_laws base Vb Vk tnb accb rhb whb hid anc -> base_laws2 base Vb Vk tnb accb rhb whb ->
    backup_laws backup Vb Vk tnk acck rhk whk ->
    all_small B0 ->
    forall w0 ops w, initial Vb Vk tnb tnk accb acck B0 w0 -> good_run base backup Vb w0 ops w ->
    (forall p n0, B0 !! p = Some n0 -> p <> s_root ->
       sonode_eqv (Vb w !! p) (Some n0) \/
       exists nk, Vk w !! p = Some nk /\ copy_of n0 nk) /\
    (forall p, p <> s_root -> Vk w !! p <> None ->
       exists n0 nk, B0 !! p = Some n0 /\ Vk w !! p = Some nk /\ copy_of n0 nk).
Proof. exact recoverable_between_operations. Qed.
Print Assumptions C02_between_operations_partial.

(** the same, closed, for the concrete layering base = PrefixFS([pa]), backup =
    PrefixFS([pb]) over the OS filesystem of the model *)
Theorem C02_concrete_between_operations_partial :
  forall pa pb, prefix_ok pa -> prefix_ok pb -> disjoint_prefixes pa pb ->
  forall B0, all_small B0 ->
  forall w0 ops w,
    initial (Vp pa) (Vp pb) clean clean (acc_p pa) (acc_p pb) B0 w0 ->
    good_run (cfg_base (gcfg pa pb)) (cfg_backup (gcfg pa pb)) (Vp pa) w0 ops w ->
    (forall p n0, B0 !! p = Some n0 -> p <> s_root ->
       sonode_eqv (Vp pa w !! p) (Some n0) \/
       exists nk, Vp pb w !! p = Some nk /\ copy_of n0 nk) /\
    (forall p, p <> s_root -> Vp pb w !! p <> None ->
       exists n0 nk, B0 !! p = Some n0 /\ Vp pb w !! p = Some nk /\ copy_of n0 nk).
Proof. exact c02_concrete. Qed.
Print Assumptions C02_concrete_between_operations_partial.

(** a failed or successful [tryBackup] never modifies the base view and keeps
    the invariant (in particular what was copied stays copied) *)
Theorem C02_try_backup_base_untouched :
  forall base backup Vb Vk tnb tnk accb acck rhb rhk whb whk hid anc B0,
  try_backup_stmt base backup Vb Vk tnb tnk accb acck rhb rhk whb whk hid anc B0.
Proof. exact try_backup_spec. Qed.
Print Assumptions C02_try_backup_base_untouched.

(** the same, closed, for the DOCUMENTED layering (location inside the base
    tree, hidden by HiddenFS: Proofs/LawsHidden.v) *)
From BFS Require Import Spec.ViewHidden Proofs.LawsHidden.

Theorem C02_documented_between_operations_partial :
  forall pa h, prefix_ok pa -> hidden_ok h ->
  forall B0, all_small B0 ->
  forall w0 ops w,
    initial (VpH pa h) (Vp (pk_h pa h)) clean clean (acc_h pa h) (acc_p (pk_h pa h)) B0 w0 ->
    good_run (cfg_base (dcfg pa h)) (cfg_backup (dcfg pa h)) (VpH pa h) w0 ops w ->
    (forall p n0, B0 !! p = Some n0 -> p <> s_root ->
       sonode_eqv (VpH pa h w !! p) (Some n0) \/
       exists nk, Vp (pk_h pa h) w !! p = Some nk /\ copy_of n0 nk) /\
    (forall p, p <> s_root -> Vp (pk_h pa h) w !! p <> None ->
       exists n0 nk, B0 !! p = Some n0 /\ Vp (pk_h pa h) w !! p = Some nk /\ copy_of n0 nk).
Proof. exact c02_documented. Qed.
Print Assumptions C02_documented_between_operations_partial.

(* ------------------------------------------------------------------ *)
(** ** the layering of the constructors New / NewWithFS
    [ncfg q = mkConfig None [q] q]: HiddenFS directly over the OS filesystem
    (no PrefixFS), the backup location [q] - an absolute cleaned path other
    than "/" - hidden from the base and the root of the backup filesystem.
    The base view [V0H q] (Spec/ViewRoot.v) is the WHOLE filesystem except the
    location and what lies below it; it shows link targets as stored ([tn_0],
    the identity: without PrefixFS nothing cleans them).  The root "/" is a
    proper ancestor of the location ([anc_h q]): it cannot be removed (EBUSY)
    or renamed.  Proofs/LawsNew.v. *)
From BFS Require Import Spec.ViewHidden Spec.ViewRoot Proofs.LawsNew.

Theorem C02_new_between_operations_partial :
  forall q, hidden_ok q ->
  forall B0, all_small B0 ->
  forall w0 ops w,
    initial (V0H q) (Vp q) tn_0 clean (acc_0 q) (acc_p q) B0 w0 ->
    good_run (cfg_base (ncfg q)) (cfg_backup (ncfg q)) (V0H q) w0 ops w ->
    (forall p n0, B0 !! p = Some n0 -> p <> s_root ->
       sonode_eqv (V0H q w !! p) (Some n0) \/
       exists nk, Vp q w !! p = Some nk /\ copy_of n0 nk) /\
    (forall p, p <> s_root -> Vp q w !! p <> None ->
       exists n0 nk, B0 !! p = Some n0 /\ Vp q w !! p = Some nk /\ copy_of n0 nk).
Proof. exact c02_new. Qed.
Print Assumptions C02_new_between_operations_partial.
