From BFS Require Import Backup.History.
Example placeholder_C02 : True. Proof. exact I. Qed.
