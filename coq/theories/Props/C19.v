(** C19 — depth ordering and ancestor enumeration are correct for all paths.
    Only statements here; proofs are in Proofs/C19Facts.v. *)
From BFS Require Import Base.Bytes Path.GoPath Path.PathSpec Path.Iterate Sort.Order.
From BFS Require Import Proofs.C19Facts.

(** LessFilePathSeparators is a strict total order on all byte strings. *)
Theorem C19_less_irrefl : forall a, less a a = false.
Proof. exact less_irrefl. Qed.
Print Assumptions C19_less_irrefl.

Theorem C19_less_trans : forall a b c, less a b = true -> less b c = true -> less a c = true.
Proof. exact less_trans. Qed.
Print Assumptions C19_less_trans.

Theorem C19_less_total : forall a b, a <> b -> less a b = true \/ less b a = true.
Proof. exact less_total. Qed.
Print Assumptions C19_less_total.

(** Every proper ancestor of a cleaned path is strictly smaller (root smallest). *)
Theorem C19_ancestor_less :
  forall a p, cleaned a -> cleaned p -> ancestor a p -> less a p = true.
Proof. exact ancestor_less. Qed.
Print Assumptions C19_ancestor_less.

(** ByMostFilePathSeparators: every path comes before each of its ancestors,
    whatever algorithm produced the sorted permutation. *)
Theorem C19_most_sorted :
  forall l s, NoDup l -> Forall cleaned l -> Permutation s l -> sorted_by most s ->
  forall a p, In a s -> In p s -> ancestor a p -> before p a s.
Proof. exact most_sorted_ancestors. Qed.
Print Assumptions C19_most_sorted.

(** ByLeastFilePathSeparators: every path comes after each of its ancestors. *)
Theorem C19_least_sorted :
  forall l s, NoDup l -> Forall cleaned l -> Permutation s l -> sorted_by least s ->
  forall a p, In a s -> In p s -> ancestor a p -> before a p s.
Proof. exact least_sorted_ancestors. Qed.
Print Assumptions C19_least_sorted.

(** The sorted sequence is unique: it depends neither on the input permutation
    nor on the sorting algorithm. *)
Theorem C19_perm_independent_most :
  forall l s1 s2, NoDup l -> Permutation s1 l -> Permutation s2 l ->
  sorted_by most s1 -> sorted_by most s2 -> s1 = s2.
Proof. exact most_sorted_unique. Qed.
Print Assumptions C19_perm_independent_most.

Theorem C19_perm_independent_least :
  forall l s1 s2, NoDup l -> Permutation s1 l -> Permutation s2 l ->
  sorted_by least s1 -> sorted_by least s2 -> s1 = s2.
Proof. exact least_sorted_unique. Qed.
Print Assumptions C19_perm_independent_least.

(** The model's sort returns such a sorted permutation. *)
Theorem C19_sort_most_ok :
  forall l, NoDup l -> Permutation (sort_most l) l /\ sorted_by most (sort_most l).
Proof. exact sort_most_ok. Qed.
Print Assumptions C19_sort_most_ok.

Theorem C19_sort_least_ok :
  forall l, NoDup l -> Permutation (sort_least l) l /\ sorted_by least (sort_least l).
Proof. exact sort_least_ok. Qed.
Print Assumptions C19_sort_least_ok.

(** IterateDirTree on a cleaned path visits exactly the ancestor chain,
    for every byte string (any Unicode, valid UTF-8 or not). *)
Theorem C19_iterate :
  forall p, cleaned p -> iterate_dir_tree p (fun _ => true) = (chain p, false).
Proof. exact iterate_all. Qed.
Print Assumptions C19_iterate.

(** With a visitor that may refuse: the visited list is the shortest prefix of
    the chain that ends at the first refused element; aborted iff one exists. *)
Theorem C19_iterate_stop :
  forall p v, cleaned p ->
  let '(vis, ab) := iterate_dir_tree p v in
  (ab = false -> vis = chain p /\ Forall (fun x => v x = true) (chain p)) /\
  (ab = true -> exists pre x post, chain p = pre ++ x :: post /\ vis = pre ++ [x] /\
                 Forall (fun y => v y = true) pre /\ v x = false).
Proof. exact iterate_stop. Qed.
Print Assumptions C19_iterate_stop.

(** What the chain is: each once, exactly the path and its proper ancestors,
    shallowest first, ending with the path itself. *)
Theorem C19_chain_spec :
  forall p, cleaned p ->
  NoDup (chain p) /\ last (chain p) [] = p /\ sorted_by least (chain p) /\
  (forall a, In a (chain p) <-> (cleaned a /\ (a = p \/ ancestor a p))).
Proof. exact chain_spec. Qed.
Print Assumptions C19_chain_spec.

(** Non-vacuity: concrete non-trivial instances of the hypotheses. *)
Example C19_example_chain :
  let p := [47; 100; 47; 195; 164] (* "/d/ä" *) in
  cleaned p /\ chain p = [[47]; [47; 100]; p] /\ iterate_dir_tree p (fun _ => true) = (chain p, false).
Proof. vm_compute. repeat split; reflexivity. Qed.

Example C19_example_sort :
  let l := [[47; 97]; [47]; [47; 97; 47; 98]; [47; 98]] in
  sort_most l = [[47; 97; 47; 98]; [47; 98]; [47; 97]; [47]] /\
  sort_least l = [[47]; [47; 97]; [47; 98]; [47; 97; 47; 98]].
Proof. vm_compute. split; reflexivity. Qed.
