From BFS Require Import Base.Bytes Path.GoPath Path.Iterate Sort.Order.
Example placeholder : less s_root [sep; 97] = true. Proof. reflexivity. Qed.
