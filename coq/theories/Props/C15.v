(** C15 — HiddenFS is transparent for everything that is not hidden. *)
From BFS Require Import Layers.Call Layers.LayerSpec.
From BFS Require Import Proofs.HiddenFacts.

(** The call reaches the underlying filesystem with unchanged arguments
    (Create/Open become OpenFile with os.Create's / os.Open's flags, which is
    what os.Create / os.Open do; RemoveAll is the multi-call walk of C11). *)
Theorem C15_transparent_single :
  forall hs m n aux, Forall cleaned hs -> comparable hs n -> two_paths m = false ->
  ~ below hs n ->
  hiddenfs_call hs (mkCall m n [] aux) =
  match m with
  | MCreate => Fwd (mkCall MOpenFile n [] [578%Z; 438%Z])
  | MOpen => Fwd (mkCall MOpenFile n [] [0%Z; 0%Z])
  | MRemoveAll => Multi
  | _ => Fwd (mkCall m n [] aux)
  end.
Proof. exact hiddenfs_transparent_single. Qed.
Print Assumptions C15_transparent_single.

Theorem C15_transparent_rename :
  forall hs a b aux, Forall cleaned hs -> comparable hs a -> comparable hs b ->
  ~ below hs a -> ~ below hs b -> ~ above_hidden hs a ->
  hiddenfs_call hs (mkCall MRename a b aux) = Fwd (mkCall MRename a b aux).
Proof. exact hiddenfs_transparent_rename. Qed.
Print Assumptions C15_transparent_rename.

Theorem C15_transparent_symlink :
  forall hs t l aux, Forall cleaned hs ->
  comparable hs l -> comparable hs (to_abs_symlink t l) ->
  ~ below hs l -> ~ below hs (to_abs_symlink t l) ->
  hiddenfs_call hs (mkCall MSymlink t l aux) = Fwd (mkCall MSymlink t l aux).
Proof. exact hiddenfs_transparent_symlink. Qed.
Print Assumptions C15_transparent_symlink.

(** A name that merely shares a *string* prefix with a hidden path is not hidden. *)
Theorem C15_sibling_not_hidden :
  forall h n, cleaned h -> comparable [h] n -> ~ within h (clean n) -> is_hidden n [h] = Some false.
Proof. exact sibling_not_hidden. Qed.
Print Assumptions C15_sibling_not_hidden.

(** with no hidden paths the layer is the identity on every call *)
Theorem C15_no_hidden_identity :
  forall m n aux, two_paths m = false -> m <> MCreate -> m <> MOpen -> m <> MRemoveAll ->
  hiddenfs_call [] (mkCall m n [] aux) = Fwd (mkCall m n [] aux).
Proof. exact hiddenfs_nil_identity. Qed.
Print Assumptions C15_no_hidden_identity.
