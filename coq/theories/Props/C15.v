From BFS Require Import Layers.Call Layers.HiddenList.
Example placeholder_C15 : is_hidden [47; 104] [[47; 104]] = Some true. Proof. reflexivity. Qed.
