(** C08 — a failed backup makes the operation fail with the base untouched and
    does not corrupt the transaction: the semantic half, under fault plans.

    Props/C08.v proves (for arbitrary filesystems, by API restriction) that a
    failed backup stops the operation at once.  Here the laws of Spec/Laws.v
    are extended to worlds with a fault plan ([fault_laws] of Spec/Faults.v:
    a primitive call at a planned site is refused with EIO without being
    executed; every other call does exactly what it does without plan), and
    for every SINGLE-fault plan (one site, one occurrence; spent or not) and
    every world without crash point satisfying the transaction invariant of
    its fault-free part ([InvF]) it is proved:

    - [C08_try_backup_single_fault]: tryBackup never changes the base view;
      whatever primitive call (of either filesystem) is refused inside it,
      it does not halt, the invariant survives - the partial copy is removed
      again: with a single fault the cleanup cannot be refused - and
      bookkeeping only grows; if a call was refused and tryBackup nevertheless
      returned nil, the refused call was one of the base filesystem (the
      final Close of the original, whose error the code drops);
    - [C08_step_single_fault]: every covered operation ([covered] of
      Spec/Inv.v) does not halt, keeps the invariant (under [kind_stable], as
      without faults) and only adds bookkeeping at the paths it touches,
      whatever call is refused; and if the single fault is one of the BACKUP
      filesystem and fires during an operation that takes a backup (Create,
      OpenFile with a writing flag, Mkdir, MkdirAll, Remove, Rename, Symlink,
      Chmod, Chown, Lchown, Chtimes) the operation returns an error and the
      base view is exactly what it was;
    - [C08_history_single_fault]: along a history of covered operations
      started in an [initial] state with a single-fault plan the invariant
      holds, originals are recoverable (C02), and a later Rollback returns nil
      only if it restored everything (C01/C09); once the plan is spent (the
      fault has fired) Rollback does return nil and restore;
    - the same, closed, for the concrete layering of Proofs/LawsOsfs.v
      ([C08_fault_laws_concrete], [C08_*_concrete]); [C08_fault_example]: an
      instance (Proofs/FaultExample.v, cross-checked by running the model).

    NOT proved: plans with several faults (with two faults the cleanup after a
    failed copy can itself be refused and leave a partial copy behind: the
    statement about the backup view would be false); operations outside
    [covered]; RemoveAll under a backup-side fault is covered by the
    invariant statement only (entries removed before the failing one stay
    removed - they were backed up); faults combined with crash points.

    The law-level statements are parameterised by [hid]/[anc] (what the base
    hides: paths at or below a hidden location, its proper ancestors; [nohid]
    for a base that hides nothing) and the Rollback statements from an
    arbitrary invariant state ask for [loc_ok hid anc B0] (see Props/C01.v);
    the [*_documented] theorems at the end of the file are the closed
    instances for the documented layering (location inside the base tree,
    hidden by HiddenFS: Proofs/LawsHidden*.v). *)
From stdpp Require Import gmap.
From BFS Require Import Spec.Faults Spec.ViewOsfs.
From BFS Require Import Proofs.LawsOsfsBase Proofs.LawsOsfs Proofs.ConcreteExample.
From BFS Require Import Proofs.FaultLib Proofs.FaultTry Proofs.FaultRollback Proofs.LawsOsfsFault
                        Proofs.FaultExample.

Theorem C08_try_backup_single_fault :
  forall base backup Vb Vk tnb tnk accb acck rhb rhk whb whk hid anc B0 tagb tagk,
  base_laws base Vb Vk tnb accb rhb whb hid anc -> backup_laws backup Vb Vk tnk acck rhk whk ->
  fault_laws base Vb tagb rhb whb -> fault_laws backup Vk tagk rhk whk ->
  links_ok tnb tnk accb acck B0 -> all_small B0 -> swf B0 ->
  forall w p, InvF Vb Vk B0 w -> single (w_faults w) -> snolinkpar (Vb w) p ->
  exists r w', try_backup base backup p w = (r, w') /\ r <> MHalt /\ InvF Vb Vk B0 w' /\
    w_faults w' = w_faults w /\ Vb w' = Vb w /\ infos_ext w w' (cands p) /\
    (r = MOk tt -> tracked w' p /\ Forall (tracked w') (ancestors p)) /\
    (spent w -> spent w') /\
    (~ spent w -> spent w' -> (exists e, r = MErr e) \/ ~ no_base_fault tagb w).
Proof. exact try_backup_fault. Qed.
Print Assumptions C08_try_backup_single_fault.

Theorem C08_step_single_fault :
  forall base backup Vb Vk tnb tnk accb acck rhb rhk whb whk hid anc B0 tagb tagk,
  base_laws base Vb Vk tnb accb rhb whb hid anc -> base_laws2 base Vb Vk tnb accb rhb whb ->
  backup_laws backup Vb Vk tnk acck rhk whk ->
  fault_laws base Vb tagb rhb whb -> fault_laws backup Vk tagk rhk whk ->
  links_ok tnb tnk accb acck B0 -> all_small B0 -> swf B0 ->
  forall o w, InvF Vb Vk B0 w -> single (w_faults w) -> covered Vb o w ->
  exists r w', step base backup o w = (r, w') /\ r <> MHalt /\ w_crash w' = None /\
    w_faults w' = w_faults w /\
    (kind_stable Vb w' -> InvF Vb Vk B0 w') /\ infos_ext_in w w' (op_touches o) /\
    (spent w -> spent w') /\
    (takes_backup o = true -> no_base_fault tagb w -> ~ spent w -> spent w' ->
     (exists e, r = MErr e) /\ Vb w' = Vb w).
Proof. exact step_fault. Qed.
Print Assumptions C08_step_single_fault.

Theorem C08_history_single_fault :
  forall base backup Vb Vk tnb tnk accb acck rhb rhk whb whk hid anc B0 tagb tagk,
  base_laws base Vb Vk tnb accb rhb whb hid anc -> base_laws2 base Vb Vk tnb accb rhb whb ->
  backup_laws backup Vb Vk tnk acck rhk whk ->
  fault_laws base Vb tagb rhb whb -> fault_laws backup Vk tagk rhk whk ->
  all_small B0 ->
  forall w0 ops w, initialF Vb Vk tnb tnk accb acck B0 w0 -> good_run base backup Vb w0 ops w ->
  InvF Vb Vk B0 w /\ recoverable Vb Vk B0 w /\
  exists r w', b_rollback base backup w = (r, w') /\ r <> MHalt /\
    (r = MOk tt -> store_eqv (Vb w') B0 /\ (forall p, p <> s_root -> Vk w' !! p = None) /\
                   w_infos w' = ∅) /\
    (spent w -> r = MOk tt).
Proof. exact run_fault. Qed.
Print Assumptions C08_history_single_fault.

(** * The concrete layering: closed theorems *)

Theorem C08_fault_laws_concrete :
  forall tag pfx, fault_laws (the_api tag pfx) (Vp pfx) tag (rh_p tag pfx) (wh_p tag pfx).
Proof. exact the_api_fault_laws. Qed.
Print Assumptions C08_fault_laws_concrete.

Theorem C08_step_single_fault_concrete :
  forall pa pb, prefix_ok pa -> prefix_ok pb -> disjoint_prefixes pa pb ->
  forall B0, links_ok clean clean (acc_p pa) (acc_p pb) B0 -> all_small B0 -> swf B0 ->
  forall o w, InvF (Vp pa) (Vp pb) B0 w -> single (w_faults w) -> covered (Vp pa) o w ->
  exists r w', step (cfg_base (gcfg pa pb)) (cfg_backup (gcfg pa pb)) o w = (r, w') /\ r <> MHalt /\
    w_crash w' = None /\ w_faults w' = w_faults w /\
    (kind_stable (Vp pa) w' -> InvF (Vp pa) (Vp pb) B0 w') /\ infos_ext_in w w' (op_touches o) /\
    (spent w -> spent w') /\
    (takes_backup o = true -> no_base_fault TBase w -> ~ spent w -> spent w' ->
     (exists e, r = MErr e) /\ Vp pa w' = Vp pa w).
Proof. exact step_fault_concrete. Qed.
Print Assumptions C08_step_single_fault_concrete.

Theorem C08_history_single_fault_concrete :
  forall pa pb, prefix_ok pa -> prefix_ok pb -> disjoint_prefixes pa pb ->
  forall B0, all_small B0 ->
  forall w0 ops w,
    initialF (Vp pa) (Vp pb) clean clean (acc_p pa) (acc_p pb) B0 w0 ->
    good_run (cfg_base (gcfg pa pb)) (cfg_backup (gcfg pa pb)) (Vp pa) w0 ops w ->
  InvF (Vp pa) (Vp pb) B0 w /\ recoverable (Vp pa) (Vp pb) B0 w /\
  exists r w', b_rollback (cfg_base (gcfg pa pb)) (cfg_backup (gcfg pa pb)) w = (r, w') /\ r <> MHalt /\
    (r = MOk tt -> store_eqv (Vp pa w') B0 /\ (forall p, p <> s_root -> Vp pb w' !! p = None) /\
                   w_infos w' = ∅) /\
    (spent w -> r = MOk tt).
Proof. exact run_fault_concrete. Qed.
Print Assumptions C08_history_single_fault_concrete.

(** an instance: the first OpenFile("/f") of the backup filesystem refused
    during Chmod("/f"), then eight more operations, then Rollback *)
Theorem C08_fault_example :
  InvF (Vp pa) (Vp pb) B0 wf1' /\ recoverable (Vp pa) (Vp pb) B0 wf1' /\
  exists r w', b_rollback cbase cbackup wf1' = (r, w') /\ r <> MHalt /\
    (r = MOk tt -> store_eqv (Vp pa w') B0 /\ (forall p, p <> s_root -> Vp pb w' !! p = None) /\
                   w_infos w' = ∅) /\
    (spent wf1' -> r = MOk tt).
Proof. exact run_fault_concrete_instance. Qed.
Print Assumptions C08_fault_example.

(** every covered operation under a single fault, closed, for the DOCUMENTED
    layering (location inside the base tree, hidden by HiddenFS: Proofs/LawsHidden.v) *)
From BFS Require Import Spec.ViewHidden Proofs.LawsHidden.

Theorem C08_step_single_fault_documented :
  forall pa h, prefix_ok pa -> hidden_ok h ->
  forall B0, links_ok clean clean (acc_h pa h) (acc_p (pk_h pa h)) B0 -> all_small B0 -> swf B0 ->
  forall o w, InvF (VpH pa h) (Vp (pk_h pa h)) B0 w -> single (w_faults w) -> covered (VpH pa h) o w ->
  exists r w', step (cfg_base (dcfg pa h)) (cfg_backup (dcfg pa h)) o w = (r, w') /\ r <> MHalt /\
    w_crash w' = None /\ w_faults w' = w_faults w /\
    (kind_stable (VpH pa h) w' -> InvF (VpH pa h) (Vp (pk_h pa h)) B0 w') /\ infos_ext_in w w' (op_touches o) /\
    (spent w -> spent w') /\
    (takes_backup o = true -> no_base_fault TBase w -> ~ spent w -> spent w' ->
     (exists e, r = MErr e) /\ VpH pa h w' = VpH pa h w).
Proof. exact step_fault_documented. Qed.
Print Assumptions C08_step_single_fault_documented.

(* ------------------------------------------------------------------ *)
(** ** the layering of the constructors New / NewWithFS
    [ncfg q = mkConfig None [q] q]: HiddenFS directly over the OS filesystem
    (no PrefixFS), the backup location [q] - an absolute cleaned path other
    than "/" - hidden from the base and the root of the backup filesystem.
    The base view [V0H q] (Spec/ViewRoot.v) is the WHOLE filesystem except the
    location and what lies below it; it shows link targets as stored ([tn_0],
    the identity: without PrefixFS nothing cleans them).  The root "/" is a
    proper ancestor of the location ([anc_h q]): it cannot be removed (EBUSY)
    or renamed.  Proofs/LawsNew.v. *)
From BFS Require Import Spec.ViewHidden Spec.ViewRoot Proofs.LawsNew.

Theorem C08_step_single_fault_new :
  forall q, hidden_ok q ->
  forall B0, links_ok tn_0 clean (acc_0 q) (acc_p q) B0 -> all_small B0 -> swf B0 ->
  forall o w, InvF (V0H q) (Vp q) B0 w -> single (w_faults w) -> covered (V0H q) o w ->
  exists r w', step (cfg_base (ncfg q)) (cfg_backup (ncfg q)) o w = (r, w') /\ r <> MHalt /\
    w_crash w' = None /\ w_faults w' = w_faults w /\
    (kind_stable (V0H q) w' -> InvF (V0H q) (Vp q) B0 w') /\ infos_ext_in w w' (op_touches o) /\
    (spent w -> spent w') /\
    (takes_backup o = true -> no_base_fault TBase w -> ~ spent w -> spent w' ->
     (exists e, r = MErr e) /\ V0H q w' = V0H q w).
Proof. exact step_fault_new. Qed.
Print Assumptions C08_step_single_fault_new.
