(** C12 — transaction state survives serialisation and restart. *)
From stdpp Require Import gmap.
From BFS Require Import Backup.History Proofs.RollbackFacts.

(** every accessor Rollback or a user can observe survives; Name() becomes the
    base name of the map key *)
Theorem C12_reload_info :
  forall p fi, let fi' := reload_info p fi in
  fi_kind fi' = fi_kind fi /\ fi_perm fi' = fi_perm fi /\ fi_uid fi' = fi_uid fi /\
  fi_gid fi' = fi_gid fi /\ fi_mt fi' = fi_mt fi /\ fi_size fi' = fi_size fi /\
  fi_name fi' = GoPath.base p.
Proof. exact reload_info_accessors. Qed.
Print Assumptions C12_reload_info.

(** same paths, same existed / did-not-exist distinction, nothing else touched *)
Theorem C12_reload_spec :
  forall w, exists w',
  b_persist_reload w = (MOk tt, w') /\
  w_st w' = w_st w /\ w_trace w' = w_trace w /\ w_ticks w' = w_ticks w /\
  (forall p, w_infos w' !! p = option_map (option_map (reload_info p)) (w_infos w !! p)).
Proof. exact persist_reload_spec. Qed.
Print Assumptions C12_reload_spec.

(** tracked infos come from Lstat of the tracked path, whose Name() is the
    base name of that path; under that invariant a restart changes nothing at
    all, so everything that holds of the original instance (C01, C07) holds of
    the re-created one *)
Definition names_ok (w : world) : Prop :=
  forall p fi, w_infos w !! p = Some (Some fi) -> fi_name fi = GoPath.base p.

Theorem C12_restart_identity :
  forall w, names_ok w -> b_persist_reload w = (MOk tt, w).
Proof. exact persist_reload_identity. Qed.
Print Assumptions C12_restart_identity.

Example C12_example :
  let fi := mkFinfo [102] KFile 2541 1000 1001 (Preset 7) 5 in
  reload_info [47; 100; 47; 102] fi = fi.
Proof. vm_compute. reflexivity. Qed.
