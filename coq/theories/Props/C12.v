From BFS Require Import Backup.History.
Example placeholder_C12 : True. Proof. exact I. Qed.
