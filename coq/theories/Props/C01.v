From BFS Require Import Backup.History.
Example placeholder_c01 : True. Proof. exact I. Qed.
