(** C01 — Rollback restores the base filesystem exactly.

    The theorems are about the model's BackupFS ([step], [b_rollback] of
    Backup/BackupFS.v and Backup/History.v, the functions the correspondence
    check runs against the Go code) over *any* two filesystems [base] and
    [backup] that satisfy the laws of Spec/Laws.v with respect to abstract
    views [Vb], [Vk] (finite maps from resolved paths to nodes).  The laws are
    hypotheses of the theorems (section variables discharged into
    implications), not axioms; Proofs/LawsOsfs*.v proves them for the concrete
    layering "two PrefixFS with disjoint prefixes over the OS filesystem"
    (the layering "generic p=... q=..." of the correspondence check: base =
    spy (PrefixFS pa OSFS), backup = spy (PrefixFS pb OSFS)), which makes
    [C01_concrete_partial] below a closed theorem about [cfg_base c] /
    [cfg_backup c], [c = mkConfig (Some pa) [] pb], with no law left as a
    hypothesis.  Proofs/ConcreteExample.v exhibits a non-trivial instance of
    its hypotheses (a world with a setuid file, a populated directory and a
    relative symlink; nine operations of eight kinds) and checks that the
    conclusion of the theorem agrees with running the model on it.

    Full statement of the property, for reference (not yet proved in this
    strength; see DESIGN.md section 4 for what is missing):
      for every initial world, every list of operations of History.op and
      every layering: Rollback returns nil and the base view equals the initial
      one up to the root's own metadata and directory timestamps.
    It is *false* of the faithful model for the histories listed as known
    findings (D12, D13, D14, D20, K2, K3): Backup/Triggers.v characterises
    them; [C01_full_refuted_D14] below is a witness in the concrete model (the
    same history fails on the implementation: corpus/findings/D14.case).

    The law-level theorems take two more parameters than the laws had before
    the documented layering was added: [hid] (view paths at or below a
    location the base hides, HiddenFS) and [anc] (the proper ancestors of such
    a location); for a base that hides nothing both are [nohid] and nothing
    changes.  Theorems that start from an arbitrary state satisfying the
    invariant and run Rollback ask for [loc_ok hid anc B0] in addition: the
    baseline shows nothing hidden and shows the ancestors of the hidden
    locations as directories ([loc_ok_nohid] when nothing is hidden; a
    consequence of the laws for the base view of an [initial] state).
    [C01_documented_partial] (end of the file) is the closed theorem for the
    documented layering, where the backup location lies inside the base tree
    and is hidden by HiddenFS (Proofs/LawsHidden*.v). *)
From stdpp Require Import gmap.
From BFS Require Import Spec.CopySpecs.
From BFS Require Import Backup.History.
From BFS Require Import Proofs.BackupCopy Proofs.BackupTry Proofs.BackupRollback Proofs.BackupC01.
From BFS Require Import Spec.ViewOsfs Proofs.LawsOsfs.

(** the state in which a transaction begins satisfies the invariant *)
Theorem C01_initial_invariant :
  forall Vb Vk tnb tnk accb acck B0,
  initial_inv_stmt Vb Vk tnb tnk accb acck B0.
Proof. exact initial_inv_spec. Qed.
Print Assumptions C01_initial_invariant.

(** every covered operation keeps the transaction invariant, whether it
    succeeds or fails.  Covered ([covered] of Spec/Inv.v), on resolved names:
    Create, OpenFile+write (any flags), Mkdir, MkdirAll (any number of missing
    levels), Remove, RemoveAll (of anything but the root, directories with
    their content included), Rename of a source without entries below it,
    Symlink, Chmod, Chown, Lchown, Chtimes, and the read-only Stat, Lstat,
    Readlink, Open+read, Open+Readdirnames; the mutating ones that follow a
    final symlink (Create, OpenFile with a non-zero flag, Chmod, Chown,
    Chtimes) not on a symlink (D14).  The base has to satisfy [api_laws2]
    (Spec/Laws2.v) next to [api_laws]. *)
Theorem C01_step_keeps_invariant :
  forall base backup Vb Vk tnb tnk accb acck rhb rhk whb whk hid anc B0,
  step_stmt base backup Vb Vk tnb tnk accb acck rhb rhk whb whk hid anc B0.
Proof. exact step_spec. Qed.
Print Assumptions C01_step_keeps_invariant.

(** Rollback from *any* state satisfying the invariant (however it was
    reached) returns nil, restores the base view (root metadata and directory
    timestamps aside), empties the backup and the bookkeeping *)
Theorem C01_rollback_from_invariant :
  forall base backup Vb Vk tnb tnk accb acck rhb rhk whb whk hid anc B0,
  rollback_stmt base backup Vb Vk tnb tnk accb acck rhb rhk whb whk hid anc B0.
Proof. exact rollback_spec. Qed.
Print Assumptions C01_rollback_from_invariant.

(** C01 for histories of covered operations, of any length *)
Theorem C01_rollback_restores_partial :
  forall base backup Vb Vk tnb tnk accb acck rhb rhk whb whk hid anc B0,
  c01_stmt base backup Vb Vk tnb tnk accb acck rhb rhk whb whk hid anc B0.
Proof. exact c01_spec. Qed.
Print Assumptions C01_rollback_restores_partial.

(** C01 for histories of covered operations, closed: the concrete layering
    base = PrefixFS([pa]), backup = PrefixFS([pb]) over the OS filesystem of
    the model, [pa] and [pb] cleaned absolute paths other than the root,
    neither below the other.  No law is assumed: [the_api_laws],
    [the_api_laws2] of Proofs/LawsOsfs.v discharge them.  (Non-vacuity:
    [c01_concrete_instance], [c01_concrete_by_computation] of
    Proofs/ConcreteExample.v.) *)
Theorem C01_concrete_partial :
  forall pa pb, prefix_ok pa -> prefix_ok pb -> disjoint_prefixes pa pb ->
  forall B0, all_small B0 ->
  forall w0 ops w,
    initial (Vp pa) (Vp pb) clean clean (acc_p pa) (acc_p pb) B0 w0 ->
    good_run (cfg_base (gcfg pa pb)) (cfg_backup (gcfg pa pb)) (Vp pa) w0 ops w ->
    exists w', b_rollback (cfg_base (gcfg pa pb)) (cfg_backup (gcfg pa pb)) w = (MOk tt, w') /\
               store_eqv (Vp pa w') B0 /\ (forall p, p <> s_root -> Vp pb w' !! p = None) /\
               w_infos w' = ∅.
Proof. exact c01_concrete. Qed.
Print Assumptions C01_concrete_partial.

(** The unrestricted statement is false of the faithful model (recorded
    finding D14): the tree { /bk, /f = "hi", /l -> /f } in the layering of
    New/NewWithFS (base hides /bk, backup is PrefixFS(/bk)); Create("/l") writes
    through the link into the untracked /f; Rollback returns nil and /f is
    not restored. *)
Open Scope N_scope.
Definition w14 : world :=
  init_link (init_file (init_dir (init_dir init_world [47] 493 0 0 1) [47;98;107] 493 0 0 2)
                       [47;102] 420 0 0 5 [104;105]) [47;108] 0 0 6 [47;102].
Definition c14 : config := mkConfig None [[47;98;107]] [47;98;107].
Example C01_full_refuted_D14 :
  exists c w ops,
    let '(rs, w') := run_history c (ops ++ [ORollback]) w in
    last rs MHalt = MOk ObUnit /\ st_fs (w_st w') !! [[102]] <> st_fs (w_st w) !! [[102]].
Proof.
  exists c14, w14, [OCreate [47;108] [120]]. vm_compute.
  split; [reflexivity | intro H; inversion H].
Qed.

(** C01 for histories of covered operations, closed, for the DOCUMENTED
    layering: the backup location lies inside the base tree and is hidden
    from the base by HiddenFS, [dcfg pa h = mkConfig (Some pa) [h] (pa ++ h)].
    The base view [VpH pa h] is everything below [pa] except the location [h]
    and what lies below it.  See Props/C04.v (D) for what [covered] demands
    and for the operations on ancestors of the location. *)
From BFS Require Import Spec.ViewHidden Proofs.LawsHidden.

Theorem C01_documented_partial :
  forall pa h, prefix_ok pa -> hidden_ok h ->
  forall B0, all_small B0 ->
  forall w0 ops w,
    initial (VpH pa h) (Vp (pk_h pa h)) clean clean (acc_h pa h) (acc_p (pk_h pa h)) B0 w0 ->
    good_run (cfg_base (dcfg pa h)) (cfg_backup (dcfg pa h)) (VpH pa h) w0 ops w ->
    exists w', b_rollback (cfg_base (dcfg pa h)) (cfg_backup (dcfg pa h)) w = (MOk tt, w') /\
               store_eqv (VpH pa h w') B0 /\ (forall p, p <> s_root -> Vp (pk_h pa h) w' !! p = None) /\
               w_infos w' = ∅.
Proof. exact c01_documented. Qed.
Print Assumptions C01_documented_partial.

(** Regression for the repaired finding D23 (/repo commit 4f3c995).  Tree
    { /bk, /f = "orig", /other = "precious" } in the layering of New/NewWithFS
    (base hides /bk, backup is PrefixFS(/bk)).  Remove(/f) backs /f up;
    Symlink("other", /f) puts a link to /other in its place.  Before the
    repair Rollback restored /f *through* that link: [restoreFile]'s
    OpenFile(O_TRUNC) overwrote /other - an entry the transaction never named -
    with "orig", the link stayed, and Rollback returned nil.  Now the link is
    removed first ([remove_if_symlink]): Rollback returns nil, /f is the
    original regular file again and /other is untouched. *)
Definition w23 : world :=
  init_file (init_file (init_dir (init_dir init_world [47] 493 0 0 1) [47;98;107] 493 0 0 2)
                       [47;102] 420 0 0 5 [111;114;105;103])
            [47;111;116;104;101;114] 420 0 0 6 [112;114;101;99;105;111;117;115].
Example C01_fixed_D23 :
  let '(rs, w') := run_history c14 [ORemove [47;102]; OSymlink [111;116;104;101;114] [47;102]; ORollback] w23 in
  rs = [MOk ObUnit; MOk ObUnit; MOk ObUnit] /\
  st_fs (w_st w') !! [[102]] = Some (File (mkMeta 420 0 0 (Preset 5)) [111;114;105;103]) /\
  st_fs (w_st w') !! [[102]] = st_fs (w_st w23) !! [[102]] /\
  st_fs (w_st w') !! [[111;116;104;101;114]] = st_fs (w_st w23) !! [[111;116;104;101;114]] /\
  st_fs (w_st w') !! [[111;116;104;101;114]] =
    Some (File (mkMeta 420 0 0 (Preset 6)) [112;114;101;99;105;111;117;115]).
Proof. vm_compute. repeat split. Qed.
Print Assumptions C01_fixed_D23.

(* ------------------------------------------------------------------ *)
(** ** the layering of the constructors New / NewWithFS
    [ncfg q = mkConfig None [q] q]: HiddenFS directly over the OS filesystem
    (no PrefixFS), the backup location [q] - an absolute cleaned path other
    than "/" - hidden from the base and the root of the backup filesystem.
    The base view [V0H q] (Spec/ViewRoot.v) is the WHOLE filesystem except the
    location and what lies below it; it shows link targets as stored ([tn_0],
    the identity: without PrefixFS nothing cleans them).  The root "/" is a
    proper ancestor of the location ([anc_h q]): it cannot be removed (EBUSY)
    or renamed.  Proofs/LawsNew.v. *)
From BFS Require Import Spec.ViewHidden Spec.ViewRoot Proofs.LawsNew.

Theorem C01_new_partial :
  forall q, hidden_ok q ->
  forall B0, all_small B0 ->
  forall w0 ops w,
    initial (V0H q) (Vp q) tn_0 clean (acc_0 q) (acc_p q) B0 w0 ->
    good_run (cfg_base (ncfg q)) (cfg_backup (ncfg q)) (V0H q) w0 ops w ->
    exists w', b_rollback (cfg_base (ncfg q)) (cfg_backup (ncfg q)) w = (MOk tt, w') /\
               store_eqv (V0H q w') B0 /\ (forall p, p <> s_root -> Vp q w' !! p = None) /\
               w_infos w' = ∅.
Proof. exact c01_new. Qed.
Print Assumptions C01_new_partial.
