From BFS Require Import Backup.History.
Example placeholder_C04 : True. Proof. exact I. Qed.
