(** C04 — the backup location is sealed off.

    "With a BackupFS assembled as documented (New/NewWithFS, or HiddenFS +
    PrefixFS over one filesystem), no operation through the BackupFS can see,
    list, create, modify, move or delete anything at or below the backup
    location, and the backup location is never itself backed up (no recursive
    growth).  Rollback (C01) keeps working for everything outside it even when
    operations target ancestors of the backup location, such as RemoveAll or
    Rename of a parent directory."

    Setting.  [hiddenfs hs0 b] is NewHiddenFS(b, hs0...) over ANY filesystem
    [b : fsapi] (a record of arbitrary state transformers - nothing is assumed
    about it); it stores [hs := hidden_norm hs0] (cleaned, deepest first).
    [wrap sp] adds the spy layer of the checks ([sp = Some tag]) or nothing
    ([sp = None]).  The documented layering is [mkConfig None [q] q]:
    base = spy (hiddenfs [q] osfs), backup = spy (prefixfs q osfs).
    "Not invoked" is stated with restricted filesystems whose removed methods
    stop the whole computation ([s_halt], like a crash point, never caught):
      [s_ro b]          Lstat/Stat/Readlink/Open/OpenFile(O_RDONLY) of [b] only
      [s_guard ok a]    every method of [a], on names accepted by [ok] only
      [s_mguard ok b]   reads unrestricted, mutating methods on [ok] names only
      [s_rm hs b]       reads, and Remove of shown names
      [s_trap]          nothing at all
    [shown hs p] = the HiddenFS check classifies [p] as not hidden.
    If an operation over the restricted filesystems equals the operation over
    the real ones, none of the removed methods was invoked.

    What is proved (all closed, for every underlying filesystem):
    (S1) [C04_api_sealed], [.._rename], [.._symlink]: every method of HiddenFS
         on every spelling of a name lexically at/below a hidden path returns
         the hidden error of C06 with the world unchanged - nothing reaches
         [b].  [C04_listing_sealed], [C04_listing_exact]: a directory handle
         obtained through HiddenFS (also through BackupFS.Open) never lists an
         entry at/below a hidden path, whatever the directory contains.
    (U)  [C04_universal_seal]: for EVERY operation of BackupFS (the twelve
         mutating ones and the four reading ones), every argument and world:
         no method of [b] and no method of the backup filesystem is invoked on
         a name the check classifies as hidden.  [C04_rollback_seal]: Rollback
         and ForceBackup invoke no mutating method of [b] on such a name.
    (S2) [C04_backupfs_sealed], [.._rename], [.._rename_ancestor],
         [.._symlink_target], [.._removeall], [.._error]: a mutating operation
         whose RESOLVED name is lexically at/below the location does not
         succeed, invokes NO mutating method of [b] at all, and hands only
         shown names to the backup filesystem; without the spy layer its
         result is the error of [try_backup] if that fails, else the hidden
         error, in the world [try_backup] left.  RemoveAll is the exception in
         the result: HiddenFS reports "not found", BackupFS.RemoveAll returns
         nil, nothing is invoked on the backup filesystem.
    (S3) [C04_never_backed_up]: [try_backup] on ANY name hands only shown names
         to the backup filesystem - the location is never backed up into
         itself.  [C04_try_backup_hidden], [.._unspied]: on a hidden name it
         never reaches its copy stage; it records the name as "did not exist"
         and backs up the ancestor directories.
    (RA) [C04_hiddenfs_removeall_footprint]: HiddenFS.RemoveAll (of an ancestor
         of the location, say) issues only reads and Remove of shown names on
         [b].
    Non-vacuity: the examples at the end (documented layering, concrete trees).

    What is NOT proved / not true:
    - "the filesystem is unchanged by a rejected operation" is false as stated:
      a rejected operation on a hidden name still runs [try_backup], which
      adds bookkeeping entries ([w_infos]) and backs up the not yet recorded,
      not hidden ancestor directories of the name INTO the store (example
      [C04_rejected_op_backs_up_ancestors]: Create("/a/bk/x") with location
      /a/bk creates the directory /a/bk/a).  Rollback removes them.  For a
      location directly below the root only "/" is such an ancestor and
      nothing is created ([C04_sealed_history]).
    - (S4) everything is lexical on the name HiddenFS is handed, for the
      mutating operations of BackupFS the RESOLVED name ([real_path]).  A name
      that reaches the location through a symlink or a physical ".." that the
      resolution does not see is the recorded finding D9 (and D17 for
      resolution through links inside link targets); the reading operations
      are forwarded unresolved, so a symlink to the location shows its content
      ([C04_resolved_name_caveat_D9]).  Not proved away.
    - names on which the check itself fails (relative name against an absolute
      hidden path, D10) are rejected with "hidden check failed"; they count as
      not shown in (U).
    - HiddenFS.RemoveAll walks the underlying tree including the hidden part:
      it Lstats/opens/lists hidden entries of [b] (never modifies them); hence
      (U) excludes Rollback, which [C04_rollback_seal] covers for mutations.
    - the semantic counterpart for the OS filesystem ("every key at/below the
      location keeps its node") is shown on the examples only; the general
      statement needs the no-symlink/no-".." side condition of D9.
    - "Rollback keeps working for everything outside" is C01 (partial):
      [C04_rollback_documented_partial] below, for histories of COVERED
      operations (next to the examples [C04_removeall_root_then_rollback],
      [C04_removeall_parent_then_rollback], [C04_rename_parent_rejected]).

    (D)  [C04_rollback_documented_partial]: the documented layering with the
         location INSIDE the base tree, [dcfg pa h = mkConfig (Some pa) [h]
         (pa ++ h)] (base = HiddenFS([h], PrefixFS(pa)), backup =
         PrefixFS(pa ++ h); [pa] an absolute cleaned prefix other than the
         root, [h] the absolute cleaned view path of the location, not the
         root): after ANY history of covered operations Rollback returns nil,
         the base view [VpH pa h] - everything below [pa] except the location
         and what lies below it - is as when the transaction began (root
         metadata and directory timestamps aside), the backup view holds only
         its root and nothing is tracked.  Operations on the ANCESTORS of the
         location are covered: RemoveAll of a parent directory (it empties the
         directory except for the location and then fails to remove the
         directory itself: the operation returns an error, which a history may
         contain), Rename of a parent directory (refused by HiddenFS), Remove,
         Chmod, Chown, ... of it; so are operations on names at or below the
         location (refused).  [covered] (Spec/Inv.v) demands: the operation is
         one of Create, OpenFile+write, Mkdir, MkdirAll, Remove, RemoveAll,
         Rename, Symlink, Chmod, Chown, Lchown, Chtimes, Stat, Lstat, Readlink,
         Open+read, Open+Readdirnames; its names are resolved in the current
         base view (absolute, cleaned, no symlink among the parents); the
         mutating operations that follow a final symlink are not applied to a
         symlink (D14); Rename has a source without entries below it in the
         view; Remove/RemoveAll are not applied to the root; and the state an
         operation ends in leaves no tracked path with another type (D13:
         [kind_stable] in [good_run]).  No law is assumed: Proofs/LawsHidden*.v
         prove the laws of Spec/Laws.v for both filesystems of this layering.
         Non-vacuity: [C04_documented_example] (Proofs/DocumentedExample.v:
         location /base/v/bk, a history with RemoveAll("/v"), Rename("/v",
         "/w"), Mkdir("/v/bk/zz"), then Rollback - by the theorem and by
         running the model).  The views are lexical (S4 / D9 apply): a symlink
         of the base that points into the location is outside the statement
         only in so far as [covered] asks for resolved names. *)
From stdpp Require Import gmap.
From BFS Require Import Layers.Call Layers.LayerSpec Layers.HiddenList.
From BFS Require Import Backup.History.
From BFS Require Import Proofs.SealedFacts.

Local Open Scope N_scope.

(* ------------------------------------------------------------------ *)
(** * (S1) the API of HiddenFS *)

Theorem C04_api_sealed : forall hs0 b n,
  let hs := hidden_norm hs0 in
  let H := hiddenfs hs0 b in
  comparable hs n -> below hs n ->
  (forall w, a_lstat H n w = (MErr (ELayer EHiddenNotExist), w)) /\
  (forall w, a_stat H n w = (MErr (ELayer EHiddenNotExist), w)) /\
  (forall w, a_readlink H n w = (MErr (ELayer EHiddenNotExist), w)) /\
  (forall w, a_open H n w = (MErr (ELayer EHiddenNotExist), w)) /\
  (forall fl perm w, a_openfile H n fl perm w =
     (MErr (ELayer (if o_creat fl then EHiddenPerm else EHiddenNotExist)), w)) /\
  (forall w, a_create H n w = (MErr (ELayer EHiddenPerm), w)) /\
  (forall perm w, a_mkdir H n perm w = (MErr (ELayer EHiddenPerm), w)) /\
  (forall perm w, a_mkdirall H n perm w = (MErr (ELayer EHiddenPerm), w)) /\
  (forall w, a_remove H n w = (MErr (ELayer EHiddenNotExist), w)) /\
  (forall w, a_removeall H n w = (MErr (ELayer EHiddenNotExist), w)) /\
  (forall m w, a_chmod H n m w = (MErr (ELayer EHiddenNotExist), w)) /\
  (forall u g w, a_chown H n u g w = (MErr (ELayer EHiddenNotExist), w)) /\
  (forall u g w, a_lchown H n u g w = (MErr (ELayer EHiddenNotExist), w)) /\
  (forall t w, a_chtimes H n t w = (MErr (ELayer EHiddenNotExist), w)).
Proof. exact api_sealed. Qed.
Print Assumptions C04_api_sealed.

Theorem C04_api_sealed_rename : forall hs0 b o n,
  let hs := hidden_norm hs0 in
  let H := hiddenfs hs0 b in
  comparable hs o -> comparable hs n ->
  (below hs o -> forall w, a_rename H o n w = (MErr (ELayer EHiddenNotExist), w)) /\
  (~ below hs o -> below hs n -> forall w, a_rename H o n w = (MErr (ELayer EHiddenPerm), w)).
Proof. exact api_sealed_rename. Qed.
Print Assumptions C04_api_sealed_rename.

(** [t] the target, [l] the location of the link; [to_abs_symlink t l] is the
    target itself if absolute, else joined to the directory of [l] *)
Theorem C04_api_sealed_symlink : forall hs0 b t l,
  let hs := hidden_norm hs0 in
  let H := hiddenfs hs0 b in
  comparable hs l -> comparable hs (to_abs_symlink t l) ->
  below hs l \/ below hs (to_abs_symlink t l) ->
  forall w, a_symlink H t l w = (MErr (ELayer EHiddenPerm), w).
Proof. exact api_sealed_symlink. Qed.
Print Assumptions C04_api_sealed_symlink.

(** no listing of a directory [d] opened through HiddenFS (directly, spied, or
    via BackupFS.Open = OpenFile(O_RDONLY) on the base) shows an entry [e]
    with [d/e] at/below a hidden path - whatever [b]'s directory contains *)
Theorem C04_listing_sealed : forall hs0 b sp d fl perm w0 h w1 w l w',
  let hs := hidden_norm hs0 in
  let base := wrap sp (hiddenfs hs0 b) in
  (a_open base d w0 = (MOk h, w1) \/ a_openfile base d fl perm w0 = (MOk h, w1)) ->
  hreaddirnames h w = (MOk l, w') ->
  forall e, In e l -> comparable hs (join2 d e) -> ~ below hs (join2 d e).
Proof. exact listing_sealed. Qed.
Print Assumptions C04_listing_sealed.

(** ... and the listing is exactly the underlying listing filtered by the
    check: the [visible] list of Props/C11.v (see [C11_visible_spec]) *)
Theorem C04_listing_exact : forall hs0 b d w0 h w1 w l w',
  let hs := hidden_norm hs0 in
  a_open (hiddenfs hs0 b) d w0 = (MOk h, w1) -> fh_spy h = None ->
  hreaddirnames h w = (MOk l, w') ->
  exists names, fs_readdirnames (w_st w) (fh h) = Ok names /\ w' = w /\
    l = filter (fun e => match is_hidden (join2 d e) hs with Some false => true | _ => false end) names.
Proof. exact listing_exact. Qed.
Print Assumptions C04_listing_exact.

(* ------------------------------------------------------------------ *)
(** * (U) the universal seal *)

Theorem C04_universal_seal : forall hs0 b backup sp,
  let hs := hidden_norm hs0 in
  let base := wrap sp (hiddenfs hs0 b) in
  let base_g := wrap sp (hiddenfs hs0 (s_guard (shown hs) b)) in
  let backup_g := s_guard (shown hs) backup in
  (forall n w, b_create base_g backup_g n w = b_create base backup n w) /\
  (forall n perm w, b_mkdir base_g backup_g n perm w = b_mkdir base backup n perm w) /\
  (forall n perm w, b_mkdirall base_g backup_g n perm w = b_mkdirall base backup n perm w) /\
  (forall n fl perm w, b_openfile base_g backup_g n fl perm w = b_openfile base backup n fl perm w) /\
  (forall n w, b_remove base_g backup_g n w = b_remove base backup n w) /\
  (forall n w, b_removeall base_g backup_g n w = b_removeall base backup n w) /\
  (forall o n w, b_rename base_g backup_g o n w = b_rename base backup o n w) /\
  (forall t n w, b_symlink base_g backup_g t n w = b_symlink base backup t n w) /\
  (forall n m w, b_chmod base_g backup_g n m w = b_chmod base backup n m w) /\
  (forall n u g w, b_chown base_g backup_g n u g w = b_chown base backup n u g w) /\
  (forall n u g w, b_lchown base_g backup_g n u g w = b_lchown base backup n u g w) /\
  (forall n t w, b_chtimes base_g backup_g n t w = b_chtimes base backup n t w) /\
  (forall n w, b_lstat base_g n w = b_lstat base n w) /\
  (forall n w, b_stat base_g n w = b_stat base n w) /\
  (forall n w, b_readlink base_g n w = b_readlink base n w) /\
  (forall n w, b_open base_g backup_g n w = b_open base backup n w).
Proof. exact universal_seal_hiddenfs. Qed.
Print Assumptions C04_universal_seal.

Theorem C04_rollback_seal : forall hs0 b backup sp,
  let hs := hidden_norm hs0 in
  let base_g := wrap sp (hiddenfs hs0 (s_mguard (shown hs) b)) in
  let base := wrap sp (hiddenfs hs0 b) in
  (forall w, b_rollback base_g backup w = b_rollback base backup w) /\
  (forall n w, b_force_backup base_g backup n w = b_force_backup base backup n w).
Proof. exact rollback_seal_hiddenfs. Qed.
Print Assumptions C04_rollback_seal.

(* ------------------------------------------------------------------ *)
(** * (S2) operations whose resolved name is at/below the location *)

(** [sealed_run m_restr m w]: [m_restr w = m w] and [m w] is not a success *)
Theorem C04_backupfs_sealed : forall hs0 b backup sp n w rn w1,
  let hs := hidden_norm hs0 in
  let base := wrap sp (hiddenfs hs0 b) in
  let base_ro := wrap sp (hiddenfs hs0 (s_ro b)) in
  let backup_g := s_guard (shown hs) backup in
  real_path base n w = (MOk rn, w1) -> comparable hs rn -> below hs rn ->
  sealed_run (b_create base_ro backup_g n) (b_create base backup n) w /\
  (forall perm, sealed_run (b_mkdir base_ro backup_g n perm) (b_mkdir base backup n perm) w) /\
  (forall perm, sealed_run (b_mkdirall base_ro backup_g n perm) (b_mkdirall base backup n perm) w) /\
  (forall fl perm, fl <> 0 ->
     sealed_run (b_openfile base_ro backup_g n fl perm) (b_openfile base backup n fl perm) w) /\
  sealed_run (b_remove base_ro backup_g n) (b_remove base backup n) w /\
  (forall m, sealed_run (b_chmod base_ro backup_g n m) (b_chmod base backup n m) w) /\
  (forall u g, sealed_run (b_chown base_ro backup_g n u g) (b_chown base backup n u g) w) /\
  (forall u g, sealed_run (b_lchown base_ro backup_g n u g) (b_lchown base backup n u g) w) /\
  (forall t, sealed_run (b_chtimes base_ro backup_g n t) (b_chtimes base backup n t) w) /\
  (forall t, sealed_run (b_symlink base_ro backup_g t n) (b_symlink base backup t n) w).
Proof. exact backupfs_sealed_lex. Qed.
Print Assumptions C04_backupfs_sealed.

(** without the spy layer: the exact result ([after_tb]: the error/halt of
    [try_backup] if it does not get through, else the given result in the
    world [try_backup] left; [ops_error] lists, per operation, the hidden
    error of the method: ErrHiddenPermission for Create/Mkdir/MkdirAll/
    OpenFile(O_CREATE)/Symlink, ErrHiddenNotExist for the others) *)
Theorem C04_backupfs_sealed_error : forall hs0 b backup n w rn w1,
  let hs := hidden_norm hs0 in
  let base := hiddenfs hs0 b in
  real_path base n w = (MOk rn, w1) -> comparable hs rn -> below hs rn ->
  ops_error hs base backup n w rn w1.
Proof. exact backupfs_sealed_error_lex. Qed.
Print Assumptions C04_backupfs_sealed_error.

Theorem C04_backupfs_sealed_rename : forall hs0 b backup sp o n w ro w1 rn w2,
  let hs := hidden_norm hs0 in
  let base := wrap sp (hiddenfs hs0 b) in
  let base_ro := wrap sp (hiddenfs hs0 (s_ro b)) in
  let backup_g := s_guard (shown hs) backup in
  real_path base o w = (MOk ro, w1) -> real_path base n w1 = (MOk rn, w2) ->
  (comparable hs ro /\ below hs ro) \/ (comparable hs rn /\ below hs rn) ->
  sealed_run (b_rename base_ro backup_g o n) (b_rename base backup o n) w.
Proof. exact backupfs_sealed_rename_lex. Qed.
Print Assumptions C04_backupfs_sealed_rename.

(** "Rename of a parent directory": the location cannot be moved away *)
Theorem C04_backupfs_sealed_rename_ancestor : forall hs0 b backup sp o n w ro w1 rn w2,
  let hs := hidden_norm hs0 in
  let base := wrap sp (hiddenfs hs0 b) in
  let base_ro := wrap sp (hiddenfs hs0 (s_ro b)) in
  let backup_g := s_guard (shown hs) backup in
  real_path base o w = (MOk ro, w1) -> real_path base n w1 = (MOk rn, w2) ->
  comparable hs ro -> comparable hs rn -> above_hidden hs ro ->
  sealed_run (b_rename base_ro backup_g o n) (b_rename base backup o n) w.
Proof. exact backupfs_sealed_rename_ancestor_lex. Qed.
Print Assumptions C04_backupfs_sealed_rename_ancestor.

Theorem C04_backupfs_sealed_symlink_target : forall hs0 b backup sp t n w rn w1,
  let hs := hidden_norm hs0 in
  let base := wrap sp (hiddenfs hs0 b) in
  let base_ro := wrap sp (hiddenfs hs0 (s_ro b)) in
  let backup_g := s_guard (shown hs) backup in
  real_path base n w = (MOk rn, w1) ->
  comparable hs (to_abs_symlink t rn) -> below hs (to_abs_symlink t rn) ->
  sealed_run (b_symlink base_ro backup_g t n) (b_symlink base backup t n) w.
Proof. exact backupfs_sealed_symlink_target_lex. Qed.
Print Assumptions C04_backupfs_sealed_symlink_target.

Theorem C04_backupfs_sealed_removeall : forall hs0 b backup sp n w rn w1,
  let hs := hidden_norm hs0 in
  let base := wrap sp (hiddenfs hs0 b) in
  let base_ro := wrap sp (hiddenfs hs0 (s_ro b)) in
  real_path base n w = (MOk rn, w1) -> comparable hs rn -> below hs rn ->
  b_removeall base_ro s_trap n w = b_removeall base backup n w /\
  (sp = None -> b_removeall base backup n w = (MOk tt, w1)).
Proof. exact backupfs_sealed_removeall_lex. Qed.
Print Assumptions C04_backupfs_sealed_removeall.

(* ------------------------------------------------------------------ *)
(** * (S3) the location is never backed up *)

Theorem C04_never_backed_up : forall hs0 b backup sp p w,
  let hs := hidden_norm hs0 in
  let base := wrap sp (hiddenfs hs0 b) in
  try_backup base (s_guard (shown hs) backup) p w = try_backup base backup p w.
Proof. exact try_backup_never_hidden. Qed.
Print Assumptions C04_never_backed_up.

Theorem C04_try_backup_hidden : forall hs0 b backup sp rn w,
  let hs := hidden_norm hs0 in
  let base := wrap sp (hiddenfs hs0 b) in
  comparable hs rn -> below hs rn ->
  try_backup base backup rn w =
  (r <- backup_required base rn ;;
   backup_dirs base backup (match fst r with
                            | Some fi => if is_dir_info fi then rn else dir rn
                            | None => dir rn
                            end)) w.
Proof. exact try_backup_hidden_lex. Qed.
Print Assumptions C04_try_backup_hidden.

Theorem C04_try_backup_hidden_unspied : forall hs0 b backup rn w,
  let hs := hidden_norm hs0 in
  let base := hiddenfs hs0 b in
  comparable hs rn -> below hs rn -> w_infos w !! rn = None ->
  try_backup base backup rn w = (set_info_if_new rn None ;;; backup_dirs base backup (dir rn)) w.
Proof. exact try_backup_hidden_unspied_lex. Qed.
Print Assumptions C04_try_backup_hidden_unspied.

(* ------------------------------------------------------------------ *)
(** * (RA) HiddenFS.RemoveAll *)

Theorem C04_hiddenfs_removeall_footprint : forall hs0 b name w,
  let hs := hidden_norm hs0 in
  a_removeall (hiddenfs hs0 (s_rm hs b)) name w = a_removeall (hiddenfs hs0 b) name w.
Proof. exact hiddenfs_removeall_footprint. Qed.
Print Assumptions C04_hiddenfs_removeall_footprint.

(* ------------------------------------------------------------------ *)
(** * the documented layering *)

(** [ops_sealed base_r backup_r base backup n w] is the conjunction of
    [C04_backupfs_sealed] *)
Theorem C04_documented_sealed : forall q n w rn w1,
  cleaned q ->
  let c := mkConfig None [q] q in
  let base_ro := spy TBase (hiddenfs [q] (s_ro osfs)) in
  let backup_g := s_guard (shown [q]) (cfg_backup c) in
  real_path (cfg_base c) n w = (MOk rn, w1) -> comparable [q] rn -> below [q] rn ->
  ops_sealed base_ro backup_g (cfg_base c) (cfg_backup c) n w.
Proof. exact documented_sealed. Qed.
Print Assumptions C04_documented_sealed.

(** [ops_agree base1 backup1 base2 backup2] is the conjunction of
    [C04_universal_seal] *)
Theorem C04_documented_universal : forall q,
  cleaned q ->
  let c := mkConfig None [q] q in
  ops_agree (spy TBase (hiddenfs [q] (s_guard (shown [q]) osfs))) (s_guard (shown [q]) (cfg_backup c))
            (cfg_base c) (cfg_backup c).
Proof. exact documented_universal. Qed.
Print Assumptions C04_documented_universal.

(* ------------------------------------------------------------------ *)
(** * non-vacuity: concrete trees in the documented layering *)
Import SealedExamples.

(** tree { /, /bk/, /bk/x, /f, /d/, /d/g }, location /bk; [hp]/[hn] are the
    results ErrHiddenPermission / ErrHiddenNotExist *)
Example C04_sealed_history :
  let '(rs, w') := run_history c4
    [OCreate p_bkx [9]; OMkdir p_bkn 493; OMkdirAll p_bkn 493; OOpenWrite p_bkx 1 420 [9];
     ORemove p_bk; ORemoveAll p_bk; ORename p_bk p_y; OSymlink p_f p_bkn; OSymlink p_bkx p_l;
     OChmod p_bkx 511; OChown p_bkx 1 1; OLchown p_bkx 1 1; OChtimes p_bkx 77;
     OStat p_bk; OLstat p_bkx; OReadlink p_bkx; ORead p_bkx; OReaddir p_bk; OReaddir p_root] w4 in
  rs = [hp; hp; hp; hn; hn; MOk ObUnit; hn; hp; hp; hn; hn; hn; hn; hn; hn; hn; hn; hn;
        MOk (ObNames [[100]; [102]])] /\
  dump_fs w' = dump_fs w4.
Proof. exact sealed_history. Qed.
Print Assumptions C04_sealed_history.

Example C04_removeall_root_spares_location :
  let '(rs, w') := run_history c4 [ORemoveAll p_root] w4 in
  rs = [MErr EBUSY] /\
  st_fs (w_st w') !! [[102]] = None /\ st_fs (w_st w') !! [[100]] = None /\
  st_fs (w_st w') !! [[100];[103]] = None /\
  st_fs (w_st w') !! [[98;107];[120]] = st_fs (w_st w4) !! [[98;107];[120]] /\
  is_Some (st_fs (w_st w') !! [[98;107]]).
Proof. exact removeall_root_spares_location. Qed.
Print Assumptions C04_removeall_root_spares_location.

Example C04_removeall_root_then_rollback :
  let '(rs, w') := run_history c4 [ORemoveAll p_root; ORollback] w4 in
  rs = [MErr EBUSY; MOk ObUnit] /\
  map fst (dump_fs w') = map fst (dump_fs w4) /\
  st_fs (w_st w') !! [[102]] = st_fs (w_st w4) !! [[102]] /\
  st_fs (w_st w') !! [[100];[103]] = st_fs (w_st w4) !! [[100];[103]] /\
  st_fs (w_st w') !! [[98;107];[120]] = st_fs (w_st w4) !! [[98;107];[120]].
Proof. exact removeall_root_then_rollback. Qed.
Print Assumptions C04_removeall_root_then_rollback.

Example C04_hiddenfs_removeall_root :
  let '(r, w') := a_removeall (hiddenfs [p_bk] osfs) p_root w4 in
  r = MOk tt /\
  map fst (dump_fs w') = [[]; [[98;107];[120]]; [[98;107]]] /\
  st_fs (w_st w') !! [[98;107];[120]] = st_fs (w_st w4) !! [[98;107];[120]] /\
  st_fs (w_st w') !! [[98;107]] = st_fs (w_st w4) !! [[98;107]].
Proof. exact hiddenfs_removeall_root. Qed.
Print Assumptions C04_hiddenfs_removeall_root.

(** tree { /, /a/, /a/bk/, /a/bk/x, /a/f }, location /a/bk *)
Example C04_rejected_op_backs_up_ancestors :
  let '(rs, w') := run_history c5 [OCreate p_abkx [9]] w5 in
  rs = [hp] /\
  st_fs (w_st w5) !! [[97];[98;107];[97]] = None /\
  is_Some (st_fs (w_st w') !! [[97];[98;107];[97]]) /\
  st_fs (w_st w') !! [[97];[98;107];[120]] = st_fs (w_st w5) !! [[97];[98;107];[120]] /\
  (let '(rs2, w'') := run_history c5 [OCreate p_abkx [9]; ORollback] w5 in
   rs2 = [hp; MOk ObUnit] /\ map fst (dump_fs w'') = map fst (dump_fs w5)).
Proof. exact rejected_op_backs_up_ancestors. Qed.
Print Assumptions C04_rejected_op_backs_up_ancestors.

Example C04_rename_parent_rejected :
  let '(rs, w') := run_history c5 [ORename p_a p_b; ORollback] w5 in
  rs = [hp; MOk ObUnit] /\ map fst (dump_fs w') = map fst (dump_fs w5) /\
  st_fs (w_st w') !! [[97];[102]] = st_fs (w_st w5) !! [[97];[102]] /\
  st_fs (w_st w') !! [[97];[98;107];[120]] = st_fs (w_st w5) !! [[97];[98;107];[120]].
Proof. exact rename_parent_rejected. Qed.
Print Assumptions C04_rename_parent_rejected.

Example C04_removeall_parent_then_rollback :
  (let '(rs, w') := run_history c5 [ORemoveAll p_a] w5 in
   rs = [MErr ENOTEMPTY] /\ st_fs (w_st w') !! [[97];[102]] = None /\
   st_fs (w_st w') !! [[97];[98;107];[120]] = st_fs (w_st w5) !! [[97];[98;107];[120]]) /\
  (let '(rs, w') := run_history c5 [ORemoveAll p_a; ORollback] w5 in
   rs = [MErr ENOTEMPTY; MOk ObUnit] /\ map fst (dump_fs w') = map fst (dump_fs w5) /\
   st_fs (w_st w') !! [[97];[102]] = st_fs (w_st w5) !! [[97];[102]] /\
   st_fs (w_st w') !! [[97];[98;107];[120]] = st_fs (w_st w5) !! [[97];[98;107];[120]]).
Proof. exact removeall_parent_then_rollback. Qed.
Print Assumptions C04_removeall_parent_then_rollback.

(** the caveat (S4, finding D9): tree of [w4] without /d, plus /l -> /bk *)
Example C04_resolved_name_caveat_D9 :
  let '(rs, w') := run_history c4 [ORead p_lx; OReaddir p_l; ORealPath p_lx; OCreate p_lx [9]] w6 in
  rs = [MOk (ObData [1;2]); MOk (ObNames [[120]]); MOk (ObStr p_bkx); hp] /\
  dump_fs w' = dump_fs w6.
Proof. exact resolved_name_caveat_D9. Qed.
Print Assumptions C04_resolved_name_caveat_D9.

(** the hypotheses of the theorems are satisfiable: "/bk/x" is at/below "/bk" *)
Example C04_hypotheses_hold :
  cleaned p_bk /\ comparable [p_bk] p_bkx /\ below [p_bk] p_bkx /\ hid [p_bk] p_bkx /\
  real_path (cfg_base c4) p_bkx w4 = (MOk p_bkx, snd (real_path (cfg_base c4) p_bkx w4)).
Proof. exact hypotheses_hold. Qed.
Print Assumptions C04_hypotheses_hold.

(* ------------------------------------------------------------------ *)
(** * (D) Rollback for the documented layering, location inside the base tree *)

From BFS Require Import Spec.CopySpecs Spec.ViewOsfs Spec.ViewHidden.
From BFS Require Import Proofs.LawsHidden Proofs.DocumentedExample.

Theorem C04_rollback_documented_partial :
  forall pa h, prefix_ok pa -> hidden_ok h ->
  forall B0, all_small B0 ->
  forall w0 ops w,
    initial (VpH pa h) (Vp (pk_h pa h)) clean clean (acc_h pa h) (acc_p (pk_h pa h)) B0 w0 ->
    good_run (cfg_base (dcfg pa h)) (cfg_backup (dcfg pa h)) (VpH pa h) w0 ops w ->
    exists w', b_rollback (cfg_base (dcfg pa h)) (cfg_backup (dcfg pa h)) w = (MOk tt, w') /\
               store_eqv (VpH pa h w') B0 /\ (forall p, p <> s_root -> Vp (pk_h pa h) w' !! p = None) /\
               w_infos w' = ∅.
Proof. exact c01_documented. Qed.
Print Assumptions C04_rollback_documented_partial.

(** location /base/v/bk; Chmod("/f"), RemoveAll("/v") (ENOTEMPTY), Rename("/v","/w")
    (refused), Create("/v/new"), Mkdir("/v/bk/zz") (refused), Remove("/l"); Rollback *)
Example C04_documented_example :
  let '(r, w') := b_rollback (cfg_base (dcfg dpa dh)) (cfg_backup (dcfg dpa dh)) dw in
  r = MOk tt /\ w_infos w' = ∅ /\
  ConcreteExample.region (comps dpa) w' = ConcreteExample.region (comps dpa) dw0 /\
  ConcreteExample.view_erased (VpH dpa dh w') = ConcreteExample.view_erased dB0 /\
  map fst (map_to_list (Vp (pk_h dpa dh) w')) = [s_root] /\
  ConcreteExample.region (comps dpa) dw <> ConcreteExample.region (comps dpa) dw0.
Proof. exact c01_documented_by_computation. Qed.
Print Assumptions C04_documented_example.

(* ------------------------------------------------------------------ *)
(** ** the layering of the constructors New / NewWithFS
    [ncfg q = mkConfig None [q] q]: HiddenFS directly over the OS filesystem
    (no PrefixFS), the backup location [q] - an absolute cleaned path other
    than "/" - hidden from the base and the root of the backup filesystem.
    The base view [V0H q] (Spec/ViewRoot.v) is the WHOLE filesystem except the
    location and what lies below it; it shows link targets as stored ([tn_0],
    the identity: without PrefixFS nothing cleans them).  The root "/" is a
    proper ancestor of the location ([anc_h q]): it cannot be removed (EBUSY)
    or renamed.  Proofs/LawsNew.v. *)
From BFS Require Import Spec.ViewHidden Spec.ViewRoot Proofs.LawsNew Proofs.NewExample.

Theorem C04_rollback_new_partial :
  forall q, hidden_ok q ->
  forall B0, all_small B0 ->
  forall w0 ops w,
    initial (V0H q) (Vp q) tn_0 clean (acc_0 q) (acc_p q) B0 w0 ->
    good_run (cfg_base (ncfg q)) (cfg_backup (ncfg q)) (V0H q) w0 ops w ->
    exists w', b_rollback (cfg_base (ncfg q)) (cfg_backup (ncfg q)) w = (MOk tt, w') /\
               store_eqv (V0H q w') B0 /\ (forall p, p <> s_root -> Vp q w' !! p = None) /\
               w_infos w' = ∅.
Proof. exact c01_new. Qed.
Print Assumptions C04_rollback_new_partial.

(** non-vacuity: location /var/bk; Chmod("/etc/f"), RemoveAll("/var") (fails at
    the end: the location is inside), Rename("/var","/w") (refused),
    Create("/var/new"), Mkdir("/var/bk/zz") (refused: hidden), Remove("/l"),
    Chmod("/var"); then Rollback: the whole OS filesystem is as before *)
Example C04_new_example :
  let '(r, w') := b_rollback (cfg_base (ncfg nq)) (cfg_backup (ncfg nq)) nw in
  r = MOk tt /\ w_infos w' = ∅ /\
  ConcreteExample.region [] w' = ConcreteExample.region [] nw0 /\
  ConcreteExample.view_erased (V0H nq w') = ConcreteExample.view_erased nB0 /\
  map fst (map_to_list (Vp nq w')) = [s_root] /\
  ConcreteExample.region [] nw <> ConcreteExample.region [] nw0.
Proof. exact c01_new_by_computation. Qed.
Print Assumptions C04_new_example.
