(** C14 — PrefixFS is a faithful, leak-free re-rooting. *)
From BFS Require Import Layers.Call Layers.LayerSpec.
From BFS Require Import Proofs.PrefixFacts.

(** A name stays inside iff prefix + cleaned name is within the prefix; then
    the mapped path is exactly prefix + cleaned name. *)
Theorem C14_prefix_path_eq :
  forall pfx n, cleaned pfx -> within pfx (join2 pfx (clean n)) ->
  prefix_path pfx n = Some (join2 pfx (clean n)).
Proof. exact prefix_path_eq. Qed.
Print Assumptions C14_prefix_path_eq.

(** Absolute prefix: every name stays inside (".." cannot climb above the root
    of the view) - the mapping is total. *)
Theorem C14_absolute_names_inside :
  forall pfx n, cleaned pfx -> is_abs pfx = true -> is_abs n = true ->
  prefix_path pfx n = Some (join2 pfx (clean n)).
Proof. exact prefix_path_abs_total. Qed.
Print Assumptions C14_absolute_names_inside.

(** Every single-path method on an in-prefix name is the same method, same
    other arguments, at prefix + cleaned name. *)
Theorem C14_refines_single :
  forall pfx m n aux, cleaned pfx -> two_paths m = false ->
  within pfx (join2 pfx (clean n)) ->
  prefixfs_call pfx (mkCall m n [] aux) = Fwd (mkCall m (join2 pfx (clean n)) [] aux).
Proof. exact prefixfs_refines_single. Qed.
Print Assumptions C14_refines_single.

Theorem C14_refines_rename :
  forall pfx a b aux, cleaned pfx ->
  within pfx (join2 pfx (clean a)) -> within pfx (join2 pfx (clean b)) ->
  prefixfs_call pfx (mkCall MRename a b aux) =
  Fwd (mkCall MRename (join2 pfx (clean a)) (join2 pfx (clean b)) aux).
Proof. exact prefixfs_refines_rename. Qed.
Print Assumptions C14_refines_rename.

(** Names reported back never contain the prefix: for a path [a'] within an
    absolute prefix, an opened file reports the path relative to the prefix as
    root, a file info reports "/" for the root and the base name otherwise. *)
Theorem C14_file_name :
  forall pfx a' rest, cleaned pfx -> is_abs pfx = true -> cleaned a' -> is_abs a' = true ->
  comps a' = comps pfx ++ rest ->
  prefixfs_file_name pfx a' = render true rest.
Proof. exact prefixfs_file_name_spec_abs. Qed.
Print Assumptions C14_file_name.

Theorem C14_info_name :
  forall pfx a', cleaned pfx -> is_abs pfx = true -> cleaned a' -> within pfx a' ->
  prefixfs_info_name pfx a' = if str_eqb a' pfx then s_root else base a'.
Proof. exact prefixfs_info_name_spec. Qed.
Print Assumptions C14_info_name.

(** Readlink: an absolute stored target below the prefix is reported relative
    to the prefix as root; anything else is reported cleaned. *)
Theorem C14_readlink_inside :
  forall pfx linked rest, cleaned pfx -> is_abs pfx = true -> is_abs linked = true ->
  comps (clean linked) = comps pfx ++ rest ->
  prefixfs_readlink_result pfx linked = render true rest.
Proof. exact prefixfs_readlink_inside. Qed.
Print Assumptions C14_readlink_inside.

Theorem C14_readlink_relative :
  forall pfx linked, is_abs linked = false -> prefixfs_readlink_result pfx linked = clean linked.
Proof. exact prefixfs_readlink_relative. Qed.
Print Assumptions C14_readlink_relative.

(** Symlink followed by Readlink returns the cleaned target that was given
    (absolute prefix; absolute or relative target that stays inside). *)
Theorem C14_symlink_readlink :
  forall pfx t n aux c', cleaned pfx -> is_abs pfx = true ->
  prefixfs_call pfx (mkCall MSymlink t n aux) = Fwd c' ->
  prefixfs_readlink_result pfx (c_a c') = clean t.
Proof. exact prefixfs_symlink_readlink. Qed.
Print Assumptions C14_symlink_readlink.

Example C14_example :
  (* prefix "/r/app": Readlink of a link to the prefix directory reads "/" *)
  prefixfs_readlink_result [47;114;47;97;112;112] [47;114;47;97;112;112] = [47] /\
  (* a sibling target is not cut at string level *)
  prefixfs_readlink_result [47;114;47;97;112;112] [47;114;47;97;112;112;50;47;120] = [47;114;47;97;112;112;50;47;120] /\
  prefixfs_file_name [47;114] [47;114;47;120] = [47;120].
Proof. vm_compute. repeat split; reflexivity. Qed.
