From BFS Require Import Layers.Call.
Example placeholder_c14 : prefixfs_readlink_result [47; 97] [47; 97] = [47]. Proof. reflexivity. Qed.
