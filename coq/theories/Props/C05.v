From BFS Require Import Layers.Call.
Example placeholder_c05 : prefix_path [47; 97] [47; 98] = Some [47; 97; 47; 98]. Proof. reflexivity. Qed.
