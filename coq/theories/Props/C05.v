(** C05 — PrefixFS confines every access to its prefix.
    [pfx] is the stored prefix, which [NewPrefixFS] cleans. *)
From BFS Require Import Layers.Call Layers.LayerSpec.
From BFS Require Import Proofs.PrefixFacts.

(** The string-level test of the code is exactly component-wise containment. *)
Theorem C05_has_path_prefix_iff :
  forall p pfx, cleaned p -> cleaned pfx -> (has_path_prefix p pfx = true <-> within pfx p).
Proof. exact has_path_prefix_iff. Qed.
Print Assumptions C05_has_path_prefix_iff.

(** Whatever name is given: the mapped path is cleaned and within the prefix. *)
Theorem C05_prefix_path_within :
  forall pfx name r, cleaned pfx -> prefix_path pfx name = Some r -> within pfx r /\ cleaned r.
Proof. exact prefix_path_within. Qed.
Print Assumptions C05_prefix_path_within.

(** Every method, every argument: a call is forwarded only with all its path
    arguments within the prefix; otherwise it is rejected with EPERM and (by
    construction of [outcome]) nothing reaches the underlying filesystem. *)
Theorem C05_calls_confined :
  forall pfx c, cleaned pfx ->
  match prefixfs_call pfx c with
  | Fwd c' => Forall (fun p => within pfx p /\ cleaned p) (path_args c') /\ c_meth c' = c_meth c
  | Rej e => e = EPERM
  | Multi => False
  end.
Proof. exact prefixfs_calls_confined. Qed.
Print Assumptions C05_calls_confined.

(** No symlink created through PrefixFS points (lexically) out of the prefix.
    (Relative prefixes cannot represent absolute targets: known finding K1.) *)
Theorem C05_symlink_target_within :
  forall pfx c c', cleaned pfx -> c_meth c = MSymlink ->
  (is_abs pfx = true \/ is_abs (c_a c) = false) ->
  prefixfs_call pfx c = Fwd c' -> within pfx (link_effective_target c').
Proof. exact prefixfs_symlink_target_within. Qed.
Print Assumptions C05_symlink_target_within.

(** The sibling case that the string-prefix test used to admit. *)
Example C05_example_sibling_rejected :
  (* prefix "/r/app", name "../app2/s" *)
  prefix_path [47;114;47;97;112;112] [46;46;47;97;112;112;50;47;115] = None /\
  prefix_path [47;114;47;97;112;112] [47;120] = Some [47;114;47;97;112;112;47;120] /\
  (* Symlink("../../../x", "/a/b") is refused *)
  prefixfs_call [47;114] (mkCall MSymlink [46;46;47;46;46;47;46;46;47;120] [47;97;47;98] []) = Rej EPERM.
Proof. vm_compute. repeat split; reflexivity. Qed.
