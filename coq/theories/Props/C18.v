(** C18 — VolumeFS is the identity layer where there are no volumes (Linux
    half; on Linux [filepath.VolumeName] is empty for every string, so the
    stored volume is "" whatever the constructor was given — this fact about
    the standard library is validated by the correspondence stream, which
    passes several volume arguments). *)
From BFS Require Import Layers.Call Layers.LayerSpec.
From BFS Require Import Proofs.PrefixFacts.

(** every method is forwarded, never rejected, as the same method on the
    cleaned path(s) with the same other arguments *)
Theorem C18_identity : forall c, volumefs_call c = Fwd (vol_clean_call c).
Proof. exact volumefs_identity. Qed.
Print Assumptions C18_identity.

(** on cleaned arguments the layer changes nothing at all *)
Theorem C18_identity_on_cleaned :
  forall m a aux, two_paths m = false -> cleaned a ->
  volumefs_call (mkCall m a [] aux) = Fwd (mkCall m a [] aux).
Proof. exact volumefs_identity_cleaned. Qed.
Print Assumptions C18_identity_on_cleaned.

(** stacking the layer twice equals once *)
Theorem C18_idempotent : forall c, vol_clean_call (vol_clean_call c) = vol_clean_call c.
Proof. exact vol_clean_call_idem. Qed.
Print Assumptions C18_idempotent.

(** link targets are returned lexically cleaned *)
Theorem C18_readlink : forall l, volumefs_readlink_result l = clean l /\ cleaned (clean l).
Proof. exact volumefs_readlink_spec. Qed.
Print Assumptions C18_readlink.

Example C18_example :
  volumefs_call (mkCall MRemove [47;97;47;47;98;47;46;46] [] []) = Fwd (mkCall MRemove [47;97] [] []).
Proof. vm_compute. reflexivity. Qed.
