(** C10 — safe and atomic under concurrent use. *)
From Coq Require Import List String Bool Arith.
Import ListNotations.
From BFS Require Import Generated.LockTable Conc.Locks Proofs.LocksFacts.

(** The table regenerated from the current source satisfies the discipline
    (re-evaluated by the kernel on every run). *)
Theorem C10_table_ok : lock_discipline table = true /\ struct_ok = true.
Proof. vm_compute. split; reflexivity. Qed.
Print Assumptions C10_table_ok.

(** What the discipline means: every exported method either takes the lock
    (as its first effectful statement, with a deferred unlock, never
    re-entrantly), or - including everything it reaches through helpers that
    do not lock - neither touches baseInfos nor mutates a filesystem. *)
Theorem C10_classification :
  forall t m, lock_discipline t = true -> In m t -> lt_exported m = true ->
  lt_shape_unknown m = false /\ lt_prelock_touch m = false /\
  ((lt_locks m = true /\ existsb (reach_lock (S (List.length t)) t) (lt_callees m) = false) \/
   (lt_locks m = false /\ lt_touches_infos m = false /\ lt_mutates_fs m = false /\
    existsb (reach_bad (S (List.length t)) t) (lt_callees m) = false)).
Proof. exact lock_discipline_classification. Qed.
Print Assumptions C10_classification.

(** Serialisability: whatever the interleaving, the shared state is the state
    of the serial execution of the locked operations in lock-acquisition order,
    cut at a primitive-call boundary inside the operation that currently holds
    the lock (all earlier ones are complete); read-only operations never change
    it; and each thread's operations appear in its program order. *)
Theorem C10_serialisable :
  forall (St : Type) (s0 : St) (progs : list (list (opk St))) (g : gstate St),
  reachable St (init St s0 progs) g ->
  g_shared St g = apply_steps St (g_log St g) s0 /\
  (exists k, g_log St g = firstn k (serial_steps St (g_order St g)) /\
             List.length (serial_steps St (removelast (g_order St g))) <= k) /\
  (forall i p th, nth_error progs i = Some p -> nth_error (g_threads St g) i = Some th ->
     locked_ops St p = (ops_of_thread St i (g_order St g) ++ locked_ops St (t_todo St th))%list).
Proof. exact serialisable. Qed.
Print Assumptions C10_serialisable.

(** Consequently any property of the states of serial executions at
    primitive-call boundaries (recoverability C02, and after a final Rollback
    the restoration C01) holds of every reachable concurrent state. *)
Theorem C10_transfer :
  forall (St : Type) (P : St -> Prop) (s0 : St) (progs : list (list (opk St))) (g : gstate St),
  (forall (order : list (opk St)) k, P (apply_steps St (firstn k (List.concat (map (steps_of St) order))) s0)) ->
  reachable St (init St s0 progs) g -> P (g_shared St g).
Proof. exact serial_property_transfers. Qed.
Print Assumptions C10_transfer.

Example C10_example_table : exists m, In m table /\ lt_name m = "Rollback"%string /\ lt_locks m = true.
Proof.
  (* found by search, so that it does not depend on the position of the method in the table *)
  destruct (find_m table "Rollback"%string) as [m|] eqn:E; [|discriminate E].
  exists m. revert E. vm_compute. intro E. inversion E. subst m.
  split; [|split; reflexivity]. repeat (first [left; reflexivity | right]).
Qed.
