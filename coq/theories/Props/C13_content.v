(** C13 — the first clause of the property for the CONTENT of the base
    (continuation of Props/C13.v, whose theorems are about the NAMES Rollback
    hands to the filesystems, for arbitrary filesystems).

    Consequence of Theorem A ([Proofs/RollbackUntracked.v]): from any state
    satisfying the transaction invariant — i.e. after any covered history —
    Rollback returns nil and every path that is not tracked when it starts
    holds the same entry afterwards (directory and link timestamps exempt, as
    in [store_eqv]); in particular when the transaction put a symlink pointing
    at such an entry in the place of a tracked file or directory.  Law level
    (any two filesystems satisfying the laws), then closed for the three
    layerings of the correspondence check (generic, documented, New/NewWithFS).  Partial w.r.t. the property text in
    the same way as C01: states reached within [covered]/[kind_stable]. *)
From stdpp Require Import gmap.
From BFS Require Import Spec.CopySpecs Spec.ViewOsfs Proofs.BackupRollback Proofs.LawsOsfs Proofs.RollbackUntracked.
From BFS Require Import Spec.ViewHidden Spec.ViewRoot.

Theorem C13_rollback_untracked_unchanged_partial :
  forall base backup Vb Vk tnb tnk accb acck rhb rhk whb whk hid anc B0,
  base_laws base Vb Vk tnb accb rhb whb hid anc -> backup_laws backup Vb Vk tnk acck rhk whk ->
  links_ok tnb tnk accb acck B0 -> all_small B0 -> swf B0 -> loc_ok hid anc B0 ->
  forall w, Inv Vb Vk B0 w ->
  exists w', b_rollback base backup w = (MOk tt, w') /\
    forall p, p <> s_root -> w_infos w !! p = None -> sonode_eqv (Vb w' !! p) (Vb w !! p).
Proof. exact rollback_untracked_spec. Qed.
Print Assumptions C13_rollback_untracked_unchanged_partial.

Theorem C13_rollback_untracked_unchanged_concrete_partial :
  forall pa pb, prefix_ok pa -> prefix_ok pb -> disjoint_prefixes pa pb ->
  forall B0, links_ok clean clean (acc_p pa) (acc_p pb) B0 -> all_small B0 -> swf B0 ->
  forall w, Inv (Vp pa) (Vp pb) B0 w ->
  exists w', b_rollback (cfg_base (gcfg pa pb)) (cfg_backup (gcfg pa pb)) w = (MOk tt, w') /\
    forall p, p <> s_root -> w_infos w !! p = None -> sonode_eqv (Vp pa w' !! p) (Vp pa w !! p).
Proof. exact rollback_untracked_concrete. Qed.
Print Assumptions C13_rollback_untracked_unchanged_concrete_partial.

Theorem C13_rollback_untracked_unchanged_documented_partial :
  forall pa h, prefix_ok pa -> hidden_ok h ->
  forall B0, links_ok clean clean (acc_h pa h) (acc_p (pk_h pa h)) B0 -> all_small B0 -> swf B0 ->
  loc_ok (hid_h h) (anc_h h) B0 ->
  forall w, Inv (VpH pa h) (Vp (pk_h pa h)) B0 w ->
  exists w', b_rollback (cfg_base (dcfg pa h)) (cfg_backup (dcfg pa h)) w = (MOk tt, w') /\
    forall p, p <> s_root -> w_infos w !! p = None -> sonode_eqv (VpH pa h w' !! p) (VpH pa h w !! p).
Proof. exact rollback_untracked_documented. Qed.
Print Assumptions C13_rollback_untracked_unchanged_documented_partial.

Theorem C13_rollback_untracked_unchanged_new_partial :
  forall h, hidden_ok h ->
  forall B0, links_ok tn_0 clean (acc_0 h) (acc_p h) B0 -> all_small B0 -> swf B0 ->
  loc_ok (hid_h h) (anc_h h) B0 ->
  forall w, Inv (V0H h) (Vp h) B0 w ->
  exists w', b_rollback (cfg_base (ncfg h)) (cfg_backup (ncfg h)) w = (MOk tt, w') /\
    forall p, p <> s_root -> w_infos w !! p = None -> sonode_eqv (V0H h w' !! p) (V0H h w !! p).
Proof. exact rollback_untracked_new. Qed.
Print Assumptions C13_rollback_untracked_unchanged_new_partial.
