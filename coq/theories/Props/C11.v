(** C11 — HiddenFS listings respect hidden paths; no relocation by renaming an
    ancestor (lexical part); the effect of RemoveAll.

    Proved here:
    - listings: [C11_listing], [C11_visible_spec] (every content, hidden set,
      count sequence);
    - renaming an ancestor of a hidden path is rejected: [C11_no_relocation_lexical];
    - the EFFECT of [HiddenFS.RemoveAll] on the concrete model
      [a_removeall (hiddenfs hs0 osfs) name] (Proofs/HiddenRemoveAll.v):
      [C11_removeall_effect] (and [C11_removeall_effect_spied] through the spy
      layer on a quiet world, [C11_removeall_effect_decidable] with every side
      condition as a computation): the call returns nil; entries at/below a
      hidden path are untouched; entries outside the removed tree are untouched
      except for the mtime of its parent directory; below [name] exactly the
      directories that lexically lead to a hidden path remain (same mode and
      owner, possibly a new mtime) and everything else is gone;
      [C11_removeall_plain]: with nothing hidden at/below [name] the whole tree
      goes; [C11_removeall_remaining]: what remains at/below [name] is hidden or
      a directory leading to a hidden path; [C11_removeall_chain]: an existing
      hidden entry is untouched and stays reachable; [C11_removeall_missing] (a missing name: nil, nothing changes, fix
      D8); [C11_removeall_hidden] (a hidden name: ErrHiddenNotExist, nothing
      changes).
    Side conditions of the effect theorems: every hidden path absolute
    (stored cleaned by [hidden_norm]); the tree well formed ([wf]) with keys
    made of proper path elements ([keys_good]); [name] absolute, cleaned,
    existing (hence no symlink on the way to it), lexically not at/below a
    hidden path, and not the root unless the root is above a hidden path
    (removing "/" fails with EBUSY as for os.RemoveAll); every entry at/below
    [name] less than [tree_fuel] = 4096 levels below it (the walk's recursion
    budget, a model artefact).  Symlinks may occur anywhere at/below [name],
    also below hidden paths: they are removed like files and never followed.
    Note: "the directories leading to a hidden path" is lexical - they are
    kept also when the hidden path does not exist
    ([C11_removeall_missing_hidden_example]).
    Not covered: names that are relative, unclean or reached through symlinks
    (known findings K5, D9, D10). *)
From stdpp Require Import gmap.
From BFS Require Import Layers.Call Layers.LayerSpec Layers.HiddenList.
From BFS Require Import Proofs.HiddenFacts Proofs.HiddenListFacts.
From BFS Require Import Fs.FsSpec Layers.Api Backup.History Proofs.HiddenRemoveAll.

(** the entries HiddenFS should show, in directory order *)
Definition visible (dirp : str) (hs : list str) (content : list str) : list str :=
  filter (fun e => match is_hidden (join2 dirp e) hs with Some false => true | _ => false end) content.

(** names delivered by a sequence of listing calls, up to and including the
    first EOF / empty answer *)
Fixpoint collected (rs : list lres) : list str :=
  match rs with
  | [] => []
  | LOk [] :: _ => []
  | LOk l :: r => l ++ collected r
  | LEof l :: _ => l
  | LErr :: _ => []
  end.

Definition ended (rs : list lres) : Prop :=
  Exists (fun r => match r with LEof _ | LOk [] => True | _ => False end) rs.

(** For every directory content, every hidden set whose checks are defined on
    the entries, every sequence of counts (negative, zero, positive, any
    batching): no call fails, what is delivered is a prefix of exactly the
    non-hidden entries in order (each once), and it is all of them as soon as
    the listing has ended; a call with n <= 0 delivers everything at once. *)
Theorem C11_listing :
  forall dirp hs content counts,
  (forall e, In e content -> is_hidden (join2 dirp e) hs <> None) ->
  let rs := hidden_list_calls dirp hs counts content in
  Forall (fun r => r <> LErr) rs /\
  (exists k, collected rs = firstn k (visible dirp hs content)) /\
  (ended rs -> collected rs = visible dirp hs content) /\
  (forall c cs, counts = c :: cs -> (c <= 0)%Z -> hd LErr rs = LOk (visible dirp hs content)).
Proof. exact hidden_listing. Qed.
Print Assumptions C11_listing.

(** the visible entries are exactly the non-hidden ones *)
Theorem C11_visible_spec :
  forall dirp hs content e, Forall cleaned hs ->
  (forall x, In x content -> comparable hs (join2 dirp x)) ->
  (In e (visible dirp hs content) <-> In e content /\ ~ below hs (join2 dirp e)).
Proof. exact visible_spec. Qed.
Print Assumptions C11_visible_spec.

(** no operation relocates hidden content by renaming one of its ancestors *)
Theorem C11_no_relocation_lexical :
  forall hs a b aux, Forall cleaned hs -> comparable hs a -> comparable hs b ->
  above_hidden hs a ->
  exists e, hiddenfs_call hs (mkCall MRename a b aux) = Rej e.
Proof. exact hiddenfs_rename_ancestor_rejected. Qed.
Print Assumptions C11_no_relocation_lexical.

Example C11_example :
  (* dir "/var", hidden "/var/b", content ["b"; "b2"; "a"], counts [1; 1; 1] *)
  hidden_list_calls [47;118;97;114] [[47;118;97;114;47;98]] [1%Z; 1%Z; 1%Z] [[98]; [98;50]; [97]]
  = [LOk [[98;50]]; LOk [[97]]; LEof []].
Proof. vm_compute. reflexivity. Qed.

(* ------------------------------------------------------------------ *)
(** * The effect of RemoveAll *)

(** [RemoveAll name] through HiddenFS, [name] existing and not hidden.
    [hidden_key hs k]: [k] is the key of a hidden path or lies below one;
    [anc_key hs k]: [k] is a proper ancestor of the key of a hidden path;
    [under kn k]: [k] is [kn] or lies below it;
    [onode_eqv]/[meta_eq_nomt]: equal up to the mtime of a directory. *)
Theorem C11_removeall_effect :
  forall hs0 name w n,
  Forall (fun h => is_abs h = true) hs0 ->
  wf (st_fs (w_st w)) -> keys_good (st_fs (w_st w)) ->
  abs_cleaned name -> st_fs (w_st w) !! comps name = Some n ->
  ~ hidden_key (hidden_norm hs0) (comps name) ->
  (comps name <> [] \/ anc_key (hidden_norm hs0) (comps name)) ->
  (forall k n', under (comps name) k -> st_fs (w_st w) !! k = Some n' ->
                (length k < length (comps name) + tree_fuel)%nat) ->
  exists s',
    a_removeall (hiddenfs hs0 osfs) name w = (MOk tt, setst w s') /\
    let hs := hidden_norm hs0 in
    let kn := comps name in
    let f := st_fs (w_st w) in
    let f' := st_fs s' in
    forall k,
      (hidden_key hs k -> f' !! k = f !! k) /\
      (~ under kn k ->
         onode_eqv (f !! k) (f' !! k) /\ (k <> removelast kn -> f' !! k = f !! k)) /\
      (under kn k -> ~ hidden_key hs k -> anc_key hs k ->
         forall m, f !! k = Some (Dir m) ->
         exists m', f' !! k = Some (Dir m') /\ meta_eq_nomt m m') /\
      (under kn k -> ~ hidden_key hs k -> (~ anc_key hs k \/ ~ is_dir_at f k) ->
         f' !! k = None).
Proof. exact hidden_removeall_effect. Qed.
Print Assumptions C11_removeall_effect.

(** the same through the spy layer, on a world without crash point and faults *)
Theorem C11_removeall_effect_spied :
  forall t hs0 name w n,
  Forall (fun h => is_abs h = true) hs0 ->
  wf (st_fs (w_st w)) -> keys_good (st_fs (w_st w)) ->
  abs_cleaned name -> st_fs (w_st w) !! comps name = Some n ->
  ~ hidden_key (hidden_norm hs0) (comps name) ->
  (comps name <> [] \/ anc_key (hidden_norm hs0) (comps name)) ->
  (forall k n', under (comps name) k -> st_fs (w_st w) !! k = Some n' ->
                (length k < length (comps name) + tree_fuel)%nat) ->
  w_crash w = None -> w_faults w = [] ->
  exists s',
    a_removeall (spy t (hiddenfs hs0 osfs)) name w =
      (MOk tt, mkWorld s' (mkTcall t (PM MRemoveAll) name [] None :: w_trace w)
                       (N.succ (w_ticks w)) None [] (w_infos w)) /\
    removeall_effect (hidden_norm hs0) (comps name) (st_fs (w_st w)) (st_fs s').
Proof. exact hidden_removeall_effect_spied. Qed.
Print Assumptions C11_removeall_effect_spied.

(** every side condition as a computation ([tree_okb]: well formed, good
    keys, depth below [tree_fuel]) *)
Theorem C11_removeall_effect_decidable :
  forall hs0 name w,
  forallb is_abs hs0 = true ->
  cleanedb name && is_abs name = true ->
  tree_okb (st_fs (w_st w)) (comps name) tree_fuel = true ->
  (match st_fs (w_st w) !! comps name with Some _ => true | None => false end) = true ->
  khidb (hidden_norm hs0) (comps name) = false ->
  (negb (key_eqb (comps name) []) || kancb (hidden_norm hs0) (comps name)) = true ->
  exists s',
    a_removeall (hiddenfs hs0 osfs) name w = (MOk tt, setst w s') /\
    removeall_effect (hidden_norm hs0) (comps name) (st_fs (w_st w)) (st_fs s').
Proof. exact hidden_removeall_effect_b. Qed.
Print Assumptions C11_removeall_effect_decidable.

(** nothing hidden at/below [kn]: the whole tree goes *)
Theorem C11_removeall_plain :
  forall hs kn f f',
  removeall_effect hs kn f f' -> ~ hidden_key hs kn -> ~ anc_key hs kn ->
  forall k, under kn k -> f' !! k = None.
Proof. exact removeall_effect_plain. Qed.
Print Assumptions C11_removeall_plain.

(** what remains at/below [name] is hidden or a directory leading to a hidden path *)
Theorem C11_removeall_remaining :
  forall hs kn f f',
  removeall_effect hs kn f f' ->
  forall k n', under kn k -> f' !! k = Some n' ->
  hidden_key hs k \/ (anc_key hs k /\ is_dir_at f k /\ is_dir_at f' k).
Proof. exact removeall_effect_remaining. Qed.
Print Assumptions C11_removeall_remaining.

(** an existing hidden entry is untouched and every directory leading to it
    is still a directory *)
Theorem C11_removeall_chain :
  forall hs kn f f' h n,
  removeall_effect hs kn f f' -> wf f ->
  In h hs -> f !! comps h = Some n -> ~ hidden_key hs kn ->
  f' !! comps h = Some n /\
  forall pre r, r <> [] -> comps h = pre ++ r -> is_dir_at f' pre.
Proof. exact removeall_effect_chain. Qed.
Print Assumptions C11_removeall_chain.

(** a missing name: nil, nothing changes (fix D8) *)
Theorem C11_removeall_missing :
  forall hs0 name w,
  Forall (fun h => is_abs h = true) hs0 ->
  direct (st_fs (w_st w)) name -> st_fs (w_st w) !! comps name = None ->
  ~ hidden_key (hidden_norm hs0) (comps name) ->
  a_removeall (hiddenfs hs0 osfs) name w = (MOk tt, w).
Proof. exact hidden_removeall_missing. Qed.
Print Assumptions C11_removeall_missing.

(** a hidden name: not found, nothing changes *)
Theorem C11_removeall_hidden :
  forall hs0 name w,
  Forall (fun h => is_abs h = true) hs0 ->
  abs_cleaned name -> hidden_key (hidden_norm hs0) (comps name) ->
  a_removeall (hiddenfs hs0 osfs) name w = (MErr (ELayer EHiddenNotExist), w).
Proof. exact hidden_removeall_hidden. Qed.
Print Assumptions C11_removeall_hidden.

(** the vocabulary, against the boolean checks of the model *)
Theorem C11_hidden_key_is_hidden :
  forall hs k, Forall abs_cleaned hs -> good_key k ->
  is_hidden (kpath k) hs = Some (khidb hs k) /\ (khidb hs k = true <-> hidden_key hs k) /\
  is_parent_of_hidden (kpath k) hs = Some (kancb hs k) /\ (kancb hs k = true <-> anc_key hs k).
Proof. exact hidden_key_vocabulary. Qed.
Print Assumptions C11_hidden_key_is_hidden.

(** non-vacuity: the theorem applies to RemoveAll "/a" on
    { /, /a/, /a/d/, /a/d/g, /a/f, /a/h/, /a/h/s/, /a/h/s/x, /a/h/y, /a/l -> /a/h/s, /z }
    with the hidden path "/a/h/s", and leaves { /, /a/, /a/h/, /a/h/s/, /a/h/s/x, /z } *)
Example C11_removeall_example :
  (exists s',
     a_removeall (hiddenfs [RemoveAllExamples.p_ahs] osfs) RemoveAllExamples.p_a RemoveAllExamples.wA
       = (MOk tt, setst RemoveAllExamples.wA s') /\
     removeall_effect (hidden_norm [RemoveAllExamples.p_ahs]) (comps RemoveAllExamples.p_a)
       (st_fs (w_st RemoveAllExamples.wA)) (st_fs s')) /\
  (let '(r, w') := a_removeall (hiddenfs [RemoveAllExamples.p_ahs] osfs) RemoveAllExamples.p_a
                     RemoveAllExamples.wA in
   r = MOk tt /\
   map fst (dump_fs w') = [[]; [[97]; [104]; [115]]; [[97]]; [[97]; [104]]; [[97]; [104]; [115]; [120]]; [[122]]]).
Proof.
  split; [exact RemoveAllExamples.removeall_effect_applies|]. vm_compute. split; reflexivity.
Qed.

(** observation: with the hidden path "/a/b/c" missing, RemoveAll "/a" on
    { /, /a/, /a/b/, /a/f } returns nil and keeps /a/ and /a/b/ (the lexical
    chain towards the hidden path); without hidden paths it removes /a/ *)
Example C11_removeall_missing_hidden_example :
  (let '(r, w') := a_removeall (hiddenfs [RemoveAllExamples.p_abc] osfs) RemoveAllExamples.p_a
                     RemoveAllExamples.wB in
   r = MOk tt /\ map fst (dump_fs w') = [[]; [[97]]; [[97]; [98]]]) /\
  (let '(r, w') := a_removeall (hiddenfs [] osfs) RemoveAllExamples.p_a RemoveAllExamples.wB in
   r = MOk tt /\ map fst (dump_fs w') = [[]]).
Proof. vm_compute. repeat split; reflexivity. Qed.

