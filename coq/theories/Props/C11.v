(** C11 — HiddenFS listings respect hidden paths; no relocation by renaming an
    ancestor (lexical part).  RemoveAll on real trees: see Props/C11 world part. *)
From BFS Require Import Layers.Call Layers.LayerSpec Layers.HiddenList.
From BFS Require Import Proofs.HiddenFacts Proofs.HiddenListFacts.

(** the entries HiddenFS should show, in directory order *)
Definition visible (dirp : str) (hs : list str) (content : list str) : list str :=
  filter (fun e => match is_hidden (join2 dirp e) hs with Some false => true | _ => false end) content.

(** names delivered by a sequence of listing calls, up to and including the
    first EOF / empty answer *)
Fixpoint collected (rs : list lres) : list str :=
  match rs with
  | [] => []
  | LOk [] :: _ => []
  | LOk l :: r => l ++ collected r
  | LEof l :: _ => l
  | LErr :: _ => []
  end.

Definition ended (rs : list lres) : Prop :=
  Exists (fun r => match r with LEof _ | LOk [] => True | _ => False end) rs.

(** For every directory content, every hidden set whose checks are defined on
    the entries, every sequence of counts (negative, zero, positive, any
    batching): no call fails, what is delivered is a prefix of exactly the
    non-hidden entries in order (each once), and it is all of them as soon as
    the listing has ended; a call with n <= 0 delivers everything at once. *)
Theorem C11_listing :
  forall dirp hs content counts,
  (forall e, In e content -> is_hidden (join2 dirp e) hs <> None) ->
  let rs := hidden_list_calls dirp hs counts content in
  Forall (fun r => r <> LErr) rs /\
  (exists k, collected rs = firstn k (visible dirp hs content)) /\
  (ended rs -> collected rs = visible dirp hs content) /\
  (forall c cs, counts = c :: cs -> (c <= 0)%Z -> hd LErr rs = LOk (visible dirp hs content)).
Proof. exact hidden_listing. Qed.
Print Assumptions C11_listing.

(** the visible entries are exactly the non-hidden ones *)
Theorem C11_visible_spec :
  forall dirp hs content e, Forall cleaned hs ->
  (forall x, In x content -> comparable hs (join2 dirp x)) ->
  (In e (visible dirp hs content) <-> In e content /\ ~ below hs (join2 dirp e)).
Proof. exact visible_spec. Qed.
Print Assumptions C11_visible_spec.

(** no operation relocates hidden content by renaming one of its ancestors *)
Theorem C11_no_relocation_lexical :
  forall hs a b aux, Forall cleaned hs -> comparable hs a -> comparable hs b ->
  above_hidden hs a ->
  exists e, hiddenfs_call hs (mkCall MRename a b aux) = Rej e.
Proof. exact hiddenfs_rename_ancestor_rejected. Qed.
Print Assumptions C11_no_relocation_lexical.

Example C11_example :
  (* dir "/var", hidden "/var/b", content ["b"; "b2"; "a"], counts [1; 1; 1] *)
  hidden_list_calls [47;118;97;114] [[47;118;97;114;47;98]] [1%Z; 1%Z; 1%Z] [[98]; [98;50]; [97]]
  = [LOk [[98;50]]; LOk [[97]]; LEof []].
Proof. vm_compute. reflexivity. Qed.
