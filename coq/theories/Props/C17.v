From BFS Require Import Backup.History.
Example placeholder_C17 : True. Proof. exact I. Qed.
