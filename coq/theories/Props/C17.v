(** C17 — ForceBackup re-baselines the path it names.

    "After ForceBackup(p) succeeds for a non-directory path p, a later
    Rollback leaves p exactly as it was at the moment of the ForceBackup call
    (content, type, mode, owner - or absent, if it was absent then) rather
    than as it was when the transaction began, while every other path is
    rolled back as usual."

    The theorems are about the model's BackupFS ([b_force_backup], [step],
    [b_rollback] of Backup/BackupFS.v and Backup/History.v) over *any* two
    filesystems [base], [backup] satisfying the laws of Spec/Laws.v (the
    base also Spec/Laws2.v, for the covered operations between ForceBackup
    and Rollback) with respect to abstract views [Vb], [Vk].  The laws are
    hypotheses of the theorems, not axioms.  Proofs: Proofs/BackupForce.v.
    Proofs/LawsOsfs*.v proves the laws for the concrete generic layering (two
    PrefixFS with disjoint prefixes over the OS filesystem): [C17_concrete]
    and [C17_concrete_force_backup] below are closed theorems about that
    layering; Proofs/ConcreteExample.v exhibits a non-trivial instance of
    their hypotheses ([c17_concrete_instance]) and checks the conclusion
    against a run of the model ([c17_concrete_by_computation]).

    What is proved.
    - [C17_force_backup_rebaselines]: in any state [w] satisfying the
      transaction invariant [Inv Vb Vk B0 w] ([B0]: the base view when the
      transaction began), for a resolved name [p] (no symlink among its
      parents, not the root) under the side conditions below, ForceBackup(p)
      does not halt, does not change the base view and ends - whether it
      returns nil or an error - in a state satisfying the invariant for the
      new baseline [B0' = rebase B0 p (Vb w !! p)]: [B0] with the entry at [p]
      replaced by the one found at the moment of the call (deleted if there
      is none).  [B0'] is again well formed, [links_ok], [all_small].
      Bookkeeping of other paths is kept; on nil, [p] is tracked with the
      info of its current entry (or as "did not exist") and its ancestors
      are tracked; nil is returned whenever the existing proper ancestors of
      [p] are directories.  (So a *failed* ForceBackup re-baselines [p] too:
      the old copy is dropped before the new one is attempted.  If [p] had
      been recorded as "did not exist", the record is back after a failed
      call and [p] does not exist: old and new baseline coincide.)
    - [C17_rollback_after_force_backup] (the property): after ForceBackup(p)
      (whatever it returned), any run of covered operations ([good_run]) and
      Rollback: Rollback returns nil, [p] is as it was at the moment of the
      ForceBackup call, every other path (but the root's own entry) is as in
      [B0], the backup and the bookkeeping are empty.  Equalities are
      [sonode_eqv]: everything for regular files (content, mode, owner,
      mtime), everything but the timestamp for directories and symlinks.
      After a call that did not return nil, [p] is moreover as in [B0] unless
      it had been tracked as existing (only then was there a copy to lose).
    - [C17_failed_force_backup]: the last statement on its own: after a
      FAILED ForceBackup(p), covered operations and Rollback: Rollback
      returns nil, every other path is as in [B0], [p] is as at the moment
      of the call and - unless it was tracked as existing - as in [B0].
    - [C17_whole_transaction]: the same starting from an [initial] state and
      a [good_run] up to the ForceBackup call.
    - [C17_untracked_is_try_backup]: on an untracked path (of any type)
      ForceBackup is tryBackup; the invariant is kept for the same [B0].

    Side conditions (all on the state at the moment of the call):
    - [entry_ok p (Vb w !! p)]: the current entry is nothing, a regular file
      within the budget of the copy loop, or a symlink whose target is in the
      normal form both filesystems report and accepted by both (what
      [links_ok] / [all_small] ask of the initial tree; K2/K3) - not a
      directory;
    - [orig_not_dir_cond w p]: if [p] is tracked as existing, the original was
      not a directory (else the backup copy is a directory and
      tryRemoveBackup walks it);
    - [parents_original Vb B0 w p]: if [p] is tracked as "did not exist" and
      exists now, its parent directories existed when the transaction began.
      Why it is still there after the repair of D22 (below): if a parent of
      [p] was created in the transaction it is not in the backup, and the
      copy of [p] is attempted below a directory that is missing there.  The
      laws of Spec/Laws.v are positive only (they say when a call succeeds
      and what it does then); no law says that creating a file or symlink
      below a missing directory *fails and changes nothing*, so in that case
      the outcome of tryBackup is not determined by the laws and nothing can
      be proved from them (with such a law for the backup the condition
      could be dropped: the call fails, the record is put back and the
      invariant holds for the unchanged [B0]).  In the concrete model the
      call fails with the error and the transaction stays intact:
      [C17_fixed_new_parent] below.

    Repaired finding D22 (found by the proof as "F1": the side condition
    [parents_original]; /repo commit 8df8649): ForceBackup(p) of a path
    created in the transaction below a directory created in the transaction
    dropped the record "did not exist" of [p], failed to create the copy
    (the new directory is not in the backup) and left [p] untracked;
    Rollback then could not remove the new directory (not empty) and
    failed.  Since the repair a failed ForceBackup puts the record "did not
    exist" back.

    Repaired finding D21 (found while proving this property as "F2"; /repo
    commit a328feb): tryRemoveBackup used to Lstat a path recorded as "did
    not exist" on the backup filesystem; through the backed-up copy of a
    symlink among the parents of [p] that call could reach - and the
    following Remove delete - the backup copy of *another* path, which
    Rollback then silently did not restore.  The theorems needed a fourth
    side condition (no proper ancestor of [p] is a symlink in the backup
    view).  Since the repair tryRemoveBackup only drops the bookkeeping entry
    of such a path, the side condition is gone, and the former counterexample
    is the regression example [C17_fixed_symlinked_backup_parent] below.

    The excluded case "p WAS a directory when the transaction began" (p is
    tracked as an existing directory and is absent now, or a file or symlink
    took its place: what [orig_not_dir_cond] excludes and the oracle of the
    differential check skips) is characterised in the last part of this file
    (Proofs/BackupForceDir.v: the Walk branch of tryRemoveBackup):
    - [C17_former_directory_remove_backup]: over the laws of the backup
      filesystem, tryRemoveBackup(p) for a path recorded as existing whose
      copy is a directory never halts; whatever it returns it has removed
      copies at or below p only, each together with its record, and changed
      nothing else; when it returns nil it has removed ALL of them - so the
      record of p and of every tracked original below p is gone, while records
      "did not exist" below p (they have no copy, the Walk never meets them)
      SURVIVE, and the base is untouched.
    - [C17_former_directory_rebaselines]: ForceBackup(p) then either fails
      with the error of a listing or of the Walk's budget (only copies at or
      below p removed, with their records), or ends - nil or not - in a state
      that satisfies the invariant [Inv] outright for the baseline
      [prune B0 p (Vb w !! p)]: [B0] WITHOUT the former directory and
      everything that lay below it, with the entry found at p now in its
      place.  The surviving "did not exist" records below p are consistent
      with that baseline (nothing is there in it).  The precondition is
      [InvD .. p w]: [Inv] except that the entry at p may have changed its
      type ([Inv] itself implies it: [Inv_InvD]), so the theorem also covers
      the state "directory removed, file created in its place", which [Inv]
      excludes (recorded finding D13): ForceBackup(p) REPAIRS that state.
    - [C17_former_directory_rollback]: after such a ForceBackup(p) returned
      nil, covered operations and Rollback: Rollback returns nil, p is as at
      the moment of the call, every path OUTSIDE the former subtree is as in
      [B0] - and what lay below the former directory is NOT restored (it is
      absent).  This is the precise sense in which "every other path is
      rolled back as usual" fails for the former content of p: by the letter
      of the property (p is a non-directory at the moment of the call) a
      violation; it cannot be otherwise (the former content cannot be put
      back below an absent path or a file), which is why the oracle of the
      differential check skips the case.  Recorded as a finding about the
      interface, not repaired: ForceBackup of a removed directory silently
      discards the backup of its whole former content.
      [C17_former_directory_whole_transaction]: the same from an [initial]
      state.
    - The theorems need two laws that [api_laws]/[api_laws2] do not have, as
      hypotheses on the backup filesystem (not axioms):
      [removeall_emptydir_law] (RemoveAll of a directory without children in
      the view removes it, like Remove: [law_removeall_leaf] covers
      non-directories only; when its turn comes in the deepest-first loop
      every collected directory is empty) and [readdir_exact_law]
      ([law2_readdir] with "exactly the entries directly in the directory,
      each once" in the place of "entries below the directory": without
      completeness a copy could be missed and its record survive without a
      copy).  Both are PROVED for the concrete model in all three layerings
      ([C17_extra_laws_concrete], [C17_extra_laws_documented],
      [C17_extra_laws_new]), so [C17_former_directory_concrete],
      [C17_former_directory_documented], [C17_former_directory_new] are closed.
      Proofs/BackupForceDir.v ends with a non-trivial instance
      ([c17_dir_concrete_instance], [c17_dir_concrete_by_computation]).
    - [C17_former_directory_absent], [C17_former_directory_now_file],
      [C17_former_directory_none_record]: runs of the model.

    Not proved: ForceBackup of a path that IS a directory at the moment of the
    call (not what the property is about); names that still have to be
    resolved through symlinks ([realPath] beyond the identity on resolved
    names, C16); runs with crash points or injected faults ([Inv] includes
    [quiet]); type changes at tracked paths other than the one handed to
    ForceBackup (D13: [kind_stable] in [good_run]).

    The law-level statements are parameterised by [hid]/[anc] (what the base
    hides: paths at or below a hidden location, its proper ancestors; [nohid]
    for a base that hides nothing) and the Rollback statements from an
    arbitrary invariant state ask for [loc_ok hid anc B0] (see Props/C01.v);
    the [*_documented] theorems at the end of the file are the closed
    instances for the documented layering (location inside the base tree,
    hidden by HiddenFS: Proofs/LawsHidden*.v). *)
From stdpp Require Import gmap.
From BFS Require Import Spec.CopySpecs.
From BFS Require Import Backup.History.
From BFS Require Import Proofs.BackupCopy Proofs.BackupTry Proofs.BackupRollback Proofs.BackupC01
                        Proofs.BackupForce.
From BFS Require Import Spec.ViewOsfs Proofs.LawsOsfs.

(** ForceBackup keeps the invariant, for the new baseline *)
Theorem C17_force_backup_rebaselines :
  forall base backup Vb Vk tnb tnk accb acck rhb rhk whb whk hid anc B0,
  force_backup_stmt base backup Vb Vk tnb tnk accb acck rhb rhk whb whk hid anc B0.
Proof. exact force_backup_spec. Qed.
Print Assumptions C17_force_backup_rebaselines.

(** the property *)
Theorem C17_rollback_after_force_backup :
  forall (base backup : fsapi) (Vb Vk : world -> store) (tnb tnk : str -> str)
         (accb acck : str -> str -> Prop) (rhb rhk whb whk : fhandle -> str -> nat -> Prop)
         (hid anc : str -> Prop) (B0 : store),
  base_laws base Vb Vk tnb accb rhb whb hid anc -> base_laws2 base Vb Vk tnb accb rhb whb ->
  backup_laws backup Vb Vk tnk acck rhk whk ->
  links_ok tnb tnk accb acck B0 -> all_small B0 -> swf B0 -> loc_ok hid anc B0 ->
  forall (w : world) (p : str),
  Inv Vb Vk B0 w -> snolinkpar (Vb w) p -> p <> s_root ->
  entry_ok tnb tnk accb acck p (Vb w !! p) -> orig_not_dir_cond w p ->
  parents_original Vb B0 w p ->
  forall (r : mres unit) (w1 : world) (ops : list op) (w2 : world),
    b_force_backup base backup p w = (r, w1) -> good_run base backup Vb w1 ops w2 ->
    exists w3, b_rollback base backup w2 = (MOk tt, w3) /\
               (* p: as at the moment of the ForceBackup call *)
               sonode_eqv (Vb w3 !! p) (Vb w !! p) /\
               (* every other path: as when the transaction began *)
               (forall q, q <> p -> q <> s_root -> sonode_eqv (Vb w3 !! q) (B0 !! q)) /\
               (forall q, q <> s_root -> Vk w3 !! q = None) /\ w_infos w3 = ∅ /\
               (* after a failed call p is even as in B0, unless it had been
                  tracked as existing *)
               (r <> MOk tt -> (forall fi, w_infos w !! p <> Some (Some fi)) ->
                sonode_eqv (Vb w3 !! p) (B0 !! p)).
Proof. exact c17_spec. Qed.
Print Assumptions C17_rollback_after_force_backup.

(** a ForceBackup that failed *)
Theorem C17_failed_force_backup :
  forall (base backup : fsapi) (Vb Vk : world -> store) (tnb tnk : str -> str)
         (accb acck : str -> str -> Prop) (rhb rhk whb whk : fhandle -> str -> nat -> Prop)
         (hid anc : str -> Prop) (B0 : store),
  base_laws base Vb Vk tnb accb rhb whb hid anc -> base_laws2 base Vb Vk tnb accb rhb whb ->
  backup_laws backup Vb Vk tnk acck rhk whk ->
  links_ok tnb tnk accb acck B0 -> all_small B0 -> swf B0 -> loc_ok hid anc B0 ->
  forall (w : world) (p : str),
  Inv Vb Vk B0 w -> snolinkpar (Vb w) p -> p <> s_root ->
  entry_ok tnb tnk accb acck p (Vb w !! p) -> orig_not_dir_cond w p ->
  parents_original Vb B0 w p ->
  forall (e : errno) (w1 : world) (ops : list op) (w2 : world),
    b_force_backup base backup p w = (MErr e, w1) -> good_run base backup Vb w1 ops w2 ->
    exists w3, b_rollback base backup w2 = (MOk tt, w3) /\
               (forall q, q <> p -> q <> s_root -> sonode_eqv (Vb w3 !! q) (B0 !! q)) /\
               sonode_eqv (Vb w3 !! p) (Vb w !! p) /\
               ((forall fi, w_infos w !! p <> Some (Some fi)) -> sonode_eqv (Vb w3 !! p) (B0 !! p)) /\
               (forall q, q <> s_root -> Vk w3 !! q = None) /\ w_infos w3 = ∅.
Proof. exact c17_failed_spec. Qed.
Print Assumptions C17_failed_force_backup.

(** a whole transaction: initial state, covered operations, ForceBackup(p),
    covered operations, Rollback *)
Theorem C17_whole_transaction :
  forall base backup Vb Vk tnb tnk accb acck rhb rhk whb whk hid anc B0,
  c17_initial_stmt base backup Vb Vk tnb tnk accb acck rhb rhk whb whk hid anc B0.
Proof. exact c17_initial_spec. Qed.
Print Assumptions C17_whole_transaction.

(** ForceBackup of an untracked path is tryBackup *)
Theorem C17_untracked_is_try_backup :
  forall base backup Vb Vk tnb tnk accb acck rhb rhk whb whk hid anc B0,
  force_backup_untracked_stmt base backup Vb Vk tnb tnk accb acck rhb rhk whb whk hid anc B0.
Proof. exact force_backup_untracked_spec. Qed.
Print Assumptions C17_untracked_is_try_backup.

(** the property, closed, for the concrete layering base = PrefixFS([pa]),
    backup = PrefixFS([pb]) over the OS filesystem of the model ([Inv] of a
    state reached from an initial one by covered operations: [inv_concrete] of
    Proofs/LawsOsfs.v) *)
Theorem C17_concrete :
  forall pa pb, prefix_ok pa -> prefix_ok pb -> disjoint_prefixes pa pb ->
  forall B0, links_ok clean clean (acc_p pa) (acc_p pb) B0 -> all_small B0 -> swf B0 ->
  forall w p, Inv (Vp pa) (Vp pb) B0 w -> snolinkpar (Vp pa w) p -> p <> s_root ->
  entry_ok clean clean (acc_p pa) (acc_p pb) p (Vp pa w !! p) -> orig_not_dir_cond w p ->
  parents_original (Vp pa) B0 w p ->
  forall r w1 ops w2,
    b_force_backup (cfg_base (gcfg pa pb)) (cfg_backup (gcfg pa pb)) p w = (r, w1) ->
    good_run (cfg_base (gcfg pa pb)) (cfg_backup (gcfg pa pb)) (Vp pa) w1 ops w2 ->
    exists w3, b_rollback (cfg_base (gcfg pa pb)) (cfg_backup (gcfg pa pb)) w2 = (MOk tt, w3) /\
               sonode_eqv (Vp pa w3 !! p) (Vp pa w !! p) /\
               (forall q, q <> p -> q <> s_root -> sonode_eqv (Vp pa w3 !! q) (B0 !! q)) /\
               (forall q, q <> s_root -> Vp pb w3 !! q = None) /\ w_infos w3 = ∅ /\
               (r <> MOk tt -> (forall fi, w_infos w !! p <> Some (Some fi)) ->
                sonode_eqv (Vp pa w3 !! p) (B0 !! p)).
Proof. exact c17_concrete. Qed.
Print Assumptions C17_concrete.

(** ForceBackup keeps the invariant for the new baseline, closed, same layering *)
Theorem C17_concrete_force_backup :
  forall pa pb, prefix_ok pa -> prefix_ok pb -> disjoint_prefixes pa pb ->
  forall B0, links_ok clean clean (acc_p pa) (acc_p pb) B0 -> all_small B0 -> swf B0 ->
  forall w p, Inv (Vp pa) (Vp pb) B0 w -> snolinkpar (Vp pa w) p -> p <> s_root ->
  entry_ok clean clean (acc_p pa) (acc_p pb) p (Vp pa w !! p) -> orig_not_dir_cond w p ->
  parents_original (Vp pa) B0 w p ->
  let B0' := rebase B0 p (Vp pa w !! p) in
  swf B0' /\ links_ok clean clean (acc_p pa) (acc_p pb) B0' /\ all_small B0' /\
  exists r w', b_force_backup (cfg_base (gcfg pa pb)) (cfg_backup (gcfg pa pb)) p w = (r, w') /\
               r <> MHalt /\ Vp pa w' = Vp pa w /\
               Inv (Vp pa) (Vp pb) B0' w' /\
               (forall q, q <> p -> w_infos w !! q <> None -> w_infos w' !! q = w_infos w !! q) /\
               (forall q, w_infos w' !! q <> None -> w_infos w !! q <> None \/ In q (cands p)) /\
               (r = MOk tt ->
                  Forall (tracked w') (ancestors p) /\
                  match Vp pa w !! p with
                  | None => w_infos w' !! p = Some None
                  | Some n => exists fi, w_infos w' !! p = Some (Some fi) /\ info_matches fi n
                  end) /\
               ((forall q n, In q (ancestors p) -> Vp pa w !! q = Some n -> node_kind n = KDir) ->
                r = MOk tt) /\
               (r <> MOk tt -> w_infos w !! p = Some None ->
                w_infos w' !! p = Some None /\ Vp pa w !! p = None).
Proof. exact force_backup_concrete. Qed.
Print Assumptions C17_concrete_force_backup.

(** * Witnesses in the concrete model (documented layering: base hides /bk,
    backup is PrefixFS(/bk)) *)
Open Scope N_scope.
Definition c17_cfg : config := mkConfig None [[47;98;107]] [47;98;107].
Definition c17_w0 : world := init_dir (init_dir init_world [47] 493 0 0 1) [47;98;107] 493 0 0 2.

(** Regression for the repaired finding D21.  Tree { /bk, /x/, /x/b = "hi"
    mode 0644, /l -> /x }.  Chmod(/x/b, 0600) backs /x/b up; Remove(/l)
    backs the link up (the backup now holds /l -> /x); Create(/l/b) fails
    with ENOENT but records /l/b as "did not exist".  Before the repair
    ForceBackup(/l/b) returned nil after removing the backup copy of /x/b
    (reached by Lstat on the backup through the backed-up link), and
    Rollback returned nil with /x/b still at mode 0600.  Now ForceBackup(/l/b)
    returns nil, Rollback returns nil and /x/b is its initial node again -
    exactly as without the ForceBackup (second conjunct). *)
Definition c17_w1 : world :=
  init_link (init_file (init_dir c17_w0 [47;120] 493 0 0 3) [47;120;47;98] 420 0 0 4 [104;105])
            [47;108] 0 0 6 [47;120].
Definition c17_ops1 : list op :=
  [OChmod [47;120;47;98] 384; ORemove [47;108]; OCreate [47;108;47;98] [120]].
Example C17_fixed_symlinked_backup_parent :
  (let '(rs, w') := run_history c17_cfg (c17_ops1 ++ [OForceBackup [47;108;47;98]; ORollback]) c17_w1 in
   nth 3 rs MHalt = MOk ObUnit /\ nth 4 rs MHalt = MOk ObUnit /\
   st_fs (w_st w') !! [[120]; [98]] = st_fs (w_st c17_w1) !! [[120]; [98]]) /\
  (let '(rs, w') := run_history c17_cfg (c17_ops1 ++ [ORollback]) c17_w1 in
   nth 3 rs MHalt = MOk ObUnit /\
   st_fs (w_st w') !! [[120]; [98]] = st_fs (w_st c17_w1) !! [[120]; [98]]).
Proof.
  vm_compute. split.
  - split; [reflexivity | split; reflexivity].
  - split; reflexivity.
Qed.

(** Regression for the repaired finding D22.  Mkdir(/a); Create(/a/f).
    ForceBackup(/a/f) drops the entry "did not exist" of /a/f, then cannot
    create the copy (the new directory /a is not in the backup) and fails
    with the error.  Before the repair that left /a/f untracked, and
    Rollback failed to remove /a (not empty): /a and /a/f stayed.  Now the
    failed call leaves /a/f recorded as "did not exist" again, Rollback
    returns nil and /a, /a/f are gone - exactly as without the ForceBackup
    (third conjunct). *)
Definition c17_ops2 : list op := [OMkdir [47;97] 493; OCreate [47;97;47;102] [120]].
Example C17_fixed_new_parent :
  (let '(rs, w') := run_history c17_cfg (c17_ops2 ++ [OForceBackup [47;97;47;102]]) c17_w0 in
   nth 2 rs MHalt = MErr EOther /\ w_infos w' !! [47;97;47;102] = Some None) /\
  (let '(rs, w') := run_history c17_cfg (c17_ops2 ++ [OForceBackup [47;97;47;102]; ORollback]) c17_w0 in
   nth 2 rs MHalt = MErr EOther /\ nth 3 rs MHalt = MOk ObUnit /\
   st_fs (w_st w') !! [[97]] = None /\ st_fs (w_st w') !! [[97]; [102]] = None) /\
  (let '(rs, w') := run_history c17_cfg (c17_ops2 ++ [ORollback]) c17_w0 in
   nth 2 rs MHalt = MOk ObUnit /\
   st_fs (w_st w') !! [[97]] = None /\ st_fs (w_st w') !! [[97]; [102]] = None).
Proof.
  vm_compute. split; [| split].
  - split; reflexivity.
  - split; [reflexivity | split; [reflexivity | split; reflexivity]].
  - split; [reflexivity | split; reflexivity].
Qed.

(** the property, closed, for the DOCUMENTED layering (location inside the base
    tree, hidden by HiddenFS: Proofs/LawsHidden.v); [loc_ok]: the baseline shows
    nothing at or below the location and its ancestors as directories - true of
    the initial store ([loc_ok_documented]) *)
From BFS Require Import Spec.ViewHidden Proofs.LawsHidden.

Theorem C17_documented :
  forall pa h, prefix_ok pa -> hidden_ok h ->
  forall B0, links_ok clean clean (acc_h pa h) (acc_p (pk_h pa h)) B0 -> all_small B0 -> swf B0 ->
  loc_ok (hid_h h) (anc_h h) B0 ->
  forall w p, Inv (VpH pa h) (Vp (pk_h pa h)) B0 w -> snolinkpar (VpH pa h w) p -> p <> s_root ->
  entry_ok clean clean (acc_h pa h) (acc_p (pk_h pa h)) p (VpH pa h w !! p) -> orig_not_dir_cond w p ->
  parents_original (VpH pa h) B0 w p ->
  forall r w1 ops w2,
    b_force_backup (cfg_base (dcfg pa h)) (cfg_backup (dcfg pa h)) p w = (r, w1) ->
    good_run (cfg_base (dcfg pa h)) (cfg_backup (dcfg pa h)) (VpH pa h) w1 ops w2 ->
    exists w3, b_rollback (cfg_base (dcfg pa h)) (cfg_backup (dcfg pa h)) w2 = (MOk tt, w3) /\
               sonode_eqv (VpH pa h w3 !! p) (VpH pa h w !! p) /\
               (forall q, q <> p -> q <> s_root -> sonode_eqv (VpH pa h w3 !! q) (B0 !! q)) /\
               (forall q, q <> s_root -> Vp (pk_h pa h) w3 !! q = None) /\ w_infos w3 = ∅ /\
               (r <> MOk tt -> (forall fi, w_infos w !! p <> Some (Some fi)) ->
                sonode_eqv (VpH pa h w3 !! p) (B0 !! p)).
Proof. exact c17_documented. Qed.
Print Assumptions C17_documented.

(* ------------------------------------------------------------------ *)
(** ** the layering of the constructors New / NewWithFS
    [ncfg q = mkConfig None [q] q]: HiddenFS directly over the OS filesystem
    (no PrefixFS), the backup location [q] - an absolute cleaned path other
    than "/" - hidden from the base and the root of the backup filesystem.
    The base view [V0H q] (Spec/ViewRoot.v) is the WHOLE filesystem except the
    location and what lies below it; it shows link targets as stored ([tn_0],
    the identity: without PrefixFS nothing cleans them).  The root "/" is a
    proper ancestor of the location ([anc_h q]): it cannot be removed (EBUSY)
    or renamed.  Proofs/LawsNew.v. *)
From BFS Require Import Spec.ViewHidden Spec.ViewRoot Proofs.LawsNew.

Theorem C17_new :
  forall q, hidden_ok q ->
  forall B0, links_ok tn_0 clean (acc_0 q) (acc_p q) B0 -> all_small B0 -> swf B0 ->
  loc_ok (hid_h q) (anc_h q) B0 ->
  forall w p, Inv (V0H q) (Vp q) B0 w -> snolinkpar (V0H q w) p -> p <> s_root ->
  entry_ok tn_0 clean (acc_0 q) (acc_p q) p (V0H q w !! p) -> orig_not_dir_cond w p ->
  parents_original (V0H q) B0 w p ->
  forall r w1 ops w2,
    b_force_backup (cfg_base (ncfg q)) (cfg_backup (ncfg q)) p w = (r, w1) ->
    good_run (cfg_base (ncfg q)) (cfg_backup (ncfg q)) (V0H q) w1 ops w2 ->
    exists w3, b_rollback (cfg_base (ncfg q)) (cfg_backup (ncfg q)) w2 = (MOk tt, w3) /\
               sonode_eqv (V0H q w3 !! p) (V0H q w !! p) /\
               (forall q', q' <> p -> q' <> s_root -> sonode_eqv (V0H q w3 !! q') (B0 !! q')) /\
               (forall q', q' <> s_root -> Vp q w3 !! q' = None) /\ w_infos w3 = ∅ /\
               (r <> MOk tt -> (forall fi, w_infos w !! p <> Some (Some fi)) ->
                sonode_eqv (V0H q w3 !! p) (B0 !! p)).
Proof. exact c17_new. Qed.
Print Assumptions C17_new.

(* ------------------------------------------------------------------ *)
(** * The excluded case: p was a directory when the transaction began
    (Proofs/BackupForceDir.v) *)
From BFS Require Import Proofs.BackupForceDir.

(** the Walk branch of tryRemoveBackup, over the laws of one filesystem
    ([removed_with_records V V' w w' D]: the entries [D] are gone from the
    view [V] together with their records, everything else - the rest of
    [V], the other view [V'], the other records - is as it was) *)
Theorem C17_former_directory_remove_backup :
  forall (a : fsapi) (V V' : world -> store) (tn : str -> str) (accp : str -> str -> Prop)
         (rh wh : fhandle -> str -> nat -> Prop),
  api_laws a V V' tn accp rh wh nohid nohid ->
  (forall w i, V' (with_infos w i) = V' w) ->
  removeall_emptydir_law a V V' -> readdir_exact_law a V V' ->
  forall (w : world) (p : str) (fi0 : finfo) (mk : meta),
  quiet w -> swf (V w) -> p <> s_root ->
  w_infos w !! p = Some (Some fi0) -> V w !! p = Some (Dir mk) ->
  exists r w' D, try_remove_backup a p w = (r, w') /\ r <> MHalt /\
    removed_with_records V V' w w' D /\
    (* only copies at or below p ... *)
    (forall x, In x D -> under p x /\ V w !! x <> None) /\
    (* ... and on nil all of them *)
    (r = MOk tt -> forall x, under p x -> V w !! x <> None -> In x D).
Proof. exact try_remove_backup_walk_spec. Qed.
Print Assumptions C17_former_directory_remove_backup.

(** ForceBackup(p), p tracked as an existing directory and now absent, a
    file or a symlink: the invariant for the baseline without the former
    subtree ([force_backup_dir_concl], Proofs/BackupForceDir.v) *)
Theorem C17_former_directory_rebaselines :
  forall base backup Vb Vk tnb tnk accb acck rhb rhk whb whk hid anc B0,
  force_backup_dir_stmt base backup Vb Vk tnb tnk accb acck rhb rhk whb whk hid anc B0.
Proof. exact force_backup_dir_spec. Qed.
Print Assumptions C17_former_directory_rebaselines.

(** Rollback after such a ForceBackup(p) returned nil *)
Theorem C17_former_directory_rollback :
  forall (base backup : fsapi) (Vb Vk : world -> store) (tnb tnk : str -> str)
         (accb acck : str -> str -> Prop) (rhb rhk whb whk : fhandle -> str -> nat -> Prop)
         (hid anc : str -> Prop) (B0 : store),
  base_laws base Vb Vk tnb accb rhb whb hid anc -> base_laws2 base Vb Vk tnb accb rhb whb ->
  backup_laws backup Vb Vk tnk acck rhk whk ->
  removeall_emptydir_law backup Vk Vb -> readdir_exact_law backup Vk Vb ->
  links_ok tnb tnk accb acck B0 -> all_small B0 -> swf B0 -> loc_ok hid anc B0 ->
  forall (w : world) (p : str) (fi0 : finfo),
  InvD Vb Vk B0 p w -> snolinkpar (Vb w) p -> p <> s_root ->
  (* p is tracked as an existing directory ... *)
  w_infos w !! p = Some (Some fi0) -> fi_kind fi0 = KDir ->
  (* ... and is not a directory now *)
  entry_ok tnb tnk accb acck p (Vb w !! p) ->
  forall (w1 : world) (ops : list op) (w2 : world),
    b_force_backup base backup p w = (MOk tt, w1) -> good_run base backup Vb w1 ops w2 ->
    exists w3, b_rollback base backup w2 = (MOk tt, w3) /\
               (* p: as at the moment of the ForceBackup call *)
               sonode_eqv (Vb w3 !! p) (Vb w !! p) /\
               (* the former content of p: NOT back *)
               (forall q, under p q -> q <> p -> Vb w3 !! q = None) /\
               (* every path outside the former subtree: as when the transaction began *)
               (forall q, ~ under p q -> q <> s_root -> sonode_eqv (Vb w3 !! q) (B0 !! q)) /\
               (forall q, q <> s_root -> Vk w3 !! q = None) /\ w_infos w3 = ∅.
Proof. exact c17_dir_spec. Qed.
Print Assumptions C17_former_directory_rollback.

(** a whole transaction: initial state, covered operations (the directory p
    is backed up and removed), ForceBackup(p) -> nil, covered operations,
    Rollback *)
Theorem C17_former_directory_whole_transaction :
  forall base backup Vb Vk tnb tnk accb acck rhb rhk whb whk hid anc B0,
  c17_dir_initial_stmt base backup Vb Vk tnb tnk accb acck rhb rhk whb whk hid anc B0.
Proof. exact c17_dir_initial_spec. Qed.
Print Assumptions C17_former_directory_whole_transaction.

(** the two extra laws hold for the backup filesystem of the three layerings *)
Theorem C17_extra_laws_concrete :
  forall pa pb, prefix_ok pa -> prefix_ok pb -> disjoint_prefixes pa pb ->
  removeall_emptydir_law (cfg_backup (gcfg pa pb)) (Vp pb) (Vp pa) /\
  readdir_exact_law (cfg_backup (gcfg pa pb)) (Vp pb) (Vp pa).
Proof. exact extra_laws_concrete. Qed.
Print Assumptions C17_extra_laws_concrete.

Theorem C17_extra_laws_documented :
  forall pa h, prefix_ok pa -> hidden_ok h ->
  removeall_emptydir_law (cfg_backup (dcfg pa h)) (Vp (pk_h pa h)) (VpH pa h) /\
  readdir_exact_law (cfg_backup (dcfg pa h)) (Vp (pk_h pa h)) (VpH pa h).
Proof. exact extra_laws_documented. Qed.
Print Assumptions C17_extra_laws_documented.

Theorem C17_extra_laws_new :
  forall q, hidden_ok q ->
  removeall_emptydir_law (cfg_backup (ncfg q)) (Vp q) (V0H q) /\
  readdir_exact_law (cfg_backup (ncfg q)) (Vp q) (V0H q).
Proof. exact extra_laws_new. Qed.
Print Assumptions C17_extra_laws_new.

(** closed: the generic layering, a whole transaction *)
Theorem C17_former_directory_concrete :
  forall pa pb, prefix_ok pa -> prefix_ok pb -> disjoint_prefixes pa pb ->
  forall B0, all_small B0 ->
  forall w0 ops1 w p fi0,
    initial (Vp pa) (Vp pb) clean clean (acc_p pa) (acc_p pb) B0 w0 ->
    good_run (cfg_base (gcfg pa pb)) (cfg_backup (gcfg pa pb)) (Vp pa) w0 ops1 w ->
    snolinkpar (Vp pa w) p -> p <> s_root ->
    w_infos w !! p = Some (Some fi0) -> fi_kind fi0 = KDir -> (forall m, Vp pa w !! p <> Some (Dir m)) ->
    forall w1 ops2 w2,
      b_force_backup (cfg_base (gcfg pa pb)) (cfg_backup (gcfg pa pb)) p w = (MOk tt, w1) ->
      good_run (cfg_base (gcfg pa pb)) (cfg_backup (gcfg pa pb)) (Vp pa) w1 ops2 w2 ->
      Vp pa w !! p = None /\
      exists w3, b_rollback (cfg_base (gcfg pa pb)) (cfg_backup (gcfg pa pb)) w2 = (MOk tt, w3) /\
                 (forall q, under p q -> Vp pa w3 !! q = None) /\
                 (forall q, ~ under p q -> q <> s_root -> sonode_eqv (Vp pa w3 !! q) (Vp pa w0 !! q)) /\
                 (forall q, q <> s_root -> Vp pb w3 !! q = None) /\ w_infos w3 = ∅.
Proof. exact c17_dir_initial_concrete. Qed.
Print Assumptions C17_former_directory_concrete.

(** closed: the generic layering, from any state with the invariant up to the
    type of the entry at p (so: also "directory removed, file in its place") *)
Theorem C17_former_directory_concrete_state :
  forall pa pb, prefix_ok pa -> prefix_ok pb -> disjoint_prefixes pa pb ->
  forall B0, links_ok clean clean (acc_p pa) (acc_p pb) B0 -> all_small B0 -> swf B0 ->
  forall w p fi0, InvD (Vp pa) (Vp pb) B0 p w -> snolinkpar (Vp pa w) p -> p <> s_root ->
  w_infos w !! p = Some (Some fi0) -> fi_kind fi0 = KDir ->
  entry_ok clean clean (acc_p pa) (acc_p pb) p (Vp pa w !! p) ->
  forall w1 ops w2,
    b_force_backup (cfg_base (gcfg pa pb)) (cfg_backup (gcfg pa pb)) p w = (MOk tt, w1) ->
    good_run (cfg_base (gcfg pa pb)) (cfg_backup (gcfg pa pb)) (Vp pa) w1 ops w2 ->
    exists w3, b_rollback (cfg_base (gcfg pa pb)) (cfg_backup (gcfg pa pb)) w2 = (MOk tt, w3) /\
               sonode_eqv (Vp pa w3 !! p) (Vp pa w !! p) /\
               (forall q, under p q -> q <> p -> Vp pa w3 !! q = None) /\
               (forall q, ~ under p q -> q <> s_root -> sonode_eqv (Vp pa w3 !! q) (B0 !! q)) /\
               (forall q, q <> s_root -> Vp pb w3 !! q = None) /\ w_infos w3 = ∅.
Proof. exact c17_dir_concrete. Qed.
Print Assumptions C17_former_directory_concrete_state.

(** closed: the documented layering *)
Theorem C17_former_directory_documented :
  forall pa h, prefix_ok pa -> hidden_ok h ->
  forall B0, links_ok clean clean (acc_h pa h) (acc_p (pk_h pa h)) B0 -> all_small B0 -> swf B0 ->
  loc_ok (hid_h h) (anc_h h) B0 ->
  forall w p fi0, InvD (VpH pa h) (Vp (pk_h pa h)) B0 p w -> snolinkpar (VpH pa h w) p -> p <> s_root ->
  w_infos w !! p = Some (Some fi0) -> fi_kind fi0 = KDir ->
  entry_ok clean clean (acc_h pa h) (acc_p (pk_h pa h)) p (VpH pa h w !! p) ->
  forall w1 ops w2,
    b_force_backup (cfg_base (dcfg pa h)) (cfg_backup (dcfg pa h)) p w = (MOk tt, w1) ->
    good_run (cfg_base (dcfg pa h)) (cfg_backup (dcfg pa h)) (VpH pa h) w1 ops w2 ->
    exists w3, b_rollback (cfg_base (dcfg pa h)) (cfg_backup (dcfg pa h)) w2 = (MOk tt, w3) /\
               sonode_eqv (VpH pa h w3 !! p) (VpH pa h w !! p) /\
               (forall q, under p q -> q <> p -> VpH pa h w3 !! q = None) /\
               (forall q, ~ under p q -> q <> s_root -> sonode_eqv (VpH pa h w3 !! q) (B0 !! q)) /\
               (forall q, q <> s_root -> Vp (pk_h pa h) w3 !! q = None) /\ w_infos w3 = ∅.
Proof. exact c17_dir_documented. Qed.
Print Assumptions C17_former_directory_documented.

(** closed: the layering of New / NewWithFS *)
Theorem C17_former_directory_new :
  forall q, hidden_ok q ->
  forall B0, links_ok tn_0 clean (acc_0 q) (acc_p q) B0 -> all_small B0 -> swf B0 ->
  loc_ok (hid_h q) (anc_h q) B0 ->
  forall w p fi0, InvD (V0H q) (Vp q) B0 p w -> snolinkpar (V0H q w) p -> p <> s_root ->
  w_infos w !! p = Some (Some fi0) -> fi_kind fi0 = KDir ->
  entry_ok tn_0 clean (acc_0 q) (acc_p q) p (V0H q w !! p) ->
  forall w1 ops w2,
    b_force_backup (cfg_base (ncfg q)) (cfg_backup (ncfg q)) p w = (MOk tt, w1) ->
    good_run (cfg_base (ncfg q)) (cfg_backup (ncfg q)) (V0H q) w1 ops w2 ->
    exists w3, b_rollback (cfg_base (ncfg q)) (cfg_backup (ncfg q)) w2 = (MOk tt, w3) /\
               sonode_eqv (V0H q w3 !! p) (V0H q w !! p) /\
               (forall q', under p q' -> q' <> p -> V0H q w3 !! q' = None) /\
               (forall q', ~ under p q' -> q' <> s_root -> sonode_eqv (V0H q w3 !! q') (B0 !! q')) /\
               (forall q', q' <> s_root -> Vp q w3 !! q' = None) /\ w_infos w3 = ∅.
Proof. exact c17_dir_new. Qed.
Print Assumptions C17_former_directory_new.

(** ** Runs of the model ([c17_cfg]: the layering of New with the location /bk) *)

(** Tree { /bk, /d/, /d/f = "hi", /d/s/, /d/s/g = "yo" }.  RemoveAll(/d) backs
    the four entries up and removes them.  ForceBackup(/d) - /d is absent -
    returns nil: the backup holds nothing any more, the four records are gone
    and /d is recorded as "did not exist" (first and second conjunct: after,
    before).  A Rollback then returns nil and leaves /d and its former
    content ABSENT (third); without the ForceBackup it brings all four back
    (fourth). *)
Definition c17_d : str := [47;100].
Definition c17_wd : world :=
  init_file (init_dir (init_file (init_dir c17_w0 [47;100] 493 0 0 3) [47;100;47;102] 420 0 0 4 [104;105])
                      [47;100;47;115] 493 0 0 5) [47;100;47;115;47;103] 420 0 0 6 [121;111].
Example C17_former_directory_absent :
  (let '(rs, w') := run_history c17_cfg [ORemoveAll c17_d; OForceBackup c17_d] c17_wd in
   nth 1 rs MHalt = MOk ObUnit /\
   map fst (map_to_list (w_infos w')) = [[47]; [47;100]] /\ w_infos w' !! c17_d = Some None /\
   map fst (dump_fs w') = [[]; [[98;107]]]) /\
  (let '(rs, w') := run_history c17_cfg [ORemoveAll c17_d] c17_wd in
   map fst (map_to_list (w_infos w')) =
     [[47]; [47;100]; [47;100;47;102]; [47;100;47;115;47;103]; [47;100;47;115]] /\
   map fst (dump_fs w') =
     [[]; [[98;107];[100];[115];[103]]; [[98;107];[100];[115]]; [[98;107];[100]]; [[98;107]];
      [[98;107];[100];[102]]]) /\
  (let '(rs, w') := run_history c17_cfg [ORemoveAll c17_d; OForceBackup c17_d; ORollback] c17_wd in
   nth 2 rs MHalt = MOk ObUnit /\ map fst (dump_fs w') = [[]; [[98;107]]]) /\
  (let '(rs, w') := run_history c17_cfg [ORemoveAll c17_d; ORollback] c17_wd in
   nth 1 rs MHalt = MOk ObUnit /\
   map fst (dump_fs w') = [[]; [[100];[115];[103]]; [[100];[115]]; [[100]]; [[98;107]]; [[100];[102]]]).
Proof. vm_compute. repeat split; reflexivity. Qed.

(** The same tree.  RemoveAll(/d); Create(/d) - a FILE where the directory
    was: /d is tracked as a directory and is a file (recorded finding D13).
    ForceBackup(/d) returns nil; the backup then holds the copy of the file
    /d and nothing else, and only "/" and "/d" are tracked (first conjunct).
    Rollback returns nil, /d is still that file and the former content is
    absent (second).  Without the ForceBackup Rollback FAILS (D13) - and /d
    is that file, the former content is absent and the backup is empty all
    the same (third): in the state D13 the ForceBackup loses nothing that
    was not lost already, and repairs the transaction. *)
Example C17_former_directory_now_file :
  (let '(rs, w') := run_history c17_cfg [ORemoveAll c17_d; OCreate c17_d [122]; OForceBackup c17_d] c17_wd in
   nth 2 rs MHalt = MOk ObUnit /\
   map fst (map_to_list (w_infos w')) = [[47]; [47;100]] /\
   map fst (dump_fs w') = [[]; [[100]]; [[98;107];[100]]; [[98;107]]]) /\
  (let '(rs, w') := run_history c17_cfg [ORemoveAll c17_d; OCreate c17_d [122]; OForceBackup c17_d; ORollback] c17_wd in
   nth 3 rs MHalt = MOk ObUnit /\ map fst (dump_fs w') = [[]; [[100]]; [[98;107]]] /\
   st_fs (w_st w') !! [[100]] = Some (File (mkMeta 438 0 0 (Now 11)) [122])) /\
  (let '(rs, w') := run_history c17_cfg [ORemoveAll c17_d; OCreate c17_d [122]; ORollback] c17_wd in
   nth 2 rs MHalt = MErr ERollback /\ map fst (dump_fs w') = [[]; [[100]]; [[98;107]]] /\
   st_fs (w_st w') !! [[100]] = Some (File (mkMeta 438 0 0 (Now 11)) [122])).
Proof. vm_compute. repeat split; reflexivity. Qed.

(** The same tree.  Create(/d/n) records /d/n as "did not exist";
    RemoveAll(/d); Create(/d) as a file.  ForceBackup(/d) returns nil and the
    record of /d/n SURVIVES below the re-baselined file /d (first conjunct):
    the Walk never meets it, it has no copy.  It does no harm: Rollback
    returns nil (its Lstat of /d/n below the file /d fails with ENOTDIR, which
    BackupFS counts as "does not exist") and /d stays the file (second). *)
Definition c17_dn : str := [47;100;47;110].
Example C17_former_directory_none_record :
  (let '(rs, w') := run_history c17_cfg
                      [OCreate c17_dn [120]; ORemoveAll c17_d; OCreate c17_d [122]; OForceBackup c17_d] c17_wd in
   nth 3 rs MHalt = MOk ObUnit /\
   map fst (map_to_list (w_infos w')) = [[47]; [47;100]; [47;100;47;110]] /\
   w_infos w' !! c17_dn = Some None) /\
  (let '(rs, w') := run_history c17_cfg
                      [OCreate c17_dn [120]; ORemoveAll c17_d; OCreate c17_d [122]; OForceBackup c17_d; ORollback] c17_wd in
   nth 4 rs MHalt = MOk ObUnit /\ map fst (dump_fs w') = [[]; [[100]]; [[98;107]]] /\ w_infos w' = ∅).
Proof. vm_compute. repeat split; reflexivity. Qed.
