From BFS Require Import Backup.History.
Example placeholder_C16 : True. Proof. exact I. Qed.
