(** C16 — symlink resolution for mutating operations.

    "For every symlink topology in the base filesystem (absolute and relative
    links, links in any parent component, chains of links, dangling links,
    cycles), the path BackupFS operates on for a mutating operation names the
    same entry the caller's path names under OS semantics, has no symlink in
    any parent component, leaves the final component unresolved, and treats a
    missing tail lexically.  Resolution always terminates."

    The theorems are about [real_path osfs] (Backup/BackupFS.v: the model of
    resolvePathWithInfo / realPath of fs_utils.go, run against the Go code by
    the correspondence check) on the concrete filesystem model of
    Fs/FsModel.v; "OS semantics" is the kernel path walk [resolve] (symlinks
    followed in every parent component, physical "..", ELOOP after 40 hops).
    [osfs] has no spy layer: crash points and fault plans of the world do not
    matter, so the statements hold for every world, not only [quiet] ones.
    Proofs: Proofs/ResolveFacts.v.

    PROVED, for every world and every name:
    - [C16_terminates_readonly]: resolution returns (never [MHalt]) and leaves
      the world unchanged.
    - [C16_no_fuel_exhaustion]: for absolute names - of any length - in a
      well-formed tree, *whatever* the symlink topology (cycles, dangling
      links, links through links, unclean targets), the model's recursion
      budget is not exhausted when  40*T + 2 <= 4096  (at most T
      separator-delimited pieces in any link target).  The budget of [resolve]
      is [walk_fuel + length p]: the name pays for itself, the constant part
      pays for the at most 40 link targets the kernel splices in.
    - [C16_fixpoint]: a name without a symlink among its parents resolves to
      itself (no size bound).

    PROVED under [c16_hyps]: the tree is well formed ([wf]; no size bound on
    the tree or the name), and the recorded deviations are
    excluded by their trigger predicates of Backup/Triggers.v, evaluated on a
    configuration whose base is the plain OS filesystem ([plain_cfg]):
      D20  the name is relative                 ([is_abs (clean n) = true]; lifted
                                                 below, see RELATIVE NAMES)
      D17  a link target runs through a link    ([resolve_through_link .. = false])
      K2   a stored link target is not clean    ([unclean_target w = false],
                                                 i.e. [TrUncleanLinkTarget] not in [link_flags cfg w])
    ([C16_hyps_of_triggers]: they hold whenever [triggers cfg (ORealPath n) w = []];
     [C16_hyps_decidable]: all of [c16_hyps] is a boolean computation.)
    - [C16_succeeds]: resolution returns a path (no error, in particular no
      fuel exhaustion).
    - [C16_no_symlink_parent]: the result is absolute, cleaned, and no proper
      ancestor of it is a symlink ([nolinkpar]).
    - [C16_same_entry]: the result and the caller's (cleaned) name give the
      same answer under the kernel walk with the final component not followed
      - the same key and node, the same missing entry (parent key, name), or
      the same error - provided the kernel's answer for the caller's name is
      [definite], i.e. is not ELOOP / the model's EFUEL.
      [C16_same_entry_bounded]: the EFUEL half follows from the bound on the
      link targets (40*T + 2 <= 4096).
    - [C16_final_unresolved]: if the name is dir/base and dir resolves
      (following links) to the directory key kd, the result is the path of
      kd ++ [base], whether or not that entry is a symlink.
    - [C16_missing_tail]: if a prefix of the name resolves to the directory
      kd and the next component does not exist in it, the result is the path
      of kd followed by the remaining components verbatim.
    - [C16_shape]: in general the result is (a link-free key that is
      kernel-equivalent to the consumed prefix of the name) ++ (the rest of the
      name, verbatim), where the rest is the final component alone or starts
      at a component missing below that key.
    - [C16_idempotent]: resolving the result again returns it.

    NECESSITY of the exclusions (T4), each a closed computation on a small
    tree: [C16_D17_necessary], [C16_K2_necessary], [C16_D20_necessary]; the
    hypotheses are satisfiable on a tree with an absolute and a relative link
    in parent positions ([C16_satisfiable]).  (The conjunct [size_okb .. = true]
    in the three necessity statements is the former fuel bound of [c16_hyps];
    it is no longer a hypothesis of any theorem and is kept only because the
    statements are unchanged.)  K3 (climbing relative target)
    and K4 (dangling parent link) need NOT be excluded for C16 over the plain
    OS filesystem ([C16_K3_not_needed], [C16_K4_not_needed]): they concern the
    operation performed afterwards / the prefixed layerings.

    FINDING ([C16_finding_ELOOP], recorded as K8, trigger TrHopLimit of Backup/Triggers.v): a name whose
    resolution follows more than 40 symlinks gets ELOOP from the kernel, while
    resolvePathWithInfo resolves it link by link and BackupFS operates on the
    existing target.  This is why [C16_same_entry] carries [definite].

    RELATIVE NAMES (the exclusion of D20 lifted; section "Relative names" at
    the end).  In the model, as in the harness that runs the Go code, the
    working directory is the root: [resolve] walks a relative string from the
    key [[]], and ".." at the root stays at the root.  For a relative name
    [real_path] visits relative candidates and returns a possibly relative
    string: a relative link target is joined to the relative directory of the
    link, a target that climbs above the working directory (K3) leaves leading
    ".." in the result ("l/x" with l -> ../d gives "../d/x"), and an absolute
    target makes all later candidates, and the result, absolute.  The loop
    invariant of Proofs/ResolveFacts.v is generalised to these two modes
    ([rk], [rloop_inv_g]).  "Read from the root" below means [clean (sep :: rp)],
    the absolute cleaned path of the same key; [comps (sep :: n)] are the
    components of the name read from the root.
    PROVED for every name [n] - absolute or relative, including names whose
    cleaned form starts with ".." (no side condition is needed: the leading
    ".." candidates are the root directory and are passed over):
    - [C16_relative_no_fuel_exhaustion]: [C16_no_fuel_exhaustion] without the
      absoluteness hypothesis, with the same bound 40*T + 2 <= 4096.
    PROVED under [c16_rel_hyps] = [c16_hyps] without D20 (tree [wf], D17 and
    K2 excluded by the same trigger predicates, evaluated on the candidates of
    the name as given):
    - [C16_relative_succeeds]: resolution returns a path.
    - [C16_relative_same_entry] (hypotheses spelled out; this is the former
      [C16_relative_same_entry_stmt], verbatim), [C16_relative_same_entry_bounded]:
      the result and the caller's cleaned name give the same answer under the
      kernel walk, final component not followed, when that answer is [definite].
    - [C16_relative_no_symlink_parent]: the result is cleaned and, read from
      the root, no proper ancestor of it is a symlink.
    - [C16_relative_final_unresolved], [C16_relative_missing_tail],
      [C16_relative_shape]: as for absolute names, for the result read from the
      root and the components of the name read from the root.
    - [C16_relative_fixpoint], [C16_relative_idempotent]: a cleaned name that,
      read from the root, has no symlink among its ancestors resolves to itself;
      results resolve to themselves.
    - [C16_relative_hyps_decidable], [C16_relative_hyps_of_triggers] (the
      hypotheses hold when no trigger other than [TrRelativeName] fires).
    - [C16_relative_satisfiable] (climbing relative targets, relative result
      with leading ".."), [C16_relative_abs_link] (leading ".." in the name,
      absolute link on the way, absolute result), [C16_D20_covered] (the tree
      of [C16_D20_necessary]: its relative result names the caller's entry).
    What remains of D20 is exactly what [C16_D20_necessary] shows: the result
    of a relative name may be relative, so it is not [nolinkpar] as a string
    (not absolute), and BackupFS tracks "e" and "/e" under different keys.
    No deviation of the model from the kernel walk beyond D17 / K2 / the
    40-hop limit was found for relative names: the theorems above hold for
    all of them.  Nothing is left as a [_stmt] definition. *)
From stdpp Require Import gmap.
From BFS Require Import Backup.Triggers Fs.FsSpec.
From BFS Require Import Proofs.FsFacts Proofs.ResolveFacts.
Local Open Scope nat_scope.

(** * T1: totality *)

Theorem C16_terminates_readonly : forall n w,
  snd (real_path osfs n w) = w /\ fst (real_path osfs n w) <> MHalt.
Proof. exact real_path_readonly. Qed.
Print Assumptions C16_terminates_readonly.

Theorem C16_no_fuel_exhaustion : forall n w T,
  wf (st_fs (w_st w)) -> is_abs n = true -> links_bounded (st_fs (w_st w)) T ->
  40 * T + 2 <= walk_fuel ->
  fst (real_path osfs n w) <> MErr EFUEL.
Proof. exact real_path_no_efuel. Qed.
Print Assumptions C16_no_fuel_exhaustion.

Theorem C16_succeeds : forall q n w,
  c16_hyps q n w -> exists rp, real_path osfs n w = (MOk rp, w).
Proof. exact real_path_succeeds. Qed.
Print Assumptions C16_succeeds.

(** * T2: soundness under the exclusion of D20, D17, K2 *)

Theorem C16_no_symlink_parent : forall q n w,
  c16_hyps q n w -> forall rp, fst (real_path osfs n w) = MOk rp ->
  nolinkpar (st_fs (w_st w)) rp.
Proof. exact real_path_nolinkpar. Qed.
Print Assumptions C16_no_symlink_parent.

Theorem C16_same_entry : forall q n w,
  c16_hyps q n w -> forall rp, fst (real_path osfs n w) = MOk rp ->
  definite (resolve (st_fs (w_st w)) (clean n) false) ->
  resolve (st_fs (w_st w)) rp false = resolve (st_fs (w_st w)) (clean n) false.
Proof. exact real_path_same_entry. Qed.
Print Assumptions C16_same_entry.

Theorem C16_same_entry_bounded : forall q n w T rp,
  c16_hyps q n w -> links_bounded (st_fs (w_st w)) T ->
  40 * T + 2 <= walk_fuel ->
  fst (real_path osfs n w) = MOk rp ->
  resolve (st_fs (w_st w)) (clean n) false <> WErr ELOOP ->
  resolve (st_fs (w_st w)) rp false = resolve (st_fs (w_st w)) (clean n) false.
Proof. exact real_path_same_entry_bounded. Qed.
Print Assumptions C16_same_entry_bounded.

Theorem C16_final_unresolved : forall q n w,
  c16_hyps q n w -> forall rp, fst (real_path osfs n w) = MOk rp ->
  forall dcs b kd m,
    comps n = dcs ++ [b] ->
    resolve (st_fs (w_st w)) (kpath dcs) true = WFound kd (Dir m) ->
    rp = kpath (kd ++ [b]).
Proof. exact real_path_final_unresolved. Qed.
Print Assumptions C16_final_unresolved.

Theorem C16_missing_tail : forall q n w,
  c16_hyps q n w -> forall rp, fst (real_path osfs n w) = MOk rp ->
  forall done c tail kd m,
    comps n = done ++ c :: tail ->
    resolve (st_fs (w_st w)) (kpath done) true = WFound kd (Dir m) ->
    st_fs (w_st w) !! (kd ++ [c]) = None ->
    rp = kpath (kd ++ c :: tail).
Proof. exact real_path_missing_tail. Qed.
Print Assumptions C16_missing_tail.

Theorem C16_shape : forall q n w,
  c16_hyps q n w -> forall rp, fst (real_path osfs n w) = MOk rp ->
  comps n <> [] ->
  exists done tail k',
    comps n = done ++ tail /\ tail <> [] /\ rp = kpath (k' ++ tail) /\
    NL (st_fs (w_st w)) k' /\
    (length tail = 1 \/ st_fs (w_st w) !! (k' ++ firstn 1 tail) = None) /\
    (forall X fl r, (X <> [] \/ fl = true) ->
       walks (st_fs (w_st w)) [] (done ++ X) fl r -> walks (st_fs (w_st w)) [] (k' ++ X) fl r).
Proof. exact real_path_lexical_tail. Qed.
Print Assumptions C16_shape.

(** * T3: fixpoint, idempotence *)

Theorem C16_fixpoint : forall p w,
  wf (st_fs (w_st w)) -> nolinkpar (st_fs (w_st w)) p ->
  real_path osfs p w = (MOk p, w).
Proof. exact real_path_fixpoint. Qed.
Print Assumptions C16_fixpoint.

Theorem C16_idempotent : forall q n w rp,
  c16_hyps q n w -> fst (real_path osfs n w) = MOk rp ->
  real_path osfs rp w = (MOk rp, w).
Proof. exact real_path_idempotent. Qed.
Print Assumptions C16_idempotent.

(** * The hypotheses are boolean computations over triggers of Backup/Triggers.v *)

Theorem C16_hyps_decidable : forall q n w, c16_hypsb q n w = true -> c16_hyps q n w.
Proof. exact c16_hypsb_ok. Qed.
Print Assumptions C16_hyps_decidable.

Theorem C16_hyps_of_triggers : forall q n w,
  wf (st_fs (w_st w)) ->
  triggers (plain_cfg q) (ORealPath n) w = [] -> c16_hyps q n w.
Proof. exact c16_hyps_of_triggers. Qed.
Print Assumptions C16_hyps_of_triggers.

Theorem C16_K2_is_the_link_flag : forall cfg w,
  unclean_target w = true <-> In TrUncleanLinkTarget (link_flags cfg w).
Proof. exact unclean_target_flag. Qed.
Print Assumptions C16_K2_is_the_link_flag.

(** * T4: satisfiability and necessity (closed computations on small trees) *)

(** { /d/, /d/e/, /d/e/f, /a -> /d, /d/r -> e }, name "/a/r/f" resolves to "/d/e/f" *)
Theorem C16_satisfiable :
  c16_hypsb xq n_sat w_sat = true /\
  (fst (real_path osfs n_sat w_sat) = MOk rp_sat /\ rp_sat <> clean n_sat) /\
  (nolinkpar (st_fs (w_st w_sat)) rp_sat /\
   resolve (st_fs (w_st w_sat)) rp_sat false = resolve (st_fs (w_st w_sat)) (clean n_sat) false /\
   real_path osfs rp_sat w_sat = (MOk rp_sat, w_sat)).
Proof. exact (conj sat_hyps (conj sat_result sat_conclusions)). Qed.
Print Assumptions C16_satisfiable.

(** { /d/, /d/c/, /d/c/x, /b -> /d, /a -> /b/c }, name "/a/x": result "/b/c/x" has the link /b as a parent *)
Theorem C16_D17_necessary :
  wfb (st_fs (w_st w_d17)) = true /\ size_okb (st_fs (w_st w_d17)) (length (comps n_d17)) = true /\
  is_abs (clean n_d17) = true /\ unclean_target w_d17 = false /\
  resolve_through_link (plain_cfg xq) (cands (clean n_d17)) (fun x => x) w_d17 = true /\
  fst (real_path osfs n_d17 w_d17) = MOk rp_d17 /\
  ~ nolinkpar (st_fs (w_st w_d17)) rp_d17.
Proof. exact d17_necessary. Qed.
Print Assumptions C16_D17_necessary.

(** { /d/, /d/y, /l -> /x/../d }, name "/l/y": kernel ENOENT, result "/d/y" exists *)
Theorem C16_K2_necessary :
  wfb (st_fs (w_st w_k2)) = true /\ size_okb (st_fs (w_st w_k2)) (length (comps n_k2)) = true /\
  is_abs (clean n_k2) = true /\
  resolve_through_link (plain_cfg xq) (cands (clean n_k2)) (fun x => x) w_k2 = false /\
  unclean_target w_k2 = true /\
  fst (real_path osfs n_k2 w_k2) = MOk rp_k2 /\
  resolve (st_fs (w_st w_k2)) (clean n_k2) false = WErr ENOENT /\
  exists m c, resolve (st_fs (w_st w_k2)) rp_k2 false = WFound [[100%N];[121%N]] (File m c).
Proof. exact k2_necessary. Qed.
Print Assumptions C16_K2_necessary.

(** { /d/, /d/y, /r -> d }, name "r/y": result "d/y" is relative *)
Theorem C16_D20_necessary :
  wfb (st_fs (w_st w_d20)) = true /\ size_okb (st_fs (w_st w_d20)) (length (comps n_d20)) = true /\
  resolve_through_link (plain_cfg xq) (cands (clean n_d20)) (fun x => x) w_d20 = false /\
  unclean_target w_d20 = false /\
  is_abs (clean n_d20) = false /\
  fst (real_path osfs n_d20 w_d20) = MOk rp_d20 /\
  ~ nolinkpar (st_fs (w_st w_d20)) rp_d20.
Proof. exact d20_necessary. Qed.
Print Assumptions C16_D20_necessary.

(** FINDING: { /d/, /d/x, /d/l -> /d }, name "/d" + 41 * "/l" + "/x": kernel ELOOP, BackupFS works on "/d/x" *)
Theorem C16_finding_ELOOP :
  c16_hypsb xq n_loop w_loop = true /\
  fst (real_path osfs n_loop w_loop) = MOk rp_loop /\
  resolve (st_fs (w_st w_loop)) (clean n_loop) false = WErr ELOOP /\
  exists m c, resolve (st_fs (w_st w_loop)) rp_loop false = WFound [[100%N];[120%N]] (File m c).
Proof. exact eloop_finding. Qed.
Print Assumptions C16_finding_ELOOP.

Theorem C16_K3_not_needed :
  In TrClimbingLink (link_flags (plain_cfg xq) w_k3) /\ c16_hypsb xq n_k3 w_k3 = true /\
  fst (real_path osfs n_k3 w_k3) = MOk [47;100;47;120]%N /\
  resolve (st_fs (w_st w_k3)) [47;100;47;120]%N false = resolve (st_fs (w_st w_k3)) (clean n_k3) false.
Proof. exact k3_not_needed. Qed.
Print Assumptions C16_K3_not_needed.

Theorem C16_K4_not_needed :
  dangling_parent (plain_cfg xq) n_k4 w_k4 = true /\ c16_hypsb xq n_k4 w_k4 = true /\
  fst (real_path osfs n_k4 w_k4) = MOk [47;110;47;120]%N /\
  resolve (st_fs (w_st w_k4)) [47;110;47;120]%N false = resolve (st_fs (w_st w_k4)) (clean n_k4) false.
Proof. exact k4_not_needed. Qed.
Print Assumptions C16_K4_not_needed.

(** * Relative names: D20 lifted.  The model's working directory is the
    root; results of relative names may be relative.  Every statement below
    holds for every name, absolute or relative. *)

Theorem C16_relative_no_fuel_exhaustion : forall n w T,
  wf (st_fs (w_st w)) -> links_bounded (st_fs (w_st w)) T ->
  40 * T + 2 <= walk_fuel ->
  fst (real_path osfs n w) <> MErr EFUEL.
Proof. exact real_path_any_no_efuel. Qed.
Print Assumptions C16_relative_no_fuel_exhaustion.

Theorem C16_relative_same_entry : forall q n w rp,
  wf (st_fs (w_st w)) ->
  resolve_through_link (plain_cfg q) (cands (clean n)) (fun x => x) w = false ->
  unclean_target w = false ->
  fst (real_path osfs n w) = MOk rp ->
  definite (resolve (st_fs (w_st w)) (clean n) false) ->
  resolve (st_fs (w_st w)) rp false = resolve (st_fs (w_st w)) (clean n) false.
Proof. exact real_path_relative_same_entry. Qed.
Print Assumptions C16_relative_same_entry.

Theorem C16_relative_succeeds : forall q n w,
  c16_rel_hyps q n w -> exists rp, real_path osfs n w = (MOk rp, w).
Proof. exact real_path_any_succeeds. Qed.
Print Assumptions C16_relative_succeeds.

Theorem C16_relative_same_entry_bounded : forall q n w,
  c16_rel_hyps q n w -> forall rp, fst (real_path osfs n w) = MOk rp ->
  forall T, links_bounded (st_fs (w_st w)) T -> 40 * T + 2 <= walk_fuel ->
  resolve (st_fs (w_st w)) (clean n) false <> WErr ELOOP ->
  resolve (st_fs (w_st w)) rp false = resolve (st_fs (w_st w)) (clean n) false.
Proof. exact real_path_any_same_entry_bounded. Qed.
Print Assumptions C16_relative_same_entry_bounded.

(** the result is cleaned; read from the root it is absolute, cleaned and no
    proper ancestor of it is a symlink *)
Theorem C16_relative_no_symlink_parent : forall q n w,
  c16_rel_hyps q n w -> forall rp, fst (real_path osfs n w) = MOk rp ->
  cleaned rp /\ nolinkpar (st_fs (w_st w)) (clean (sep :: rp)).
Proof. exact real_path_any_nolinkpar. Qed.
Print Assumptions C16_relative_no_symlink_parent.

Theorem C16_relative_final_unresolved : forall q n w,
  c16_rel_hyps q n w -> forall rp, fst (real_path osfs n w) = MOk rp ->
  forall dcs b kd m,
    comps (sep :: n) = dcs ++ [b] ->
    resolve (st_fs (w_st w)) (kpath dcs) true = WFound kd (Dir m) ->
    clean (sep :: rp) = kpath (kd ++ [b]).
Proof. exact real_path_any_final_unresolved. Qed.
Print Assumptions C16_relative_final_unresolved.

Theorem C16_relative_missing_tail : forall q n w,
  c16_rel_hyps q n w -> forall rp, fst (real_path osfs n w) = MOk rp ->
  forall done c tail kd m,
    comps (sep :: n) = done ++ c :: tail ->
    resolve (st_fs (w_st w)) (kpath done) true = WFound kd (Dir m) ->
    st_fs (w_st w) !! (kd ++ [c]) = None ->
    clean (sep :: rp) = kpath (kd ++ c :: tail).
Proof. exact real_path_any_missing_tail. Qed.
Print Assumptions C16_relative_missing_tail.

Theorem C16_relative_shape : forall q n w,
  c16_rel_hyps q n w -> forall rp, fst (real_path osfs n w) = MOk rp ->
  comps (sep :: n) <> [] ->
  exists done tail k',
    comps (sep :: n) = done ++ tail /\ tail <> [] /\ clean (sep :: rp) = kpath (k' ++ tail) /\
    NL (st_fs (w_st w)) k' /\
    (length tail = 1 \/ st_fs (w_st w) !! (k' ++ firstn 1 tail) = None) /\
    (forall X fl r, (X <> [] \/ fl = true) ->
       walks (st_fs (w_st w)) [] (done ++ X) fl r -> walks (st_fs (w_st w)) [] (k' ++ X) fl r).
Proof. exact real_path_any_lexical_tail. Qed.
Print Assumptions C16_relative_shape.

Theorem C16_relative_fixpoint : forall p w,
  wf (st_fs (w_st w)) -> cleaned p -> nolinkpar (st_fs (w_st w)) (clean (sep :: p)) ->
  real_path osfs p w = (MOk p, w).
Proof. exact real_path_any_fixpoint. Qed.
Print Assumptions C16_relative_fixpoint.

Theorem C16_relative_idempotent : forall q n w rp,
  c16_rel_hyps q n w -> fst (real_path osfs n w) = MOk rp ->
  real_path osfs rp w = (MOk rp, w).
Proof. exact real_path_any_idempotent. Qed.
Print Assumptions C16_relative_idempotent.

Theorem C16_relative_hyps_decidable : forall q n w,
  c16_rel_hypsb q n w = true -> c16_rel_hyps q n w.
Proof. exact c16_rel_hypsb_ok. Qed.
Print Assumptions C16_relative_hyps_decidable.

Theorem C16_relative_hyps_of_abs : forall q n w, c16_hyps q n w -> c16_rel_hyps q n w.
Proof. exact c16_rel_hyps_of_abs. Qed.
Print Assumptions C16_relative_hyps_of_abs.

Theorem C16_relative_hyps_of_triggers : forall q n w,
  wf (st_fs (w_st w)) ->
  (forall t, In t (triggers (plain_cfg q) (ORealPath n) w) -> t = TrRelativeName) ->
  c16_rel_hyps q n w.
Proof. exact c16_rel_hyps_of_triggers. Qed.
Print Assumptions C16_relative_hyps_of_triggers.

(** { /d/, /d/x, /l -> ../d, /d/m -> ../../../d }, name "l/m/x" resolves to "../../../d/x" *)
Theorem C16_relative_satisfiable :
  c16_rel_hypsb xq n_rel w_rel = true /\ is_abs (clean n_rel) = false /\
  fst (real_path osfs n_rel w_rel) = MOk rp_rel /\
  (cleaned rp_rel /\ nolinkpar (st_fs (w_st w_rel)) (clean (sep :: rp_rel))) /\
  resolve (st_fs (w_st w_rel)) rp_rel false = resolve (st_fs (w_st w_rel)) (clean n_rel) false.
Proof. exact rel_sat. Qed.
Print Assumptions C16_relative_satisfiable.

(** the tree of [C16_satisfiable], name "../a/r/f" resolves to "/d/e/f" *)
Theorem C16_relative_abs_link :
  c16_rel_hypsb xq n_rel2 w_sat = true /\ is_abs (clean n_rel2) = false /\
  fst (real_path osfs n_rel2 w_sat) = MOk rp_sat /\
  resolve (st_fs (w_st w_sat)) rp_sat false = resolve (st_fs (w_st w_sat)) (clean n_rel2) false.
Proof. exact rel_sat_abs_link. Qed.
Print Assumptions C16_relative_abs_link.

(** the tree of [C16_D20_necessary], name "r/y": the relative result "d/y" names the caller's entry *)
Theorem C16_D20_covered :
  c16_rel_hypsb xq n_d20 w_d20 = true /\
  fst (real_path osfs n_d20 w_d20) = MOk rp_d20 /\
  nolinkpar (st_fs (w_st w_d20)) (clean (sep :: rp_d20)) /\
  resolve (st_fs (w_st w_d20)) rp_d20 false = resolve (st_fs (w_st w_d20)) (clean n_d20) false.
Proof. exact d20_covered. Qed.
Print Assumptions C16_D20_covered.
