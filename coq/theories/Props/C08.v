(** C08 — no modification of the base without a successful backup.

    Proved here, for EVERY pair of filesystems [base backup : fsapi] and EVERY
    world (fault plans and crash points included; no law about the two
    filesystems is assumed), by API restriction (Proofs/Footprint.v): [ro base]
    is [base] with every mutating method (OpenFile, Create, Mkdir, MkdirAll,
    Remove, RemoveAll, Rename, Chmod, Chown, Lchown, Chtimes, Symlink) replaced
    by a trap that stops the whole computation.  An equation
    [f (ro base) backup w = f base backup w] therefore says that [f], started
    in [w], never invokes a mutating method of the base.

    (a) [C08_*_never_mutates_base]: resolving a path ([real_path],
        [real_path_found]) and taking a backup ([backup_dirs], [try_backup])
        never invoke a mutating method of the base.
    (b) [C08_<op>]: for Create, Mkdir, MkdirAll, OpenFile with a flag other
        than O_RDONLY, Remove, Chmod, Chown, Lchown, Chtimes, Symlink: if the
        backup step of the operation fails (with an error or at a crash point)
        the operation returns that very failure in exactly the world the failed
        backup left - nothing at all is called afterwards - and the whole
        failing operation runs identically on [ro base]: between its start and
        its return no mutating method of the base was invoked.
        [fail_stop] is spelled out by [C08_fail_stop_meaning].
        [C08_rename]: the same for each of Rename's two backups (the new name
        is backed up first).
        [C08_removeall_*]: RemoveAll is a read-only walk of the base plus one
        [b_remove] per entry; no failure of a [b_remove] (nor of the
        [try_backup] inside it) is caught or ignored: the first one ends
        RemoveAll with an error in the world that failure left.

    NOT proved here: anything about what the methods of [base]/[backup] do
    (in particular that a *successful* backup is a faithful copy: C01/C02);
    which open handles are written to ([hwrite]/[hclose] are global functions
    of the model, not [fsapi] methods: in the model text the only writes of
    [try_backup] go to the handle returned by [backup.OpenFile] inside
    [write_file], the handle from [base.Open] is only read and closed - this is
    read off the definitions, not a theorem); RemoveAll is fail-stop per entry,
    entries removed before the failing one stay removed (they were backed up). *)
From stdpp Require Import gmap.
From BFS Require Import Backup.History Proofs.Footprint.

(** ** (a) *)

Theorem C08_real_path_never_mutates_base : forall base name w,
  real_path (ro base) name w = real_path base name w.
Proof. exact real_path_ro. Qed.
Print Assumptions C08_real_path_never_mutates_base.

Theorem C08_real_path_found_never_mutates_base : forall base name w,
  real_path_found (ro base) name w = real_path_found base name w.
Proof. exact real_path_found_ro. Qed.
Print Assumptions C08_real_path_found_never_mutates_base.

Theorem C08_backup_dirs_never_mutates_base : forall base backup d w,
  backup_dirs (ro base) backup d w = backup_dirs base backup d w.
Proof. exact backup_dirs_ro. Qed.
Print Assumptions C08_backup_dirs_never_mutates_base.

Theorem C08_try_backup_never_mutates_base : forall base backup p w,
  try_backup (ro base) backup p w = try_backup base backup p w.
Proof. exact try_backup_ro. Qed.
Print Assumptions C08_try_backup_never_mutates_base.

(** the methods [try_backup] uses at all: of the base Lstat, Readlink, Open; of
    the backup Lstat, MkdirAll, Chmod, Chtimes, Chown, OpenFile, Symlink,
    Lchown, Remove (never RemoveAll, Rename, Create, Mkdir) *)
Theorem C08_try_backup_methods : forall base backup p w,
  try_backup (only_methods ms_backup_base base) (only_methods ms_backup_backup backup) p w
  = try_backup base backup p w.
Proof. exact try_backup_only. Qed.
Print Assumptions C08_try_backup_methods.

(** ** (b) *)

Theorem C08_fail_stop_meaning : forall (A : Type) base backup name (op : fsapi -> fsapi -> M A),
  fail_stop base backup name op <->
  (forall w rn w1 w2,
     real_path base name w = (MOk rn, w1) ->
     (forall e, try_backup base backup rn w1 = (MErr e, w2) ->
        op base backup w = (MErr e, w2) /\ op (ro base) backup w = (MErr e, w2)) /\
     (try_backup base backup rn w1 = (MHalt, w2) ->
        op base backup w = (MHalt, w2) /\ op (ro base) backup w = (MHalt, w2))).
Proof. intros A base backup name op. unfold fail_stop. reflexivity. Qed.
Print Assumptions C08_fail_stop_meaning.

Theorem C08_create : forall base backup name,
  fail_stop base backup name (fun b bk => b_create b bk name).
Proof. exact b_create_fail_stop. Qed.
Print Assumptions C08_create.

Theorem C08_mkdir : forall base backup name perm,
  fail_stop base backup name (fun b bk => b_mkdir b bk name perm).
Proof. exact b_mkdir_fail_stop. Qed.
Print Assumptions C08_mkdir.

Theorem C08_mkdirall : forall base backup name perm,
  fail_stop base backup name (fun b bk => b_mkdirall b bk name perm).
Proof. exact b_mkdirall_fail_stop. Qed.
Print Assumptions C08_mkdirall.

Theorem C08_openfile_writing : forall base backup name fl perm, fl <> 0%N ->
  fail_stop base backup name (fun b bk => b_openfile b bk name fl perm).
Proof. exact b_openfile_fail_stop. Qed.
Print Assumptions C08_openfile_writing.

Theorem C08_remove : forall base backup name,
  fail_stop base backup name (fun b bk => b_remove b bk name).
Proof. exact b_remove_fail_stop. Qed.
Print Assumptions C08_remove.

Theorem C08_chmod : forall base backup name mode,
  fail_stop base backup name (fun b bk => b_chmod b bk name mode).
Proof. exact b_chmod_fail_stop. Qed.
Print Assumptions C08_chmod.

Theorem C08_chown : forall base backup name uid gid,
  fail_stop base backup name (fun b bk => b_chown b bk name uid gid).
Proof. exact b_chown_fail_stop. Qed.
Print Assumptions C08_chown.

Theorem C08_lchown : forall base backup name uid gid,
  fail_stop base backup name (fun b bk => b_lchown b bk name uid gid).
Proof. exact b_lchown_fail_stop. Qed.
Print Assumptions C08_lchown.

Theorem C08_chtimes : forall base backup name t,
  fail_stop base backup name (fun b bk => b_chtimes b bk name t).
Proof. exact b_chtimes_fail_stop. Qed.
Print Assumptions C08_chtimes.

Theorem C08_symlink : forall base backup oldname newname,
  fail_stop base backup newname (fun b bk => b_symlink b bk oldname newname).
Proof. exact b_symlink_fail_stop. Qed.
Print Assumptions C08_symlink.

Theorem C08_rename : forall base backup oldname newname w ro_ w1 rn w2,
  real_path base oldname w = (MOk ro_, w1) ->
  real_path base newname w1 = (MOk rn, w2) ->
  (forall r w3, try_backup base backup rn w2 = (r, w3) -> r <> MOk tt ->
     b_rename base backup oldname newname w = (r, w3) /\
     b_rename (ro base) backup oldname newname w = (r, w3)) /\
  (forall w3 r w4, try_backup base backup rn w2 = (MOk tt, w3) ->
     try_backup base backup ro_ w3 = (r, w4) -> r <> MOk tt ->
     b_rename base backup oldname newname w = (r, w4) /\
     b_rename (ro base) backup oldname newname w = (r, w4)).
Proof. exact b_rename_fail_stop. Qed.
Print Assumptions C08_rename.

(** RemoveAll *)
Theorem C08_removeall_structure : forall base backup name w,
  b_removeall base backup name w = removeall_gen base (b_remove base backup) name w.
Proof. exact b_removeall_as_gen. Qed.
Print Assumptions C08_removeall_structure.

Theorem C08_removeall_walk_never_mutates : forall wb rm name w,
  removeall_gen (ro wb) rm name w = removeall_gen wb rm name w.
Proof. exact removeall_gen_ro. Qed.
Print Assumptions C08_removeall_walk_never_mutates.

Theorem C08_removeall_remove_fail_stop : forall wb rm name w,
  stops_like (removeall_gen wb rm name w)
             (removeall_gen wb (fun n => halt_on_err (rm n)) name w).
Proof. exact removeall_gen_fail_stop. Qed.
Print Assumptions C08_removeall_remove_fail_stop.

Theorem C08_removeall_backup_fail_stop : forall base backup name w,
  stops_like (b_removeall base backup name w)
             (removeall_gen base
                (remove_with base (fun p => halt_on_err (try_backup base backup p))) name w).
Proof. exact b_removeall_backup_fail_stop. Qed.
Print Assumptions C08_removeall_backup_fail_stop.
