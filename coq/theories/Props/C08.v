From BFS Require Import Backup.History.
Example placeholder_C08 : True. Proof. exact I. Qed.
