(** C03 — BackupFS is transparent: read-only operations are pure
    pass-throughs; a mutating operation is the base's own operation on the
    resolved name, run after the backup step, which does not change what the
    base shows.

    THE READ-ONLY HALF (first part of this file).

    Proved here, for EVERY [base backup : fsapi] and EVERY world (no law about
    the filesystems assumed), via Proofs/Footprint.v:
    - [C03_*_delegates]: Lstat, Stat and Readlink are exactly one call of the
      same method of the base with the unresolved name; Open and OpenFile with
      flag O_RDONLY (= 0, the model's and the Go source's test is
      [flag == os.O_RDONLY]) are exactly [base.OpenFile(name, O_RDONLY, 0)].
      Result and resulting world are those of that single call: BackupFS
      itself reads and writes nothing else - not the backup filesystem, not
      [baseInfos] - and does not resolve the path.
    - [C03_*_restricted]: the same as restriction statements: the operations
      run identically when every mutating method of the base traps, and (for
      Open/OpenFile, which are the only ones handed the backup filesystem at
      all) when EVERY method of the backup traps ([trap_api]).  Because Open
      is routed through the base's OpenFile method, the base restriction used
      there is [ro0] (OpenFile allowed with flag 0 only), not [ro].
    - [C03_infos_unchanged]: hence [w_infos] is unchanged by a read-only
      operation whenever the base's own four methods do not change it.

    NOT proved here: what the base's Lstat/Stat/Readlink/OpenFile do (an
    arbitrary [fsapi] may do anything inside its methods); the reads made
    afterwards on the returned handle ([hread] etc. are global functions on the
    handle returned by the base, BackupFS does not wrap it).

    THE MUTATING HALF (second part of this file, via Proofs/Transparent.v).

    (B1) Structure - EVERY [base backup : fsapi], EVERY world, no law:
    [C03_X_is_base] for X = create, mkdir, mkdirall, openfile (flag <> 0),
    remove, chmod, chown, lchown, chtimes, symlink, and [C03_rename_is_base]:
    if the name resolves to [rn] and the backup step succeeds, leaving the
    world [w2], then [b_X base backup n args w = a_X base rn args w2] - the
    operation IS the base's own method, called once, on the resolved name, in
    the world the backup step left; result and resulting world are those of
    that call.  [C03_mutating_structure] / [C03_rename_structure] give every
    course of [step] (the observable operation: Create/OpenFile write the data
    through the handle and close it): resolution fails -> that failure; the
    backup fails -> that failure, in the world the backup left, the base
    method never called (also Proofs/Footprint.v, C08); otherwise
    [step_direct base] - the same operation issued directly on the base - with
    the resolved name(s).

    (B2) From the laws of Spec/Laws.v (any two filesystems satisfying them),
    in a state satisfying the transaction invariant, for RESOLVED names (no
    symlink among the parents: [real_path] is the identity,
    [real_path_resolved_spec]) and the operations of [covered]:
    - [C03_mutating_transparent] (Create, OpenFile+write, Mkdir, MkdirAll,
      Remove, Symlink, Chmod, Chown, Lchown, Chtimes) and
      [C03_rename_transparent] (source without children in the view): there is
      a world [w2] - the one the backup step leaves - with THE SAME BASE VIEW
      as [w], the same crash point and fault plan, satisfying the invariant
      again, bookkeeping added on the chain(s) from the root to the name(s)
      only, such that either the backup step failed (possible only if an
      existing proper ancestor of a name is not a directory) and the operation
      returns that error in [w2], base view unchanged; or
      [step base backup o w = step_direct base o w2]: success or failure,
      returned data and resulting base are those of the operation issued
      directly on the base in a state showing the same view.  The backup view
      and the bookkeeping are not touched by the call on the base.
    - [C03_removeall_absent]: RemoveAll of a path that does not exist returns
      nil and changes nothing (base view, backup view, bookkeeping, crash and
      fault plan).  [C03_removeall_leaf]: RemoveAll of a file or symlink is the
      base's Remove after the backup step (which cannot fail); it succeeds,
      the entry is gone, and the base's own RemoveAll issued directly in [w]
      succeeds as well and leaves the same view.  [C03_removeall_frame]:
      RemoveAll of anything but the root changes the base view at and below
      the name only, only removes entries, keeps the invariant.
    - [C03_metadata_same_view], [C03_remove_same_view]: where the laws fix
      what the base does (Chmod/Chown/Lchown/Chtimes of an existing entry;
      Remove), the comparison is with the direct operation IN THE SAME world
      [w]: same success or failure ("not found" for a missing entry on both
      sides), equal resulting base views (Remove: up to directory timestamps).
    - "exactly the entry the caller named": [C03_affects_only_named]: after a
      covered mutating operation the base view differs from the one before at
      the named entry only (Rename: the two names; MkdirAll: the chain from
      the root to the name, i.e. the directories it may create; RemoveAll: at
      and below the name) - directory timestamps aside, which
      [store_eqv_except] ignores; never a sibling, never a parent.
      [C03_direct_framed] is the same fact about the base alone.
    (B3) [C03_mutating_concrete], [C03_mutating_documented]: all of (B2),
    closed (no law assumed), for the generic layering [gcfg pa pb] and the
    documented one [dcfg pa h] (backup location inside the base tree, hidden
    by HiddenFS); [C03_mutating_transparent_concrete] spells the central
    statement out for the generic layering.

    STILL ON THE TWIN-RUN ORACLE (correspondence check), not proved here:
    - names with a symlink among the parents: (B1) applies ([rn] is whatever
      [real_path] returns) but (B2) is stated for resolved names; that [rn]
      names the entry the OS would reach is C16 (proved for the plain OS
      filesystem, not at the law level), that the backup step leaves the base
      view alone for such names is not stated;
    - operations that follow a symlink in the FINAL component (Create,
      OpenFile, Chmod, Chown, Chtimes on a symlink: recorded finding D14) are
      excluded by [covered]; Rename of a directory with entries (D12),
      Remove/RemoveAll of the root (K6) likewise;
    - error classes: when the backup step fails (an ancestor is a file) the
      theorems say BackupFS returns the backup step's error; that the direct
      operation fails too, and with which errno, is not derivable from the
      laws;
    - for Create, OpenFile, Mkdir, MkdirAll, Symlink, Rename the comparison is
      with the direct operation in [w2] (same base view, different backup
      content): the frame laws do not say that a filesystem's behaviour is a
      function of its view, so "the same as in [w] itself" rests on the oracle
      for these (it is proved for the metadata operations and Remove);
    - what the base does on the handle returned by Create/OpenFile beyond the
      frame (content written) is the base's business ([law_user_handle]). *)
From stdpp Require Import gmap.
From BFS Require Import Backup.History Proofs.Footprint.

Theorem C03_lstat_delegates : forall base n w, b_lstat base n w = a_lstat base n w.
Proof. exact b_lstat_delegates. Qed.
Print Assumptions C03_lstat_delegates.

Theorem C03_stat_delegates : forall base n w, b_stat base n w = a_stat base n w.
Proof. exact b_stat_delegates. Qed.
Print Assumptions C03_stat_delegates.

Theorem C03_readlink_delegates : forall base n w, b_readlink base n w = a_readlink base n w.
Proof. exact b_readlink_delegates. Qed.
Print Assumptions C03_readlink_delegates.

Theorem C03_open_delegates : forall base backup n w,
  b_open base backup n w = a_openfile base n 0 0 w.
Proof. exact b_open_delegates. Qed.
Print Assumptions C03_open_delegates.

Theorem C03_openfile_rdonly_delegates : forall base backup n perm w,
  b_openfile base backup n 0 perm w = a_openfile base n 0 0 w.
Proof. exact b_openfile_rdonly_delegates. Qed.
Print Assumptions C03_openfile_rdonly_delegates.

Theorem C03_lstat_restricted : forall base n w, b_lstat (ro base) n w = b_lstat base n w.
Proof. exact b_lstat_ro. Qed.
Print Assumptions C03_lstat_restricted.

Theorem C03_stat_restricted : forall base n w, b_stat (ro base) n w = b_stat base n w.
Proof. exact b_stat_ro. Qed.
Print Assumptions C03_stat_restricted.

Theorem C03_readlink_restricted : forall base n w, b_readlink (ro base) n w = b_readlink base n w.
Proof. exact b_readlink_ro. Qed.
Print Assumptions C03_readlink_restricted.

Theorem C03_open_restricted : forall base backup n w,
  b_open (ro0 base) trap_api n w = b_open base backup n w.
Proof. exact b_open_ro. Qed.
Print Assumptions C03_open_restricted.

Theorem C03_openfile_rdonly_restricted : forall base backup n perm w,
  b_openfile (ro0 base) trap_api n 0 perm w = b_openfile base backup n 0 perm w.
Proof. exact b_openfile_rdonly_ro. Qed.
Print Assumptions C03_openfile_rdonly_restricted.

(** only the one method is used *)
Theorem C03_open_only_openfile : forall base backup n w,
  b_open (only_methods (ms_one MOpenFile) base) trap_api n w = b_open base backup n w.
Proof. exact b_open_only. Qed.
Print Assumptions C03_open_only_openfile.

Theorem C03_infos_unchanged : forall base backup : fsapi,
  (forall p w r w', a_lstat base p w = (r, w') -> w_infos w' = w_infos w) ->
  (forall p w r w', a_stat base p w = (r, w') -> w_infos w' = w_infos w) ->
  (forall p w r w', a_readlink base p w = (r, w') -> w_infos w' = w_infos w) ->
  (forall p w r w', a_openfile base p 0 0 w = (r, w') -> w_infos w' = w_infos w) ->
  (forall n w r w', b_lstat base n w = (r, w') -> w_infos w' = w_infos w) /\
  (forall n w r w', b_stat base n w = (r, w') -> w_infos w' = w_infos w) /\
  (forall n w r w', b_readlink base n w = (r, w') -> w_infos w' = w_infos w) /\
  (forall n w r w', b_open base backup n w = (r, w') -> w_infos w' = w_infos w) /\
  (forall n perm w r w', b_openfile base backup n 0 perm w = (r, w') -> w_infos w' = w_infos w).
Proof. exact readonly_infos_unchanged. Qed.
Print Assumptions C03_infos_unchanged.

(* ------------------------------------------------------------------ *)
(** * The mutating half *)
From BFS Require Import Spec.CopySpecs Proofs.BackupTry Proofs.Transparent.

(** ** (B1) structure: every [base], [backup], world *)

Theorem C03_create_is_base : forall base backup n rn w w2, backed_up base backup n rn w w2 ->
  b_create base backup n w = a_create base rn w2.
Proof. exact b_create_is_base. Qed.
Print Assumptions C03_create_is_base.

Theorem C03_mkdir_is_base : forall base backup n perm rn w w2, backed_up base backup n rn w w2 ->
  b_mkdir base backup n perm w = a_mkdir base rn perm w2.
Proof. exact b_mkdir_is_base. Qed.
Print Assumptions C03_mkdir_is_base.

Theorem C03_mkdirall_is_base : forall base backup n perm rn w w2, backed_up base backup n rn w w2 ->
  b_mkdirall base backup n perm w = a_mkdirall base rn perm w2.
Proof. exact b_mkdirall_is_base. Qed.
Print Assumptions C03_mkdirall_is_base.

Theorem C03_openfile_is_base : forall base backup n fl perm rn w w2, fl <> 0%N ->
  backed_up base backup n rn w w2 ->
  b_openfile base backup n fl perm w = a_openfile base rn fl perm w2.
Proof. exact b_openfile_is_base. Qed.
Print Assumptions C03_openfile_is_base.

Theorem C03_remove_is_base : forall base backup n rn w w2, backed_up base backup n rn w w2 ->
  b_remove base backup n w = a_remove base rn w2.
Proof. exact b_remove_is_base. Qed.
Print Assumptions C03_remove_is_base.

Theorem C03_chmod_is_base : forall base backup n mode rn w w2, backed_up base backup n rn w w2 ->
  b_chmod base backup n mode w = a_chmod base rn mode w2.
Proof. exact b_chmod_is_base. Qed.
Print Assumptions C03_chmod_is_base.

Theorem C03_chown_is_base : forall base backup n u g rn w w2, backed_up base backup n rn w w2 ->
  b_chown base backup n u g w = a_chown base rn u g w2.
Proof. exact b_chown_is_base. Qed.
Print Assumptions C03_chown_is_base.

Theorem C03_lchown_is_base : forall base backup n u g rn w w2, backed_up base backup n rn w w2 ->
  b_lchown base backup n u g w = a_lchown base rn u g w2.
Proof. exact b_lchown_is_base. Qed.
Print Assumptions C03_lchown_is_base.

Theorem C03_chtimes_is_base : forall base backup n t rn w w2, backed_up base backup n rn w w2 ->
  b_chtimes base backup n t w = a_chtimes base rn t w2.
Proof. exact b_chtimes_is_base. Qed.
Print Assumptions C03_chtimes_is_base.

Theorem C03_symlink_is_base : forall base backup t n rn w w2, backed_up base backup n rn w w2 ->
  b_symlink base backup t n w = a_symlink base t rn w2.
Proof. exact b_symlink_is_base. Qed.
Print Assumptions C03_symlink_is_base.

Theorem C03_rename_is_base : forall base backup o n ro rn w w4, backed_up2 base backup o n ro rn w w4 ->
  b_rename base backup o n w = a_rename base ro rn w4.
Proof. exact b_rename_is_base. Qed.
Print Assumptions C03_rename_is_base.

(** every course of a single-name mutating operation ([mut1]: Create,
    OpenFile with a flag other than 0, Mkdir, MkdirAll, Remove, Symlink, Chmod,
    Chown, Lchown, Chtimes), as observed by [step] *)
Theorem C03_mutating_structure : forall base backup o w, mut1 o ->
  step base backup o w =
  match real_path base (op_name o) w with
  | (MOk rn, w1) =>
      match try_backup base backup rn w1 with
      | (MOk _, w2) => step_direct base (with_name o rn) w2
      | (MErr e, w2) => (MErr e, w2)
      | (MHalt, w2) => (MHalt, w2)
      end
  | (MErr e, w1) => (MErr e, w1)
  | (MHalt, w1) => (MHalt, w1)
  end.
Proof. exact step_mut1_cases. Qed.
Print Assumptions C03_mutating_structure.

Theorem C03_rename_structure : forall base backup o n w,
  step base backup (ORename o n) w =
  match real_path base o w with
  | (MOk ro, w1) =>
      match real_path base n w1 with
      | (MOk rn, w2) =>
          match try_backup base backup rn w2 with
          | (MOk _, w3) =>
              match try_backup base backup ro w3 with
              | (MOk _, w4) => step_direct base (ORename ro rn) w4
              | (MErr e, w4) => (MErr e, w4)
              | (MHalt, w4) => (MHalt, w4)
              end
          | (MErr e, w3) => (MErr e, w3)
          | (MHalt, w3) => (MHalt, w3)
          end
      | (MErr e, w2) => (MErr e, w2)
      | (MHalt, w2) => (MHalt, w2)
      end
  | (MErr e, w1) => (MErr e, w1)
  | (MHalt, w1) => (MHalt, w1)
  end.
Proof. exact step_rename_cases. Qed.
Print Assumptions C03_rename_structure.

(** ** (B2) from the laws, for resolved names, under the invariant *)

(** the central statement, spelled out ([mut1_transparent_stmt]) *)
Theorem C03_mutating_transparent :
  forall base backup Vb Vk tnb tnk accb acck rhb rhk whb whk hid anc B0,
  base_laws base Vb Vk tnb accb rhb whb hid anc ->
  backup_laws backup Vb Vk tnk acck rhk whk ->
  links_ok tnb tnk accb acck B0 -> all_small B0 -> swf B0 ->
  forall o w, Inv Vb Vk B0 w -> covered Vb o w -> mut1 o ->
  exists w2 r w',
    (* the world the backup step leaves *)
    Vb w2 = Vb w /\ w_crash w2 = w_crash w /\ w_faults w2 = w_faults w /\ Inv Vb Vk B0 w2 /\
    infos_ext w w2 (cands (op_name o)) /\
    (* the operation through BackupFS *)
    step base backup o w = (r, w') /\ r <> MHalt /\
    swf (Vb w') /\ store_eqv_except (op_frame o) (Vb w') (Vb w) /\ same_rest Vk w2 w' /\
    (((exists e, r = MErr e) /\ w' = w2 /\ ~ all_dirs Vb w (op_name o)) \/
     step_direct base o w2 = (r, w')).
Proof. exact mut1_transparent. Qed.
Print Assumptions C03_mutating_transparent.

Theorem C03_rename_transparent :
  forall base backup Vb Vk tnb tnk accb acck rhb rhk whb whk hid anc B0,
  base_laws base Vb Vk tnb accb rhb whb hid anc ->
  backup_laws backup Vb Vk tnk acck rhk whk ->
  links_ok tnb tnk accb acck B0 -> all_small B0 -> swf B0 ->
  rename_transparent_stmt base backup Vb Vk B0.
Proof. exact rename_transparent. Qed.
Print Assumptions C03_rename_transparent.

(** "RemoveAll of a path that does not exist succeeds" - and changes nothing *)
Theorem C03_removeall_absent :
  forall base backup Vb Vk tnb accb rhb whb hid anc B0,
  base_laws base Vb Vk tnb accb rhb whb hid anc ->
  forall w n, Inv Vb Vk B0 w -> snolinkpar (Vb w) n -> Vb w !! n = None ->
  exists w', b_removeall base backup n w = (MOk tt, w') /\
             step base backup (ORemoveAll n) w = (MOk ObUnit, w') /\ same_all Vb Vk w w'.
Proof. exact removeall_absent_transparent. Qed.
Print Assumptions C03_removeall_absent.

Theorem C03_removeall_leaf :
  forall base backup Vb Vk tnb tnk accb acck rhb rhk whb whk hid anc B0,
  base_laws base Vb Vk tnb accb rhb whb hid anc ->
  backup_laws backup Vb Vk tnk acck rhk whk ->
  links_ok tnb tnk accb acck B0 -> all_small B0 -> swf B0 ->
  removeall_leaf_stmt base backup Vb Vk B0.
Proof. exact removeall_leaf_transparent. Qed.
Print Assumptions C03_removeall_leaf.

Theorem C03_removeall_frame :
  forall base backup Vb Vk tnb tnk accb acck rhb rhk whb whk hid anc B0,
  base_laws base Vb Vk tnb accb rhb whb hid anc ->
  backup_laws backup Vb Vk tnk acck rhk whk ->
  links_ok tnb tnk accb acck B0 -> all_small B0 -> swf B0 ->
  base_laws2 base Vb Vk tnb accb rhb whb ->
  forall w n, Inv Vb Vk B0 w -> snolinkpar (Vb w) n -> n <> s_root ->
  exists r w', step base backup (ORemoveAll n) w = (r, w') /\ r <> MHalt /\
               outside n (Vb w') (Vb w) /\ shrinks (Vb w) (Vb w') /\ Inv Vb Vk B0 w' /\
               infos_ext_in w w' (below_chain n).
Proof. exact removeall_frame. Qed.
Print Assumptions C03_removeall_frame.

(** "An operation affects exactly the entry the caller named, never a parent
    or sibling" ([changes_only]: [store_eqv_except (op_frame o)], for
    RemoveAll [outside n]) *)
Theorem C03_affects_only_named :
  forall base backup Vb Vk tnb tnk accb acck rhb rhk whb whk hid anc B0,
  base_laws base Vb Vk tnb accb rhb whb hid anc ->
  backup_laws backup Vb Vk tnk acck rhk whk ->
  links_ok tnb tnk accb acck B0 -> all_small B0 -> swf B0 ->
  base_laws2 base Vb Vk tnb accb rhb whb ->
  forall o w r w', Inv Vb Vk B0 w -> covered Vb o w -> mutating o ->
  step base backup o w = (r, w') ->
  r <> MHalt /\ swf (Vb w') /\ changes_only o (Vb w') (Vb w).
Proof. exact covered_frame. Qed.
Print Assumptions C03_affects_only_named.

(** the same about the base alone (no BackupFS) *)
Theorem C03_direct_framed :
  forall base Vb Vk tnb accb rhb whb hid anc,
  base_laws base Vb Vk tnb accb rhb whb hid anc ->
  direct_framed_stmt base Vb Vk.
Proof. exact direct_framed. Qed.
Print Assumptions C03_direct_framed.

(** Chmod, Chown, Lchown, Chtimes of an existing entry: the same as the direct
    operation in the same world *)
Theorem C03_metadata_same_view :
  forall base backup Vb Vk tnb tnk accb acck rhb rhk whb whk hid anc B0,
  base_laws base Vb Vk tnb accb rhb whb hid anc ->
  backup_laws backup Vb Vk tnk acck rhk whk ->
  links_ok tnb tnk accb acck B0 -> all_small B0 -> swf B0 ->
  forall o w nd, Inv Vb Vk B0 w -> covered Vb o w -> meta_op o -> Vb w !! op_name o = Some nd ->
  exists w' wd,
    step base backup o w = (MOk ObUnit, w') /\ step_direct base o w = (MOk ObUnit, wd) /\
    Vb w' = Vb wd /\ Vb w' = <[ op_name o := meta_result o nd ]> (Vb w).
Proof. exact meta_op_same. Qed.
Print Assumptions C03_metadata_same_view.

(** Remove: the same as the direct operation in the same world *)
Theorem C03_remove_same_view :
  forall base backup Vb Vk tnb tnk accb acck rhb rhk whb whk hid anc B0,
  base_laws base Vb Vk tnb accb rhb whb hid anc ->
  backup_laws backup Vb Vk tnk acck rhk whk ->
  links_ok tnb tnk accb acck B0 -> all_small B0 -> swf B0 ->
  remove_same_stmt base backup Vb Vk B0.
Proof. exact remove_same. Qed.
Print Assumptions C03_remove_same_view.

(** all of (B2) at once ([c03_mutating_stmt]: the conjunction of the nine
    statements above) *)
Theorem C03_mutating_laws :
  forall base backup Vb Vk tnb tnk accb acck rhb rhk whb whk hid anc B0,
  base_laws base Vb Vk tnb accb rhb whb hid anc -> base_laws2 base Vb Vk tnb accb rhb whb ->
  backup_laws backup Vb Vk tnk acck rhk whk ->
  links_ok tnb tnk accb acck B0 -> all_small B0 -> swf B0 ->
  c03_mutating_stmt base backup Vb Vk B0.
Proof. exact c03_mutating_spec. Qed.
Print Assumptions C03_mutating_laws.

(** ** (B3) closed: the two concrete layerings *)
From BFS Require Import Spec.ViewOsfs Proofs.LawsOsfs Spec.ViewHidden Proofs.LawsHidden.

Theorem C03_mutating_concrete : forall pa pb,
  prefix_ok pa -> prefix_ok pb -> disjoint_prefixes pa pb ->
  forall B0, links_ok clean clean (acc_p pa) (acc_p pb) B0 -> all_small B0 -> swf B0 ->
  c03_mutating_stmt (cfg_base (gcfg pa pb)) (cfg_backup (gcfg pa pb)) (Vp pa) (Vp pb) B0.
Proof. exact c03_mutating_concrete. Qed.
Print Assumptions C03_mutating_concrete.

Theorem C03_mutating_documented : forall pa h,
  prefix_ok pa -> hidden_ok h ->
  forall B0, links_ok clean clean (acc_h pa h) (acc_p (pk_h pa h)) B0 -> all_small B0 -> swf B0 ->
  c03_mutating_stmt (cfg_base (dcfg pa h)) (cfg_backup (dcfg pa h)) (VpH pa h) (Vp (pk_h pa h)) B0.
Proof. exact c03_mutating_documented. Qed.
Print Assumptions C03_mutating_documented.

(** the central statement for the generic layering, spelled out: no law left
    as a hypothesis *)
Theorem C03_mutating_transparent_concrete : forall pa pb,
  prefix_ok pa -> prefix_ok pb -> disjoint_prefixes pa pb ->
  forall B0, links_ok clean clean (acc_p pa) (acc_p pb) B0 -> all_small B0 -> swf B0 ->
  forall o w, Inv (Vp pa) (Vp pb) B0 w -> covered (Vp pa) o w -> mut1 o ->
  exists w2 r w',
    Vp pa w2 = Vp pa w /\ w_crash w2 = w_crash w /\ w_faults w2 = w_faults w /\
    Inv (Vp pa) (Vp pb) B0 w2 /\ infos_ext w w2 (cands (op_name o)) /\
    step (cfg_base (gcfg pa pb)) (cfg_backup (gcfg pa pb)) o w = (r, w') /\ r <> MHalt /\
    swf (Vp pa w') /\ store_eqv_except (op_frame o) (Vp pa w') (Vp pa w) /\ same_rest (Vp pb) w2 w' /\
    (((exists e, r = MErr e) /\ w' = w2 /\ ~ all_dirs (Vp pa) w (op_name o)) \/
     step_direct (cfg_base (gcfg pa pb)) o w2 = (r, w')).
Proof.
  intros pa pb Ha Hb Hd B0 Hl Hs Hwf.
  exact (proj1 (c03_mutating_concrete pa pb Ha Hb Hd B0 Hl Hs Hwf)).
Qed.
Print Assumptions C03_mutating_transparent_concrete.

Theorem C03_mutating_transparent_documented : forall pa h,
  prefix_ok pa -> hidden_ok h ->
  forall B0, links_ok clean clean (acc_h pa h) (acc_p (pk_h pa h)) B0 -> all_small B0 -> swf B0 ->
  forall o w, Inv (VpH pa h) (Vp (pk_h pa h)) B0 w -> covered (VpH pa h) o w -> mut1 o ->
  exists w2 r w',
    VpH pa h w2 = VpH pa h w /\ w_crash w2 = w_crash w /\ w_faults w2 = w_faults w /\
    Inv (VpH pa h) (Vp (pk_h pa h)) B0 w2 /\ infos_ext w w2 (cands (op_name o)) /\
    step (cfg_base (dcfg pa h)) (cfg_backup (dcfg pa h)) o w = (r, w') /\ r <> MHalt /\
    swf (VpH pa h w') /\ store_eqv_except (op_frame o) (VpH pa h w') (VpH pa h w) /\
    same_rest (Vp (pk_h pa h)) w2 w' /\
    (((exists e, r = MErr e) /\ w' = w2 /\ ~ all_dirs (VpH pa h) w (op_name o)) \/
     step_direct (cfg_base (dcfg pa h)) o w2 = (r, w')).
Proof.
  intros pa h Ha Hh B0 Hl Hs Hwf.
  exact (proj1 (c03_mutating_documented pa h Ha Hh B0 Hl Hs Hwf)).
Qed.
Print Assumptions C03_mutating_transparent_documented.

(* ------------------------------------------------------------------ *)
(** ** the layering of the constructors New / NewWithFS
    [ncfg q = mkConfig None [q] q]: HiddenFS directly over the OS filesystem
    (no PrefixFS), the backup location [q] - an absolute cleaned path other
    than "/" - hidden from the base and the root of the backup filesystem.
    The base view [V0H q] (Spec/ViewRoot.v) is the WHOLE filesystem except the
    location and what lies below it; it shows link targets as stored ([tn_0],
    the identity: without PrefixFS nothing cleans them).  The root "/" is a
    proper ancestor of the location ([anc_h q]): it cannot be removed (EBUSY)
    or renamed.  Proofs/LawsNew.v. *)
From BFS Require Import Spec.ViewHidden Spec.ViewRoot Proofs.LawsNew.

Theorem C03_mutating_new : forall q,
  hidden_ok q ->
  forall B0, links_ok tn_0 clean (acc_0 q) (acc_p q) B0 -> all_small B0 -> swf B0 ->
  c03_mutating_stmt (cfg_base (ncfg q)) (cfg_backup (ncfg q)) (V0H q) (Vp q) B0.
Proof. exact c03_mutating_new. Qed.
Print Assumptions C03_mutating_new.

Theorem C03_mutating_transparent_new : forall q, hidden_ok q ->
  forall B0, links_ok tn_0 clean (acc_0 q) (acc_p q) B0 -> all_small B0 -> swf B0 ->
  forall o w, Inv (V0H q) (Vp q) B0 w -> covered (V0H q) o w -> mut1 o ->
  exists w2 r w',
    V0H q w2 = V0H q w /\ w_crash w2 = w_crash w /\ w_faults w2 = w_faults w /\
    Inv (V0H q) (Vp q) B0 w2 /\ infos_ext w w2 (cands (op_name o)) /\
    step (cfg_base (ncfg q)) (cfg_backup (ncfg q)) o w = (r, w') /\ r <> MHalt /\
    swf (V0H q w') /\ store_eqv_except (op_frame o) (V0H q w') (V0H q w) /\
    same_rest (Vp q) w2 w' /\
    (((exists e, r = MErr e) /\ w' = w2 /\ ~ all_dirs (V0H q) w (op_name o)) \/
     step_direct (cfg_base (ncfg q)) o w2 = (r, w')).
Proof. exact c03_mutating_transparent_new. Qed.
Print Assumptions C03_mutating_transparent_new.
