From BFS Require Import Backup.History.
Example placeholder_C03 : True. Proof. exact I. Qed.
