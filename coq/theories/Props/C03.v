(** C03 — read-only operations are pure pass-throughs.

    Proved here, for EVERY [base backup : fsapi] and EVERY world (no law about
    the filesystems assumed), via Proofs/Footprint.v:
    - [C03_*_delegates]: Lstat, Stat and Readlink are exactly one call of the
      same method of the base with the unresolved name; Open and OpenFile with
      flag O_RDONLY (= 0, the model's and the Go source's test is
      [flag == os.O_RDONLY]) are exactly [base.OpenFile(name, O_RDONLY, 0)].
      Result and resulting world are those of that single call: BackupFS
      itself reads and writes nothing else - not the backup filesystem, not
      [baseInfos] - and does not resolve the path.
    - [C03_*_restricted]: the same as restriction statements: the operations
      run identically when every mutating method of the base traps, and (for
      Open/OpenFile, which are the only ones handed the backup filesystem at
      all) when EVERY method of the backup traps ([trap_api]).  Because Open
      is routed through the base's OpenFile method, the base restriction used
      there is [ro0] (OpenFile allowed with flag 0 only), not [ro].
    - [C03_infos_unchanged]: hence [w_infos] is unchanged by a read-only
      operation whenever the base's own four methods do not change it.

    NOT proved here: what the base's Lstat/Stat/Readlink/OpenFile do (an
    arbitrary [fsapi] may do anything inside its methods); the reads made
    afterwards on the returned handle ([hread] etc. are global functions on the
    handle returned by the base, BackupFS does not wrap it). *)
From stdpp Require Import gmap.
From BFS Require Import Backup.History Proofs.Footprint.

Theorem C03_lstat_delegates : forall base n w, b_lstat base n w = a_lstat base n w.
Proof. exact b_lstat_delegates. Qed.
Print Assumptions C03_lstat_delegates.

Theorem C03_stat_delegates : forall base n w, b_stat base n w = a_stat base n w.
Proof. exact b_stat_delegates. Qed.
Print Assumptions C03_stat_delegates.

Theorem C03_readlink_delegates : forall base n w, b_readlink base n w = a_readlink base n w.
Proof. exact b_readlink_delegates. Qed.
Print Assumptions C03_readlink_delegates.

Theorem C03_open_delegates : forall base backup n w,
  b_open base backup n w = a_openfile base n 0 0 w.
Proof. exact b_open_delegates. Qed.
Print Assumptions C03_open_delegates.

Theorem C03_openfile_rdonly_delegates : forall base backup n perm w,
  b_openfile base backup n 0 perm w = a_openfile base n 0 0 w.
Proof. exact b_openfile_rdonly_delegates. Qed.
Print Assumptions C03_openfile_rdonly_delegates.

Theorem C03_lstat_restricted : forall base n w, b_lstat (ro base) n w = b_lstat base n w.
Proof. exact b_lstat_ro. Qed.
Print Assumptions C03_lstat_restricted.

Theorem C03_stat_restricted : forall base n w, b_stat (ro base) n w = b_stat base n w.
Proof. exact b_stat_ro. Qed.
Print Assumptions C03_stat_restricted.

Theorem C03_readlink_restricted : forall base n w, b_readlink (ro base) n w = b_readlink base n w.
Proof. exact b_readlink_ro. Qed.
Print Assumptions C03_readlink_restricted.

Theorem C03_open_restricted : forall base backup n w,
  b_open (ro0 base) trap_api n w = b_open base backup n w.
Proof. exact b_open_ro. Qed.
Print Assumptions C03_open_restricted.

Theorem C03_openfile_rdonly_restricted : forall base backup n perm w,
  b_openfile (ro0 base) trap_api n 0 perm w = b_openfile base backup n 0 perm w.
Proof. exact b_openfile_rdonly_ro. Qed.
Print Assumptions C03_openfile_rdonly_restricted.

(** only the one method is used *)
Theorem C03_open_only_openfile : forall base backup n w,
  b_open (only_methods (ms_one MOpenFile) base) trap_api n w = b_open base backup n w.
Proof. exact b_open_only. Qed.
Print Assumptions C03_open_only_openfile.

Theorem C03_infos_unchanged : forall base backup : fsapi,
  (forall p w r w', a_lstat base p w = (r, w') -> w_infos w' = w_infos w) ->
  (forall p w r w', a_stat base p w = (r, w') -> w_infos w' = w_infos w) ->
  (forall p w r w', a_readlink base p w = (r, w') -> w_infos w' = w_infos w) ->
  (forall p w r w', a_openfile base p 0 0 w = (r, w') -> w_infos w' = w_infos w) ->
  (forall n w r w', b_lstat base n w = (r, w') -> w_infos w' = w_infos w) /\
  (forall n w r w', b_stat base n w = (r, w') -> w_infos w' = w_infos w) /\
  (forall n w r w', b_readlink base n w = (r, w') -> w_infos w' = w_infos w) /\
  (forall n w r w', b_open base backup n w = (r, w') -> w_infos w' = w_infos w) /\
  (forall n perm w r w', b_openfile base backup n 0 perm w = (r, w') -> w_infos w' = w_infos w).
Proof. exact readonly_infos_unchanged. Qed.
Print Assumptions C03_infos_unchanged.
