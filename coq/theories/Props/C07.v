(** C07 — Rollback leaves a clean slate.  Theorems about the model's
    [b_rollback] for *arbitrary* base and backup filesystems (any layering,
    with or without faults). *)
From stdpp Require Import gmap.
From BFS Require Import Backup.History Proofs.RollbackFacts.
From BFS Require Import Generated.LockTable Conc.Locks.

(** a Rollback with nothing tracked is a no-op: it issues no primitive call,
    changes nothing, returns nil *)
Theorem C07_second_rollback_noop :
  forall base backup w, w_infos w = ∅ -> b_rollback base backup w = (MOk tt, w).
Proof. exact rollback_empty_noop. Qed.
Print Assumptions C07_second_rollback_noop.

(** whenever Rollback runs to its end (no crash), successfully or not, no
    path is tracked any more *)
Theorem C07_rollback_clears :
  forall base backup w r w', b_rollback base backup w = (r, w') -> r <> MHalt -> w_infos w' = ∅.
Proof. exact rollback_clears. Qed.
Print Assumptions C07_rollback_clears.

(** a BackupFS has no state besides [baseInfos] (and the mutex): every
    operation of the model is a function of the world only, and in the Go
    source the struct has exactly the fields base, backup, baseInfos, mu
    (regenerated from the AST on every run).  Hence an instance whose map is
    empty behaves exactly like a freshly constructed one over the same two
    filesystems. *)
Theorem C07_fresh :
  struct_ok = true /\
  forall c ops w w0,
    w_infos w = ∅ -> w0 = mkWorld (w_st w) (w_trace w) (w_ticks w) (w_crash w) (w_faults w) ∅ ->
    run_history c ops w = run_history c ops w0.
Proof. split; [vm_compute; reflexivity | exact fresh_instance_equiv]. Qed.
Print Assumptions C07_fresh.

Example C07_example : exists w : world, w_infos w = ∅ /\ b_rollback osfs osfs w = (MOk tt, w).
Proof. exists init_world. split; [reflexivity | apply rollback_empty_noop; reflexivity]. Qed.
