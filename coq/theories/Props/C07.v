From BFS Require Import Backup.History.
Example placeholder_C07 : True. Proof. exact I. Qed.
