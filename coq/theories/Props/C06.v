(** C06 — HiddenFS makes hidden paths inaccessible (lexical theorem).
    [hs] is the stored hidden-path list, cleaned by [NewHiddenFS]. *)
From BFS Require Import Layers.Call Layers.LayerSpec.
From BFS Require Import Proofs.HiddenFacts.

(** [isHidden] decides exactly "at or below a hidden path", component-wise. *)
Theorem C06_is_hidden_spec :
  forall hs n, Forall cleaned hs -> comparable hs n ->
  (below hs n -> is_hidden n hs = Some true) /\ (~ below hs n -> is_hidden n hs = Some false).
Proof. exact is_hidden_spec. Qed.
Print Assumptions C06_is_hidden_spec.

(** Every single-path method on every spelling of a hidden or below-hidden
    name is rejected - ErrNotExist for access/removal/metadata, ErrPermission
    for creating ones - without any call on the underlying filesystem (so the
    outcome cannot depend on the underlying tree and nothing is modified). *)
Theorem C06_lexical_single :
  forall hs m n aux, Forall cleaned hs -> comparable hs n -> two_paths m = false ->
  below hs n ->
  hiddenfs_call hs (mkCall m n [] aux) =
  Rej (match m with
       | MMkdir | MMkdirAll | MCreate => EHiddenPerm
       | MOpenFile => if has_o_create aux then EHiddenPerm else EHiddenNotExist
       | _ => EHiddenNotExist
       end).
Proof. exact hiddenfs_lexical_single. Qed.
Print Assumptions C06_lexical_single.

Theorem C06_lexical_rename :
  forall hs a b aux, Forall cleaned hs -> comparable hs a -> comparable hs b ->
  (below hs a -> hiddenfs_call hs (mkCall MRename a b aux) = Rej EHiddenNotExist) /\
  (~ below hs a -> below hs b -> hiddenfs_call hs (mkCall MRename a b aux) = Rej EHiddenPerm).
Proof. exact hiddenfs_lexical_rename. Qed.
Print Assumptions C06_lexical_rename.

(** no symlink at a hidden location, none whose (lexical) target is hidden *)
Theorem C06_lexical_symlink :
  forall hs t l aux, Forall cleaned hs ->
  comparable hs l -> comparable hs (to_abs_symlink t l) ->
  (below hs l \/ below hs (to_abs_symlink t l)) ->
  hiddenfs_call hs (mkCall MSymlink t l aux) = Rej EHiddenPerm.
Proof. exact hiddenfs_lexical_symlink. Qed.
Print Assumptions C06_lexical_symlink.

Example C06_example :
  let hs := [[47;118;97;114;47;98]] (* "/var/b" *) in
  Forall cleaned hs /\ comparable hs [47;118;97;114;47;47;98;47;120] /\
  below hs [47;118;97;114;47;47;98;47;120] (* "/var//b/x" *) /\
  hiddenfs_call hs (mkCall MStat [47;118;97;114;47;47;98;47;120] [] []) = Rej EHiddenNotExist /\
  hiddenfs_call hs (mkCall MStat [47;118;97;114;47;98;50] [] []) = Fwd (mkCall MStat [47;118;97;114;47;98;50] [] []).
Proof. exact hidden_example. Qed.
