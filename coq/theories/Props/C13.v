From BFS Require Import Backup.History.
Example placeholder_C13 : True. Proof. exact I. Qed.
