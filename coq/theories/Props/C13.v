(** C13 — Rollback stays within the footprint of the transaction.

    Proved here, for EVERY [base backup : fsapi] and EVERY world (no law about
    the filesystems assumed), by API restriction (Proofs/Footprint.v):
    [guard_api P a] is [a] with every method replaced by a trap (stopping the
    whole computation) when the path argument does not satisfy [P] (Rename:
    both names; Symlink: the location of the link); [only_methods ms a] traps
    every method outside the set [ms].

    - [C13_rollback_tracked_paths_only]: with [tracked w p] := "[p] is a key of
      [baseInfos] in [w]", Rollback started in [w] runs identically when both
      filesystems trap on every untracked path: every call Rollback makes on
      the base or on the backup has a path that was tracked when Rollback
      started.  No variant with ancestors is needed: Rollback calls no method
      on a parent or any other derived path.
      [C13_rollback_guard] is the general form (any [P] containing the keys).
    - [C13_rollback_methods]: on the backup Rollback uses only Lstat, Open,
      Readlink, Remove (never RemoveAll, Rename, nor any other mutator); on the
      base only Lstat, Remove, RemoveAll, MkdirAll, Chmod, Chtimes, Chown,
      OpenFile, Symlink, Lchown (never Rename, Create, Mkdir, Open, Stat,
      Readlink).
    - [C13_rollback_footprint]: both at once.

    NOT proved here (and not provable by this technique): what happens INSIDE
    a method of the base.  [base.RemoveAll p] (used by [restore_file] when the
    backup copy at [p] is not a regular file, and by [restore_symlink] when
    anything exists at [p]) removes the whole subtree below the tracked path
    [p], tracked or not; [base.MkdirAll p] creates missing ancestors of [p].
    That Rollback restores the right content is C01/C04, not this property. *)
From stdpp Require Import gmap.
From BFS Require Import Backup.History Proofs.Footprint.

Theorem C13_tracked_meaning : forall w p,
  tracked w p = true <-> is_Some (w_infos w !! p).
Proof. intros w p. unfold tracked. apply bool_decide_eq_true. Qed.
Print Assumptions C13_tracked_meaning.

Theorem C13_rollback_tracked_paths_only : forall base backup w,
  b_rollback (guard_api (tracked w) base) (guard_api (tracked w) backup) w
  = b_rollback base backup w.
Proof. exact b_rollback_tracked_only. Qed.
Print Assumptions C13_rollback_tracked_paths_only.

Theorem C13_rollback_guard : forall (P : str -> bool) base backup w,
  (forall p, is_Some (w_infos w !! p) -> P p = true) ->
  b_rollback (guard_api P base) (guard_api P backup) w = b_rollback base backup w.
Proof. exact b_rollback_guard. Qed.
Print Assumptions C13_rollback_guard.

Theorem C13_rollback_methods : forall base backup w,
  b_rollback (only_methods ms_rollback_base base) (only_methods ms_rollback_backup backup) w
  = b_rollback base backup w.
Proof. exact b_rollback_methods. Qed.
Print Assumptions C13_rollback_methods.

Theorem C13_rollback_footprint : forall base backup w,
  b_rollback (guard_api (tracked w) (only_methods ms_rollback_base base))
             (guard_api (tracked w) (only_methods ms_rollback_backup backup)) w
  = b_rollback base backup w.
Proof. exact b_rollback_footprint. Qed.
Print Assumptions C13_rollback_footprint.
