(** State + error + halt monad over the world.  One [tick] per primitive
    filesystem call that BackupFS issues on its base or backup filesystem
    (the spy layer): the call is appended to the trace, a crash point stops
    the whole computation ([MHalt], never caught), a fault plan makes the call
    fail with EIO without being executed. *)
From stdpp Require Import gmap.
From BFS Require Export Fs.FsModel.

(** BackupFS's only mutable field: [baseInfos] (path -> original info, [None] = did not exist) *)
Notation infomap := (gmap str (option finfo)).

Inductive fstag := TBase | TBackup.

Inductive pmeth := PM (m : meth) | PRead | PWrite | PClose | PHStat | PReaddirnames.

Record tcall := mkTcall { t_fs : fstag; t_meth : pmeth; t_path : str; t_path2 : str; t_err : option errno }.

(** fail the [f_occ]-th (0-based) call on [f_fs] with method [f_meth] and path [f_path] *)
Record fault := mkFault { f_fs : fstag; f_meth : pmeth; f_path : str; f_occ : N }.

Record world := mkWorld {
  w_st : fstate;
  w_trace : list tcall;        (* most recent first *)
  w_ticks : N;
  w_crash : option N;          (* halt when this many primitive calls have been made *)
  w_faults : list fault;
  w_infos : infomap }.

Inductive mres (A : Type) := MOk (a : A) | MErr (e : errno) | MHalt.
Arguments MOk {A} a.
Arguments MErr {A} e.
Arguments MHalt {A}.

Definition M (A : Type) : Type := world -> mres A * world.

Definition ret {A} (a : A) : M A := fun w => (MOk a, w).
Definition fail {A} (e : errno) : M A := fun w => (MErr e, w).
Definition bind {A B} (m : M A) (f : A -> M B) : M B :=
  fun w => match m w with
           | (MOk a, w') => f a w'
           | (MErr e, w') => (MErr e, w')
           | (MHalt, w') => (MHalt, w')
           end.

Notation "x <- m ;; k" := (bind m (fun x => k)) (at level 100, m at next level, right associativity).
Notation "m ;;; k" := (bind m (fun _ => k)) (at level 100, right associativity).

(** run [m]; hand its error (if any) to the continuation; never catches a halt *)
Definition try_ {A} (m : M A) : M (res A) :=
  fun w => match m w with
           | (MOk a, w') => (MOk (Ok a), w')
           | (MErr e, w') => (MOk (Err e), w')
           | (MHalt, w') => (MHalt, w')
           end.

Definition lift_res {A} (r : res A) : M A :=
  match r with Ok a => ret a | Err e => fail e end.

(** a pure read of the filesystem state *)
Definition fs_get {A} (f : fstate -> res A) : M A := fun w => lift_res (f (w_st w)) w.

(** a state-changing filesystem primitive *)
Definition fs_upd {A} (f : fstate -> res A * fstate) : M A :=
  fun w => let '(r, s') := f (w_st w) in
           lift_res r (mkWorld s' (w_trace w) (w_ticks w) (w_crash w) (w_faults w) (w_infos w)).

Definition pmeth_eqb (a b : pmeth) : bool :=
  match a, b with
  | PM x, PM y =>
      match x, y with
      | MCreate, MCreate | MMkdir, MMkdir | MMkdirAll, MMkdirAll | MOpen, MOpen
      | MOpenFile, MOpenFile | MRemove, MRemove | MRemoveAll, MRemoveAll
      | MRename, MRename | MStat, MStat | MChmod, MChmod | MChown, MChown
      | MChtimes, MChtimes | MLstat, MLstat | MSymlink, MSymlink
      | MReadlink, MReadlink | MLchown, MLchown => true
      | _, _ => false
      end
  | PRead, PRead | PWrite, PWrite | PClose, PClose | PHStat, PHStat
  | PReaddirnames, PReaddirnames => true
  | _, _ => false
  end.

Definition fstag_eqb (a b : fstag) : bool :=
  match a, b with TBase, TBase | TBackup, TBackup => true | _, _ => false end.

Definition same_site (t : fstag) (m : pmeth) (p : str) (c : tcall) : bool :=
  fstag_eqb t (t_fs c) && pmeth_eqb m (t_meth c) && str_eqb p (t_path c).

(** how many earlier calls in the trace match this site *)
Definition occurrences (t : fstag) (m : pmeth) (p : str) (tr : list tcall) : N :=
  N.of_nat (length (List.filter (same_site t m p) tr)).

Definition faulted (w : world) (t : fstag) (m : pmeth) (p : str) : bool :=
  existsb (fun f => fstag_eqb t (f_fs f) && pmeth_eqb m (f_meth f) && str_eqb p (f_path f)
                    && N.eqb (f_occ f) (occurrences t m p (w_trace w)))
          (w_faults w).

Definition record (c : tcall) (w : world) : world :=
  mkWorld (w_st w) (c :: w_trace w) (w_ticks w) (w_crash w) (w_faults w) (w_infos w).

(** the spy around one primitive call *)
Definition spied {A} (t : fstag) (m : pmeth) (p p2 : str) (op : M A) : M A :=
  fun w =>
    match w_crash w with
    | Some k => if N.leb k (w_ticks w) then (MHalt, w) else
        let w1 := mkWorld (w_st w) (w_trace w) (N.succ (w_ticks w)) (w_crash w) (w_faults w) (w_infos w) in
        if faulted w1 t m p then (MErr EIO, record (mkTcall t m p p2 (Some EIO)) w1)
        else match op w1 with
             | (MOk a, w2) => (MOk a, record (mkTcall t m p p2 None) w2)
             | (MErr e, w2) => (MErr e, record (mkTcall t m p p2 (Some e)) w2)
             | (MHalt, w2) => (MHalt, w2)
             end
    | None =>
        let w1 := mkWorld (w_st w) (w_trace w) (N.succ (w_ticks w)) (w_crash w) (w_faults w) (w_infos w) in
        if faulted w1 t m p then (MErr EIO, record (mkTcall t m p p2 (Some EIO)) w1)
        else match op w1 with
             | (MOk a, w2) => (MOk a, record (mkTcall t m p p2 None) w2)
             | (MErr e, w2) => (MErr e, record (mkTcall t m p p2 (Some e)) w2)
             | (MHalt, w2) => (MHalt, w2)
             end
    end.

(** monadic fold over a list *)
Fixpoint mfold {A B} (f : B -> A -> M B) (l : list A) (b : B) : M B :=
  match l with
  | [] => ret b
  | x :: r => b' <- f b x ;; mfold f r b'
  end.

Fixpoint miter {A} (f : A -> M unit) (l : list A) : M unit :=
  match l with
  | [] => ret tt
  | x :: r => f x ;;; miter f r
  end.

(** access to [baseInfos] *)
Definition get_infos : M infomap := fun w => (MOk (w_infos w), w).
Definition put_infos (i : infomap) : M unit :=
  fun w => (MOk tt, mkWorld (w_st w) (w_trace w) (w_ticks w) (w_crash w) (w_faults w) i).
