(** Byte strings as lists of [N].  Models Go [string] at the byte level:
    [strings.HasPrefix], [strings.TrimPrefix], [strings.Count s "/"],
    and the built-in [<] on strings (bytewise lexicographic). *)
From Coq Require Export List NArith ZArith Bool Lia.
Export ListNotations.
Open Scope N_scope.

Definition byte := N.
Definition str := list N.

Definition sep : N := 47.   (* '/' *)
Definition dot : N := 46.   (* '.' *)

Definition s_root : str := [sep].
Definition s_dot : str := [dot].
Definition s_dotdot : str := [dot; dot].

Fixpoint str_eqb (a b : str) : bool :=
  match a, b with
  | [], [] => true
  | x :: a', y :: b' => N.eqb x y && str_eqb a' b'
  | _, _ => false
  end.

(** Go's [a < b] on strings. *)
Fixpoint str_ltb (a b : str) : bool :=
  match a, b with
  | [], [] => false
  | [], _ :: _ => true
  | _ :: _, [] => false
  | x :: a', y :: b' =>
      if N.ltb x y then true
      else if N.eqb x y then str_ltb a' b'
      else false
  end.

(** [strings.HasPrefix s p] *)
Fixpoint has_prefix (s p : str) : bool :=
  match p, s with
  | [], _ => true
  | y :: p', x :: s' => N.eqb x y && has_prefix s' p'
  | _ :: _, [] => false
  end.

(** [strings.TrimPrefix s p] *)
Definition trim_prefix (s p : str) : str :=
  if has_prefix s p then skipn (length p) s else s.

(** [strings.Count s "/"] *)
Fixpoint count_sep (s : str) : nat :=
  match s with
  | [] => 0%nat
  | c :: r => if N.eqb c sep then S (count_sep r) else count_sep r
  end.

(** Split on the separator: ["a//b"] gives [["a";"";"b"]], [""] gives [[""]]. *)
Fixpoint split_sep (s : str) : list str :=
  match s with
  | [] => [[]]
  | c :: r =>
      if N.eqb c sep then [] :: split_sep r
      else match split_sep r with
           | [] => [[c]]
           | h :: t => (c :: h) :: t
           end
  end.

(** Intercalate with the separator. *)
Fixpoint join_sep (l : list str) : str :=
  match l with
  | [] => []
  | [x] => x
  | x :: r => x ++ sep :: join_sep r
  end.

Definition str_in (x : str) (l : list str) : bool := existsb (str_eqb x) l.
