(** A POSIX-style filesystem as seen by root with umask 0 on Linux: the
    *modelled* environment of the Go code (kernel VFS + Go's os package).
    Validated against the real kernel by the correspondence check (T2) on
    every run; a disagreement on an unchanged tree is a model bug.

    [fs] maps canonical keys (component lists from the root, no symlinks
    followed, no "." / "..") to nodes.  Path strings are resolved by [walk],
    which follows symlinks the way the kernel does (physical "..", at most 40
    link hops, then ELOOP). *)
From stdpp Require Import gmap.
From BFS Require Export Base.Bytes Path.GoPath Layers.Call.

Definition key := list str.

Inductive errno :=
  | ENOENT | EEXIST | ENOTDIR | EISDIR | ENOTEMPTY | EINVAL | ELOOP
  | EBUSY | EIO | EBADF
  | ELayer (e : errclass)   (* EPERM of PrefixFS, the HiddenFS errors (Layers/Call.v) *)
  | EBadInfo      (* errDirInfoExpected / errFileInfoExpected / errSymlinkInfoExpected *)
  | ERollback     (* ErrRollbackFailed (joined errors) *)
  | EOther
  | EFUEL.        (* model artefact: recursion budget exhausted; never a success *)

Definition errno_eqb (a b : errno) : bool :=
  match a, b with
  | ENOENT, ENOENT | EEXIST, EEXIST | ENOTDIR, ENOTDIR | EISDIR, EISDIR
  | ENOTEMPTY, ENOTEMPTY | EINVAL, EINVAL | ELOOP, ELOOP
  | EBUSY, EBUSY | EIO, EIO | EBADF, EBADF | EBadInfo, EBadInfo
  | ERollback, ERollback | EOther, EOther | EFUEL, EFUEL => true
  | ELayer x, ELayer y =>
      match x, y with
      | EPERM, EPERM | EHiddenNotExist, EHiddenNotExist | EHiddenPerm, EHiddenPerm
      | EHiddenCheck, EHiddenCheck => true
      | _, _ => false
      end
  | _, _ => false
  end.

(** [isNotFoundError]: fs.ErrNotExist, ENOENT, ENOTDIR (ErrHiddenNotExist wraps os.ErrNotExist) *)
Definition is_not_found (e : errno) : bool :=
  match e with ENOENT | ENOTDIR | ELayer EHiddenNotExist => true | _ => false end.

(** errors.Is(err, fs.ErrPermission): EPERM (EACCES never occurs for root) *)
Definition is_permission (e : errno) : bool :=
  match e with ELayer EPERM | ELayer EHiddenPerm => true | _ => false end.

(** Modification times: initial trees carry distinct preset instants; every
    kernel-assigned timestamp is a fresh [Now i]. *)
Inductive mtime := Preset (n : N) | Now (i : N).

Definition mtime_eqb (a b : mtime) : bool :=
  match a, b with
  | Preset x, Preset y => N.eqb x y
  | Now x, Now y => N.eqb x y
  | _, _ => false
  end.

Record meta := mkMeta { m_perm : N; m_uid : N; m_gid : N; m_mt : mtime }.

Inductive node :=
  | Dir (m : meta)
  | File (m : meta) (c : list N)
  | Link (m : meta) (t : str).

Inductive kind := KDir | KFile | KLink.

Definition node_meta (n : node) : meta :=
  match n with Dir m | File m _ | Link m _ => m end.
Definition node_kind (n : node) : kind :=
  match n with Dir _ => KDir | File _ _ => KFile | Link _ _ => KLink end.
Definition set_meta (n : node) (m : meta) : node :=
  match n with Dir _ => Dir m | File _ c => File m c | Link _ t => Link m t end.
Definition is_dir (n : node) : bool := match n with Dir _ => true | _ => false end.

Notation fs := (gmap key node).

Record fstate := mkFstate { st_fs : fs; st_clock : N }.

Definition tick_clock (s : fstate) : mtime * fstate :=
  (Now (st_clock s), mkFstate (st_fs s) (N.succ (st_clock s))).

(** * Keys *)

Fixpoint key_prefixb (a b : key) : bool :=
  match a, b with
  | [], _ => true
  | x :: a', y :: b' => str_eqb x y && key_prefixb a' b'
  | _ :: _, [] => false
  end.

Definition key_eqb (a b : key) : bool :=
  key_prefixb a b && key_prefixb b a.

Definition parent_key (k : key) : key := removelast k.

Definition entries (f : fs) : list (key * node) := gmap_to_list f.

(** keys strictly below [k] *)
Definition has_children (f : fs) (k : key) : bool :=
  existsb (fun kv => key_prefixb k (fst kv) && negb (key_eqb k (fst kv))) (entries f).

(** direct children names of directory [k], sorted *)
Definition child_names (f : fs) (k : key) : list str :=
  let n := length k in
  List.fold_right
    (fun kv acc =>
       let k' := fst kv in
       if key_prefixb k k' && Nat.eqb (length k') (S n)
       then match last k' [] with c => c :: acc end else acc)
    [] (entries f).

(** remove [k] and everything below it *)
Definition delete_subtree (f : fs) (k : key) : fs :=
  stdpp.base.filter (fun kv : key * node => key_prefixb k (fst kv) = false) f.

(** move the subtree at [ko] to [kn] (which is free) *)
Definition move_subtree (f : fs) (ko kn : key) : fs :=
  let moved := List.filter (fun kv => key_prefixb ko (fst kv)) (entries f) in
  let rest := delete_subtree f ko in
  List.fold_right (fun kv acc => <[ kn ++ skipn (length ko) (fst kv) := snd kv ]> acc) rest moved.

(** * Path walk *)

Inductive wres :=
  | WFound (k : key) (n : node)
  | WMissing (parent : key) (name : str) (slash : bool)
      (* [parent] is an existing directory without entry [name];
         [slash]: the path had trailing separators / "." after [name] *)
  | WErr (e : errno).

Definition trivial_comp (c : str) : bool := str_eqb c [] || str_eqb c s_dot.

Definition walk_fuel : nat := (64 * 64)%nat.

Fixpoint walk (fuel : nat) (f : fs) (hops : nat) (cur : key) (cs : list str)
         (follow : bool) : wres :=
  match fuel with
  | O => WErr EFUEL
  | S fuel' =>
      match cs with
      | [] => match f !! cur with
              | Some n => WFound cur n
              | None => WErr ENOENT
              end
      | c :: rest =>
          if trivial_comp c then walk fuel' f hops cur rest follow
          else if str_eqb c s_dotdot then walk fuel' f hops (parent_key cur) rest follow
          else
            match f !! (cur ++ [c]) with
            | None =>
                if forallb trivial_comp rest
                then WMissing cur c (match rest with [] => false | _ => true end)
                else WErr ENOENT
            | Some (Dir m) => walk fuel' f hops (cur ++ [c]) rest follow
            | Some (File m d) =>
                match rest with
                | [] => WFound (cur ++ [c]) (File m d)
                | _ => WErr ENOTDIR
                end
            | Some (Link m t) =>
                if (match rest with [] => true | _ => false end) && negb follow
                then WFound (cur ++ [c]) (Link m t)
                else if Nat.leb 40 hops then WErr ELOOP
                else walk fuel' f (S hops) (if is_abs t then [] else cur)
                          (split_sep t ++ rest) follow
            end
      end
  end.

(** resolve a path string; the working directory is the root *)
Definition resolve (f : fs) (p : str) (follow : bool) : wres :=
  match p with
  | [] => WErr ENOENT
  | _ => walk (walk_fuel + length p) f 0 [] (split_sep p) follow
  end.

(** * What [Lstat]/[Stat] report *)

Record finfo := mkFinfo {
  fi_name : str; fi_kind : kind; fi_perm : N; fi_uid : Z; fi_gid : Z;
  fi_mt : mtime; fi_size : N }.

Definition node_size (n : node) : N :=
  match n with
  | Dir _ => 0
  | File _ c => N.of_nat (length c)
  | Link _ t => N.of_nat (length t)
  end.

Definition info_of (name : str) (n : node) : finfo :=
  let m := node_meta n in
  mkFinfo name (node_kind n) (m_perm m) (Z.of_N (m_uid m)) (Z.of_N (m_gid m)) (m_mt m) (node_size n).

Inductive res (A : Type) := Ok (a : A) | Err (e : errno).
Arguments Ok {A} a.
Arguments Err {A} e.

Definition fs_lstat (s : fstate) (p : str) : res finfo :=
  match resolve (st_fs s) p false with
  | WFound _ n => Ok (info_of (base p) n)
  | WMissing _ _ _ => Err ENOENT
  | WErr e => Err e
  end.

Definition fs_stat (s : fstate) (p : str) : res finfo :=
  match resolve (st_fs s) p true with
  | WFound _ n => Ok (info_of (base p) n)
  | WMissing _ _ _ => Err ENOENT
  | WErr e => Err e
  end.

Definition fs_readlink (s : fstate) (p : str) : res str :=
  match resolve (st_fs s) p false with
  | WFound _ (Link _ t) => Ok t
  | WFound _ _ => Err EINVAL
  | WMissing _ _ _ => Err ENOENT
  | WErr e => Err e
  end.

(** * Mutators.  Each returns the result and the new state. *)

(** strip trailing separators *)
Definition strip_trailing_seps (p : str) : str := rev (strip_trailing_sep_rev (rev p)).



Definition sgid_bit : N := 1024.   (* 02000 *)
Definition suid_bit : N := 2048.   (* 04000 *)
Definition gexec_bit : N := 8.     (* 00010 *)

Definition touch_dir (f : fs) (k : key) (t : mtime) : fs :=
  match f !! k with
  | Some (Dir m) => <[ k := Dir (mkMeta (m_perm m) (m_uid m) (m_gid m) t) ]> f
  | _ => f
  end.

(** group of a new entry: inherited from a setgid parent directory *)
Definition new_gid (f : fs) (parent : key) : N :=
  match f !! parent with
  | Some (Dir m) => if N.testbit (m_perm m) 10 then m_gid m else 0
  | _ => 0
  end.
Definition parent_sgid (f : fs) (parent : key) : bool :=
  match f !! parent with
  | Some (Dir m) => N.testbit (m_perm m) 10
  | _ => false
  end.

(** add an entry below an existing directory, updating the directory's mtime *)
Definition add_entry (s : fstate) (parent : key) (name : str) (mk : mtime -> N -> node) : fstate :=
  let '(t, s1) := tick_clock s in
  let f := st_fs s1 in
  let f1 := <[ parent ++ [name] := mk t (new_gid f parent) ]> f in
  mkFstate (touch_dir f1 parent t) (st_clock s1).

Definition fs_mkdir (s : fstate) (p : str) (perm : N) : res unit * fstate :=
  (* mkdir("name/"): trailing separators do not make the kernel follow a symlink
     in the last component (it exists: EEXIST) *)
  let p := match strip_trailing_seps p with [] => p | q => q end in
  match resolve (st_fs s) p false with
  | WFound _ _ => (Err EEXIST, s)
  | WMissing parent name _ =>
      let perm' := N.lor (N.land perm 1023 (* 01777 *))
                         (if parent_sgid (st_fs s) parent then sgid_bit else 0) in
      (Ok tt, add_entry s parent name (fun t g => Dir (mkMeta perm' 0 g t)))
  | WErr e => (Err e, s)
  end.

(** [os.MkdirAll], following the Go source: Stat fast path, recurse on the
    parent, Mkdir, and on error accept an existing directory (Lstat). *)
Fixpoint fs_mkdirall_aux (fuel : nat) (s : fstate) (p : str) (perm : N) : res unit * fstate :=
  match fuel with
  | O => (Err EFUEL, s)
  | S fuel' =>
      match fs_stat s p with
      | Ok fi => match fi_kind fi with KDir => (Ok tt, s) | _ => (Err ENOTDIR, s) end
      | Err _ =>
          let parent := removelast (upto_last_sep (strip_trailing_seps p)) in
          let '(r, s1) :=
            match parent with
            | [] => (Ok tt, s)
            | _ => fs_mkdirall_aux fuel' s parent perm
            end in
          match r with
          | Err e => (Err e, s1)
          | Ok _ =>
              let '(r2, s2) := fs_mkdir s1 p perm in
              match r2 with
              | Ok _ => (Ok tt, s2)
              | Err e =>
                  match fs_lstat s2 p with
                  | Ok fi => match fi_kind fi with KDir => (Ok tt, s2) | _ => (Err e, s2) end
                  | Err _ => (Err e, s2)
                  end
              end
          end
      end
  end.

Definition fs_mkdirall (s : fstate) (p : str) (perm : N) : res unit * fstate :=
  fs_mkdirall_aux (S (length p)) s p perm.

Definition remove_entry (s : fstate) (k : key) : fstate :=
  let '(t, s1) := tick_clock s in
  mkFstate (touch_dir (base.delete k (st_fs s1)) (parent_key k) t) (st_clock s1).
Arguments remove_entry : simpl never.

(** unlink/rmdir of "link/" (trailing separators on a symlink): the last
    component is not followed and is not a directory *)
Definition slashed_link (s : fstate) (p : str) : bool :=
  let p' := strip_trailing_seps p in
  negb (str_eqb p' p) &&
  match p' with
  | [] => false
  | _ => match resolve (st_fs s) p' false with WFound _ (Link _ _) => true | _ => false end
  end.

Definition fs_unlink (s : fstate) (p : str) : res unit * fstate :=
  if slashed_link s p then (Err ENOTDIR, s) else
  match resolve (st_fs s) p false with
  | WFound k (Dir _) => (Err EISDIR, s)
  | WFound k _ => (Ok tt, remove_entry s k)
  | WMissing _ _ _ => (Err ENOENT, s)
  | WErr e => (Err e, s)
  end.

Definition fs_rmdir (s : fstate) (p : str) : res unit * fstate :=
  if slashed_link s p then (Err ENOTDIR, s) else
  match resolve (st_fs s) p false with
  | WFound k (Dir _) =>
      match k with
      | [] => (Err EBUSY, s)
      | _ => if has_children (st_fs s) k then (Err ENOTEMPTY, s) else (Ok tt, remove_entry s k)
      end
  | WFound _ _ => (Err ENOTDIR, s)
  | WMissing _ _ _ => (Err ENOENT, s)
  | WErr e => (Err e, s)
  end.

(** [os.Remove]: unlink, then rmdir, then pick the error *)
Definition fs_remove (s : fstate) (p : str) : res unit * fstate :=
  match fs_unlink s p with
  | (Ok _, s1) => (Ok tt, s1)
  | (Err e, _) =>
      match fs_rmdir s p with
      | (Ok _, s1) => (Ok tt, s1)
      | (Err e1, _) => (Err (if errno_eqb e1 ENOTDIR then e else e1), s)
      end
  end.

(** [os.RemoveAll] *)
Definition fs_removeall (s : fstate) (p : str) : res unit * fstate :=
  match p with
  | [] => (Ok tt, s)
  | _ =>
      match resolve (st_fs s) p false with
      | WFound [] _ => (Err EBUSY, s)
      | WFound k _ =>
          let '(t, s1) := tick_clock s in
          (Ok tt, mkFstate (touch_dir (delete_subtree (st_fs s1) k) (parent_key k) t) (st_clock s1))
      | WMissing _ _ _ => (Ok tt, s)
      | WErr ENOENT => (Ok tt, s)
      | WErr e => (Err e, s)
      end
  end.

Definition fs_rename (s : fstate) (po pn : str) : res unit * fstate :=
  (* the kernel resolves both parent directories before it looks up the old
     name's last component: a bad new parent (ENOTDIR, ENOENT, ELOOP) wins
     over a missing old entry *)
  match resolve (st_fs s) po false with
  | WMissing _ _ _ =>
      (* only the new name's parent directory is resolved at that point *)
      match resolve (st_fs s) (match strip_trailing_seps pn with [] => pn | q => q end) false with
      | WErr e => (Err e, s)
      | _ => (Err ENOENT, s)
      end
  | WErr e => (Err e, s)
  | WFound [] _ => (Err EBUSY, s)
  | WFound ko no =>
      let do_move (kn : key) :=
        let '(t, s1) := tick_clock s in
        let f1 := move_subtree (delete_subtree (st_fs s1) kn) ko kn in
        (Ok tt, mkFstate (touch_dir (touch_dir f1 (parent_key ko) t) (parent_key kn) t) (st_clock s1)) in
      match resolve (st_fs s) pn false with
      | WErr e => (Err e, s)
      | WFound kn nn =>
          (* Go's os.Rename refuses an existing directory as the new name
             (EEXIST) before calling rename(2), unless it is the same file
             under a different spelling *)
          if is_dir nn then
            if key_eqb ko kn && negb (str_eqb po pn) then (Ok tt, s) else (Err EEXIST, s)
          else if key_eqb ko kn then (Ok tt, s)
          else if is_dir no then
            if key_prefixb ko kn then (Err EINVAL, s) else (Err ENOTDIR, s)
          else do_move kn
      | WMissing pk name slash =>
          let kn := pk ++ [name] in
          if is_dir no then
            if key_prefixb ko kn then (Err EINVAL, s) else do_move kn
          else if slash then (Err ENOTDIR, s) else do_move kn
      end
  end.

Definition update_node (s : fstate) (k : key) (n : node) : fstate :=
  mkFstate (<[ k := n ]> (st_fs s)) (st_clock s).

Definition fs_chmod (s : fstate) (p : str) (mode : N) : res unit * fstate :=
  match resolve (st_fs s) p true with
  | WFound k n =>
      let m := node_meta n in
      (Ok tt, update_node s k (set_meta n (mkMeta (N.land mode 4095) (m_uid m) (m_gid m) (m_mt m))))
  | WMissing _ _ _ => (Err ENOENT, s)
  | WErr e => (Err e, s)
  end.

(** chown on a non-directory clears setuid, and setgid when group-exec is
    set - also for root and also when the owner does not change *)
Definition chown_perm (n : node) (perm : N) : N :=
  match n with
  | File _ _ =>
      let p1 := N.ldiff perm suid_bit in
      if N.testbit perm 3 then N.ldiff p1 sgid_bit else p1
  | _ => perm
  end.

Definition pick_id (old : N) (new : Z) : N :=
  if (new <? 0)%Z then old else Z.to_N new.

Definition chown_node (n : node) (uid gid : Z) : node :=
  let m := node_meta n in
  set_meta n (mkMeta (chown_perm n (m_perm m)) (pick_id (m_uid m) uid) (pick_id (m_gid m) gid) (m_mt m)).

Definition fs_chown_gen (follow : bool) (s : fstate) (p : str) (uid gid : Z) : res unit * fstate :=
  match resolve (st_fs s) p follow with
  | WFound k n => (Ok tt, update_node s k (chown_node n uid gid))
  | WMissing _ _ _ => (Err ENOENT, s)
  | WErr e => (Err e, s)
  end.
Definition fs_chown := fs_chown_gen true.
Definition fs_lchown := fs_chown_gen false.

Definition fs_chtimes (s : fstate) (p : str) (t : mtime) : res unit * fstate :=
  match resolve (st_fs s) p true with
  | WFound k n =>
      let m := node_meta n in
      (Ok tt, update_node s k (set_meta n (mkMeta (m_perm m) (m_uid m) (m_gid m) t)))
  | WMissing _ _ _ => (Err ENOENT, s)
  | WErr e => (Err e, s)
  end.

Definition fs_symlink (s : fstate) (target p : str) : res unit * fstate :=
  match target with
  | [] => (Err ENOENT, s)
  | _ =>
      (* symlink(t, "name/"): the last component is looked up without its trailing
         separators and without following it: EEXIST if anything is there, ENOENT
         if not (a trailing separator asks for a directory) *)
      let q := match strip_trailing_seps p with [] => p | q => q end in
      match resolve (st_fs s) q false with
      | WFound _ _ => (Err EEXIST, s)
      | WMissing parent name sl =>
          if sl || negb (str_eqb q p) then (Err ENOENT, s)
          else (Ok tt, add_entry s parent name (fun t g => Link (mkMeta 511 0 g t) target))
      | WErr e => (Err e, s)
      end
  end.

(** * Open files.  A handle is the key it was opened on plus a cursor.
    (Handles that outlive a rename/removal of their path are not modelled.) *)

Record handle := mkHandle {
  h_key : key; h_pos : N; h_write : bool; h_read : bool; h_append : bool;
  h_dir : bool; h_name : str }.

Definition o_wronly (fl : N) : bool := N.eqb (N.land fl 3) 1.
Definition o_rdwr (fl : N) : bool := N.eqb (N.land fl 3) 2.
Definition o_creat (fl : N) : bool := N.testbit fl 6.
Definition o_excl (fl : N) : bool := N.testbit fl 7.
Definition o_trunc (fl : N) : bool := N.testbit fl 9.
Definition o_append (fl : N) : bool := N.testbit fl 10.

Definition fs_open (s : fstate) (p : str) (fl perm : N) : res handle * fstate :=
  let wr := o_wronly fl || o_rdwr fl in
  let rd := negb (o_wronly fl) in
  let excl := o_creat fl && o_excl fl in
  let p' := strip_trailing_seps p in
  (* O_CREAT with a trailing separator: EISDIR once the parents resolve *)
  if o_creat fl && negb (str_eqb p' p) && negb (str_eqb p' []) then
    match resolve (st_fs s) p' false with   (* the parents only; the last component is not followed *)
    | WErr e => (Err e, s)
    | _ => (Err EISDIR, s)
    end
  else
  match resolve (st_fs s) p (negb excl) with
  | WErr e => (Err e, s)
  | WFound k n =>
      if excl then (Err EEXIST, s)
      else match n with
           | Dir _ =>
               if wr || o_creat fl || o_trunc fl then (Err EISDIR, s)
               else (Ok (mkHandle k 0 false true false true p), s)
           | File m c =>
               if o_trunc fl then
                 let '(t, s1) := tick_clock s in
                 (Ok (mkHandle k 0 wr rd (o_append fl) false p),
                  update_node s1 k (File (mkMeta (m_perm m) (m_uid m) (m_gid m) t) []))
               else (Ok (mkHandle k 0 wr rd (o_append fl) false p), s)
           | Link _ _ => (Err ELOOP, s)
           end
  | WMissing parent name slash =>
      if o_creat fl then
        if slash then (Err EISDIR, s)
        else
          let s1 := add_entry s parent name
                      (fun t g => File (mkMeta (N.land perm 4095) 0 g t) []) in
          (Ok (mkHandle (parent ++ [name]) 0 wr rd (o_append fl) false p), s1)
      else (Err ENOENT, s)
  end.

Definition chunk_size : nat := (32 * 1024)%nat.

(** one [Read] with a 32 KiB buffer: [None] is io.EOF *)
Definition fs_read (s : fstate) (h : handle) : res (option (list N)) * handle :=
  if negb (h_read h) || h_dir h then (Err (if h_dir h then EISDIR else EBADF), h)
  else
    match st_fs s !! h_key h with
    | Some (File _ c) =>
        let rest := skipn (N.to_nat (h_pos h)) c in
        match rest with
        | [] => (Ok None, h)
        | _ =>
            let ch := firstn chunk_size rest in
            (Ok (Some ch),
             mkHandle (h_key h) (h_pos h + N.of_nat (length ch)) (h_write h) (h_read h)
                      (h_append h) (h_dir h) (h_name h))
        end
    | _ => (Err EBADF, h)
    end.

Definition fs_write (s : fstate) (h : handle) (data : list N) : res unit * (fstate * handle) :=
  if negb (h_write h) then (Err EBADF, (s, h))
  else
    match st_fs s !! h_key h with
    | Some (File m c) =>
        let pos := if h_append h then length c else N.to_nat (h_pos h) in
        let c' := firstn pos c ++ data ++ skipn (pos + length data) c in
        let '(t, s1) := tick_clock s in
        (Ok tt,
         (update_node s1 (h_key h) (File (mkMeta (m_perm m) (m_uid m) (m_gid m) t) c'),
          mkHandle (h_key h) (N.of_nat (pos + length data)) (h_write h) (h_read h)
                   (h_append h) (h_dir h) (h_name h)))
    | _ => (Err EBADF, (s, h))
    end.

Definition fs_hstat (s : fstate) (h : handle) : res finfo :=
  match st_fs s !! h_key h with
  | Some n => Ok (info_of (base (h_name h)) n)
  | None => Err EBADF
  end.

Definition fs_readdirnames (s : fstate) (h : handle) : res (list str) :=
  if h_dir h then Ok (child_names (st_fs s) (h_key h)) else Err ENOTDIR.

(** the empty filesystem: just the root directory *)
Definition root_meta : meta := mkMeta 493 0 0 (Preset 0).
Definition fs_empty : fstate := mkFstate (<[ [] := Dir root_meta ]> ∅) 0.
