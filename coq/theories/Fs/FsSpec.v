(** Key-level vocabulary for reasoning about the filesystem model on paths
    that are *resolved*: cleaned, absolute, and without a symlink among their
    parent components.  On such paths the kernel walk is a plain lookup of
    the component list, which is what the BackupFS proofs use. *)
From stdpp Require Import gmap.
From BFS Require Export Fs.FsModel.

(** proper prefixes of a key, shortest first: [[]; [a]; [a;b]] for [a;b;c] *)
Fixpoint kprefixes (k : key) : list key :=
  match k with
  | [] => []
  | c :: r => [] :: map (cons c) (kprefixes r)
  end.

Definition is_dir_at (f : fs) (k : key) : Prop := exists m, f !! k = Some (Dir m).
Definition not_link_at (f : fs) (k : key) : Prop := forall m t, f !! k <> Some (Link m t).

(** well-formed tree: the root is a directory, every entry's parent is a directory *)
Definition wf (f : fs) : Prop :=
  is_dir_at f [] /\ forall k n, f !! k = Some n -> k <> [] -> is_dir_at f (removelast k).

Definition abs_cleaned (p : str) : Prop := cleaned p /\ is_abs p = true.

(** every proper ancestor of [p] is a directory: [p] can be addressed directly *)
Definition direct (f : fs) (p : str) : Prop :=
  abs_cleaned p /\ Forall (is_dir_at f) (kprefixes (comps p)).

(** no proper ancestor of [p] is a symlink (they may be missing or files) *)
Definition nolinkpar (f : fs) (p : str) : Prop :=
  abs_cleaned p /\ Forall (not_link_at f) (kprefixes (comps p)).

(** the path string of a key *)
Definition kpath (k : key) : str := render true k.

(** two trees agree except for the timestamps of directories *)
Definition meta_eq_nomt (a b : meta) : Prop :=
  m_perm a = m_perm b /\ m_uid a = m_uid b /\ m_gid a = m_gid b.

Definition node_eqv (a b : node) : Prop :=
  match a, b with
  | Dir ma, Dir mb => meta_eq_nomt ma mb
  | _, _ => a = b
  end.

Definition onode_eqv (a b : option node) : Prop :=
  match a, b with
  | Some x, Some y => node_eqv x y
  | None, None => True
  | _, _ => False
  end.

(** equal up to directory timestamps and the root directory's own metadata *)
Definition fs_eqv (f g : fs) : Prop :=
  forall k, k <> [] -> onode_eqv (f !! k) (g !! k).
