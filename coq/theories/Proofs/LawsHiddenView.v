(** The view [VpH pa h] of the documented layering (Spec/ViewHidden.v) as a
    function [FH] of the view [Vp pa]: lookup, well-formedness, the bridging
    predicates of the laws, and "filtering commutes with an update at a shown
    path". *)
From stdpp Require Import gmap.
From BFS Require Import Spec.CopySpecs Spec.ViewOsfs Spec.ViewHidden.
From BFS Require Import Proofs.LawsOsfsBase Proofs.BackupCopy Proofs.LawsHiddenBase.
Local Open Scope nat_scope.

Section View.
  Variables pa h : str.
  Hypothesis Ha : prefix_ok pa.
  Hypothesis Hh : hidden_ok h.

  Let Hhac : abs_cleaned h := proj1 Hh.

  Notation shown := (fun kv : str * node => shownb h (fst kv) = true).

  (** the view of the base as a function of the view of the underlying PrefixFS *)
  Definition FH (s : store) : store :=
    match s !! h with
    | Some (Dir _) => base.filter shown s
    | _ => ∅
    end.

  Lemma VpH_FH (w : world) : VpH pa h w = FH (Vp pa w).
  Proof. reflexivity. Qed.

  Lemma FH_dir (s : store) : sdir s h -> FH s = base.filter shown s.
  Proof. intros [m Hm]. unfold FH. rewrite Hm. reflexivity. Qed.

  Lemma FH_nodir (s : store) : ~ sdir s h -> FH s = ∅.
  Proof.
    intros Hn. unfold FH. destruct (s !! h) as [[m | m c | m t]|] eqn:E; try reflexivity.
    contradiction Hn. exists m. exact E.
  Qed.

  Lemma FH_lookup (s : store) (p : str) :
    sdir s h -> FH s !! p = if shownb h p then s !! p else None.
  Proof.
    intros Hd. rewrite (FH_dir s Hd). destruct (shownb h p) eqn:E.
    - destruct (s !! p) as [n|] eqn:Hp.
      + apply map_filter_lookup_Some. split; [exact Hp | exact E].
      + apply map_filter_lookup_None. left. exact Hp.
    - apply map_filter_lookup_None. right. intros n _ Hs. cbn [fst] in Hs. congruence.
  Qed.

  Lemma FH_lookup_shown (s : store) (p : str) : sdir s h -> shownb h p = true -> FH s !! p = s !! p.
  Proof. intros Hd Hs. rewrite (FH_lookup s p Hd), Hs. reflexivity. Qed.

  Lemma FH_lookup_hidden (s : store) (p : str) : shownb h p = false -> FH s !! p = None.
  Proof.
    intros Hs. destruct (s !! h) as [[m | m c | m t]|] eqn:E.
    - rewrite (FH_lookup s p (ex_intro _ m E)), Hs. reflexivity.
    - unfold FH. rewrite E. apply lookup_empty.
    - unfold FH. rewrite E. apply lookup_empty.
    - unfold FH. rewrite E. apply lookup_empty.
  Qed.

  Lemma FH_lookup_Some (s : store) (p : str) (n : node) :
    FH s !! p = Some n -> sdir s h /\ shownb h p = true /\ s !! p = Some n.
  Proof.
    intros H. destruct (s !! h) as [[m | m c | m t]|] eqn:E;
      try (unfold FH in H; rewrite E, lookup_empty in H; discriminate H).
    assert (Hd : sdir s h) by (exists m; exact E).
    split; [exact Hd |]. rewrite (FH_lookup s p Hd) in H.
    destruct (shownb h p); [split; [reflexivity | exact H] | discriminate H].
  Qed.

  Lemma FH_nonempty_dir (s : store) (p : str) : FH s !! p <> None -> sdir s h.
  Proof.
    intros H. destruct (FH s !! p) as [n|] eqn:E; [| contradiction H; reflexivity].
    exact (proj1 (FH_lookup_Some s p n E)).
  Qed.

  (** ** filtering commutes with an update at a shown path *)
  Lemma sdir_insert_ne (s : store) (p : str) (n : node) : p <> h -> sdir s h -> sdir (<[p := n]> s) h.
  Proof. intros Hne [m Hm]. exists m. rewrite lookup_insert_ne by exact Hne. exact Hm. Qed.

  Lemma shown_ne_h (p : str) : shownb h p = true -> p <> h.
  Proof. intros Hs ->. rewrite (shownb_self h) in Hs. discriminate Hs. Qed.

  Lemma FH_insert (s : store) (p : str) (n : node) :
    sdir s h -> shownb h p = true -> FH (<[p := n]> s) = <[p := n]> (FH s).
  Proof.
    intros Hd Hs. rewrite (FH_dir s Hd), (FH_dir _ (sdir_insert_ne s p n (shown_ne_h p Hs) Hd)).
    apply map_filter_insert_True. exact Hs.
  Qed.

  (** ** equivalence up to what the properties exempt *)
  Lemma sonode_eqv_dir_l (a b : option node) : sonode_eqv a b -> (exists m, b = Some (Dir m)) ->
    exists m, a = Some (Dir m).
  Proof.
    intros He [m ->]. destruct a as [[m' | m' c | m' t]|]; simpl in He; try contradiction.
    exists m'. reflexivity.
  Qed.

  Lemma sdir_eqv_except (ps : list str) (s' s : store) :
    store_eqv_except ps s' s -> ~ In h ps -> sdir s h -> sdir s' h.
  Proof. intros He Hn Hd. exact (sonode_eqv_dir_l _ _ (He h Hn) Hd). Qed.

  Lemma FH_eqv_except (ps : list str) (s' s : store) :
    store_eqv_except ps s' s -> ~ In h ps -> sdir s h -> store_eqv_except ps (FH s') (FH s).
  Proof.
    intros He Hn Hd q Hq. pose proof (sdir_eqv_except ps s' s He Hn Hd) as Hd'.
    rewrite (FH_lookup s' q Hd'), (FH_lookup s q Hd).
    destruct (shownb h q); [exact (He q Hq) | exact I].
  Qed.

  Lemma shown_not_in (ps : list str) : Forall (fun p => shownb h p = true) ps -> ~ In h ps.
  Proof.
    intros Hf Hin. rewrite List.Forall_forall in Hf. pose proof (Hf h Hin) as Hs.
    rewrite (shownb_self h) in Hs. discriminate Hs.
  Qed.

  (** ** well-formedness *)
  Lemma sdir_FH (s : store) (a : str) : sdir s h -> shownb h a = true -> (sdir (FH s) a <-> sdir s a).
  Proof. intros Hd Hs. unfold sdir. rewrite (FH_lookup_shown s a Hd Hs). reflexivity. Qed.

  (** the keys of a well-formed store are absolute and cleaned *)
  Lemma swf_key_ac (s : store) (p : str) (n : node) : swf s -> s !! p = Some n -> abs_cleaned p.
  Proof. intros [_ Hall] Hp. exact (proj1 (proj1 (Hall p n Hp))). Qed.

  Lemma swf_FH (s : store) : swf s -> sdir s h -> swf (FH s).
  Proof.
    intros Hwf Hd. pose proof Hwf as [Hroot Hall]. split.
    - apply (sdir_FH s s_root Hd (shownb_root h Hh)). exact Hroot.
    - intros p n Hp. destruct (FH_lookup_Some s p n Hp) as (_ & Hs & Hp').
      destruct (Hall p n Hp') as [[Hac Hf] H12]. split; [| exact H12].
      split; [exact Hac |]. apply List.Forall_forall. intros a Hin.
      apply (sdir_FH s a Hd (shownb_ancestor h p a Hac Hs Hin)).
      rewrite List.Forall_forall in Hf. exact (Hf a Hin).
  Qed.

  (** a well-formed view of the base: the underlying view is well formed and
      shows the location as a directory *)
  Lemma swf_FH_inv (s : store) : swf (FH s) -> sdir s h.
  Proof.
    intros [[m Hm] _]. apply (FH_nonempty_dir s s_root). rewrite Hm. discriminate.
  Qed.

  Lemma swf_VpH (w : world) : swf (VpH pa h w) -> swf (Vp pa w) /\ sdir (Vp pa w) h.
  Proof.
    intros Hwf. rewrite VpH_FH in Hwf. pose proof (swf_FH_inv _ Hwf) as Hd. split; [| exact Hd].
    apply (swf_Vp_iff pa w Ha). destruct Hd as [m Hm]. exact (Vp_lookup_Some_ok pa w h _ Hm).
  Qed.

  (** ** the bridging predicates, for a shown path *)
  Lemma snotlink_FH (s : store) (a : str) :
    sdir s h -> shownb h a = true -> snotlink (FH s) a -> snotlink s a.
  Proof. intros Hd Hs Hn m t E. apply (Hn m t). rewrite (FH_lookup_shown s a Hd Hs). exact E. Qed.

  Lemma snolinkpar_FH (s : store) (p : str) :
    sdir s h -> shownb h p = true -> snolinkpar (FH s) p -> snolinkpar s p.
  Proof.
    intros Hd Hs [Hac Hf]. split; [exact Hac |]. apply List.Forall_forall. intros a Hin.
    apply (snotlink_FH s a Hd (shownb_ancestor h p a Hac Hs Hin)).
    rewrite List.Forall_forall in Hf. exact (Hf a Hin).
  Qed.

  Lemma sdirect_FH (s : store) (p : str) :
    sdir s h -> shownb h p = true -> sdirect (FH s) p -> sdirect s p.
  Proof.
    intros Hd Hs [Hac Hf]. split; [exact Hac |]. apply List.Forall_forall. intros a Hin.
    apply (sdir_FH s a Hd (shownb_ancestor h p a Hac Hs Hin)).
    rewrite List.Forall_forall in Hf. exact (Hf a Hin).
  Qed.

  (** an entry without children in the view of the base has none in the
      underlying view either, unless it is an ancestor of the location *)
  Lemma no_children_FH (s : store) (p : str) :
    swf s -> sdir s h -> abs_cleaned p -> shownb h p = true -> ~ anc_h h p ->
    no_children (FH s) p -> no_children s p.
  Proof.
    intros Hwf Hd Hac Hs Hna Hnc q n Hq Hne Hin.
    destruct (shownb h q) eqn:Hsq.
    - apply (Hnc q n); [| exact Hne | exact Hin]. rewrite (FH_lookup_shown s q Hd Hsq). exact Hq.
    - (* [q] at or below the location and [p] above [q]: [p] and the location are comparable *)
      pose proof (swf_key_ac s q n Hwf Hq) as Hqac.
      destruct (comps_ancestor q p Hqac Hin) as (_ & r & Hr & Eq).
      unfold shownb in Hsq. apply negb_false_iff in Hsq. apply key_prefixb_iff in Hsq.
      destruct Hsq as [r' Eq']. rewrite Eq in Eq'.
      destruct (app_eq_app_prefix _ _ _ _ _ Eq') as [[x Hx] | [x Hx]].
      + (* comps h = comps p ++ x *)
        destruct x as [| c x].
        * rewrite app_nil_r in Hx. unfold shownb in Hs. rewrite Hx, key_prefixb_refl in Hs. discriminate Hs.
        * apply Hna. apply (anc_of_comps h Hh p (c :: x) Hac); [discriminate | exact Hx].
      + unfold shownb in Hs. rewrite Hx, key_prefixb_app in Hs. discriminate Hs.
  Qed.

  Lemma has_children_FH (s : store) (p : str) : sdir s h -> ~ no_children (FH s) p -> ~ no_children s p.
  Proof.
    intros Hd Hnn Hnc. apply Hnn. intros q n Hq Hne Hin.
    destruct (FH_lookup_Some s q n Hq) as (_ & _ & Hq'). exact (Hnc q n Hq' Hne Hin).
  Qed.

  (** the location is below each of its proper ancestors *)
  Lemma anc_has_child (s : store) (p : str) : sdir s h -> anc_h h p -> ~ no_children s p.
  Proof.
    intros [m Hm] Ha' Hnc. destruct (anc_spec h Hh p Ha') as (_ & _ & Hne & _).
    apply (Hnc h (Dir m) Hm); [intros E; exact (Hne (eq_sym E)) | exact Ha'].
  Qed.

  (** the proper ancestors of the location are directories of every well-formed view *)
  Lemma anc_sdir (s : store) (p : str) : swf s -> sdir s h -> anc_h h p -> sdir s p.
  Proof.
    intros [_ Hall] [m Hm] Ha'. destruct (Hall h (Dir m) Hm) as [[_ Hf] _].
    rewrite List.Forall_forall in Hf. exact (Hf p Ha').
  Qed.
End View.
