(** Facts about the HiddenFS call transformer ([Layers/Call.v]):
    [is_in_hidden_path] / [dir_contains] decide component-wise containment
    ([within]) on cleaned, comparable, plain paths; consequences for
    [is_hidden], [is_parent_of_hidden] and [hiddenfs_call].
    Used by Props/C06.v, Props/C15.v, Props/C11.v. *)
From BFS Require Import Base.Bytes Path.GoPath Path.PathSpec.
From BFS Require Import Layers.Call Layers.LayerSpec.
From BFS Require Import Proofs.PathFacts.
Local Open Scope nat_scope.

(* ------------------------------------------------------------------ *)
(** * [strip_common] *)

Lemma strip_common_l_nil : forall a b t,
  strip_common a b = ([], t) -> b = a ++ t.
Proof.
  induction a as [|x a IH]; intros b t H.
  - destruct b as [|y b]; simpl in H; inversion H; reflexivity.
  - destruct b as [|y b]; simpl in H.
    + discriminate H.
    + destruct (str_eqb_spec x y) as [E|E].
      * subst y. simpl. f_equal. apply IH. exact H.
      * discriminate H.
Qed.

Lemma strip_common_l_cons : forall a b x r t,
  strip_common a b = (x :: r, t) ->
  In x a /\ ~ exists rest, b = a ++ rest.
Proof.
  induction a as [|x0 a IH]; intros b x r t H.
  - destruct b as [|y b]; simpl in H; discriminate H.
  - destruct b as [|y b]; simpl in H.
    + inversion H; subst. split.
      * left. reflexivity.
      * intros [rest E]. discriminate E.
    + destruct (str_eqb_spec x0 y) as [E|E].
      * subst y. destruct (IH b x r t H) as [Hin Hnp]. split.
        -- right. exact Hin.
        -- intros [rest E]. apply Hnp. exists rest. simpl in E.
           inversion E. reflexivity.
      * inversion H; subst. split.
        -- left. reflexivity.
        -- intros [rest E2]. simpl in E2. inversion E2. congruence.
Qed.

(* ------------------------------------------------------------------ *)
(** * Shape of the relative path computed by [rel] *)

Definition dds : str := s_dotdot ++ [sep].

Lemma sep_neq_dot' : sep = dot -> False.
Proof. intro H. discriminate H. Qed.

Lemma join_sep_no_climb : forall t,
  Forall good_comp t -> ~ In s_dotdot t ->
  has_prefix (join_sep t) dds = false /\ str_eqb (join_sep t) s_dotdot = false.
Proof.
  intros t Hg Hnd.
  destruct t as [|c t].
  - split; reflexivity.
  - assert (Hc : good_comp c) by (inversion Hg; assumption).
    assert (Hcd : c <> s_dotdot) by (intro E; apply Hnd; left; exact E).
    destruct Hc as [Hc1 [Hc2 Hc3]].
    destruct t as [|c2 t].
    + simpl. split.
      * destruct (has_prefix c dds) eqn:E; [|reflexivity].
        apply has_prefix_iff in E. destruct E as [r E].
        exfalso. apply Hc3. rewrite E. unfold dds, s_dotdot. simpl.
        right. right. left. reflexivity.
      * apply str_eqb_neq. exact Hcd.
    + rewrite join_sep_cons by discriminate.
      set (J := join_sep (c2 :: t)). split.
      * destruct (has_prefix (c ++ sep :: J) dds) eqn:E; [|reflexivity].
        apply has_prefix_iff in E. destruct E as [r E]. exfalso.
        unfold dds, s_dotdot in E. simpl in E.
        destruct c as [|x [|y [|z c']]]; simpl in E.
        -- apply Hc1. reflexivity.
        -- inversion E.
        -- inversion E. subst. apply Hcd. reflexivity.
        -- inversion E. subst. apply Hc3. simpl. right. right. left. reflexivity.
      * apply str_eqb_neq. intro E. unfold s_dotdot in E.
        destruct c as [|x [|y c']]; simpl in E.
        -- apply Hc1. reflexivity.
        -- inversion E.
        -- inversion E as [[E1 E2 E3]]. destruct c'; discriminate E3.
Qed.

Lemma join_sep_not_dot : forall t,
  Forall good_comp t -> str_eqb (join_sep t) s_dot = false.
Proof.
  intros t Hg. apply str_eqb_neq.
  destruct t as [|c t].
  - simpl. discriminate.
  - assert (Hc : good_comp c) by (inversion Hg; assumption).
    destruct Hc as [Hc1 [Hc2 Hc3]].
    destruct t as [|c2 t].
    + simpl. exact Hc2.
    + rewrite join_sep_cons by discriminate. intro E. unfold s_dot in E.
      destruct c as [|x c']; simpl in E.
      * apply Hc1. reflexivity.
      * inversion E as [[E1 E2]]. destruct c'; discriminate E2.
Qed.

Lemma join_dd_climb : forall (b : list str) t,
  b <> [] ->
  str_eqb (join_sep (map (fun _ => s_dotdot) b ++ t)) s_dot = false /\
  (has_prefix (join_sep (map (fun _ => s_dotdot) b ++ t)) dds
   || str_eqb (join_sep (map (fun _ => s_dotdot) b ++ t)) s_dotdot) = true.
Proof.
  intros b t Hb. destruct b as [|x b]; [contradiction Hb; reflexivity|].
  simpl map. simpl app.
  destruct (map (fun _ : str => s_dotdot) b ++ t) as [|c l].
  - split; reflexivity.
  - rewrite join_sep_cons by discriminate. split; [reflexivity|].
    change (s_dotdot ++ sep :: join_sep (c :: l)) with (dds ++ join_sep (c :: l)).
    rewrite has_prefix_app. reflexivity.
Qed.

(** Classification of [rel base targ] for cleaned, comparable, plain paths. *)
Lemma rel_class : forall h n,
  cleaned h -> cleaned n -> is_abs h = is_abs n -> plain h -> plain n ->
  (h = n /\ within h n /\ rel h n = Some s_dot) \/
  (h <> n /\ within h n /\ exists r, rel h n = Some r /\
     str_eqb r s_dot = false /\ has_prefix r dds = false /\ str_eqb r s_dotdot = false) \/
  (h <> n /\ ~ within h n /\ exists r, rel h n = Some r /\
     str_eqb r s_dot = false /\ (has_prefix r dds || str_eqb r s_dotdot) = true).
Proof.
  intros h n Hch Hcn Habs Hph Hpn.
  unfold rel. unfold cleaned in Hch, Hcn. rewrite Hch, Hcn.
  destruct (str_eqb_spec h n) as [E|E].
  - left. split; [exact E|]. split; [|reflexivity].
    subst n. split; [reflexivity|]. exists []. split.
    + rewrite app_nil_r. reflexivity.
    + intro F. exact F.
  - right. rewrite Habs. rewrite Bool.eqb_reflx. simpl negb. cbv iota.
    destruct (strip_common (comps h) (comps n)) as [b' t'] eqn:Es.
    destruct b' as [|h0 b'].
    + left. apply strip_common_l_nil in Es.
      assert (Hnd : ~ In s_dotdot t').
      { intro F. apply Hpn. rewrite Es. apply in_or_app. right. exact F. }
      assert (Hg : Forall good_comp t').
      { pose proof (comps_good n) as G. rewrite Es in G.
        apply Forall_app in G. destruct G as [_ G]. exact G. }
      split; [exact E|]. split.
      * split; [exact Habs|]. exists t'. split; assumption.
      * exists (join_sep t'). split; [reflexivity|].
        destruct (join_sep_no_climb t' Hg Hnd) as [H1 H2].
        split; [apply join_sep_not_dot; exact Hg|]. split; assumption.
    + right. apply strip_common_l_cons in Es. destruct Es as [Hin Hnp].
      assert (Hh0 : str_eqb h0 s_dotdot = false).
      { apply str_eqb_neq. intro F. apply Hph. rewrite <- F. exact Hin. }
      rewrite Hh0.
      split; [exact E|]. split.
      * intros [_ [rest [Hr _]]]. apply Hnp. exists rest. exact Hr.
      * eexists. split; [reflexivity|].
        apply (join_dd_climb (h0 :: b') t'). discriminate.
Qed.

(* ------------------------------------------------------------------ *)
(** * [is_in_hidden_path] and [dir_contains] *)

Lemma in_hidden_spec : forall h n,
  cleaned h -> cleaned n -> is_abs h = is_abs n -> plain h -> plain n ->
  exists b, is_in_hidden_path n h = Some b /\ (b = true <-> within h n).
Proof.
  intros h n Hch Hcn Habs Hph Hpn.
  unfold is_in_hidden_path. fold dds.
  destruct (rel_class h n Hch Hcn Habs Hph Hpn)
    as [[E [Hw Hr]] | [[E [Hw [r [Hr [R1 [R2 R3]]]]]] | [E [Hw [r [Hr [R1 R2]]]]]]].
  - rewrite Hr. exists true. split; [reflexivity|]. split; intros _; [exact Hw|reflexivity].
  - rewrite Hr. rewrite R1, R2, R3. exists true. split; [reflexivity|].
    split; intros _; [exact Hw|reflexivity].
  - rewrite Hr. rewrite R1.
    destruct (str_eqb r s_dotdot) eqn:R3; destruct (has_prefix r dds) eqn:R4;
      try discriminate R2;
      (exists false; split; [reflexivity|]; split; intro F; [discriminate F|contradiction]).
Qed.

Lemma dir_contains_spec : forall p h,
  cleaned p -> cleaned h -> is_abs p = is_abs h -> plain p -> plain h ->
  exists b, dir_contains p h = Some b /\ (b = true <-> within p h /\ p <> h).
Proof.
  intros p h Hcp Hch Habs Hpp Hph.
  unfold dir_contains. fold dds.
  destruct (rel_class p h Hcp Hch Habs Hpp Hph)
    as [[E [Hw Hr]] | [[E [Hw [r [Hr [R1 [R2 R3]]]]]] | [E [Hw [r [Hr [R1 R2]]]]]]].
  - rewrite Hr. exists false. split; [reflexivity|].
    split; intro F; [discriminate F|]. destruct F as [_ F]. contradiction.
  - rewrite Hr. rewrite R1, R2, R3. exists true. split; [reflexivity|].
    split; intros _; [split; assumption|reflexivity].
  - rewrite Hr. rewrite R1, R2. exists false. split; [reflexivity|].
    split; intro F; [discriminate F|]. destruct F as [F _]. contradiction.
Qed.

(* ------------------------------------------------------------------ *)
(** * The loops *)

Lemma is_hidden_loop_spec : forall hs n,
  Forall cleaned hs -> cleaned n -> plain n ->
  Forall (fun h => is_abs h = is_abs n /\ plain h) hs ->
  exists b, is_hidden_loop n hs = Some b /\
            (b = true <-> exists h, In h hs /\ within h n).
Proof.
  induction hs as [|h hs IH]; intros n Hc Hcn Hpn Hcmp.
  - exists false. split; [reflexivity|]. split; intro F; [discriminate F|].
    destruct F as [h [[] _]].
  - inversion Hc as [|? ? Hch Hc']; subst.
    inversion Hcmp as [|? ? [Habs Hph] Hcmp']; subst.
    simpl.
    destruct (in_hidden_spec h n Hch Hcn Habs Hph Hpn) as [b [Hb Hbw]].
    rewrite Hb. destruct b.
    + exists true. split; [reflexivity|]. split; intros _; [|reflexivity].
      exists h. split; [left; reflexivity|]. apply Hbw. reflexivity.
    + destruct (IH n Hc' Hcn Hpn Hcmp') as [b [Hb2 Hbw2]].
      exists b. split; [exact Hb2|]. rewrite Hbw2. split.
      * intros [h' [Hin Hw]]. exists h'. split; [right; exact Hin|exact Hw].
      * intros [h' [[Hin|Hin] Hw]].
        -- subst h'. apply Hbw in Hw. discriminate Hw.
        -- exists h'. split; assumption.
Qed.

Lemma parent_hidden_loop_spec : forall hs n,
  Forall cleaned hs -> cleaned n -> plain n ->
  Forall (fun h => is_abs h = is_abs n /\ plain h) hs ->
  exists b, parent_hidden_loop n hs = Some b /\
            (b = true <-> exists h, In h hs /\ within n h /\ n <> h).
Proof.
  induction hs as [|h hs IH]; intros n Hc Hcn Hpn Hcmp.
  - exists false. split; [reflexivity|]. split; intro F; [discriminate F|].
    destruct F as [h [[] _]].
  - inversion Hc as [|? ? Hch Hc']; subst.
    inversion Hcmp as [|? ? [Habs Hph] Hcmp']; subst.
    simpl.
    destruct (dir_contains_spec n h Hcn Hch (eq_sym Habs) Hpn Hph) as [b [Hb Hbw]].
    rewrite Hb. destruct b.
    + exists true. split; [reflexivity|]. split; intros _; [|reflexivity].
      exists h. split; [left; reflexivity|]. apply Hbw. reflexivity.
    + destruct (IH n Hc' Hcn Hpn Hcmp') as [b [Hb2 Hbw2]].
      exists b. split; [exact Hb2|]. rewrite Hbw2. split.
      * intros [h' [Hin Hw]]. exists h'. split; [right; exact Hin|exact Hw].
      * intros [h' [[Hin|Hin] Hw]].
        -- subst h'. apply Hbw in Hw. discriminate Hw.
        -- exists h'. split; assumption.
Qed.

Lemma is_hidden_bool : forall hs n,
  Forall cleaned hs -> comparable hs n ->
  exists b, is_hidden n hs = Some b /\ (b = true <-> below hs n).
Proof.
  intros hs n Hc [Hpn Hcmp].
  unfold is_hidden, below.
  destruct hs as [|h hs].
  - exists false. split; [reflexivity|]. split; intro F; [discriminate F|].
    destruct F as [h [[] _]].
  - apply is_hidden_loop_spec; try assumption. apply cleaned_clean.
Qed.

Lemma is_parent_bool : forall hs n,
  Forall cleaned hs -> comparable hs n ->
  exists b, is_parent_of_hidden n hs = Some b /\ (b = true <-> above_hidden hs n).
Proof.
  intros hs n Hc [Hpn Hcmp].
  unfold is_parent_of_hidden, above_hidden.
  destruct hs as [|h hs].
  - exists false. split; [reflexivity|]. split; intro F; [discriminate F|].
    destruct F as [h [[] _]].
  - apply parent_hidden_loop_spec; try assumption. apply cleaned_clean.
Qed.

Lemma is_hidden_below : forall hs n,
  Forall cleaned hs -> comparable hs n -> below hs n -> is_hidden n hs = Some true.
Proof.
  intros hs n Hc Hcmp Hb. destruct (is_hidden_bool hs n Hc Hcmp) as [b [Hb1 Hb2]].
  rewrite Hb1. f_equal. apply Hb2. exact Hb.
Qed.

Lemma is_hidden_not_below : forall hs n,
  Forall cleaned hs -> comparable hs n -> ~ below hs n -> is_hidden n hs = Some false.
Proof.
  intros hs n Hc Hcmp Hb. destruct (is_hidden_bool hs n Hc Hcmp) as [b [Hb1 Hb2]].
  rewrite Hb1. f_equal. destruct b; [|reflexivity]. exfalso. apply Hb. apply Hb2. reflexivity.
Qed.

Lemma is_parent_not_above : forall hs n,
  Forall cleaned hs -> comparable hs n -> ~ above_hidden hs n ->
  is_parent_of_hidden n hs = Some false.
Proof.
  intros hs n Hc Hcmp Hb. destruct (is_parent_bool hs n Hc Hcmp) as [b [Hb1 Hb2]].
  rewrite Hb1. f_equal. destruct b; [|reflexivity]. exfalso. apply Hb. apply Hb2. reflexivity.
Qed.

Lemma is_parent_above : forall hs n,
  Forall cleaned hs -> comparable hs n -> above_hidden hs n ->
  is_parent_of_hidden n hs = Some true.
Proof.
  intros hs n Hc Hcmp Hb. destruct (is_parent_bool hs n Hc Hcmp) as [b [Hb1 Hb2]].
  rewrite Hb1. f_equal. apply Hb2. exact Hb.
Qed.

(* ------------------------------------------------------------------ *)
(** * Statements used by Props/C06.v *)

Lemma is_hidden_spec :
  forall hs n, Forall cleaned hs -> comparable hs n ->
  (below hs n -> is_hidden n hs = Some true) /\ (~ below hs n -> is_hidden n hs = Some false).
Proof.
  intros hs n Hc Hcmp. split.
  - apply is_hidden_below; assumption.
  - apply is_hidden_not_below; assumption.
Qed.

Lemma hiddenfs_lexical_single :
  forall hs m n aux, Forall cleaned hs -> comparable hs n -> two_paths m = false ->
  below hs n ->
  hiddenfs_call hs (mkCall m n [] aux) =
  Rej (match m with
       | MMkdir | MMkdirAll | MCreate => EHiddenPerm
       | MOpenFile => if has_o_create aux then EHiddenPerm else EHiddenNotExist
       | _ => EHiddenNotExist
       end).
Proof.
  intros hs m n aux Hc Hcmp Htwo Hb.
  pose proof (is_hidden_below hs n Hc Hcmp Hb) as Hh.
  unfold hiddenfs_call.
  destruct m; simpl in Htwo; try discriminate Htwo; simpl; rewrite Hh; reflexivity.
Qed.

Lemma hiddenfs_lexical_rename :
  forall hs a b aux, Forall cleaned hs -> comparable hs a -> comparable hs b ->
  (below hs a -> hiddenfs_call hs (mkCall MRename a b aux) = Rej EHiddenNotExist) /\
  (~ below hs a -> below hs b -> hiddenfs_call hs (mkCall MRename a b aux) = Rej EHiddenPerm).
Proof.
  intros hs a b aux Hc Hca Hcb. unfold hiddenfs_call. simpl. split.
  - intro Ha. rewrite (is_hidden_below hs a Hc Hca Ha). reflexivity.
  - intros Ha Hb. rewrite (is_hidden_not_below hs a Hc Hca Ha).
    rewrite (is_hidden_below hs b Hc Hcb Hb). reflexivity.
Qed.

Lemma hiddenfs_lexical_symlink :
  forall hs t l aux, Forall cleaned hs ->
  comparable hs l -> comparable hs (to_abs_symlink t l) ->
  (below hs l \/ below hs (to_abs_symlink t l)) ->
  hiddenfs_call hs (mkCall MSymlink t l aux) = Rej EHiddenPerm.
Proof.
  intros hs t l aux Hc Hcl Hct Hor. unfold hiddenfs_call. simpl.
  destruct (is_hidden_bool hs (to_abs_symlink t l) Hc Hct) as [bt [Hbt1 Hbt2]].
  rewrite Hbt1. destruct bt; [reflexivity|].
  destruct Hor as [Hl|Ht].
  - rewrite (is_hidden_below hs l Hc Hcl Hl). reflexivity.
  - apply Hbt2 in Ht. discriminate Ht.
Qed.

Lemma hidden_example :
  let hs := [[47;118;97;114;47;98]]%N (* "/var/b" *) in
  Forall cleaned hs /\ comparable hs [47;118;97;114;47;47;98;47;120]%N /\
  below hs [47;118;97;114;47;47;98;47;120]%N (* "/var//b/x" *) /\
  hiddenfs_call hs (mkCall MStat [47;118;97;114;47;47;98;47;120]%N [] []) = Rej EHiddenNotExist /\
  hiddenfs_call hs (mkCall MStat [47;118;97;114;47;98;50]%N [] []) = Fwd (mkCall MStat [47;118;97;114;47;98;50]%N [] []).
Proof.
  cbv zeta.
  split; [|split; [|split; [|split]]].
  - constructor; [|constructor]. unfold cleaned. vm_compute. reflexivity.
  - split.
    + unfold plain. intro F. vm_compute in F.
      repeat (destruct F as [F|F]; [discriminate F|]). exact F.
    + constructor; [|constructor]. split.
      * vm_compute. reflexivity.
      * unfold plain. intro F. vm_compute in F.
        repeat (destruct F as [F|F]; [discriminate F|]). exact F.
  - eexists. split; [left; reflexivity|]. split.
    + vm_compute. reflexivity.
    + exists [[120]%N]. split.
      * vm_compute. reflexivity.
      * intro F. simpl in F. destruct F as [F|F]; [discriminate F|exact F].
  - vm_compute. reflexivity.
  - vm_compute. reflexivity.
Qed.

(* ------------------------------------------------------------------ *)
(** * Statements used by Props/C15.v *)

Lemma hiddenfs_transparent_single :
  forall hs m n aux, Forall cleaned hs -> comparable hs n -> two_paths m = false ->
  ~ below hs n ->
  hiddenfs_call hs (mkCall m n [] aux) =
  match m with
  | MCreate => Fwd (mkCall MOpenFile n [] [578%Z; 438%Z])
  | MOpen => Fwd (mkCall MOpenFile n [] [0%Z; 0%Z])
  | MRemoveAll => Multi
  | _ => Fwd (mkCall m n [] aux)
  end.
Proof.
  intros hs m n aux Hc Hcmp Htwo Hb.
  pose proof (is_hidden_not_below hs n Hc Hcmp Hb) as Hh.
  unfold hiddenfs_call.
  destruct m; simpl in Htwo; try discriminate Htwo; simpl; rewrite Hh; reflexivity.
Qed.

Lemma hiddenfs_transparent_rename :
  forall hs a b aux, Forall cleaned hs -> comparable hs a -> comparable hs b ->
  ~ below hs a -> ~ below hs b -> ~ above_hidden hs a ->
  hiddenfs_call hs (mkCall MRename a b aux) = Fwd (mkCall MRename a b aux).
Proof.
  intros hs a b aux Hc Hca Hcb Ha Hb Hab. unfold hiddenfs_call. simpl.
  rewrite (is_hidden_not_below hs a Hc Hca Ha).
  rewrite (is_hidden_not_below hs b Hc Hcb Hb).
  rewrite (is_parent_not_above hs a Hc Hca Hab). reflexivity.
Qed.

Lemma hiddenfs_transparent_symlink :
  forall hs t l aux, Forall cleaned hs ->
  comparable hs l -> comparable hs (to_abs_symlink t l) ->
  ~ below hs l -> ~ below hs (to_abs_symlink t l) ->
  hiddenfs_call hs (mkCall MSymlink t l aux) = Fwd (mkCall MSymlink t l aux).
Proof.
  intros hs t l aux Hc Hcl Hct Hl Ht. unfold hiddenfs_call. simpl.
  rewrite (is_hidden_not_below hs _ Hc Hct Ht).
  rewrite (is_hidden_not_below hs l Hc Hcl Hl). reflexivity.
Qed.

Lemma sibling_not_hidden :
  forall h n, cleaned h -> comparable [h] n -> ~ within h (clean n) -> is_hidden n [h] = Some false.
Proof.
  intros h n Hch Hcmp Hw. apply is_hidden_not_below.
  - constructor; [exact Hch|constructor].
  - exact Hcmp.
  - intros [h' [[E|[]] Hw']]. subst h'. contradiction.
Qed.

Lemma hiddenfs_nil_identity :
  forall m n aux, two_paths m = false -> m <> MCreate -> m <> MOpen -> m <> MRemoveAll ->
  hiddenfs_call [] (mkCall m n [] aux) = Fwd (mkCall m n [] aux).
Proof.
  intros m n aux Htwo H1 H2 H3.
  destruct m; simpl in Htwo; try discriminate Htwo; try reflexivity;
    exfalso; (apply H1; reflexivity) || (apply H2; reflexivity) || (apply H3; reflexivity).
Qed.

(* ------------------------------------------------------------------ *)
(** * Statements used by Props/C11.v *)

Lemma hiddenfs_rename_ancestor_rejected :
  forall hs a b aux, Forall cleaned hs -> comparable hs a -> comparable hs b ->
  above_hidden hs a ->
  exists e, hiddenfs_call hs (mkCall MRename a b aux) = Rej e.
Proof.
  intros hs a b aux Hc Hca Hcb Hab. unfold hiddenfs_call. simpl.
  destruct (is_hidden_bool hs a Hc Hca) as [ba [Ha _]]. rewrite Ha.
  destruct ba; [eexists; reflexivity|].
  destruct (is_hidden_bool hs b Hc Hcb) as [bb [Hb _]]. rewrite Hb.
  destruct bb; [eexists; reflexivity|].
  rewrite (is_parent_above hs a Hc Hca Hab). eexists; reflexivity.
Qed.

Lemma visible_spec :
  forall dirp hs content e, Forall cleaned hs ->
  (forall x, In x content -> comparable hs (join2 dirp x)) ->
  (In e (filter (fun e => match is_hidden (join2 dirp e) hs with Some false => true | _ => false end) content)
   <-> In e content /\ ~ below hs (join2 dirp e)).
Proof.
  intros dirp hs content e Hc Hcmp. rewrite filter_In. split.
  - intros [Hin Hm]. split; [exact Hin|].
    destruct (is_hidden_bool hs (join2 dirp e) Hc (Hcmp e Hin)) as [b [Hb1 Hb2]].
    rewrite Hb1 in Hm. destruct b; [discriminate Hm|].
    intro F. apply Hb2 in F. discriminate F.
  - intros [Hin Hnb]. split; [exact Hin|].
    rewrite (is_hidden_not_below hs _ Hc (Hcmp e Hin) Hnb). reflexivity.
Qed.
