(** [tryBackup] / [backupDirs] and the covered operations keep the
    transaction invariant [Inv] of Spec/Inv.v.  Proved from the abstract
    filesystem laws (Spec/Laws.v; for the operations forwarded without backup
    and for the walk of RemoveAll also Spec/Laws2.v on the base side) alone.

    Main results: [try_backup_spec] ([try_backup_stmt] of Spec/CopySpecs.v)
    and [step_spec] ([step_stmt]), exactly as stated there.  The section
    lemma [try_backup_specS] says a little more: when no proper ancestor of
    the path is a non-directory, [try_backup] succeeds and the path and its
    ancestors end up tracked.

    How the operations of [covered] are handled ([step_specS]):
    - Create, OpenFile with a non-zero flag (+ write/close through the
      handle), Mkdir, Remove, Symlink, Chmod, Chown, Lchown, Chtimes: resolve,
      [try_backup], one base call framed at the (now tracked) name
      ([guarded_spec], [handle_op_spec], [unit_op_spec]);
    - MkdirAll: the same with the frame [cands n]: [try_backup] tracks the name
      and *every* ancestor, the missing ones as "did not exist"
      ([backup_required] records them), so directories created on the way are
      removed again by Rollback;
    - Rename: both names backed up, frame at the two names ([rename_op_spec]);
    - RemoveAll: [removeall_spec]; every Remove it issues ends in a state
      that satisfies the invariant outright ([remove_strong], from the precise
      laws of Remove), the walk only reads in between ([walk_spec]);
    - Stat, Lstat, Readlink, OpenFile with flags 0 (+ read / Readdirnames /
      attempted write, close): nothing is backed up and the base view does
      not change ([ro_call_spec], [ro_handle_op_spec], [ro_open_write_spec]). *)
From stdpp Require Import gmap.
From BFS Require Import Spec.CopySpecs.
From BFS Require Import Path.PathSpec.
From BFS Require Import Proofs.PathFacts Proofs.C19Facts Proofs.RollbackFacts Proofs.FsFacts
                        Proofs.BackupCopy.

(* ------------------------------------------------------------------ *)
(** * Path algebra: [dir], [cands], [ancestors] *)

Lemma norm_snoc_empty (rooted : bool) (cs : list str) : forall stk,
  norm rooted (cs ++ [[]]) stk = norm rooted cs stk.
Proof.
  induction cs as [|c r IH]; intro stk.
  - reflexivity.
  - rewrite <- app_comm_cons. rewrite !norm_cons.
    destruct (str_eqb c [] || str_eqb c s_dot); [apply IH |].
    destruct (str_eqb c s_dotdot).
    + destruct stk as [|t stk'].
      * destruct rooted; apply IH.
      * destruct (str_eqb t s_dotdot); apply IH.
    + apply IH.
Qed.

Lemma prefixes_from_snoc_eq {A} (l : list A) (x : A) : forall acc,
  prefixes_from acc (l ++ [x]) = prefixes_from acc l ++ [acc ++ l ++ [x]].
Proof.
  induction l as [|y r IH]; intro acc; simpl.
  - reflexivity.
  - rewrite IH. rewrite <- !app_assoc. reflexivity.
Qed.

(** [filepath.Dir] of a resolved path below the root is its parent *)
Lemma dir_spec (p : str) (init : list str) (c : str) :
  abs_cleaned p -> comps p = init ++ [c] -> dir p = render true init.
Proof.
  intros Hac Ek.
  assert (Hne : comps p <> []).
  { rewrite Ek. intros E. apply app_eq_nil in E. destruct E as [_ E]. discriminate E. }
  pose proof (upto_last_sep_abs_cleaned p Hac Hne) as Eu.
  rewrite Ek, removelast_last in Eu.
  pose proof (comps_normal p) as Hn. rewrite (proj2 Hac), Ek in Hn.
  pose proof (normal_app_l _ _ _ Hn) as Hni.
  pose proof (normal_good _ _ Hni) as Hgi.
  unfold dir. rewrite Eu. unfold clean.
  assert (Hcomps : comps (sep :: join_sep (init ++ [[]])) = init).
  { unfold comps.
    change (is_abs (sep :: join_sep (init ++ [[]]))) with true.
    change (split_sep (sep :: join_sep (init ++ [[]])))
      with ([] :: split_sep (join_sep (init ++ [[]]))).
    rewrite split_join.
    - change (norm true ([] :: init ++ [[]]) []) with (norm true (init ++ [[]]) []).
      rewrite norm_snoc_empty. apply norm_normal. exact Hni.
    - intros E. apply app_eq_nil in E. destruct E as [_ E]. discriminate E.
    - apply Forall_app. split; [apply Forall_good_nosep; exact Hgi |].
      constructor; [apply nosep_nil | constructor]. }
  rewrite Hcomps. reflexivity.
Qed.

Lemma pchain_snoc (init : list str) (c : str) :
  pchain true (init ++ [c]) = pchain true init ++ [render true (init ++ [c])].
Proof.
  rewrite !pchain_abs. rewrite prefixes_from_snoc_eq. simpl app.
  rewrite app_comm_cons. rewrite map_app. reflexivity.
Qed.

(** the candidates of the parent are the proper ancestors *)
Lemma cands_dir (p : str) : abs_cleaned p -> p <> s_root -> cands (dir p) = ancestors p.
Proof.
  intros Hac Hne.
  assert (Hk : comps p <> []).
  { intros E. apply Hne. apply abs_cleaned_root; assumption. }
  destruct (exists_last Hk) as [init [c Ek]].
  rewrite (dir_spec p init c Hac Ek).
  pose proof (comps_good p) as Hg. rewrite Ek in Hg.
  apply Forall_app in Hg. destruct Hg as [Hgi _].
  rewrite (cands_render true init Hgi).
  unfold ancestors. rewrite (cands_chain p (proj1 Hac)), chain_pchain.
  rewrite (proj2 Hac), Ek, pchain_snoc. rewrite removelast_last. reflexivity.
Qed.

Lemma ancestors_root : ancestors s_root = [].
Proof. vm_compute. reflexivity. Qed.

Lemma abs_cleaned_root_str : abs_cleaned s_root.
Proof. split; vm_compute; reflexivity. Qed.

Lemma ancestors_abs_cleaned (p q : str) : abs_cleaned p -> In q (ancestors p) -> abs_cleaned q.
Proof.
  intros [Hc Ha] Hq. apply (ancestors_spec p q Hc) in Hq. destruct Hq as [Hcq Hanc].
  split; [exact Hcq |]. destruct Hanc as (_ & [Hab _] & _). rewrite Hab. exact Ha.
Qed.

Lemma ancestors_trans (p q r : str) :
  cleaned p -> In q (ancestors p) -> In r (ancestors q) -> In r (ancestors p).
Proof.
  intros Hc Hq Hr. apply (ancestors_spec p q Hc) in Hq. destruct Hq as [Hcq Hqp].
  apply (ancestors_spec q r Hcq) in Hr. destruct Hr as [Hcr Hrq].
  apply (ancestors_spec p r Hc). split; [exact Hcr |].
  exact (ancestor_trans r q p Hcr Hcq Hrq Hqp).
Qed.

(** in the root-first chain, the proper ancestors of an element all come before it *)
Lemma cands_split_ancestors (p : str) (pre rest : list str) (sub q : str) :
  cleaned p -> cands p = pre ++ sub :: rest -> In q (ancestors sub) -> In q pre.
Proof.
  intros Hc E Hq.
  destruct (chain_spec p Hc) as (Hnd & _ & Hsorted & Hin).
  rewrite <- (cands_chain p Hc) in Hnd, Hsorted, Hin. rewrite E in Hnd, Hsorted, Hin.
  assert (Hsub : cleaned sub /\ (sub = p \/ ancestor sub p)).
  { apply Hin. apply in_or_app. right. left. reflexivity. }
  destruct Hsub as [Hcs Hsub].
  apply (ancestors_spec sub q Hcs) in Hq. destruct Hq as [Hcq Hanc].
  assert (Hqp : ancestor q p).
  { destruct Hsub as [-> | Hsp]; [exact Hanc |]. exact (ancestor_trans q sub p Hcq Hcs Hanc Hsp). }
  assert (Hqin : In q (pre ++ sub :: rest)).
  { apply Hin. split; [exact Hcq | right; exact Hqp]. }
  apply in_app_or in Hqin. destruct Hqin as [Hpre | [Heq | Hrest]].
  - exact Hpre.
  - exfalso. destruct Hanc as (Hne & _). apply Hne. symmetry. exact Heq.
  - exfalso.
    pose proof (ancestor_less q sub Hcq Hcs Hanc) as Hlt.
    assert (Hb : before sub q (pre ++ sub :: rest)).
    { apply in_split in Hrest. destruct Hrest as (r1 & r2 & Er). subst rest.
      exists pre, r1, r2. reflexivity. }
    pose proof (sorted_before least sub q _ Hsorted Hb) as M.
    unfold least in M. rewrite (less_asym q sub Hlt) in M. discriminate M.
Qed.

(* ------------------------------------------------------------------ *)
(** * Small facts about nodes and infos *)

Lemma info_matches_eqv (fi : finfo) (n n0 : node) :
  info_matches fi n -> snode_eqv n n0 -> info_matches fi n0.
Proof.
  unfold info_matches. intros (Hk & Hp & Hu & Hg & Hmt) He.
  destruct n as [m | m c | m t], n0 as [m0 | m0 c0 | m0 t0]; simpl in He; try contradiction.
  - destruct He as (E1 & E2 & E3). simpl in *.
    split; [exact Hk | split; [congruence | split; [congruence | split; [congruence |]]]].
    intros D. discriminate D.
  - destruct He as [-> ->]. repeat split; assumption.
  - destruct He as [(E1 & E2 & E3) ->]. simpl in *.
    split; [exact Hk | split; [congruence | split; [congruence | split; [congruence |]]]].
    intros D. discriminate D.
Qed.

Lemma copy_of_eqv_l (n n0 nk : node) : copy_of n nk -> snode_eqv n n0 -> copy_of n0 nk.
Proof.
  intros Hc He.
  destruct n as [m | m c | m t], n0 as [m0 | m0 c0 | m0 t0]; try (simpl in He; contradiction).
  - simpl in Hc, He |- *. destruct Hc as (mk & -> & Hm). exists mk. split; [reflexivity |].
    eapply meta_eq_nomt_trans; eassumption.
  - simpl in Hc |- *. eapply snode_eqv_trans; eassumption.
  - simpl in Hc |- *. eapply snode_eqv_trans; eassumption.
Qed.

Lemma copy_of_eqv_r (n0 nk nk' : node) : copy_of n0 nk -> snode_eqv nk' nk -> copy_of n0 nk'.
Proof.
  intros Hc He. destruct n0 as [m0 | m0 c0 | m0 t0].
  - simpl in Hc |- *. destruct Hc as (mk & -> & Hm).
    destruct nk' as [mk' | mk' c' | mk' t']; simpl in He; try contradiction.
    exists mk'. split; [reflexivity |]. eapply meta_eq_nomt_trans; eassumption.
  - simpl in Hc |- *. eapply snode_eqv_trans; eassumption.
  - simpl in Hc |- *. eapply snode_eqv_trans; eassumption.
Qed.

Lemma info_matches_nonneg (fi : finfo) (n : node) :
  info_matches fi n -> (0 <= fi_uid fi)%Z /\ (0 <= fi_gid fi)%Z.
Proof. intros (_ & _ & Hu & Hg & _). rewrite Hu, Hg. split; apply N2Z.is_nonneg. Qed.

Lemma set_info_new (p : str) (fi : option finfo) (w : world) :
  w_infos w !! p = None ->
  set_info_if_new p fi w = (MOk tt, with_infos w (<[p := fi]> (w_infos w))).
Proof.
  intros H. unfold set_info_if_new, bind, get_infos. rewrite H. reflexivity.
Qed.

Lemma set_info_old (p : str) (fi : option finfo) (w : world) :
  w_infos w !! p <> None -> set_info_if_new p fi w = (MOk tt, w).
Proof.
  intros H. unfold set_info_if_new, bind, get_infos.
  destruct (w_infos w !! p); [reflexivity | contradiction H; reflexivity].
Qed.

(** the tracked set only grows, and only inside [l]; the base view is untouched *)
Definition ext (Vb : world -> store) (w w' : world) (l : list str) : Prop :=
  Vb w' = Vb w /\
  (forall q, w_infos w !! q <> None -> w_infos w' !! q = w_infos w !! q) /\
  (forall q, w_infos w' !! q <> None -> w_infos w !! q <> None \/ In q l).

Lemma ext_refl Vb w l : ext Vb w w l.
Proof. split; [reflexivity | split; [intros; reflexivity | intros q Hq; left; exact Hq]]. Qed.

Lemma ext_same Vb w w' l : Vb w' = Vb w -> w_infos w' = w_infos w -> ext Vb w w' l.
Proof.
  intros HV Hi. split; [exact HV |]. rewrite Hi.
  split; [intros; reflexivity | intros q Hq; left; exact Hq].
Qed.

Lemma ext_trans Vb w w1 w2 l1 l2 l :
  ext Vb w w1 l1 -> ext Vb w1 w2 l2 -> incl l1 l -> incl l2 l -> ext Vb w w2 l.
Proof.
  intros (HV1 & Hm1 & Hd1) (HV2 & Hm2 & Hd2) Hi1 Hi2. split; [congruence | split].
  - intros q Hq. rewrite Hm2; [apply Hm1; exact Hq |]. rewrite Hm1; assumption.
  - intros q Hq. destruct (Hd2 q Hq) as [H1 | H2].
    + destruct (Hd1 q H1) as [H | H]; [left; exact H | right; apply Hi1; exact H].
    + right. apply Hi2. exact H2.
Qed.

Lemma ext_tracked Vb w w' l q : ext Vb w w' l -> tracked w q -> tracked w' q.
Proof. intros (_ & Hm & _) Hq. unfold tracked. rewrite Hm; exact Hq. Qed.

(* ------------------------------------------------------------------ *)
(** * [try_backup] *)

Section Try.
  Variables base backup : fsapi.
  Variables Vb Vk : world -> store.
  Variables tnb tnk : str -> str.
  Variables accb acck : str -> str -> Prop.
  Variables rhb rhk whb whk : fhandle -> str -> nat -> Prop.
  Variables hid anc : str -> Prop.
  Variable B0 : store.

  Hypothesis HLb : base_laws base Vb Vk tnb accb rhb whb hid anc.
  Hypothesis HLk : backup_laws backup Vb Vk tnk acck rhk whk.
  Hypothesis Hlinks : links_ok tnb tnk accb acck B0.
  Hypothesis Hsmall : all_small B0.
  Hypothesis HwfB0 : swf B0.

  Lemma HVb_infos : forall w i, Vb (with_infos w i) = Vb w.
  Proof. exact (law_infos_indep _ _ _ _ _ _ _ _ _ HLb). Qed.

  Lemma HVk_infos : forall w i, Vk (with_infos w i) = Vk w.
  Proof. exact (law_infos_indep _ _ _ _ _ _ _ _ _ HLk). Qed.

  (** only traces and tick counters differ *)
  Definition same_all (w w' : world) : Prop :=
    Vb w' = Vb w /\ Vk w' = Vk w /\ w_infos w' = w_infos w /\
    w_crash w' = w_crash w /\ w_faults w' = w_faults w.

  Lemma same_all_base (w w' : world) : Vb w' = Vb w -> same_rest Vk w w' -> same_all w w'.
  Proof. intros HV (H1 & H2 & H3 & H4). repeat split; assumption. Qed.

  Lemma same_all_backup (w w' : world) : Vk w' = Vk w -> same_rest Vb w w' -> same_all w w'.
  Proof. intros HV (H1 & H2 & H3 & H4). repeat split; assumption. Qed.

  Lemma same_all_trans (w w1 w2 : world) : same_all w w1 -> same_all w1 w2 -> same_all w w2.
  Proof.
    intros (A1 & A2 & A3 & A4 & A5) (C1 & C2 & C3 & C4 & C5). repeat split; congruence.
  Qed.

  Lemma Inv_transfer (w w' : world) : Inv Vb Vk B0 w -> same_all w w' -> Inv Vb Vk B0 w'.
  Proof.
    intros HI (HVb & HVk & Hi & Hc & Hf).
    destruct HI as [Hq Hwb Hwk Hun Hno Hso Hab Hcl Hnl Hbo Hki].
    constructor; unfold tracked in *; rewrite ?HVb, ?HVk, ?Hi; try assumption.
    destruct Hq as [Hq1 Hq2]. split; congruence.
  Qed.

  Lemma same_all_ext (w w' : world) (l : list str) : same_all w w' -> ext Vb w w' l.
  Proof. intros (HVb & _ & Hi & _). apply ext_same; assumption. Qed.

  (** ** tracking one more path *)
  Lemma Inv_track (w w' : world) (p : str) (v : option finfo) :
    Inv Vb Vk B0 w -> w_infos w !! p = None ->
    w_infos w' = <[p := v]> (w_infos w) ->
    Vb w' = Vb w -> w_crash w' = w_crash w -> w_faults w' = w_faults w ->
    swf (Vk w') -> store_eqv_except [p] (Vk w') (Vk w) ->
    snolinkpar (Vb w) p ->
    match v with
    | None => Vb w !! p = None /\ Vk w' !! p = None
    | Some fi => exists n, Vb w !! p = Some n /\ info_matches fi n /\
                   Forall (tracked w) (ancestors p) /\
                   (p = s_root \/ exists nk, Vk w' !! p = Some nk /\ copy_of n nk)
    end -> Inv Vb Vk B0 w'.
  Proof.
    intros HI Hun Hinf HVb Hcr Hfa Hwfk Heqv Hnlp Hv.
    assert (Hlk : forall q, q <> p -> w_infos w' !! q = w_infos w !! q).
    { intros q Hq. rewrite Hinf. apply lookup_insert_ne. congruence. }
    assert (Hlp : w_infos w' !! p = Some v) by (rewrite Hinf; apply lookup_insert).
    assert (Hmono : forall q, tracked w q -> tracked w' q).
    { intros q Hq. unfold tracked. destruct (str_eq_dec q p) as [-> | Hne].
      - rewrite Hlp. discriminate.
      - rewrite Hlk by exact Hne. exact Hq. }
    assert (Hother : forall q, q <> p -> sonode_eqv (Vk w' !! q) (Vk w !! q)).
    { intros q Hq. apply Heqv. intros [E | []]. apply Hq. symmetry. exact E. }
    constructor.
    - destruct (inv_quiet _ _ _ _ HI) as [H1 H2]. split; congruence.
    - rewrite HVb. exact (inv_wf_b _ _ _ _ HI).
    - exact Hwfk.
    - intros q Hq. destruct (str_eq_dec q p) as [-> | Hne].
      + rewrite Hlp in Hq. discriminate Hq.
      + rewrite Hlk in Hq by exact Hne. rewrite HVb. exact (inv_untracked _ _ _ _ HI q Hq).
    - intros q Hq. destruct (str_eq_dec q p) as [-> | Hne].
      + rewrite Hlp in Hq. injection Hq as Ev. subst v. destruct Hv as [Hb _].
        pose proof (inv_untracked _ _ _ _ HI p Hun) as He. rewrite Hb in He.
        destruct (B0 !! p); [contradiction He | reflexivity].
      + rewrite Hlk in Hq by exact Hne. exact (inv_none _ _ _ _ HI q Hq).
    - intros q fi Hq. destruct (str_eq_dec q p) as [-> | Hne].
      + rewrite Hlp in Hq. injection Hq as Ev. subst v.
        destruct Hv as (n & Hb & Him & _ & Hk).
        pose proof (inv_untracked _ _ _ _ HI p Hun) as He. rewrite Hb in He.
        destruct (B0 !! p) as [n0|] eqn:E0; [| contradiction He]. simpl in He.
        exists n0. split; [reflexivity |]. split; [eapply info_matches_eqv; eassumption |].
        destruct Hk as [-> | (nk & Hnk & Hc)]; [left; reflexivity | right].
        exists nk. split; [exact Hnk | eapply copy_of_eqv_l; eassumption].
      + rewrite Hlk in Hq by exact Hne.
        destruct (inv_some _ _ _ _ HI q fi Hq) as (n0 & H0 & Him & Hk).
        exists n0. split; [exact H0 |]. split; [exact Him |].
        destruct Hk as [-> | (nk & Hnk & Hc)]; [left; reflexivity | right].
        pose proof (Hother q Hne) as He. rewrite Hnk in He.
        destruct (Vk w' !! q) as [nk'|]; [| contradiction He]. simpl in He.
        exists nk'. split; [reflexivity | eapply copy_of_eqv_r; eassumption].
    - intros q Hq. destruct (str_eq_dec q p) as [-> | Hne].
      + exact (proj1 Hnlp).
      + unfold tracked in Hq. rewrite Hlk in Hq by exact Hne. exact (inv_abs _ _ _ _ HI q Hq).
    - intros q fi Hq. destruct (str_eq_dec q p) as [-> | Hne].
      + rewrite Hlp in Hq. injection Hq as Ev. subst v.
        destruct Hv as (n & _ & _ & Hanc & _).
        eapply List.Forall_impl; [| exact Hanc]. exact Hmono.
      + rewrite Hlk in Hq by exact Hne.
        eapply List.Forall_impl; [| exact (inv_closed _ _ _ _ HI q fi Hq)]. exact Hmono.
    - intros q Hq. rewrite HVb. destruct (str_eq_dec q p) as [-> | Hne].
      + exact Hnlp.
      + unfold tracked in Hq. rewrite Hlk in Hq by exact Hne. exact (inv_nolink _ _ _ _ HI q Hq).
    - intros q Hne Hq. destruct (str_eq_dec q p) as [-> | Hqp].
      + destruct v as [fi|].
        * exists fi. exact Hlp.
        * destruct Hv as [_ Hk]. contradiction.
      + pose proof (Hother q Hqp) as He. destruct (Vk w !! q) as [nk|] eqn:E.
        * destruct (inv_backup_only _ _ _ _ HI q Hne) as [fi Hfi]; [rewrite E; discriminate |].
          exists fi. rewrite Hlk by exact Hqp. exact Hfi.
        * destruct (Vk w' !! q); [contradiction He | contradiction Hq; reflexivity].
    - intros q fi n Hq Hn. rewrite HVb in Hn. destruct (str_eq_dec q p) as [-> | Hne].
      + rewrite Hlp in Hq. injection Hq as Ev. subst v.
        destruct Hv as (n1 & Hb & Him & _). rewrite Hb in Hn. injection Hn as En. subst n1.
        symmetry. exact (proj1 Him).
      + rewrite Hlk in Hq by exact Hne. exact (inv_kind _ _ _ _ HI q fi n Hq Hn).
  Qed.

  Let Lb : api_laws base Vb Vk tnb accb rhb whb hid anc := HLb.
  Let Lk : api_laws backup Vk Vb tnk acck rhk whk nohid nohid := HLk.

  Lemma swf_root_dir (s : store) : swf s -> sdir s s_root.
  Proof. intros [H _]. exact H. Qed.

  Lemma untracked_backup_none (w : world) (p : str) :
    Inv Vb Vk B0 w -> w_infos w !! p = None -> p <> s_root -> Vk w !! p = None.
  Proof.
    intros HI Hun Hne. destruct (Vk w !! p) as [nk|] eqn:E; [| reflexivity].
    destruct (inv_backup_only _ _ _ _ HI p Hne) as [fi Hfi]; [rewrite E; discriminate |].
    rewrite Hfi in Hun. discriminate Hun.
  Qed.

  (** the parents of an untracked existing path are directories in the backup *)
  Lemma backup_sdirect (w : world) (sub : str) (n : node) :
    Inv Vb Vk B0 w -> w_infos w !! sub = None -> Vb w !! sub = Some n ->
    Forall (tracked w) (ancestors sub) -> sdirect (Vk w) sub.
  Proof.
    intros HI Hun Hb Hanc.
    destruct (swf_lookup_sdirect _ _ _ (inv_wf_b _ _ _ _ HI) Hb) as [Hac Hdirs].
    split; [exact Hac |].
    pose proof (inv_untracked _ _ _ _ HI sub Hun) as He. rewrite Hb in He.
    destruct (B0 !! sub) as [n0|] eqn:E0; [| contradiction He].
    destruct (swf_lookup_sdirect _ _ _ HwfB0 E0) as [_ Hdirs0].
    rewrite List.Forall_forall in Hanc, Hdirs, Hdirs0. apply List.Forall_forall. intros q Hq.
    destruct (Hdirs q Hq) as [m Hm]. destruct (Hdirs0 q Hq) as [m0 Hm0].
    pose proof (Hanc q Hq) as Htr. unfold tracked in Htr.
    destruct (w_infos w !! q) as [[fi|]|] eqn:Ei.
    - destruct (inv_some _ _ _ _ HI q fi Ei) as (n0' & H0 & Him & Hk).
      destruct Hk as [-> | (nk & Hnk & Hc)].
      + apply swf_root_dir. exact (inv_wf_k _ _ _ _ HI).
      + rewrite Hm0 in H0. injection H0 as <-. simpl in Hc.
        destruct Hc as (mk & -> & _). exists mk. exact Hnk.
    - pose proof (inv_none _ _ _ _ HI q Ei) as Hn. rewrite Hm0 in Hn. discriminate Hn.
    - contradiction Htr. reflexivity.
  Qed.

  (** ** [backup_required] *)

  Lemma backup_required_seen (w : world) (p : str) (info : option finfo) :
    w_infos w !! p = Some info -> backup_required base p w = (MOk (info, false), w).
  Proof.
    intros H. unfold backup_required, already_seen, bind, get_infos, ret. rewrite H. reflexivity.
  Qed.

  Lemma backup_required_unseen (w : world) (p : str) :
    w_infos w !! p = None ->
    backup_required base p w =
    (r <- try_ (a_lstat base p) ;;
     match r with
     | Err e => if is_not_found e then set_info_if_new p None ;;; ret (None, false) else fail e
     | Ok fi => ret (Some fi, true)
     end) w.
  Proof.
    intros H. unfold backup_required, already_seen.
    unfold bind at 1 2. unfold get_infos, ret at 1. rewrite H. reflexivity.
  Qed.

  Lemma backup_required_none (w : world) (p : str) :
    Inv Vb Vk B0 w -> snolinkpar (Vb w) p -> w_infos w !! p = None -> Vb w !! p = None ->
    exists w', backup_required base p w = (MOk (None, false), w') /\ Inv Vb Vk B0 w' /\
               ext Vb w w' [p] /\ w_infos w' !! p = Some None.
  Proof.
    intros HI Hnlp Hun Hb.
    destruct (law_lstat_none _ _ _ _ _ _ _ _ _ Lb w p (inv_quiet _ _ _ _ HI) (inv_wf_b _ _ _ _ HI) Hnlp Hb)
      as (e & w1 & Hrun & Hnf & HV1 & Hsr1).
    pose proof Hsr1 as (HVk1 & Hi1 & Hc1 & Hf1).
    assert (Hun1 : w_infos w1 !! p = None) by (rewrite Hi1; exact Hun).
    set (w2 := with_infos w1 (<[p := None]> (w_infos w1))).
    assert (Hne : p <> s_root).
    { intros ->. destruct (swf_root_dir _ (inv_wf_b _ _ _ _ HI)) as [m Hm]. rewrite Hm in Hb. discriminate Hb. }
    exists w2. split; [| split; [| split]].
    - rewrite (backup_required_unseen w p Hun).
      rewrite (bind_ok _ _ w w1 (Err e) (try_err _ w w1 e Hrun)).
      unfold not_found in Hnf. rewrite Hnf.
      rewrite (bind_ok _ _ w1 w2 tt (set_info_new p None w1 Hun1)). reflexivity.
    - apply (Inv_track w w2 p None HI Hun).
      + unfold w2. simpl. rewrite Hi1. reflexivity.
      + unfold w2. rewrite HVb_infos. exact HV1.
      + exact Hc1.
      + exact Hf1.
      + unfold w2. rewrite HVk_infos, HVk1. exact (inv_wf_k _ _ _ _ HI).
      + unfold w2. rewrite HVk_infos, HVk1. apply store_eqv_except_refl.
      + exact Hnlp.
      + split; [exact Hb |]. unfold w2. rewrite HVk_infos, HVk1.
        apply untracked_backup_none; assumption.
    - split; [| split].
      + unfold w2. rewrite HVb_infos. exact HV1.
      + intros q Hq. unfold w2. simpl. rewrite Hi1. apply lookup_insert_ne.
        intros ->. contradiction.
      + intros q Hq. unfold w2 in Hq. simpl in Hq. rewrite Hi1 in Hq.
        destruct (str_eq_dec q p) as [-> | Hqp]; [right; left; reflexivity | left].
        rewrite lookup_insert_ne in Hq by congruence. exact Hq.
    - unfold w2. simpl. apply lookup_insert.
  Qed.

  Lemma backup_required_some (w : world) (p : str) (n : node) :
    Inv Vb Vk B0 w -> snolinkpar (Vb w) p -> w_infos w !! p = None -> Vb w !! p = Some n ->
    exists fi w', backup_required base p w = (MOk (Some fi, true), w') /\ same_all w w' /\
                  info_matches fi n.
  Proof.
    intros HI Hnlp Hun Hb.
    destruct (law_lstat_some _ _ _ _ _ _ _ _ _ Lb w p n (inv_quiet _ _ _ _ HI) (inv_wf_b _ _ _ _ HI) Hnlp Hb)
      as (fi & (w1 & Hrun & HV1 & Hsr1) & Him & _).
    exists fi, w1. split; [| split; [apply same_all_base; assumption | exact Him]].
    rewrite (backup_required_unseen w p Hun).
    rewrite (bind_ok _ _ w w1 (Ok fi) (try_ok _ w w1 fi Hrun)). reflexivity.
  Qed.

  (** ** one round of [backup_dirs] *)

  Definition bd_body (sub : str) : M unit :=
    r <- backup_required base sub ;;
    match r with
    | (Some fi, true) =>
        r <- try_ (copy_dir backup sub fi) ;;
        match r with
        | Err e => _ <- try_ (a_remove backup sub) ;; fail e
        | Ok _ => set_info_if_new sub (Some fi)
        end
    | _ => ret tt
    end.

  Lemma backup_dirs_eq (dp : str) : backup_dirs base backup dp = miter bd_body (cands dp).
  Proof. reflexivity. Qed.

  Lemma dir_copy_of (fi : finfo) (m m' : meta) :
    info_matches fi (Dir m) -> perm12 (Dir m) -> meta_of_info fi m' -> copy_of (Dir m) (Dir m').
  Proof.
    intros (_ & Hp & Hu & Hg & _) H12 (Hp' & Hu' & Hg'). simpl in *. unfold perm12 in H12. simpl in H12.
    exists m'. split; [reflexivity |]. split; [| split].
    - rewrite Hp', Hp. exact H12.
    - apply N2Z.inj. congruence.
    - apply N2Z.inj. congruence.
  Qed.

  Lemma bd_body_spec (w : world) (sub : str) :
    Inv Vb Vk B0 w -> snolinkpar (Vb w) sub -> Forall (tracked w) (ancestors sub) ->
    (w_infos w !! sub = None -> snotlink (Vb w) sub) ->
    exists r w', bd_body sub w = (r, w') /\ r <> MHalt /\ Inv Vb Vk B0 w' /\ ext Vb w w' [sub] /\
                 (r = MOk tt -> tracked w' sub) /\
                 ((forall n, Vb w !! sub = Some n -> node_kind n = KDir) -> r = MOk tt).
  Proof.
    intros HI Hnlp Hanc Hnl. unfold bd_body.
    destruct (w_infos w !! sub) as [info|] eqn:Hi.
    { (* already tracked *)
      exists (MOk tt), w. split; [| split; [discriminate | split; [exact HI | split; [apply ext_refl | split]]]].
      - rewrite (bind_ok _ _ w w (info, false) (backup_required_seen w sub info Hi)).
        destruct info; reflexivity.
      - intros _. unfold tracked. rewrite Hi. discriminate.
      - intros _. reflexivity. }
    specialize (Hnl eq_refl).
    destruct (Vb w !! sub) as [n|] eqn:Hb.
    2:{ (* did not exist *)
      destruct (backup_required_none w sub HI Hnlp Hi Hb) as (w' & Hrun & HI' & Hext & Htr).
      exists (MOk tt), w'. split; [| split; [discriminate | split; [exact HI' | split; [exact Hext | split]]]].
      - rewrite (bind_ok _ _ w w' _ Hrun). reflexivity.
      - intros _. unfold tracked. rewrite Htr. discriminate.
      - intros _. reflexivity. }
    destruct (backup_required_some w sub n HI Hnlp Hi Hb) as (fi & w1 & Hrun1 & Hsa1 & Him).
    pose proof (Inv_transfer w w1 HI Hsa1) as HI1.
    pose proof Hsa1 as (HVb1 & HVk1 & Hi1 & Hc1 & Hf1).
    assert (Hun1 : w_infos w1 !! sub = None) by (rewrite Hi1; exact Hi).
    rewrite (bind_ok _ _ w w1 _ Hrun1).
    destruct n as [m | m c | m t].
    - (* a directory: copy it *)
      assert (Hk : fi_kind fi = KDir) by (exact (proj1 Him)).
      destruct (str_eq_dec sub s_root) as [-> | Hne].
      + (* the root is not copied *)
        set (w2 := with_infos w1 (<[s_root := Some fi]> (w_infos w1))).
        exists (MOk tt), w2.
        assert (HI2 : Inv Vb Vk B0 w2).
        { apply (Inv_track w w2 s_root (Some fi) HI Hi).
          - unfold w2. simpl. rewrite Hi1. reflexivity.
          - unfold w2. rewrite HVb_infos. exact HVb1.
          - exact Hc1.
          - exact Hf1.
          - unfold w2. rewrite HVk_infos, HVk1. exact (inv_wf_k _ _ _ _ HI).
          - unfold w2. rewrite HVk_infos, HVk1. apply store_eqv_except_refl.
          - exact Hnlp.
          - exists (Dir m). split; [exact Hb | split; [exact Him | split; [exact Hanc | left; reflexivity]]]. }
        split; [| split; [discriminate | split; [exact HI2 | split; [| split]]]].
        * rewrite (bind_ok _ _ w1 w1 (Ok tt) (try_ok _ w1 w1 tt (copy_dir_root_spec backup w1 fi Hk))).
          exact (set_info_new s_root (Some fi) w1 Hun1).
        * split; [| split].
          -- unfold w2. rewrite HVb_infos. exact HVb1.
          -- intros q Hq. unfold w2. simpl. rewrite Hi1. apply lookup_insert_ne.
             intros <-. contradiction.
          -- intros q Hq. unfold w2 in Hq. simpl in Hq. rewrite Hi1 in Hq.
             destruct (str_eq_dec q s_root) as [-> | Hqp]; [right; left; reflexivity | left].
             rewrite lookup_insert_ne in Hq by congruence. exact Hq.
        * intros _. unfold tracked, w2. simpl. rewrite lookup_insert. discriminate.
        * intros _. reflexivity.
      + destruct (info_matches_nonneg fi _ Him) as [Hu Hg].
        assert (Hdir1 : sdirect (Vk w1) sub).
        { rewrite HVk1. eapply backup_sdirect; eassumption. }
        assert (Hnone1 : Vk w1 !! sub = None).
        { apply untracked_backup_none; assumption. }
        destruct (copy_dir_spec backup Vk Vb tnk acck rhk whk nohid nohid Lk w1 sub fi
                    (inv_quiet _ _ _ _ HI1) (inv_wf_k _ _ _ _ HI1) Hdir1 Hne Hk Hu Hg (or_introl Hnone1) (not_nohid _))
          as (w2 & m' & Hrun2 & (Hsr2 & Hwf2 & Heqv2) & Hk2 & Hmeta).
        pose proof Hsr2 as (HVb2 & Hi2 & Hc2 & Hf2).
        assert (Hun2 : w_infos w2 !! sub = None) by (rewrite Hi2; exact Hun1).
        set (w3 := with_infos w2 (<[sub := Some fi]> (w_infos w2))).
        exists (MOk tt), w3.
        assert (HI3 : Inv Vb Vk B0 w3).
        { apply (Inv_track w w3 sub (Some fi) HI Hi).
          - unfold w3. simpl. rewrite Hi2, Hi1. reflexivity.
          - unfold w3. rewrite HVb_infos. congruence.
          - simpl. congruence.
          - simpl. congruence.
          - unfold w3. rewrite HVk_infos. exact Hwf2.
          - unfold w3. rewrite HVk_infos. rewrite <- HVk1. exact Heqv2.
          - exact Hnlp.
          - exists (Dir m). split; [exact Hb | split; [exact Him | split; [exact Hanc | right]]].
            exists (Dir m'). split; [unfold w3; rewrite HVk_infos; exact Hk2 |].
            eapply dir_copy_of; [exact Him | | exact Hmeta].
            exact (swf_lookup_perm12 _ _ _ (inv_wf_b _ _ _ _ HI) Hb). }
        split; [| split; [discriminate | split; [exact HI3 | split; [| split]]]].
        * rewrite (bind_ok _ _ w1 w2 (Ok tt) (try_ok _ w1 w2 tt Hrun2)).
          exact (set_info_new sub (Some fi) w2 Hun2).
        * split; [| split].
          -- unfold w3. rewrite HVb_infos. congruence.
          -- intros q Hq. unfold w3. simpl. rewrite Hi2, Hi1. apply lookup_insert_ne.
             intros <-. contradiction.
          -- intros q Hq. unfold w3 in Hq. simpl in Hq. rewrite Hi2, Hi1 in Hq.
             destruct (str_eq_dec q sub) as [-> | Hqp]; [right; left; reflexivity | left].
             rewrite lookup_insert_ne in Hq by congruence. exact Hq.
        * intros _. unfold tracked, w3. simpl. rewrite lookup_insert. discriminate.
        * intros _. reflexivity.
    - (* a regular file where a directory is needed: [copy_dir] refuses *)
      assert (Hk : fi_kind fi <> KDir).
      { rewrite (proj1 Him). discriminate. }
      assert (Hne : sub <> s_root).
      { intros ->. destruct (swf_root_dir _ (inv_wf_b _ _ _ _ HI)) as [mr Hmr]. rewrite Hmr in Hb. discriminate Hb. }
      destruct (copy_dir_badinfo_spec backup w1 sub fi Hk) as [e Hrun2].
      assert (Hdir1 : sdirect (Vk w1) sub).
      { rewrite HVk1. eapply backup_sdirect; eassumption. }
      assert (Hnone1 : Vk w1 !! sub = None).
      { apply untracked_backup_none; assumption. }
      destruct (law_remove_none _ _ _ _ _ _ _ _ _ Lk w1 sub (inv_quiet _ _ _ _ HI1) (inv_wf_k _ _ _ _ HI1)
                  (sdirect_snolinkpar _ _ Hdir1) Hnone1)
        as (e3 & w3 & Hrun3 & _ & HVk3 & Hsr3).
      pose proof (same_all_backup w1 w3 HVk3 Hsr3) as Hsa3.
      pose proof (same_all_trans w w1 w3 Hsa1 Hsa3) as Hsa.
      exists (MErr e), w3.
      split; [| split; [discriminate | split; [exact (Inv_transfer w w3 HI Hsa) | split; [| split]]]].
      + rewrite (bind_ok _ _ w1 w1 (Err e) (try_err _ w1 w1 e Hrun2)).
        rewrite (bind_ok _ _ w1 w3 (Err e3) (try_err _ w1 w3 e3 Hrun3)). reflexivity.
      + apply same_all_ext. exact Hsa.
      + intros D. discriminate D.
      + intros Hd. specialize (Hd _ eq_refl). discriminate Hd.
    - exfalso. exact (Hnl m t Hb).
  Qed.

  Lemma ext_weaken (w w' : world) (l l' : list str) : ext Vb w w' l -> incl l l' -> ext Vb w w' l'.
  Proof.
    intros (HV & Hm & Hd) Hi. split; [exact HV | split; [exact Hm |]].
    intros q Hq. destruct (Hd q Hq) as [H | H]; [left; exact H | right; apply Hi; exact H].
  Qed.

  (** ** the loop of [backup_dirs], root first *)
  Lemma bd_loop_spec (dp : str) : cleaned dp -> forall (l pre : list str) (w : world),
    pre ++ l = cands dp -> Inv Vb Vk B0 w -> Forall (tracked w) pre ->
    (forall sub, In sub l ->
       snolinkpar (Vb w) sub /\ (w_infos w !! sub = None -> snotlink (Vb w) sub)) ->
    exists r w', miter bd_body l w = (r, w') /\ r <> MHalt /\ Inv Vb Vk B0 w' /\ ext Vb w w' l /\
                 (r = MOk tt -> Forall (tracked w') l) /\
                 ((forall sub n, In sub l -> Vb w !! sub = Some n -> node_kind n = KDir) ->
                  r = MOk tt).
  Proof.
    intros Hc. induction l as [|sub rest IH]; intros pre w E HI Hpre Hl.
    - exists (MOk tt), w. split; [reflexivity |]. split; [discriminate |]. split; [exact HI |].
      split; [apply ext_refl |]. split; [intros _; constructor | intros _; reflexivity].
    - destruct (Hl sub (in_eq _ _)) as [Hnlp Hnl].
      assert (Hanc : Forall (tracked w) (ancestors sub)).
      { apply List.Forall_forall. intros q Hq. rewrite List.Forall_forall in Hpre. apply Hpre.
        exact (cands_split_ancestors dp pre rest sub q Hc (eq_sym E) Hq). }
      destruct (bd_body_spec w sub HI Hnlp Hanc Hnl)
        as (r1 & w1 & Hrun1 & Hnh1 & HI1 & Hext1 & Htr1 & Hok1).
      destruct r1 as [[] | e |]; [| | contradiction Hnh1; reflexivity].
      + pose proof Hext1 as (HVb1 & Hm1 & _).
        destruct (IH (pre ++ [sub]) w1) as (r2 & w2 & Hrun2 & Hnh2 & HI2 & Hext2 & Htr2 & Hok2).
        * rewrite <- app_assoc. exact E.
        * exact HI1.
        * apply Forall_app. split.
          -- eapply List.Forall_impl; [| exact Hpre]. intros q Hq. exact (ext_tracked _ _ _ _ _ Hext1 Hq).
          -- constructor; [exact (Htr1 eq_refl) | constructor].
        * intros s Hs. destruct (Hl s (in_cons _ _ _ Hs)) as [H1 H2]. rewrite HVb1.
          split; [exact H1 |]. intros Hn. apply H2.
          destruct (w_infos w !! s) eqn:Es; [| reflexivity].
          rewrite Hm1 in Hn by (rewrite Es; discriminate). rewrite Es in Hn. discriminate Hn.
        * exists r2, w2. split; [| split; [exact Hnh2 | split; [exact HI2 | split; [| split]]]].
          -- cbn [miter]. rewrite (bind_ok _ _ w w1 tt Hrun1). exact Hrun2.
          -- eapply ext_trans; [exact Hext1 | exact Hext2 | |].
             ++ intros q [<- | []]. left. reflexivity.
             ++ intros q Hq. right. exact Hq.
          -- intros Hr. constructor; [| exact (Htr2 Hr)].
             exact (ext_tracked _ _ _ _ _ Hext2 (Htr1 eq_refl)).
          -- intros Hd. apply Hok2. intros s n Hs Hn. rewrite HVb1 in Hn.
             exact (Hd s n (in_cons _ _ _ Hs) Hn).
      + exists (MErr e), w1. split; [| split; [discriminate | split; [exact HI1 | split; [| split]]]].
        * cbn [miter]. rewrite (bind_err _ _ w w1 e Hrun1). reflexivity.
        * eapply ext_weaken; [exact Hext1 |]. intros q [<- | []]. left. reflexivity.
        * intros D. discriminate D.
        * intros Hd. exfalso.
          assert (D : MErr e = MOk tt :> mres unit).
          { apply Hok1. intros n Hn. exact (Hd sub n (in_eq _ _) Hn). }
          discriminate D.
  Qed.

  Lemma backup_dirs_spec (w : world) (dp : str) :
    Inv Vb Vk B0 w -> snolinkpar (Vb w) dp -> (w_infos w !! dp = None -> snotlink (Vb w) dp) ->
    exists r w', backup_dirs base backup dp w = (r, w') /\ r <> MHalt /\ Inv Vb Vk B0 w' /\
                 ext Vb w w' (cands dp) /\
                 (r = MOk tt -> Forall (tracked w') (cands dp)) /\
                 ((forall q n, In q (cands dp) -> Vb w !! q = Some n -> node_kind n = KDir) ->
                  r = MOk tt).
  Proof.
    intros HI Hnlp Hnl. rewrite backup_dirs_eq.
    pose proof Hnlp as [[Hc Habs] Hf].
    apply (bd_loop_spec dp Hc (cands dp) [] w eq_refl HI (Forall_nil _)).
    intros sub Hs. split; [eapply snolinkpar_cands; eassumption |].
    intros Hun. rewrite (cands_last dp Hc) in Hs. apply in_app_or in Hs.
    destruct Hs as [Hs | [<- | []]].
    - rewrite List.Forall_forall in Hf. exact (Hf sub Hs).
    - exact (Hnl Hun).
  Qed.

  Lemma ext_track (w w' : world) (p : str) (v : option finfo) :
    Vb w' = Vb w -> w_infos w' = <[p := v]> (w_infos w) -> w_infos w !! p = None ->
    ext Vb w w' [p].
  Proof.
    intros HV Hi Hun. split; [exact HV | split].
    - intros q Hq. rewrite Hi. apply lookup_insert_ne. intros <-. contradiction.
    - intros q Hq. rewrite Hi in Hq.
      destruct (str_eq_dec q p) as [-> | Hqp]; [right; left; reflexivity | left].
      rewrite lookup_insert_ne in Hq by congruence. exact Hq.
  Qed.

  Lemma dir_root : dir s_root = s_root.
  Proof. vm_compute. reflexivity. Qed.

  Lemma dir_in_ancestors (p : str) : abs_cleaned p -> p <> s_root -> In (dir p) (ancestors p).
  Proof.
    intros Hac Hne. rewrite <- (cands_dir p Hac Hne).
    assert (Hc : cleaned (dir p)) by (unfold dir; apply cleaned_clean).
    rewrite (cands_last _ Hc). apply in_or_app. right. left. reflexivity.
  Qed.

  (** ** the [backup_dirs] phase of [try_backup] *)
  Lemma dirs_phase (w : world) (p dp : str) :
    Inv Vb Vk B0 w -> snolinkpar (Vb w) p ->
    (dp = p /\ (forall n, Vb w !! p = Some n -> node_kind n = KDir)) \/ dp = dir p ->
    exists r w', backup_dirs base backup dp w = (r, w') /\ r <> MHalt /\ Inv Vb Vk B0 w' /\
                 ext Vb w w' (cands p) /\
                 (r = MOk tt -> Forall (tracked w') (ancestors p) /\ (dp = p -> tracked w' p)) /\
                 (dp <> p -> w_infos w !! p = None -> w_infos w' !! p = None) /\
                 ((forall q n, In q (ancestors p) -> Vb w !! q = Some n -> node_kind n = KDir) ->
                  r = MOk tt).
  Proof.
    intros HI Hnlp Hcase. pose proof Hnlp as [[Hc Habs] Hf].
    assert (Hcase' : (dp = p /\ (forall n, Vb w !! p = Some n -> node_kind n = KDir)) \/
                     (dp = dir p /\ p <> s_root)).
    { destruct Hcase as [H | H]; [left; exact H |].
      destruct (str_eq_dec p s_root) as [-> | Hne]; [left | right; split; assumption].
      split; [rewrite H; apply dir_root |]. intros n Hn.
      destruct (swf_root_dir _ (inv_wf_b _ _ _ _ HI)) as [m Hm]. rewrite Hm in Hn.
      injection Hn as <-. reflexivity. }
    clear Hcase. destruct Hcase' as [[-> Hpd] | [-> Hne]].
    - destruct (backup_dirs_spec w p HI Hnlp) as (r & w' & Hrun & Hnh & HI' & Hext & Htr & Hok).
      { intros _ m t Hl. specialize (Hpd _ Hl). discriminate Hpd. }
      exists r, w'. split; [exact Hrun |]. split; [exact Hnh |]. split; [exact HI' |].
      split; [exact Hext |]. split; [| split].
      + intros Hr. specialize (Htr Hr). rewrite (cands_last p Hc) in Htr.
        apply Forall_app in Htr. destruct Htr as [H1 H2]. split; [exact H1 |].
        intros _. inversion H2; assumption.
      + intros D. contradiction D. reflexivity.
      + intros Hd. apply Hok. intros q n Hq Hn. rewrite (cands_last p Hc) in Hq.
        apply in_app_or in Hq. destruct Hq as [Hq | [<- | []]].
        * exact (Hd q n Hq Hn).
        * exact (Hpd n Hn).
    - pose proof (dir_in_ancestors p (conj Hc Habs) Hne) as Hin.
      assert (Hincands : In (dir p) (cands p)).
      { rewrite (cands_last p Hc). apply in_or_app. left. exact Hin. }
      destruct (backup_dirs_spec w (dir p) HI (snolinkpar_cands _ _ _ Hnlp Hincands))
        as (r & w' & Hrun & Hnh & HI' & Hext & Htr & Hok).
      { intros _. rewrite List.Forall_forall in Hf. exact (Hf _ Hin). }
      rewrite (cands_dir p (conj Hc Habs) Hne) in Hext, Htr, Hok.
      exists r, w'. split; [exact Hrun |]. split; [exact Hnh |]. split; [exact HI' |].
      split; [| split; [| split]].
      + eapply ext_weaken; [exact Hext |]. rewrite (cands_last p Hc).
        intros q Hq. apply in_or_app. left. exact Hq.
      + intros Hr. split; [exact (Htr Hr) |]. intros E. exfalso.
        rewrite E in Hin. exact (ancestors_not_self p Hc Hin).
      + intros _ Hun. destruct Hext as (_ & _ & Hd).
        destruct (w_infos w' !! p) eqn:E; [| reflexivity].
        destruct (Hd p) as [H | H]; [rewrite E; discriminate | contradiction | ].
        exfalso. exact (ancestors_not_self p Hc H).
      + exact Hok.
  Qed.

  Lemma file_meta_eq (fi : finfo) (m m' : meta) (c : list N) :
    info_matches fi (File m c) -> perm12 (File m c) -> meta_of_info fi m' ->
    m_mt m' = fi_mt fi -> m' = m.
  Proof.
    intros (_ & Hp & Hu & Hg & Hmt) H12 (Hp' & Hu' & Hg') Hmt'.
    unfold perm12 in H12. simpl in *. specialize (Hmt eq_refl).
    destruct m as [a1 a2 a3 a4], m' as [b1 b2 b3 b4]. simpl in *. f_equal.
    - rewrite Hp', Hp. exact H12.
    - apply N2Z.inj. congruence.
    - apply N2Z.inj. congruence.
    - congruence.
  Qed.

  (** ** the final phase of [try_backup] *)
  Definition tb_file (p : str) (fi : finfo) : M unit :=
    sf <- a_open base p ;;
    r <- try_ (copy_file backup p fi sf) ;;
    match r with
    | Err e => _ <- try_ (a_remove backup p) ;; _ <- try_ (hclose sf) ;; fail e
    | Ok _ => set_info_if_new p (Some fi) ;;; _ <- try_ (hclose sf) ;; ret tt
    end.

  Definition tb_link (p : str) (fi : finfo) : M unit :=
    r <- try_ (copy_symlink base backup p fi) ;;
    match r with
    | Err e => _ <- try_ (a_remove backup p) ;; fail e
    | Ok _ => set_info_if_new p (Some fi)
    end.

  Definition tb_tail (p : str) (info : option finfo) (needs : bool) : M unit :=
    if negb needs then ret tt
    else match info with
         | None => ret tt
         | Some fi =>
             match fi_kind fi with
             | KDir => ret tt
             | KFile => tb_file p fi
             | KLink => tb_link p fi
             end
         end.

  Definition tb_dirpath (p : str) (info : option finfo) : str :=
    match info with
    | Some fi => if is_dir_info fi then p else dir p
    | None => dir p
    end.

  Lemma try_backup_eq (p : str) (w : world) :
    try_backup base backup p w =
    (r <- backup_required base p ;;
     backup_dirs base backup (tb_dirpath p (fst r)) ;;; tb_tail p (fst r) (snd r)) w.
  Proof.
    unfold try_backup, bind.
    destruct (backup_required base p w) as [[[info needs] | e |] w1]; reflexivity.
  Qed.

  Lemma tb_file_spec (w : world) (p : str) (fi : finfo) (m : meta) (c : list N) :
    Inv Vb Vk B0 w -> snolinkpar (Vb w) p -> w_infos w !! p = None ->
    Vb w !! p = Some (File m c) -> info_matches fi (File m c) ->
    Forall (tracked w) (ancestors p) ->
    exists w', tb_file p fi w = (MOk tt, w') /\ Inv Vb Vk B0 w' /\ ext Vb w w' [p] /\ tracked w' p.
  Proof.
    intros HI Hnlp Hun Hb Him Hanc. unfold tb_file.
    (* open the original *)
    destruct (law_open_file _ _ _ _ _ _ _ _ _ Lb w p m c (inv_quiet _ _ _ _ HI) (inv_wf_b _ _ _ _ HI) Hnlp Hb)
      as (sf & (w1 & Hrun1 & HVb1 & Hsr1) & Hrh).
    pose proof (same_all_base w w1 HVb1 Hsr1) as Hsa1.
    pose proof (Inv_transfer w w1 HI Hsa1) as HI1.
    pose proof Hsa1 as (_ & HVk1 & Hi1 & Hc1 & Hf1).
    assert (Hun1 : w_infos w1 !! p = None) by (rewrite Hi1; exact Hun).
    assert (Hb1 : Vb w1 !! p = Some (File m c)) by (rewrite HVb1; exact Hb).
    assert (Hanc1 : Forall (tracked w1) (ancestors p)).
    { eapply List.Forall_impl; [| exact Hanc]. intros q Hq. unfold tracked in *. rewrite Hi1. exact Hq. }
    assert (Hne : p <> s_root).
    { intros ->. destruct (swf_root_dir _ (inv_wf_b _ _ _ _ HI)) as [mr Hmr]. rewrite Hmr in Hb. discriminate Hb. }
    (* copy *)
    destruct (info_matches_nonneg fi _ Him) as [Hu Hg].
    assert (Hsm : small c).
    { pose proof (inv_untracked _ _ _ _ HI p Hun) as He. rewrite Hb in He.
      destruct (B0 !! p) as [[m0 | m0 c0 | m0 t0]|] eqn:E0; simpl in He; try contradiction.
      destruct He as [_ <-]. exact (Hsmall p m0 c E0). }
    destruct (copy_file_spec backup base Vk Vb tnk tnb acck accb rhk rhb whk whb nohid hid nohid anc Lk Lb
                w1 p fi sf p m c (inv_quiet _ _ _ _ HI1) (inv_wf_k _ _ _ _ HI1) (inv_wf_b _ _ _ _ HI1)
                (backup_sdirect w1 p _ HI1 Hun1 Hb1 Hanc1) (proj1 Him) Hu Hg
                (or_introl (untracked_backup_none w1 p HI1 Hun1 Hne)) Hrh Hb1 Hsm (not_nohid _))
      as (w2 & m' & Hrun2 & (Hsr2 & Hwf2 & Heqv2) & Hk2 & Hmeta & Hmt).
    pose proof Hsr2 as (HVb2 & Hi2 & Hc2 & Hf2).
    assert (Hun2 : w_infos w2 !! p = None) by (rewrite Hi2; exact Hun1).
    (* track *)
    set (w3 := with_infos w2 (<[p := Some fi]> (w_infos w2))).
    assert (HVb3 : Vb w3 = Vb w1) by (unfold w3; rewrite HVb_infos; exact HVb2).
    assert (Hi3 : w_infos w3 = <[p := Some fi]> (w_infos w1)) by (unfold w3; simpl; rewrite Hi2; reflexivity).
    assert (HI3 : Inv Vb Vk B0 w3).
    { apply (Inv_track w1 w3 p (Some fi) HI1 Hun1 Hi3 HVb3).
      - simpl. exact Hc2.
      - simpl. exact Hf2.
      - unfold w3. rewrite HVk_infos. exact Hwf2.
      - unfold w3. rewrite HVk_infos. exact Heqv2.
      - rewrite HVb1. exact Hnlp.
      - exists (File m c). split; [exact Hb1 | split; [exact Him | split; [exact Hanc1 | right]]].
        exists (File m' c). split; [unfold w3; rewrite HVk_infos; exact Hk2 |].
        simpl. split; [| reflexivity].
        eapply file_meta_eq; [exact Him | | exact Hmeta | exact Hmt].
        exact (swf_lookup_perm12 _ _ _ (inv_wf_b _ _ _ _ HI) Hb). }
    (* close the original *)
    destruct (law_hclose_r _ _ _ _ _ _ _ _ _ Lb w3 sf p 0%nat (inv_quiet _ _ _ _ HI3) Hrh)
      as (w4 & Hrun4 & HVb4 & Hsr4).
    pose proof (same_all_base w3 w4 HVb4 Hsr4) as Hsa4.
    exists w4. split; [| split; [exact (Inv_transfer w3 w4 HI3 Hsa4) | split]].
    - rewrite (bind_ok _ _ w w1 sf Hrun1).
      rewrite (bind_ok _ _ w1 w2 (Ok tt) (try_ok _ w1 w2 tt Hrun2)).
      rewrite (bind_ok _ _ w2 w3 tt (set_info_new p (Some fi) w2 Hun2)).
      rewrite (bind_ok _ _ w3 w4 (Ok tt) (try_ok _ w3 w4 tt Hrun4)). reflexivity.
    - eapply ext_trans; [exact (same_all_ext w w1 [p] Hsa1) | | apply incl_refl | apply incl_refl].
      eapply ext_trans; [exact (ext_track w1 w3 p (Some fi) HVb3 Hi3 Hun1)
                        | exact (same_all_ext w3 w4 [p] Hsa4) | apply incl_refl | apply incl_refl].
    - destruct Hsa4 as (_ & _ & Hi4 & _). unfold tracked. rewrite Hi4, Hi3, lookup_insert. discriminate.
  Qed.

  Lemma tb_link_spec (w : world) (p : str) (fi : finfo) (m : meta) (t : str) :
    Inv Vb Vk B0 w -> snolinkpar (Vb w) p -> w_infos w !! p = None ->
    Vb w !! p = Some (Link m t) -> info_matches fi (Link m t) ->
    Forall (tracked w) (ancestors p) ->
    exists w', tb_link p fi w = (MOk tt, w') /\ Inv Vb Vk B0 w' /\ ext Vb w w' [p] /\ tracked w' p.
  Proof.
    intros HI Hnlp Hun Hb Him Hanc. unfold tb_link.
    assert (Hne : p <> s_root).
    { intros ->. destruct (swf_root_dir _ (inv_wf_b _ _ _ _ HI)) as [mr Hmr]. rewrite Hmr in Hb. discriminate Hb. }
    destruct (info_matches_nonneg fi _ Him) as [Hu Hg].
    (* the original link as it was when the transaction began *)
    pose proof (inv_untracked _ _ _ _ HI p Hun) as He. rewrite Hb in He.
    destruct (B0 !! p) as [[m0 | m0 c0 | m0 t0]|] eqn:E0; simpl in He; try contradiction.
    destruct He as [Hm0 <-].
    destruct (Hlinks p m0 t E0) as (_ & Htnk & Htne & _ & Hacc & Hperm0).
    destruct (copy_symlink_spec backup base Vk Vb tnk tnb acck accb rhk rhb whk whb nohid hid nohid anc Lk Lb
                w p fi m t (inv_quiet _ _ _ _ HI) (inv_wf_k _ _ _ _ HI) (inv_wf_b _ _ _ _ HI) Hnlp Hb
                (backup_sdirect w p _ HI Hun Hb Hanc) (untracked_backup_none w p HI Hun Hne)
                (proj1 Him) Hu Hg Htne Hacc (not_nohid _))
      as (w2 & m' & Hrun2 & (Hsr2 & Hwf2 & Heqv2) & Hk2 & Hperm' & Hu' & Hg').
    pose proof Hsr2 as (HVb2 & Hi2 & Hc2 & Hf2).
    assert (Hun2 : w_infos w2 !! p = None) by (rewrite Hi2; exact Hun).
    set (w3 := with_infos w2 (<[p := Some fi]> (w_infos w2))).
    assert (HVb3 : Vb w3 = Vb w) by (unfold w3; rewrite HVb_infos; exact HVb2).
    assert (Hi3 : w_infos w3 = <[p := Some fi]> (w_infos w)) by (unfold w3; simpl; rewrite Hi2; reflexivity).
    exists w3. split; [| split; [| split]].
    - rewrite (bind_ok _ _ w w2 (Ok tt) (try_ok _ w w2 tt Hrun2)).
      exact (set_info_new p (Some fi) w2 Hun2).
    - apply (Inv_track w w3 p (Some fi) HI Hun Hi3 HVb3).
      + simpl. exact Hc2.
      + simpl. exact Hf2.
      + unfold w3. rewrite HVk_infos. exact Hwf2.
      + unfold w3. rewrite HVk_infos. exact Heqv2.
      + exact Hnlp.
      + exists (Link m t). split; [exact Hb | split; [exact Him | split; [exact Hanc | right]]].
        exists (Link m' (tnk t)). split; [unfold w3; rewrite HVk_infos; exact Hk2 |].
        simpl. split; [| exact Htnk].
        destruct Him as (_ & _ & Hu0 & Hg0 & _). destruct Hm0 as (P1 & P2 & P3). simpl in *.
        split; [congruence | split; apply N2Z.inj; congruence].
    - exact (ext_track w w3 p (Some fi) HVb3 Hi3 Hun).
    - unfold tracked. rewrite Hi3, lookup_insert. discriminate.
  Qed.

  (** ** [try_backup] keeps the invariant *)
  Lemma try_backup_specS (w : world) (p : str) :
    Inv Vb Vk B0 w -> snolinkpar (Vb w) p ->
    exists r w', try_backup base backup p w = (r, w') /\ r <> MHalt /\ Inv Vb Vk B0 w' /\
                 ext Vb w w' (cands p) /\
                 (r = MOk tt -> tracked w' p /\ Forall (tracked w') (ancestors p)) /\
                 ((forall q n, In q (ancestors p) -> Vb w !! q = Some n -> node_kind n = KDir) ->
                  r = MOk tt).
  Proof.
    intros HI Hnlp. pose proof Hnlp as [[Hc Habs] Hf].
    assert (Hpin : incl [p] (cands p)).
    { intros q [<- | []]. rewrite (cands_last p Hc). apply in_or_app. right. left. reflexivity. }
    rewrite try_backup_eq.
    destruct (w_infos w !! p) as [info|] eqn:Hi.
    { (* already tracked: only the directories *)
      rewrite (bind_ok _ _ w w (info, false) (backup_required_seen w p info Hi)). cbn [fst snd].
      destruct (dirs_phase w p (tb_dirpath p info) HI Hnlp)
        as (r & w' & Hrun & Hnh & HI' & Hext & Htr & _ & Hok).
      { unfold tb_dirpath. destruct info as [fi|]; [| right; reflexivity].
        destruct (is_dir_info fi) eqn:Ed; [left | right; reflexivity].
        split; [reflexivity |]. intros n Hn. rewrite (inv_kind _ _ _ _ HI p fi n Hi Hn).
        unfold is_dir_info in Ed. destruct (fi_kind fi); [reflexivity | discriminate Ed | discriminate Ed]. }
      assert (Htp : tracked w' p).
      { apply (ext_tracked _ _ _ _ _ Hext). unfold tracked. rewrite Hi. discriminate. }
      destruct r as [[] | e |]; [| | contradiction Hnh; reflexivity].
      - exists (MOk tt), w'. split; [rewrite (bind_ok _ _ w w' tt Hrun); reflexivity |].
        split; [discriminate |]. split; [exact HI' |]. split; [exact Hext |].
        split; [intros _; split; [exact Htp | exact (proj1 (Htr eq_refl))] | intros _; reflexivity].
      - exists (MErr e), w'. split; [rewrite (bind_err _ _ w w' e Hrun); reflexivity |].
        split; [discriminate |]. split; [exact HI' |]. split; [exact Hext |].
        split; [intros D; discriminate D | exact Hok]. }
    destruct (Vb w !! p) as [n|] eqn:Hb.
    2:{ (* did not exist *)
      destruct (backup_required_none w p HI Hnlp Hi Hb) as (w1 & Hrun1 & HI1 & Hext1 & Htr1).
      rewrite (bind_ok _ _ w w1 _ Hrun1). cbn [fst snd].
      pose proof Hext1 as (HVb1 & _ & _).
      assert (Hnlp1 : snolinkpar (Vb w1) p) by (rewrite HVb1; exact Hnlp).
      destruct (dirs_phase w1 p (tb_dirpath p None) HI1 Hnlp1 (or_intror eq_refl))
        as (r & w' & Hrun & Hnh & HI' & Hext & Htr & _ & Hok).
      assert (Hext' : ext Vb w w' (cands p)).
      { eapply ext_trans; [exact Hext1 | exact Hext | exact Hpin | apply incl_refl]. }
      assert (Htp : tracked w' p).
      { apply (ext_tracked _ _ _ _ _ Hext). unfold tracked. rewrite Htr1. discriminate. }
      destruct r as [[] | e |]; [| | contradiction Hnh; reflexivity].
      - exists (MOk tt), w'. split; [rewrite (bind_ok _ _ w1 w' tt Hrun); reflexivity |].
        split; [discriminate |]. split; [exact HI' |]. split; [exact Hext' |].
        split; [intros _; split; [exact Htp | exact (proj1 (Htr eq_refl))] | intros _; reflexivity].
      - exists (MErr e), w'. split; [rewrite (bind_err _ _ w1 w' e Hrun); reflexivity |].
        split; [discriminate |]. split; [exact HI' |]. split; [exact Hext' |].
        split; [intros D; discriminate D |].
        intros Hd. apply Hok. intros q n Hq Hn. rewrite HVb1 in Hn. exact (Hd q n Hq Hn). }
    (* exists and is not yet tracked *)
    destruct (backup_required_some w p n HI Hnlp Hi Hb) as (fi & w1 & Hrun1 & Hsa1 & Him).
    rewrite (bind_ok _ _ w w1 _ Hrun1). cbn [fst snd].
    pose proof (Inv_transfer w w1 HI Hsa1) as HI1.
    pose proof Hsa1 as (HVb1 & HVk1 & Hi1 & Hc1 & Hf1).
    assert (Hnlp1 : snolinkpar (Vb w1) p) by (rewrite HVb1; exact Hnlp).
    assert (Hun1 : w_infos w1 !! p = None) by (rewrite Hi1; exact Hi).
    assert (Hb1 : Vb w1 !! p = Some n) by (rewrite HVb1; exact Hb).
    destruct (dirs_phase w1 p (tb_dirpath p (Some fi)) HI1 Hnlp1)
      as (r & w2 & Hrun2 & Hnh & HI2 & Hext2 & Htr2 & Hkeep & Hok).
    { unfold tb_dirpath. destruct (is_dir_info fi) eqn:Ed; [left | right; reflexivity].
      split; [reflexivity |]. intros n' Hn'. rewrite Hb1 in Hn'. injection Hn' as <-.
      rewrite <- (proj1 Him). unfold is_dir_info in Ed.
      destruct (fi_kind fi); [reflexivity | discriminate Ed | discriminate Ed]. }
    assert (Hext12 : ext Vb w w2 (cands p)).
    { eapply ext_trans; [exact (same_all_ext w w1 (cands p) Hsa1) | exact Hext2
                        | apply incl_refl | apply incl_refl]. }
    assert (Hok' : (forall q n, In q (ancestors p) -> Vb w !! q = Some n -> node_kind n = KDir) ->
                   r = MOk tt).
    { intros Hd. apply Hok. intros q n' Hq Hn'. rewrite HVb1 in Hn'. exact (Hd q n' Hq Hn'). }
    destruct r as [[] | e |]; [| | contradiction Hnh; reflexivity].
    2:{ exists (MErr e), w2. split; [rewrite (bind_err _ _ w1 w2 e Hrun2); reflexivity |].
        split; [discriminate |]. split; [exact HI2 |]. split; [exact Hext12 |].
        split; [intros D; discriminate D | exact Hok']. }
    rewrite (bind_ok _ _ w1 w2 tt Hrun2).
    destruct (Htr2 eq_refl) as [Hanc2 Hself2].
    pose proof Hext2 as (HVb2 & _ & _).
    unfold tb_tail. cbn [negb].
    destruct n as [m | m c | m t].
    - (* a directory: handled by [backup_dirs] *)
      assert (Hk : fi_kind fi = KDir) by exact (proj1 Him).
      exists (MOk tt), w2. split; [rewrite Hk; reflexivity |].
      split; [discriminate |]. split; [exact HI2 |]. split; [exact Hext12 |].
      split; [| intros _; reflexivity]. intros _. split; [| exact Hanc2].
      apply Hself2. unfold tb_dirpath, is_dir_info. rewrite Hk. reflexivity.
    - (* a regular file *)
      assert (Hk : fi_kind fi = KFile) by exact (proj1 Him).
      assert (Hdp : tb_dirpath p (Some fi) <> p).
      { unfold tb_dirpath, is_dir_info. rewrite Hk. intros E.
        assert (Hne : p <> s_root).
        { intros ->. destruct (swf_root_dir _ (inv_wf_b _ _ _ _ HI)) as [mr Hmr]. rewrite Hmr in Hb. discriminate Hb. }
        pose proof (dir_in_ancestors p (conj Hc Habs) Hne) as Hin. rewrite E in Hin.
        exact (ancestors_not_self p Hc Hin). }
      destruct (tb_file_spec w2 p fi m c HI2) as (w3 & Hrun3 & HI3 & Hext3 & Htr3).
      + rewrite HVb2. exact Hnlp1.
      + exact (Hkeep Hdp Hun1).
      + rewrite HVb2. exact Hb1.
      + exact Him.
      + exact Hanc2.
      + exists (MOk tt), w3. split; [rewrite Hk; exact Hrun3 |].
        split; [discriminate |]. split; [exact HI3 |].
        split; [eapply ext_trans; [exact Hext12 | exact Hext3 | apply incl_refl | exact Hpin] |].
        split; [| intros _; reflexivity]. intros _. split; [exact Htr3 |].
        eapply List.Forall_impl; [| exact Hanc2]. intros q Hq. exact (ext_tracked _ _ _ _ _ Hext3 Hq).
    - (* a symlink *)
      assert (Hk : fi_kind fi = KLink) by exact (proj1 Him).
      assert (Hdp : tb_dirpath p (Some fi) <> p).
      { unfold tb_dirpath, is_dir_info. rewrite Hk. intros E.
        assert (Hne : p <> s_root).
        { intros ->. destruct (swf_root_dir _ (inv_wf_b _ _ _ _ HI)) as [mr Hmr]. rewrite Hmr in Hb. discriminate Hb. }
        pose proof (dir_in_ancestors p (conj Hc Habs) Hne) as Hin. rewrite E in Hin.
        exact (ancestors_not_self p Hc Hin). }
      destruct (tb_link_spec w2 p fi m t HI2) as (w3 & Hrun3 & HI3 & Hext3 & Htr3).
      + rewrite HVb2. exact Hnlp1.
      + exact (Hkeep Hdp Hun1).
      + rewrite HVb2. exact Hb1.
      + exact Him.
      + exact Hanc2.
      + exists (MOk tt), w3. split; [rewrite Hk; exact Hrun3 |].
        split; [discriminate |]. split; [exact HI3 |].
        split; [eapply ext_trans; [exact Hext12 | exact Hext3 | apply incl_refl | exact Hpin] |].
        split; [| intros _; reflexivity]. intros _. split; [exact Htr3 |].
        eapply List.Forall_impl; [| exact Hanc2]. intros q Hq. exact (ext_tracked _ _ _ _ _ Hext3 Hq).
  Qed.

  (* ---------------------------------------------------------------- *)
  (** * The covered operations *)

  Hypothesis HLb2 : base_laws2 base Vb Vk tnb accb rhb whb.
  Let Lb2 : api_laws2 base Vb Vk tnb accb rhb whb := HLb2.

  (** ** frames on the base *)

  (** a stretch of base calls that changed the base view at most at [l] *)
  Definition fr (w w' : world) (l : list str) : Prop :=
    same_rest Vk w w' /\ swf (Vb w') /\ store_eqv_except l (Vb w') (Vb w).

  Lemma fr_trans (w w1 w2 : world) (l : list str) : fr w w1 l -> fr w1 w2 l -> fr w w2 l.
  Proof.
    intros (Hs1 & _ & He1) (Hs2 & Hw2 & He2). split; [| split].
    - eapply same_rest_trans; eassumption.
    - exact Hw2.
    - eapply store_eqv_except_trans; eassumption.
  Qed.

  Lemma fr_quiet (w w' : world) (l : list str) : quiet w -> fr w w' l -> quiet w'.
  Proof. intros Hq (Hs & _). exact (quiet_same_rest Vk w w' Hq Hs). Qed.

  Lemma fr_infos (w w' : world) (l : list str) : fr w w' l -> w_infos w' = w_infos w.
  Proof. intros ((_ & Hi & _) & _). exact Hi. Qed.

  Lemma fr_refl (w : world) (l : list str) : swf (Vb w) -> fr w w l.
  Proof.
    intros Hwf. split; [apply same_rest_refl | split; [exact Hwf | apply store_eqv_except_refl]].
  Qed.

  Lemma fr_same (w w' : world) (l : list str) :
    swf (Vb w) -> Vb w' = Vb w -> same_rest Vk w w' -> fr w w' l.
  Proof.
    intros Hwf HV Hs. split; [exact Hs |]. rewrite HV. split; [exact Hwf | apply store_eqv_except_refl].
  Qed.

  Lemma framed_fr {A} (m : M A) (w : world) (l : list str) :
    framed Vb Vk m w l -> exists r w', m w = (r, w') /\ r <> MHalt /\ fr w w' l.
  Proof.
    intros (r & w' & Hrun & Hnh & Hs & Hwf & He). exists r, w'.
    split; [exact Hrun | split; [exact Hnh | split; [exact Hs | split; assumption]]].
  Qed.

  Lemma try_framed {A} (m : M A) (w : world) (l : list str) :
    framed Vb Vk m w l -> exists x w', try_ m w = (MOk x, w') /\ fr w w' l.
  Proof.
    intros Hf. destruct (framed_fr m w l Hf) as (r & w' & Hrun & Hnh & Hfr).
    destruct r as [a | e |]; [| | contradiction Hnh; reflexivity].
    - exists (Ok a), w'. split; [exact (try_ok m w w' a Hrun) | exact Hfr].
    - exists (Err e), w'. split; [exact (try_err m w w' e Hrun) | exact Hfr].
  Qed.

  (** base calls that touch at most the tracked paths [l] *)
  Lemma Inv_base_frame (w w' : world) (l : list str) :
    Inv Vb Vk B0 w -> fr w w' l -> Forall (tracked w) l -> kind_stable Vb w' -> Inv Vb Vk B0 w'.
  Proof.
    intros HI (Hsr & Hwf & Heqv) Htl [Hks1 Hks2]. pose proof Hsr as (HVk & Hi & Hc & Hf).
    constructor.
    - exact (quiet_same_rest Vk w w' (inv_quiet _ _ _ _ HI) Hsr).
    - exact Hwf.
    - rewrite HVk. exact (inv_wf_k _ _ _ _ HI).
    - intros q Hq. rewrite Hi in Hq.
      eapply sonode_eqv_trans; [| exact (inv_untracked _ _ _ _ HI q Hq)].
      apply Heqv. intros Hin. rewrite List.Forall_forall in Htl. exact (Htl q Hin Hq).
    - intros q Hq. rewrite Hi in Hq. exact (inv_none _ _ _ _ HI q Hq).
    - intros q fi Hq. rewrite Hi in Hq. rewrite HVk. exact (inv_some _ _ _ _ HI q fi Hq).
    - intros q Hq. unfold tracked in Hq. rewrite Hi in Hq. exact (inv_abs _ _ _ _ HI q Hq).
    - intros q fi Hq. rewrite Hi in Hq. unfold tracked. rewrite Hi. exact (inv_closed _ _ _ _ HI q fi Hq).
    - exact Hks2.
    - intros q Hne Hq. rewrite HVk in Hq. rewrite Hi. exact (inv_backup_only _ _ _ _ HI q Hne Hq).
    - exact Hks1.
  Qed.

  (** ** what every covered operation guarantees *)

  (** no halt; the invariant holds again if no tracked path changed its type;
      bookkeeping is only added, and only at paths satisfying [P] *)
  Definition keeps {A} (P : str -> Prop) (w : world) (r : mres A) (w' : world) : Prop :=
    r <> MHalt /\ (kind_stable Vb w' -> Inv Vb Vk B0 w') /\ infos_ext_in w w' P.

  Lemma keeps_weaken {A} (P Q : str -> Prop) (w : world) (r : mres A) (w' : world) :
    (forall q, P q -> Q q) -> keeps P w r w' -> keeps Q w r w'.
  Proof.
    intros HPQ (Hnh & Hinv & Hm & Hd). split; [exact Hnh | split; [exact Hinv | split; [exact Hm |]]].
    intros q Hq. destruct (Hd q Hq) as [H | H]; [left; exact H | right; exact (HPQ q H)].
  Qed.

  (** backing up took [w] to [w2] (invariant kept, bookkeeping added inside
      [l]), then base calls touched at most the tracked paths [lt] *)
  Lemma keeps_frame {A} (P : str -> Prop) (w w2 w' : world) (r : mres A) (l lt : list str) :
    r <> MHalt -> Inv Vb Vk B0 w2 -> ext Vb w w2 l -> (forall q, In q l -> P q) ->
    fr w2 w' lt -> Forall (tracked w2) lt -> keeps P w r w'.
  Proof.
    intros Hnh HI2 (_ & Hm & Hd) HP Hfr Htl. split; [exact Hnh | split].
    - intros Hks. exact (Inv_base_frame w2 w' lt HI2 Hfr Htl Hks).
    - unfold infos_ext_in. rewrite (fr_infos w2 w' lt Hfr). split; [exact Hm |].
      intros q Hq. destruct (Hd q Hq) as [H | H]; [left; exact H | right; exact (HP q H)].
  Qed.

  (** the operation ended in a state that satisfies the invariant outright *)
  Lemma keeps_inv {A} (P : str -> Prop) (w w2 : world) (r : mres A) (l : list str) :
    r <> MHalt -> Inv Vb Vk B0 w2 -> ext Vb w w2 l -> (forall q, In q l -> P q) -> keeps P w r w2.
  Proof.
    intros Hnh HI2 Hext HP.
    exact (keeps_frame P w w2 w2 r l [] Hnh HI2 Hext HP (fr_refl w2 [] (inv_wf_b _ _ _ _ HI2)) (Forall_nil _)).
  Qed.

  (** the operation began after calls that changed nothing *)
  Lemma keeps_pre {A} (P : str -> Prop) (w w1 w' : world) (r : mres A) :
    same_all w w1 -> keeps P w1 r w' -> keeps P w r w'.
  Proof.
    intros (_ & _ & Hi & _) (Hnh & Hinv & Hm & Hd). unfold keeps, infos_ext_in.
    rewrite Hi in Hm, Hd. split; [exact Hnh | split; [exact Hinv | split; assumption]].
  Qed.

  (** the result is turned into an observation *)
  Lemma keeps_map {A B} (P : str -> Prop) (m : M A) (f : A -> B) (w0 w w' : world) (r : mres A) :
    m w = (r, w') -> keeps P w0 r w' ->
    exists r', (x <- m ;; ret (f x)) w = (r', w') /\ keeps P w0 r' w'.
  Proof.
    intros Hrun (Hnh & Hinv & Hext).
    destruct r as [a | e |]; [| | contradiction Hnh; reflexivity].
    - exists (MOk (f a)). split; [rewrite (bind_ok _ _ w w' a Hrun); reflexivity |].
      split; [discriminate | split; assumption].
    - exists (MErr e). split; [rewrite (bind_err _ _ w w' e Hrun); reflexivity |].
      split; [discriminate | split; assumption].
  Qed.

  Lemma keeps_map_ex {A B} (P : str -> Prop) (m : M A) (f : A -> B) (w : world) :
    (exists r w', m w = (r, w') /\ keeps P w r w') ->
    exists r' w', (x <- m ;; ret (f x)) w = (r', w') /\ keeps P w r' w'.
  Proof.
    intros (r & w' & Hrun & Hk). destruct (keeps_map P m f w w w' r Hrun Hk) as (r' & Hrun' & Hk').
    exists r', w'. split; assumption.
  Qed.

  (** ** resolve, back up, one call on the base *)
  Definition guarded {A} (name : str) (call : str -> M A) : M A :=
    rn <- real_path base name ;; try_backup base backup rn ;;; call rn.

  Definition all_dirs (w : world) (n : str) : Prop :=
    forall q m, In q (ancestors n) -> Vb w !! q = Some m -> node_kind m = KDir.

  Lemma self_in_cands (n : str) : cleaned n -> In n (cands n).
  Proof. intros Hc. rewrite (cands_last n Hc). apply in_or_app. right. left. reflexivity. Qed.

  (** the call may touch [l], which lies on the chain from the root to [n]:
      after a successful [try_backup] that chain is tracked *)
  Lemma guarded_spec {A} (call : str -> M A) (w : world) (n : str) (l : list str) :
    Inv Vb Vk B0 w -> snolinkpar (Vb w) n -> incl l (cands n) ->
    (forall w2, quiet w2 -> swf (Vb w2) -> Vb w2 = Vb w -> framed Vb Vk (call n) w2 l) ->
    exists r w' w2, guarded n call w = (r, w') /\ r <> MHalt /\ Inv Vb Vk B0 w2 /\
      ext Vb w w2 (cands n) /\ w_infos w' = w_infos w2 /\
      (all_dirs w n -> tracked w2 n /\ Forall (tracked w2) (ancestors n)) /\
      (((exists e, r = MErr e) /\ w' = w2) \/
       (Forall (tracked w2) l /\ call n w2 = (r, w') /\ fr w2 w' l)).
  Proof.
    intros HI Hnlp Hincl Hframe. unfold guarded. pose proof Hnlp as [[Hc _] _].
    destruct (real_path_resolved_spec base Vb Vk tnb accb rhb whb hid anc Lb w n
                (inv_quiet _ _ _ _ HI) (inv_wf_b _ _ _ _ HI) Hnlp) as (w1 & Hrun1 & HVb1 & Hsr1).
    pose proof (same_all_base w w1 HVb1 Hsr1) as Hsa1.
    pose proof (Inv_transfer w w1 HI Hsa1) as HI1.
    assert (Hnlp1 : snolinkpar (Vb w1) n) by (rewrite HVb1; exact Hnlp).
    destruct (try_backup_specS w1 n HI1 Hnlp1) as (r2 & w2 & Hrun2 & Hnh2 & HI2 & Hext2 & Htr2 & Hok2).
    assert (Hext : ext Vb w w2 (cands n)).
    { eapply ext_trans; [exact (same_all_ext w w1 (cands n) Hsa1) | exact Hext2
                        | apply incl_refl | apply incl_refl]. }
    assert (Hdirs : all_dirs w n -> tracked w2 n /\ Forall (tracked w2) (ancestors n)).
    { intros Hd. apply Htr2. apply Hok2. intros q m Hq Hm. rewrite HVb1 in Hm. exact (Hd q m Hq Hm). }
    rewrite (bind_ok _ _ w w1 n Hrun1).
    destruct r2 as [[] | e |]; [| | contradiction Hnh2; reflexivity].
    - destruct (Htr2 eq_refl) as [Htn Hanc].
      assert (Hall : Forall (tracked w2) (cands n)).
      { rewrite (cands_last n Hc). apply Forall_app. split; [exact Hanc |].
        constructor; [exact Htn | constructor]. }
      assert (Htl : Forall (tracked w2) l).
      { apply List.Forall_forall. intros q Hq. rewrite List.Forall_forall in Hall.
        exact (Hall q (Hincl q Hq)). }
      pose proof Hext as (HVb2 & _ & _).
      destruct (framed_fr _ _ _ (Hframe w2 (inv_quiet _ _ _ _ HI2) (inv_wf_b _ _ _ _ HI2) HVb2))
        as (r3 & w3 & Hrun3 & Hnh3 & Hfr3).
      exists r3, w3, w2. split; [rewrite (bind_ok _ _ w1 w2 tt Hrun2); exact Hrun3 |].
      split; [exact Hnh3 |]. split; [exact HI2 |]. split; [exact Hext |].
      split; [exact (fr_infos w2 w3 l Hfr3) |]. split; [exact Hdirs |]. right.
      split; [exact Htl |]. split; [exact Hrun3 | exact Hfr3].
    - exists (MErr e), w2, w2. split; [rewrite (bind_err _ _ w1 w2 e Hrun2); reflexivity |].
      split; [discriminate |]. split; [exact HI2 |]. split; [exact Hext |].
      split; [reflexivity |]. split; [exact Hdirs |]. left. split; [exists e; reflexivity | reflexivity].
  Qed.

  Lemma guarded_keeps {A} (call : str -> M A) (w : world) (n : str) (l : list str) :
    Inv Vb Vk B0 w -> snolinkpar (Vb w) n -> incl l (cands n) ->
    (forall w2, quiet w2 -> swf (Vb w2) -> Vb w2 = Vb w -> framed Vb Vk (call n) w2 l) ->
    exists r w', guarded n call w = (r, w') /\ keeps (fun q => In q (cands n)) w r w'.
  Proof.
    intros HI Hnlp Hincl Hframe.
    destruct (guarded_spec call w n l HI Hnlp Hincl Hframe)
      as (r & w' & w2 & Hrun & Hnh & HI2 & Hext & _ & _ & Hcase).
    exists r, w'. split; [exact Hrun |].
    destruct Hcase as [[_ ->] | (Htl & _ & Hfr)].
    - exact (keeps_inv _ w w2 r (cands n) Hnh HI2 Hext (fun q Hq => Hq)).
    - exact (keeps_frame _ w w2 w' r (cands n) l Hnh HI2 Hext (fun q Hq => Hq) Hfr Htl).
  Qed.

  Lemma incl_self_cands (n : str) : cleaned n -> incl [n] (cands n).
  Proof. intros Hc q [<- | []]. exact (self_in_cands n Hc). Qed.

  (** a unit operation on the resolved name *)
  Lemma unit_op_spec (call : str -> M unit) (w : world) (n : str) (l : list str) :
    Inv Vb Vk B0 w -> snolinkpar (Vb w) n -> incl l (cands n) ->
    (forall w2, quiet w2 -> swf (Vb w2) -> Vb w2 = Vb w -> framed Vb Vk (call n) w2 l) ->
    exists r w', (guarded n call ;;; ret ObUnit) w = (r, w') /\ keeps (fun q => In q (cands n)) w r w'.
  Proof.
    intros HI Hnlp Hincl Hframe.
    exact (keeps_map_ex _ (guarded n call) (fun _ => ObUnit) w (guarded_keeps call w n l HI Hnlp Hincl Hframe)).
  Qed.

  (** Create, OpenFile with a writing flag: the handle is written and closed *)
  Lemma handle_op_spec (call : str -> M fhandle) (w : world) (n : str) (d : list N) :
    Inv Vb Vk B0 w -> snolinkpar (Vb w) n -> snotlink (Vb w) n ->
    (forall w2, quiet w2 -> swf (Vb w2) -> Vb w2 = Vb w -> framed Vb Vk (call n) w2 [n]) ->
    (forall w2 r w', call n w2 = (r, w') ->
       (exists fl perm, a_openfile base n fl perm w2 = (r, w')) \/ a_create base n w2 = (r, w')) ->
    exists r w', (h <- guarded n call ;; write_close h d ;;; ret ObUnit) w = (r, w') /\
                 keeps (fun q => In q (cands n)) w r w'.
  Proof.
    intros HI Hnlp Hnl Hframe Hwhich. pose proof Hnlp as [[Hc _] _].
    destruct (guarded_spec call w n [n] HI Hnlp (incl_self_cands n Hc) Hframe)
      as (r & w' & w2 & Hrun & Hnh & HI2 & Hext & Hi & _ & Hcase).
    pose proof Hext as (HVb2 & _ & _).
    destruct Hcase as [[[e ->] ->] | (Htl & Hcall & Hfr)].
    { exists (MErr e), w2. split; [rewrite (bind_err _ _ w w2 e Hrun); reflexivity |].
      apply (keeps_inv _ w w2 (MErr e) (cands n)); [discriminate | exact HI2 | exact Hext | exact (fun q Hq => Hq)]. }
    destruct r as [h | e |]; [| | contradiction Hnh; reflexivity].
    2:{ exists (MErr e), w'. split; [rewrite (bind_err _ _ w w' e Hrun); reflexivity |].
        apply (keeps_frame _ w w2 w' (MErr e) (cands n) [n]);
          [discriminate | exact HI2 | exact Hext | exact (fun q Hq => Hq) | exact Hfr | exact Htl]. }
    assert (Hnlp2 : snolinkpar (Vb w2) n) by (rewrite HVb2; exact Hnlp).
    assert (Hnl2 : snotlink (Vb w2) n) by (rewrite HVb2; exact Hnl).
    pose proof Hfr as (_ & Hwf' & _).
    destruct (framed_fr _ _ _
                (law_user_handle _ _ _ _ _ _ _ _ _ Lb w2 n (MOk h) w' (inv_quiet _ _ _ _ HI2) (inv_wf_b _ _ _ _ HI2)
                   Hnlp2 Hnl2 (Hwhich w2 (MOk h) w' Hcall) h d eq_refl
                   (fr_quiet w2 w' [n] (inv_quiet _ _ _ _ HI2) Hfr) Hwf'))
      as (r4 & w4 & Hrun4 & Hnh4 & Hfr4).
    pose proof (fr_trans w2 w' w4 [n] Hfr Hfr4) as Hfr24.
    rewrite (bind_ok _ _ w w' h Hrun).
    destruct (keeps_map (fun q => In q (cands n)) (write_close h d) (fun _ => ObUnit) w w' w4 r4 Hrun4
                (keeps_frame _ w w2 w4 r4 (cands n) [n] Hnh4 HI2 Hext (fun q Hq => Hq) Hfr24 Htl))
      as (r5 & Hrun5 & Hk5).
    exists r5, w4. split; [exact Hrun5 | exact Hk5].
  Qed.

  (** ** operations forwarded to the base without backup *)

  (** a call that leaves the base view alone *)
  Lemma ro_keeps {A} (P : str -> Prop) (w w' : world) (r : mres A) :
    Inv Vb Vk B0 w -> r <> MHalt -> fr w w' [] -> keeps P w r w'.
  Proof.
    intros HI Hnh Hfr.
    apply (keeps_frame P w w w' r [] []); [exact Hnh | exact HI | apply ext_refl | | exact Hfr | constructor].
    intros q [].
  Qed.

  Lemma ro_call_spec {A} (m : M A) (w : world) :
    Inv Vb Vk B0 w -> framed Vb Vk m w [] ->
    exists r w', m w = (r, w') /\ keeps (fun _ => False) w r w'.
  Proof.
    intros HI Hf. destruct (framed_fr m w [] Hf) as (r & w' & Hrun & Hnh & Hfr).
    exists r, w'. split; [exact Hrun | exact (ro_keeps _ w w' r HI Hnh Hfr)].
  Qed.

  Lemma lstat_framed (w : world) (n : str) :
    quiet w -> swf (Vb w) -> snolinkpar (Vb w) n -> framed Vb Vk (a_lstat base n) w [].
  Proof.
    intros Hq Hwf Hnlp. destruct (Vb w !! n) as [nd|] eqn:Hb.
    - destruct (law_lstat_some _ _ _ _ _ _ _ _ _ Lb w n nd Hq Hwf Hnlp Hb) as (fi & (w1 & Hrun & HV & Hsr) & _).
      exists (MOk fi), w1. split; [exact Hrun |]. split; [discriminate |]. split; [exact Hsr |].
      rewrite HV. split; [exact Hwf | apply store_eqv_except_refl].
    - destruct (law_lstat_none _ _ _ _ _ _ _ _ _ Lb w n Hq Hwf Hnlp Hb) as (e & w1 & Hrun & _ & HV & Hsr).
      exists (MErr e), w1. split; [exact Hrun |]. split; [discriminate |]. split; [exact Hsr |].
      rewrite HV. split; [exact Hwf | apply store_eqv_except_refl].
  Qed.

  (** OpenFile with flags 0, then an attempt to write *)
  Lemma ro_open_write_spec (w : world) (n : str) (d : list N) :
    Inv Vb Vk B0 w -> snolinkpar (Vb w) n ->
    exists r w', (h <- a_openfile base n 0 0 ;; write_close h d ;;; ret ObUnit) w = (r, w') /\
                 keeps (fun _ => False) w r w'.
  Proof.
    intros HI Hnlp. pose proof (inv_quiet _ _ _ _ HI) as Hq. pose proof (inv_wf_b _ _ _ _ HI) as Hwf.
    destruct (framed_fr _ w [] (law2_open_ro _ _ _ _ _ _ _ Lb2 w n Hq Hwf Hnlp))
      as (r1 & w1 & Hrun1 & Hnh1 & Hfr1).
    destruct r1 as [h | e |]; [| | contradiction Hnh1; reflexivity].
    2:{ exists (MErr e), w1. split; [rewrite (bind_err _ _ w w1 e Hrun1); reflexivity |].
        apply (ro_keeps _ w w1 (MErr e) HI); [discriminate | exact Hfr1]. }
    pose proof (fr_quiet w w1 [] Hq Hfr1) as Hq1. pose proof Hfr1 as (_ & Hwf1 & _).
    destruct (law2_ro_handle _ _ _ _ _ _ _ Lb2 w n h w1 Hq Hwf Hnlp Hrun1 w1 Hq1 Hwf1) as (_ & _ & _ & Hwr).
    destruct (framed_fr _ w1 [] (Hwr d)) as (r2 & w2 & Hrun2 & Hnh2 & Hfr2).
    rewrite (bind_ok _ _ w w1 h Hrun1).
    destruct (keeps_map (fun _ => False) (write_close h d) (fun _ => ObUnit) w w1 w2 r2 Hrun2
                (ro_keeps _ w w2 r2 HI Hnh2 (fr_trans w w1 w2 [] Hfr1 Hfr2))) as (r3 & Hrun3 & Hk3).
    exists r3, w2. split; [exact Hrun3 | exact Hk3].
  Qed.

  (** open read-only, use the handle, close *)
  Lemma ro_handle_op_spec {A} (use : fhandle -> M A) (f : A -> obs) (w : world) (n : str) :
    Inv Vb Vk B0 w -> snolinkpar (Vb w) n ->
    (forall h w1, a_openfile base n 0 0 w = (MOk h, w1) ->
       forall w2, quiet w2 -> swf (Vb w2) -> framed Vb Vk (use h) w2 []) ->
    exists r w', (h <- a_openfile base n 0 0 ;;
                  r <- try_ (use h) ;; _ <- try_ (hclose h) ;; x <- lift_res r ;; ret (f x)) w = (r, w') /\
                 keeps (fun _ => False) w r w'.
  Proof.
    intros HI Hnlp Huse. pose proof (inv_quiet _ _ _ _ HI) as Hq. pose proof (inv_wf_b _ _ _ _ HI) as Hwf.
    destruct (framed_fr _ w [] (law2_open_ro _ _ _ _ _ _ _ Lb2 w n Hq Hwf Hnlp))
      as (r1 & w1 & Hrun1 & Hnh1 & Hfr1).
    destruct r1 as [h | e |]; [| | contradiction Hnh1; reflexivity].
    2:{ exists (MErr e), w1. split; [rewrite (bind_err _ _ w w1 e Hrun1); reflexivity |].
        apply (ro_keeps _ w w1 (MErr e) HI); [discriminate | exact Hfr1]. }
    pose proof (fr_quiet w w1 [] Hq Hfr1) as Hq1. pose proof Hfr1 as (_ & Hwf1 & _).
    destruct (try_framed _ w1 [] (Huse h w1 Hrun1 w1 Hq1 Hwf1)) as (x2 & w2 & Hrun2 & Hfr2).
    pose proof (fr_quiet w1 w2 [] Hq1 Hfr2) as Hq2. pose proof Hfr2 as (_ & Hwf2 & _).
    destruct (law2_ro_handle _ _ _ _ _ _ _ Lb2 w n h w1 Hq Hwf Hnlp Hrun1 w2 Hq2 Hwf2) as (_ & _ & Hcl & _).
    destruct (try_framed _ w2 [] Hcl) as (x3 & w3 & Hrun3 & Hfr3).
    pose proof (fr_trans w w2 w3 [] (fr_trans w w1 w2 [] Hfr1 Hfr2) Hfr3) as Hfr.
    rewrite (bind_ok _ _ w w1 h Hrun1), (bind_ok _ _ w1 w2 x2 Hrun2), (bind_ok _ _ w2 w3 x3 Hrun3).
    destruct x2 as [a | e].
    - exists (MOk (f a)), w3. split; [reflexivity |].
      apply (ro_keeps _ w w3 _ HI); [discriminate | exact Hfr].
    - exists (MErr e), w3. split; [reflexivity |].
      apply (ro_keeps _ w w3 _ HI); [discriminate | exact Hfr].
  Qed.

  (** ** Rename: both names are backed up, the new one first *)
  Lemma rename_op_spec (w : world) (o n : str) :
    Inv Vb Vk B0 w -> snolinkpar (Vb w) o -> snolinkpar (Vb w) n -> no_children (Vb w) o ->
    exists r w', b_rename base backup o n w = (r, w') /\
                 keeps (fun q => In q (cands o ++ cands n)) w r w'.
  Proof.
    intros HI Hnlo Hnln Hleaf. unfold b_rename.
    pose proof Hnlo as [[Hco _] _]. pose proof Hnln as [[Hcn _] _].
    destruct (real_path_resolved_spec base Vb Vk tnb accb rhb whb hid anc Lb w o
                (inv_quiet _ _ _ _ HI) (inv_wf_b _ _ _ _ HI) Hnlo) as (w1 & Hrun1 & HVb1 & Hsr1).
    pose proof (same_all_base w w1 HVb1 Hsr1) as Hsa1.
    pose proof (Inv_transfer w w1 HI Hsa1) as HI1.
    assert (Hnln1 : snolinkpar (Vb w1) n) by (rewrite HVb1; exact Hnln).
    destruct (real_path_resolved_spec base Vb Vk tnb accb rhb whb hid anc Lb w1 n
                (inv_quiet _ _ _ _ HI1) (inv_wf_b _ _ _ _ HI1) Hnln1) as (w2 & Hrun2 & HVb2 & Hsr2).
    pose proof (same_all_trans w w1 w2 Hsa1 (same_all_base w1 w2 HVb2 Hsr2)) as Hsa2.
    pose proof (Inv_transfer w w2 HI Hsa2) as HI2.
    pose proof Hsa2 as (HVb02 & _).
    assert (Hnln2 : snolinkpar (Vb w2) n) by (rewrite HVb02; exact Hnln).
    rewrite (bind_ok _ _ w w1 o Hrun1), (bind_ok _ _ w1 w2 n Hrun2).
    (* the new name *)
    destruct (try_backup_specS w2 n HI2 Hnln2) as (r3 & w3 & Hrun3 & Hnh3 & HI3 & Hext3 & Htr3 & _).
    assert (Hext03 : ext Vb w w3 (cands o ++ cands n)).
    { eapply ext_trans; [exact (same_all_ext w w2 (cands n) Hsa2) | exact Hext3 | |];
        intros q Hq; apply in_or_app; right; exact Hq. }
    destruct r3 as [[] | e |]; [| | contradiction Hnh3; reflexivity].
    2:{ exists (MErr e), w3. split; [rewrite (bind_err _ _ w2 w3 e Hrun3); reflexivity |].
        apply (keeps_inv _ w w3 (MErr e) (cands o ++ cands n));
          [discriminate | exact HI3 | exact Hext03 | exact (fun q Hq => Hq)]. }
    rewrite (bind_ok _ _ w2 w3 tt Hrun3).
    (* the old name *)
    pose proof Hext03 as (HVb03 & _ & _).
    assert (Hnlo3 : snolinkpar (Vb w3) o) by (rewrite HVb03; exact Hnlo).
    destruct (try_backup_specS w3 o HI3 Hnlo3) as (r4 & w4 & Hrun4 & Hnh4 & HI4 & Hext4 & Htr4 & _).
    assert (Hext04 : ext Vb w w4 (cands o ++ cands n)).
    { eapply ext_trans; [exact Hext03 | exact Hext4 | apply incl_refl |].
      intros q Hq. apply in_or_app. left. exact Hq. }
    destruct r4 as [[] | e |]; [| | contradiction Hnh4; reflexivity].
    2:{ exists (MErr e), w4. split; [rewrite (bind_err _ _ w3 w4 e Hrun4); reflexivity |].
        apply (keeps_inv _ w w4 (MErr e) (cands o ++ cands n));
          [discriminate | exact HI4 | exact Hext04 | exact (fun q Hq => Hq)]. }
    rewrite (bind_ok _ _ w3 w4 tt Hrun4).
    (* the call *)
    pose proof Hext04 as (HVb04 & _ & _).
    assert (Htl : Forall (tracked w4) [o; n]).
    { constructor; [exact (proj1 (Htr4 eq_refl)) |]. constructor; [| constructor].
      exact (ext_tracked _ _ _ _ _ Hext4 (proj1 (Htr3 eq_refl))). }
    assert (Hfrm : framed Vb Vk (a_rename base o n) w4 [o; n]).
    { apply (law_user_rename _ _ _ _ _ _ _ _ _ Lb w4 o n (inv_quiet _ _ _ _ HI4) (inv_wf_b _ _ _ _ HI4));
        rewrite HVb04; assumption. }
    destruct (framed_fr _ w4 _ Hfrm) as (r5 & w5 & Hrun5 & Hnh5 & Hfr5).
    exists r5, w5. split; [exact Hrun5 |].
    exact (keeps_frame _ w w4 w5 r5 (cands o ++ cands n) [o; n] Hnh5 HI4 Hext04 (fun q Hq => Hq) Hfr5 Htl).
  Qed.

  (** ** RemoveAll *)

  (** the new store only lost entries of the old one (and kept the others up to equivalence) *)
  Definition shrinks (s s' : store) : Prop :=
    forall p, s' !! p = None \/ sonode_eqv (s' !! p) (s !! p).

  Lemma shrinks_refl (s : store) : shrinks s s.
  Proof. intros p. right. apply sonode_eqv_refl. Qed.

  Lemma shrinks_eq (s s' : store) : s' = s -> shrinks s s'.
  Proof. intros ->. apply shrinks_refl. Qed.

  Lemma shrinks_trans (s1 s2 s3 : store) : shrinks s1 s2 -> shrinks s2 s3 -> shrinks s1 s3.
  Proof.
    intros H1 H2 p. destruct (H2 p) as [Hn | He]; [left; exact Hn |].
    destruct (H1 p) as [Hn1 | He1].
    - rewrite Hn1 in He. destruct (s3 !! p) as [x|]; [contradiction He | left; reflexivity].
    - right. eapply sonode_eqv_trans; eassumption.
  Qed.

  Lemma shrinks_snolinkpar (s s' : store) (p : str) : shrinks s s' -> snolinkpar s p -> snolinkpar s' p.
  Proof.
    intros Hsh [Hac Hf]. split; [exact Hac |].
    eapply List.Forall_impl; [| exact Hf].
    intros a Hnl m t Hl. destruct (Hsh a) as [Hn | He].
    - rewrite Hn in Hl. discriminate Hl.
    - rewrite Hl in He. destruct (s !! a) as [[m' | m' c' | m' t']|] eqn:Hs; simpl in He; try contradiction.
      exact (Hnl m' t' Hs).
  Qed.

  Lemma eqv_kind (a b : node) : snode_eqv a b -> node_kind a = node_kind b.
  Proof. destruct a, b; simpl; try contradiction; reflexivity. Qed.

  Lemma no_children_dec (s : store) (p : str) : no_children s p \/ ~ no_children s p.
  Proof.
    assert (Hdec : forall (q : str) (x : node), Decision (q = p \/ ~ In p (ancestors q))).
    { intros q _. destruct (str_eq_dec q p) as [E | Hne]; [left; left; exact E |].
      destruct (in_dec str_eq_dec p (ancestors q)) as [Hin | Hnin].
      - right. intros [E | Hn]; [exact (Hne E) | exact (Hn Hin)].
      - left. right. exact Hnin. }
    destruct (decide (map_Forall (fun (q : str) (_ : node) => q = p \/ ~ In p (ancestors q)) s))
      as [Hall | Hnall].
    - left. intros q n Hq Hne Hin. destruct (Hall q n Hq) as [E | Hn]; [exact (Hne E) | exact (Hn Hin)].
    - right. intros Hnc. apply Hnall. intros q n Hq.
      destruct (str_eq_dec q p) as [E | Hne]; [left; exact E | right; exact (Hnc q n Hq Hne)].
  Qed.

  (** like [keeps], but the invariant holds outright and the base only lost entries *)
  Definition kept {A} (P : str -> Prop) (w : world) (r : mres A) (w' : world) : Prop :=
    r <> MHalt /\ Inv Vb Vk B0 w' /\ infos_ext_in w w' P /\ shrinks (Vb w) (Vb w').

  Lemma kept_keeps {A} (P : str -> Prop) (w : world) (r : mres A) (w' : world) :
    kept P w r w' -> keeps P w r w'.
  Proof. intros (Hnh & HI' & Hie & _). split; [exact Hnh | split; [intros _; exact HI' | exact Hie]]. Qed.

  Lemma kept_weaken {A} (P Q : str -> Prop) (w : world) (r : mres A) (w' : world) :
    (forall q, P q -> Q q) -> kept P w r w' -> kept Q w r w'.
  Proof.
    intros HPQ (Hnh & HI' & (Hm & Hd) & Hsh).
    split; [exact Hnh | split; [exact HI' | split; [split; [exact Hm |] | exact Hsh]]].
    intros q Hq. destruct (Hd q Hq) as [H | H]; [left; exact H | right; exact (HPQ q H)].
  Qed.

  Lemma kept_same {A} (P : str -> Prop) (w w' : world) (r : mres A) :
    r <> MHalt -> Inv Vb Vk B0 w -> same_all w w' -> kept P w r w'.
  Proof.
    intros Hnh HI Hsa. pose proof Hsa as (HV & _ & Hi & _).
    split; [exact Hnh | split; [exact (Inv_transfer w w' HI Hsa) | split; [| apply shrinks_eq; exact HV]]].
    unfold infos_ext_in. rewrite Hi. split; [intros q _; reflexivity | intros q Hq; left; exact Hq].
  Qed.

  Lemma kept_result {A B} (P : str -> Prop) (w : world) (r : mres A) (r' : mres B) (w' : world) :
    r' <> MHalt -> kept P w r w' -> kept P w r' w'.
  Proof. intros Hnh (_ & H). split; [exact Hnh | exact H]. Qed.

  Lemma same_all_refl (w : world) : same_all w w.
  Proof. repeat split. Qed.

  Lemma kept_trans {A B} (P : str -> Prop) (w w1 w2 : world) (r1 : mres A) (r2 : mres B) :
    kept P w r1 w1 -> kept P w1 r2 w2 -> kept P w r2 w2.
  Proof.
    intros (_ & _ & (Hm1 & Hd1) & Hsh1) (Hnh2 & HI2 & (Hm2 & Hd2) & Hsh2).
    split; [exact Hnh2 | split; [exact HI2 | split; [split |]]].
    - intros q Hq. rewrite Hm2; [exact (Hm1 q Hq) |]. rewrite (Hm1 q Hq). exact Hq.
    - intros q Hq. destruct (Hd2 q Hq) as [H | H]; [| right; exact H]. exact (Hd1 q H).
    - exact (shrinks_trans _ _ _ Hsh1 Hsh2).
  Qed.

  (** Remove of anything but the root ends in a state that satisfies the
      invariant outright (the precise laws of Remove say what became of the entry) *)
  Lemma remove_strong (w : world) (sub : str) :
    Inv Vb Vk B0 w -> snolinkpar (Vb w) sub -> sub <> s_root ->
    exists r w', b_remove base backup sub w = (r, w') /\ kept (fun q => In q (cands sub)) w r w'.
  Proof.
    intros HI Hnlp Hne. pose proof Hnlp as [[Hc _] _].
    destruct (guarded_spec (a_remove base) w sub [sub] HI Hnlp (incl_self_cands sub Hc))
      as (r & w' & w2 & Hrun & Hnh & HI2 & Hext & Hi & _ & Hcase).
    { intros w0 Hq0 Hwf0 HV0. apply (law_user_remove _ _ _ _ _ _ _ _ _ Lb w0 sub Hq0 Hwf0); [| exact Hne].
      rewrite HV0. exact Hnlp. }
    exists r, w'. split; [exact Hrun |].
    pose proof Hext as (HVb2 & Hm & Hd).
    assert (Hie : forall w3, w_infos w3 = w_infos w2 -> infos_ext_in w w3 (fun q => In q (cands sub))).
    { intros w3 E. unfold infos_ext_in. rewrite E. split; assumption. }
    destruct Hcase as [[_ ->] | (Htl & Hcall & Hfr)].
    { split; [exact Hnh | split; [exact HI2 | split; [apply Hie; reflexivity | apply shrinks_eq; exact HVb2]]]. }
    assert (Hnlp2 : snolinkpar (Vb w2) sub) by (rewrite HVb2; exact Hnlp).
    pose proof (inv_quiet _ _ _ _ HI2) as Hq2. pose proof (inv_wf_b _ _ _ _ HI2) as Hwf2.
    assert (Hsame : forall e w3, a_remove base sub w2 = (MErr e, w3) -> Vb w3 = Vb w2 -> same_rest Vk w2 w3 ->
                                 kept (fun q => In q (cands sub)) w r w').
    { intros e w3 Hrun3 HV3 Hsr3. rewrite Hcall in Hrun3. injection Hrun3 as Er Ew. subst r w'.
      pose proof (same_all_base w2 w3 HV3 Hsr3) as Hsa.
      split; [discriminate |]. split; [exact (Inv_transfer w2 w3 HI2 Hsa) |].
      split; [apply Hie; exact (proj1 (proj2 Hsr3)) | apply shrinks_eq; congruence]. }
    (* a proper ancestor of a hidden location: the Remove fails, nothing changes *)
    destruct (law_anc_dec _ _ _ _ _ _ _ _ _ Lb sub) as [Hanc | Hnanc].
    { destruct (law_remove_anc _ _ _ _ _ _ _ _ _ Lb w2 sub Hq2 Hwf2 Hanc)
        as (e & w3 & Hrun3 & _ & HV3 & Hsr3).
      exact (Hsame e w3 Hrun3 HV3 Hsr3). }
    destruct (Vb w2 !! sub) as [nd|] eqn:Hb.
    - destruct (no_children_dec (Vb w2) sub) as [Hnc | Hnnc].
      + destruct (law_remove_leaf _ _ _ _ _ _ _ _ _ Lb w2 sub nd Hq2 Hwf2 Hnlp2 Hb Hnc Hne Hnanc)
          as (s' & (w3 & Hrun3 & HV3 & Hsr3) & Hnone & Heqv' & Hwf').
        rewrite Hcall in Hrun3. injection Hrun3 as Er Ew. subst r w'.
        assert (Hsh : shrinks (Vb w2) (Vb w3)).
        { rewrite HV3. intros p. destruct (str_eq_dec p sub) as [-> | Hp]; [left; exact Hnone | right].
          apply Heqv'. intros [E | []]. exact (Hp (eq_sym E)). }
        pose proof (fr_infos w2 w3 [sub] Hfr) as Hi3.
        split; [discriminate |]. split; [| split; [apply Hie; exact Hi3 | rewrite <- HVb2; exact Hsh]].
        apply (Inv_base_frame w2 w3 [sub] HI2 Hfr Htl). split.
        * intros p fi n' Hp Hn'. rewrite Hi3 in Hp.
          destruct (Hsh p) as [Hnn | He]; [rewrite Hn' in Hnn; discriminate Hnn |].
          rewrite Hn' in He. destruct (Vb w2 !! p) as [n2|] eqn:E2; [| contradiction He]. simpl in He.
          rewrite (eqv_kind _ _ He). exact (inv_kind _ _ _ _ HI2 p fi n2 Hp E2).
        * intros p Hp. rewrite Hi3 in Hp.
          exact (shrinks_snolinkpar _ _ p Hsh (inv_nolink _ _ _ _ HI2 p Hp)).
      + destruct (law_remove_nonempty _ _ _ _ _ _ _ _ _ Lb w2 sub nd Hq2 Hwf2 Hnlp2 Hb Hnnc)
          as (e & w3 & Hrun3 & _ & HV3 & Hsr3).
        exact (Hsame e w3 Hrun3 HV3 Hsr3).
    - destruct (law_remove_none _ _ _ _ _ _ _ _ _ Lb w2 sub Hq2 Hwf2 Hnlp2 Hb)
        as (e & w3 & Hrun3 & _ & HV3 & Hsr3).
      exact (Hsame e w3 Hrun3 HV3 Hsr3).
  Qed.

  (** [d] is [n] or lies below it *)
  Definition under (n d : str) : Prop := d = n \/ In n (ancestors d).

  (** [q] is on the chain from the root to some path at or below [n] *)
  Definition below_chain (n q : str) : Prop := exists s, under n s /\ In q (cands s).

  Lemma under_not_root (n d : str) : n <> s_root -> under n d -> d <> s_root.
  Proof.
    intros Hn [-> | Hin]; [exact Hn |]. intros ->. rewrite ancestors_root in Hin. contradiction.
  Qed.

  Lemma under_child (n path f : str) : cleaned f -> under n path -> In path (ancestors f) -> under n f.
  Proof.
    intros Hcf [-> | Hin] Hpf; right; [exact Hpf |]. exact (ancestors_trans f path n Hcf Hpf Hin).
  Qed.

  (** a path the walk has met: resolved, at or below [n] *)
  Definition okd (n : str) (w : world) (d : str) : Prop := snolinkpar (Vb w) d /\ under n d.

  Lemma okd_shrinks (n : str) (w w' : world) (l : list str) :
    shrinks (Vb w) (Vb w') -> Forall (okd n w) l -> Forall (okd n w') l.
  Proof.
    intros Hsh Hl. eapply List.Forall_impl; [| exact Hl].
    intros d [H1 H2]. split; [exact (shrinks_snolinkpar _ _ d Hsh H1) | exact H2].
  Qed.

  (** the walk callback of RemoveAll *)
  Definition ra_fn (acc : list str) (sub : str) (info : finfo) : M (list str) :=
    if is_dir_info info then ret (acc ++ [sub]) else b_remove base backup sub ;;; ret acc.

  Lemma b_removeall_eq (name : str) :
    b_removeall base backup name =
    (rn <- real_path base name ;;
     r <- try_ (a_lstat base rn) ;;
     match r with
     | Err e => if is_not_found e then ret tt else fail e
     | Ok fi =>
         if negb (is_dir_info fi) then b_remove base backup rn
         else dirs <- walk_m base rn ra_fn [] ;; miter (b_remove base backup) (sort_most dirs)
     end).
  Proof. reflexivity. Qed.

  Lemma remove_under (n : str) (w : world) (d : str) :
    n <> s_root -> Inv Vb Vk B0 w -> okd n w d ->
    exists r w', b_remove base backup d w = (r, w') /\ kept (below_chain n) w r w'.
  Proof.
    intros Hnr HI [Hnlp Hun].
    destruct (remove_strong w d HI Hnlp (under_not_root n d Hnr Hun)) as (r & w' & Hrun & Hk).
    exists r, w'. split; [exact Hrun |]. eapply kept_weaken; [| exact Hk].
    intros q Hq. exists d. split; assumption.
  Qed.

  (** the walk below [n]: files and links are removed on the way, directories collected *)
  Lemma walk_spec (n : str) : n <> s_root ->
    forall (fuel : nat) (path : str) (info : finfo) (acc : list str) (w : world),
    Inv Vb Vk B0 w -> okd n w path -> (is_dir_info info = true -> sdir (Vb w) path) ->
    Forall (okd n w) acc ->
    exists r w', walk_fold fuel base path info ra_fn acc w = (r, w') /\ kept (below_chain n) w r w' /\
                 forall acc', r = MOk acc' -> Forall (okd n w') acc'.
  Proof.
    intros Hnr. induction fuel as [|fuel IH]; intros path info acc w HI Hpath Hdir Hacc.
    { exists (MErr EFUEL), w. split; [reflexivity |].
      split; [apply kept_same; [discriminate | exact HI | apply same_all_refl] | intros acc' D; discriminate D]. }
    cbn [walk_fold]. destruct (is_dir_info info) eqn:Ed.
    2:{ (* not a directory: removed *)
      destruct (remove_under n w path Hnr HI Hpath) as (r1 & w1 & Hrun1 & Hk1).
      destruct r1 as [[] | e |]; [| | destruct Hk1 as [Hnh _]; contradiction Hnh; reflexivity].
      - assert (Hfn : ra_fn acc path info w = (MOk acc, w1)).
        { unfold ra_fn. rewrite Ed. rewrite (bind_ok _ _ w w1 tt Hrun1). reflexivity. }
        rewrite (bind_ok _ _ w w1 acc Hfn).
        exists (MOk acc), w1. split; [reflexivity |].
        split; [apply (kept_result _ w (MOk tt) (MOk acc) w1); [discriminate | exact Hk1] |].
        intros acc' E. injection E as <-. destruct Hk1 as (_ & _ & _ & Hsh). exact (okd_shrinks n w w1 acc Hsh Hacc).
      - assert (Hfn : ra_fn acc path info w = (MErr e, w1)).
        { unfold ra_fn. rewrite Ed. rewrite (bind_err _ _ w w1 e Hrun1). reflexivity. }
        rewrite (bind_err _ _ w w1 e Hfn).
        exists (MErr e), w1. split; [reflexivity |].
        split; [apply (kept_result _ w (MErr e : mres unit) (MErr e) w1); [discriminate | exact Hk1] |].
        intros acc' D. discriminate D. }
    (* a directory: collected, its entries walked *)
    assert (Hfn : ra_fn acc path info w = (MOk (acc ++ [path]), w)).
    { unfold ra_fn. rewrite Ed. reflexivity. }
    rewrite (bind_ok _ _ w w (acc ++ [path]) Hfn).
    destruct (Hdir eq_refl) as [m Hm]. destruct Hpath as [Hnlp Hun].
    destruct (law2_readdir _ _ _ _ _ _ _ Lb2 w path m (inv_quiet _ _ _ _ HI) (inv_wf_b _ _ _ _ HI) Hnlp Hm)
      as (r2 & w2 & Hrun2 & Hnh2 & HV2 & Hsr2 & Hnames).
    pose proof (same_all_base w w2 HV2 Hsr2) as Hsa2.
    destruct r2 as [names | e |]; [| | contradiction Hnh2; reflexivity].
    2:{ rewrite (bind_err _ _ w w2 e Hrun2). exists (MErr e), w2. split; [reflexivity |].
        split; [apply kept_same; [discriminate | exact HI | exact Hsa2] | intros acc' D; discriminate D]. }
    rewrite (bind_ok _ _ w w2 names Hrun2).
    pose proof (Inv_transfer w w2 HI Hsa2) as HI2.
    assert (Hacc2 : Forall (okd n w2) (acc ++ [path])).
    { apply (okd_shrinks n w w2); [apply shrinks_eq; exact HV2 |].
      apply Forall_app. split; [exact Hacc |]. constructor; [split; assumption | constructor]. }
    assert (Hnm2 : Forall (okd n w2) (map (join2 path) names)).
    { specialize (Hnames names eq_refl). apply List.Forall_forall. intros f Hf.
      apply in_map_iff in Hf. destruct Hf as (nm & <- & Hnm).
      rewrite List.Forall_forall in Hnames. destruct (Hnames nm Hnm) as [Hex Hpar].
      destruct (Vb w !! join2 path nm) as [nd|] eqn:Hb; [| contradiction Hex; reflexivity].
      pose proof (swf_lookup_snolinkpar _ _ _ (inv_wf_b _ _ _ _ HI) Hb) as Hnlf.
      split; [rewrite HV2; exact Hnlf |].
      exact (under_child n path _ (proj1 (proj1 Hnlf)) Hun Hpar). }
    (* the entries, one after the other *)
    assert (Hfold : forall (l : list str) (acc0 : list str) (w0 : world),
              Inv Vb Vk B0 w0 -> Forall (okd n w0) (map (join2 path) l) -> Forall (okd n w0) acc0 ->
              exists r w', mfold (fun a name =>
                                    fi <- a_lstat base (join2 path name) ;;
                                    walk_fold fuel base (join2 path name) fi ra_fn a) l acc0 w0 = (r, w') /\
                           kept (below_chain n) w0 r w' /\
                           forall acc', r = MOk acc' -> Forall (okd n w') acc').
    { induction l as [|nm rest IHl]; intros acc0 w0 HI0 Hl0 Hacc0.
      { exists (MOk acc0), w0. split; [reflexivity |].
        split; [apply kept_same; [discriminate | exact HI0 | apply same_all_refl] |].
        intros acc' E. injection E as <-. exact Hacc0. }
      cbn [mfold]. cbn [map] in Hl0.
      pose proof (List.Forall_inv Hl0) as [Hnlf Hunf]. pose proof (List.Forall_inv_tail Hl0) as Hrest.
      pose proof (inv_quiet _ _ _ _ HI0) as Hq0. pose proof (inv_wf_b _ _ _ _ HI0) as Hwf0.
      destruct (Vb w0 !! join2 path nm) as [nd|] eqn:Hb.
      2:{ destruct (law_lstat_none _ _ _ _ _ _ _ _ _ Lb w0 _ Hq0 Hwf0 Hnlf Hb) as (e & w1 & Hrun1 & _ & HV1 & Hsr1).
          assert (Hin : (fi <- a_lstat base (join2 path nm) ;;
                         walk_fold fuel base (join2 path nm) fi ra_fn acc0) w0 = (MErr e, w1)).
          { rewrite (bind_err _ _ w0 w1 e Hrun1). reflexivity. }
          rewrite (bind_err _ _ w0 w1 e Hin). exists (MErr e), w1. split; [reflexivity |].
          split; [apply kept_same; [discriminate | exact HI0 | exact (same_all_base w0 w1 HV1 Hsr1)] |].
          intros acc' D. discriminate D. }
      destruct (law_lstat_some _ _ _ _ _ _ _ _ _ Lb w0 _ nd Hq0 Hwf0 Hnlf Hb)
        as (fi & (w1 & Hrun1 & HV1 & Hsr1) & Him & _).
      pose proof (same_all_base w0 w1 HV1 Hsr1) as Hsa1.
      pose proof (Inv_transfer w0 w1 HI0 Hsa1) as HI1.
      destruct (IH (join2 path nm) fi acc0 w1 HI1) as (r3 & w3 & Hrun3 & Hk3 & Hacc3).
      { split; [rewrite HV1; exact Hnlf | exact Hunf]. }
      { intros Edf. rewrite HV1. unfold is_dir_info in Edf. rewrite (proj1 Him) in Edf.
        destruct nd as [md | md cd | md td]; [exists md; exact Hb | discriminate Edf | discriminate Edf]. }
      { apply (okd_shrinks n w0 w1); [apply shrinks_eq; exact HV1 | exact Hacc0]. }
      assert (Hk03 : kept (below_chain n) w0 r3 w3).
      { eapply kept_trans; [| exact Hk3].
        apply (kept_same _ w0 w1 (MOk tt)); [discriminate | exact HI0 | exact Hsa1]. }
      assert (Hin : (fi <- a_lstat base (join2 path nm) ;;
                     walk_fold fuel base (join2 path nm) fi ra_fn acc0) w0 = (r3, w3)).
      { rewrite (bind_ok _ _ w0 w1 fi Hrun1). exact Hrun3. }
      destruct r3 as [acc3 | e |]; [| | destruct Hk3 as [Hnh _]; contradiction Hnh; reflexivity].
      2:{ rewrite (bind_err _ _ w0 w3 e Hin). exists (MErr e), w3. split; [reflexivity |].
          split; [exact Hk03 | intros acc' D; discriminate D]. }
      rewrite (bind_ok _ _ w0 w3 acc3 Hin).
      pose proof Hk03 as (_ & HI3 & _ & Hsh03).
      destruct (IHl acc3 w3 HI3 (okd_shrinks n w0 w3 _ Hsh03 Hrest) (Hacc3 acc3 eq_refl))
        as (r4 & w4 & Hrun4 & Hk4 & Hacc4).
      exists r4, w4. split; [exact Hrun4 |]. split; [exact (kept_trans _ w0 w3 w4 _ r4 Hk03 Hk4) | exact Hacc4]. }
    destruct (Hfold names (acc ++ [path]) w2 HI2 Hnm2 Hacc2) as (r5 & w5 & Hrun5 & Hk5 & Hacc5).
    exists r5, w5. split; [exact Hrun5 |]. split; [| exact Hacc5].
    eapply kept_trans; [| exact Hk5].
    apply (kept_same _ w w2 (MOk tt)); [discriminate | exact HI | exact Hsa2].
  Qed.

  (** the collected directories, deepest first *)
  Lemma miter_remove (n : str) : n <> s_root -> forall (l : list str) (w : world),
    Inv Vb Vk B0 w -> Forall (okd n w) l ->
    exists r w', miter (b_remove base backup) l w = (r, w') /\ kept (below_chain n) w r w'.
  Proof.
    intros Hnr. induction l as [|d rest IHl]; intros w HI Hl.
    { exists (MOk tt), w. split; [reflexivity |].
      apply kept_same; [discriminate | exact HI | apply same_all_refl]. }
    cbn [miter].
    destruct (remove_under n w d Hnr HI (List.Forall_inv Hl)) as (r1 & w1 & Hrun1 & Hk1).
    destruct r1 as [[] | e |]; [| | destruct Hk1 as [Hnh _]; contradiction Hnh; reflexivity].
    - rewrite (bind_ok _ _ w w1 tt Hrun1). pose proof Hk1 as (_ & HI1 & _ & Hsh1).
      destruct (IHl w1 HI1 (okd_shrinks n w w1 rest Hsh1 (List.Forall_inv_tail Hl))) as (r2 & w2 & Hrun2 & Hk2).
      exists r2, w2. split; [exact Hrun2 | exact (kept_trans _ w w1 w2 _ r2 Hk1 Hk2)].
    - rewrite (bind_err _ _ w w1 e Hrun1). exists (MErr e), w1. split; [reflexivity | exact Hk1].
  Qed.

  Lemma cands_below (n q : str) : In q (cands n) -> below_chain n q.
  Proof. intros Hq. exists n. split; [left; reflexivity | exact Hq]. Qed.

  Lemma removeall_spec (w : world) (n : str) :
    Inv Vb Vk B0 w -> snolinkpar (Vb w) n -> n <> s_root ->
    exists r w', b_removeall base backup n w = (r, w') /\ keeps (below_chain n) w r w'.
  Proof.
    intros HI Hnlp Hnr. rewrite b_removeall_eq. pose proof Hnlp as [[Hc _] _].
    destruct (real_path_resolved_spec base Vb Vk tnb accb rhb whb hid anc Lb w n
                (inv_quiet _ _ _ _ HI) (inv_wf_b _ _ _ _ HI) Hnlp) as (w1 & Hrun1 & HVb1 & Hsr1).
    pose proof (same_all_base w w1 HVb1 Hsr1) as Hsa1.
    pose proof (Inv_transfer w w1 HI Hsa1) as HI1.
    assert (Hnlp1 : snolinkpar (Vb w1) n) by (rewrite HVb1; exact Hnlp).
    rewrite (bind_ok _ _ w w1 n Hrun1).
    destruct (Vb w !! n) as [nd|] eqn:Hb.
    2:{ assert (Hb1 : Vb w1 !! n = None) by (rewrite HVb1; exact Hb).
        destruct (law_lstat_none _ _ _ _ _ _ _ _ _ Lb w1 n (inv_quiet _ _ _ _ HI1) (inv_wf_b _ _ _ _ HI1) Hnlp1 Hb1)
          as (e & w2 & Hrun2 & Hnf & HV2 & Hsr2).
        pose proof (same_all_trans w w1 w2 Hsa1 (same_all_base w1 w2 HV2 Hsr2)) as Hsa2.
        rewrite (bind_ok _ _ w1 w2 (Err e) (try_err _ w1 w2 e Hrun2)).
        unfold not_found in Hnf. rewrite Hnf.
        exists (MOk tt), w2. split; [reflexivity |].
        apply kept_keeps. apply kept_same; [discriminate | exact HI | exact Hsa2]. }
    assert (Hb1 : Vb w1 !! n = Some nd) by (rewrite HVb1; exact Hb).
    destruct (law_lstat_some _ _ _ _ _ _ _ _ _ Lb w1 n nd (inv_quiet _ _ _ _ HI1) (inv_wf_b _ _ _ _ HI1) Hnlp1 Hb1)
      as (fi & (w2 & Hrun2 & HV2 & Hsr2) & Him & _).
    pose proof (same_all_trans w w1 w2 Hsa1 (same_all_base w1 w2 HV2 Hsr2)) as Hsa2.
    pose proof (Inv_transfer w w2 HI Hsa2) as HI2. pose proof Hsa2 as (HVb02 & _).
    rewrite (bind_ok _ _ w1 w2 (Ok fi) (try_ok _ w1 w2 fi Hrun2)).
    assert (Hnlp2 : snolinkpar (Vb w2) n) by (rewrite HVb02; exact Hnlp).
    destruct (is_dir_info fi) eqn:Ed; cbn [negb].
    2:{ (* not a directory: one Remove *)
        destruct (remove_under n w2 n Hnr HI2 (conj Hnlp2 (or_introl eq_refl))) as (r3 & w3 & Hrun3 & Hk3).
        exists r3, w3. split; [exact Hrun3 |]. apply kept_keeps.
        eapply kept_trans; [| exact Hk3].
        apply (kept_same _ w w2 (MOk tt)); [discriminate | exact HI | exact Hsa2]. }
    (* a directory: walk it, then remove the directories deepest first *)
    assert (Hb2 : Vb w2 !! n = Some nd) by (rewrite HVb02; exact Hb).
    destruct (law_lstat_some _ _ _ _ _ _ _ _ _ Lb w2 n nd (inv_quiet _ _ _ _ HI2) (inv_wf_b _ _ _ _ HI2) Hnlp2 Hb2)
      as (fi' & (w3 & Hrun3 & HV3 & Hsr3) & Him' & _).
    pose proof (same_all_trans w w2 w3 Hsa2 (same_all_base w2 w3 HV3 Hsr3)) as Hsa3.
    pose proof (Inv_transfer w w3 HI Hsa3) as HI3. pose proof Hsa3 as (HVb03 & _).
    destruct (walk_spec n Hnr tree_fuel n fi' [] w3 HI3) as (r4 & w4 & Hrun4 & Hk4 & Hacc4).
    { split; [rewrite HVb03; exact Hnlp | left; reflexivity]. }
    { intros Edf. rewrite HVb03. unfold is_dir_info in Edf. rewrite (proj1 Him') in Edf.
      destruct nd as [md | md cd | md td]; [exists md; exact Hb | discriminate Edf | discriminate Edf]. }
    { constructor. }
    assert (Hk04 : kept (below_chain n) w r4 w4).
    { eapply kept_trans; [| exact Hk4].
      apply (kept_same _ w w3 (MOk tt)); [discriminate | exact HI | exact Hsa3]. }
    assert (Hwalk : walk_m base n ra_fn [] w2 = (r4, w4)).
    { unfold walk_m. rewrite (bind_ok _ _ w2 w3 fi' Hrun3). exact Hrun4. }
    destruct r4 as [dirs | e |]; [| | destruct Hk4 as [Hnh _]; contradiction Hnh; reflexivity].
    2:{ rewrite (bind_err _ _ w2 w4 e Hwalk). exists (MErr e), w4. split; [reflexivity |].
        apply kept_keeps. apply (kept_result _ w (MErr e : mres (list str)) (MErr e) w4); [discriminate | exact Hk04]. }
    rewrite (bind_ok _ _ w2 w4 dirs Hwalk).
    pose proof Hk04 as (_ & HI4 & _ & _).
    assert (Hsorted : Forall (okd n w4) (sort_most dirs)).
    { specialize (Hacc4 dirs eq_refl). apply List.Forall_forall. intros d Hd.
      rewrite List.Forall_forall in Hacc4. apply Hacc4.
      unfold sort_most in Hd. exact (Permutation_in d (isort_perm most dirs) Hd). }
    destruct (miter_remove n Hnr (sort_most dirs) w4 HI4 Hsorted) as (r5 & w5 & Hrun5 & Hk5).
    exists r5, w5. split; [exact Hrun5 |]. apply kept_keeps.
    exact (kept_trans _ w w4 w5 _ r5 Hk04 Hk5).
  Qed.

  (** ** every covered operation keeps the invariant *)

  Lemma touches_cands (o : op) (n q : str) : In n (op_names o) -> In q (cands n) -> op_touches o q.
  Proof. intros Hn Hq. exists n, n. split; [exact Hn | split; [left; reflexivity | exact Hq]]. Qed.

  Lemma finish_name {A} (o : op) (n : str) (m : M A) (w : world) :
    In n (op_names o) ->
    (exists r w', m w = (r, w') /\ keeps (fun q => In q (cands n)) w r w') ->
    exists r w', m w = (r, w') /\ keeps (op_touches o) w r w'.
  Proof.
    intros Hn (r & w' & Hrun & Hk). exists r, w'. split; [exact Hrun |].
    eapply keeps_weaken; [| exact Hk]. intros q Hq. exact (touches_cands o n q Hn Hq).
  Qed.

  Lemma finish_ro {A} (o : op) (m : M A) (w : world) :
    (exists r w', m w = (r, w') /\ keeps (fun _ => False) w r w') ->
    exists r w', m w = (r, w') /\ keeps (op_touches o) w r w'.
  Proof.
    intros (r & w' & Hrun & Hk). exists r, w'. split; [exact Hrun |].
    eapply keeps_weaken; [| exact Hk]. intros q [].
  Qed.

  Lemma step_specS (o : op) (w : world) :
    Inv Vb Vk B0 w -> covered Vb o w ->
    exists r w', step base backup o w = (r, w') /\ keeps (op_touches o) w r w'.
  Proof.
    intros HI (Hso & Hres & Hfol & Hren & Hrm).
    pose proof (inv_quiet _ _ _ _ HI) as Hq. pose proof (inv_wf_b _ _ _ _ HI) as Hwf.
    destruct Hso as [n d | n fl perm d | n perm | n perm | n | n | o n | t n | n m | n u g | n u g | n t
                     | n | n | n | n | n];
      cbn [op_names follows rename_source_leaf removeall_not_root] in *;
      pose proof (List.Forall_inv Hres) as Hn; unfold resolved in Hn; pose proof Hn as [[Hc _] _].
    - (* Create *)
      apply (finish_name _ n); [left; reflexivity |]. cbn [step].
      apply (handle_op_spec (a_create base) w n d HI Hn (List.Forall_inv (Hfol eq_refl))).
      + intros w2 Hq2 Hwf2 HVb2. apply (law_user_create _ _ _ _ _ _ _ _ _ Lb w2 n Hq2 Hwf2);
          rewrite HVb2; [exact Hn | exact (List.Forall_inv (Hfol eq_refl))].
      + intros w2 r w' Hcall. right. exact Hcall.
    - (* OpenFile, then write *)
      cbn [step]. unfold b_openfile. destruct (N.eqb fl 0) eqn:Efl.
      + apply finish_ro. exact (ro_open_write_spec w n d HI Hn).
      + apply (finish_name _ n); [left; reflexivity |]. cbn [negb] in Hfol.
        apply (handle_op_spec (fun rn => a_openfile base rn fl perm) w n d HI Hn (List.Forall_inv (Hfol eq_refl))).
        * intros w2 Hq2 Hwf2 HVb2. apply (law_user_openfile _ _ _ _ _ _ _ _ _ Lb w2 n fl perm Hq2 Hwf2);
            rewrite HVb2; [exact Hn | exact (List.Forall_inv (Hfol eq_refl))].
        * intros w2 r w' Hcall. left. exists fl, perm. exact Hcall.
    - (* Mkdir *)
      apply (finish_name _ n); [left; reflexivity |].
      apply (unit_op_spec (fun rn => a_mkdir base rn perm) w n [n] HI Hn (incl_self_cands n Hc)).
      intros w2 Hq2 Hwf2 HVb2. apply (law_user_mkdir _ _ _ _ _ _ _ _ _ Lb w2 n perm Hq2 Hwf2).
      rewrite HVb2. exact Hn.
    - (* MkdirAll: may create every missing directory on the way to the name *)
      apply (finish_name _ n); [left; reflexivity |].
      apply (unit_op_spec (fun rn => a_mkdirall base rn perm) w n (cands n) HI Hn (incl_refl _)).
      intros w2 Hq2 Hwf2 HVb2. apply (law_user_mkdirall _ _ _ _ _ _ _ _ _ Lb w2 n perm Hq2 Hwf2).
      rewrite HVb2. exact Hn.
    - (* Remove *)
      apply (finish_name _ n); [left; reflexivity |].
      apply (unit_op_spec (fun rn => a_remove base rn) w n [n] HI Hn (incl_self_cands n Hc)).
      intros w2 Hq2 Hwf2 HVb2. apply (law_user_remove _ _ _ _ _ _ _ _ _ Lb w2 n Hq2 Hwf2); [| exact Hrm].
      rewrite HVb2. exact Hn.
    - (* RemoveAll *)
      cbn [step].
      destruct (keeps_map_ex _ (b_removeall base backup n) (fun _ => ObUnit) w (removeall_spec w n HI Hn Hrm))
        as (r & w' & Hrun & Hk).
      exists r, w'. split; [exact Hrun |]. eapply keeps_weaken; [| exact Hk].
      intros q (s & Hs & Hqs). exists n, s. split; [left; reflexivity |]. split; [| exact Hqs].
      destruct Hs as [-> | Hin]; [left; reflexivity | right; split; [reflexivity | exact Hin]].
    - (* Rename *)
      pose proof (List.Forall_inv (List.Forall_inv_tail Hres)) as Hn2. unfold resolved in Hn2.
      cbn [step].
      destruct (keeps_map_ex _ (b_rename base backup o n) (fun _ => ObUnit) w (rename_op_spec w o n HI Hn Hn2 Hren))
        as (r & w' & Hrun & Hk).
      exists r, w'. split; [exact Hrun |]. eapply keeps_weaken; [| exact Hk].
      intros q Hin. apply in_app_or in Hin. destruct Hin as [Hin | Hin].
      + apply (touches_cands _ o q); [left; reflexivity | exact Hin].
      + apply (touches_cands _ n q); [right; left; reflexivity | exact Hin].
    - (* Symlink *)
      apply (finish_name _ n); [left; reflexivity |].
      apply (unit_op_spec (fun rn => a_symlink base t rn) w n [n] HI Hn (incl_self_cands n Hc)).
      intros w2 Hq2 Hwf2 HVb2. apply (law_user_symlink _ _ _ _ _ _ _ _ _ Lb w2 t n Hq2 Hwf2).
      rewrite HVb2. exact Hn.
    - (* Chmod *)
      apply (finish_name _ n); [left; reflexivity |].
      apply (unit_op_spec (fun rn => a_chmod base rn m) w n [n] HI Hn (incl_self_cands n Hc)).
      intros w2 Hq2 Hwf2 HVb2. apply (law_user_chmod _ _ _ _ _ _ _ _ _ Lb w2 n m Hq2 Hwf2);
        rewrite HVb2; [exact Hn | exact (List.Forall_inv (Hfol eq_refl))].
    - (* Chown *)
      apply (finish_name _ n); [left; reflexivity |].
      apply (unit_op_spec (fun rn => a_chown base rn u g) w n [n] HI Hn (incl_self_cands n Hc)).
      intros w2 Hq2 Hwf2 HVb2. apply (law_user_chown _ _ _ _ _ _ _ _ _ Lb w2 n u g Hq2 Hwf2);
        rewrite HVb2; [exact Hn | exact (List.Forall_inv (Hfol eq_refl))].
    - (* Lchown *)
      apply (finish_name _ n); [left; reflexivity |].
      apply (unit_op_spec (fun rn => a_lchown base rn u g) w n [n] HI Hn (incl_self_cands n Hc)).
      intros w2 Hq2 Hwf2 HVb2. apply (law_user_lchown _ _ _ _ _ _ _ _ _ Lb w2 n u g Hq2 Hwf2).
      rewrite HVb2. exact Hn.
    - (* Chtimes *)
      apply (finish_name _ n); [left; reflexivity |].
      apply (unit_op_spec (fun rn => a_chtimes base rn (Preset t)) w n [n] HI Hn (incl_self_cands n Hc)).
      intros w2 Hq2 Hwf2 HVb2. apply (law_user_chtimes _ _ _ _ _ _ _ _ _ Lb w2 n (Preset t) Hq2 Hwf2);
        rewrite HVb2; [exact Hn | exact (List.Forall_inv (Hfol eq_refl))].
    - (* Stat *)
      apply finish_ro. cbn [step]. unfold b_stat.
      exact (keeps_map_ex _ (a_stat base n) ObInfo w
               (ro_call_spec _ w HI (law2_stat _ _ _ _ _ _ _ Lb2 w n Hq Hwf Hn))).
    - (* Lstat *)
      apply finish_ro. cbn [step]. unfold b_lstat.
      exact (keeps_map_ex _ (a_lstat base n) ObInfo w (ro_call_spec _ w HI (lstat_framed w n Hq Hwf Hn))).
    - (* Readlink *)
      apply finish_ro. cbn [step]. unfold b_readlink.
      exact (keeps_map_ex _ (a_readlink base n) ObStr w
               (ro_call_spec _ w HI (law2_readlink _ _ _ _ _ _ _ Lb2 w n Hq Hwf Hn))).
    - (* Read *)
      apply finish_ro. cbn [step].
      change (b_open base backup n) with (a_openfile base n 0 0).
      apply (ro_handle_op_spec (fun h => read_all tree_fuel h []) ObData w n HI Hn).
      intros h w1 Hopen w2 Hq2 Hwf2.
      destruct (law2_ro_handle _ _ _ _ _ _ _ Lb2 w n h w1 Hq Hwf Hn Hopen w2 Hq2 Hwf2) as (Hrd & _).
      exact (Hrd []).
    - (* Readdir *)
      apply finish_ro. cbn [step].
      change (b_open base backup n) with (a_openfile base n 0 0).
      apply (ro_handle_op_spec hreaddirnames (fun l => ObNames (sort_strings l)) w n HI Hn).
      intros h w1 Hopen w2 Hq2 Hwf2.
      destruct (law2_ro_handle _ _ _ _ _ _ _ Lb2 w n h w1 Hq Hwf Hn Hopen w2 Hq2 Hwf2) as (_ & Hls & _).
      exact Hls.
  Qed.

End Try.

(* ------------------------------------------------------------------ *)
(** * The theorems, as stated in Spec/CopySpecs.v *)

Theorem try_backup_spec :
  forall base backup Vb Vk tnb tnk accb acck rhb rhk whb whk hid anc B0,
  try_backup_stmt base backup Vb Vk tnb tnk accb acck rhb rhk whb whk hid anc B0.
Proof.
  intros base backup Vb Vk tnb tnk accb acck rhb rhk whb whk hid anc B0.
  unfold try_backup_stmt. cbv zeta. intros HLb HLk Hlinks Hsmall HwfB0 w p HI Hnlp.
  destruct (try_backup_specS base backup Vb Vk tnb tnk accb acck rhb rhk whb whk hid anc B0
              HLb HLk Hlinks Hsmall HwfB0 w p HI Hnlp)
    as (r & w' & Hrun & Hnh & HI' & (HVb & Hm & Hd) & Htr & _).
  exists r, w'. split; [exact Hrun |]. split; [exact Hnh |]. split; [exact HI' |].
  split; [exact HVb |]. split; [split; [exact Hm | exact Hd] | exact Htr].
Qed.

Theorem step_spec :
  forall base backup Vb Vk tnb tnk accb acck rhb rhk whb whk hid anc B0,
  step_stmt base backup Vb Vk tnb tnk accb acck rhb rhk whb whk hid anc B0.
Proof.
  intros base backup Vb Vk tnb tnk accb acck rhb rhk whb whk hid anc B0.
  unfold step_stmt. cbv zeta. intros HLb HLb2 HLk Hlinks Hsmall HwfB0 o w HI Hcov.
  destruct (step_specS base backup Vb Vk tnb tnk accb acck rhb rhk whb whk hid anc B0
              HLb HLk Hlinks Hsmall HwfB0 HLb2 o w HI Hcov)
    as (r & w' & Hrun & Hnh & Hinv & Hext).
  exists r, w'. split; [exact Hrun |]. split; [exact Hnh |]. split; [exact Hinv | exact Hext].
Qed.

Print Assumptions try_backup_spec.
Print Assumptions step_spec.
