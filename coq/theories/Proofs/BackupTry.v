(** [tryBackup] / [backupDirs] and the simple mutating operations keep the
    transaction invariant [Inv] of Spec/Inv.v.  Proved from the abstract
    filesystem laws (Spec/Laws.v) alone.

    Main results: [try_backup_spec] ([try_backup_stmt] of Spec/CopySpecs.v)
    and [step_spec] ([step_stmt]), exactly as stated there.  The section
    lemmas [try_backup_specS] and [step_specS] say a little more: when no
    proper ancestor of the path is a non-directory, [try_backup] succeeds and
    the path and its ancestors end up tracked. *)
From stdpp Require Import gmap.
From BFS Require Import Spec.CopySpecs.
From BFS Require Import Path.PathSpec.
From BFS Require Import Proofs.PathFacts Proofs.C19Facts Proofs.RollbackFacts Proofs.FsFacts
                        Proofs.BackupCopy.

(* ------------------------------------------------------------------ *)
(** * Path algebra: [dir], [cands], [ancestors] *)

Lemma norm_snoc_empty (rooted : bool) (cs : list str) : forall stk,
  norm rooted (cs ++ [[]]) stk = norm rooted cs stk.
Proof.
  induction cs as [|c r IH]; intro stk.
  - reflexivity.
  - rewrite <- app_comm_cons. rewrite !norm_cons.
    destruct (str_eqb c [] || str_eqb c s_dot); [apply IH |].
    destruct (str_eqb c s_dotdot).
    + destruct stk as [|t stk'].
      * destruct rooted; apply IH.
      * destruct (str_eqb t s_dotdot); apply IH.
    + apply IH.
Qed.

Lemma prefixes_from_snoc_eq {A} (l : list A) (x : A) : forall acc,
  prefixes_from acc (l ++ [x]) = prefixes_from acc l ++ [acc ++ l ++ [x]].
Proof.
  induction l as [|y r IH]; intro acc; simpl.
  - reflexivity.
  - rewrite IH. rewrite <- !app_assoc. reflexivity.
Qed.

(** [filepath.Dir] of a resolved path below the root is its parent *)
Lemma dir_spec (p : str) (init : list str) (c : str) :
  abs_cleaned p -> comps p = init ++ [c] -> dir p = render true init.
Proof.
  intros Hac Ek.
  assert (Hne : comps p <> []).
  { rewrite Ek. intros E. apply app_eq_nil in E. destruct E as [_ E]. discriminate E. }
  pose proof (upto_last_sep_abs_cleaned p Hac Hne) as Eu.
  rewrite Ek, removelast_last in Eu.
  pose proof (comps_normal p) as Hn. rewrite (proj2 Hac), Ek in Hn.
  pose proof (normal_app_l _ _ _ Hn) as Hni.
  pose proof (normal_good _ _ Hni) as Hgi.
  unfold dir. rewrite Eu. unfold clean.
  assert (Hcomps : comps (sep :: join_sep (init ++ [[]])) = init).
  { unfold comps.
    change (is_abs (sep :: join_sep (init ++ [[]]))) with true.
    change (split_sep (sep :: join_sep (init ++ [[]])))
      with ([] :: split_sep (join_sep (init ++ [[]]))).
    rewrite split_join.
    - change (norm true ([] :: init ++ [[]]) []) with (norm true (init ++ [[]]) []).
      rewrite norm_snoc_empty. apply norm_normal. exact Hni.
    - intros E. apply app_eq_nil in E. destruct E as [_ E]. discriminate E.
    - apply Forall_app. split; [apply Forall_good_nosep; exact Hgi |].
      constructor; [apply nosep_nil | constructor]. }
  rewrite Hcomps. reflexivity.
Qed.

Lemma pchain_snoc (init : list str) (c : str) :
  pchain true (init ++ [c]) = pchain true init ++ [render true (init ++ [c])].
Proof.
  rewrite !pchain_abs. rewrite prefixes_from_snoc_eq. simpl app.
  rewrite app_comm_cons. rewrite map_app. reflexivity.
Qed.

(** the candidates of the parent are the proper ancestors *)
Lemma cands_dir (p : str) : abs_cleaned p -> p <> s_root -> cands (dir p) = ancestors p.
Proof.
  intros Hac Hne.
  assert (Hk : comps p <> []).
  { intros E. apply Hne. apply abs_cleaned_root; assumption. }
  destruct (exists_last Hk) as [init [c Ek]].
  rewrite (dir_spec p init c Hac Ek).
  pose proof (comps_good p) as Hg. rewrite Ek in Hg.
  apply Forall_app in Hg. destruct Hg as [Hgi _].
  rewrite (cands_render true init Hgi).
  unfold ancestors. rewrite (cands_chain p (proj1 Hac)), chain_pchain.
  rewrite (proj2 Hac), Ek, pchain_snoc. rewrite removelast_last. reflexivity.
Qed.

Lemma ancestors_root : ancestors s_root = [].
Proof. vm_compute. reflexivity. Qed.

Lemma abs_cleaned_root_str : abs_cleaned s_root.
Proof. split; vm_compute; reflexivity. Qed.

Lemma ancestors_abs_cleaned (p q : str) : abs_cleaned p -> In q (ancestors p) -> abs_cleaned q.
Proof.
  intros [Hc Ha] Hq. apply (ancestors_spec p q Hc) in Hq. destruct Hq as [Hcq Hanc].
  split; [exact Hcq |]. destruct Hanc as (_ & [Hab _] & _). rewrite Hab. exact Ha.
Qed.

Lemma ancestors_trans (p q r : str) :
  cleaned p -> In q (ancestors p) -> In r (ancestors q) -> In r (ancestors p).
Proof.
  intros Hc Hq Hr. apply (ancestors_spec p q Hc) in Hq. destruct Hq as [Hcq Hqp].
  apply (ancestors_spec q r Hcq) in Hr. destruct Hr as [Hcr Hrq].
  apply (ancestors_spec p r Hc). split; [exact Hcr |].
  exact (ancestor_trans r q p Hcr Hcq Hrq Hqp).
Qed.

(** in the root-first chain, the proper ancestors of an element all come before it *)
Lemma cands_split_ancestors (p : str) (pre rest : list str) (sub q : str) :
  cleaned p -> cands p = pre ++ sub :: rest -> In q (ancestors sub) -> In q pre.
Proof.
  intros Hc E Hq.
  destruct (chain_spec p Hc) as (Hnd & _ & Hsorted & Hin).
  rewrite <- (cands_chain p Hc) in Hnd, Hsorted, Hin. rewrite E in Hnd, Hsorted, Hin.
  assert (Hsub : cleaned sub /\ (sub = p \/ ancestor sub p)).
  { apply Hin. apply in_or_app. right. left. reflexivity. }
  destruct Hsub as [Hcs Hsub].
  apply (ancestors_spec sub q Hcs) in Hq. destruct Hq as [Hcq Hanc].
  assert (Hqp : ancestor q p).
  { destruct Hsub as [-> | Hsp]; [exact Hanc |]. exact (ancestor_trans q sub p Hcq Hcs Hanc Hsp). }
  assert (Hqin : In q (pre ++ sub :: rest)).
  { apply Hin. split; [exact Hcq | right; exact Hqp]. }
  apply in_app_or in Hqin. destruct Hqin as [Hpre | [Heq | Hrest]].
  - exact Hpre.
  - exfalso. destruct Hanc as (Hne & _). apply Hne. symmetry. exact Heq.
  - exfalso.
    pose proof (ancestor_less q sub Hcq Hcs Hanc) as Hlt.
    assert (Hb : before sub q (pre ++ sub :: rest)).
    { apply in_split in Hrest. destruct Hrest as (r1 & r2 & Er). subst rest.
      exists pre, r1, r2. reflexivity. }
    pose proof (sorted_before least sub q _ Hsorted Hb) as M.
    unfold least in M. rewrite (less_asym q sub Hlt) in M. discriminate M.
Qed.

(* ------------------------------------------------------------------ *)
(** * Small facts about nodes and infos *)

Lemma info_matches_eqv (fi : finfo) (n n0 : node) :
  info_matches fi n -> snode_eqv n n0 -> info_matches fi n0.
Proof.
  unfold info_matches. intros (Hk & Hp & Hu & Hg & Hmt) He.
  destruct n as [m | m c | m t], n0 as [m0 | m0 c0 | m0 t0]; simpl in He; try contradiction.
  - destruct He as (E1 & E2 & E3). simpl in *.
    split; [exact Hk | split; [congruence | split; [congruence | split; [congruence |]]]].
    intros D. discriminate D.
  - destruct He as [-> ->]. repeat split; assumption.
  - destruct He as [(E1 & E2 & E3) ->]. simpl in *.
    split; [exact Hk | split; [congruence | split; [congruence | split; [congruence |]]]].
    intros D. discriminate D.
Qed.

Lemma copy_of_eqv_l (n n0 nk : node) : copy_of n nk -> snode_eqv n n0 -> copy_of n0 nk.
Proof.
  intros Hc He.
  destruct n as [m | m c | m t], n0 as [m0 | m0 c0 | m0 t0]; try (simpl in He; contradiction).
  - simpl in Hc, He |- *. destruct Hc as (mk & -> & Hm). exists mk. split; [reflexivity |].
    eapply meta_eq_nomt_trans; eassumption.
  - simpl in Hc |- *. eapply snode_eqv_trans; eassumption.
  - simpl in Hc |- *. eapply snode_eqv_trans; eassumption.
Qed.

Lemma copy_of_eqv_r (n0 nk nk' : node) : copy_of n0 nk -> snode_eqv nk' nk -> copy_of n0 nk'.
Proof.
  intros Hc He. destruct n0 as [m0 | m0 c0 | m0 t0].
  - simpl in Hc |- *. destruct Hc as (mk & -> & Hm).
    destruct nk' as [mk' | mk' c' | mk' t']; simpl in He; try contradiction.
    exists mk'. split; [reflexivity |]. eapply meta_eq_nomt_trans; eassumption.
  - simpl in Hc |- *. eapply snode_eqv_trans; eassumption.
  - simpl in Hc |- *. eapply snode_eqv_trans; eassumption.
Qed.

Lemma info_matches_nonneg (fi : finfo) (n : node) :
  info_matches fi n -> (0 <= fi_uid fi)%Z /\ (0 <= fi_gid fi)%Z.
Proof. intros (_ & _ & Hu & Hg & _). rewrite Hu, Hg. split; apply N2Z.is_nonneg. Qed.

Lemma set_info_new (p : str) (fi : option finfo) (w : world) :
  w_infos w !! p = None ->
  set_info_if_new p fi w = (MOk tt, with_infos w (<[p := fi]> (w_infos w))).
Proof.
  intros H. unfold set_info_if_new, bind, get_infos. rewrite H. reflexivity.
Qed.

Lemma set_info_old (p : str) (fi : option finfo) (w : world) :
  w_infos w !! p <> None -> set_info_if_new p fi w = (MOk tt, w).
Proof.
  intros H. unfold set_info_if_new, bind, get_infos.
  destruct (w_infos w !! p); [reflexivity | contradiction H; reflexivity].
Qed.

(** the tracked set only grows, and only inside [l]; the base view is untouched *)
Definition ext (Vb : world -> store) (w w' : world) (l : list str) : Prop :=
  Vb w' = Vb w /\
  (forall q, w_infos w !! q <> None -> w_infos w' !! q = w_infos w !! q) /\
  (forall q, w_infos w' !! q <> None -> w_infos w !! q <> None \/ In q l).

Lemma ext_refl Vb w l : ext Vb w w l.
Proof. split; [reflexivity | split; [intros; reflexivity | intros q Hq; left; exact Hq]]. Qed.

Lemma ext_same Vb w w' l : Vb w' = Vb w -> w_infos w' = w_infos w -> ext Vb w w' l.
Proof.
  intros HV Hi. split; [exact HV |]. rewrite Hi.
  split; [intros; reflexivity | intros q Hq; left; exact Hq].
Qed.

Lemma ext_trans Vb w w1 w2 l1 l2 l :
  ext Vb w w1 l1 -> ext Vb w1 w2 l2 -> incl l1 l -> incl l2 l -> ext Vb w w2 l.
Proof.
  intros (HV1 & Hm1 & Hd1) (HV2 & Hm2 & Hd2) Hi1 Hi2. split; [congruence | split].
  - intros q Hq. rewrite Hm2; [apply Hm1; exact Hq |]. rewrite Hm1; assumption.
  - intros q Hq. destruct (Hd2 q Hq) as [H1 | H2].
    + destruct (Hd1 q H1) as [H | H]; [left; exact H | right; apply Hi1; exact H].
    + right. apply Hi2. exact H2.
Qed.

Lemma ext_tracked Vb w w' l q : ext Vb w w' l -> tracked w q -> tracked w' q.
Proof. intros (_ & Hm & _) Hq. unfold tracked. rewrite Hm; exact Hq. Qed.

(* ------------------------------------------------------------------ *)
(** * [try_backup] *)

Section Try.
  Variables base backup : fsapi.
  Variables Vb Vk : world -> store.
  Variables tnb tnk : str -> str.
  Variables accb acck : str -> str -> Prop.
  Variables rhb rhk whb whk : fhandle -> str -> nat -> Prop.
  Variable B0 : store.

  Hypothesis HLb : base_laws base Vb Vk tnb accb rhb whb.
  Hypothesis HLk : backup_laws backup Vb Vk tnk acck rhk whk.
  Hypothesis Hlinks : links_ok tnb tnk accb acck B0.
  Hypothesis Hsmall : all_small B0.
  Hypothesis HwfB0 : swf B0.

  Lemma HVb_infos : forall w i, Vb (with_infos w i) = Vb w.
  Proof. exact (law_infos_indep _ _ _ _ _ _ _ HLb). Qed.

  Lemma HVk_infos : forall w i, Vk (with_infos w i) = Vk w.
  Proof. exact (law_infos_indep _ _ _ _ _ _ _ HLk). Qed.

  (** only traces and tick counters differ *)
  Definition same_all (w w' : world) : Prop :=
    Vb w' = Vb w /\ Vk w' = Vk w /\ w_infos w' = w_infos w /\
    w_crash w' = w_crash w /\ w_faults w' = w_faults w.

  Lemma same_all_base (w w' : world) : Vb w' = Vb w -> same_rest Vk w w' -> same_all w w'.
  Proof. intros HV (H1 & H2 & H3 & H4). repeat split; assumption. Qed.

  Lemma same_all_backup (w w' : world) : Vk w' = Vk w -> same_rest Vb w w' -> same_all w w'.
  Proof. intros HV (H1 & H2 & H3 & H4). repeat split; assumption. Qed.

  Lemma same_all_trans (w w1 w2 : world) : same_all w w1 -> same_all w1 w2 -> same_all w w2.
  Proof.
    intros (A1 & A2 & A3 & A4 & A5) (C1 & C2 & C3 & C4 & C5). repeat split; congruence.
  Qed.

  Lemma Inv_transfer (w w' : world) : Inv Vb Vk B0 w -> same_all w w' -> Inv Vb Vk B0 w'.
  Proof.
    intros HI (HVb & HVk & Hi & Hc & Hf).
    destruct HI as [Hq Hwb Hwk Hun Hno Hso Hab Hcl Hnl Hbo Hki].
    constructor; unfold tracked in *; rewrite ?HVb, ?HVk, ?Hi; try assumption.
    destruct Hq as [Hq1 Hq2]. split; congruence.
  Qed.

  Lemma same_all_ext (w w' : world) (l : list str) : same_all w w' -> ext Vb w w' l.
  Proof. intros (HVb & _ & Hi & _). apply ext_same; assumption. Qed.

  (** ** tracking one more path *)
  Lemma Inv_track (w w' : world) (p : str) (v : option finfo) :
    Inv Vb Vk B0 w -> w_infos w !! p = None ->
    w_infos w' = <[p := v]> (w_infos w) ->
    Vb w' = Vb w -> w_crash w' = w_crash w -> w_faults w' = w_faults w ->
    swf (Vk w') -> store_eqv_except [p] (Vk w') (Vk w) ->
    snolinkpar (Vb w) p ->
    match v with
    | None => Vb w !! p = None /\ Vk w' !! p = None
    | Some fi => exists n, Vb w !! p = Some n /\ info_matches fi n /\
                   Forall (tracked w) (ancestors p) /\
                   (p = s_root \/ exists nk, Vk w' !! p = Some nk /\ copy_of n nk)
    end -> Inv Vb Vk B0 w'.
  Proof.
    intros HI Hun Hinf HVb Hcr Hfa Hwfk Heqv Hnlp Hv.
    assert (Hlk : forall q, q <> p -> w_infos w' !! q = w_infos w !! q).
    { intros q Hq. rewrite Hinf. apply lookup_insert_ne. congruence. }
    assert (Hlp : w_infos w' !! p = Some v) by (rewrite Hinf; apply lookup_insert).
    assert (Hmono : forall q, tracked w q -> tracked w' q).
    { intros q Hq. unfold tracked. destruct (str_eq_dec q p) as [-> | Hne].
      - rewrite Hlp. discriminate.
      - rewrite Hlk by exact Hne. exact Hq. }
    assert (Hother : forall q, q <> p -> sonode_eqv (Vk w' !! q) (Vk w !! q)).
    { intros q Hq. apply Heqv. intros [E | []]. apply Hq. symmetry. exact E. }
    constructor.
    - destruct (inv_quiet _ _ _ _ HI) as [H1 H2]. split; congruence.
    - rewrite HVb. exact (inv_wf_b _ _ _ _ HI).
    - exact Hwfk.
    - intros q Hq. destruct (str_eq_dec q p) as [-> | Hne].
      + rewrite Hlp in Hq. discriminate Hq.
      + rewrite Hlk in Hq by exact Hne. rewrite HVb. exact (inv_untracked _ _ _ _ HI q Hq).
    - intros q Hq. destruct (str_eq_dec q p) as [-> | Hne].
      + rewrite Hlp in Hq. injection Hq as Ev. subst v. destruct Hv as [Hb _].
        pose proof (inv_untracked _ _ _ _ HI p Hun) as He. rewrite Hb in He.
        destruct (B0 !! p); [contradiction He | reflexivity].
      + rewrite Hlk in Hq by exact Hne. exact (inv_none _ _ _ _ HI q Hq).
    - intros q fi Hq. destruct (str_eq_dec q p) as [-> | Hne].
      + rewrite Hlp in Hq. injection Hq as Ev. subst v.
        destruct Hv as (n & Hb & Him & _ & Hk).
        pose proof (inv_untracked _ _ _ _ HI p Hun) as He. rewrite Hb in He.
        destruct (B0 !! p) as [n0|] eqn:E0; [| contradiction He]. simpl in He.
        exists n0. split; [reflexivity |]. split; [eapply info_matches_eqv; eassumption |].
        destruct Hk as [-> | (nk & Hnk & Hc)]; [left; reflexivity | right].
        exists nk. split; [exact Hnk | eapply copy_of_eqv_l; eassumption].
      + rewrite Hlk in Hq by exact Hne.
        destruct (inv_some _ _ _ _ HI q fi Hq) as (n0 & H0 & Him & Hk).
        exists n0. split; [exact H0 |]. split; [exact Him |].
        destruct Hk as [-> | (nk & Hnk & Hc)]; [left; reflexivity | right].
        pose proof (Hother q Hne) as He. rewrite Hnk in He.
        destruct (Vk w' !! q) as [nk'|]; [| contradiction He]. simpl in He.
        exists nk'. split; [reflexivity | eapply copy_of_eqv_r; eassumption].
    - intros q Hq. destruct (str_eq_dec q p) as [-> | Hne].
      + exact (proj1 Hnlp).
      + unfold tracked in Hq. rewrite Hlk in Hq by exact Hne. exact (inv_abs _ _ _ _ HI q Hq).
    - intros q fi Hq. destruct (str_eq_dec q p) as [-> | Hne].
      + rewrite Hlp in Hq. injection Hq as Ev. subst v.
        destruct Hv as (n & _ & _ & Hanc & _).
        eapply List.Forall_impl; [| exact Hanc]. exact Hmono.
      + rewrite Hlk in Hq by exact Hne.
        eapply List.Forall_impl; [| exact (inv_closed _ _ _ _ HI q fi Hq)]. exact Hmono.
    - intros q Hq. rewrite HVb. destruct (str_eq_dec q p) as [-> | Hne].
      + exact Hnlp.
      + unfold tracked in Hq. rewrite Hlk in Hq by exact Hne. exact (inv_nolink _ _ _ _ HI q Hq).
    - intros q Hne Hq. destruct (str_eq_dec q p) as [-> | Hqp].
      + destruct v as [fi|].
        * exists fi. exact Hlp.
        * destruct Hv as [_ Hk]. contradiction.
      + pose proof (Hother q Hqp) as He. destruct (Vk w !! q) as [nk|] eqn:E.
        * destruct (inv_backup_only _ _ _ _ HI q Hne) as [fi Hfi]; [rewrite E; discriminate |].
          exists fi. rewrite Hlk by exact Hqp. exact Hfi.
        * destruct (Vk w' !! q); [contradiction He | contradiction Hq; reflexivity].
    - intros q fi n Hq Hn. rewrite HVb in Hn. destruct (str_eq_dec q p) as [-> | Hne].
      + rewrite Hlp in Hq. injection Hq as Ev. subst v.
        destruct Hv as (n1 & Hb & Him & _). rewrite Hb in Hn. injection Hn as En. subst n1.
        symmetry. exact (proj1 Him).
      + rewrite Hlk in Hq by exact Hne. exact (inv_kind _ _ _ _ HI q fi n Hq Hn).
  Qed.

  Let Lb : api_laws base Vb Vk tnb accb rhb whb := HLb.
  Let Lk : api_laws backup Vk Vb tnk acck rhk whk := HLk.

  Lemma swf_root_dir (s : store) : swf s -> sdir s s_root.
  Proof. intros [H _]. exact H. Qed.

  Lemma untracked_backup_none (w : world) (p : str) :
    Inv Vb Vk B0 w -> w_infos w !! p = None -> p <> s_root -> Vk w !! p = None.
  Proof.
    intros HI Hun Hne. destruct (Vk w !! p) as [nk|] eqn:E; [| reflexivity].
    destruct (inv_backup_only _ _ _ _ HI p Hne) as [fi Hfi]; [rewrite E; discriminate |].
    rewrite Hfi in Hun. discriminate Hun.
  Qed.

  (** the parents of an untracked existing path are directories in the backup *)
  Lemma backup_sdirect (w : world) (sub : str) (n : node) :
    Inv Vb Vk B0 w -> w_infos w !! sub = None -> Vb w !! sub = Some n ->
    Forall (tracked w) (ancestors sub) -> sdirect (Vk w) sub.
  Proof.
    intros HI Hun Hb Hanc.
    destruct (swf_lookup_sdirect _ _ _ (inv_wf_b _ _ _ _ HI) Hb) as [Hac Hdirs].
    split; [exact Hac |].
    pose proof (inv_untracked _ _ _ _ HI sub Hun) as He. rewrite Hb in He.
    destruct (B0 !! sub) as [n0|] eqn:E0; [| contradiction He].
    destruct (swf_lookup_sdirect _ _ _ HwfB0 E0) as [_ Hdirs0].
    rewrite List.Forall_forall in Hanc, Hdirs, Hdirs0. apply List.Forall_forall. intros q Hq.
    destruct (Hdirs q Hq) as [m Hm]. destruct (Hdirs0 q Hq) as [m0 Hm0].
    pose proof (Hanc q Hq) as Htr. unfold tracked in Htr.
    destruct (w_infos w !! q) as [[fi|]|] eqn:Ei.
    - destruct (inv_some _ _ _ _ HI q fi Ei) as (n0' & H0 & Him & Hk).
      destruct Hk as [-> | (nk & Hnk & Hc)].
      + apply swf_root_dir. exact (inv_wf_k _ _ _ _ HI).
      + rewrite Hm0 in H0. injection H0 as <-. simpl in Hc.
        destruct Hc as (mk & -> & _). exists mk. exact Hnk.
    - pose proof (inv_none _ _ _ _ HI q Ei) as Hn. rewrite Hm0 in Hn. discriminate Hn.
    - contradiction Htr. reflexivity.
  Qed.

  (** ** [backup_required] *)

  Lemma backup_required_seen (w : world) (p : str) (info : option finfo) :
    w_infos w !! p = Some info -> backup_required base p w = (MOk (info, false), w).
  Proof.
    intros H. unfold backup_required, already_seen, bind, get_infos, ret. rewrite H. reflexivity.
  Qed.

  Lemma backup_required_unseen (w : world) (p : str) :
    w_infos w !! p = None ->
    backup_required base p w =
    (r <- try_ (a_lstat base p) ;;
     match r with
     | Err e => if is_not_found e then set_info_if_new p None ;;; ret (None, false) else fail e
     | Ok fi => ret (Some fi, true)
     end) w.
  Proof.
    intros H. unfold backup_required, already_seen.
    unfold bind at 1 2. unfold get_infos, ret at 1. rewrite H. reflexivity.
  Qed.

  Lemma backup_required_none (w : world) (p : str) :
    Inv Vb Vk B0 w -> snolinkpar (Vb w) p -> w_infos w !! p = None -> Vb w !! p = None ->
    exists w', backup_required base p w = (MOk (None, false), w') /\ Inv Vb Vk B0 w' /\
               ext Vb w w' [p] /\ w_infos w' !! p = Some None.
  Proof.
    intros HI Hnlp Hun Hb.
    destruct (law_lstat_none _ _ _ _ _ _ _ Lb w p (inv_quiet _ _ _ _ HI) (inv_wf_b _ _ _ _ HI) Hnlp Hb)
      as (e & w1 & Hrun & Hnf & HV1 & Hsr1).
    pose proof Hsr1 as (HVk1 & Hi1 & Hc1 & Hf1).
    assert (Hun1 : w_infos w1 !! p = None) by (rewrite Hi1; exact Hun).
    set (w2 := with_infos w1 (<[p := None]> (w_infos w1))).
    assert (Hne : p <> s_root).
    { intros ->. destruct (swf_root_dir _ (inv_wf_b _ _ _ _ HI)) as [m Hm]. rewrite Hm in Hb. discriminate Hb. }
    exists w2. split; [| split; [| split]].
    - rewrite (backup_required_unseen w p Hun).
      rewrite (bind_ok _ _ w w1 (Err e) (try_err _ w w1 e Hrun)).
      unfold not_found in Hnf. rewrite Hnf.
      rewrite (bind_ok _ _ w1 w2 tt (set_info_new p None w1 Hun1)). reflexivity.
    - apply (Inv_track w w2 p None HI Hun).
      + unfold w2. simpl. rewrite Hi1. reflexivity.
      + unfold w2. rewrite HVb_infos. exact HV1.
      + exact Hc1.
      + exact Hf1.
      + unfold w2. rewrite HVk_infos, HVk1. exact (inv_wf_k _ _ _ _ HI).
      + unfold w2. rewrite HVk_infos, HVk1. apply store_eqv_except_refl.
      + exact Hnlp.
      + split; [exact Hb |]. unfold w2. rewrite HVk_infos, HVk1.
        apply untracked_backup_none; assumption.
    - split; [| split].
      + unfold w2. rewrite HVb_infos. exact HV1.
      + intros q Hq. unfold w2. simpl. rewrite Hi1. apply lookup_insert_ne.
        intros ->. contradiction.
      + intros q Hq. unfold w2 in Hq. simpl in Hq. rewrite Hi1 in Hq.
        destruct (str_eq_dec q p) as [-> | Hqp]; [right; left; reflexivity | left].
        rewrite lookup_insert_ne in Hq by congruence. exact Hq.
    - unfold w2. simpl. apply lookup_insert.
  Qed.

  Lemma backup_required_some (w : world) (p : str) (n : node) :
    Inv Vb Vk B0 w -> snolinkpar (Vb w) p -> w_infos w !! p = None -> Vb w !! p = Some n ->
    exists fi w', backup_required base p w = (MOk (Some fi, true), w') /\ same_all w w' /\
                  info_matches fi n.
  Proof.
    intros HI Hnlp Hun Hb.
    destruct (law_lstat_some _ _ _ _ _ _ _ Lb w p n (inv_quiet _ _ _ _ HI) (inv_wf_b _ _ _ _ HI) Hnlp Hb)
      as (fi & (w1 & Hrun & HV1 & Hsr1) & Him & _).
    exists fi, w1. split; [| split; [apply same_all_base; assumption | exact Him]].
    rewrite (backup_required_unseen w p Hun).
    rewrite (bind_ok _ _ w w1 (Ok fi) (try_ok _ w w1 fi Hrun)). reflexivity.
  Qed.

  (** ** one round of [backup_dirs] *)

  Definition bd_body (sub : str) : M unit :=
    r <- backup_required base sub ;;
    match r with
    | (Some fi, true) =>
        r <- try_ (copy_dir backup sub fi) ;;
        match r with
        | Err e => _ <- try_ (a_remove backup sub) ;; fail e
        | Ok _ => set_info_if_new sub (Some fi)
        end
    | _ => ret tt
    end.

  Lemma backup_dirs_eq (dp : str) : backup_dirs base backup dp = miter bd_body (cands dp).
  Proof. reflexivity. Qed.

  Lemma dir_copy_of (fi : finfo) (m m' : meta) :
    info_matches fi (Dir m) -> perm12 (Dir m) -> meta_of_info fi m' -> copy_of (Dir m) (Dir m').
  Proof.
    intros (_ & Hp & Hu & Hg & _) H12 (Hp' & Hu' & Hg'). simpl in *. unfold perm12 in H12. simpl in H12.
    exists m'. split; [reflexivity |]. split; [| split].
    - rewrite Hp', Hp. exact H12.
    - apply N2Z.inj. congruence.
    - apply N2Z.inj. congruence.
  Qed.

  Lemma bd_body_spec (w : world) (sub : str) :
    Inv Vb Vk B0 w -> snolinkpar (Vb w) sub -> Forall (tracked w) (ancestors sub) ->
    (w_infos w !! sub = None -> snotlink (Vb w) sub) ->
    exists r w', bd_body sub w = (r, w') /\ r <> MHalt /\ Inv Vb Vk B0 w' /\ ext Vb w w' [sub] /\
                 (r = MOk tt -> tracked w' sub) /\
                 ((forall n, Vb w !! sub = Some n -> node_kind n = KDir) -> r = MOk tt).
  Proof.
    intros HI Hnlp Hanc Hnl. unfold bd_body.
    destruct (w_infos w !! sub) as [info|] eqn:Hi.
    { (* already tracked *)
      exists (MOk tt), w. split; [| split; [discriminate | split; [exact HI | split; [apply ext_refl | split]]]].
      - rewrite (bind_ok _ _ w w (info, false) (backup_required_seen w sub info Hi)).
        destruct info; reflexivity.
      - intros _. unfold tracked. rewrite Hi. discriminate.
      - intros _. reflexivity. }
    specialize (Hnl eq_refl).
    destruct (Vb w !! sub) as [n|] eqn:Hb.
    2:{ (* did not exist *)
      destruct (backup_required_none w sub HI Hnlp Hi Hb) as (w' & Hrun & HI' & Hext & Htr).
      exists (MOk tt), w'. split; [| split; [discriminate | split; [exact HI' | split; [exact Hext | split]]]].
      - rewrite (bind_ok _ _ w w' _ Hrun). reflexivity.
      - intros _. unfold tracked. rewrite Htr. discriminate.
      - intros _. reflexivity. }
    destruct (backup_required_some w sub n HI Hnlp Hi Hb) as (fi & w1 & Hrun1 & Hsa1 & Him).
    pose proof (Inv_transfer w w1 HI Hsa1) as HI1.
    pose proof Hsa1 as (HVb1 & HVk1 & Hi1 & Hc1 & Hf1).
    assert (Hun1 : w_infos w1 !! sub = None) by (rewrite Hi1; exact Hi).
    rewrite (bind_ok _ _ w w1 _ Hrun1).
    destruct n as [m | m c | m t].
    - (* a directory: copy it *)
      assert (Hk : fi_kind fi = KDir) by (exact (proj1 Him)).
      destruct (str_eq_dec sub s_root) as [-> | Hne].
      + (* the root is not copied *)
        set (w2 := with_infos w1 (<[s_root := Some fi]> (w_infos w1))).
        exists (MOk tt), w2.
        assert (HI2 : Inv Vb Vk B0 w2).
        { apply (Inv_track w w2 s_root (Some fi) HI Hi).
          - unfold w2. simpl. rewrite Hi1. reflexivity.
          - unfold w2. rewrite HVb_infos. exact HVb1.
          - exact Hc1.
          - exact Hf1.
          - unfold w2. rewrite HVk_infos, HVk1. exact (inv_wf_k _ _ _ _ HI).
          - unfold w2. rewrite HVk_infos, HVk1. apply store_eqv_except_refl.
          - exact Hnlp.
          - exists (Dir m). split; [exact Hb | split; [exact Him | split; [exact Hanc | left; reflexivity]]]. }
        split; [| split; [discriminate | split; [exact HI2 | split; [| split]]]].
        * rewrite (bind_ok _ _ w1 w1 (Ok tt) (try_ok _ w1 w1 tt (copy_dir_root_spec backup w1 fi Hk))).
          exact (set_info_new s_root (Some fi) w1 Hun1).
        * split; [| split].
          -- unfold w2. rewrite HVb_infos. exact HVb1.
          -- intros q Hq. unfold w2. simpl. rewrite Hi1. apply lookup_insert_ne.
             intros <-. contradiction.
          -- intros q Hq. unfold w2 in Hq. simpl in Hq. rewrite Hi1 in Hq.
             destruct (str_eq_dec q s_root) as [-> | Hqp]; [right; left; reflexivity | left].
             rewrite lookup_insert_ne in Hq by congruence. exact Hq.
        * intros _. unfold tracked, w2. simpl. rewrite lookup_insert. discriminate.
        * intros _. reflexivity.
      + destruct (info_matches_nonneg fi _ Him) as [Hu Hg].
        assert (Hdir1 : sdirect (Vk w1) sub).
        { rewrite HVk1. eapply backup_sdirect; eassumption. }
        assert (Hnone1 : Vk w1 !! sub = None).
        { apply untracked_backup_none; assumption. }
        destruct (copy_dir_spec backup Vk Vb tnk acck rhk whk Lk w1 sub fi
                    (inv_quiet _ _ _ _ HI1) (inv_wf_k _ _ _ _ HI1) Hdir1 Hne Hk Hu Hg (or_introl Hnone1))
          as (w2 & m' & Hrun2 & (Hsr2 & Hwf2 & Heqv2) & Hk2 & Hmeta).
        pose proof Hsr2 as (HVb2 & Hi2 & Hc2 & Hf2).
        assert (Hun2 : w_infos w2 !! sub = None) by (rewrite Hi2; exact Hun1).
        set (w3 := with_infos w2 (<[sub := Some fi]> (w_infos w2))).
        exists (MOk tt), w3.
        assert (HI3 : Inv Vb Vk B0 w3).
        { apply (Inv_track w w3 sub (Some fi) HI Hi).
          - unfold w3. simpl. rewrite Hi2, Hi1. reflexivity.
          - unfold w3. rewrite HVb_infos. congruence.
          - simpl. congruence.
          - simpl. congruence.
          - unfold w3. rewrite HVk_infos. exact Hwf2.
          - unfold w3. rewrite HVk_infos. rewrite <- HVk1. exact Heqv2.
          - exact Hnlp.
          - exists (Dir m). split; [exact Hb | split; [exact Him | split; [exact Hanc | right]]].
            exists (Dir m'). split; [unfold w3; rewrite HVk_infos; exact Hk2 |].
            eapply dir_copy_of; [exact Him | | exact Hmeta].
            exact (swf_lookup_perm12 _ _ _ (inv_wf_b _ _ _ _ HI) Hb). }
        split; [| split; [discriminate | split; [exact HI3 | split; [| split]]]].
        * rewrite (bind_ok _ _ w1 w2 (Ok tt) (try_ok _ w1 w2 tt Hrun2)).
          exact (set_info_new sub (Some fi) w2 Hun2).
        * split; [| split].
          -- unfold w3. rewrite HVb_infos. congruence.
          -- intros q Hq. unfold w3. simpl. rewrite Hi2, Hi1. apply lookup_insert_ne.
             intros <-. contradiction.
          -- intros q Hq. unfold w3 in Hq. simpl in Hq. rewrite Hi2, Hi1 in Hq.
             destruct (str_eq_dec q sub) as [-> | Hqp]; [right; left; reflexivity | left].
             rewrite lookup_insert_ne in Hq by congruence. exact Hq.
        * intros _. unfold tracked, w3. simpl. rewrite lookup_insert. discriminate.
        * intros _. reflexivity.
    - (* a regular file where a directory is needed: [copy_dir] refuses *)
      assert (Hk : fi_kind fi <> KDir).
      { rewrite (proj1 Him). discriminate. }
      assert (Hne : sub <> s_root).
      { intros ->. destruct (swf_root_dir _ (inv_wf_b _ _ _ _ HI)) as [mr Hmr]. rewrite Hmr in Hb. discriminate Hb. }
      destruct (copy_dir_badinfo_spec backup w1 sub fi Hk) as [e Hrun2].
      assert (Hdir1 : sdirect (Vk w1) sub).
      { rewrite HVk1. eapply backup_sdirect; eassumption. }
      assert (Hnone1 : Vk w1 !! sub = None).
      { apply untracked_backup_none; assumption. }
      destruct (law_remove_none _ _ _ _ _ _ _ Lk w1 sub (inv_quiet _ _ _ _ HI1) (inv_wf_k _ _ _ _ HI1)
                  (sdirect_snolinkpar _ _ Hdir1) Hnone1)
        as (e3 & w3 & Hrun3 & _ & HVk3 & Hsr3).
      pose proof (same_all_backup w1 w3 HVk3 Hsr3) as Hsa3.
      pose proof (same_all_trans w w1 w3 Hsa1 Hsa3) as Hsa.
      exists (MErr e), w3.
      split; [| split; [discriminate | split; [exact (Inv_transfer w w3 HI Hsa) | split; [| split]]]].
      + rewrite (bind_ok _ _ w1 w1 (Err e) (try_err _ w1 w1 e Hrun2)).
        rewrite (bind_ok _ _ w1 w3 (Err e3) (try_err _ w1 w3 e3 Hrun3)). reflexivity.
      + apply same_all_ext. exact Hsa.
      + intros D. discriminate D.
      + intros Hd. specialize (Hd _ eq_refl). discriminate Hd.
    - exfalso. exact (Hnl m t Hb).
  Qed.

  Lemma ext_weaken (w w' : world) (l l' : list str) : ext Vb w w' l -> incl l l' -> ext Vb w w' l'.
  Proof.
    intros (HV & Hm & Hd) Hi. split; [exact HV | split; [exact Hm |]].
    intros q Hq. destruct (Hd q Hq) as [H | H]; [left; exact H | right; apply Hi; exact H].
  Qed.

  (** ** the loop of [backup_dirs], root first *)
  Lemma bd_loop_spec (dp : str) : cleaned dp -> forall (l pre : list str) (w : world),
    pre ++ l = cands dp -> Inv Vb Vk B0 w -> Forall (tracked w) pre ->
    (forall sub, In sub l ->
       snolinkpar (Vb w) sub /\ (w_infos w !! sub = None -> snotlink (Vb w) sub)) ->
    exists r w', miter bd_body l w = (r, w') /\ r <> MHalt /\ Inv Vb Vk B0 w' /\ ext Vb w w' l /\
                 (r = MOk tt -> Forall (tracked w') l) /\
                 ((forall sub n, In sub l -> Vb w !! sub = Some n -> node_kind n = KDir) ->
                  r = MOk tt).
  Proof.
    intros Hc. induction l as [|sub rest IH]; intros pre w E HI Hpre Hl.
    - exists (MOk tt), w. split; [reflexivity |]. split; [discriminate |]. split; [exact HI |].
      split; [apply ext_refl |]. split; [intros _; constructor | intros _; reflexivity].
    - destruct (Hl sub (in_eq _ _)) as [Hnlp Hnl].
      assert (Hanc : Forall (tracked w) (ancestors sub)).
      { apply List.Forall_forall. intros q Hq. rewrite List.Forall_forall in Hpre. apply Hpre.
        exact (cands_split_ancestors dp pre rest sub q Hc (eq_sym E) Hq). }
      destruct (bd_body_spec w sub HI Hnlp Hanc Hnl)
        as (r1 & w1 & Hrun1 & Hnh1 & HI1 & Hext1 & Htr1 & Hok1).
      destruct r1 as [[] | e |]; [| | contradiction Hnh1; reflexivity].
      + pose proof Hext1 as (HVb1 & Hm1 & _).
        destruct (IH (pre ++ [sub]) w1) as (r2 & w2 & Hrun2 & Hnh2 & HI2 & Hext2 & Htr2 & Hok2).
        * rewrite <- app_assoc. exact E.
        * exact HI1.
        * apply Forall_app. split.
          -- eapply List.Forall_impl; [| exact Hpre]. intros q Hq. exact (ext_tracked _ _ _ _ _ Hext1 Hq).
          -- constructor; [exact (Htr1 eq_refl) | constructor].
        * intros s Hs. destruct (Hl s (in_cons _ _ _ Hs)) as [H1 H2]. rewrite HVb1.
          split; [exact H1 |]. intros Hn. apply H2.
          destruct (w_infos w !! s) eqn:Es; [| reflexivity].
          rewrite Hm1 in Hn by (rewrite Es; discriminate). rewrite Es in Hn. discriminate Hn.
        * exists r2, w2. split; [| split; [exact Hnh2 | split; [exact HI2 | split; [| split]]]].
          -- cbn [miter]. rewrite (bind_ok _ _ w w1 tt Hrun1). exact Hrun2.
          -- eapply ext_trans; [exact Hext1 | exact Hext2 | |].
             ++ intros q [<- | []]. left. reflexivity.
             ++ intros q Hq. right. exact Hq.
          -- intros Hr. constructor; [| exact (Htr2 Hr)].
             exact (ext_tracked _ _ _ _ _ Hext2 (Htr1 eq_refl)).
          -- intros Hd. apply Hok2. intros s n Hs Hn. rewrite HVb1 in Hn.
             exact (Hd s n (in_cons _ _ _ Hs) Hn).
      + exists (MErr e), w1. split; [| split; [discriminate | split; [exact HI1 | split; [| split]]]].
        * cbn [miter]. rewrite (bind_err _ _ w w1 e Hrun1). reflexivity.
        * eapply ext_weaken; [exact Hext1 |]. intros q [<- | []]. left. reflexivity.
        * intros D. discriminate D.
        * intros Hd. exfalso.
          assert (D : MErr e = MOk tt :> mres unit).
          { apply Hok1. intros n Hn. exact (Hd sub n (in_eq _ _) Hn). }
          discriminate D.
  Qed.

  Lemma backup_dirs_spec (w : world) (dp : str) :
    Inv Vb Vk B0 w -> snolinkpar (Vb w) dp -> (w_infos w !! dp = None -> snotlink (Vb w) dp) ->
    exists r w', backup_dirs base backup dp w = (r, w') /\ r <> MHalt /\ Inv Vb Vk B0 w' /\
                 ext Vb w w' (cands dp) /\
                 (r = MOk tt -> Forall (tracked w') (cands dp)) /\
                 ((forall q n, In q (cands dp) -> Vb w !! q = Some n -> node_kind n = KDir) ->
                  r = MOk tt).
  Proof.
    intros HI Hnlp Hnl. rewrite backup_dirs_eq.
    pose proof Hnlp as [[Hc Habs] Hf].
    apply (bd_loop_spec dp Hc (cands dp) [] w eq_refl HI (Forall_nil _)).
    intros sub Hs. split; [eapply snolinkpar_cands; eassumption |].
    intros Hun. rewrite (cands_last dp Hc) in Hs. apply in_app_or in Hs.
    destruct Hs as [Hs | [<- | []]].
    - rewrite List.Forall_forall in Hf. exact (Hf sub Hs).
    - exact (Hnl Hun).
  Qed.

  Lemma ext_track (w w' : world) (p : str) (v : option finfo) :
    Vb w' = Vb w -> w_infos w' = <[p := v]> (w_infos w) -> w_infos w !! p = None ->
    ext Vb w w' [p].
  Proof.
    intros HV Hi Hun. split; [exact HV | split].
    - intros q Hq. rewrite Hi. apply lookup_insert_ne. intros <-. contradiction.
    - intros q Hq. rewrite Hi in Hq.
      destruct (str_eq_dec q p) as [-> | Hqp]; [right; left; reflexivity | left].
      rewrite lookup_insert_ne in Hq by congruence. exact Hq.
  Qed.

  Lemma dir_root : dir s_root = s_root.
  Proof. vm_compute. reflexivity. Qed.

  Lemma dir_in_ancestors (p : str) : abs_cleaned p -> p <> s_root -> In (dir p) (ancestors p).
  Proof.
    intros Hac Hne. rewrite <- (cands_dir p Hac Hne).
    assert (Hc : cleaned (dir p)) by (unfold dir; apply cleaned_clean).
    rewrite (cands_last _ Hc). apply in_or_app. right. left. reflexivity.
  Qed.

  (** ** the [backup_dirs] phase of [try_backup] *)
  Lemma dirs_phase (w : world) (p dp : str) :
    Inv Vb Vk B0 w -> snolinkpar (Vb w) p ->
    (dp = p /\ (forall n, Vb w !! p = Some n -> node_kind n = KDir)) \/ dp = dir p ->
    exists r w', backup_dirs base backup dp w = (r, w') /\ r <> MHalt /\ Inv Vb Vk B0 w' /\
                 ext Vb w w' (cands p) /\
                 (r = MOk tt -> Forall (tracked w') (ancestors p) /\ (dp = p -> tracked w' p)) /\
                 (dp <> p -> w_infos w !! p = None -> w_infos w' !! p = None) /\
                 ((forall q n, In q (ancestors p) -> Vb w !! q = Some n -> node_kind n = KDir) ->
                  r = MOk tt).
  Proof.
    intros HI Hnlp Hcase. pose proof Hnlp as [[Hc Habs] Hf].
    assert (Hcase' : (dp = p /\ (forall n, Vb w !! p = Some n -> node_kind n = KDir)) \/
                     (dp = dir p /\ p <> s_root)).
    { destruct Hcase as [H | H]; [left; exact H |].
      destruct (str_eq_dec p s_root) as [-> | Hne]; [left | right; split; assumption].
      split; [rewrite H; apply dir_root |]. intros n Hn.
      destruct (swf_root_dir _ (inv_wf_b _ _ _ _ HI)) as [m Hm]. rewrite Hm in Hn.
      injection Hn as <-. reflexivity. }
    clear Hcase. destruct Hcase' as [[-> Hpd] | [-> Hne]].
    - destruct (backup_dirs_spec w p HI Hnlp) as (r & w' & Hrun & Hnh & HI' & Hext & Htr & Hok).
      { intros _ m t Hl. specialize (Hpd _ Hl). discriminate Hpd. }
      exists r, w'. split; [exact Hrun |]. split; [exact Hnh |]. split; [exact HI' |].
      split; [exact Hext |]. split; [| split].
      + intros Hr. specialize (Htr Hr). rewrite (cands_last p Hc) in Htr.
        apply Forall_app in Htr. destruct Htr as [H1 H2]. split; [exact H1 |].
        intros _. inversion H2; assumption.
      + intros D. contradiction D. reflexivity.
      + intros Hd. apply Hok. intros q n Hq Hn. rewrite (cands_last p Hc) in Hq.
        apply in_app_or in Hq. destruct Hq as [Hq | [<- | []]].
        * exact (Hd q n Hq Hn).
        * exact (Hpd n Hn).
    - pose proof (dir_in_ancestors p (conj Hc Habs) Hne) as Hin.
      assert (Hincands : In (dir p) (cands p)).
      { rewrite (cands_last p Hc). apply in_or_app. left. exact Hin. }
      destruct (backup_dirs_spec w (dir p) HI (snolinkpar_cands _ _ _ Hnlp Hincands))
        as (r & w' & Hrun & Hnh & HI' & Hext & Htr & Hok).
      { intros _. rewrite List.Forall_forall in Hf. exact (Hf _ Hin). }
      rewrite (cands_dir p (conj Hc Habs) Hne) in Hext, Htr, Hok.
      exists r, w'. split; [exact Hrun |]. split; [exact Hnh |]. split; [exact HI' |].
      split; [| split; [| split]].
      + eapply ext_weaken; [exact Hext |]. rewrite (cands_last p Hc).
        intros q Hq. apply in_or_app. left. exact Hq.
      + intros Hr. split; [exact (Htr Hr) |]. intros E. exfalso.
        rewrite E in Hin. exact (ancestors_not_self p Hc Hin).
      + intros _ Hun. destruct Hext as (_ & _ & Hd).
        destruct (w_infos w' !! p) eqn:E; [| reflexivity].
        destruct (Hd p) as [H | H]; [rewrite E; discriminate | contradiction | ].
        exfalso. exact (ancestors_not_self p Hc H).
      + exact Hok.
  Qed.

  Lemma file_meta_eq (fi : finfo) (m m' : meta) (c : list N) :
    info_matches fi (File m c) -> perm12 (File m c) -> meta_of_info fi m' ->
    m_mt m' = fi_mt fi -> m' = m.
  Proof.
    intros (_ & Hp & Hu & Hg & Hmt) H12 (Hp' & Hu' & Hg') Hmt'.
    unfold perm12 in H12. simpl in *. specialize (Hmt eq_refl).
    destruct m as [a1 a2 a3 a4], m' as [b1 b2 b3 b4]. simpl in *. f_equal.
    - rewrite Hp', Hp. exact H12.
    - apply N2Z.inj. congruence.
    - apply N2Z.inj. congruence.
    - congruence.
  Qed.

  (** ** the final phase of [try_backup] *)
  Definition tb_file (p : str) (fi : finfo) : M unit :=
    sf <- a_open base p ;;
    r <- try_ (copy_file backup p fi sf) ;;
    match r with
    | Err e => _ <- try_ (a_remove backup p) ;; _ <- try_ (hclose sf) ;; fail e
    | Ok _ => set_info_if_new p (Some fi) ;;; _ <- try_ (hclose sf) ;; ret tt
    end.

  Definition tb_link (p : str) (fi : finfo) : M unit :=
    r <- try_ (copy_symlink base backup p fi) ;;
    match r with
    | Err e => _ <- try_ (a_remove backup p) ;; fail e
    | Ok _ => set_info_if_new p (Some fi)
    end.

  Definition tb_tail (p : str) (info : option finfo) (needs : bool) : M unit :=
    if negb needs then ret tt
    else match info with
         | None => ret tt
         | Some fi =>
             match fi_kind fi with
             | KDir => ret tt
             | KFile => tb_file p fi
             | KLink => tb_link p fi
             end
         end.

  Definition tb_dirpath (p : str) (info : option finfo) : str :=
    match info with
    | Some fi => if is_dir_info fi then p else dir p
    | None => dir p
    end.

  Lemma try_backup_eq (p : str) (w : world) :
    try_backup base backup p w =
    (r <- backup_required base p ;;
     backup_dirs base backup (tb_dirpath p (fst r)) ;;; tb_tail p (fst r) (snd r)) w.
  Proof.
    unfold try_backup, bind.
    destruct (backup_required base p w) as [[[info needs] | e |] w1]; reflexivity.
  Qed.

  Lemma tb_file_spec (w : world) (p : str) (fi : finfo) (m : meta) (c : list N) :
    Inv Vb Vk B0 w -> snolinkpar (Vb w) p -> w_infos w !! p = None ->
    Vb w !! p = Some (File m c) -> info_matches fi (File m c) ->
    Forall (tracked w) (ancestors p) ->
    exists w', tb_file p fi w = (MOk tt, w') /\ Inv Vb Vk B0 w' /\ ext Vb w w' [p] /\ tracked w' p.
  Proof.
    intros HI Hnlp Hun Hb Him Hanc. unfold tb_file.
    (* open the original *)
    destruct (law_open_file _ _ _ _ _ _ _ Lb w p m c (inv_quiet _ _ _ _ HI) (inv_wf_b _ _ _ _ HI) Hnlp Hb)
      as (sf & (w1 & Hrun1 & HVb1 & Hsr1) & Hrh).
    pose proof (same_all_base w w1 HVb1 Hsr1) as Hsa1.
    pose proof (Inv_transfer w w1 HI Hsa1) as HI1.
    pose proof Hsa1 as (_ & HVk1 & Hi1 & Hc1 & Hf1).
    assert (Hun1 : w_infos w1 !! p = None) by (rewrite Hi1; exact Hun).
    assert (Hb1 : Vb w1 !! p = Some (File m c)) by (rewrite HVb1; exact Hb).
    assert (Hanc1 : Forall (tracked w1) (ancestors p)).
    { eapply List.Forall_impl; [| exact Hanc]. intros q Hq. unfold tracked in *. rewrite Hi1. exact Hq. }
    assert (Hne : p <> s_root).
    { intros ->. destruct (swf_root_dir _ (inv_wf_b _ _ _ _ HI)) as [mr Hmr]. rewrite Hmr in Hb. discriminate Hb. }
    (* copy *)
    destruct (info_matches_nonneg fi _ Him) as [Hu Hg].
    assert (Hsm : small c).
    { pose proof (inv_untracked _ _ _ _ HI p Hun) as He. rewrite Hb in He.
      destruct (B0 !! p) as [[m0 | m0 c0 | m0 t0]|] eqn:E0; simpl in He; try contradiction.
      destruct He as [_ <-]. exact (Hsmall p m0 c E0). }
    destruct (copy_file_spec backup base Vk Vb tnk tnb acck accb rhk rhb whk whb Lk Lb
                w1 p fi sf p m c (inv_quiet _ _ _ _ HI1) (inv_wf_k _ _ _ _ HI1) (inv_wf_b _ _ _ _ HI1)
                (backup_sdirect w1 p _ HI1 Hun1 Hb1 Hanc1) (proj1 Him) Hu Hg
                (or_introl (untracked_backup_none w1 p HI1 Hun1 Hne)) Hrh Hb1 Hsm)
      as (w2 & m' & Hrun2 & (Hsr2 & Hwf2 & Heqv2) & Hk2 & Hmeta & Hmt).
    pose proof Hsr2 as (HVb2 & Hi2 & Hc2 & Hf2).
    assert (Hun2 : w_infos w2 !! p = None) by (rewrite Hi2; exact Hun1).
    (* track *)
    set (w3 := with_infos w2 (<[p := Some fi]> (w_infos w2))).
    assert (HVb3 : Vb w3 = Vb w1) by (unfold w3; rewrite HVb_infos; exact HVb2).
    assert (Hi3 : w_infos w3 = <[p := Some fi]> (w_infos w1)) by (unfold w3; simpl; rewrite Hi2; reflexivity).
    assert (HI3 : Inv Vb Vk B0 w3).
    { apply (Inv_track w1 w3 p (Some fi) HI1 Hun1 Hi3 HVb3).
      - simpl. exact Hc2.
      - simpl. exact Hf2.
      - unfold w3. rewrite HVk_infos. exact Hwf2.
      - unfold w3. rewrite HVk_infos. exact Heqv2.
      - rewrite HVb1. exact Hnlp.
      - exists (File m c). split; [exact Hb1 | split; [exact Him | split; [exact Hanc1 | right]]].
        exists (File m' c). split; [unfold w3; rewrite HVk_infos; exact Hk2 |].
        simpl. split; [| reflexivity].
        eapply file_meta_eq; [exact Him | | exact Hmeta | exact Hmt].
        exact (swf_lookup_perm12 _ _ _ (inv_wf_b _ _ _ _ HI) Hb). }
    (* close the original *)
    destruct (law_hclose_r _ _ _ _ _ _ _ Lb w3 sf p 0%nat (inv_quiet _ _ _ _ HI3) Hrh)
      as (w4 & Hrun4 & HVb4 & Hsr4).
    pose proof (same_all_base w3 w4 HVb4 Hsr4) as Hsa4.
    exists w4. split; [| split; [exact (Inv_transfer w3 w4 HI3 Hsa4) | split]].
    - rewrite (bind_ok _ _ w w1 sf Hrun1).
      rewrite (bind_ok _ _ w1 w2 (Ok tt) (try_ok _ w1 w2 tt Hrun2)).
      rewrite (bind_ok _ _ w2 w3 tt (set_info_new p (Some fi) w2 Hun2)).
      rewrite (bind_ok _ _ w3 w4 (Ok tt) (try_ok _ w3 w4 tt Hrun4)). reflexivity.
    - eapply ext_trans; [exact (same_all_ext w w1 [p] Hsa1) | | apply incl_refl | apply incl_refl].
      eapply ext_trans; [exact (ext_track w1 w3 p (Some fi) HVb3 Hi3 Hun1)
                        | exact (same_all_ext w3 w4 [p] Hsa4) | apply incl_refl | apply incl_refl].
    - destruct Hsa4 as (_ & _ & Hi4 & _). unfold tracked. rewrite Hi4, Hi3, lookup_insert. discriminate.
  Qed.

  Lemma tb_link_spec (w : world) (p : str) (fi : finfo) (m : meta) (t : str) :
    Inv Vb Vk B0 w -> snolinkpar (Vb w) p -> w_infos w !! p = None ->
    Vb w !! p = Some (Link m t) -> info_matches fi (Link m t) ->
    Forall (tracked w) (ancestors p) ->
    exists w', tb_link p fi w = (MOk tt, w') /\ Inv Vb Vk B0 w' /\ ext Vb w w' [p] /\ tracked w' p.
  Proof.
    intros HI Hnlp Hun Hb Him Hanc. unfold tb_link.
    assert (Hne : p <> s_root).
    { intros ->. destruct (swf_root_dir _ (inv_wf_b _ _ _ _ HI)) as [mr Hmr]. rewrite Hmr in Hb. discriminate Hb. }
    destruct (info_matches_nonneg fi _ Him) as [Hu Hg].
    (* the original link as it was when the transaction began *)
    pose proof (inv_untracked _ _ _ _ HI p Hun) as He. rewrite Hb in He.
    destruct (B0 !! p) as [[m0 | m0 c0 | m0 t0]|] eqn:E0; simpl in He; try contradiction.
    destruct He as [Hm0 <-].
    destruct (Hlinks p m0 t E0) as (_ & Htnk & Htne & _ & Hacc & Hperm0).
    destruct (copy_symlink_spec backup base Vk Vb tnk tnb acck accb rhk rhb whk whb Lk Lb
                w p fi m t (inv_quiet _ _ _ _ HI) (inv_wf_k _ _ _ _ HI) (inv_wf_b _ _ _ _ HI) Hnlp Hb
                (backup_sdirect w p _ HI Hun Hb Hanc) (untracked_backup_none w p HI Hun Hne)
                (proj1 Him) Hu Hg Htne Hacc)
      as (w2 & m' & Hrun2 & (Hsr2 & Hwf2 & Heqv2) & Hk2 & Hperm' & Hu' & Hg').
    pose proof Hsr2 as (HVb2 & Hi2 & Hc2 & Hf2).
    assert (Hun2 : w_infos w2 !! p = None) by (rewrite Hi2; exact Hun).
    set (w3 := with_infos w2 (<[p := Some fi]> (w_infos w2))).
    assert (HVb3 : Vb w3 = Vb w) by (unfold w3; rewrite HVb_infos; exact HVb2).
    assert (Hi3 : w_infos w3 = <[p := Some fi]> (w_infos w)) by (unfold w3; simpl; rewrite Hi2; reflexivity).
    exists w3. split; [| split; [| split]].
    - rewrite (bind_ok _ _ w w2 (Ok tt) (try_ok _ w w2 tt Hrun2)).
      exact (set_info_new p (Some fi) w2 Hun2).
    - apply (Inv_track w w3 p (Some fi) HI Hun Hi3 HVb3).
      + simpl. exact Hc2.
      + simpl. exact Hf2.
      + unfold w3. rewrite HVk_infos. exact Hwf2.
      + unfold w3. rewrite HVk_infos. exact Heqv2.
      + exact Hnlp.
      + exists (Link m t). split; [exact Hb | split; [exact Him | split; [exact Hanc | right]]].
        exists (Link m' (tnk t)). split; [unfold w3; rewrite HVk_infos; exact Hk2 |].
        simpl. split; [| exact Htnk].
        destruct Him as (_ & _ & Hu0 & Hg0 & _). destruct Hm0 as (P1 & P2 & P3). simpl in *.
        split; [congruence | split; apply N2Z.inj; congruence].
    - exact (ext_track w w3 p (Some fi) HVb3 Hi3 Hun).
    - unfold tracked. rewrite Hi3, lookup_insert. discriminate.
  Qed.

  (** ** [try_backup] keeps the invariant *)
  Lemma try_backup_specS (w : world) (p : str) :
    Inv Vb Vk B0 w -> snolinkpar (Vb w) p ->
    exists r w', try_backup base backup p w = (r, w') /\ r <> MHalt /\ Inv Vb Vk B0 w' /\
                 ext Vb w w' (cands p) /\
                 (r = MOk tt -> tracked w' p /\ Forall (tracked w') (ancestors p)) /\
                 ((forall q n, In q (ancestors p) -> Vb w !! q = Some n -> node_kind n = KDir) ->
                  r = MOk tt).
  Proof.
    intros HI Hnlp. pose proof Hnlp as [[Hc Habs] Hf].
    assert (Hpin : incl [p] (cands p)).
    { intros q [<- | []]. rewrite (cands_last p Hc). apply in_or_app. right. left. reflexivity. }
    rewrite try_backup_eq.
    destruct (w_infos w !! p) as [info|] eqn:Hi.
    { (* already tracked: only the directories *)
      rewrite (bind_ok _ _ w w (info, false) (backup_required_seen w p info Hi)). cbn [fst snd].
      destruct (dirs_phase w p (tb_dirpath p info) HI Hnlp)
        as (r & w' & Hrun & Hnh & HI' & Hext & Htr & _ & Hok).
      { unfold tb_dirpath. destruct info as [fi|]; [| right; reflexivity].
        destruct (is_dir_info fi) eqn:Ed; [left | right; reflexivity].
        split; [reflexivity |]. intros n Hn. rewrite (inv_kind _ _ _ _ HI p fi n Hi Hn).
        unfold is_dir_info in Ed. destruct (fi_kind fi); [reflexivity | discriminate Ed | discriminate Ed]. }
      assert (Htp : tracked w' p).
      { apply (ext_tracked _ _ _ _ _ Hext). unfold tracked. rewrite Hi. discriminate. }
      destruct r as [[] | e |]; [| | contradiction Hnh; reflexivity].
      - exists (MOk tt), w'. split; [rewrite (bind_ok _ _ w w' tt Hrun); reflexivity |].
        split; [discriminate |]. split; [exact HI' |]. split; [exact Hext |].
        split; [intros _; split; [exact Htp | exact (proj1 (Htr eq_refl))] | intros _; reflexivity].
      - exists (MErr e), w'. split; [rewrite (bind_err _ _ w w' e Hrun); reflexivity |].
        split; [discriminate |]. split; [exact HI' |]. split; [exact Hext |].
        split; [intros D; discriminate D | exact Hok]. }
    destruct (Vb w !! p) as [n|] eqn:Hb.
    2:{ (* did not exist *)
      destruct (backup_required_none w p HI Hnlp Hi Hb) as (w1 & Hrun1 & HI1 & Hext1 & Htr1).
      rewrite (bind_ok _ _ w w1 _ Hrun1). cbn [fst snd].
      pose proof Hext1 as (HVb1 & _ & _).
      assert (Hnlp1 : snolinkpar (Vb w1) p) by (rewrite HVb1; exact Hnlp).
      destruct (dirs_phase w1 p (tb_dirpath p None) HI1 Hnlp1 (or_intror eq_refl))
        as (r & w' & Hrun & Hnh & HI' & Hext & Htr & _ & Hok).
      assert (Hext' : ext Vb w w' (cands p)).
      { eapply ext_trans; [exact Hext1 | exact Hext | exact Hpin | apply incl_refl]. }
      assert (Htp : tracked w' p).
      { apply (ext_tracked _ _ _ _ _ Hext). unfold tracked. rewrite Htr1. discriminate. }
      destruct r as [[] | e |]; [| | contradiction Hnh; reflexivity].
      - exists (MOk tt), w'. split; [rewrite (bind_ok _ _ w1 w' tt Hrun); reflexivity |].
        split; [discriminate |]. split; [exact HI' |]. split; [exact Hext' |].
        split; [intros _; split; [exact Htp | exact (proj1 (Htr eq_refl))] | intros _; reflexivity].
      - exists (MErr e), w'. split; [rewrite (bind_err _ _ w1 w' e Hrun); reflexivity |].
        split; [discriminate |]. split; [exact HI' |]. split; [exact Hext' |].
        split; [intros D; discriminate D |].
        intros Hd. apply Hok. intros q n Hq Hn. rewrite HVb1 in Hn. exact (Hd q n Hq Hn). }
    (* exists and is not yet tracked *)
    destruct (backup_required_some w p n HI Hnlp Hi Hb) as (fi & w1 & Hrun1 & Hsa1 & Him).
    rewrite (bind_ok _ _ w w1 _ Hrun1). cbn [fst snd].
    pose proof (Inv_transfer w w1 HI Hsa1) as HI1.
    pose proof Hsa1 as (HVb1 & HVk1 & Hi1 & Hc1 & Hf1).
    assert (Hnlp1 : snolinkpar (Vb w1) p) by (rewrite HVb1; exact Hnlp).
    assert (Hun1 : w_infos w1 !! p = None) by (rewrite Hi1; exact Hi).
    assert (Hb1 : Vb w1 !! p = Some n) by (rewrite HVb1; exact Hb).
    destruct (dirs_phase w1 p (tb_dirpath p (Some fi)) HI1 Hnlp1)
      as (r & w2 & Hrun2 & Hnh & HI2 & Hext2 & Htr2 & Hkeep & Hok).
    { unfold tb_dirpath. destruct (is_dir_info fi) eqn:Ed; [left | right; reflexivity].
      split; [reflexivity |]. intros n' Hn'. rewrite Hb1 in Hn'. injection Hn' as <-.
      rewrite <- (proj1 Him). unfold is_dir_info in Ed.
      destruct (fi_kind fi); [reflexivity | discriminate Ed | discriminate Ed]. }
    assert (Hext12 : ext Vb w w2 (cands p)).
    { eapply ext_trans; [exact (same_all_ext w w1 (cands p) Hsa1) | exact Hext2
                        | apply incl_refl | apply incl_refl]. }
    assert (Hok' : (forall q n, In q (ancestors p) -> Vb w !! q = Some n -> node_kind n = KDir) ->
                   r = MOk tt).
    { intros Hd. apply Hok. intros q n' Hq Hn'. rewrite HVb1 in Hn'. exact (Hd q n' Hq Hn'). }
    destruct r as [[] | e |]; [| | contradiction Hnh; reflexivity].
    2:{ exists (MErr e), w2. split; [rewrite (bind_err _ _ w1 w2 e Hrun2); reflexivity |].
        split; [discriminate |]. split; [exact HI2 |]. split; [exact Hext12 |].
        split; [intros D; discriminate D | exact Hok']. }
    rewrite (bind_ok _ _ w1 w2 tt Hrun2).
    destruct (Htr2 eq_refl) as [Hanc2 Hself2].
    pose proof Hext2 as (HVb2 & _ & _).
    unfold tb_tail. cbn [negb].
    destruct n as [m | m c | m t].
    - (* a directory: handled by [backup_dirs] *)
      assert (Hk : fi_kind fi = KDir) by exact (proj1 Him).
      exists (MOk tt), w2. split; [rewrite Hk; reflexivity |].
      split; [discriminate |]. split; [exact HI2 |]. split; [exact Hext12 |].
      split; [| intros _; reflexivity]. intros _. split; [| exact Hanc2].
      apply Hself2. unfold tb_dirpath, is_dir_info. rewrite Hk. reflexivity.
    - (* a regular file *)
      assert (Hk : fi_kind fi = KFile) by exact (proj1 Him).
      assert (Hdp : tb_dirpath p (Some fi) <> p).
      { unfold tb_dirpath, is_dir_info. rewrite Hk. intros E.
        assert (Hne : p <> s_root).
        { intros ->. destruct (swf_root_dir _ (inv_wf_b _ _ _ _ HI)) as [mr Hmr]. rewrite Hmr in Hb. discriminate Hb. }
        pose proof (dir_in_ancestors p (conj Hc Habs) Hne) as Hin. rewrite E in Hin.
        exact (ancestors_not_self p Hc Hin). }
      destruct (tb_file_spec w2 p fi m c HI2) as (w3 & Hrun3 & HI3 & Hext3 & Htr3).
      + rewrite HVb2. exact Hnlp1.
      + exact (Hkeep Hdp Hun1).
      + rewrite HVb2. exact Hb1.
      + exact Him.
      + exact Hanc2.
      + exists (MOk tt), w3. split; [rewrite Hk; exact Hrun3 |].
        split; [discriminate |]. split; [exact HI3 |].
        split; [eapply ext_trans; [exact Hext12 | exact Hext3 | apply incl_refl | exact Hpin] |].
        split; [| intros _; reflexivity]. intros _. split; [exact Htr3 |].
        eapply List.Forall_impl; [| exact Hanc2]. intros q Hq. exact (ext_tracked _ _ _ _ _ Hext3 Hq).
    - (* a symlink *)
      assert (Hk : fi_kind fi = KLink) by exact (proj1 Him).
      assert (Hdp : tb_dirpath p (Some fi) <> p).
      { unfold tb_dirpath, is_dir_info. rewrite Hk. intros E.
        assert (Hne : p <> s_root).
        { intros ->. destruct (swf_root_dir _ (inv_wf_b _ _ _ _ HI)) as [mr Hmr]. rewrite Hmr in Hb. discriminate Hb. }
        pose proof (dir_in_ancestors p (conj Hc Habs) Hne) as Hin. rewrite E in Hin.
        exact (ancestors_not_self p Hc Hin). }
      destruct (tb_link_spec w2 p fi m t HI2) as (w3 & Hrun3 & HI3 & Hext3 & Htr3).
      + rewrite HVb2. exact Hnlp1.
      + exact (Hkeep Hdp Hun1).
      + rewrite HVb2. exact Hb1.
      + exact Him.
      + exact Hanc2.
      + exists (MOk tt), w3. split; [rewrite Hk; exact Hrun3 |].
        split; [discriminate |]. split; [exact HI3 |].
        split; [eapply ext_trans; [exact Hext12 | exact Hext3 | apply incl_refl | exact Hpin] |].
        split; [| intros _; reflexivity]. intros _. split; [exact Htr3 |].
        eapply List.Forall_impl; [| exact Hanc2]. intros q Hq. exact (ext_tracked _ _ _ _ _ Hext3 Hq).
  Qed.

  (* ---------------------------------------------------------------- *)
  (** * The simple operations *)

  (** a base call that touches at most the tracked path [n] *)
  Lemma Inv_base_frame (w w' : world) (n : str) :
    Inv Vb Vk B0 w -> same_rest Vk w w' -> swf (Vb w') -> store_eqv_except [n] (Vb w') (Vb w) ->
    tracked w n -> kind_stable Vb w' -> Inv Vb Vk B0 w'.
  Proof.
    intros HI Hsr Hwf Heqv Htn [Hks1 Hks2]. pose proof Hsr as (HVk & Hi & Hc & Hf).
    constructor.
    - exact (quiet_same_rest Vk w w' (inv_quiet _ _ _ _ HI) Hsr).
    - exact Hwf.
    - rewrite HVk. exact (inv_wf_k _ _ _ _ HI).
    - intros q Hq. rewrite Hi in Hq.
      eapply sonode_eqv_trans; [| exact (inv_untracked _ _ _ _ HI q Hq)].
      apply Heqv. intros [E | []]. subst q. contradiction.
    - intros q Hq. rewrite Hi in Hq. exact (inv_none _ _ _ _ HI q Hq).
    - intros q fi Hq. rewrite Hi in Hq. rewrite HVk. exact (inv_some _ _ _ _ HI q fi Hq).
    - intros q Hq. unfold tracked in Hq. rewrite Hi in Hq. exact (inv_abs _ _ _ _ HI q Hq).
    - intros q fi Hq. rewrite Hi in Hq. unfold tracked. rewrite Hi. exact (inv_closed _ _ _ _ HI q fi Hq).
    - exact Hks2.
    - intros q Hne Hq. rewrite HVk in Hq. rewrite Hi. exact (inv_backup_only _ _ _ _ HI q Hne Hq).
    - exact Hks1.
  Qed.

  Lemma ext_infos_ext (w w2 w' : world) (l : list str) :
    ext Vb w w2 l -> w_infos w' = w_infos w2 -> infos_ext w w' l.
  Proof. intros (_ & Hm & Hd) Hi. unfold infos_ext. rewrite Hi. split; assumption. Qed.

  (** resolve, back up, one call on the base *)
  Definition guarded {A} (name : str) (call : str -> M A) : M A :=
    rn <- real_path base name ;; try_backup base backup rn ;;; call rn.

  Definition all_dirs (w : world) (n : str) : Prop :=
    forall q m, In q (ancestors n) -> Vb w !! q = Some m -> node_kind m = KDir.

  Lemma guarded_spec {A} (call : str -> M A) (w : world) (n : str) :
    Inv Vb Vk B0 w -> snolinkpar (Vb w) n ->
    (forall w2, quiet w2 -> swf (Vb w2) -> Vb w2 = Vb w -> framed Vb Vk (call n) w2 [n]) ->
    exists r w' w2, guarded n call w = (r, w') /\ r <> MHalt /\ Inv Vb Vk B0 w2 /\
      ext Vb w w2 (cands n) /\ w_infos w' = w_infos w2 /\
      (all_dirs w n -> tracked w2 n /\ Forall (tracked w2) (ancestors n)) /\
      (((exists e, r = MErr e) /\ w' = w2) \/
       (tracked w2 n /\ call n w2 = (r, w') /\ same_rest Vk w2 w' /\ swf (Vb w') /\
        store_eqv_except [n] (Vb w') (Vb w2))).
  Proof.
    intros HI Hnlp Hframe. unfold guarded.
    destruct (real_path_resolved_spec base Vb Vk tnb accb rhb whb Lb w n
                (inv_quiet _ _ _ _ HI) (inv_wf_b _ _ _ _ HI) Hnlp) as (w1 & Hrun1 & HVb1 & Hsr1).
    pose proof (same_all_base w w1 HVb1 Hsr1) as Hsa1.
    pose proof (Inv_transfer w w1 HI Hsa1) as HI1.
    assert (Hnlp1 : snolinkpar (Vb w1) n) by (rewrite HVb1; exact Hnlp).
    destruct (try_backup_specS w1 n HI1 Hnlp1) as (r2 & w2 & Hrun2 & Hnh2 & HI2 & Hext2 & Htr2 & Hok2).
    assert (Hext : ext Vb w w2 (cands n)).
    { eapply ext_trans; [exact (same_all_ext w w1 (cands n) Hsa1) | exact Hext2
                        | apply incl_refl | apply incl_refl]. }
    assert (Hdirs : all_dirs w n -> tracked w2 n /\ Forall (tracked w2) (ancestors n)).
    { intros Hd. apply Htr2. apply Hok2. intros q m Hq Hm. rewrite HVb1 in Hm. exact (Hd q m Hq Hm). }
    rewrite (bind_ok _ _ w w1 n Hrun1).
    destruct r2 as [[] | e |]; [| | contradiction Hnh2; reflexivity].
    - destruct (Htr2 eq_refl) as [Htn _].
      pose proof Hext as (HVb2 & _ & _).
      destruct (Hframe w2 (inv_quiet _ _ _ _ HI2) (inv_wf_b _ _ _ _ HI2) HVb2)
        as (r3 & w3 & Hrun3 & Hnh3 & Hsr3 & Hwf3 & Heqv3).
      exists r3, w3, w2. split; [rewrite (bind_ok _ _ w1 w2 tt Hrun2); exact Hrun3 |].
      split; [exact Hnh3 |]. split; [exact HI2 |]. split; [exact Hext |].
      split; [exact (proj1 (proj2 Hsr3)) |]. split; [exact Hdirs |]. right.
      split; [exact Htn |]. split; [exact Hrun3 |]. split; [exact Hsr3 |]. split; assumption.
    - exists (MErr e), w2, w2. split; [rewrite (bind_err _ _ w1 w2 e Hrun2); reflexivity |].
      split; [discriminate |]. split; [exact HI2 |]. split; [exact Hext |].
      split; [reflexivity |]. split; [exact Hdirs |]. left. split; [exists e; reflexivity | reflexivity].
  Qed.

  Definition step_post (o : op) (w : world) (r : mres obs) (w' : world) : Prop :=
    r <> MHalt /\ (kind_stable Vb w' -> Inv Vb Vk B0 w') /\ infos_ext w w' (cands (op_name o)) /\
    (all_dirs w (op_name o) ->
     tracked w' (op_name o) /\ Forall (tracked w') (ancestors (op_name o))).

  Lemma unit_op_spec (call : str -> M unit) (w : world) (n : str) :
    Inv Vb Vk B0 w -> snolinkpar (Vb w) n ->
    (forall w2, quiet w2 -> swf (Vb w2) -> Vb w2 = Vb w -> framed Vb Vk (call n) w2 [n]) ->
    exists r w', (guarded n call ;;; ret ObUnit) w = (r, w') /\
      r <> MHalt /\ (kind_stable Vb w' -> Inv Vb Vk B0 w') /\ infos_ext w w' (cands n) /\
      (all_dirs w n -> tracked w' n /\ Forall (tracked w') (ancestors n)).
  Proof.
    intros HI Hnlp Hframe.
    destruct (guarded_spec call w n HI Hnlp Hframe)
      as (r & w' & w2 & Hrun & Hnh & HI2 & Hext & Hi & Hdirs & Hcase).
    assert (Hdirs' : all_dirs w n -> tracked w' n /\ Forall (tracked w') (ancestors n)).
    { intros Hd. unfold tracked. rewrite Hi. exact (Hdirs Hd). }
    assert (Hinv : kind_stable Vb w' -> Inv Vb Vk B0 w').
    { intros Hks. destruct Hcase as [[_ ->] | (Htn & _ & Hsr & Hwf & Heqv)]; [exact HI2 |].
      exact (Inv_base_frame w2 w' n HI2 Hsr Hwf Heqv Htn Hks). }
    destruct r as [[] | e |]; [| | contradiction Hnh; reflexivity].
    - exists (MOk ObUnit), w'. split; [rewrite (bind_ok _ _ w w' tt Hrun); reflexivity |].
      split; [discriminate |]. split; [exact Hinv |]. split; [exact (ext_infos_ext w w2 w' _ Hext Hi) | exact Hdirs'].
    - exists (MErr e), w'. split; [rewrite (bind_err _ _ w w' e Hrun); reflexivity |].
      split; [discriminate |]. split; [exact Hinv |]. split; [exact (ext_infos_ext w w2 w' _ Hext Hi) | exact Hdirs'].
  Qed.

  Lemma create_op_spec (w : world) (n : str) (d : list N) :
    Inv Vb Vk B0 w -> snolinkpar (Vb w) n -> snotlink (Vb w) n ->
    exists r w', (h <- guarded n (a_create base) ;; write_close h d ;;; ret ObUnit) w = (r, w') /\
      r <> MHalt /\ (kind_stable Vb w' -> Inv Vb Vk B0 w') /\ infos_ext w w' (cands n) /\
      (all_dirs w n -> tracked w' n /\ Forall (tracked w') (ancestors n)).
  Proof.
    intros HI Hnlp Hnl.
    destruct (guarded_spec (a_create base) w n HI Hnlp)
      as (r & w' & w2 & Hrun & Hnh & HI2 & Hext & Hi & Hdirs & Hcase).
    { intros w2 Hq2 Hwf2 HVb2. apply (law_user_create _ _ _ _ _ _ _ Lb w2 n Hq2 Hwf2); rewrite HVb2; assumption. }
    pose proof Hext as (HVb2 & _ & _).
    destruct Hcase as [[[e ->] ->] | (Htn & Hcall & Hsr & Hwf & Heqv)].
    { exists (MErr e), w2. split; [rewrite (bind_err _ _ w w2 e Hrun); reflexivity |].
      split; [discriminate |]. split; [intros _; exact HI2 |].
      split; [exact (ext_infos_ext w w2 w2 _ Hext eq_refl) | exact Hdirs]. }
    assert (Hdirs' : all_dirs w n -> tracked w' n /\ Forall (tracked w') (ancestors n)).
    { intros Hd. unfold tracked. rewrite Hi. exact (Hdirs Hd). }
    destruct r as [h | e |]; [| | contradiction Hnh; reflexivity].
    2:{ exists (MErr e), w'. split; [rewrite (bind_err _ _ w w' e Hrun); reflexivity |].
        split; [discriminate |].
        split; [intros Hks; exact (Inv_base_frame w2 w' n HI2 Hsr Hwf Heqv Htn Hks) |].
        split; [exact (ext_infos_ext w w2 w' _ Hext Hi) | exact Hdirs']. }
    assert (Hnlp2 : snolinkpar (Vb w2) n) by (rewrite HVb2; exact Hnlp).
    assert (Hnl2 : snotlink (Vb w2) n) by (rewrite HVb2; exact Hnl).
    destruct (law_user_handle _ _ _ _ _ _ _ Lb w2 n (MOk h) w' (inv_quiet _ _ _ _ HI2) (inv_wf_b _ _ _ _ HI2)
                Hnlp2 Hnl2 (or_intror Hcall) h d eq_refl
                (quiet_same_rest Vk w2 w' (inv_quiet _ _ _ _ HI2) Hsr) Hwf)
      as (r4 & w4 & Hrun4 & Hnh4 & Hsr4 & Hwf4 & Heqv4).
    assert (Hi4 : w_infos w4 = w_infos w2).
    { rewrite (proj1 (proj2 Hsr4)). exact Hi. }
    assert (Hinv : kind_stable Vb w4 -> Inv Vb Vk B0 w4).
    { intros Hks. apply (Inv_base_frame w2 w4 n HI2); [| exact Hwf4 | | exact Htn | exact Hks].
      - eapply same_rest_trans; eassumption.
      - eapply store_eqv_except_trans; eassumption. }
    assert (Hdirs4 : all_dirs w n -> tracked w4 n /\ Forall (tracked w4) (ancestors n)).
    { intros Hd. unfold tracked. rewrite Hi4. exact (Hdirs Hd). }
    rewrite (bind_ok _ _ w w' h Hrun).
    destruct r4 as [[] | e |]; [| | contradiction Hnh4; reflexivity].
    - exists (MOk ObUnit), w4. split; [rewrite (bind_ok _ _ w' w4 tt Hrun4); reflexivity |].
      split; [discriminate |]. split; [exact Hinv |].
      split; [exact (ext_infos_ext w w2 w4 _ Hext Hi4) | exact Hdirs4].
    - exists (MErr e), w4. split; [rewrite (bind_err _ _ w' w4 e Hrun4); reflexivity |].
      split; [discriminate |]. split; [exact Hinv |].
      split; [exact (ext_infos_ext w w2 w4 _ Hext Hi4) | exact Hdirs4].
  Qed.

  (** every simple operation keeps the invariant *)
  Lemma step_specS (o : op) (w : world) :
    Inv Vb Vk B0 w -> covered Vb o w ->
    exists r w', step base backup o w = (r, w') /\ step_post o w r w'.
  Proof.
    intros HI (Hso & Hres & Hfol). unfold resolved in Hres. unfold step_post.
    destruct Hso as [n d | n perm | n | t n | n m | n u g | n u g | n t]; cbn [op_name follows] in *.
    - exact (create_op_spec w n d HI Hres (Hfol eq_refl)).
    - apply (unit_op_spec (fun rn => a_mkdir base rn perm) w n HI Hres).
      intros w2 Hq2 Hwf2 HVb2. apply (law_user_mkdir _ _ _ _ _ _ _ Lb w2 n perm Hq2 Hwf2).
      rewrite HVb2. exact Hres.
    - apply (unit_op_spec (fun rn => a_remove base rn) w n HI Hres).
      intros w2 Hq2 Hwf2 HVb2. apply (law_user_remove _ _ _ _ _ _ _ Lb w2 n Hq2 Hwf2).
      rewrite HVb2. exact Hres.
    - apply (unit_op_spec (fun rn => a_symlink base t rn) w n HI Hres).
      intros w2 Hq2 Hwf2 HVb2. apply (law_user_symlink _ _ _ _ _ _ _ Lb w2 t n Hq2 Hwf2).
      rewrite HVb2. exact Hres.
    - apply (unit_op_spec (fun rn => a_chmod base rn m) w n HI Hres).
      intros w2 Hq2 Hwf2 HVb2. apply (law_user_chmod _ _ _ _ _ _ _ Lb w2 n m Hq2 Hwf2);
        rewrite HVb2; [exact Hres | exact (Hfol eq_refl)].
    - apply (unit_op_spec (fun rn => a_chown base rn u g) w n HI Hres).
      intros w2 Hq2 Hwf2 HVb2. apply (law_user_chown _ _ _ _ _ _ _ Lb w2 n u g Hq2 Hwf2);
        rewrite HVb2; [exact Hres | exact (Hfol eq_refl)].
    - apply (unit_op_spec (fun rn => a_lchown base rn u g) w n HI Hres).
      intros w2 Hq2 Hwf2 HVb2. apply (law_user_lchown _ _ _ _ _ _ _ Lb w2 n u g Hq2 Hwf2).
      rewrite HVb2. exact Hres.
    - apply (unit_op_spec (fun rn => a_chtimes base rn (Preset t)) w n HI Hres).
      intros w2 Hq2 Hwf2 HVb2. apply (law_user_chtimes _ _ _ _ _ _ _ Lb w2 n (Preset t) Hq2 Hwf2);
        rewrite HVb2; [exact Hres | exact (Hfol eq_refl)].
  Qed.

End Try.

(* ------------------------------------------------------------------ *)
(** * The theorems, as stated in Spec/CopySpecs.v *)

Theorem try_backup_spec :
  forall base backup Vb Vk tnb tnk accb acck rhb rhk whb whk B0,
  try_backup_stmt base backup Vb Vk tnb tnk accb acck rhb rhk whb whk B0.
Proof.
  intros base backup Vb Vk tnb tnk accb acck rhb rhk whb whk B0.
  unfold try_backup_stmt. cbv zeta. intros HLb HLk Hlinks Hsmall HwfB0 w p HI Hnlp.
  destruct (try_backup_specS base backup Vb Vk tnb tnk accb acck rhb rhk whb whk B0
              HLb HLk Hlinks Hsmall HwfB0 w p HI Hnlp)
    as (r & w' & Hrun & Hnh & HI' & (HVb & Hm & Hd) & Htr & _).
  exists r, w'. split; [exact Hrun |]. split; [exact Hnh |]. split; [exact HI' |].
  split; [exact HVb |]. split; [split; [exact Hm | exact Hd] | exact Htr].
Qed.

Theorem step_spec :
  forall base backup Vb Vk tnb tnk accb acck rhb rhk whb whk B0,
  step_stmt base backup Vb Vk tnb tnk accb acck rhb rhk whb whk B0.
Proof.
  intros base backup Vb Vk tnb tnk accb acck rhb rhk whb whk B0.
  unfold step_stmt. cbv zeta. intros HLb HLk Hlinks Hsmall HwfB0 o w HI Hcov.
  destruct (step_specS base backup Vb Vk tnb tnk accb acck rhb rhk whb whk B0
              HLb HLk Hlinks Hsmall HwfB0 o w HI Hcov)
    as (r & w' & Hrun & Hnh & Hinv & Hext & _).
  exists r, w'. split; [exact Hrun |]. split; [exact Hnh |]. split; [exact Hinv | exact Hext].
Qed.

Print Assumptions try_backup_spec.
Print Assumptions step_spec.
