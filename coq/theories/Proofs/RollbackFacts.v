(** Facts about [b_rollback], [restore_file], [restore_symlink] and
    [b_persist_reload] (used by Props/C07, C09, C12), preceded by general
    lemmas about the monad of Base/Monad.v. *)
From stdpp Require Import gmap.
From BFS Require Import Backup.History.

(** * General monad lemmas *)

Lemma bind_unfold {A B} (m : M A) (f : A -> M B) (w : world) :
  bind m f w = match m w with
               | (MOk a, w') => f a w'
               | (MErr e, w') => (MErr e, w')
               | (MHalt, w') => (MHalt, w')
               end.
Proof. reflexivity. Qed.

Lemma bind_ok {A B} (m : M A) (f : A -> M B) (w w1 : world) (a : A) :
  m w = (MOk a, w1) -> bind m f w = f a w1.
Proof. intros Hm. unfold bind. rewrite Hm. reflexivity. Qed.

Lemma bind_err {A B} (m : M A) (f : A -> M B) (w w1 : world) (e : errno) :
  m w = (MErr e, w1) -> bind m f w = (MErr e, w1).
Proof. intros Hm. unfold bind. rewrite Hm. reflexivity. Qed.

Lemma bind_halt {A B} (m : M A) (f : A -> M B) (w w1 : world) :
  m w = (MHalt, w1) -> bind m f w = (MHalt, w1).
Proof. intros Hm. unfold bind. rewrite Hm. reflexivity. Qed.

(** inversion of a bind: either the first stage succeeded and the continuation
    produced the result, or the first stage failed / halted with that result *)
Lemma bind_inv {A B} (m : M A) (f : A -> M B) (w w' : world) (r : mres B) :
  bind m f w = (r, w') ->
  (exists a w1, m w = (MOk a, w1) /\ f a w1 = (r, w')) \/
  (exists e, m w = (MErr e, w') /\ r = MErr e) \/
  (m w = (MHalt, w') /\ r = MHalt).
Proof.
  unfold bind. intros Hb. destruct (m w) as [[a|e|] w1] eqn:Hm.
  - left. exists a, w1. split; [reflexivity | exact Hb].
  - right. left. inversion Hb; subst. exists e. split; reflexivity.
  - right. right. inversion Hb; subst. split; reflexivity.
Qed.

Lemma bind_inv_nohalt {A B} (m : M A) (f : A -> M B) (w w' : world) (r : mres B) :
  bind m f w = (r, w') -> r <> MHalt ->
  (exists a w1, m w = (MOk a, w1) /\ f a w1 = (r, w')) \/
  (exists e, m w = (MErr e, w') /\ r = MErr e).
Proof.
  intros Hb Hr. destruct (bind_inv m f w w' r Hb) as [Hok | [Herr | [_ Hh]]].
  - left. exact Hok.
  - right. exact Herr.
  - contradiction.
Qed.

Lemma try_unfold {A} (m : M A) (w : world) :
  try_ m w = match m w with
             | (MOk a, w') => (MOk (Ok a), w')
             | (MErr e, w') => (MOk (Err e), w')
             | (MHalt, w') => (MHalt, w')
             end.
Proof. reflexivity. Qed.

Lemma try_ok {A} (m : M A) (w w1 : world) (a : A) :
  m w = (MOk a, w1) -> try_ m w = (MOk (Ok a), w1).
Proof. intros Hm. unfold try_. rewrite Hm. reflexivity. Qed.

Lemma try_err {A} (m : M A) (w w1 : world) (e : errno) :
  m w = (MErr e, w1) -> try_ m w = (MOk (Err e), w1).
Proof. intros Hm. unfold try_. rewrite Hm. reflexivity. Qed.

Lemma try_halt {A} (m : M A) (w w1 : world) :
  m w = (MHalt, w1) -> try_ m w = (MHalt, w1).
Proof. intros Hm. unfold try_. rewrite Hm. reflexivity. Qed.

(** [try_] returns [MOk _] or [MHalt], never [MErr] *)
Lemma try_inv {A} (m : M A) (w w' : world) (r : mres (res A)) :
  try_ m w = (r, w') -> r = MHalt \/ exists x, r = MOk x.
Proof.
  unfold try_. intros Ht. destruct (m w) as [[a|e|] w1]; inversion Ht; subst.
  - right. exists (Ok a). reflexivity.
  - right. exists (Err e). reflexivity.
  - left. reflexivity.
Qed.

Lemma try_not_err {A} (m : M A) (w w' : world) (r : mres (res A)) (e : errno) :
  try_ m w = (r, w') -> r <> MErr e.
Proof.
  intros Ht. destruct (try_inv m w w' r Ht) as [Hh | [x Hx]]; subst; discriminate.
Qed.

(** ** postconditions *)

(** every result of [m] (from any world) satisfies [Q] *)
Definition sat {A} (m : M A) (Q : mres A -> world -> Prop) : Prop :=
  forall w r w', m w = (r, w') -> Q r w'.

(** [m] never returns an error: it succeeds or halts *)
Definition noerr {A} (m : M A) : Prop :=
  forall w r w' e, m w = (r, w') -> r <> MErr e.

Lemma noerr_ret {A} (a : A) : noerr (ret a).
Proof. intros w r w' e Hm. unfold ret in Hm. inversion Hm; subst. discriminate. Qed.

Lemma noerr_try {A} (m : M A) : noerr (try_ m).
Proof. intros w r w' e Hm. exact (try_not_err m w w' r e Hm). Qed.

Lemma noerr_get_infos : noerr get_infos.
Proof. intros w r w' e Hm. unfold get_infos in Hm. inversion Hm; subst. discriminate. Qed.

Lemma noerr_put_infos (i : infomap) : noerr (put_infos i).
Proof. intros w r w' e Hm. unfold put_infos in Hm. inversion Hm; subst. discriminate. Qed.

Lemma noerr_bind {A B} (m : M A) (f : A -> M B) :
  noerr m -> (forall a, noerr (f a)) -> noerr (bind m f).
Proof.
  intros Hm Hf w r w' e Hb.
  destruct (bind_inv m f w w' r Hb) as [(a & w1 & Hma & Hfa) | [(e' & Hme & _) | [_ Hh]]].
  - exact (Hf a w1 r w' e Hfa).
  - exfalso. exact (Hm w (MErr e') w' e' Hme eq_refl).
  - subst. discriminate.
Qed.

Lemma noerr_mfold {A B} (f : B -> A -> M B) (l : list A) :
  (forall b x, noerr (f b x)) -> forall b, noerr (mfold f l b).
Proof.
  intros Hf. induction l as [|x l IH]; intros b; simpl.
  - apply noerr_ret.
  - apply noerr_bind; [apply Hf | exact IH].
Qed.

Lemma noerr_collect_errs {A} (f : A -> M unit) (l : list A) : noerr (collect_errs f l).
Proof.
  induction l as [|x l IH]; simpl.
  - apply noerr_ret.
  - apply noerr_bind; [apply noerr_try |].
    intros e. apply noerr_bind; [exact IH |].
    intros es. apply noerr_ret.
Qed.

Lemma noerr_try_remove_backup_paths (backup : fsapi) (paths : list str) :
  noerr (try_remove_backup_paths backup paths).
Proof. unfold try_remove_backup_paths. apply noerr_collect_errs. Qed.

(** a stage that cannot fail, followed by continuations all satisfying [Q]
    (which must accept a halt from the first stage) *)
Lemma sat_bind_noerr {A B} (m : M A) (f : A -> M B) (Q : mres B -> world -> Prop) :
  noerr m -> (forall w, Q MHalt w) -> (forall a, sat (f a) Q) -> sat (bind m f) Q.
Proof.
  intros Hm HQ Hf w r w' Hb.
  destruct (bind_inv m f w w' r Hb) as [(a & w1 & Hma & Hfa) | [(e' & Hme & _) | [_ Hh]]].
  - exact (Hf a w1 r w' Hfa).
  - exfalso. exact (Hm w (MErr e') w' e' Hme eq_refl).
  - subst. apply HQ.
Qed.

Lemma collect_errs_nil {A} (f : A -> M unit) (w : world) :
  collect_errs f [] w = (MOk [], w).
Proof. reflexivity. Qed.

Lemma sort_most_nil : sort_most [] = [].
Proof. reflexivity. Qed.
Lemma sort_least_nil : sort_least [] = [].
Proof. reflexivity. Qed.
Lemma sort_strings_nil : sort_strings [] = [].
Proof. reflexivity. Qed.

Lemma world_eta (w : world) :
  mkWorld (w_st w) (w_trace w) (w_ticks w) (w_crash w) (w_faults w) (w_infos w) = w.
Proof. destruct w; reflexivity. Qed.

(** * Rollback *)

Lemma rollback_empty_noop :
  forall base backup w, w_infos w = ∅ -> b_rollback base backup w = (MOk tt, w).
Proof.
  intros base backup w Hinf.
  unfold b_rollback. rewrite bind_unfold. unfold get_infos. rewrite Hinf.
  rewrite map_to_list_empty. simpl map. rewrite sort_strings_nil. simpl mfold.
  rewrite bind_unfold. unfold ret at 1. cbv iota beta.
  unfold try_remove_backup_paths.
  rewrite sort_most_nil, sort_least_nil, sort_strings_nil.
  repeat (rewrite bind_unfold; rewrite collect_errs_nil; cbv iota beta).
  rewrite bind_unfold. unfold put_infos. simpl.
  unfold ret. rewrite <- Hinf. rewrite world_eta. reflexivity.
Qed.

(** what a Rollback can end with *)
Definition rollback_post (r : mres unit) (w' : world) : Prop :=
  r = MHalt \/ ((r = MOk tt \/ r = MErr ERollback) /\ w_infos w' = ∅).

Lemma rollback_post_halt (w : world) : rollback_post MHalt w.
Proof. left. reflexivity. Qed.

Lemma noerr_classify (base : fsapi) (infos : infomap) (keys : list str)
      (b : list errno * list str * list str * list str * list str) :
  noerr (mfold (fun (acc : list errno * list str * list str * list str * list str) p =>
                    let '(errs, rm, ds, fs, ls) := acc in
                    match infos !! p with
                    | Some None =>
                        r <- try_ (lexists base p) ;;
                        match r with
                        | Err e => ret (errs ++ [e], rm, ds, fs, ls)
                        | Ok true => ret (errs, rm ++ [p], ds, fs, ls)
                        | Ok false => ret acc
                        end
                    | Some (Some fi) =>
                        if str_eqb p s_root then ret acc
                        else match fi_kind fi with
                             | KDir => ret (errs, rm, ds ++ [p], fs, ls)
                             | KFile => ret (errs, rm, ds, fs ++ [p], ls)
                             | KLink => ret (errs, rm, ds, fs, ls ++ [p])
                             end
                    | None => ret acc
                    end) keys b).
Proof.
  apply noerr_mfold. intros acc p.
  destruct acc as [[[[errs rm] ds] fs] ls].
  destruct (infos !! p) as [[fi|]|].
  - destruct (str_eqb p s_root); [apply noerr_ret |].
    destruct (fi_kind fi); apply noerr_ret.
  - apply noerr_bind; [apply noerr_try |].
    intros [[|]|e]; apply noerr_ret.
  - apply noerr_ret.
Qed.

Lemma rollback_sat (base backup : fsapi) : sat (b_rollback base backup) rollback_post.
Proof.
  unfold b_rollback.
  apply sat_bind_noerr; [apply noerr_get_infos | apply rollback_post_halt |]. intros infos.
  apply sat_bind_noerr; [apply noerr_classify | apply rollback_post_halt |].
  intros [[[[errs0 rm] ds] fs] ls].
  apply sat_bind_noerr; [apply noerr_collect_errs | apply rollback_post_halt |]. intros e1.
  apply sat_bind_noerr; [apply noerr_collect_errs | apply rollback_post_halt |]. intros e2.
  apply sat_bind_noerr; [apply noerr_collect_errs | apply rollback_post_halt |]. intros e3.
  apply sat_bind_noerr; [apply noerr_collect_errs | apply rollback_post_halt |]. intros e4.
  apply sat_bind_noerr; [apply noerr_try_remove_backup_paths | apply rollback_post_halt |]. intros e5.
  apply sat_bind_noerr; [apply noerr_try_remove_backup_paths | apply rollback_post_halt |]. intros e6.
  apply sat_bind_noerr; [apply noerr_try_remove_backup_paths | apply rollback_post_halt |]. intros e7.
  intros w r w' Hb. rewrite bind_unfold in Hb. unfold put_infos in Hb.
  right.
  destruct (match e1 with [] => errs0 | _ :: _ => e1 end ++ e2 ++ e3 ++ e4 ++ e5 ++ e6 ++ e7)
    as [|x xs]; [unfold ret in Hb | unfold fail in Hb]; inversion Hb; subst; simpl.
  - split; [left; reflexivity | reflexivity].
  - split; [right; reflexivity | reflexivity].
Qed.

Lemma rollback_clears :
  forall base backup w r w', b_rollback base backup w = (r, w') -> r <> MHalt -> w_infos w' = ∅.
Proof.
  intros base backup w r w' Hb Hr.
  destruct (rollback_sat base backup w r w' Hb) as [Hh | [_ Hinf]].
  - contradiction.
  - exact Hinf.
Qed.

Lemma rollback_err_class :
  forall base backup w e w', b_rollback base backup w = (MErr e, w') -> e = ERollback.
Proof.
  intros base backup w e w' Hb.
  destruct (rollback_sat base backup w (MErr e) w' Hb) as [Hh | [[Hok | Herr] _]].
  - discriminate.
  - discriminate.
  - inversion Herr. reflexivity.
Qed.

Lemma fresh_instance_equiv :
  forall c ops w w0,
    w_infos w = ∅ -> w0 = mkWorld (w_st w) (w_trace w) (w_ticks w) (w_crash w) (w_faults w) ∅ ->
    run_history c ops w = run_history c ops w0.
Proof.
  intros c ops w w0 Hinf Hw0.
  assert (Heq : w0 = w).
  { rewrite Hw0. rewrite <- Hinf. apply world_eta. }
  rewrite Heq. reflexivity.
Qed.

(** * restoreFile / restoreSymlink *)

Lemma restore_file_open_error :
  forall base backup name info w e w',
  a_open backup name w = (MErr e, w') -> is_not_found e = false ->
  exists e' w'', restore_file base backup name info w = (MErr e', w'').
Proof.
  intros base backup name info w e w' Hopen Hnf.
  exists e, w'. unfold restore_file.
  rewrite (bind_ok _ _ w w' (Err e) (try_err _ w w' e Hopen)).
  rewrite Hnf. reflexivity.
Qed.

Lemma lexists_lstat_error (fsys : fsapi) (p : str) (w w' : world) (e : errno) :
  a_lstat fsys p w = (MErr e, w') -> is_not_found e = false ->
  lexists fsys p w = (MErr e, w').
Proof.
  intros Hl Hnf. unfold lexists.
  rewrite (bind_ok _ _ w w' (Err e) (try_err _ w w' e Hl)).
  rewrite Hnf. reflexivity.
Qed.

Lemma restore_symlink_lstat_error :
  forall base backup name info w e w',
  a_lstat backup name w = (MErr e, w') -> is_not_found e = false ->
  exists e' w'', restore_symlink base backup name info w = (MErr e', w'').
Proof.
  intros base backup name info w e w' Hl Hnf.
  exists e, w'. unfold restore_symlink.
  apply bind_err. exact (lexists_lstat_error backup name w w' e Hl Hnf).
Qed.

(** * serialisation round trip *)

Lemma reload_info_accessors :
  forall p fi, let fi' := reload_info p fi in
  fi_kind fi' = fi_kind fi /\ fi_perm fi' = fi_perm fi /\ fi_uid fi' = fi_uid fi /\
  fi_gid fi' = fi_gid fi /\ fi_mt fi' = fi_mt fi /\ fi_size fi' = fi_size fi /\
  fi_name fi' = GoPath.base p.
Proof. intros p fi. simpl. repeat split. Qed.

Lemma persist_reload_run (w : world) :
  b_persist_reload w =
  (MOk tt, mkWorld (w_st w) (w_trace w) (w_ticks w) (w_crash w) (w_faults w)
                   (map_imap (fun p v => Some (option_map (reload_info p) v)) (w_infos w))).
Proof. reflexivity. Qed.

Lemma persist_reload_spec :
  forall w, exists w',
  b_persist_reload w = (MOk tt, w') /\
  w_st w' = w_st w /\ w_trace w' = w_trace w /\ w_ticks w' = w_ticks w /\
  (forall p, w_infos w' !! p = option_map (option_map (reload_info p)) (w_infos w !! p)).
Proof.
  intros w. eexists. split; [apply persist_reload_run |].
  simpl. repeat split.
  intros p. rewrite map_lookup_imap.
  destruct (w_infos w !! p) as [v|]; reflexivity.
Qed.

Lemma reload_info_id (p : str) (fi : finfo) :
  fi_name fi = GoPath.base p -> reload_info p fi = fi.
Proof. intros Hn. destruct fi. simpl in Hn. subst. reflexivity. Qed.

Lemma persist_reload_identity :
  forall w, (forall p fi, w_infos w !! p = Some (Some fi) -> fi_name fi = GoPath.base p) ->
  b_persist_reload w = (MOk tt, w).
Proof.
  intros w Hnames. rewrite persist_reload_run.
  assert (Hmap : map_imap (fun p v => Some (option_map (reload_info p) v)) (w_infos w) = w_infos w).
  { apply map_eq. intros p. rewrite map_lookup_imap.
    destruct (w_infos w !! p) as [[fi|]|] eqn:Hp; simpl.
    - rewrite (reload_info_id p fi (Hnames p fi Hp)). reflexivity.
    - reflexivity.
    - reflexivity. }
  rewrite Hmap. rewrite world_eta. reflexivity.
Qed.
