(** The fault laws of Spec/Faults.v for the concrete layered filesystem
    [the_api tag pfx = spy tag (prefixfs pfx osfs)] with the view [Vp pfx]
    (from the definitions of [spied], [faulted], [occurrences], [record]),
    and - with Theorem B (Proofs/LawsOsfs.v) - the closed theorems for
    properties C08 and C09 under a single fault. *)
From stdpp Require Import gmap.
From BFS Require Import Spec.Faults Spec.ViewOsfs.
From BFS Require Import Proofs.LawsOsfsBase Proofs.LawsOsfs.
From BFS Require Import Proofs.RollbackFacts Proofs.AlwaysLib Proofs.LawsOsfsCrash Proofs.FaultLib.

(* ------------------------------------------------------------------ *)
(** * The methods of a layered OS filesystem do not look at the fault plan *)

Lemma fplain_with_outcome {A} (o : outcome) (k : call -> M A) (multi : M A) :
  (forall c, fplain (k c)) -> fplain multi -> fplain (with_outcome o k multi).
Proof. intros Hk Hm. destruct o; [apply Hk | apply fplain_fail | exact Hm]. Qed.

Lemma fplain_os_openfile (p : str) (fl perm : N) : fplain (os_openfile p fl perm).
Proof. unfold os_openfile. apply fplain_bind; [apply fplain_fs_upd | intros h; apply fplain_ret]. Qed.

Lemma fplain_dispatch_unit_osfs (c : call) : fplain (dispatch_unit osfs c).
Proof. unfold dispatch_unit. destruct (c_meth c); cbn [osfs a_mkdir a_mkdirall a_remove a_removeall a_rename
  a_chmod a_chown a_lchown a_chtimes a_symlink]; try apply fplain_fs_upd; apply fplain_fail. Qed.

Lemma fplain_dispatch_info_osfs (c : call) : fplain (dispatch_info osfs c).
Proof. unfold dispatch_info. destruct (c_meth c); cbn [osfs a_stat a_lstat];
  try apply fplain_fs_get; apply fplain_fail. Qed.

Lemma fplain_dispatch_handle_osfs (c : call) : fplain (dispatch_handle osfs c).
Proof. unfold dispatch_handle. destruct (c_meth c); cbn [osfs a_open a_create a_openfile];
  try apply fplain_os_openfile; apply fplain_fail. Qed.

Section FPlainPrefix.
  Variable pfx : str.
  Let b := prefixfs pfx osfs.

  Ltac unit_method :=
    unfold b, prefixfs, layered, layered_with; cbn -[prefix_layer dispatch_unit];
    apply fplain_with_outcome; [apply fplain_dispatch_unit_osfs | apply fplain_fail].
  Ltac info_method :=
    unfold b, prefixfs, layered, layered_with; cbn -[prefix_layer dispatch_info];
    apply fplain_with_outcome; [| apply fplain_fail];
    intros c; apply fplain_bind; [apply fplain_dispatch_info_osfs | intros fi; apply fplain_ret].
  Ltac handle_method :=
    unfold b, prefixfs, layered, layered_with; cbn -[prefix_layer dispatch_handle];
    apply fplain_with_outcome; [| apply fplain_fail];
    intros c; apply fplain_bind; [apply fplain_dispatch_handle_osfs | intros h; apply fplain_ret].

  Lemma fplain_p_lstat p : fplain (a_lstat b p). Proof. info_method. Qed.
  Lemma fplain_p_stat p : fplain (a_stat b p). Proof. info_method. Qed.
  Lemma fplain_p_readlink p : fplain (a_readlink b p).
  Proof.
    unfold b, prefixfs, layered, layered_with; cbn -[prefix_layer].
    apply fplain_with_outcome; [| apply fplain_fail].
    intros c. apply fplain_bind; [apply fplain_fs_get | intros t; apply fplain_ret].
  Qed.
  Lemma fplain_p_open p : fplain (a_open b p). Proof. handle_method. Qed.
  Lemma fplain_p_openfile p fl perm : fplain (a_openfile b p fl perm). Proof. handle_method. Qed.
  Lemma fplain_p_create p : fplain (a_create b p). Proof. handle_method. Qed.
  Lemma fplain_p_mkdir p perm : fplain (a_mkdir b p perm). Proof. unit_method. Qed.
  Lemma fplain_p_mkdirall p perm : fplain (a_mkdirall b p perm). Proof. unit_method. Qed.
  Lemma fplain_p_remove p : fplain (a_remove b p). Proof. unit_method. Qed.
  Lemma fplain_p_removeall p : fplain (a_removeall b p). Proof. unit_method. Qed.
  Lemma fplain_p_rename o n : fplain (a_rename b o n). Proof. unit_method. Qed.
  Lemma fplain_p_chmod p m : fplain (a_chmod b p m). Proof. unit_method. Qed.
  Lemma fplain_p_chown p u g : fplain (a_chown b p u g). Proof. unit_method. Qed.
  Lemma fplain_p_lchown p u g : fplain (a_lchown b p u g). Proof. unit_method. Qed.
  Lemma fplain_p_chtimes p t : fplain (a_chtimes b p t). Proof. unit_method. Qed.
  Lemma fplain_p_symlink t p : fplain (a_symlink b t p). Proof. unit_method. Qed.
End FPlainPrefix.

(* ------------------------------------------------------------------ *)
(** * The fault laws of the concrete filesystem *)

Lemma fplain_spy_handle (t : fstag) (p : str) (m : M fhandle) :
  fplain m -> fplain (h <- m ;; ret (spy_handle t p h)).
Proof. intros Hm. apply fplain_bind; [exact Hm | intros h; apply fplain_ret]. Qed.

Theorem the_api_fault_laws (tag : fstag) (pfx : str) :
  fault_laws (the_api tag pfx) (Vp pfx) tag (rh_p tag pfx) (wh_p tag pfx).
Proof.
  constructor; unfold the_api; cbn [spy a_lstat a_stat a_readlink a_open a_openfile a_create a_mkdir
    a_mkdirall a_remove a_removeall a_rename a_chmod a_chown a_lchown a_chtimes a_symlink].
  - intros w w' E. exact (Vp_st pfx w w' E).
  - intros p. apply spied_fcall. apply fplain_p_lstat.
  - intros p. apply spied_fcall. apply fplain_p_stat.
  - intros p. apply spied_fcall. apply fplain_p_readlink.
  - intros p. apply spied_fcall. apply fplain_spy_handle. apply fplain_p_open.
  - intros p fl perm. apply spied_fcall. apply fplain_spy_handle. apply fplain_p_openfile.
  - intros p. apply spied_fcall. apply fplain_spy_handle. apply fplain_p_create.
  - intros p perm. apply spied_fcall. apply fplain_p_mkdir.
  - intros p perm. apply spied_fcall. apply fplain_p_mkdirall.
  - intros p. apply spied_fcall. apply fplain_p_remove.
  - intros p. apply spied_fcall. apply fplain_p_removeall.
  - intros o n. apply spied_fcall. apply fplain_p_rename.
  - intros p m. apply spied_fcall. apply fplain_p_chmod.
  - intros p u g. apply spied_fcall. apply fplain_p_chown.
  - intros p u g. apply spied_fcall. apply fplain_p_lchown.
  - intros p t. apply spied_fcall. apply fplain_p_chtimes.
  - intros t p. apply spied_fcall. apply fplain_p_symlink.
  - intros h p pos (Hs & _) t q Ht. rewrite Hs in Ht. injection Ht as <- _. reflexivity.
  - intros h p pos (Hs & _) t q Ht. rewrite Hs in Ht. injection Ht as <- _. reflexivity.
  - intros p w w' h Hopen t q Ht.
    rewrite (the_api_handles_spied tag pfx p w w' h Hopen) in Ht. injection Ht as <- _. reflexivity.
Qed.

Print Assumptions the_api_fault_laws.

(* ------------------------------------------------------------------ *)
(** * The closed theorems for the concrete layering (single fault) *)

From BFS Require Import Spec.CopySpecs.
From BFS Require Import Proofs.FaultTry Proofs.FaultRollback.

Section ConcreteFaults.
  Variables pa pb : str.
  Hypothesis Ha : prefix_ok pa.
  Hypothesis Hb : prefix_ok pb.
  Hypothesis Hd : disjoint_prefixes pa pb.

  Let Lb := the_api_laws TBase pa pb Ha Hb Hd.
  Let Lb2 := the_api_laws2 TBase pa pb Ha Hb Hd.
  Let Lk := the_api_laws TBackup pb pa Hb Ha (disjoint_prefixes_sym pa pb Hd).
  Let Fb := the_api_fault_laws TBase pa.
  Let Fk := the_api_fault_laws TBackup pb.

  Local Notation cbase := (cfg_base (gcfg pa pb)).
  Local Notation cbackup := (cfg_backup (gcfg pa pb)).
  Local Notation invf := (InvF (Vp pa) (Vp pb)).

  (** tryBackup under a single fault *)
  Theorem try_backup_fault_concrete :
    forall B0, links_ok clean clean (acc_p pa) (acc_p pb) B0 -> all_small B0 -> swf B0 ->
    forall w p, invf B0 w -> single (w_faults w) -> snolinkpar (Vp pa w) p ->
    exists r w', try_backup cbase cbackup p w = (r, w') /\ r <> MHalt /\ invf B0 w' /\
      w_faults w' = w_faults w /\ Vp pa w' = Vp pa w /\ infos_ext w w' (cands p) /\
      (r = MOk tt -> tracked w' p /\ Forall (tracked w') (ancestors p)) /\
      (spent w -> spent w') /\
      (~ spent w -> spent w' -> (exists e, r = MErr e) \/ ~ no_base_fault TBase w).
  Proof using Ha Hb Hd.
    intros B0 Hl Hs Hwf.
    exact (try_backup_fault (the_api TBase pa) (the_api TBackup pb) (Vp pa) (Vp pb) clean clean
             (acc_p pa) (acc_p pb) (rh_p TBase pa) (rh_p TBackup pb) (wh_p TBase pa) (wh_p TBackup pb) nohid nohid
             B0 TBase TBackup Lb Lk Fb Fk Hl Hs Hwf).
  Qed.

  (** every covered operation under a single fault (C08) *)
  Theorem step_fault_concrete :
    forall B0, links_ok clean clean (acc_p pa) (acc_p pb) B0 -> all_small B0 -> swf B0 ->
    forall o w, invf B0 w -> single (w_faults w) -> covered (Vp pa) o w ->
    exists r w', step cbase cbackup o w = (r, w') /\ r <> MHalt /\ w_crash w' = None /\
      w_faults w' = w_faults w /\
      (kind_stable (Vp pa) w' -> invf B0 w') /\ infos_ext_in w w' (op_touches o) /\
      (spent w -> spent w') /\
      (takes_backup o = true -> no_base_fault TBase w -> ~ spent w -> spent w' ->
       (exists e, r = MErr e) /\ Vp pa w' = Vp pa w).
  Proof using Ha Hb Hd.
    intros B0 Hl Hs Hwf.
    exact (step_fault (the_api TBase pa) (the_api TBackup pb) (Vp pa) (Vp pb) clean clean
             (acc_p pa) (acc_p pb) (rh_p TBase pa) (rh_p TBackup pb) (wh_p TBase pa) (wh_p TBackup pb) nohid nohid
             B0 TBase TBackup Lb Lb2 Lk Fb Fk Hl Hs Hwf).
  Qed.

  (** Rollback under a single fault (C09) *)
  Theorem rollback_fault_concrete :
    forall B0, links_ok clean clean (acc_p pa) (acc_p pb) B0 -> all_small B0 -> swf B0 ->
    forall w, invf B0 w -> single (w_faults w) ->
    exists r w', b_rollback cbase cbackup w = (r, w') /\ r <> MHalt /\ w_crash w' = None /\
      (r = MOk tt -> store_eqv (Vp pa w') B0 /\ (forall p, p <> s_root -> Vp pb w' !! p = None) /\
                     w_infos w' = ∅) /\
      (spent w -> r = MOk tt).
  Proof using Ha Hb Hd.
    intros B0 Hl Hs Hwf.
    exact (rollback_fault (the_api TBase pa) (the_api TBackup pb) (Vp pa) (Vp pb) clean clean
             (acc_p pa) (acc_p pb) (rh_p TBase pa) (rh_p TBackup pb) (wh_p TBase pa) (wh_p TBackup pb) nohid nohid
             B0 TBase TBackup Lb Lk Fb Fk Hl Hs Hwf (loc_ok_nohid B0)).
  Qed.

  (** Rollback under any fault plan: nil only if restored (C09) *)
  Theorem rollback_nil_concrete :
    forall B0, links_ok clean clean (acc_p pa) (acc_p pb) B0 -> all_small B0 -> swf B0 ->
    forall w r w', invf B0 w -> b_rollback cbase cbackup w = (r, w') ->
    r <> MHalt /\
    (r = MOk tt -> store_eqv (Vp pa w') B0 /\ (forall p, p <> s_root -> Vp pb w' !! p = None) /\
                   w_infos w' = ∅).
  Proof using Ha Hb Hd.
    intros B0 Hl Hs Hwf.
    exact (rollback_nil_restored (the_api TBase pa) (the_api TBackup pb) (Vp pa) (Vp pb) clean clean
             (acc_p pa) (acc_p pb) (rh_p TBase pa) (rh_p TBackup pb) (wh_p TBase pa) (wh_p TBackup pb) nohid nohid
             B0 TBase TBackup Lb Lk Fb Fk Hl Hs Hwf (loc_ok_nohid B0)).
  Qed.

  (** a history of covered operations under a single fault, then Rollback (C08 / C01 / C02 / C09) *)
  Theorem run_fault_concrete :
    forall B0, all_small B0 ->
    forall w0 ops w,
      initialF (Vp pa) (Vp pb) clean clean (acc_p pa) (acc_p pb) B0 w0 ->
      good_run cbase cbackup (Vp pa) w0 ops w ->
    invf B0 w /\ recoverable (Vp pa) (Vp pb) B0 w /\
    exists r w', b_rollback cbase cbackup w = (r, w') /\ r <> MHalt /\
      (r = MOk tt -> store_eqv (Vp pa w') B0 /\ (forall p, p <> s_root -> Vp pb w' !! p = None) /\
                     w_infos w' = ∅) /\
      (spent w -> r = MOk tt).
  Proof using Ha Hb Hd.
    intros B0 Hs.
    exact (run_fault (the_api TBase pa) (the_api TBackup pb) (Vp pa) (Vp pb) clean clean
             (acc_p pa) (acc_p pb) (rh_p TBase pa) (rh_p TBackup pb) (wh_p TBase pa) (wh_p TBackup pb) nohid nohid
             B0 TBase TBackup Lb Lb2 Lk Fb Fk Hs).
  Qed.
End ConcreteFaults.

Print Assumptions try_backup_fault_concrete.
Print Assumptions step_fault_concrete.
Print Assumptions rollback_fault_concrete.
Print Assumptions rollback_nil_concrete.
Print Assumptions run_fault_concrete.
