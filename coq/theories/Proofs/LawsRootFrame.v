(** Footprints and frames for the layering of [New]/[NewWithFS]
    (HiddenFS over the OS filesystem itself): the counterpart of
    Proofs/LawsHiddenFrame.v "for the root as prefix".

    - which keys of the world a call of [spy tag osfs] on a resolved path may
      change: the key [comps p] of the path and the key of its parent
      ([fpr s_root], the footprints of Proofs/LawsHiddenFrame.v at the root;
      outside the root there is nothing, so [same_outside s_root] is trivial);
    - a call of the base on a name that is not at or below the location [q]
      leaves the view [Vp q] of the backup filesystem alone ([Vp_q_frame]);
    - a call of the backup filesystem leaves the view [V0H q] of the base
      alone ([V0H_frame]). *)
From stdpp Require Import gmap.
From BFS Require Import Spec.CopySpecs Spec.ViewOsfs Spec.ViewHidden Spec.ViewRoot.
From BFS Require Import Proofs.LawsOsfsBase Proofs.LawsOsfsA Proofs.LawsOsfsB.
From BFS Require Import Proofs.LawsHiddenBase Proofs.LawsHiddenView Proofs.LawsHiddenFrame.
From BFS Require Import Proofs.LawsRootBase Proofs.LawsRootA.
Local Open Scope nat_scope.

(* ------------------------------------------------------------------ *)
(** * Footprints at the root *)

Lemma so_root (f' f : fs) : same_outside s_root f' f.
Proof. intros k Hk. exfalso. apply key_prefixb_false_iff in Hk. apply Hk. exists k. reflexivity. Qed.

Lemma fpo0 (ps : list str) (s' s : fstate) : fp s_root ps s' s -> fpo s_root ps s' s.
Proof. intros H. split; [exact H | apply so_root]. Qed.

Lemma fp_update0 (ps : list str) (s1 s : fstate) (p : str) (n : node) :
  st_fs s1 = st_fs s -> In p ps -> fp s_root ps (update_node s1 (comps p) n) s.
Proof. exact (fp_update s_root ps s1 s p n). Qed.

Lemma fp_remove0 (ps : list str) (s : fstate) (p : str) :
  In p ps -> fp s_root ps (remove_entry s (comps p)) s.
Proof. exact (fp_remove s_root ps s p). Qed.

Lemma fp_moved0 (ps : list str) (s : fstate) (po pn : str) (no : node) :
  In po ps -> In pn ps -> fp s_root ps (moved_leaf s (comps po) (comps pn) no) s.
Proof. exact (fp_moved s_root ps s po pn no). Qed.

Section Methods0.
  Variable tag : fstag.
  Notation A := (spy tag osfs).
  Notation FPR := (fpr s_root).

  Ltac fin_same := unfold fpr, fin, finmap; cbn [fst snd]; apply fpo_refl.
  Ltac fin_upd := unfold fpr, fin, finmap; cbn [fst snd]; apply fpo0; apply fp_update0; [reflexivity | left; reflexivity].
  Ltac fin_add Hc := unfold fpr, fin, finmap; cbn [fst snd]; apply fpo0; apply fp_add0; [left; reflexivity | exact Hc].
  Ltac fin_rem := unfold fpr, fin, finmap; cbn [fst snd]; apply fpo0; apply fp_remove0; left; reflexivity.

  Section One.
  Variable w : world.
  Variable p : str.
  Hypothesis Hq : quiet w.
  Hypothesis Hok : rok (st_fs (w_st w)).
  Hypothesis Hac : abs_cleaned p.
  Set Default Proof Using "Hq Hok Hac".

  (** ** reading *)
  Lemma fpr0_lstat : FPR [p] (a_lstat A p w) w.
  Proof. rewrite (run0_lstat_gen tag w Hq Hok p Hac). fin_same. Qed.
  Lemma fpr0_stat : FPR [p] (a_stat A p w) w.
  Proof. rewrite (run0_stat_gen tag w Hq Hok p Hac). fin_same. Qed.
  Lemma fpr0_readlink : FPR [p] (a_readlink A p w) w.
  Proof. rewrite (run0_readlink_gen tag w Hq Hok p Hac). fin_same. Qed.

  (** ** metadata *)
  Lemma fpr0_chmod (mode : N) : rcase0 w p -> not_link_at (st_fs (w_st w)) (comps p) -> FPR [p] (a_chmod A p mode w) w.
  Proof.
    intros [Hdir | [Hun _]] Hnl.
    - rewrite (run0_chmod tag w Hq Hok p Hac Hdir mode Hnl). dl0 p as [nd |]; [fin_upd | fin_same].
    - destruct (run0_chmod_un tag w Hq Hok p Hac Hun mode) as [e E]. rewrite E. apply fpo_refl.
  Qed.
  Lemma fpr0_chtimes (t : mtime) : rcase0 w p -> not_link_at (st_fs (w_st w)) (comps p) -> FPR [p] (a_chtimes A p t w) w.
  Proof.
    intros [Hdir | [Hun _]] Hnl.
    - rewrite (run0_chtimes tag w Hq Hok p Hac Hdir t Hnl). dl0 p as [nd |]; [fin_upd | fin_same].
    - destruct (run0_chtimes_un tag w Hq Hok p Hac Hun t) as [e E]. rewrite E. apply fpo_refl.
  Qed.
  Lemma fpr0_chown (u g : Z) : rcase0 w p -> not_link_at (st_fs (w_st w)) (comps p) -> FPR [p] (a_chown A p u g w) w.
  Proof.
    intros [Hdir | [Hun _]] Hnl.
    - rewrite (run0_chown tag w Hq Hok p Hac Hdir u g Hnl). dl0 p as [nd |]; [fin_upd | fin_same].
    - destruct (run0_chown_un tag w Hq Hok p Hac Hun u g) as [e E]. rewrite E. apply fpo_refl.
  Qed.
  Lemma fpr0_lchown (u g : Z) : rcase0 w p -> FPR [p] (a_lchown A p u g w) w.
  Proof.
    intros [Hdir | [Hun _]].
    - rewrite (run0_lchown tag w Hq Hok p Hac Hdir u g). dl0 p as [nd |]; [fin_upd | fin_same].
    - destruct (run0_lchown_un tag w Hq Hok p Hac Hun u g) as [e E]. rewrite E. apply fpo_refl.
  Qed.

  (** ** creation *)
  Lemma fpr0_mkdir (perm : N) : rcase0 w p -> FPR [p] (a_mkdir A p perm w) w.
  Proof.
    intros [Hdir | [Hun _]].
    - rewrite (run0_mkdir tag w Hq Hok p Hac Hdir perm). dl0 p as [nd |] eqn:Hnd; [fin_same |].
      fin_add (none_comps_ne _ _ Hok Hnd).
    - destruct (run0_mkdir_un tag w Hq Hok p Hac Hun perm) as [e E]. rewrite E. apply fpo_refl.
  Qed.

  Lemma fpr0_symlink (t : str) : rcase0 w p -> FPR [p] (a_symlink A t p w) w.
  Proof.
    intros Hcase. destruct t as [| x t'].
    { rewrite (run0_symlink_nil tag w p Hq). apply fpo_refl. }
    destruct Hcase as [Hdir | [Hun _]].
    - rewrite (run0_symlink tag w Hq Hok p Hac Hdir (x :: t')) by discriminate.
      dl0 p as [nd |] eqn:Hnd; [fin_same |]. fin_add (none_comps_ne _ _ Hok Hnd).
    - destruct (run0_symlink_un tag w Hq Hok p Hac Hun (x :: t')) as [e E]. rewrite E. apply fpo_refl.
  Qed.

  Lemma fpr0_openfile (fl perm : N) : rcase0 w p ->
    (o_creat fl && o_excl fl = true \/ not_link_at (st_fs (w_st w)) (comps p)) ->
    FPR [p] (a_openfile A p fl perm w) w.
  Proof.
    intros [Hdir | [Hun _]] Hside.
    - rewrite (run0_openfile tag w Hq Hok p Hac Hdir fl perm Hside).
      dl0 p as [[m | m c | m t] |] eqn:Hnd.
      + destruct (o_creat fl && o_excl fl); [fin_same |].
        destruct (o_wronly fl || o_rdwr fl || o_creat fl || o_trunc fl); fin_same.
      + destruct (o_creat fl && o_excl fl); [fin_same |]. destruct (o_trunc fl); [fin_upd | fin_same].
      + destruct (o_creat fl && o_excl fl); fin_same.
      + destruct (o_creat fl); [| fin_same]. fin_add (none_comps_ne _ _ Hok Hnd).
    - destruct (run0_openfile_un tag w Hq Hok p Hac Hun fl perm) as (e & E & _). rewrite E. apply fpo_refl.
  Qed.

  Lemma fpr0_create : rcase0 w p -> not_link_at (st_fs (w_st w)) (comps p) -> FPR [p] (a_create A p w) w.
  Proof.
    intros [Hdir | [Hun _]] Hnl.
    - rewrite (run0_create tag w Hq Hok p Hac Hdir Hnl).
      dl0 p as [[m | m c | m t] |] eqn:Hnd; try fin_same; [fin_upd |]. fin_add (none_comps_ne _ _ Hok Hnd).
    - destruct (run0_create_un tag w Hq Hok p Hac Hun) as [e E]. rewrite E. apply fpo_refl.
  Qed.

  Lemma fpr0_open : rcase0 w p -> not_link_at (st_fs (w_st w)) (comps p) -> FPR [p] (a_open A p w) w.
  Proof.
    intros [Hdir | [Hun _]] Hnl.
    - rewrite (run0_open tag w Hq Hok p Hac Hdir Hnl). dl0 p as [[m | m c | m t] |]; fin_same.
    - destruct (run0_open_un tag w Hq Hok p Hac Hun) as (e & E & _). rewrite E. apply fpo_refl.
  Qed.

  (** ** removal (of the root: EBUSY, nothing changes) *)
  Lemma fpr0_remove : rcase0 w p -> FPR [p] (a_remove A p w) w.
  Proof.
    intros Hcase. destruct (str_eq_dec p s_root) as [-> | Hne].
    { rewrite (run0_remove_root tag w Hq Hok). apply fpo_refl. }
    destruct Hcase as [Hdir | [Hun _]].
    - rewrite (run0_remove tag w Hq Hok p Hac Hdir (comps_ne_root p Hac Hne)).
      dl0 p as [[m | m c | m t] |]; try fin_same; try fin_rem.
      destruct (has_children (st_fs (w_st w)) (comps p)); [fin_same | fin_rem].
    - destruct (run0_remove_un tag w Hq Hok p Hac Hun) as (e & E & _). rewrite E. apply fpo_refl.
  Qed.

  Lemma fpr0_removeall_leaf (nd : node) : p <> s_root -> direct (st_fs (w_st w)) p ->
    st_fs (w_st w) !! comps p = Some nd -> is_dir nd = false -> FPR [p] (a_removeall A p w) w.
  Proof.
    intros Hne Hdir Hnd Hnd'.
    pose proof (wf_nondir_no_children _ _ nd (world_okb_wf _ _ Hok) Hnd Hnd') as Hnc.
    rewrite (run0_removeall tag w Hq Hok p Hac Hdir (comps_ne_root p Hac Hne)). norm_keys. rewrite Hnd. rewrite fin_ok.
    unfold fpr; cbn [snd]. eapply fpo_trans; [| apply fpo0; apply (fp_remove0 [p] (w_st w) p); left; reflexivity].
    apply fpo_same. cbn [st_fs after w_st]. rewrite remove_entry_fs.
    rewrite (delete_subtree_leaf _ _ (proj1 (has_children_false_iff _ _) Hnc)). reflexivity.
  Qed.
  End One.
  Unset Default Proof Using.

  (** ** Rename of an entry without children *)
  Lemma fpr0_rename (w : world) (po pn : str) :
    quiet w -> rok (st_fs (w_st w)) -> abs_cleaned po -> abs_cleaned pn ->
    rcase0 w po -> rcase0 w pn -> has_children (st_fs (w_st w)) (comps po) = false ->
    FPR [po; pn] (a_rename A po pn w) w.
  Proof.
    intros Hq Hok Hao Han Ho Hn Hnc.
    destruct Ho as [Hdo | [Huo _]];
      [| destruct (run0_rename_un tag w Hq Hok po pn Hao Han (or_introl Huo)) as [e E]; rewrite E; apply fpo_refl].
    destruct Hn as [Hdn | [Hun _]];
      [| destruct (run0_rename_un tag w Hq Hok po pn Hao Han (or_intror Hun)) as [e E]; rewrite E; apply fpo_refl].
    destruct (list_eq_dec str_eq_dec (comps po) []) as [Eo | Eo].
    { destruct (run0_rename_root tag w Hq Hok po pn Hao Han Hdo (or_introl Eo)) as [e E]. rewrite E. apply fpo_refl. }
    destruct (list_eq_dec str_eq_dec (comps pn) []) as [En | En].
    { destruct (run0_rename_root tag w Hq Hok po pn Hao Han Hdo (or_intror En)) as [e E]. rewrite E. apply fpo_refl. }
    rewrite (run0_rename_leaf tag w Hq Hok po pn Hao Han Hdo Hdn Eo En Hnc).
    assert (Hmv : forall no, fpo s_root [po; pn] (moved_leaf (w_st w) (comps po) (comps pn) no) (w_st w)).
    { intros no. apply fpo0. apply fp_moved0; [left; reflexivity | right; left; reflexivity]. }
    dl0 po as [no |]; [| fin_same].
    dl0 pn as [nn |].
    - destruct (is_dir nn); [fin_same |]. destruct (str_eqb po pn); [fin_same |].
      destruct (is_dir no); [destruct (key_prefixb (comps po) (comps pn)); fin_same |].
      unfold fpr, fin; cbn [fst snd]. apply Hmv.
    - destruct (is_dir no && key_prefixb (comps po) (comps pn)); [fin_same |].
      unfold fpr, fin; cbn [fst snd]. apply Hmv.
  Qed.

  (** ** MkdirAll *)
  Lemma fpr0_mkdirall (w : world) (p : str) (perm : N) :
    quiet w -> swf (V0 w) -> snolinkpar (V0 w) p -> FPR (cands p) (a_mkdirall A p perm w) w.
  Proof. intros Hq Hwf Hnl. unfold fpr. apply fpo0. exact (fp_mkdirall0 tag w p perm Hq Hwf Hnl). Qed.

  (** ** operations on handles *)
  Lemma fpr0_hwrite (x : fhandle) (p : str) (w : world) (data : list N) :
    quiet w -> fh_spy x = Some (tag, p) -> h_key (fh x) = comps p -> FPR [p] (hwrite x data w) w.
  Proof. intros Hq Hs Hk. apply fpo0. exact (proj1 (fpr_hwrite tag s_root x p w data Hq Hs Hk)). Qed.

  Lemma fpr0_write_close (x : fhandle) (p : str) (w : world) (data : list N) :
    quiet w -> fh_spy x = Some (tag, p) -> h_key (fh x) = comps p -> FPR [p] (write_close x data w) w.
  Proof. intros Hq Hs Hk. apply fpo0. exact (proj1 (fpr_write_close tag s_root x p w data Hq Hs Hk)). Qed.
End Methods0.

(* ------------------------------------------------------------------ *)
(** * The two frames *)

Section Frames0.
  Variable q : str.
  Hypothesis Hh : hidden_ok q.
  Let Hqac : abs_cleaned q := proj1 Hh.
  Let Hk : prefix_ok q := Hh.

  Lemma comps_q_ne : comps q <> [].
  Proof. intros E. apply (proj2 Hh). apply (abs_cleaned_comps_nil q Hqac). exact E. Qed.

  (** the chain keys of a shown path are not at or below the location *)
  Lemma chain_shown_not_below0 (p : str) (k : key) :
    abs_cleaned p -> shownb q p = true -> chainK s_root p k -> key_prefixb (kp q) k = false.
  Proof.
    intros Hac Hs [-> | ->].
    - change (key_prefixb (comps q) (comps p) = false). unfold shownb in Hs.
      destruct (key_prefixb (comps q) (comps p)); [discriminate Hs | reflexivity].
    - change (key_prefixb (comps q) (removelast (comps p)) = false).
      destruct (list_eq_dec str_eq_dec (comps p) []) as [E | E].
      + rewrite E. cbn [removelast]. apply key_prefixb_false_iff. intros [r Er].
        symmetry in Er. apply app_eq_nil in Er. exact (comps_q_ne (proj1 Er)).
      + assert (Hne : p <> s_root) by (intros ->; apply E; apply comps_root).
        pose proof (shownb_ancestor q p (vparent p) Hac Hs (vparent_ancestor p Hac Hne)) as Hsp.
        unfold shownb in Hsp. rewrite (comps_vparent p (proj2 Hac)) in Hsp.
        destruct (key_prefixb (comps q) (removelast (comps p))); [discriminate Hsp | reflexivity].
  Qed.

  (** ** base calls on shown names do not show in the view of the backup filesystem *)
  Lemma Vp_q_frame (ps : list str) (w w' : world) :
    Forall abs_cleaned ps -> Forall (fun p => shownb q p = true) ps ->
    rok (st_fs (w_st w)) -> rok (st_fs (w_st w')) ->
    fp s_root ps (w_st w') (w_st w) -> Vp q w' = Vp q w.
  Proof.
    intros Hacs Hss Hok Hok' Hfp.
    assert (Hag : forall k, key_prefixb (kp q) k = true -> st_fs (w_st w') !! k = st_fs (w_st w) !! k).
    { intros k Hb. apply Hfp. intros p Hin Hc.
      rewrite List.Forall_forall in Hacs, Hss.
      rewrite (chain_shown_not_below0 p k (Hacs p Hin) (Hss p Hin) Hc) in Hb. discriminate Hb. }
    unfold Vp. rewrite (world_okb_is_dirb s_root q _ Hok), (world_okb_is_dirb s_root q _ Hok').
    unfold is_dirb. rewrite (Hag _ (key_prefixb_refl (kp q))).
    destruct (st_fs (w_st w) !! kp q) as [[m | m c | m t] |]; try reflexivity.
    apply view_of_agree; [eapply world_okb_keys_good; exact Hok | eapply world_okb_keys_good; exact Hok' | exact Hag].
  Qed.

  (** the location as a directory of the whole view, from the view of the backup filesystem *)
  Lemma okb_q_root (f : fs) : world_okb q f = true -> rok f.
  Proof.
    intros H. apply (world_okb_other q s_root f H).
    pose proof (world_okb_prefix_dir _ _ H) as [m Hm].
    exact (wf_prefix_dir f [] (kp q) (Dir m) (world_okb_wf _ _ H) comps_q_ne Hm).
  Qed.

  Lemma okb_q_sdir (w : world) : world_okb q (st_fs (w_st w)) = true -> sdir (V0 w) q.
  Proof.
    intros H. pose proof (world_okb_prefix_dir _ _ H) as [m Hm]. exists m.
    rewrite (V0_lookup w q (okb_q_root _ H) Hqac). exact Hm.
  Qed.

  (** ** calls of the backup filesystem do not show in the view of the base *)
  Lemma V0H_FH (w : world) : V0H q w = FH q (V0 w).
  Proof. reflexivity. Qed.

  Lemma V0H_frame (w w' : world) :
    world_okb q (st_fs (w_st w)) = true -> world_okb q (st_fs (w_st w')) = true ->
    same_outside q (st_fs (w_st w')) (st_fs (w_st w)) ->
    V0H q w' = V0H q w.
  Proof.
    intros Hok Hok' Hso.
    pose proof (okb_q_root _ Hok) as Hr. pose proof (okb_q_root _ Hok') as Hr'.
    pose proof (okb_q_sdir w Hok) as Hd. pose proof (okb_q_sdir w' Hok') as Hd'.
    rewrite !V0H_FH. apply map_eq. intros p.
    rewrite (FH_lookup q (V0 w') p Hd'), (FH_lookup q (V0 w) p Hd).
    destruct (shownb q p) eqn:Hs; [| reflexivity].
    destruct (abs_cleaned_dec p) as [Hac | Hnac].
    - rewrite (V0_lookup w' p Hr' Hac), (V0_lookup w p Hr Hac).
      apply Hso. change (key_prefixb (comps q) (comps p) = false). unfold shownb in Hs.
      destruct (key_prefixb (comps q) (comps p)); [discriminate Hs | reflexivity].
    - rewrite (V0_ok w' Hr'), (V0_ok w Hr).
      rewrite (rview_lookup_not_ac _ p (rok_keys_good _ Hr') Hnac).
      rewrite (rview_lookup_not_ac _ p (rok_keys_good _ Hr) Hnac). reflexivity.
  Qed.
End Frames0.
