(** [tryBackup] and the covered operations in a world with a single fault
    (properties C08 / C01 / C02 under faults): whatever primitive call is
    refused, the transaction invariant survives ([InvF] of Spec/Faults.v);
    [tryBackup] never changes the base view; a refused call on the backup
    filesystem makes the operation return an error with the base untouched.

    The proofs walk the computations once more (as Proofs/AlwaysTry.v does
    for crash points): the copying helpers are executed exactly as without
    fault plan, or stop with an error in a state in which only the entry
    being written may be there, incomplete ([fstrict], [fmid]); [tryBackup]
    then removes that entry - with a single fault the cleanup cannot be
    refused any more. *)
From stdpp Require Import gmap.
From BFS Require Import Spec.Faults.
From BFS Require Import Path.PathSpec.
From BFS Require Import Proofs.PathFacts Proofs.C19Facts Proofs.RollbackFacts Proofs.FsFacts
                        Proofs.BackupCopy Proofs.BackupTry Proofs.BackupRollback Proofs.BackupC01
                        Proofs.AlwaysLib Proofs.AlwaysTry Proofs.FaultLib.

Definition Tany : fstag -> Prop := fun _ => True.

Lemma fcall_any_tag {A} (tag : fstag) (m : M A) : fcall (eq tag) m -> fcall Tany m.
Proof. apply fcall_weaken. intros t _. exact I. Qed.

(* ------------------------------------------------------------------ *)
(** * The copying helpers *)

Section FCopy.
  Variables a a' : fsapi.
  Variables V V' : world -> store.
  Variables tn tn' : str -> str.
  Variables acc acc' : str -> str -> Prop.
  Variables rh rh' wh wh' : fhandle -> str -> nat -> Prop.
  Variables hid hid' anc anc' : str -> Prop.
  Variables tag tag' : fstag.
  Hypothesis HLa : api_laws a V V' tn acc rh wh hid anc.
  Hypothesis HLa' : api_laws a' V' V tn' acc' rh' wh' hid' anc'.
  Hypothesis HFa : fault_laws a V tag rh wh.
  Hypothesis HFa' : fault_laws a' V' tag' rh' wh'.

  Variable fl : list fault.

  (** since [w] only this filesystem changed, only at [p], it is well formed,
      and what is at [p] satisfies [K] *)
  Definition fmid (K : option node -> Prop) (w : world) (p : str) (wq : world) : Prop :=
    step_post V V' w wq [p] /\ K (V wq !! p).

  Variable K : option node -> Prop.

  Lemma fmid_refl (w : world) (p : str) : swf (V w) -> K (V w !! p) -> fmid K w p w.
  Proof.
    intros Hwf HK. split; [| exact HK].
    split; [apply same_rest_refl | split; [exact Hwf | apply store_eqv_except_refl]].
  Qed.

  Lemma fmid_read (w w1 w2 : world) (p : str) :
    fmid K w p w1 -> same_rest V' w1 w2 -> V w2 = V w1 -> fmid K w p w2.
  Proof.
    intros ((Hs & Hwf & He) & HK) Hs2 HV. rewrite <- HV in Hwf, He, HK.
    split; [| exact HK]. split; [eapply same_rest_trans; eassumption | split; assumption].
  Qed.

  Lemma fmid_upd (w w1 w2 : world) (p : str) (n' : node) :
    step_post V V' w w1 [p] -> upd_res V V' w1 w2 p n' -> swf (V w2) -> K (Some n') -> fmid K w p w2.
  Proof.
    intros (Hs1 & _ & He1) [Hs2 HV2] Hwf HK. split.
    - split; [eapply same_rest_trans; eassumption | split; [exact Hwf |]]. rewrite HV2.
      eapply store_eqv_except_trans; [apply store_eqv_except_insert | exact He1].
    - rewrite HV2, lookup_insert. exact HK.
  Qed.

  Lemma at_node_swf (w : world) (p : str) (n : node) : at_node V w p n -> swf (V w).
  Proof. intros (_ & H & _). exact H. Qed.

  Local Notation fs := (fstrict Tany).

  (** ** [chown from name fs] under [ignore_permission] *)
  Lemma chown_to_strict (I : world -> Prop) (w : world) (p : str) (n : node) (info : finfo) :
    at_node V w p n -> I w -> (forall w1, same_rest V' w w1 -> V w1 = V w -> I w1) ->
    fs I (ignore_permission (chown_to a info p)) w fl.
  Proof.
    intros Hat HI Hread.
    destruct (lstat_step a V V' tn acc rh wh hid anc HLa w p n Hat) as (old & w1 & Hrun1 & Hsr1 & HV1 & _).
    apply fstrict_ignore_permission. unfold chown_to.
    eapply fstrict_bind_ok; [exact Hrun1 | |].
    - apply fstrict_call; [apply (fcall_any_tag tag); apply (flaw_lstat _ _ _ _ _ HFa) | exact (at_node_quiet V w p n Hat) | exact HI].
    - apply fstrict_if_call; [apply (fcall_any_tag tag); apply (flaw_chown _ _ _ _ _ HFa) | | exact (Hread w1 Hsr1 HV1)].
      exact (quiet_same_rest V' w w1 (at_node_quiet V w p n Hat) Hsr1).
  Qed.

  (** ** [copy_dir] *)
  Lemma copy_dir_strict (w : world) (p : str) (fi : finfo) :
    quiet w -> swf (V w) -> sdirect (V w) p -> p <> s_root -> fi_kind fi = KDir ->
    (0 <= fi_uid fi)%Z -> (0 <= fi_gid fi)%Z ->
    (V w !! p = None \/ sdir (V w) p) ->
    K (V w !! p) -> (forall m, K (Some (Dir m))) -> ~ hid p ->
    fs (fmid K w p) (copy_dir a p fi) w fl.
  Proof.
    intros Hq Hwf Hdir Hne Hk Hu Hg Hcase HK0 HKd Hnh.
    destruct (mkdirall_step a V V' tn acc rh wh hid anc HLa w p (perm9 fi) Hq Hwf Hdir Hcase Hnh)
      as (w1 & m1 & Hrun1 & Hpost1 & Hp1).
    pose proof Hpost1 as (Hsr01 & Hwf1 & He01).
    assert (Hat1 : at_node V w1 p (Dir m1)).
    { split; [| split]; [| exact Hwf1 | exact Hp1]. eapply quiet_same_rest; eassumption. }
    destruct (lstat_step a V V' tn acc rh wh hid anc HLa w1 p (Dir m1) Hat1)
      as (nfi & w2 & Hrun2 & Hsr2 & HV2 & Him2 & Hmt2).
    pose proof (read_at_node V V' w1 w2 p _ Hat1 Hsr2 HV2) as Hat2.
    destruct Him2 as (_ & Hperm2 & _).
    destruct (fix_mode_step a V V' tn acc rh wh hid anc HLa w2 p (Dir m1) nfi fi Hat2 (not_is_link_dir m1) Hperm2)
      as (w3 & Hrun3 & Hupd3).
    set (n3 := with_meta (Dir m1) (set_perm (mode12 fi))) in *.
    assert (Hat3 : at_node V w3 p n3).
    { eapply upd_at_node; [exact Hat2 | exact Hupd3 | reflexivity |].
      unfold n3, perm12, mode12. simpl. rewrite !land4095_idem. reflexivity. }
    destruct (fix_mt_step a V V' tn acc rh wh hid anc HLa w3 p n3 nfi fi Hat3 (not_is_link_dir _) Hmt2)
      as (w4 & Hrun4 & Hupd4).
    set (n4 := with_meta n3 (set_mt (fi_mt fi))) in *.
    assert (Hat4 : at_node V w4 p n4).
    { eapply upd_at_node; [exact Hat3 | exact Hupd4 | reflexivity |].
      unfold n4, n3, perm12, mode12. simpl. rewrite !land4095_idem. reflexivity. }
    assert (Hm1 : fmid K w p w1) by (split; [exact Hpost1 | rewrite Hp1; apply HKd]).
    assert (Hm2 : fmid K w p w2) by (exact (fmid_read w w1 w2 p Hm1 Hsr2 HV2)).
    assert (Hupd13 : upd_res V V' w1 w3 p n3).
    { eapply upd_res_trans; [| exact Hupd3]. apply upd_res_read; [exact Hp1 | exact Hsr2 | exact HV2]. }
    assert (Hm3 : fmid K w p w3).
    { exact (fmid_upd w w1 w3 p n3 Hpost1 Hupd13 (at_node_swf _ _ _ Hat3) (HKd _)). }
    assert (Hupd14 : upd_res V V' w1 w4 p n4) by (eapply upd_res_trans; eassumption).
    assert (Hm4 : fmid K w p w4).
    { exact (fmid_upd w w1 w4 p n4 Hpost1 Hupd14 (at_node_swf _ _ _ Hat4) (HKd _)). }
    rewrite (copy_dir_unfold a p fi Hk Hne). apply fstrict_wrap_other.
    eapply fstrict_bind_ok; [exact Hrun1 | |].
    { apply fstrict_call; [apply (fcall_any_tag tag); apply (flaw_mkdirall _ _ _ _ _ HFa) | exact Hq |].
      apply fmid_refl; assumption. }
    eapply fstrict_bind_ok; [exact Hrun2 | |].
    { apply fstrict_call; [apply (fcall_any_tag tag); apply (flaw_lstat _ _ _ _ _ HFa) | exact (at_node_quiet V _ _ _ Hat1) | exact Hm1]. }
    eapply fstrict_bind_ok; [exact Hrun3 | |].
    { apply fstrict_if_call; [apply (fcall_any_tag tag); apply (flaw_chmod _ _ _ _ _ HFa) | exact (at_node_quiet V _ _ _ Hat2) | exact Hm2]. }
    eapply fstrict_bind_ok; [exact Hrun4 | |].
    { destruct (negb (mtime_eqb (fi_mt nfi) (fi_mt fi))); [| apply fstrict_ret; exact (at_node_quiet V _ _ _ Hat3)].
      apply fstrict_ignore_permission.
      apply fstrict_call; [apply (fcall_any_tag tag); apply (flaw_chtimes _ _ _ _ _ HFa) | exact (at_node_quiet V _ _ _ Hat3) | exact Hm3]. }
    apply (chown_to_strict _ w4 p n4 fi Hat4 Hm4).
    intros w5 Hsr5 HV5. exact (fmid_read w w4 w5 p Hm4 Hsr5 HV5).
  Qed.

  (** ** the copy loop *)
  Definition fcopying (c : list N) (perm : N) (w : world) (p : str) (wq : world) : Prop :=
    same_rest V' w wq /\ exists m' pos', V wq = <[p := File m' (firstn pos' c)]> (V w) /\ m_perm m' = perm.

  Lemma fcopying_trans (c : list N) (perm : N) (w w1 wq : world) (p : str) :
    fcopying c perm w p w1 -> fcopying c perm w1 p wq -> fcopying c perm w p wq.
  Proof.
    intros (Hs1 & m1 & pos1 & HV1 & _) (Hs2 & m2 & pos2 & HV2 & Hp2).
    split; [eapply same_rest_trans; eassumption |]. exists m2, pos2.
    split; [rewrite HV2, HV1; apply insert_insert | exact Hp2].
  Qed.

  Lemma io_copy_strict : forall (fuel : nat) (w : world) (dst src : fhandle) (p ps : str)
                                (pos : nat) (m ms : meta) (c : list N),
    quiet w -> V w !! p = Some (File m (firstn pos c)) -> (pos <= length c)%nat ->
    wh dst p pos -> rh' src ps pos -> V' w !! ps = Some (File ms c) ->
    fs (fcopying c (m_perm m) w p) (io_copy fuel dst src) w fl.
  Proof.
    induction fuel as [|fuel IH]; intros w dst src p ps pos m ms c Hq Hp Hpos Hwh Hrh Hps.
    { apply fstrict_fail. exact Hq. }
    assert (Hself : fcopying c (m_perm m) w p w).
    { split; [apply same_rest_refl |]. exists m, pos. split; [symmetry; apply insert_id; exact Hp | reflexivity]. }
    simpl io_copy.
    pose proof (law_hread _ _ _ _ _ _ _ _ _ HLa' w src ps pos ms c Hq Hrh Hps) as Hread.
    destruct (skipn pos c) as [|x rest] eqn:Hskip.
    - destruct Hread as (h' & w1 & Hrun & HV'1 & Hsr1).
      eapply fstrict_bind_ok; [exact Hrun | |].
      + apply fstrict_call; [apply fcall_hread; apply any_tag | exact Hq | exact Hself].
      + cbn [fst]. apply fstrict_ret. exact (quiet_same_rest V w w1 Hq Hsr1).
    - destruct Hread as (h' & (w1 & Hrun & HV'1 & Hsr1) & Hrh').
      rewrite <- Hskip in *.
      set (data := firstn chunk_size (skipn pos c)) in *.
      destruct (same_rest_swap V V' w w1 HV'1 Hsr1) as [HV1 Hsr1'].
      pose proof (quiet_same_rest V' w w1 Hq Hsr1') as Hq1.
      assert (Hp1 : V w1 !! p = Some (File m (firstn pos c))) by (rewrite HV1; exact Hp).
      assert (Hlen : length (firstn pos c) = pos) by (apply firstn_length_le; exact Hpos).
      destruct (law_hwrite _ _ _ _ _ _ _ _ _ HLa w1 dst p pos m (firstn pos c) data Hq1 Hwh Hp1 Hlen)
        as (h2 & t' & (w2 & Hrun2 & HV2 & Hsr2) & Hwh2).
      pose proof (quiet_same_rest V' w1 w2 Hq1 Hsr2) as Hq2.
      assert (Hp2 : V w2 !! p = Some (File (set_mt t' m) (firstn (pos + length data) c))).
      { rewrite HV2, lookup_insert. unfold data. rewrite firstn_chunk_step. reflexivity. }
      assert (Hps2 : V' w2 !! ps = Some (File ms c)).
      { rewrite (proj1 Hsr2), HV'1. exact Hps. }
      assert (Hpos2 : (pos + length data <= length c)%nat).
      { unfold data. rewrite firstn_length, skipn_length. lia. }
      assert (Hc1 : fcopying c (m_perm m) w p w1).
      { split; [exact Hsr1' |]. exists m, pos. split; [rewrite HV1; symmetry; apply insert_id; exact Hp | reflexivity]. }
      assert (Hc2 : fcopying c (m_perm m) w p w2).
      { apply (fcopying_trans c (m_perm m) w w1 w2 p Hc1). split; [exact Hsr2 |].
        exists (set_mt t' m), (pos + length data)%nat. split; [| reflexivity]. rewrite HV2.
        unfold data. rewrite firstn_chunk_step. reflexivity. }
      eapply fstrict_bind_ok; [exact Hrun | |].
      + apply fstrict_call; [apply fcall_hread; apply any_tag | exact Hq | exact Hself].
      + cbn [fst snd]. eapply fstrict_bind_ok; [exact Hrun2 | |].
        * apply fstrict_call; [apply fcall_hwrite; apply any_tag | exact Hq1 | exact Hc1].
        * eapply fstrict_mono; [| exact (IH w2 h2 h' p ps (pos + length data)%nat (set_mt t' m) ms c
                                           Hq2 Hp2 Hpos2 Hwh2 Hrh' Hps2)].
          intros xq Hx. exact (fcopying_trans c (m_perm m) w w2 xq p Hc2 Hx).
  Qed.

  (** after an error of the first stage a handle is closed and the error returned *)
  Lemma fstrict_try_close {A} (I : world -> Prop) (m : M A) (h : fhandle) wq fl0
        (g : res A -> res unit -> M unit) :
    fstrict Tany I m wq fl0 ->
    (forall e c, g (Err e) c = fail e) ->
    (forall x w1, try_ m wq = (MOk x, w1) -> quiet w1 ->
       fstrict Tany I (c <- try_ (hclose h) ;; g x c) w1 fl0) ->
    fstrict Tany I (r <- try_ m ;; c <- try_ (hclose h) ;; g r c) wq fl0.
  Proof.
    intros [(r & w1 & Hrun & Hn & Hq1 & Hrunf & Hsp) | (e & w' & Hrun & Hh & Hc' & Hf' & Hns & Hs1 & Hex & ws & HI & Hqs & Hsim)] Hg Hcont.
    - assert (Htry : exists x, try_ m wq = (MOk x, w1) /\ try_ m (set_faults wq fl0) = (MOk x, set_faults w1 fl0)).
      { unfold try_. rewrite Hrun, Hrunf. destruct r as [a0 | e |]; [| | contradiction Hn; reflexivity];
          eexists; split; reflexivity. }
      destruct Htry as (x & Htq & Htf).
      apply fstrict_bind_ok with (w1 := w1) (a := x); [exact Htq | | exact (Hcont x w1 Htq Hq1)].
      left. exists (MOk x), w1. split; [exact Htq | split; [discriminate | split; [exact Hq1 | split; [exact Htf | exact Hsp]]]].
    - right. destruct (try_hclose_any h w' Hc') as (x & w'' & Hcl & Hsim2 & Hc'' & Hf'' & Hsp2).
      exists e, w''. unfold bind at 1. unfold try_ at 1. rewrite Hrun. unfold bind. rewrite Hcl. rewrite Hg.
      split; [reflexivity |]. split; [exact Hh |]. split; [exact Hc'' |]. split; [congruence |].
      split; [exact Hns |]. split; [intros Hsi; apply Hsp2; exact (Hs1 Hsi) |]. split; [exact Hex |].
      exists ws. split; [exact HI | split; [exact Hqs | exact (sim_trans ws w' w'' Hsim Hsim2)]].
  Qed.

  (** a call whose error is caught and returned as it is *)
  Lemma fstrict_try_reraise {A B} (I : world -> Prop) (m : M A) (g : res A -> M B) wq fl0 :
    fstrict Tany I m wq fl0 -> (forall e, g (Err e) = fail e) -> (forall x, fplain (g x)) ->
    fstrict Tany I (r <- try_ m ;; g r) wq fl0.
  Proof.
    intros [(r & w1 & Hrun & Hn & Hq1 & Hrunf & Hsp) | (e & w' & Hrun & Hrest)] Hg Hp.
    - assert (Htry : exists x, try_ m wq = (MOk x, w1) /\ try_ m (set_faults wq fl0) = (MOk x, set_faults w1 fl0)).
      { unfold try_. rewrite Hrun, Hrunf. destruct r as [a0 | e |]; [| | contradiction Hn; reflexivity];
          eexists; split; reflexivity. }
      destruct Htry as (x & Htq & Htf).
      apply fstrict_bind_ok with (w1 := w1) (a := x); [exact Htq | | apply fstrict_plain; [apply Hp | exact Hq1]].
      left. exists (MOk x), w1. split; [exact Htq | split; [discriminate | split; [exact Hq1 | split; [exact Htf | exact Hsp]]]].
    - right. exists e, w'. unfold bind, try_. rewrite Hrun. rewrite Hg. split; [reflexivity | exact Hrest].
  Qed.

  (** ** [write_file], [copy_file] *)
  Lemma write_file_strict (w : world) (p : str) (perm : N) (src : fhandle) (ps : str)
        (ms : meta) (c : list N) :
    quiet w -> swf (V w) -> sdirect (V w) p ->
    (V w !! p = None \/ exists m0 c0, V w !! p = Some (File m0 c0)) ->
    rh' src ps 0 -> V' w !! ps = Some (File ms c) -> small c ->
    K (V w !! p) -> (forall m' c', is_prefix c' c -> K (Some (File m' c'))) -> ~ hid p ->
    fs (fmid K w p) (write_file a p perm src) w fl.
  Proof.
    intros Hq Hwf Hdir Hcase Hrh Hps Hsmall HK0 HKf Hnh.
    destruct (openfile_step a V V' tn acc rh wh hid anc HLa w p perm Hq Hwf Hdir Hcase Hnh)
      as (file & w1 & m1 & Hrun1 & Hwh & Hpost1 & Hp1).
    pose proof Hpost1 as (Hsr01 & Hwf1 & He01).
    assert (Hat1 : at_node V w1 p (File m1 [])).
    { split; [| split]; [| exact Hwf1 | exact Hp1]. eapply quiet_same_rest; eassumption. }
    assert (Hps1 : V' w1 !! ps = Some (File ms c)).
    { destruct Hpost1 as ((HV'1 & _) & _). rewrite HV'1. exact Hps. }
    assert (Hfuel1 : (1 <= tree_fuel)%nat) by (unfold tree_fuel; lia).
    assert (Hfuel2 : (length c - 0 <= chunk_size * (tree_fuel - 1))%nat).
    { unfold small in Hsmall.
      assert (Hmono : (chunk_size * (tree_fuel - 2) <= chunk_size * (tree_fuel - 1))%nat).
      { apply Nat.mul_le_mono_l. lia. }
      lia. }
    destruct (io_copy_spec a a' V V' tn tn' acc acc' rh rh' wh wh' hid hid' anc anc' HLa HLa'
                tree_fuel w1 file src p ps 0 m1 ms c (proj1 Hat1) Hp1
                ltac:(lia) Hwh Hrh Hps1 Hfuel1 Hfuel2)
      as (w2 & m2 & Hrun2 & Hsr2 & HV2 & Hperm2).
    assert (Hupd2 : upd_res V V' w1 w2 p (File m2 c)) by (split; [exact Hsr2 | exact HV2]).
    pose proof (quiet_same_rest V' w1 w2 (proj1 Hat1) Hsr2) as Hq2.
    pose proof (swf_lookup_perm12 _ _ _ Hwf1 Hp1) as H12_1.
    assert (Hcopy : forall wq, fcopying c (m_perm m1) w1 p wq -> fmid K w p wq).
    { intros wq (Hs & m' & pos' & HVq & Hpm).
      apply (fmid_upd w w1 wq p (File m' (firstn pos' c)) Hpost1); [split; assumption | |].
      - rewrite HVq. apply (swf_insert (V w1) p (File m1 []) (File m' (firstn pos' c)) Hwf1 Hp1 eq_refl).
        unfold perm12 in H12_1 |- *. simpl in H12_1 |- *. rewrite Hpm. exact H12_1.
      - apply HKf. apply firstn_is_prefix. }
    assert (Hm2 : fmid K w p w2).
    { apply Hcopy. split; [exact Hsr2 |]. exists m2, (length c). rewrite firstn_all. split; [exact HV2 | exact Hperm2]. }
    unfold write_file.
    eapply fstrict_bind_ok; [exact Hrun1 | |].
    { apply fstrict_call; [apply (fcall_any_tag tag); apply (flaw_openfile _ _ _ _ _ HFa) | exact Hq | apply fmid_refl; assumption]. }
    apply (fstrict_try_close (fmid K w p) (io_copy tree_fuel file src) file w1 fl
             (fun r c => match r, c with
                         | Err e, _ => fail e
                         | Ok _, Err e => fail e
                         | Ok _, Ok _ => ret tt
                         end)).
    - eapply fstrict_mono; [exact Hcopy |].
      exact (io_copy_strict tree_fuel w1 file src p ps 0 m1 ms c (proj1 Hat1) Hp1 ltac:(lia) Hwh Hrh Hps1).
    - intros e cc. reflexivity.
    - intros x wx Htry Hqx. rewrite (try_ok _ w1 w2 tt Hrun2) in Htry. injection Htry as <- <-.
      apply (fstrict_try_reraise (fmid K w p) (hclose file)
               (fun c => match c with Err e => fail e | Ok _ => ret tt end) w2 fl).
      + apply fstrict_call; [apply fcall_hclose; apply any_tag | exact Hq2 | exact Hm2].
      + intros e. reflexivity.
      + intros [u | e]; [apply fplain_ret | apply fplain_fail].
  Qed.

  Lemma copy_file_strict (w : world) (p : str) (fi : finfo) (src : fhandle) (ps : str)
        (ms : meta) (c : list N) :
    quiet w -> swf (V w) -> swf (V' w) -> sdirect (V w) p -> fi_kind fi = KFile ->
    (0 <= fi_uid fi)%Z -> (0 <= fi_gid fi)%Z ->
    (V w !! p = None \/ exists m0 c0, V w !! p = Some (File m0 c0)) ->
    rh' src ps 0 -> V' w !! ps = Some (File ms c) -> small c ->
    K (V w !! p) -> (forall m' c', is_prefix c' c -> K (Some (File m' c'))) -> ~ hid p ->
    fs (fmid K w p) (copy_file a p fi src) w fl.
  Proof.
    intros Hq Hwf Hwf' Hdir Hk Hu Hg Hcase Hrh Hps Hsmall HK0 HKf Hnh.
    assert (HKc : forall m', K (Some (File m' c))) by (intros m'; apply HKf; apply is_prefix_refl).
    destruct (write_file_spec a a' V V' tn tn' acc acc' rh rh' wh wh' hid hid' anc anc' HLa HLa'
                w p (perm9 fi) src ps ms c Hq Hwf Hdir Hcase Hrh Hps Hsmall Hnh)
      as (w1 & m1 & Hrun1 & Hpost1 & Hat1).
    pose proof Hpost1 as (Hsr01 & Hwf1 & He01).
    destruct (chown_to_step a V V' tn acc rh wh hid anc HLa w1 p (File m1 c) fi Hat1 (not_is_link_file _ _) Hu Hg)
      as (w2 & n2 & Hrun2 & Hupd2 & Hn2 & Huid2 & Hgid2).
    assert (Hn2' : exists m2, n2 = File m2 c /\ perm12 n2).
    { pose proof (swf_lookup_perm12 _ _ _ (proj1 (proj2 Hat1)) (proj2 (proj2 Hat1))) as H12.
      destruct Hn2 as [-> | ->].
      - exists m1. split; [reflexivity | exact H12].
      - eexists. split; [reflexivity |]. apply (chown_node_perm12 (File m1 c)). exact H12. }
    destruct Hn2' as (m2 & -> & H12).
    pose proof (upd_at_node V V' w1 w2 p _ _ Hat1 Hupd2 eq_refl H12) as Hat2.
    destruct (lstat_step a V V' tn acc rh wh hid anc HLa w2 p (File m2 c) Hat2)
      as (nfi & w3 & Hrun3 & Hsr3 & HV3 & Him3 & Hmt3).
    pose proof (read_at_node V V' w2 w3 p _ Hat2 Hsr3 HV3) as Hat3.
    destruct Him3 as (_ & Hperm3 & _).
    destruct (fix_mode_step a V V' tn acc rh wh hid anc HLa w3 p (File m2 c) nfi fi Hat3 (not_is_link_file _ _) Hperm3)
      as (w4 & Hrun4 & Hupd4).
    set (n4 := with_meta (File m2 c) (set_perm (mode12 fi))) in *.
    assert (H12_4 : perm12 n4).
    { unfold n4, perm12, mode12. simpl. rewrite !land4095_idem. reflexivity. }
    pose proof (upd_at_node V V' w3 w4 p _ _ Hat3 Hupd4 eq_refl H12_4) as Hat4.
    assert (Hm1 : fmid K w p w1).
    { split; [exact Hpost1 |]. rewrite (proj2 (proj2 Hat1)). apply HKc. }
    assert (Hm2 : fmid K w p w2).
    { exact (fmid_upd w w1 w2 p (File m2 c) Hpost1 Hupd2 (at_node_swf _ _ _ Hat2) (HKc _)). }
    assert (Hm3 : fmid K w p w3) by (exact (fmid_read w w2 w3 p Hm2 Hsr3 HV3)).
    assert (Hupd14 : upd_res V V' w1 w4 p n4).
    { eapply upd_res_trans; [| exact Hupd4]. eapply upd_res_trans; [exact Hupd2 |].
      apply upd_res_read; [exact (proj2 (proj2 Hat2)) | exact Hsr3 | exact HV3]. }
    assert (Hm4 : fmid K w p w4).
    { apply (fmid_upd w w1 w4 p n4 Hpost1 Hupd14 (at_node_swf _ _ _ Hat4)). unfold n4. simpl. apply HKc. }
    unfold copy_file. rewrite Hk. apply fstrict_wrap_other.
    eapply fstrict_bind_ok; [exact Hrun1 | |].
    { exact (write_file_strict w p (perm9 fi) src ps ms c Hq Hwf Hdir Hcase Hrh Hps Hsmall HK0 HKf Hnh). }
    eapply fstrict_bind_ok; [exact Hrun2 | |].
    { apply (chown_to_strict _ w1 p (File m1 c) fi Hat1 Hm1).
      intros wx Hsrx HVx. exact (fmid_read w w1 wx p Hm1 Hsrx HVx). }
    eapply fstrict_bind_ok; [exact Hrun3 | |].
    { apply fstrict_call; [apply (fcall_any_tag tag); apply (flaw_lstat _ _ _ _ _ HFa) | exact (at_node_quiet V _ _ _ Hat2) | exact Hm2]. }
    eapply fstrict_bind_ok; [exact Hrun4 | |].
    { apply fstrict_if_call; [apply (fcall_any_tag tag); apply (flaw_chmod _ _ _ _ _ HFa) | exact (at_node_quiet V _ _ _ Hat3) | exact Hm3]. }
    destruct (negb (mtime_eqb (fi_mt nfi) (fi_mt fi))); [| apply fstrict_ret; exact (at_node_quiet V _ _ _ Hat4)].
    apply fstrict_ignore_permission.
    apply fstrict_call; [apply (fcall_any_tag tag); apply (flaw_chtimes _ _ _ _ _ HFa) | exact (at_node_quiet V _ _ _ Hat4) | exact Hm4].
  Qed.

  (** ** [copy_symlink] *)
  Lemma copy_symlink_strict (w : world) (p : str) (fi : finfo) (ms : meta) (t : str) :
    quiet w -> swf (V w) -> swf (V' w) -> snolinkpar (V' w) p -> V' w !! p = Some (Link ms t) ->
    sdirect (V w) p -> V w !! p = None -> fi_kind fi = KLink ->
    t <> [] -> acc t p ->
    K None -> (forall m', K (Some (Link m' (tn t)))) -> ~ hid p ->
    fs (fmid K w p) (copy_symlink a' a p fi) w fl.
  Proof.
    intros Hq Hwf Hwf' Hnlp' Hlink Hdir Hnone Hk Htne Hacc HK0 HKl Hnh.
    destruct (law_readlink _ _ _ _ _ _ _ _ _ HLa' w p ms t Hq Hwf' Hnlp' Hlink)
      as (w1 & Hrun1 & HV'1 & Hsr1).
    destruct (same_rest_swap V V' w w1 HV'1 Hsr1) as [HV1 Hsr1'].
    pose proof (quiet_same_rest V' w w1 Hq Hsr1') as Hq1.
    assert (Hwf1 : swf (V w1)) by (rewrite HV1; exact Hwf).
    assert (Hdir1 : sdirect (V w1) p) by (rewrite HV1; exact Hdir).
    assert (Hnone1 : V w1 !! p = None) by (rewrite HV1; exact Hnone).
    destruct (law_symlink _ _ _ _ _ _ _ _ _ HLa w1 t p Hq1 Hwf1 Hdir1 Hnone1 Htne Hacc Hnh)
      as (m2 & s2 & (w2 & Hrun2 & HV2 & Hsr2) & Hp2 & Hperm2 & Heqv2 & Hwf2).
    subst s2.
    pose proof (quiet_same_rest V' w1 w2 Hq1 Hsr2) as Hq2.
    assert (Hm0 : fmid K w p w) by (apply fmid_refl; [exact Hwf | rewrite Hnone; exact HK0]).
    assert (Hm1 : fmid K w p w1) by (exact (fmid_read w w w1 p Hm0 Hsr1' HV1)).
    assert (Hm2 : fmid K w p w2).
    { split; [| rewrite Hp2; apply HKl].
      split; [eapply same_rest_trans; eassumption | split; [exact Hwf2 |]]. rewrite <- HV1. exact Heqv2. }
    unfold copy_symlink. rewrite Hk. apply fstrict_wrap_other.
    eapply fstrict_bind_ok; [exact Hrun1 | |].
    { apply fstrict_call; [apply (fcall_any_tag tag'); apply (flaw_readlink _ _ _ _ _ HFa') | exact Hq | exact Hm0]. }
    eapply fstrict_bind_ok; [exact Hrun2 | |].
    { apply fstrict_call; [apply (fcall_any_tag tag); apply (flaw_symlink _ _ _ _ _ HFa) | exact Hq1 | exact Hm1]. }
    apply fstrict_ignore_permission.
    apply fstrict_call; [apply (fcall_any_tag tag); apply (flaw_lchown _ _ _ _ _ HFa) | exact Hq2 | exact Hm2].
  Qed.
End FCopy.

(* ------------------------------------------------------------------ *)
(** * A call whose error is inspected: a refusal is neither "not found" nor "permission" *)

Lemma fstrict_try_bind {A B} (T : fstag -> Prop) (I : world -> Prop) (m : M A) (g : res A -> M B) wq fl :
  fstrict T I m wq fl -> (forall e w, hard e -> g (Err e) w = (MErr e, w)) ->
  (forall x w1, try_ m wq = (MOk x, w1) -> quiet w1 -> fstrict T I (g x) w1 fl) ->
  fstrict T I (r <- try_ m ;; g r) wq fl.
Proof.
  intros [(r & w1 & Hrun & Hn & Hq1 & Hrunf & Hsp) | (e & w' & Hrun & Hh & Hrest)] Hg Hcont.
  - assert (Htry : exists x, try_ m wq = (MOk x, w1) /\ try_ m (set_faults wq fl) = (MOk x, set_faults w1 fl)).
    { unfold try_. rewrite Hrun, Hrunf. destruct r as [a0 | e |]; [| | contradiction Hn; reflexivity];
        eexists; split; reflexivity. }
    destruct Htry as (x & Htq & Htf).
    apply fstrict_bind_ok with (w1 := w1) (a := x); [exact Htq | | exact (Hcont x w1 Htq Hq1)].
    left. exists (MOk x), w1. split; [exact Htq | split; [discriminate | split; [exact Hq1 | split; [exact Htf | exact Hsp]]]].
  - right. exists e, w'. unfold bind, try_. rewrite Hrun. rewrite (Hg e w' Hh).
    split; [reflexivity |]. split; [exact Hh | exact Hrest].
Qed.

(* ------------------------------------------------------------------ *)
(** * [real_path] on a resolved name: only reading calls of one filesystem *)

Section FRealPath.
  Variable a : fsapi.
  Variables V V' : world -> store.
  Variable tn : str -> str.
  Variable acc : str -> str -> Prop.
  Variables rh wh : fhandle -> str -> nat -> Prop.
  Variables hid anc : str -> Prop.
  Variable tag : fstag.
  Hypothesis HLa : api_laws a V V' tn acc rh wh hid anc.
  Hypothesis HFa : fault_laws a V tag rh wh.
  Variable fl : list fault.

  Local Notation rdq := (rd V V').

  Lemma resolve_loop_strict (n : str) : forall (l : list str) (w : world),
    l <> [] -> last l [] = n ->
    (forall q, In q l -> snolinkpar (V w) q) ->
    (forall q, In q (removelast l) -> snotlink (V w) q) ->
    quiet w -> swf (V w) ->
    fstrict (eq tag) (rdq w) (resolve_loop a l (fun x => x) n) w fl.
  Proof.
    induction l as [|q rest IH]; intros w Hne Hlast Hnlp Hnl Hq Hwf.
    - contradiction Hne. reflexivity.
    - cbn [resolve_loop].
      pose proof (Hnlp q (in_eq q rest)) as Hnlpq.
      apply fstrict_try_bind.
      { apply fstrict_call; [apply (flaw_lstat _ _ _ _ _ HFa) | exact Hq | apply rd_refl]. }
      { intros e w0 [_ Hnf]. rewrite Hnf. reflexivity. }
      intros x w1 Htry Hq1.
      destruct (V w !! q) as [nd|] eqn:Hsq.
      + destruct (law_lstat_some _ _ _ _ _ _ _ _ _ HLa w q nd Hq Hwf Hnlpq Hsq)
          as (fi & (w1' & Hrun1 & HV1 & Hsr1) & (Hkind & _) & _).
        rewrite (try_ok _ w w1' fi Hrun1) in Htry. injection Htry as Ex Ew. subst x. subst w1'.
        assert (Hrd1 : rdq w w1) by (split; assumption).
        destruct rest as [|q2 rest'].
        * simpl in Hlast. subst q.
          destruct nd as [m | m c | m t]; simpl in Hkind; rewrite Hkind.
          -- apply fstrict_ret. exact Hq1.
          -- apply fstrict_ret. exact Hq1.
          -- apply fstrict_bind_plain; [| intros y; apply fplain_ret].
             apply fstrict_call; [apply (flaw_readlink _ _ _ _ _ HFa) | exact Hq1 | exact Hrd1].
        * change (removelast (q :: q2 :: rest')) with (q :: removelast (q2 :: rest')) in Hnl.
          change (last (q :: q2 :: rest') []) with (last (q2 :: rest') []) in Hlast.
          assert (Hk : fi_kind fi <> KLink).
          { intros E. rewrite Hkind in E. destruct nd as [m | m c | m t]; try discriminate E.
            exact (Hnl q (in_eq _ _) m t Hsq). }
          assert (Hrec : fstrict (eq tag) (rdq w) (resolve_loop a (q2 :: rest') (fun x => x) n) w1 fl).
          { eapply fstrict_mono; [| apply (IH w1)].
            - intros y Hy. exact (rd_trans V V' w w1 y Hrd1 Hy).
            - discriminate.
            - exact Hlast.
            - intros r Hr. rewrite HV1. apply Hnlp. right. exact Hr.
            - intros r Hr. rewrite HV1. apply Hnl. right. exact Hr.
            - exact Hq1.
            - rewrite HV1. exact Hwf. }
          destruct (fi_kind fi); [exact Hrec | exact Hrec | contradiction Hk; reflexivity].
      + destruct (law_lstat_none _ _ _ _ _ _ _ _ _ HLa w q Hq Hwf Hnlpq Hsq)
          as (e & w1' & Hrun1 & Hnf & HV1 & Hsr1).
        rewrite (try_err _ w w1' e Hrun1) in Htry. injection Htry as Ex Ew. subst x. subst w1'.
        unfold not_found in Hnf. rewrite Hnf. apply fstrict_ret. exact Hq1.
  Qed.

  Lemma real_path_strict (w : world) (n : str) :
    quiet w -> swf (V w) -> snolinkpar (V w) n ->
    fstrict (eq tag) (rdq w) (real_path a n) w fl.
  Proof.
    intros Hq Hwf Hnlp. pose proof Hnlp as [[Hc Habs] Hf].
    assert (Hne : n <> []) by (apply cleaned_nonempty; exact Hc).
    unfold real_path. unfold cleaned in Hc. rewrite Hc. unfold resolve_path_with_info.
    destruct n as [|x n']; [contradiction Hne; reflexivity |].
    apply fstrict_bind_plain; [| intros r; apply fplain_ret].
    apply (resolve_loop_strict (x :: n') (cands (x :: n')) w).
    - rewrite (cands_last _ Hc). intros E. apply app_eq_nil in E. destruct E as [_ E]. discriminate E.
    - rewrite (cands_last _ Hc). apply last_last.
    - intros q Hin. eapply snolinkpar_cands; eassumption.
    - intros q Hin. rewrite Forall_forall in Hf. apply Hf. exact Hin.
    - exact Hq.
    - exact Hwf.
  Qed.
End FRealPath.

(* ------------------------------------------------------------------ *)
(** * [try_backup] under a single fault *)

Section FTry.
  Variables base backup : fsapi.
  Variables Vb Vk : world -> store.
  Variables tnb tnk : str -> str.
  Variables accb acck : str -> str -> Prop.
  Variables rhb rhk whb whk : fhandle -> str -> nat -> Prop.
  Variables hid anc : str -> Prop.
  Variable B0 : store.
  Variables tagb tagk : fstag.

  Hypothesis HLb : base_laws base Vb Vk tnb accb rhb whb hid anc.
  Hypothesis HLk : backup_laws backup Vb Vk tnk acck rhk whk.
  Hypothesis HFb : fault_laws base Vb tagb rhb whb.
  Hypothesis HFk : fault_laws backup Vk tagk rhk whk.
  Hypothesis Hlinks : links_ok tnb tnk accb acck B0.
  Hypothesis Hsmall : all_small B0.
  Hypothesis HwfB0 : swf B0.

  Variable fl : list fault.
  Hypothesis Hsingle : single fl.

  Let Lb : api_laws base Vb Vk tnb accb rhb whb hid anc := HLb.
  Let Lk : api_laws backup Vk Vb tnk acck rhk whk nohid nohid := HLk.

  Local Notation inv := (Inv Vb Vk B0).
  Definition lw (w : world) : world := set_faults w fl.

  Lemma Vb_sim (w w' : world) : sim w w' -> Vb w' = Vb w.
  Proof. intros [H _]. exact (flaw_st _ _ _ _ _ HFb w w' H). Qed.
  Lemma Vk_sim (w w' : world) : sim w w' -> Vk w' = Vk w.
  Proof. intros [H _]. exact (flaw_st _ _ _ _ _ HFk w w' H). Qed.

  Lemma same_all_sim (w w' : world) : quiet w -> quiet w' -> sim w w' -> same_all Vb Vk w w'.
  Proof.
    intros [Hc Hf] [Hc' Hf'] Hs. split; [exact (Vb_sim w w' Hs) |]. split; [exact (Vk_sim w w' Hs) |].
    split; [exact (proj2 Hs) | split; congruence].
  Qed.

  Lemma Inv_sim (w w' : world) : inv w -> quiet w' -> sim w w' -> inv w'.
  Proof.
    intros HI Hq' Hs. apply (Inv_transfer Vb Vk B0 w w' HI).
    exact (same_all_sim w w' (inv_quiet _ _ _ _ HI) Hq' Hs).
  Qed.

  Lemma unfault_lw (w1 : world) : quiet w1 -> unfault (lw w1) = w1.
  Proof. intros [_ Hf]. exact (unfault_lift w1 fl Hf). Qed.

  Lemma lw_unfault (w' : world) : w_faults w' = fl -> lw (unfault w') = w'.
  Proof. intros H. unfold lw. rewrite <- H. apply lift_unfault. Qed.

  (** the backup view changed only up to equivalence *)
  Lemma Inv_backup_eqv (w w' : world) :
    inv w -> quiet w' -> Vb w' = Vb w -> w_infos w' = w_infos w -> swf (Vk w') ->
    (forall q, sonode_eqv (Vk w' !! q) (Vk w !! q)) -> inv w'.
  Proof.
    intros HI Hq' HVb Hi Hwfk Heqv.
    destruct HI as [Hq Hwb Hwk Hun Hno Hso Hab Hcl Hnl Hbo Hki].
    constructor; unfold tracked in *; rewrite ?HVb, ?Hi; try assumption.
    - intros p fi Hp. destruct (Hso p fi Hp) as (n0 & H0 & Him & Hk).
      exists n0. split; [exact H0 | split; [exact Him |]].
      destruct Hk as [-> | (nk & Hnk & Hc)]; [left; reflexivity | right].
      pose proof (Heqv p) as He. rewrite Hnk in He.
      destruct (Vk w' !! p) as [nk'|]; [| contradiction He]. simpl in He.
      exists nk'. split; [reflexivity | eapply copy_of_eqv_r; eassumption].
    - intros p Hne Hp. apply (Hbo p Hne). intros E. pose proof (Heqv p) as He. rewrite E in He.
      destruct (Vk w' !! p); [contradiction He | contradiction Hp; reflexivity].
  Qed.

  (** ** what every stage of [try_backup] guarantees *)
  Definition tbpost (l : list str) (wq : world) (r : mres unit) (w' : world) : Prop :=
    r <> MHalt /\ w_crash w' = None /\ w_faults w' = fl /\ inv (unfault w') /\
    ext Vb wq (unfault w') l /\
    (spent (lw wq) -> spent w') /\
    (~ spent (lw wq) -> spent w' -> (exists e, r = MErr e) \/ (exists f, In f fl /\ f_fs f = tagb)).

  Lemma tbpost_clean (l : list str) (m : M unit) (wq w1 : world) (r : mres unit) :
    cleanrun m wq fl -> m wq = (r, w1) -> inv w1 -> ext Vb wq w1 l ->
    m (lw wq) = (r, lw w1) /\ tbpost l wq r (lw w1).
  Proof.
    intros Hc Hrun HI1 Hext. destruct (cleanrun_result m wq fl r w1 Hc Hrun) as (Hn & Hq1 & Hrunf & Hsp).
    split; [exact Hrunf |]. unfold tbpost. rewrite (unfault_lw w1 Hq1).
    split; [exact Hn | split; [exact (proj1 Hq1) | split; [reflexivity | split; [exact HI1 | split; [exact Hext | split]]]]].
    - intros Hs. apply Hsp. exact Hs.
    - intros Hns Hs. exfalso. apply Hns. apply Hsp. exact Hs.
  Qed.

  Lemma tbpost_weaken (l l' : list str) wq r w' : incl l l' -> tbpost l wq r w' -> tbpost l' wq r w'.
  Proof.
    intros Hi (H1 & H2 & H3 & H4 & H5 & H6 & H7).
    split; [exact H1 | split; [exact H2 | split; [exact H3 | split; [exact H4 | split; [| split; assumption]]]]].
    exact (ext_weaken Vb wq (unfault w') l l' H5 Hi).
  Qed.

  (** two stages *)
  Lemma tbpost_trans (l1 l2 l : list str) (wq : world) (r1 r2 : mres unit) (w1 w2 : world) :
    tbpost l1 wq r1 w1 -> (forall e, r1 <> MErr e) -> tbpost l2 (unfault w1) r2 w2 ->
    incl l1 l -> incl l2 l -> tbpost l wq r2 w2.
  Proof.
    intros (A1 & A2 & A3 & A4 & A5 & A6 & A7) Hok (C1 & C2 & C3 & C4 & C5 & C6 & C7) Hi1 Hi2.
    rewrite (lw_unfault w1 A3) in C6, C7.
    split; [exact C1 | split; [exact C2 | split; [exact C3 | split; [exact C4 | split; [| split]]]]].
    - exact (ext_trans Vb wq (unfault w1) (unfault w2) l1 l2 l A5 C5 Hi1 Hi2).
    - intros Hs. exact (C6 (A6 Hs)).
    - intros Hns Hs. destruct (classic_spent w1) as [Hs1 | Hns1].
      + destruct (A7 Hns Hs1) as [[e He] | Hb]; [exfalso; exact (Hok e He) | right; exact Hb].
      + exact (C7 Hns1 Hs).
  Qed.

  Lemma tbpost_err_sim (l : list str) (wq wi w' : world) (e : errno) :
    inv wi -> Vb wi = Vb wq -> w_infos wi = w_infos wq -> sim wi w' ->
    w_crash w' = None -> w_faults w' = fl -> spent w' -> tbpost l wq (MErr e) w'.
  Proof.
    intros HIi HVb Hi Hsim Hc Hf Hs.
    assert (Hsim' : sim wi (unfault w')) by (exact (sim_trans wi w' (unfault w') Hsim (sim_unfault w'))).
    split; [discriminate | split; [exact Hc | split; [exact Hf | split; [| split; [| split]]]]].
    - exact (Inv_sim wi (unfault w') HIi (quiet_unfault w' Hc) Hsim').
    - apply ext_same; [rewrite (Vb_sim wi _ Hsim'); exact HVb | rewrite (proj2 Hsim'); exact Hi].
    - intros _. exact Hs.
    - intros _ _. left. exists e. reflexivity.
  Qed.

  (** ** [backup_required]: at most one Lstat on the base *)
  Lemma backup_required_strict (wq : world) (p : str) :
    quiet wq -> fstrict (eq tagb) (rd Vb Vk wq) (backup_required base p) wq fl.
  Proof.
    intros Hq. unfold backup_required.
    apply fstrict_bind; [apply fstrict_plain; [apply fplain_already_seen | exact Hq] |].
    intros seen w1 Hseen. unfold already_seen, bind, get_infos, ret in Hseen. injection Hseen as <- <-.
    destruct (w_infos wq !! p) as [info|]; [apply fstrict_ret; exact Hq |].
    apply fstrict_try_bind.
    - apply fstrict_call; [apply (flaw_lstat _ _ _ _ _ HFb) | exact Hq | apply rd_refl].
    - intros e w0 [_ Hnf]. rewrite Hnf. reflexivity.
    - intros x w1 _ Hq1. destruct x as [fi | e]; [apply fstrict_ret; exact Hq1 |].
      destruct (is_not_found e); [| apply fstrict_fail; exact Hq1].
      apply fstrict_plain; [| exact Hq1].
      apply fplain_bind; [apply fplain_set_info_if_new | intros u; apply fplain_ret].
  Qed.

  Lemma rd_inv (wq ws : world) : inv wq -> rd Vb Vk wq ws -> inv ws /\ Vb ws = Vb wq /\ w_infos ws = w_infos wq.
  Proof.
    intros HI [HV Hs]. split; [| split; [exact HV | exact (proj1 (proj2 Hs))]].
    exact (Inv_transfer Vb Vk B0 wq ws HI (same_all_base Vb Vk wq ws HV Hs)).
  Qed.

  (** ** removing what a failed copy left behind: the plan is spent, the call is executed *)
  Lemma cleanupF (w1 w' ws : world) (p : str) :
    inv w1 -> w_infos w1 !! p = None -> p <> s_root -> Vk w1 !! p = None -> sdirect (Vk w1) p ->
    fmid Vk Vb (fun _ => True) w1 p ws -> quiet ws -> sim ws w' ->
    w_crash w' = None -> w_faults w' = fl -> spent w' ->
    exists x w'', try_ (a_remove backup p) w' = (MOk x, w'') /\
      w_crash w'' = None /\ w_faults w'' = fl /\ spent w'' /\
      inv (unfault w'') /\ Vb (unfault w'') = Vb w1 /\ w_infos (unfault w'') = w_infos w1.
  Proof.
    intros HI1 Hun Hne Hnone Hdir ((Hsr & Hwf & Heqv) & _) Hqs Hsim Hc Hf Hs.
    set (wu := unfault w').
    assert (Hqu : quiet wu) by (exact (quiet_unfault w' Hc)).
    assert (Hsimu : sim ws wu) by (exact (sim_trans ws w' wu Hsim (sim_unfault w'))).
    pose proof (Vk_sim ws wu Hsimu) as HVku. pose proof (Vb_sim ws wu Hsimu) as HVbu.
    assert (Hwfu : swf (Vk wu)) by (rewrite HVku; exact Hwf).
    assert (Heqvu : store_eqv_except [p] (Vk wu) (Vk w1)) by (rewrite HVku; exact Heqv).
    assert (HVb1 : Vb wu = Vb w1) by (rewrite HVbu; exact (proj1 Hsr)).
    assert (Hi1 : w_infos wu = w_infos w1) by (rewrite (proj2 Hsimu); exact (proj1 (proj2 Hsr))).
    assert (Hdiru : sdirect (Vk wu) p) by (exact (sdirect_eqv_except_self _ _ p Hdir Heqvu)).
    destruct (sclean_fcall (eq tagk) (a_remove backup p) (flaw_remove _ _ _ _ _ HFk p) w' Hc Hs)
      as (r3 & w3 & Hrun3 & Hn3 & Hq3 & Hrunf3 & Hsp3).
    fold wu in Hrun3. rewrite Hf in Hrunf3, Hsp3.
    assert (Hgoal : forall (HVb3 : Vb w3 = Vb wu) (Hi3 : w_infos w3 = w_infos wu) (Hwf3 : swf (Vk w3))
                           (Heqv3 : store_eqv_except [p] (Vk w3) (Vk wu)) (Hp3 : Vk w3 !! p = None),
              exists x w'', try_ (a_remove backup p) w' = (MOk x, w'') /\
                w_crash w'' = None /\ w_faults w'' = fl /\ spent w'' /\
                inv (unfault w'') /\ Vb (unfault w'') = Vb w1 /\ w_infos (unfault w'') = w_infos w1).
    { intros HVb3 Hi3 Hwf3 Heqv3 Hp3.
      assert (HI3 : inv w3).
      { apply (Inv_backup_eqv w1 w3 HI1 Hq3); [congruence | congruence | exact Hwf3 |].
        intros q. destruct (str_eq_dec q p) as [-> | Hqp]; [rewrite Hp3, Hnone; exact I |].
        eapply sonode_eqv_trans; [apply Heqv3 | apply Heqvu]; intros [E | []]; exact (Hqp (eq_sym E)). }
      destruct r3 as [u | e3 |]; [| | contradiction Hn3; reflexivity].
      - exists (Ok u), (set_faults w3 fl). split; [exact (try_ok _ _ _ u Hrunf3) |].
        rewrite (unfault_lift w3 fl (proj2 Hq3)).
        split; [exact (proj1 Hq3) | split; [reflexivity | split; [exact Hsp3 | split; [exact HI3 | split; congruence]]]].
      - exists (Err e3), (set_faults w3 fl). split; [exact (try_err _ _ _ e3 Hrunf3) |].
        rewrite (unfault_lift w3 fl (proj2 Hq3)).
        split; [exact (proj1 Hq3) | split; [reflexivity | split; [exact Hsp3 | split; [exact HI3 | split; congruence]]]]. }
    destruct (Vk wu !! p) as [n|] eqn:Hp.
    - assert (Hnc : no_children (Vk wu) p).
      { intros q nq Hq Hqp Hin.
        assert (He : sonode_eqv (Vk wu !! q) (Vk w1 !! q)).
        { apply Heqvu. intros [E | []]. exact (Hqp (eq_sym E)). }
        rewrite Hq in He. destruct (Vk w1 !! q) as [nq1|] eqn:Hq1; [| contradiction He].
        destruct (swf_below_dir (Vk w1) p q nq1 (inv_wf_k _ _ _ _ HI1) Hq1 Hin) as [md Hmd].
        rewrite Hmd in Hnone. discriminate Hnone. }
      destruct (law_remove_leaf _ _ _ _ _ _ _ _ _ Lk wu p n Hqu Hwfu (sdirect_snolinkpar _ _ Hdiru) Hp Hnc Hne (not_nohid _))
        as (s' & (w3' & Hrun3' & HV3 & Hsr3) & Hnone3 & Heqv3 & Hwf3).
      rewrite Hrun3 in Hrun3'. injection Hrun3' as _ <-. subst s'.
      exact (Hgoal (proj1 Hsr3) (proj1 (proj2 Hsr3)) Hwf3 Heqv3 Hnone3).
    - destruct (law_remove_none _ _ _ _ _ _ _ _ _ Lk wu p Hqu Hwfu (sdirect_snolinkpar _ _ Hdiru) Hp)
        as (e3 & w3' & Hrun3' & _ & HV3 & Hsr3).
      rewrite Hrun3 in Hrun3'. injection Hrun3' as _ <-.
      apply (Hgoal (proj1 Hsr3) (proj1 (proj2 Hsr3))); rewrite HV3;
        [exact Hwfu | apply store_eqv_except_refl | exact Hp].
  Qed.

  Lemma copy_dir_root_fplain (a : fsapi) (fi : finfo) : fi_kind fi = KDir -> fplain (copy_dir a s_root fi).
  Proof.
    intros Hk. unfold copy_dir, is_dir_info. rewrite Hk. cbn [negb].
    replace (str_eqb s_root s_root) with true by (vm_compute; reflexivity).
    unfold wrap_other. apply fplain_bind; [apply fplain_try; apply fplain_ret |].
    intros [x | e]; [apply fplain_ret | apply fplain_fail].
  Qed.

  Lemma copy_dir_badinfo_fplain (a : fsapi) (p : str) (fi : finfo) :
    fi_kind fi <> KDir -> fplain (copy_dir a p fi).
  Proof.
    intros Hk. unfold copy_dir, is_dir_info.
    destruct (fi_kind fi); [contradiction Hk; reflexivity | |];
      unfold wrap_other; (apply fplain_bind; [apply fplain_try; apply fplain_fail |]);
      intros [x | e]; try apply fplain_ret; apply fplain_fail.
  Qed.

  Local Notation Kany := (fun _ : option node => True).

  (** ** one round of [backup_dirs] *)
  Lemma bd_bodyF (wq : world) (sub : str) :
    inv wq -> snolinkpar (Vb wq) sub -> Forall (tracked wq) (ancestors sub) ->
    (w_infos wq !! sub = None -> snotlink (Vb wq) sub) ->
    exists r w', bd_body base backup sub (lw wq) = (r, w') /\ tbpost [sub] wq r w' /\
                 (r = MOk tt -> tracked (unfault w') sub).
  Proof.
    intros HI Hnlp Hanc Hnl. pose proof (inv_quiet _ _ _ _ HI) as Hq.
    destruct (bd_body_spec base backup Vb Vk tnb tnk accb acck rhb rhk whb whk hid anc B0 HLb HLk HwfB0
                wq sub HI Hnlp Hanc Hnl) as (rq & wqf & Hrunq & Hnhq & HIq & Hextq & Htrq & _).
    assert (Hfin : cleanrun (bd_body base backup sub) wq fl ->
              exists r w', bd_body base backup sub (lw wq) = (r, w') /\ tbpost [sub] wq r w' /\
                           (r = MOk tt -> tracked (unfault w') sub)).
    { intros Hc. destruct (tbpost_clean [sub] _ wq wqf rq Hc Hrunq HIq Hextq) as [Hrunf Hpost].
      exists rq, (lw wqf). split; [exact Hrunf | split; [exact Hpost |]]. intros Hr.
      rewrite (unfault_lw wqf (inv_quiet _ _ _ _ HIq)). exact (Htrq Hr). }
    destruct (fstrict_cases _ _ _ _ _ (backup_required_strict wq sub Hq))
      as [Hc1 | (e & w' & Hrun & Hh & Hc' & Hf' & Hns & Hs1 & Hex & ws & Hrd & Hqs & Hsim)].
    2:{ destruct (rd_inv wq ws HI Hrd) as (HIs & HVs & His).
        exists (MErr e), w'. split; [| split; [| intros D; discriminate D]].
        - unfold bd_body. exact (bind_err _ _ _ _ e Hrun).
        - exact (tbpost_err_sim [sub] wq ws w' e HIs HVs His Hsim Hc' Hf' (Hs1 Hsingle)). }
    unfold bd_body in Hfin |- *.
    destruct (w_infos wq !! sub) as [info|] eqn:Hi.
    { apply Hfin. eapply cleanrun_bind_ok; [exact (backup_required_seen base wq sub info Hi) | exact Hc1 |].
      destruct info; apply cleanrun_plain; try apply fplain_ret; exact Hq. }
    specialize (Hnl eq_refl).
    destruct (Vb wq !! sub) as [n|] eqn:Hb.
    2:{ destruct (backup_required_none base backup Vb Vk tnb tnk accb acck rhb rhk whb whk hid anc B0 HLb HLk
                    wq sub HI Hnlp Hi Hb) as (w1 & Hrun1 & HI1 & _).
        apply Hfin. eapply cleanrun_bind_ok; [exact Hrun1 | exact Hc1 |].
        apply cleanrun_plain; [apply fplain_ret | exact (inv_quiet _ _ _ _ HI1)]. }
    destruct (backup_required_some base Vb Vk tnb accb rhb whb hid anc B0 HLb wq sub n HI Hnlp Hi Hb)
      as (fi & w1 & Hrun1 & Hsa1 & Him).
    pose proof (Inv_transfer Vb Vk B0 wq w1 HI Hsa1) as HI1.
    pose proof Hsa1 as (HVb1 & HVk1 & Hi1 & Hcr1 & Hfa1).
    assert (Hun1 : w_infos w1 !! sub = None) by (rewrite Hi1; exact Hi).
    assert (Hb1 : Vb w1 !! sub = Some n) by (rewrite HVb1; exact Hb).
    pose proof (inv_quiet _ _ _ _ HI1) as Hq1.
    destruct (cleanrun_result _ wq fl _ w1 Hc1 Hrun1) as (_ & _ & Hrunf1 & Hsp1).
    fold (lw wq) in Hrunf1, Hsp1. fold (lw w1) in Hrunf1, Hsp1.
    destruct n as [m | m c | m t].
    - assert (Hk : fi_kind fi = KDir) by (exact (proj1 Him)).
      destruct (str_eq_dec sub s_root) as [-> | Hne].
      + apply Hfin. eapply cleanrun_bind_ok; [exact Hrun1 | exact Hc1 |]. cbv beta iota.
        eapply cleanrun_bind_ok; [exact (try_ok _ w1 w1 tt (copy_dir_root_spec backup w1 fi Hk)) | |].
        * apply cleanrun_try. apply cleanrun_plain; [apply copy_dir_root_fplain; exact Hk | exact Hq1].
        * apply cleanrun_plain; [apply fplain_set_info_if_new | exact Hq1].
      + destruct (info_matches_nonneg fi _ Him) as [Hu Hg].
        assert (Hdir1 : sdirect (Vk w1) sub).
        { rewrite HVk1. eapply backup_sdirect; eassumption. }
        assert (Hnone1 : Vk w1 !! sub = None).
        { apply (untracked_backup_none Vb Vk B0); assumption. }
        destruct (copy_dir_spec backup Vk Vb tnk acck rhk whk nohid nohid Lk w1 sub fi
                    Hq1 (inv_wf_k _ _ _ _ HI1) Hdir1 Hne Hk Hu Hg (or_introl Hnone1) (not_nohid _))
          as (w2 & m' & Hrun2 & (Hsr2 & _) & _).
        destruct (fstrict_cases _ _ _ _ _
                    (copy_dir_strict backup Vk Vb tnk acck rhk whk nohid nohid tagk Lk HFk fl Kany w1 sub fi
                       Hq1 (inv_wf_k _ _ _ _ HI1) Hdir1 Hne Hk Hu Hg (or_introl Hnone1) I (fun _ => I) (not_nohid _)))
          as [Hc2 | (e & w' & Hrun2f & Hh & Hc' & Hf' & Hns & Hs1 & Hex & ws & Hmid & Hqs & Hsim)].
        * apply Hfin. eapply cleanrun_bind_ok; [exact Hrun1 | exact Hc1 |]. cbv beta iota.
          eapply cleanrun_bind_ok; [exact (try_ok _ w1 w2 tt Hrun2) | apply cleanrun_try; exact Hc2 |].
          apply cleanrun_plain; [apply fplain_set_info_if_new | exact (quiet_same_rest Vb w1 w2 Hq1 Hsr2)].
        * destruct (cleanupF w1 w' ws sub HI1 Hun1 Hne Hnone1 Hdir1 Hmid Hqs Hsim Hc' Hf' (Hs1 Hsingle))
            as (x & w'' & Hcl & Hc'' & Hf'' & Hs'' & HI'' & HVb'' & Hi'').
          exists (MErr e), w''. split; [| split; [| intros D; discriminate D]].
          -- rewrite (bind_ok _ _ _ _ _ Hrunf1). cbv beta iota.
             rewrite (bind_ok _ _ (lw w1) w' (Err e) (try_err _ _ _ e Hrun2f)). cbv beta iota.
             rewrite (bind_ok _ _ w' w'' x Hcl). reflexivity.
          -- exact (tbpost_err_sim [sub] wq (unfault w'') w'' e HI'' ltac:(congruence) ltac:(congruence)
                      (conj eq_refl eq_refl) Hc'' Hf'' Hs'').
    - assert (Hk : fi_kind fi <> KDir) by (rewrite (proj1 Him); discriminate).
      assert (Hne : sub <> s_root) by (apply (not_root_of Vb Vk B0 wq sub _ HI Hb); discriminate).
      destruct (copy_dir_badinfo_spec backup w1 sub fi Hk) as [e Hrun2].
      assert (Hdir1 : sdirect (Vk w1) sub).
      { rewrite HVk1. eapply backup_sdirect; eassumption. }
      assert (Hnone1 : Vk w1 !! sub = None).
      { apply (untracked_backup_none Vb Vk B0); assumption. }
      destruct (law_remove_none _ _ _ _ _ _ _ _ _ Lk w1 sub Hq1 (inv_wf_k _ _ _ _ HI1)
                  (sdirect_snolinkpar _ _ Hdir1) Hnone1)
        as (e3 & w3 & Hrun3 & _ & HVk3 & Hsr3).
      assert (Hc2 : cleanrun (copy_dir backup sub fi) w1 fl).
      { apply cleanrun_plain; [apply copy_dir_badinfo_fplain; exact Hk | exact Hq1]. }
      destruct (fcall_cases (eq tagk) (a_remove backup sub) w1 fl (flaw_remove _ _ _ _ _ HFk sub) Hq1)
        as [Hc3 | (w' & Hrunf3 & Hsim & Hc' & Hf' & Hns & Hs1 & Hex)].
      + apply Hfin. eapply cleanrun_bind_ok; [exact Hrun1 | exact Hc1 |]. cbv beta iota.
        eapply cleanrun_bind_ok; [exact (try_err _ w1 w1 e Hrun2) | apply cleanrun_try; exact Hc2 |].
        cbv beta iota.
        eapply cleanrun_bind_ok; [exact (try_err _ w1 w3 e3 Hrun3) | apply cleanrun_try; exact Hc3 |].
        apply cleanrun_plain; [apply fplain_fail | exact (quiet_same_rest Vb w1 w3 Hq1 Hsr3)].
      + destruct (cleanrun_result _ w1 fl _ w1 Hc2 Hrun2) as (_ & _ & Hrunf2 & _).
        exists (MErr e), w'. split; [| split; [| intros D; discriminate D]].
        * rewrite (bind_ok _ _ _ _ _ Hrunf1). cbv beta iota.
          rewrite (bind_ok _ _ (lw w1) (lw w1) (Err e) (try_err _ _ _ e Hrunf2)). cbv beta iota.
          rewrite (bind_ok _ _ (lw w1) w' (Err EIO) (try_err _ _ _ EIO Hrunf3)). reflexivity.
        * exact (tbpost_err_sim [sub] wq w1 w' e HI1 HVb1 Hi1 Hsim Hc' Hf' (Hs1 Hsingle)).
    - exfalso. exact (Hnl m t Hb).
  Qed.

  Lemma tbpost_ret (wq : world) : inv wq -> tbpost [] wq (MOk tt) (lw wq).
  Proof.
    intros HI. pose proof (inv_quiet _ _ _ _ HI) as Hq.
    exact (proj2 (tbpost_clean [] (ret tt) wq wq (MOk tt)
                    (cleanrun_plain _ wq fl (fplain_ret tt) Hq) eq_refl HI (ext_refl Vb wq []))).
  Qed.

  (** ** the loop of [backup_dirs] *)
  Lemma bd_loopF (dp : str) : cleaned dp -> forall (l pre : list str) (wq : world),
    pre ++ l = cands dp -> inv wq -> Forall (tracked wq) pre ->
    (forall sub, In sub l ->
       snolinkpar (Vb wq) sub /\ (w_infos wq !! sub = None -> snotlink (Vb wq) sub)) ->
    exists r w', miter (bd_body base backup) l (lw wq) = (r, w') /\ tbpost l wq r w' /\
                 (r = MOk tt -> Forall (tracked (unfault w')) l).
  Proof.
    intros Hc. induction l as [|sub rest IH]; intros pre wq E HI Hpre Hl.
    - exists (MOk tt), (lw wq). split; [reflexivity | split; [exact (tbpost_ret wq HI) | intros _; constructor]].
    - destruct (Hl sub (in_eq _ _)) as [Hnlp Hnl].
      assert (Hanc : Forall (tracked wq) (ancestors sub)).
      { apply List.Forall_forall. intros q Hq. rewrite List.Forall_forall in Hpre. apply Hpre.
        exact (cands_split_ancestors dp pre rest sub q Hc (eq_sym E) Hq). }
      destruct (bd_bodyF wq sub HI Hnlp Hanc Hnl) as (r1 & w1 & Hrun1 & Hpost1 & Htr1).
      pose proof Hpost1 as (Hnh1 & Hc1 & Hf1 & HI1 & Hext1 & _).
      cbn [miter].
      destruct r1 as [[] | e |]; [| | contradiction Hnh1; reflexivity].
      + pose proof Hext1 as (HVb1 & Hm1 & _).
        destruct (IH (pre ++ [sub]) (unfault w1)) as (r2 & w2 & Hrun2 & Hpost2 & Htr2).
        * rewrite <- app_assoc. exact E.
        * exact HI1.
        * apply Forall_app. split.
          -- eapply List.Forall_impl; [| exact Hpre]. intros q Hq. exact (ext_tracked _ _ _ _ _ Hext1 Hq).
          -- constructor; [exact (Htr1 eq_refl) | constructor].
        * intros s0 Hs0. destruct (Hl s0 (in_cons _ _ _ Hs0)) as [H1 H2]. rewrite HVb1.
          split; [exact H1 |]. intros Hn. apply H2.
          destruct (w_infos wq !! s0) eqn:Es; [| reflexivity].
          rewrite Hm1 in Hn by (rewrite Es; discriminate). rewrite Es in Hn. discriminate Hn.
        * rewrite (lw_unfault w1 Hf1) in Hrun2.
          exists r2, w2. split; [rewrite (bind_ok _ _ _ _ tt Hrun1); exact Hrun2 | split].
          -- apply (tbpost_trans [sub] rest (sub :: rest) wq (MOk tt) r2 w1 w2 Hpost1); [discriminate | exact Hpost2 | |].
             ++ intros q [<- | []]. left. reflexivity.
             ++ intros q Hq. right. exact Hq.
          -- intros Hr. constructor; [| exact (Htr2 Hr)].
             destruct Hpost2 as (_ & _ & _ & _ & Hext2 & _).
             exact (ext_tracked _ _ _ _ _ Hext2 (Htr1 eq_refl)).
      + exists (MErr e), w1. split; [rewrite (bind_err _ _ _ _ e Hrun1); reflexivity | split].
        * apply (tbpost_weaken [sub] (sub :: rest)); [intros q [<- | []]; left; reflexivity | exact Hpost1].
        * intros D. discriminate D.
  Qed.

  Lemma backup_dirsF (wq : world) (dp : str) :
    inv wq -> snolinkpar (Vb wq) dp -> (w_infos wq !! dp = None -> snotlink (Vb wq) dp) ->
    exists r w', backup_dirs base backup dp (lw wq) = (r, w') /\ tbpost (cands dp) wq r w' /\
                 (r = MOk tt -> Forall (tracked (unfault w')) (cands dp)).
  Proof.
    intros HI Hnlp Hnl. rewrite backup_dirs_eq.
    pose proof Hnlp as [[Hc Habs] Hf].
    apply (bd_loopF dp Hc (cands dp) [] wq eq_refl HI (Forall_nil _)).
    intros sub Hs. split; [eapply snolinkpar_cands; eassumption |].
    intros Hun. rewrite (cands_last dp Hc) in Hs. apply in_app_or in Hs.
    destruct Hs as [Hs | [<- | []]].
    - rewrite List.Forall_forall in Hf. exact (Hf sub Hs).
    - exact (Hnl Hun).
  Qed.

  (** the [backup_dirs] phase of [try_backup] *)
  Lemma dirs_phaseF (wq : world) (p dp : str) :
    inv wq -> snolinkpar (Vb wq) p ->
    (dp = p /\ (forall n, Vb wq !! p = Some n -> node_kind n = KDir)) \/ dp = dir p ->
    exists r w', backup_dirs base backup dp (lw wq) = (r, w') /\ tbpost (cands p) wq r w' /\
                 (r = MOk tt -> Forall (tracked (unfault w')) (ancestors p) /\ (dp = p -> tracked (unfault w') p)) /\
                 (dp <> p -> w_infos wq !! p = None -> w_infos w' !! p = None).
  Proof.
    intros HI Hnlp Hcase. pose proof Hnlp as [[Hc Habs] Hf].
    assert (Hcase' : (dp = p /\ (forall n, Vb wq !! p = Some n -> node_kind n = KDir)) \/
                     (dp = dir p /\ p <> s_root)).
    { destruct Hcase as [H | H]; [left; exact H |].
      destruct (str_eq_dec p s_root) as [-> | Hne]; [left | right; split; assumption].
      split; [rewrite H; apply dir_root |]. intros n Hn.
      destruct (swf_root_dir _ (inv_wf_b _ _ _ _ HI)) as [m Hm]. rewrite Hm in Hn.
      injection Hn as <-. reflexivity. }
    clear Hcase. destruct Hcase' as [[-> Hpd] | [-> Hne]].
    - destruct (backup_dirsF wq p HI Hnlp) as (r & w' & Hrun & Hpost & Htr).
      { intros _ m t Hl. specialize (Hpd _ Hl). discriminate Hpd. }
      exists r, w'. split; [exact Hrun | split; [exact Hpost | split]].
      + intros Hr. specialize (Htr Hr). rewrite (cands_last p Hc) in Htr.
        apply Forall_app in Htr. destruct Htr as [H1 H2]. split; [exact H1 |].
        intros _. inversion H2; assumption.
      + intros D. contradiction D. reflexivity.
    - pose proof (dir_in_ancestors p (conj Hc Habs) Hne) as Hin.
      assert (Hincands : In (dir p) (cands p)).
      { rewrite (cands_last p Hc). apply in_or_app. left. exact Hin. }
      destruct (backup_dirsF wq (dir p) HI (snolinkpar_cands _ _ _ Hnlp Hincands))
        as (r & w' & Hrun & Hpost & Htr).
      { intros _. rewrite List.Forall_forall in Hf. exact (Hf _ Hin). }
      rewrite (cands_dir p (conj Hc Habs) Hne) in Hpost, Htr.
      exists r, w'. split; [exact Hrun | split; [| split]].
      + apply (tbpost_weaken (ancestors p) (cands p)); [| exact Hpost]. rewrite (cands_last p Hc).
        intros q Hq. apply in_or_app. left. exact Hq.
      + intros Hr. split; [exact (Htr Hr) |]. intros E. exfalso.
        rewrite E in Hin. exact (ancestors_not_self p Hc Hin).
      + intros _ Hun. destruct Hpost as (_ & _ & _ & _ & (_ & _ & Hd) & _).
        change (w_infos (unfault w')) with (w_infos w') in Hd.
        destruct (w_infos w' !! p) eqn:E; [| reflexivity].
        destruct (Hd p) as [H | H]; [rewrite E; discriminate | contradiction | ].
        exfalso. exact (ancestors_not_self p Hc H).
  Qed.

  Lemma ext_sim (w w3 wx : world) (l : list str) : ext Vb w w3 l -> sim w3 wx -> ext Vb w wx l.
  Proof.
    intros (HV & Hm & Hd) Hs. unfold ext. rewrite (Vb_sim w3 wx Hs), (proj2 Hs).
    split; [exact HV | split; assumption].
  Qed.

  (** a refused call whose error was swallowed: the stage succeeded all the same *)
  Lemma tbpost_swallow (l : list str) (wq w3 w' : world) :
    inv w3 -> ext Vb wq w3 l -> sim w3 w' -> w_crash w' = None -> w_faults w' = fl -> spent w' ->
    (exists f, In f fl /\ f_fs f = tagb) -> tbpost l wq (MOk tt) w'.
  Proof.
    intros HI3 Hext Hsim Hc Hf Hs Hex.
    assert (Hsim' : sim w3 (unfault w')) by (exact (sim_trans w3 w' (unfault w') Hsim (sim_unfault w'))).
    split; [discriminate | split; [exact Hc | split; [exact Hf | split; [| split; [| split]]]]].
    - exact (Inv_sim w3 (unfault w') HI3 (quiet_unfault w' Hc) Hsim').
    - exact (ext_sim wq w3 (unfault w') l Hext Hsim').
    - intros _. exact Hs.
    - intros _ _. right. exact Hex.
  Qed.

  (** a first stage that was executed as without plan *)
  Lemma tbpost_pre (l1 l2 l : list str) (wq w1 : world) (r : mres unit) (w' : world) :
    ext Vb wq w1 l1 -> (spent (lw w1) <-> spent (lw wq)) -> tbpost l2 w1 r w' ->
    incl l1 l -> incl l2 l -> tbpost l wq r w'.
  Proof.
    intros Hext Hsp (C1 & C2 & C3 & C4 & C5 & C6 & C7) Hi1 Hi2.
    split; [exact C1 | split; [exact C2 | split; [exact C3 | split; [exact C4 | split; [| split]]]]].
    - exact (ext_trans Vb wq w1 (unfault w') l1 l2 l Hext C5 Hi1 Hi2).
    - intros Hs. apply C6. apply Hsp. exact Hs.
    - intros Hns Hs. apply C7; [| exact Hs]. intros H. apply Hns. apply Hsp. exact H.
  Qed.

  (** ** the final phase of [try_backup]: a regular file *)
  Lemma tb_fileF (wq : world) (p : str) (fi : finfo) (m : meta) (c : list N) :
    inv wq -> snolinkpar (Vb wq) p -> w_infos wq !! p = None ->
    Vb wq !! p = Some (File m c) -> info_matches fi (File m c) ->
    Forall (tracked wq) (ancestors p) ->
    exists r w', tb_file base backup p fi (lw wq) = (r, w') /\ tbpost [p] wq r w' /\
                 (r = MOk tt -> tracked (unfault w') p).
  Proof.
    intros HI Hnlp Hun Hb Him Hanc. pose proof (inv_quiet _ _ _ _ HI) as Hq.
    destruct (tb_file_spec base backup Vb Vk tnb tnk accb acck rhb rhk whb whk hid anc B0 HLb HLk Hsmall HwfB0
                wq p fi m c HI Hnlp Hun Hb Him Hanc) as (wqf & Hrunq & HIq & Hextq & Htrq).
    assert (Hfin : cleanrun (tb_file base backup p fi) wq fl ->
              exists r w', tb_file base backup p fi (lw wq) = (r, w') /\ tbpost [p] wq r w' /\
                           (r = MOk tt -> tracked (unfault w') p)).
    { intros Hc. destruct (tbpost_clean [p] _ wq wqf (MOk tt) Hc Hrunq HIq Hextq) as [Hrunf Hpost].
      exists (MOk tt), (lw wqf). split; [exact Hrunf | split; [exact Hpost |]]. intros _.
      rewrite (unfault_lw wqf (inv_quiet _ _ _ _ HIq)). exact Htrq. }
    unfold tb_file in Hfin |- *.
    (* the run without plan, call by call *)
    destruct (law_open_file _ _ _ _ _ _ _ _ _ Lb wq p m c Hq (inv_wf_b _ _ _ _ HI) Hnlp Hb)
      as (sf & (w1 & Hrun1 & HVb1 & Hsr1) & Hrh).
    pose proof (same_all_base Vb Vk wq w1 HVb1 Hsr1) as Hsa1.
    pose proof (Inv_transfer Vb Vk B0 wq w1 HI Hsa1) as HI1.
    pose proof Hsa1 as (_ & HVk1 & Hi1 & Hcr1 & Hfa1).
    pose proof (inv_quiet _ _ _ _ HI1) as Hq1.
    assert (Hun1 : w_infos w1 !! p = None) by (rewrite Hi1; exact Hun).
    assert (Hb1 : Vb w1 !! p = Some (File m c)) by (rewrite HVb1; exact Hb).
    assert (Hanc1 : Forall (tracked w1) (ancestors p)).
    { eapply List.Forall_impl; [| exact Hanc]. intros q Hq0. unfold tracked in *. rewrite Hi1. exact Hq0. }
    assert (Hne : p <> s_root) by (apply (not_root_of Vb Vk B0 wq p _ HI Hb); discriminate).
    destruct (info_matches_nonneg fi _ Him) as [Hu Hg].
    destruct (untracked_orig Vb Vk B0 w1 p _ HI1 Hun1 Hb1) as (n0 & Hn0 & He0).
    assert (Hsm : small c).
    { destruct n0 as [m0 | m0 c0 | m0 t0]; simpl in He0; try contradiction.
      destruct He0 as [_ <-]. exact (Hsmall p m0 c Hn0). }
    pose proof (backup_sdirect Vb Vk B0 HwfB0 w1 p _ HI1 Hun1 Hb1 Hanc1) as Hdir1.
    pose proof (untracked_backup_none Vb Vk B0 w1 p HI1 Hun1 Hne) as Hnone1.
    destruct (copy_file_spec backup base Vk Vb tnk tnb acck accb rhk rhb whk whb nohid hid nohid anc Lk Lb
                w1 p fi sf p m c Hq1 (inv_wf_k _ _ _ _ HI1) (inv_wf_b _ _ _ _ HI1)
                Hdir1 (proj1 Him) Hu Hg (or_introl Hnone1) Hrh Hb1 Hsm (not_nohid _))
      as (w2 & m' & Hrun2 & (Hsr2 & Hwf2 & Heqv2) & Hk2 & Hmeta & Hmt).
    pose proof Hsr2 as (HVb2 & Hi2 & Hcr2 & Hfa2).
    pose proof (quiet_same_rest Vb w1 w2 Hq1 Hsr2) as Hq2.
    assert (Hun2 : w_infos w2 !! p = None) by (rewrite Hi2; exact Hun1).
    set (w3 := with_infos w2 (<[p := Some fi]> (w_infos w2))).
    assert (Hq3 : quiet w3) by (exact (quiet_with_infos w2 _ Hq2)).
    assert (HVb3 : Vb w3 = Vb w1).
    { unfold w3. rewrite (law_infos_indep _ _ _ _ _ _ _ _ _ Lb). exact HVb2. }
    assert (HVk3 : Vk w3 = Vk w2) by (unfold w3; apply (law_infos_indep _ _ _ _ _ _ _ _ _ Lk)).
    assert (Hi3 : w_infos w3 = <[p := Some fi]> (w_infos w1)) by (unfold w3; simpl; rewrite Hi2; reflexivity).
    assert (HI3 : inv w3).
    { apply (Inv_track Vb Vk B0 w1 w3 p (Some fi) HI1 Hun1 Hi3 HVb3).
      - simpl. exact Hcr2.
      - simpl. exact Hfa2.
      - rewrite HVk3. exact Hwf2.
      - rewrite HVk3. exact Heqv2.
      - rewrite HVb1. exact Hnlp.
      - exists (File m c). split; [exact Hb1 | split; [exact Him | split; [exact Hanc1 | right]]].
        exists (File m' c). split; [rewrite HVk3; exact Hk2 |].
        simpl. split; [| reflexivity].
        eapply file_meta_eq; [exact Him | | exact Hmeta | exact Hmt].
        exact (swf_lookup_perm12 _ _ _ (inv_wf_b _ _ _ _ HI) Hb). }
    assert (Hext3 : ext Vb wq w3 [p]).
    { eapply ext_trans; [exact (same_all_ext Vb Vk wq w1 [p] Hsa1)
                        | exact (ext_track Vb w1 w3 p (Some fi) HVb3 Hi3 Hun1) | apply incl_refl | apply incl_refl]. }
    destruct (law_hclose_r _ _ _ _ _ _ _ _ _ Lb w3 sf p 0%nat Hq3 Hrh) as (w4 & Hrun4 & HVb4 & Hsr4).
    pose proof (set_info_new p (Some fi) w2 Hun2) as Hrun3. fold w3 in Hrun3.
    (* with the plan *)
    destruct (fcall_cases (eq tagb) (a_open base p) wq fl (flaw_open _ _ _ _ _ HFb p) Hq)
      as [Hc1 | (w' & Hrunf1 & Hsim & Hc' & Hf' & Hns & Hs1 & Hex)].
    2:{ exists (MErr EIO), w'. split; [exact (bind_err _ _ _ _ EIO Hrunf1) | split; [| intros D; discriminate D]].
        exact (tbpost_err_sim [p] wq wq w' EIO HI eq_refl eq_refl Hsim Hc' Hf' (Hs1 Hsingle)). }
    destruct (cleanrun_result _ wq fl _ w1 Hc1 Hrun1) as (_ & _ & Hrunf1 & Hsp1).
    fold (lw wq) in Hrunf1, Hsp1. fold (lw w1) in Hrunf1, Hsp1.
    destruct (fstrict_cases _ _ _ _ _
                (copy_file_strict backup base Vk Vb tnk tnb acck accb rhk rhb whk whb nohid hid nohid anc tagk Lk Lb HFk fl Kany
                   w1 p fi sf p m c Hq1 (inv_wf_k _ _ _ _ HI1) (inv_wf_b _ _ _ _ HI1)
                   Hdir1 (proj1 Him) Hu Hg (or_introl Hnone1) Hrh Hb1 Hsm I (fun _ _ _ => I) (not_nohid _)))
      as [Hc2 | (e & w' & Hrun2f & Hh & Hc' & Hf' & Hns & Hs1 & Hex & ws & Hmid & Hqs & Hsim)].
    2:{ destruct (cleanupF w1 w' ws p HI1 Hun1 Hne Hnone1 Hdir1 Hmid Hqs Hsim Hc' Hf' (Hs1 Hsingle))
          as (x & w'' & Hcl & Hc'' & Hf'' & Hs'' & HI'' & HVb'' & Hi'').
        destruct (try_hclose_any sf w'' Hc'') as (y & w3' & Hcl3 & Hsim3 & Hc3' & Hf3' & Hsp3').
        exists (MErr e), w3'. split; [| split; [| intros D; discriminate D]].
        - rewrite (bind_ok _ _ _ _ _ Hrunf1).
          rewrite (bind_ok _ _ (lw w1) w' (Err e) (try_err _ _ _ e Hrun2f)). cbv beta iota.
          rewrite (bind_ok _ _ w' w'' x Hcl). rewrite (bind_ok _ _ w'' w3' y Hcl3). reflexivity.
        - exact (tbpost_err_sim [p] wq (unfault w'') w3' e HI'' ltac:(congruence) ltac:(congruence)
                   (sim_trans (unfault w'') w'' w3' (conj eq_refl eq_refl) Hsim3) Hc3' ltac:(congruence)
                   (Hsp3' Hs'')). }
    destruct (cleanrun_result _ w1 fl _ w2 Hc2 Hrun2) as (_ & _ & Hrunf2 & Hsp2).
    assert (Hc3 : cleanrun (set_info_if_new p (Some fi)) w2 fl).
    { apply cleanrun_plain; [apply fplain_set_info_if_new | exact Hq2]. }
    destruct (cleanrun_result _ w2 fl _ w3 Hc3 Hrun3) as (_ & _ & Hrunf3 & Hsp3).
    destruct (fcall_cases (eq tagb) (hclose sf) w3 fl
                (fcall_hclose _ sf (handle_tag_T tagb sf (flaw_rh _ _ _ _ _ HFb sf p 0%nat Hrh))) Hq3)
      as [Hc4 | (w' & Hrunf4 & Hsim & Hc' & Hf' & Hns & Hs1 & Hex)].
    - apply Hfin. eapply cleanrun_bind_ok; [exact Hrun1 | exact Hc1 |].
      eapply cleanrun_bind_ok; [exact (try_ok _ w1 w2 tt Hrun2) | apply cleanrun_try; exact Hc2 |].
      cbv beta iota.
      eapply cleanrun_bind_ok; [exact Hrun3 | exact Hc3 |].
      eapply cleanrun_bind_ok; [exact (try_ok _ w3 w4 tt Hrun4) | apply cleanrun_try; exact Hc4 |].
      apply cleanrun_plain; [apply fplain_ret | exact (quiet_same_rest Vk w3 w4 Hq3 Hsr4)].
    - exists (MOk tt), w'. split; [| split].
      + rewrite (bind_ok _ _ _ _ _ Hrunf1).
        rewrite (bind_ok _ _ (lw w1) (set_faults w2 fl) (Ok tt) (try_ok _ _ _ tt Hrunf2)). cbv beta iota.
        rewrite (bind_ok _ _ (set_faults w2 fl) (set_faults w3 fl) tt Hrunf3).
        rewrite (bind_ok _ _ (set_faults w3 fl) w' (Err EIO) (try_err _ _ _ EIO Hrunf4)). reflexivity.
      + apply (tbpost_swallow [p] wq w3 w' HI3 Hext3 Hsim Hc' Hf' (Hs1 Hsingle)).
        destruct Hex as (f & Hin & Hft). exists f. split; [exact Hin | symmetry; exact Hft].
      + intros _. unfold tracked. change (w_infos (unfault w')) with (w_infos w').
        rewrite (proj2 Hsim), Hi3, lookup_insert. discriminate.
  Qed.

  (** ** ... a symlink *)
  Lemma tb_linkF (wq : world) (p : str) (fi : finfo) (m : meta) (t : str) :
    inv wq -> snolinkpar (Vb wq) p -> w_infos wq !! p = None ->
    Vb wq !! p = Some (Link m t) -> info_matches fi (Link m t) ->
    Forall (tracked wq) (ancestors p) ->
    exists r w', tb_link base backup p fi (lw wq) = (r, w') /\ tbpost [p] wq r w' /\
                 (r = MOk tt -> tracked (unfault w') p).
  Proof.
    intros HI Hnlp Hun Hb Him Hanc. pose proof (inv_quiet _ _ _ _ HI) as Hq.
    destruct (tb_link_spec base backup Vb Vk tnb tnk accb acck rhb rhk whb whk hid anc B0 HLb HLk Hlinks HwfB0
                wq p fi m t HI Hnlp Hun Hb Him Hanc) as (wqf & Hrunq & HIq & Hextq & Htrq).
    assert (Hfin : cleanrun (tb_link base backup p fi) wq fl ->
              exists r w', tb_link base backup p fi (lw wq) = (r, w') /\ tbpost [p] wq r w' /\
                           (r = MOk tt -> tracked (unfault w') p)).
    { intros Hc. destruct (tbpost_clean [p] _ wq wqf (MOk tt) Hc Hrunq HIq Hextq) as [Hrunf Hpost].
      exists (MOk tt), (lw wqf). split; [exact Hrunf | split; [exact Hpost |]]. intros _.
      rewrite (unfault_lw wqf (inv_quiet _ _ _ _ HIq)). exact Htrq. }
    unfold tb_link in Hfin |- *.
    assert (Hne : p <> s_root) by (apply (not_root_of Vb Vk B0 wq p _ HI Hb); discriminate).
    destruct (info_matches_nonneg fi _ Him) as [Hu Hg].
    destruct (untracked_orig Vb Vk B0 wq p _ HI Hun Hb) as (n0 & Hn0 & He0).
    destruct n0 as [m0 | m0 c0 | m0 t0]; simpl in He0; try contradiction.
    destruct He0 as [Hm0 <-].
    destruct (Hlinks p m0 t Hn0) as (_ & Htnk & Htne & _ & Hacc & Hperm0).
    pose proof (backup_sdirect Vb Vk B0 HwfB0 wq p _ HI Hun Hb Hanc) as Hdir.
    pose proof (untracked_backup_none Vb Vk B0 wq p HI Hun Hne) as Hnone.
    destruct (copy_symlink_spec backup base Vk Vb tnk tnb acck accb rhk rhb whk whb nohid hid nohid anc Lk Lb
                wq p fi m t Hq (inv_wf_k _ _ _ _ HI) (inv_wf_b _ _ _ _ HI) Hnlp Hb
                Hdir Hnone (proj1 Him) Hu Hg Htne Hacc (not_nohid _))
      as (w2 & m' & Hrun2 & (Hsr2 & _) & _).
    destruct (fstrict_cases _ _ _ _ _
                (copy_symlink_strict backup base Vk Vb tnk tnb acck accb rhk rhb whk whb nohid hid nohid anc tagk tagb Lk Lb HFk HFb fl Kany
                   wq p fi m t Hq (inv_wf_k _ _ _ _ HI) (inv_wf_b _ _ _ _ HI) Hnlp Hb
                   Hdir Hnone (proj1 Him) Htne Hacc I (fun _ => I) (not_nohid _)))
      as [Hc2 | (e & w' & Hrun2f & Hh & Hc' & Hf' & Hns & Hs1 & Hex & ws & Hmid & Hqs & Hsim)].
    - apply Hfin. eapply cleanrun_bind_ok; [exact (try_ok _ wq w2 tt Hrun2) | apply cleanrun_try; exact Hc2 |].
      apply cleanrun_plain; [apply fplain_set_info_if_new | exact (quiet_same_rest Vb wq w2 Hq Hsr2)].
    - destruct (cleanupF wq w' ws p HI Hun Hne Hnone Hdir Hmid Hqs Hsim Hc' Hf' (Hs1 Hsingle))
        as (x & w'' & Hcl & Hc'' & Hf'' & Hs'' & HI'' & HVb'' & Hi'').
      exists (MErr e), w''. split; [| split; [| intros D; discriminate D]].
      + rewrite (bind_ok _ _ (lw wq) w' (Err e) (try_err _ _ _ e Hrun2f)). cbv beta iota.
        rewrite (bind_ok _ _ w' w'' x Hcl). reflexivity.
      + exact (tbpost_err_sim [p] wq (unfault w'') w'' e HI'' ltac:(congruence) ltac:(congruence)
                 (conj eq_refl eq_refl) Hc'' Hf'' Hs'').
  Qed.

  (** ** [try_backup] under a single fault: whatever call is refused, the
      invariant survives, the base is untouched, bookkeeping only grows; a
      refused call that does not make [try_backup] fail is a call on the base
      filesystem (the final Close of the original) *)
  Lemma try_backupF (wq : world) (p : str) :
    inv wq -> snolinkpar (Vb wq) p ->
    exists r w', try_backup base backup p (lw wq) = (r, w') /\ tbpost (cands p) wq r w' /\
                 (r = MOk tt -> tracked (unfault w') p /\ Forall (tracked (unfault w')) (ancestors p)).
  Proof.
    intros HI Hnlp. pose proof Hnlp as [[Hc Habs] Hf]. pose proof (inv_quiet _ _ _ _ HI) as Hq.
    assert (Hpin : incl [p] (cands p)).
    { intros q [<- | []]. rewrite (cands_last p Hc). apply in_or_app. right. left. reflexivity. }
    rewrite try_backup_eq.
    destruct (fstrict_cases _ _ _ _ _ (backup_required_strict wq p Hq))
      as [Hc1 | (e & w' & Hrun & Hh & Hc' & Hf' & Hns & Hs1 & Hex & ws & Hrd & Hqs & Hsim)].
    2:{ destruct (rd_inv wq ws HI Hrd) as (HIs & HVs & His).
        exists (MErr e), w'. split; [exact (bind_err _ _ _ _ e Hrun) | split; [| intros D; discriminate D]].
        exact (tbpost_err_sim (cands p) wq ws w' e HIs HVs His Hsim Hc' Hf' (Hs1 Hsingle)). }
    (* the rest, from a state reached without refusal *)
    assert (Hrest : forall (info : option finfo) (needs : bool) (w1 : world),
              backup_required base p wq = (MOk (info, needs), w1) -> inv w1 -> ext Vb wq w1 [p] ->
              (exists r w', (backup_dirs base backup (tb_dirpath p info) ;;; tb_tail base backup p info needs) (lw w1) = (r, w') /\
                            tbpost (cands p) w1 r w' /\
                            (r = MOk tt -> tracked (unfault w') p /\ Forall (tracked (unfault w')) (ancestors p))) ->
              exists r w', (r <- backup_required base p ;;
                            backup_dirs base backup (tb_dirpath p (fst r)) ;;; tb_tail base backup p (fst r) (snd r)) (lw wq) = (r, w') /\
                           tbpost (cands p) wq r w' /\
                           (r = MOk tt -> tracked (unfault w') p /\ Forall (tracked (unfault w')) (ancestors p))).
    { intros info needs w1 Hrun1 HI1 Hext1 (r & w' & Hrunr & Hpost & Htr).
      destruct (cleanrun_result _ wq fl _ w1 Hc1 Hrun1) as (_ & _ & Hrunf1 & Hsp1).
      exists r, w'. split; [rewrite (bind_ok _ _ _ _ _ Hrunf1); exact Hrunr | split; [| exact Htr]].
      exact (tbpost_pre [p] (cands p) (cands p) wq w1 r w' Hext1 Hsp1 Hpost Hpin (incl_refl _)). }
    (* directories, then nothing more *)
    assert (Hdirs_only : forall (info : option finfo) (w1 : world),
              inv w1 -> snolinkpar (Vb w1) p -> tracked w1 p ->
              ((tb_dirpath p info = p /\ (forall n, Vb w1 !! p = Some n -> node_kind n = KDir)) \/ tb_dirpath p info = dir p) ->
              exists r w', (backup_dirs base backup (tb_dirpath p info) ;;; tb_tail base backup p info false) (lw w1) = (r, w') /\
                           tbpost (cands p) w1 r w' /\
                           (r = MOk tt -> tracked (unfault w') p /\ Forall (tracked (unfault w')) (ancestors p))).
    { intros info w1 HI1 Hnlp1 Htp1 Hcase.
      destruct (dirs_phaseF w1 p (tb_dirpath p info) HI1 Hnlp1 Hcase) as (r & w' & Hrun & Hpost & Htr & _).
      pose proof Hpost as (Hnh & _ & _ & _ & Hext & _).
      destruct r as [[] | e |]; [| | contradiction Hnh; reflexivity].
      - exists (MOk tt), w'. split; [rewrite (bind_ok _ _ _ _ tt Hrun); reflexivity | split; [exact Hpost |]].
        intros _. split; [exact (ext_tracked _ _ _ _ _ Hext Htp1) | exact (proj1 (Htr eq_refl))].
      - exists (MErr e), w'. split; [rewrite (bind_err _ _ _ _ e Hrun); reflexivity | split; [exact Hpost |]].
        intros D. discriminate D. }
    destruct (w_infos wq !! p) as [info|] eqn:Hi.
    { (* already tracked *)
      apply (Hrest info false wq (backup_required_seen base wq p info Hi) HI (ext_refl Vb wq [p])).
      apply (Hdirs_only info wq HI Hnlp); [unfold tracked; rewrite Hi; discriminate |].
      unfold tb_dirpath. destruct info as [fi|]; [| right; reflexivity].
      destruct (is_dir_info fi) eqn:Ed; [left | right; reflexivity].
      split; [reflexivity |]. intros n Hn. rewrite (inv_kind _ _ _ _ HI p fi n Hi Hn).
      unfold is_dir_info in Ed. destruct (fi_kind fi); [reflexivity | discriminate Ed | discriminate Ed]. }
    destruct (Vb wq !! p) as [n|] eqn:Hb.
    2:{ (* did not exist *)
      destruct (backup_required_none base backup Vb Vk tnb tnk accb acck rhb rhk whb whk hid anc B0 HLb HLk
                  wq p HI Hnlp Hi Hb) as (w1 & Hrun1 & HI1 & Hext1 & Htr1).
      pose proof Hext1 as (HVb1 & _ & _).
      apply (Hrest None false w1 Hrun1 HI1 Hext1).
      apply (Hdirs_only None w1 HI1); [rewrite HVb1; exact Hnlp | unfold tracked; rewrite Htr1; discriminate |].
      right. reflexivity. }
    (* exists and is not yet tracked *)
    destruct (backup_required_some base Vb Vk tnb accb rhb whb hid anc B0 HLb wq p n HI Hnlp Hi Hb)
      as (fi & w1 & Hrun1 & Hsa1 & Him).
    pose proof (Inv_transfer Vb Vk B0 wq w1 HI Hsa1) as HI1.
    pose proof Hsa1 as (HVb1 & HVk1 & Hi1 & Hcr1 & Hfa1).
    assert (Hnlp1 : snolinkpar (Vb w1) p) by (rewrite HVb1; exact Hnlp).
    assert (Hun1 : w_infos w1 !! p = None) by (rewrite Hi1; exact Hi).
    assert (Hb1 : Vb w1 !! p = Some n) by (rewrite HVb1; exact Hb).
    apply (Hrest (Some fi) true w1 Hrun1 HI1 (same_all_ext Vb Vk wq w1 [p] Hsa1)).
    assert (Hcase : (tb_dirpath p (Some fi) = p /\ (forall n', Vb w1 !! p = Some n' -> node_kind n' = KDir)) \/
                    tb_dirpath p (Some fi) = dir p).
    { unfold tb_dirpath. destruct (is_dir_info fi) eqn:Ed; [left | right; reflexivity].
      split; [reflexivity |]. intros n' Hn'. rewrite Hb1 in Hn'. injection Hn' as <-.
      rewrite <- (proj1 Him). unfold is_dir_info in Ed.
      destruct (fi_kind fi); [reflexivity | discriminate Ed | discriminate Ed]. }
    destruct (dirs_phaseF w1 p (tb_dirpath p (Some fi)) HI1 Hnlp1 Hcase) as (r & w2 & Hrun2 & Hpost2 & Htr2 & Hkeep).
    pose proof Hpost2 as (Hnh2 & Hc2 & Hf2 & HI2 & Hext2 & _).
    destruct r as [[] | e |]; [| | contradiction Hnh2; reflexivity].
    2:{ exists (MErr e), w2. split; [rewrite (bind_err _ _ _ _ e Hrun2); reflexivity | split; [exact Hpost2 |]].
        intros D. discriminate D. }
    destruct (Htr2 eq_refl) as [Hanc2 Hself2].
    pose proof Hext2 as (HVb2 & _ & _).
    assert (Hne : node_kind n <> KDir -> p <> s_root).
    { intros Hk. exact (not_root_of Vb Vk B0 wq p n HI Hb Hk). }
    assert (Hdp : node_kind n <> KDir -> tb_dirpath p (Some fi) <> p).
    { intros Hk. unfold tb_dirpath, is_dir_info. rewrite (proj1 Him).
      destruct (node_kind n) eqn:Ek; [contradiction Hk; reflexivity | |]; intros E;
        pose proof (dir_in_ancestors p (conj Hc Habs) (Hne Hk)) as Hin; rewrite E in Hin;
        exact (ancestors_not_self p Hc Hin). }
    rewrite (bind_ok _ _ _ _ tt Hrun2). unfold tb_tail. cbn [negb].
    destruct n as [m | m c | m t].
    - assert (Hk : fi_kind fi = KDir) by exact (proj1 Him). rewrite Hk.
      exists (MOk tt), w2. split; [reflexivity | split; [exact Hpost2 |]].
      intros _. split; [| exact Hanc2]. apply Hself2. unfold tb_dirpath, is_dir_info. rewrite Hk. reflexivity.
    - assert (Hk : fi_kind fi = KFile) by exact (proj1 Him). rewrite Hk.
      destruct (tb_fileF (unfault w2) p fi m c HI2) as (r3 & w3 & Hrun3 & Hpost3 & Htr3).
      + rewrite HVb2. exact Hnlp1.
      + exact (Hkeep (Hdp ltac:(discriminate)) Hun1).
      + rewrite HVb2. exact Hb1.
      + exact Him.
      + exact Hanc2.
      + rewrite (lw_unfault w2 Hf2) in Hrun3.
        exists r3, w3. split; [exact Hrun3 | split].
        * exact (tbpost_trans (cands p) [p] (cands p) w1 (MOk tt) r3 w2 w3 Hpost2 ltac:(discriminate) Hpost3
                   (incl_refl _) Hpin).
        * intros Hr. split; [exact (Htr3 Hr) |].
          destruct Hpost3 as (_ & _ & _ & _ & Hext3 & _).
          eapply List.Forall_impl; [| exact Hanc2]. intros q Hq0. exact (ext_tracked _ _ _ _ _ Hext3 Hq0).
    - assert (Hk : fi_kind fi = KLink) by exact (proj1 Him). rewrite Hk.
      destruct (tb_linkF (unfault w2) p fi m t HI2) as (r3 & w3 & Hrun3 & Hpost3 & Htr3).
      + rewrite HVb2. exact Hnlp1.
      + exact (Hkeep (Hdp ltac:(discriminate)) Hun1).
      + rewrite HVb2. exact Hb1.
      + exact Him.
      + exact Hanc2.
      + rewrite (lw_unfault w2 Hf2) in Hrun3.
        exists r3, w3. split; [exact Hrun3 | split].
        * exact (tbpost_trans (cands p) [p] (cands p) w1 (MOk tt) r3 w2 w3 Hpost2 ltac:(discriminate) Hpost3
                   (incl_refl _) Hpin).
        * intros Hr. split; [exact (Htr3 Hr) |].
          destruct Hpost3 as (_ & _ & _ & _ & Hext3 & _).
          eapply List.Forall_impl; [| exact Hanc2]. intros q Hq0. exact (ext_tracked _ _ _ _ _ Hext3 Hq0).
  Qed.

  (* ---------------------------------------------------------------- *)
  (** * In terms of worlds with the plan *)

  (** the invariant, and the plan is [fl] *)
  Definition IF (w : world) : Prop := InvF Vb Vk B0 w /\ w_faults w = fl.

  (** no entry of the plan is for the base filesystem *)
  Definition nobase : Prop := forall f, In f fl -> f_fs f <> tagb.

  Lemma Vb_unfault (w : world) : Vb (unfault w) = Vb w.
  Proof. exact (Vb_sim w (unfault w) (sim_unfault w)). Qed.
  Lemma Vk_unfault (w : world) : Vk (unfault w) = Vk w.
  Proof. exact (Vk_sim w (unfault w) (sim_unfault w)). Qed.
  Lemma Vb_lw (w : world) : Vb (lw w) = Vb w.
  Proof. exact (Vb_sim w (lw w) (sim_lift w fl)). Qed.
  Lemma Vk_lw (w : world) : Vk (lw w) = Vk w.
  Proof. exact (Vk_sim w (lw w) (sim_lift w fl)). Qed.

  Lemma IF_parts (w : world) :
    IF w -> inv (unfault w) /\ quiet (unfault w) /\ lw (unfault w) = w /\ w_crash w = None.
  Proof.
    intros [[Hc HI] Hf]. split; [exact HI | split; [exact (quiet_unfault w Hc) | split; [exact (lw_unfault w Hf) | exact Hc]]].
  Qed.

  Lemma IF_lw (w1 : world) : inv w1 -> IF (lw w1).
  Proof.
    intros HI. pose proof (inv_quiet _ _ _ _ HI) as Hq. split; [| reflexivity].
    split; [exact (proj1 Hq) |]. rewrite (unfault_lw w1 Hq). exact HI.
  Qed.

  Lemma IF_wf_b (w : world) : IF w -> swf (Vb w).
  Proof. intros H. destruct (IF_parts w H) as (HI & _). rewrite <- Vb_unfault. exact (inv_wf_b _ _ _ _ HI). Qed.

  (** the state did not change *)
  Lemma IF_sim (w w' : world) : IF w -> sim w w' -> w_crash w' = None -> w_faults w' = fl -> IF w'.
  Proof.
    intros H Hs Hc Hf. destruct (IF_parts w H) as (HI & Hq & _). split; [| exact Hf]. split; [exact Hc |].
    apply (Inv_sim (unfault w) (unfault w') HI (quiet_unfault w' Hc)).
    exact (sim_trans _ _ _ (sim_trans _ _ _ (conj eq_refl eq_refl : sim (unfault w) w) Hs) (sim_unfault w')).
  Qed.

  Lemma ext_unfault (w w' : world) (l : list str) : ext Vb (unfault w) (unfault w') l -> ext Vb w w' l.
  Proof. unfold ext. rewrite !Vb_unfault. intros H. exact H. Qed.

  (** [try_backup] in these terms *)
  Lemma try_backupFw (w : world) (p : str) :
    IF w -> snolinkpar (Vb w) p ->
    exists r w', try_backup base backup p w = (r, w') /\ r <> MHalt /\ IF w' /\
                 ext Vb w w' (cands p) /\
                 (r = MOk tt -> tracked w' p /\ Forall (tracked w') (ancestors p)) /\
                 (spent w -> spent w') /\
                 (~ spent w -> spent w' -> (exists e, r = MErr e) \/ (exists f, In f fl /\ f_fs f = tagb)).
  Proof.
    intros H Hnlp. destruct (IF_parts w H) as (HI & Hq & Hlw & Hc).
    destruct (try_backupF (unfault w) p HI) as (r & w' & Hrun & (P1 & P2 & P3 & P4 & P5 & P6 & P7) & Htr).
    { rewrite Vb_unfault. exact Hnlp. }
    rewrite Hlw in Hrun, P6, P7.
    exists r, w'. split; [exact Hrun | split; [exact P1 | split; [split; [split; assumption | exact P3] |]]].
    split; [exact (ext_unfault w w' _ P5) | split; [exact Htr | split; [exact P6 | exact P7]]].
  Qed.

  (** ** [real_path] on a resolved name *)
  Lemma real_pathF (w : world) (n : str) :
    IF w -> snolinkpar (Vb w) n ->
    exists r w', real_path base n w = (r, w') /\ (r = MOk n \/ exists e, r = MErr e) /\ IF w' /\
                 Vb w' = Vb w /\ Vk w' = Vk w /\ w_infos w' = w_infos w /\
                 (spent w -> spent w') /\ (nobase -> spent w' -> spent w).
  Proof.
    intros H Hnlp. destruct (IF_parts w H) as (HI & Hq & Hlw & Hc).
    assert (Hnlpq : snolinkpar (Vb (unfault w)) n) by (rewrite Vb_unfault; exact Hnlp).
    destruct (real_path_resolved_spec base Vb Vk tnb accb rhb whb hid anc Lb (unfault w) n Hq (inv_wf_b _ _ _ _ HI) Hnlpq)
      as (w1 & Hrun1 & HVb1 & Hsr1).
    destruct (fstrict_cases _ _ _ _ _
                (real_path_strict base Vb Vk tnb accb rhb whb hid anc tagb Lb HFb fl (unfault w) n Hq (inv_wf_b _ _ _ _ HI) Hnlpq))
      as [Hc1 | (e & w' & Hrun & Hh & Hc' & Hf' & Hns & Hs1 & Hex & ws & Hrd & Hqs & Hsim)].
    - destruct (cleanrun_result _ (unfault w) fl _ w1 Hc1 Hrun1) as (_ & Hq1 & Hrunf & Hsp).
      fold (lw (unfault w)) in Hrunf, Hsp. rewrite Hlw in Hrunf, Hsp.
      pose proof (Inv_transfer Vb Vk B0 _ w1 HI (same_all_base Vb Vk _ w1 HVb1 Hsr1)) as HI1.
      exists (MOk n), (set_faults w1 fl). split; [exact Hrunf | split; [left; reflexivity | split; [exact (IF_lw w1 HI1) |]]].
      fold (lw w1). rewrite Vb_lw, Vk_lw, HVb1, (proj1 Hsr1), Vb_unfault, Vk_unfault.
      split; [reflexivity | split; [reflexivity | split; [exact (proj1 (proj2 Hsr1)) | split]]].
      + intros Hs. apply Hsp. exact Hs.
      + intros _ Hs. apply Hsp. exact Hs.
    - fold (lw (unfault w)) in Hrun, Hns. rewrite Hlw in Hrun, Hns. destruct (rd_inv _ ws HI Hrd) as (HIs & HVs & His).
      exists (MErr e), w'. split; [exact Hrun | split; [right; exists e; reflexivity | split]].
      + split; [| exact Hf']. split; [exact Hc' |].
        exact (Inv_sim ws (unfault w') HIs (quiet_unfault w' Hc') (sim_trans _ _ _ Hsim (sim_unfault w'))).
      + destruct Hrd as [HVbs (HVks & _)].
        rewrite (Vb_sim ws w' Hsim), (Vk_sim ws w' Hsim), HVbs, HVks, Vb_unfault, Vk_unfault, (proj2 Hsim), His.
        split; [reflexivity | split; [reflexivity | split; [reflexivity | split]]].
        * intros _. exact (Hs1 Hsingle).
        * intros Hnb _. exfalso. destruct Hex as (f & Hin & Hft). exact (Hnb f Hin (eq_sym Hft)).
  Qed.

  (** ** a framed call of the base filesystem *)
  Lemma framedF {A} (m : M A) (w : world) (l : list str) :
    fcall (eq tagb) m -> IF w -> framed Vb Vk m (unfault w) l ->
    exists r w', m w = (r, w') /\ r <> MHalt /\ fr Vb Vk w w' l /\
                 (spent w -> spent w') /\ (nobase -> spent w' -> spent w).
  Proof.
    intros Hm H Hfr. destruct (IF_parts w H) as (HI & Hq & Hlw & Hc).
    destruct (fcall_cases (eq tagb) m (unfault w) fl Hm Hq)
      as [Hc1 | (w' & Hrunf & Hsim & Hc' & Hf' & Hns & Hs1 & Hex)].
    - destruct Hfr as (r & w1 & Hrun & Hn & Hsr & Hwf & Heqv).
      destruct (cleanrun_result _ (unfault w) fl _ w1 Hc1 Hrun) as (_ & Hq1 & Hrunf & Hsp).
      fold (lw (unfault w)) in Hrunf, Hsp. rewrite Hlw in Hrunf, Hsp.
      exists r, (set_faults w1 fl). split; [exact Hrunf | split; [exact Hn | split; [| split]]].
      + fold (lw w1). unfold fr. rewrite Vb_lw. split; [| split].
        * destruct Hsr as (S1 & S2 & S3 & S4). unfold same_rest. rewrite Vk_lw, S1, Vk_unfault.
          split; [reflexivity | split; [exact S2 | split; [exact S3 | symmetry; exact (proj2 H)]]].
        * exact Hwf.
        * rewrite <- (Vb_unfault w). exact Heqv.
      + intros Hs. apply Hsp. exact Hs.
      + intros _ Hs. apply Hsp. exact Hs.
    - fold (lw (unfault w)) in Hrunf, Hns. rewrite Hlw in Hrunf, Hns.
      assert (Hsim' : sim w w') by (exact (sim_trans _ _ _ (conj eq_refl eq_refl : sim w (unfault w)) Hsim)).
      exists (MErr EIO), w'. split; [exact Hrunf | split; [discriminate | split; [| split]]].
      + apply fr_same; [exact (IF_wf_b w H) | exact (Vb_sim w w' Hsim') |].
        split; [exact (Vk_sim w w' Hsim') | split; [exact (proj2 Hsim') | split; [congruence | rewrite Hf'; symmetry; exact (proj2 H)]]].
      + intros _. exact (Hs1 Hsingle).
      + intros Hnb _. exfalso. destruct Hex as (f & Hin & Hft). exact (Hnb f Hin (eq_sym Hft)).
  Qed.

  (** base calls that touched tracked paths only *)
  Lemma IF_frame (w w' : world) (l : list str) :
    IF w -> fr Vb Vk w w' l -> Forall (tracked w) l -> kind_stable Vb w' -> IF w'.
  Proof.
    intros H (Hsr & Hwf & Heqv) Htl [Hks1 Hks2]. destruct (IF_parts w H) as (HI & Hq & Hlw & Hc).
    destruct Hsr as (S1 & S2 & S3 & S4).
    split; [| rewrite S4; exact (proj2 H)]. split; [congruence |].
    apply (Inv_base_frame Vb Vk B0 (unfault w) (unfault w') l HI).
    - split; [| split].
      + unfold same_rest. rewrite !Vk_unfault. split; [exact S1 | split; [exact S2 | split; [exact S3 | reflexivity]]].
      + rewrite Vb_unfault. exact Hwf.
      + rewrite !Vb_unfault. exact Heqv.
    - exact Htl.
    - split.
      + intros p fi n Hp Hn. rewrite Vb_unfault in Hn. exact (Hks1 p fi n Hp Hn).
      + intros p Hp. rewrite Vb_unfault. exact (Hks2 p Hp).
  Qed.

  (* ---------------------------------------------------------------- *)
  (** * The covered operations *)

  Hypothesis HLb2 : base_laws2 base Vb Vk tnb accb rhb whb.
  Let Lb2 : api_laws2 base Vb Vk tnb accb rhb whb := HLb2.

  (** ** resolve, back up, one call on the base *)
  Lemma guardedF {A} (call : str -> M A) (w : world) (n : str) (l : list str) :
    IF w -> snolinkpar (Vb w) n -> incl l (cands n) ->
    (forall w2, quiet w2 -> swf (Vb w2) -> Vb w2 = Vb w -> framed Vb Vk (call n) w2 l) ->
    fcall (eq tagb) (call n) ->
    exists r w' w2, guarded base backup n call w = (r, w') /\ r <> MHalt /\ IF w2 /\
      ext Vb w w2 (cands n) /\ w_infos w' = w_infos w2 /\
      (((exists e, r = MErr e) /\ w' = w2) \/
       (Forall (tracked w2) l /\ call n w2 = (r, w') /\ fr Vb Vk w2 w' l)) /\
      (spent w -> spent w') /\
      (nobase -> ~ spent w -> spent w' -> (exists e, r = MErr e) /\ w' = w2).
  Proof.
    intros H Hnlp Hincl Hframe Hcall. unfold guarded. pose proof Hnlp as [[Hc _] _].
    destruct (real_pathF w n H Hnlp) as (r1 & w1 & Hrun1 & Hr1 & H1 & HVb1 & HVk1 & Hi1 & Hsp1 & Hnb1).
    assert (Hext1 : ext Vb w w1 (cands n)) by (apply ext_same; assumption).
    destruct Hr1 as [-> | [e ->]].
    2:{ exists (MErr e), w1, w1. split; [exact (bind_err _ _ _ _ e Hrun1) | split; [discriminate |]].
        split; [exact H1 | split; [exact Hext1 | split; [reflexivity | split; [| split]]]].
        - left. split; [exists e; reflexivity | reflexivity].
        - exact Hsp1.
        - intros _ _ _. split; [exists e; reflexivity | reflexivity]. }
    assert (Hnlp1 : snolinkpar (Vb w1) n) by (rewrite HVb1; exact Hnlp).
    destruct (try_backupFw w1 n H1 Hnlp1) as (r2 & w2 & Hrun2 & Hn2 & H2 & Hext2 & Htr2 & Hsp2 & Hfire2).
    assert (Hext : ext Vb w w2 (cands n)).
    { eapply ext_trans; [exact Hext1 | exact Hext2 | apply incl_refl | apply incl_refl]. }
    rewrite (bind_ok _ _ _ _ n Hrun1).
    destruct r2 as [[] | e |]; [| | contradiction Hn2; reflexivity].
    - destruct (Htr2 eq_refl) as [Htn Hanc].
      assert (Hall : Forall (tracked w2) (cands n)).
      { rewrite (cands_last n Hc). apply Forall_app. split; [exact Hanc |].
        constructor; [exact Htn | constructor]. }
      assert (Htl : Forall (tracked w2) l).
      { apply List.Forall_forall. intros q Hq. rewrite List.Forall_forall in Hall.
        exact (Hall q (Hincl q Hq)). }
      pose proof Hext as (HVb2 & _ & _).
      destruct (IF_parts w2 H2) as (HI2 & Hq2 & _).
      destruct (framedF (call n) w2 l Hcall H2) as (r3 & w3 & Hrun3 & Hn3 & Hfr3 & Hsp3 & Hnb3).
      { apply (Hframe (unfault w2) Hq2 (inv_wf_b _ _ _ _ HI2)). rewrite Vb_unfault. exact HVb2. }
      exists r3, w3, w2. split; [rewrite (bind_ok _ _ _ _ tt Hrun2); exact Hrun3 | split; [exact Hn3 |]].
      split; [exact H2 | split; [exact Hext | split; [exact (fr_infos Vb Vk w2 w3 l Hfr3) | split; [| split]]]].
      + right. split; [exact Htl | split; [exact Hrun3 | exact Hfr3]].
      + intros Hs. exact (Hsp3 (Hsp2 (Hsp1 Hs))).
      + intros Hnb Hns Hs3. exfalso.
        assert (Hns1 : ~ spent w1) by (intros Hs1; exact (Hns (Hnb1 Hnb Hs1))).
        assert (Hns2 : ~ spent w2).
        { intros Hs2. destruct (Hfire2 Hns1 Hs2) as [[e He] | (f & Hin & Hft)]; [discriminate He |].
          exact (Hnb f Hin Hft). }
        exact (Hns2 (Hnb3 Hnb Hs3)).
    - exists (MErr e), w2, w2. split; [rewrite (bind_err _ _ _ _ e Hrun2); reflexivity | split; [discriminate |]].
      split; [exact H2 | split; [exact Hext | split; [reflexivity | split; [| split]]]].
      + left. split; [exists e; reflexivity | reflexivity].
      + intros Hs. exact (Hsp2 (Hsp1 Hs)).
      + intros _ _ _. split; [exists e; reflexivity | reflexivity].
  Qed.

  (** ** what every covered operation guarantees under a single fault *)
  Definition keepsF {A} (P : str -> Prop) (w : world) (r : mres A) (w' : world) : Prop :=
    r <> MHalt /\ w_crash w' = None /\ w_faults w' = fl /\
    (kind_stable Vb w' -> IF w') /\ infos_ext_in w w' P /\ (spent w -> spent w').

  Lemma keepsF_weaken {A} (P Q : str -> Prop) (w : world) (r : mres A) (w' : world) :
    (forall q, P q -> Q q) -> keepsF P w r w' -> keepsF Q w r w'.
  Proof.
    intros HPQ (H1 & H2 & H3 & H4 & (Hm & Hd) & H6).
    split; [exact H1 | split; [exact H2 | split; [exact H3 | split; [exact H4 | split; [split; [exact Hm |] | exact H6]]]]].
    intros q Hq. destruct (Hd q Hq) as [H | H]; [left; exact H | right; exact (HPQ q H)].
  Qed.

  Lemma keepsF_frame {A} (P : str -> Prop) (w w2 w' : world) (r : mres A) (l lt : list str) :
    r <> MHalt -> IF w2 -> ext Vb w w2 l -> (forall q, In q l -> P q) ->
    fr Vb Vk w2 w' lt -> Forall (tracked w2) lt -> (spent w -> spent w') -> keepsF P w r w'.
  Proof.
    intros Hnh H2 (_ & Hm & Hd) HP Hfr Htl Hsp.
    pose proof Hfr as ((_ & S2 & S3 & S4) & _). destruct (IF_parts w2 H2) as (_ & _ & _ & Hc2).
    split; [exact Hnh | split; [congruence | split; [rewrite S4; exact (proj2 H2) | split; [| split; [| exact Hsp]]]]].
    - intros Hks. exact (IF_frame w2 w' lt H2 Hfr Htl Hks).
    - unfold infos_ext_in. rewrite S2. split; [exact Hm |].
      intros q Hq. destruct (Hd q Hq) as [Hx | Hx]; [left; exact Hx | right; exact (HP q Hx)].
  Qed.

  Lemma keepsF_inv {A} (P : str -> Prop) (w w2 : world) (r : mres A) (l : list str) :
    r <> MHalt -> IF w2 -> ext Vb w w2 l -> (forall q, In q l -> P q) -> (spent w -> spent w2) ->
    keepsF P w r w2.
  Proof.
    intros Hnh H2 Hext HP Hsp.
    exact (keepsF_frame P w w2 w2 r l [] Hnh H2 Hext HP (fr_refl Vb Vk w2 [] (IF_wf_b w2 H2)) (Forall_nil _) Hsp).
  Qed.

  Lemma keepsF_map {A B} (P : str -> Prop) (m : M A) (f : A -> B) (w0 w w' : world) (r : mres A) :
    m w = (r, w') -> keepsF P w0 r w' ->
    exists r', (x <- m ;; ret (f x)) w = (r', w') /\ keepsF P w0 r' w' /\
               ((exists e, r = MErr e) -> exists e, r' = MErr e).
  Proof.
    intros Hrun (Hnh & Hrest).
    destruct r as [a | e |]; [| | contradiction Hnh; reflexivity].
    - exists (MOk (f a)). split; [rewrite (bind_ok _ _ w w' a Hrun); reflexivity |].
      split; [split; [discriminate | exact Hrest] | intros [e He]; discriminate He].
    - exists (MErr e). split; [rewrite (bind_err _ _ w w' e Hrun); reflexivity |].
      split; [split; [discriminate | exact Hrest] | intros _; exists e; reflexivity].
  Qed.

  (** a unit operation on the resolved name; a refused call on the backup
      filesystem makes it fail with the base untouched *)
  Lemma unit_opF (call : str -> M unit) (w : world) (n : str) (l : list str) :
    IF w -> snolinkpar (Vb w) n -> incl l (cands n) ->
    (forall w2, quiet w2 -> swf (Vb w2) -> Vb w2 = Vb w -> framed Vb Vk (call n) w2 l) ->
    fcall (eq tagb) (call n) ->
    exists r w', (guarded base backup n call ;;; ret ObUnit) w = (r, w') /\
                 keepsF (fun q => In q (cands n)) w r w' /\
                 (nobase -> ~ spent w -> spent w' -> (exists e, r = MErr e) /\ Vb w' = Vb w).
  Proof.
    intros H Hnlp Hincl Hframe Hcall.
    destruct (guardedF call w n l H Hnlp Hincl Hframe Hcall)
      as (r & w' & w2 & Hrun & Hnh & H2 & Hext & Hi & Hcase & Hsp & Hfire).
    assert (Hk : keepsF (fun q => In q (cands n)) w r w').
    { destruct Hcase as [[_ ->] | (Htl & _ & Hfr)].
      - exact (keepsF_inv _ w w2 r (cands n) Hnh H2 Hext (fun q Hq => Hq) Hsp).
      - exact (keepsF_frame _ w w2 w' r (cands n) l Hnh H2 Hext (fun q Hq => Hq) Hfr Htl Hsp). }
    destruct (keepsF_map _ (guarded base backup n call) (fun _ => ObUnit) w w w' r Hrun Hk) as (r' & Hrun' & Hk' & Herr).
    exists r', w'. split; [exact Hrun' | split; [exact Hk' |]].
    intros Hnb Hns Hs. destruct (Hfire Hnb Hns Hs) as [He ->]. split; [exact (Herr He) | exact (proj1 Hext)].
  Qed.

  (** ** calls on handles of the base filesystem that leave the state alone *)
  Lemma simcallF {A} (m : M A) (w : world) :
    fcall (eq tagb) m -> (forall x r x', m x = (r, x') -> sim x x') ->
    w_crash w = None -> w_faults w = fl ->
    exists r w', m w = (r, w') /\ r <> MHalt /\ sim w w' /\ w_crash w' = None /\ w_faults w' = fl /\
                 (spent w -> spent w') /\ (nobase -> spent w' -> spent w).
  Proof.
    intros Hm Hsim Hc Hf.
    destruct (Hm w Hc) as [(r & w1 & Hrun & Hn & Hq1 & Hrunf & Hsp) | (w' & Hrun & Hst & Hi & Hc' & Hf' & Hns & Hs1 & (f & Hin & Hft))].
    - exists r, (set_faults w1 (w_faults w)). split; [exact Hrunf | split; [exact Hn | split; [exact (Hsim _ _ _ Hrunf) |]]].
      split; [exact (proj1 Hq1) | split; [exact Hf | split; [intros Hs; apply Hsp; exact Hs | intros _ Hs; apply Hsp; exact Hs]]].
    - exists (MErr EIO), w'. split; [exact Hrun | split; [discriminate | split; [split; assumption |]]].
      split; [exact Hc' | split; [congruence | split; [intros Hs; contradiction |]]].
      intros Hnb _. exfalso. rewrite Hf in Hin. exact (Hnb f Hin (eq_sym Hft)).
  Qed.

  Lemma fr_sim (w w' : world) (l : list str) :
    swf (Vb w) -> sim w w' -> w_crash w' = w_crash w -> w_faults w' = w_faults w -> fr Vb Vk w w' l.
  Proof.
    intros Hwf Hs Hc Hf. apply fr_same; [exact Hwf | exact (Vb_sim w w' Hs) |].
    split; [exact (Vk_sim w w' Hs) | split; [exact (proj2 Hs) | split; assumption]].
  Qed.

  (** ** writing through a handle of the base filesystem, then closing it *)
  Lemma write_closeF (h : fhandle) (d : list N) (w1 : world) (l : list str) :
    quiet w1 -> swf (Vb w1) -> handle_tag tagb h -> framed Vb Vk (write_close h d) w1 l ->
    exists r w'', write_close h d (lw w1) = (r, w'') /\ r <> MHalt /\ fr Vb Vk (lw w1) w'' l /\
                  (spent (lw w1) -> spent w'') /\ (nobase -> spent w'' -> spent (lw w1)).
  Proof.
    intros Hq1 Hwf1 Hh (r4 & w4 & Hrun4 & Hn4 & Hsr4 & Hwf4 & Heqv4).
    assert (HT : forall t q, fh_spy h = Some (t, q) -> eq tagb t) by (exact (handle_tag_T tagb h Hh)).
    assert (Hclose : forall wx, w_crash wx = None -> w_faults wx = fl ->
              exists rc w'', hclose h wx = (rc, w'') /\ rc <> MHalt /\ sim wx w'' /\ w_crash w'' = None /\
                             w_faults w'' = fl /\ (spent wx -> spent w'') /\ (nobase -> spent w'' -> spent wx)).
    { intros wx Hc Hf. exact (simcallF (hclose h) wx (fcall_hclose _ h HT) (hclose_sim h) Hc Hf). }
    assert (Hwfl : swf (Vb (lw w1))) by (rewrite Vb_lw; exact Hwf1).
    assert (Hfin : forall (x : res fhandle) (wx w'' : world) (rc : mres unit),
              hclose h wx = (rc, w'') -> rc <> MHalt ->
              exists r, (c <- try_ (hclose h) ;;
                         match x, c with
                         | Err e, _ => fail e
                         | Ok _, Err e => fail e
                         | Ok _, Ok _ => ret tt
                         end) wx = (r, w'') /\ r <> MHalt).
    { intros x wx w'' rc Hcl Hnc. unfold bind, try_. rewrite Hcl.
      destruct rc as [[] | e |]; [| | contradiction Hnc; reflexivity]; destruct x as [hx | ex];
        eexists; split; try reflexivity; discriminate. }
    unfold write_close. destruct d as [|x0 d'].
    - destruct (Hclose (lw w1) (proj1 Hq1) eq_refl) as (rc & w'' & Hcl & Hnc & Hsim & Hc'' & Hf'' & Hsp & Hnb).
      destruct (Hfin (Ok h) (lw w1) w'' rc Hcl Hnc) as (r & Hr & Hnr).
      exists r, w''. split; [rewrite (bind_ok _ _ (lw w1) (lw w1) (Ok h) eq_refl); exact Hr |].
      split; [exact Hnr | split; [| split; assumption]].
      apply (fr_trans Vb Vk (lw w1) (lw w1) w'' l); [apply fr_refl; exact Hwfl |].
      apply fr_sim; [exact Hwfl | exact Hsim | rewrite Hc''; symmetry; exact (proj1 Hq1) | exact Hf''].
    - destruct (fcall_cases (eq tagb) (hwrite h (x0 :: d')) w1 fl (fcall_hwrite _ h HT (x0 :: d')) Hq1)
        as [Hcw | (wx & Hrunw & Hsimw & Hcx & Hfx & Hns & Hs1 & (f & Hin & Hft))].
      + destruct (hwrite h (x0 :: d') w1) as [r1 w1'] eqn:Hw.
        destruct (cleanrun_result _ w1 fl r1 w1' Hcw Hw) as (Hn1 & Hq1' & Hrunf & Hspw).
        destruct (write_close_mid h (x0 :: d') w1 w4 r4 r1 w1' ltac:(discriminate) Hrun4 Hn4 Hw) as [rcq Hclq].
        pose proof (hclose_sim h w1' rcq w4 Hclq) as Hsimq.
        destruct (Hclose (set_faults w1' fl) (proj1 Hq1') eq_refl) as (rc & w'' & Hcl & Hnc & Hsim & Hc'' & Hf'' & Hsp & Hnb).
        assert (Hx : exists x, try_ (hwrite h (x0 :: d')) (lw w1) = (MOk x, set_faults w1' fl)).
        { unfold try_, lw. rewrite Hrunf. destruct r1 as [h1 | e1 |]; [| | contradiction Hn1; reflexivity];
            eexists; reflexivity. }
        destruct Hx as (x & Hx).
        destruct (Hfin x (set_faults w1' fl) w'' rc Hcl Hnc) as (r & Hr & Hnr).
        exists r, w''. split; [rewrite (bind_ok _ _ _ _ x Hx); exact Hr | split; [exact Hnr | split; [| split]]].
        * (* the views are those the run without plan ends with *)
          assert (Hs4 : sim w4 w'').
          { apply (sim_trans w4 w1' w''); [split; symmetry; [exact (proj1 Hsimq) | exact (proj2 Hsimq)] |].
            exact (sim_trans w1' (set_faults w1' fl) w'' (sim_lift w1' fl) Hsim). }
          destruct Hsr4 as (S1 & S2 & S3 & S4).
          split; [| split].
          -- unfold same_rest. rewrite (Vk_sim w4 w'' Hs4), Vk_lw, S1, (proj2 Hs4), S2.
             split; [reflexivity | split; [reflexivity | split; [rewrite Hc''; symmetry; exact (proj1 Hq1) | exact Hf'']]].
          -- rewrite (Vb_sim w4 w'' Hs4). exact Hwf4.
          -- rewrite (Vb_sim w4 w'' Hs4), Vb_lw. exact Heqv4.
        * intros Hs. apply Hsp. apply Hspw. exact Hs.
        * intros Hnbb Hs. apply Hspw. exact (Hnb Hnbb Hs).
      + destruct (Hclose wx Hcx Hfx) as (rc & w'' & Hcl & Hnc & Hsim & Hc'' & Hf'' & Hsp & Hnb).
        destruct (Hfin (Err EIO) wx w'' rc Hcl Hnc) as (r & Hr & Hnr).
        exists r, w''. split; [rewrite (bind_ok _ _ _ _ (Err EIO) (try_err _ _ _ EIO Hrunw)); exact Hr |].
        split; [exact Hnr | split; [| split]].
        * apply fr_sim; [exact Hwfl | exact (sim_trans _ _ _ (sim_trans _ _ _ (sim_lift w1 fl : sim w1 (lw w1)) (conj eq_refl eq_refl)) (sim_trans _ _ _ Hsimw Hsim)) | |].
          -- rewrite Hc''. symmetry. exact (proj1 Hq1).
          -- exact Hf''.
        * intros Hs. contradiction.
        * intros Hnbb _. exfalso. exact (Hnbb f Hin (eq_sym Hft)).
  Qed.

  (** a call that succeeded was executed *)
  Lemma fcall_ok_run {A} (m : M A) (w : world) (a : A) (w' : world) :
    fcall (eq tagb) m -> IF w -> m w = (MOk a, w') ->
    exists w1, m (unfault w) = (MOk a, w1) /\ quiet w1 /\ w' = lw w1.
  Proof.
    intros Hm H Hrun. destruct (IF_parts w H) as (_ & Hq & Hlw & _).
    destruct (fcall_cases (eq tagb) m (unfault w) fl Hm Hq) as [Hc | (wx & Hrunf & _)].
    - destruct (m (unfault w)) as [r0 w1] eqn:Hq0.
      destruct (cleanrun_result _ (unfault w) fl r0 w1 Hc Hq0) as (_ & Hq1 & Hrunf & _).
      fold (lw (unfault w)) in Hrunf. rewrite Hlw, Hrun in Hrunf. injection Hrunf as <- ->.
      exists w1. split; [reflexivity | split; [exact Hq1 | reflexivity]].
    - fold (lw (unfault w)) in Hrunf. rewrite Hlw, Hrun in Hrunf. discriminate Hrunf.
  Qed.

  (** ** Create, OpenFile with a writing flag: the handle is written and closed *)
  Lemma handle_opF (call : str -> M fhandle) (w : world) (n : str) (d : list N) :
    IF w -> snolinkpar (Vb w) n -> snotlink (Vb w) n ->
    (forall w2, quiet w2 -> swf (Vb w2) -> Vb w2 = Vb w -> framed Vb Vk (call n) w2 [n]) ->
    (forall w2 r w', call n w2 = (r, w') ->
       (exists fl0 perm, a_openfile base n fl0 perm w2 = (r, w')) \/ a_create base n w2 = (r, w')) ->
    fcall (eq tagb) (call n) ->
    exists r w', (h <- guarded base backup n call ;; write_close h d ;;; ret ObUnit) w = (r, w') /\
                 keepsF (fun q => In q (cands n)) w r w' /\
                 (nobase -> ~ spent w -> spent w' -> (exists e, r = MErr e) /\ Vb w' = Vb w).
  Proof.
    intros H Hnlp Hnl Hframe Hwhich Hcall. pose proof Hnlp as [[Hc _] _].
    destruct (guardedF call w n [n] H Hnlp (incl_self_cands n Hc) Hframe Hcall)
      as (r & w' & w2 & Hrun & Hnh & H2 & Hext & Hi & Hcase & Hsp & Hfire).
    pose proof Hext as (HVb2 & _ & _).
    destruct Hcase as [[[e ->] ->] | (Htl & Hcl & Hfr)].
    { exists (MErr e), w2. split; [rewrite (bind_err _ _ _ _ e Hrun); reflexivity | split].
      - exact (keepsF_inv _ w w2 (MErr e) (cands n) ltac:(discriminate) H2 Hext (fun q Hq => Hq) Hsp).
      - intros _ _ _. split; [exists e; reflexivity | exact HVb2]. }
    destruct r as [h | e |]; [| | contradiction Hnh; reflexivity].
    2:{ exists (MErr e), w'. split; [rewrite (bind_err _ _ _ _ e Hrun); reflexivity | split].
        - exact (keepsF_frame _ w w2 w' (MErr e) (cands n) [n] ltac:(discriminate) H2 Hext (fun q Hq => Hq) Hfr Htl Hsp).
        - intros Hnb Hns Hs. destruct (Hfire Hnb Hns Hs) as [_ ->]. split; [exists e; reflexivity | exact HVb2]. }
    destruct (IF_parts w2 H2) as (HI2 & Hq2 & Hlw2 & Hc2).
    destruct (fcall_ok_run (call n) w2 h w' Hcall H2 Hcl) as (w1 & Hclq & Hq1 & ->).
    assert (Hwf1 : swf (Vb w1)) by (rewrite <- Vb_lw; exact (proj1 (proj2 Hfr))).
    assert (Hh : handle_tag tagb h).
    { apply (flaw_user _ _ _ _ _ HFb n (unfault w2) w1 h).
      destruct (Hwhich (unfault w2) (MOk h) w1 Hclq) as [Ho | Hcr]; [right; left; exact Ho | right; right; exact Hcr]. }
    assert (Hfrm : framed Vb Vk (write_close h d) w1 [n]).
    { apply (law_user_handle _ _ _ _ _ _ _ _ _ Lb (unfault w2) n (MOk h) w1 Hq2 (inv_wf_b _ _ _ _ HI2)).
      - rewrite Vb_unfault, HVb2. exact Hnlp.
      - rewrite Vb_unfault, HVb2. exact Hnl.
      - exact (Hwhich (unfault w2) (MOk h) w1 Hclq).
      - reflexivity.
      - exact Hq1.
      - exact Hwf1. }
    destruct (write_closeF h d w1 [n] Hq1 Hwf1 Hh Hfrm) as (r4 & w4 & Hrun4 & Hn4 & Hfr4 & Hsp4 & Hnb4).
    rewrite (bind_ok _ _ _ _ h Hrun).
    destruct (keepsF_map (fun q => In q (cands n)) (write_close h d) (fun _ => ObUnit) w (lw w1) w4 r4 Hrun4
                (keepsF_frame _ w w2 w4 r4 (cands n) [n] Hn4 H2 Hext (fun q Hq => Hq)
                   (fr_trans Vb Vk w2 (lw w1) w4 [n] Hfr Hfr4) Htl (fun Hs => Hsp4 (Hsp Hs))))
      as (r5 & Hrun5 & Hk5 & _).
    exists r5, w4. split; [exact Hrun5 | split; [exact Hk5 |]].
    intros Hnb Hns Hs. exfalso. destruct (Hfire Hnb Hns (Hnb4 Hnb Hs)) as [[e He] _]. discriminate He.
  Qed.

  (** ** operations forwarded to the base without backup *)
  Lemma ro_callF {A B} (m : M A) (f : A -> B) (w : world) :
    IF w -> fcall (eq tagb) m -> framed Vb Vk m (unfault w) [] ->
    exists r w', (x <- m ;; ret (f x)) w = (r, w') /\ keepsF (fun _ => False) w r w'.
  Proof.
    intros H Hm Hfr. destruct (framedF m w [] Hm H Hfr) as (r & w' & Hrun & Hn & Hfr' & Hsp & _).
    destruct (keepsF_map (fun _ => False) m f w w w' r Hrun
                (keepsF_frame _ w w w' r [] [] Hn H (ext_refl Vb w []) (fun q Hq => match Hq with end) Hfr' (Forall_nil _) Hsp))
      as (r' & Hrun' & Hk' & _).
    exists r', w'. split; assumption.
  Qed.

  Lemma ro_open_writeF (w : world) (n : str) (d : list N) :
    IF w -> snolinkpar (Vb w) n ->
    exists r w', (h <- a_openfile base n 0 0 ;; write_close h d ;;; ret ObUnit) w = (r, w') /\
                 keepsF (fun _ => False) w r w'.
  Proof.
    intros H Hnlp. destruct (IF_parts w H) as (HI & Hq & Hlw & Hc).
    assert (Hnlpq : snolinkpar (Vb (unfault w)) n) by (rewrite Vb_unfault; exact Hnlp).
    pose proof (flaw_openfile _ _ _ _ _ HFb n 0%N 0%N) as Hm.
    destruct (framedF _ w [] Hm H (law2_open_ro _ _ _ _ _ _ _ Lb2 (unfault w) n Hq (inv_wf_b _ _ _ _ HI) Hnlpq))
      as (r1 & w1' & Hrun1 & Hn1 & Hfr1 & Hsp1 & _).
    destruct r1 as [h | e |]; [| | contradiction Hn1; reflexivity].
    2:{ exists (MErr e), w1'. split; [rewrite (bind_err _ _ _ _ e Hrun1); reflexivity |].
        exact (keepsF_frame _ w w w1' (MErr e) [] [] ltac:(discriminate) H (ext_refl Vb w []) (fun q Hq0 => match Hq0 with end) Hfr1 (Forall_nil _) Hsp1). }
    destruct (fcall_ok_run _ w h w1' Hm H Hrun1) as (w1 & Hopq & Hq1 & ->).
    assert (Hwf1 : swf (Vb w1)) by (rewrite <- Vb_lw; exact (proj1 (proj2 Hfr1))).
    assert (Hh : handle_tag tagb h).
    { apply (flaw_user _ _ _ _ _ HFb n (unfault w) w1 h). right. left. exists 0%N, 0%N. exact Hopq. }
    destruct (law2_ro_handle _ _ _ _ _ _ _ Lb2 (unfault w) n h w1 Hq (inv_wf_b _ _ _ _ HI) Hnlpq Hopq w1 Hq1 Hwf1)
      as (_ & _ & _ & Hwr).
    destruct (write_closeF h d w1 [] Hq1 Hwf1 Hh (Hwr d)) as (r4 & w4 & Hrun4 & Hn4 & Hfr4 & Hsp4 & _).
    rewrite (bind_ok _ _ _ _ h Hrun1).
    destruct (keepsF_map (fun _ => False) (write_close h d) (fun _ => ObUnit) w (lw w1) w4 r4 Hrun4
                (keepsF_frame _ w w w4 r4 [] [] Hn4 H (ext_refl Vb w []) (fun q Hq0 => match Hq0 with end)
                   (fr_trans Vb Vk w (lw w1) w4 [] Hfr1 Hfr4) (Forall_nil _) (fun Hs => Hsp4 (Hsp1 Hs))))
      as (r5 & Hrun5 & Hk5 & _).
    exists r5, w4. split; assumption.
  Qed.

  (** reading a handle to the end: the state stays *)
  Lemma read_allF : forall (fuel : nat) (h : fhandle) (acc0 : list N) (w : world),
    w_crash w = None -> w_faults w = fl ->
    exists r w', read_all fuel h acc0 w = (r, w') /\ r <> MHalt /\ sim w w' /\
                 w_crash w' = None /\ w_faults w' = fl /\ (spent w -> spent w').
  Proof.
    induction fuel as [|fuel IH]; intros h acc0 w Hc Hf.
    { exists (MErr EFUEL), w. split; [reflexivity | split; [discriminate | split; [apply sim_refl | split; [exact Hc | split; [exact Hf | intros Hs; exact Hs]]]]]. }
    cbn [read_all].
    destruct (fcall_any Tany (hread h) w (fcall_hread _ h (any_tag h)) Hc) as (r1 & w1 & Hrun1 & Hn1 & Hc1 & Hf1 & Hsp1).
    pose proof (hread_sim h w r1 w1 Hrun1) as Hsim1.
    destruct r1 as [[o h'] | e |]; [| | contradiction Hn1; reflexivity].
    - rewrite (bind_ok _ _ _ _ _ Hrun1). cbn [fst snd]. destruct o as [ch|].
      + destruct (IH h' (acc0 ++ ch) w1 Hc1 ltac:(congruence)) as (r2 & w2 & Hrun2 & Hn2 & Hsim2 & Hc2 & Hf2 & Hsp2).
        exists r2, w2. split; [exact Hrun2 | split; [exact Hn2 | split; [exact (sim_trans _ _ _ Hsim1 Hsim2) |]]].
        split; [exact Hc2 | split; [exact Hf2 | intros Hs; exact (Hsp2 (Hsp1 Hs))]].
      + exists (MOk acc0), w1. split; [reflexivity | split; [discriminate | split; [exact Hsim1 |]]].
        split; [exact Hc1 | split; [congruence | exact Hsp1]].
    - exists (MErr e), w1. split; [exact (bind_err _ _ _ _ e Hrun1) | split; [discriminate | split; [exact Hsim1 |]]].
      split; [exact Hc1 | split; [congruence | exact Hsp1]].
  Qed.

  Lemma ro_handle_opF {A} (use : fhandle -> M A) (f : A -> obs) (w : world) (n : str) :
    IF w -> snolinkpar (Vb w) n ->
    (forall h wx, w_crash wx = None -> w_faults wx = fl ->
       exists r w', use h wx = (r, w') /\ r <> MHalt /\ sim wx w' /\
                    w_crash w' = None /\ w_faults w' = fl /\ (spent wx -> spent w')) ->
    exists r w', (h <- a_openfile base n 0 0 ;;
                  r <- try_ (use h) ;; _ <- try_ (hclose h) ;; x <- lift_res r ;; ret (f x)) w = (r, w') /\
                 keepsF (fun _ => False) w r w'.
  Proof.
    intros H Hnlp Huse. destruct (IF_parts w H) as (HI & Hq & Hlw & Hc).
    assert (Hnlpq : snolinkpar (Vb (unfault w)) n) by (rewrite Vb_unfault; exact Hnlp).
    pose proof (flaw_openfile _ _ _ _ _ HFb n 0%N 0%N) as Hm.
    destruct (framedF _ w [] Hm H (law2_open_ro _ _ _ _ _ _ _ Lb2 (unfault w) n Hq (inv_wf_b _ _ _ _ HI) Hnlpq))
      as (r1 & w1 & Hrun1 & Hn1 & Hfr1 & Hsp1 & _).
    assert (Hkeep : forall (B : Type) (r : mres B) (wx : world), r <> MHalt -> sim w1 wx -> w_crash wx = None ->
              w_faults wx = fl -> (spent w1 -> spent wx) -> keepsF (fun _ => False) w r wx).
    { intros B r wx Hn Hs Hcx Hfx Hspx. pose proof (proj2 H) as Hfw.
      pose proof Hfr1 as ((_ & _ & S3 & S4) & Hwf1 & _).
      apply (keepsF_frame _ w w wx r [] [] Hn H (ext_refl Vb w []) (fun q Hq0 => match Hq0 with end)); [| constructor | intros Hs0; exact (Hspx (Hsp1 Hs0))].
      apply (fr_trans Vb Vk w w1 wx [] Hfr1). apply fr_sim; [exact Hwf1 | exact Hs | congruence | congruence]. }
    pose proof Hfr1 as ((_ & _ & S3 & S4) & _).
    destruct r1 as [h | e |]; [| | contradiction Hn1; reflexivity].
    2:{ exists (MErr e), w1. split; [rewrite (bind_err _ _ _ _ e Hrun1); reflexivity |].
        apply (Hkeep obs); [discriminate | apply sim_refl | congruence | rewrite S4; exact (proj2 H) | intros Hs; exact Hs]. }
    destruct (Huse h w1 ltac:(congruence) ltac:(rewrite S4; exact (proj2 H))) as (r2 & w2 & Hrun2 & Hn2 & Hsim2 & Hc2 & Hf2 & Hsp2).
    destruct (try_hclose_any h w2 Hc2) as (y & w3 & Hcl & Hsim3 & Hc3 & Hf3 & Hsp3).
    rewrite (bind_ok _ _ _ _ h Hrun1).
    assert (Hk3 : forall (r : mres obs), r <> MHalt -> keepsF (fun _ => False) w r w3).
    { intros r Hn. apply (Hkeep obs r w3 Hn (sim_trans _ _ _ Hsim2 Hsim3) Hc3); [congruence | intros Hs; exact (Hsp3 (Hsp2 Hs))]. }
    destruct r2 as [a0 | e |]; [| | contradiction Hn2; reflexivity].
    - exists (MOk (f a0)), w3. split; [| apply Hk3; discriminate].
      rewrite (bind_ok _ _ _ _ (Ok a0) (try_ok _ _ _ a0 Hrun2)). rewrite (bind_ok _ _ _ _ y Hcl). reflexivity.
    - exists (MErr e), w3. split; [| apply Hk3; discriminate].
      rewrite (bind_ok _ _ _ _ (Err e) (try_err _ _ _ e Hrun2)). rewrite (bind_ok _ _ _ _ y Hcl). reflexivity.
  Qed.

  (** ** Rename: both names are backed up, the new one first *)
  Lemma renameF (w : world) (o n : str) :
    IF w -> snolinkpar (Vb w) o -> snolinkpar (Vb w) n -> no_children (Vb w) o ->
    exists r w', b_rename base backup o n w = (r, w') /\
                 keepsF (fun q => In q (cands o ++ cands n)) w r w' /\
                 (nobase -> ~ spent w -> spent w' -> (exists e, r = MErr e) /\ Vb w' = Vb w).
  Proof.
    intros H Hnlo Hnln Hleaf. unfold b_rename.
    set (P := fun q => In q (cands o ++ cands n)).
    destruct (real_pathF w o H Hnlo) as (r1 & w1 & Hrun1 & Hr1 & H1 & HVb1 & HVk1 & Hi1 & Hsp1 & Hnb1).
    assert (Hext1 : ext Vb w w1 (cands o ++ cands n)) by (apply ext_same; assumption).
    destruct Hr1 as [-> | [e ->]].
    2:{ exists (MErr e), w1. split; [exact (bind_err _ _ _ _ e Hrun1) | split].
        - exact (keepsF_inv P w w1 (MErr e) _ ltac:(discriminate) H1 Hext1 (fun q Hq => Hq) Hsp1).
        - intros _ _ _. split; [exists e; reflexivity | exact HVb1]. }
    rewrite (bind_ok _ _ _ _ o Hrun1).
    destruct (real_pathF w1 n H1 ltac:(rewrite HVb1; exact Hnln)) as (r2 & w2 & Hrun2 & Hr2 & H2 & HVb2 & HVk2 & Hi2 & Hsp2 & Hnb2).
    assert (Hext2 : ext Vb w w2 (cands o ++ cands n)) by (apply ext_same; congruence).
    destruct Hr2 as [-> | [e ->]].
    2:{ exists (MErr e), w2. split; [exact (bind_err _ _ _ _ e Hrun2) | split].
        - exact (keepsF_inv P w w2 (MErr e) _ ltac:(discriminate) H2 Hext2 (fun q Hq => Hq) (fun Hs => Hsp2 (Hsp1 Hs))).
        - intros _ _ _. split; [exists e; reflexivity | congruence]. }
    rewrite (bind_ok _ _ _ _ n Hrun2).
    destruct (try_backupFw w2 n H2 ltac:(rewrite HVb2, HVb1; exact Hnln))
      as (r3 & w3 & Hrun3 & Hn3 & H3 & Hext3 & Htr3 & Hsp3 & Hfire3).
    assert (Hext03 : ext Vb w w3 (cands o ++ cands n)).
    { eapply ext_trans; [exact Hext2 | exact Hext3 | apply incl_refl |]. intros q Hq. apply in_or_app. right. exact Hq. }
    pose proof Hext03 as (HVb03 & _ & _).
    destruct r3 as [[] | e |]; [| | contradiction Hn3; reflexivity].
    2:{ exists (MErr e), w3. split; [rewrite (bind_err _ _ _ _ e Hrun3); reflexivity | split].
        - exact (keepsF_inv P w w3 (MErr e) _ ltac:(discriminate) H3 Hext03 (fun q Hq => Hq) (fun Hs => Hsp3 (Hsp2 (Hsp1 Hs)))).
        - intros _ _ _. split; [exists e; reflexivity | exact HVb03]. }
    rewrite (bind_ok _ _ _ _ tt Hrun3).
    destruct (try_backupFw w3 o H3 ltac:(rewrite HVb03; exact Hnlo))
      as (r4 & w4 & Hrun4 & Hn4 & H4 & Hext4 & Htr4 & Hsp4 & Hfire4).
    assert (Hext04 : ext Vb w w4 (cands o ++ cands n)).
    { eapply ext_trans; [exact Hext03 | exact Hext4 | apply incl_refl |]. intros q Hq. apply in_or_app. left. exact Hq. }
    pose proof Hext04 as (HVb04 & _ & _).
    destruct r4 as [[] | e |]; [| | contradiction Hn4; reflexivity].
    2:{ exists (MErr e), w4. split; [rewrite (bind_err _ _ _ _ e Hrun4); reflexivity | split].
        - exact (keepsF_inv P w w4 (MErr e) _ ltac:(discriminate) H4 Hext04 (fun q Hq => Hq)
                   (fun Hs => Hsp4 (Hsp3 (Hsp2 (Hsp1 Hs))))).
        - intros _ _ _. split; [exists e; reflexivity | exact HVb04]. }
    rewrite (bind_ok _ _ _ _ tt Hrun4).
    assert (Htl : Forall (tracked w4) [o; n]).
    { constructor; [exact (proj1 (Htr4 eq_refl)) |]. constructor; [| constructor].
      exact (ext_tracked _ _ _ _ _ Hext4 (proj1 (Htr3 eq_refl))). }
    destruct (IF_parts w4 H4) as (HI4 & Hq4 & _).
    destruct (framedF (a_rename base o n) w4 [o; n] (flaw_rename _ _ _ _ _ HFb o n) H4)
      as (r5 & w5 & Hrun5 & Hn5 & Hfr5 & Hsp5 & Hnb5).
    { apply (law_user_rename _ _ _ _ _ _ _ _ _ Lb (unfault w4) o n Hq4 (inv_wf_b _ _ _ _ HI4));
        rewrite Vb_unfault, HVb04; assumption. }
    exists r5, w5. split; [exact Hrun5 | split].
    - exact (keepsF_frame P w w4 w5 r5 _ [o; n] Hn5 H4 Hext04 (fun q Hq => Hq) Hfr5 Htl
               (fun Hs => Hsp5 (Hsp4 (Hsp3 (Hsp2 (Hsp1 Hs)))))).
    - intros Hnb Hns Hs5. exfalso.
      assert (Hns1 : ~ spent w1) by (intros X; exact (Hns (Hnb1 Hnb X))).
      assert (Hns2 : ~ spent w2) by (intros X; exact (Hns1 (Hnb2 Hnb X))).
      assert (Hns3 : ~ spent w3).
      { intros X. destruct (Hfire3 Hns2 X) as [[e He] | (f & Hin & Hft)]; [discriminate He | exact (Hnb f Hin Hft)]. }
      assert (Hns4 : ~ spent w4).
      { intros X. destruct (Hfire4 Hns3 X) as [[e He] | (f & Hin & Hft)]; [discriminate He | exact (Hnb f Hin Hft)]. }
      exact (Hns4 (Hnb5 Hnb Hs5)).
  Qed.

  (** ** RemoveAll *)

  (** like [keepsF], but the invariant holds outright and the base only lost entries *)
  Definition keptF {A} (P : str -> Prop) (w : world) (r : mres A) (w' : world) : Prop :=
    r <> MHalt /\ IF w' /\ infos_ext_in w w' P /\ shrinks (Vb w) (Vb w') /\ (spent w -> spent w').

  Lemma keptF_keepsF {A} (P : str -> Prop) (w : world) (r : mres A) (w' : world) :
    keptF P w r w' -> keepsF P w r w'.
  Proof.
    intros (Hnh & H' & Hie & _ & Hsp). destruct (IF_parts w' H') as (_ & _ & _ & Hc).
    split; [exact Hnh | split; [exact Hc | split; [exact (proj2 H') | split; [intros _; exact H' | split; assumption]]]].
  Qed.

  Lemma keptF_weaken {A} (P Q : str -> Prop) (w : world) (r : mres A) (w' : world) :
    (forall q, P q -> Q q) -> keptF P w r w' -> keptF Q w r w'.
  Proof.
    intros HPQ (Hnh & H' & (Hm & Hd) & Hsh & Hsp).
    split; [exact Hnh | split; [exact H' | split; [split; [exact Hm |] | split; assumption]]].
    intros q Hq. destruct (Hd q Hq) as [Hx | Hx]; [left; exact Hx | right; exact (HPQ q Hx)].
  Qed.

  (** nothing changed but traces and counters *)
  Definition sameF (w w' : world) : Prop :=
    IF w' /\ Vb w' = Vb w /\ Vk w' = Vk w /\ w_infos w' = w_infos w /\ (spent w -> spent w').

  Lemma sameF_refl (w : world) : IF w -> sameF w w.
  Proof. intros H. split; [exact H | split; [reflexivity | split; [reflexivity | split; [reflexivity | intros Hs; exact Hs]]]]. Qed.

  Lemma sameF_trans (w w1 w2 : world) : sameF w w1 -> sameF w1 w2 -> sameF w w2.
  Proof.
    intros (_ & A2 & A3 & A4 & A5) (C1 & C2 & C3 & C4 & C5).
    split; [exact C1 | split; [congruence | split; [congruence | split; [congruence | intros Hs; exact (C5 (A5 Hs))]]]].
  Qed.

  Lemma keptF_same {A} (P : str -> Prop) (w w' : world) (r : mres A) :
    r <> MHalt -> sameF w w' -> keptF P w r w'.
  Proof.
    intros Hnh (H' & HVb & _ & Hi & Hsp).
    split; [exact Hnh | split; [exact H' | split; [| split; [apply shrinks_eq; exact HVb | exact Hsp]]]].
    unfold infos_ext_in. rewrite Hi. split; [intros q _; reflexivity | intros q Hq; left; exact Hq].
  Qed.

  Lemma keptF_result {A B} (P : str -> Prop) (w : world) (r : mres A) (r' : mres B) (w' : world) :
    r' <> MHalt -> keptF P w r w' -> keptF P w r' w'.
  Proof. intros Hnh (_ & Hrest). split; [exact Hnh | exact Hrest]. Qed.

  Lemma keptF_trans {A B} (P : str -> Prop) (w w1 w2 : world) (r1 : mres A) (r2 : mres B) :
    keptF P w r1 w1 -> keptF P w1 r2 w2 -> keptF P w r2 w2.
  Proof.
    intros (_ & _ & (Hm1 & Hd1) & Hsh1 & Hsp1) (Hnh2 & H2 & (Hm2 & Hd2) & Hsh2 & Hsp2).
    split; [exact Hnh2 | split; [exact H2 | split; [split |]]].
    - intros q Hq. rewrite Hm2; [exact (Hm1 q Hq) |]. rewrite (Hm1 q Hq). exact Hq.
    - intros q Hq. destruct (Hd2 q Hq) as [Hx | Hx]; [| right; exact Hx]. exact (Hd1 q Hx).
    - split; [exact (shrinks_trans _ _ _ Hsh1 Hsh2) | intros Hs; exact (Hsp2 (Hsp1 Hs))].
  Qed.

  Lemma sameF_sim (w w' : world) :
    IF w -> sim w w' -> w_crash w' = None -> w_faults w' = fl -> (spent w -> spent w') -> sameF w w'.
  Proof.
    intros H Hs Hc Hf Hsp. split; [exact (IF_sim w w' H Hs Hc Hf) |].
    split; [exact (Vb_sim w w' Hs) | split; [exact (Vk_sim w w' Hs) | split; [exact (proj2 Hs) | exact Hsp]]].
  Qed.

  (** a reading call of the base filesystem whose outcome the laws determine *)
  Lemma lstatF (w : world) (n : str) :
    IF w -> snolinkpar (Vb w) n ->
    exists r w', a_lstat base n w = (r, w') /\ r <> MHalt /\ sameF w w' /\
                 (forall fi, r = MOk fi -> exists nd, Vb w !! n = Some nd /\ info_matches fi nd).
  Proof.
    intros H Hnlp. destruct (IF_parts w H) as (HI & Hq & Hlw & Hc).
    destruct (fcall_cases (eq tagb) (a_lstat base n) (unfault w) fl (flaw_lstat _ _ _ _ _ HFb n) Hq)
      as [Hc1 | (w' & Hrunf & Hsim & Hc' & Hf' & Hns & Hs1 & _)].
    - assert (Hq0 : exists r w1, a_lstat base n (unfault w) = (r, w1) /\ Vb w1 = Vb (unfault w) /\
                      same_rest Vk (unfault w) w1 /\
                      (forall fi, r = MOk fi -> exists nd, Vb w !! n = Some nd /\ info_matches fi nd)).
      { destruct (Vb w !! n) as [nd|] eqn:Hb.
        - destruct (law_lstat_some _ _ _ _ _ _ _ _ _ Lb (unfault w) n nd Hq (inv_wf_b _ _ _ _ HI)
                      ltac:(rewrite Vb_unfault; exact Hnlp) ltac:(rewrite Vb_unfault; exact Hb))
            as (fi & (w1 & Hrun & HV & Hsr) & Him & _).
          exists (MOk fi), w1. split; [exact Hrun | split; [exact HV | split; [exact Hsr |]]].
          intros fi' E. injection E as <-. exists nd. split; [reflexivity | exact Him].
        - destruct (law_lstat_none _ _ _ _ _ _ _ _ _ Lb (unfault w) n Hq (inv_wf_b _ _ _ _ HI)
                      ltac:(rewrite Vb_unfault; exact Hnlp) ltac:(rewrite Vb_unfault; exact Hb))
            as (e & w1 & Hrun & _ & HV & Hsr).
          exists (MErr e), w1. split; [exact Hrun | split; [exact HV | split; [exact Hsr |]]].
          intros fi' E. discriminate E. }
      destruct Hq0 as (r & w1 & Hrun & HV & Hsr & Hinfo).
      destruct (cleanrun_result _ (unfault w) fl r w1 Hc1 Hrun) as (Hn & Hq1 & Hrunf & Hsp).
      fold (lw (unfault w)) in Hrunf, Hsp. rewrite Hlw in Hrunf, Hsp.
      pose proof (Inv_transfer Vb Vk B0 _ w1 HI (same_all_base Vb Vk _ w1 HV Hsr)) as HI1.
      exists r, (lw w1). split; [exact Hrunf | split; [exact Hn | split; [| exact Hinfo]]].
      split; [exact (IF_lw w1 HI1) |]. rewrite Vb_lw, Vk_lw, HV, (proj1 Hsr), Vb_unfault, Vk_unfault.
      split; [reflexivity | split; [reflexivity | split; [exact (proj1 (proj2 Hsr)) | intros Hs; apply Hsp; exact Hs]]].
    - fold (lw (unfault w)) in Hrunf. rewrite Hlw in Hrunf.
      exists (MErr EIO), w'. split; [exact Hrunf | split; [discriminate | split; [| intros fi E; discriminate E]]].
      apply (sameF_sim w w' H); [exact (sim_trans _ _ _ (conj eq_refl eq_refl : sim w (unfault w)) Hsim) | exact Hc' | exact Hf' |].
      intros _. exact (Hs1 Hsingle).
  Qed.

  (** Remove of a tracked path (no fault plan): the invariant holds outright afterwards *)
  Lemma remove_call (w2 : world) (sub : str) :
    inv w2 -> tracked w2 sub -> snolinkpar (Vb w2) sub -> sub <> s_root ->
    exists r w3, a_remove base sub w2 = (r, w3) /\ r <> MHalt /\ inv w3 /\
                 w_infos w3 = w_infos w2 /\ shrinks (Vb w2) (Vb w3).
  Proof.
    intros HI2 Htr Hnlp2 Hne.
    pose proof (inv_quiet _ _ _ _ HI2) as Hq2. pose proof (inv_wf_b _ _ _ _ HI2) as Hwf2.
    assert (Hsame : forall e w3, a_remove base sub w2 = (MErr e, w3) -> Vb w3 = Vb w2 -> same_rest Vk w2 w3 ->
              exists r w3', a_remove base sub w2 = (r, w3') /\ r <> MHalt /\ inv w3' /\
                            w_infos w3' = w_infos w2 /\ shrinks (Vb w2) (Vb w3')).
    { intros e w3 Hrun3 HV3 Hsr3. exists (MErr e), w3. split; [exact Hrun3 | split; [discriminate |]].
      split; [exact (Inv_transfer Vb Vk B0 w2 w3 HI2 (same_all_base Vb Vk w2 w3 HV3 Hsr3)) |].
      split; [exact (proj1 (proj2 Hsr3)) | apply shrinks_eq; exact HV3]. }
    (* a proper ancestor of a hidden location: the Remove fails, nothing changes *)
    destruct (law_anc_dec _ _ _ _ _ _ _ _ _ Lb sub) as [Hanc | Hnanc].
    { destruct (law_remove_anc _ _ _ _ _ _ _ _ _ Lb w2 sub Hq2 Hwf2 Hanc)
        as (e & w3 & Hrun3 & _ & HV3 & Hsr3).
      exact (Hsame e w3 Hrun3 HV3 Hsr3). }
    destruct (Vb w2 !! sub) as [nd|] eqn:Hb.
    - destruct (no_children_dec (Vb w2) sub) as [Hnc | Hnnc].
      + destruct (law_remove_leaf _ _ _ _ _ _ _ _ _ Lb w2 sub nd Hq2 Hwf2 Hnlp2 Hb Hnc Hne Hnanc)
          as (s' & (w3 & Hrun3 & HV3 & Hsr3) & Hnone & Heqv' & Hwf').
        assert (Hsh : shrinks (Vb w2) (Vb w3)).
        { rewrite HV3. intros p. destruct (str_eq_dec p sub) as [-> | Hp]; [left; exact Hnone | right].
          apply Heqv'. intros [E | []]. exact (Hp (eq_sym E)). }
        pose proof (proj1 (proj2 Hsr3)) as Hi3.
        exists (MOk tt), w3. split; [exact Hrun3 | split; [discriminate | split; [| split; [exact Hi3 | exact Hsh]]]].
        apply (Inv_base_frame Vb Vk B0 w2 w3 [sub] HI2).
        * split; [exact Hsr3 | split; rewrite HV3; assumption].
        * constructor; [exact Htr | constructor].
        * split.
          -- intros p fi n' Hp Hn'. rewrite Hi3 in Hp.
             destruct (Hsh p) as [Hnn | He]; [rewrite Hn' in Hnn; discriminate Hnn |].
             rewrite Hn' in He. destruct (Vb w2 !! p) as [n2|] eqn:E2; [| contradiction He]. simpl in He.
             rewrite (eqv_kind _ _ He). exact (inv_kind _ _ _ _ HI2 p fi n2 Hp E2).
          -- intros p Hp. rewrite Hi3 in Hp.
             exact (shrinks_snolinkpar _ _ p Hsh (inv_nolink _ _ _ _ HI2 p Hp)).
      + destruct (law_remove_nonempty _ _ _ _ _ _ _ _ _ Lb w2 sub nd Hq2 Hwf2 Hnlp2 Hb Hnnc)
          as (e & w3 & Hrun3 & _ & HV3 & Hsr3).
        exact (Hsame e w3 Hrun3 HV3 Hsr3).
    - destruct (law_remove_none _ _ _ _ _ _ _ _ _ Lb w2 sub Hq2 Hwf2 Hnlp2 Hb)
        as (e & w3 & Hrun3 & _ & HV3 & Hsr3).
      exact (Hsame e w3 Hrun3 HV3 Hsr3).
  Qed.

  Lemma remove_strongF (w : world) (sub : str) :
    IF w -> snolinkpar (Vb w) sub -> sub <> s_root ->
    exists r w', b_remove base backup sub w = (r, w') /\ keptF (fun q => In q (cands sub)) w r w'.
  Proof.
    intros H Hnlp Hne. pose proof Hnlp as [[Hc _] _].
    destruct (guardedF (a_remove base) w sub [sub] H Hnlp (incl_self_cands sub Hc))
      as (r & w' & w2 & Hrun & Hnh & H2 & Hext & Hi & Hcase & Hsp & _).
    { intros w0 Hq0 Hwf0 HV0. apply (law_user_remove _ _ _ _ _ _ _ _ _ Lb w0 sub Hq0 Hwf0); [| exact Hne].
      rewrite HV0. exact Hnlp. }
    { apply (flaw_remove _ _ _ _ _ HFb). }
    exists r, w'. split; [exact Hrun |].
    pose proof Hext as (HVb2 & Hm & Hd).
    assert (Hie : forall w3, w_infos w3 = w_infos w2 -> infos_ext_in w w3 (fun q => In q (cands sub))).
    { intros w3 E. unfold infos_ext_in. rewrite E. split; assumption. }
    destruct Hcase as [[_ ->] | (Htl & Hcall & Hfr)].
    { split; [exact Hnh | split; [exact H2 | split; [apply Hie; reflexivity | split; [apply shrinks_eq; exact HVb2 | exact Hsp]]]]. }
    destruct (IF_parts w2 H2) as (HI2 & Hq2 & Hlw2 & Hc2).
    destruct (fcall_cases (eq tagb) (a_remove base sub) (unfault w2) fl (flaw_remove _ _ _ _ _ HFb sub) Hq2)
      as [Hc1 | (wx & Hrunf & Hsim & Hcx & Hfx & Hns & Hs1 & _)].
    - destruct (remove_call (unfault w2) sub HI2 (List.Forall_inv Htl)) as (r3 & w3 & Hrun3 & Hn3 & HI3 & Hi3 & Hsh3).
      { rewrite Vb_unfault, HVb2. exact Hnlp. }
      { exact Hne. }
      destruct (cleanrun_result _ (unfault w2) fl r3 w3 Hc1 Hrun3) as (_ & Hq3 & Hrunf & Hsp3).
      fold (lw (unfault w2)) in Hrunf, Hsp3. rewrite Hlw2 in Hrunf, Hsp3.
      rewrite Hcall in Hrunf. injection Hrunf as -> ->.
      split; [exact Hn3 | split; [exact (IF_lw w3 HI3) | split; [apply Hie; exact Hi3 | split]]].
      + fold (lw w3). rewrite Vb_lw, <- HVb2, <- (Vb_unfault w2). exact Hsh3.
      + exact Hsp.
    - fold (lw (unfault w2)) in Hrunf. rewrite Hlw2, Hcall in Hrunf. injection Hrunf as -> ->.
      assert (Hsim2 : sim w2 wx) by (exact (sim_trans _ _ _ (conj eq_refl eq_refl : sim w2 (unfault w2)) Hsim)).
      split; [discriminate | split; [exact (IF_sim w2 wx H2 Hsim2 Hcx Hfx) | split; [apply Hie; exact (proj2 Hsim2) | split; [| exact Hsp]]]].
      apply shrinks_eq. rewrite (Vb_sim w2 wx Hsim2). exact HVb2.
  Qed.

  (** listing a directory of the base (Open, Readdirnames, Close): nothing changes *)
  Lemma read_dir_namesF (w : world) (p : str) (m : meta) :
    IF w -> snolinkpar (Vb w) p -> Vb w !! p = Some (Dir m) ->
    exists r w', read_dir_names base p w = (r, w') /\ r <> MHalt /\ sameF w w' /\
      forall names, r = MOk names ->
        Forall (fun nm => Vb w !! join2 p nm <> None /\ In p (ancestors (join2 p nm))) names.
  Proof.
    intros H Hnlp Hm. destruct (IF_parts w H) as (HI & Hq & Hlw & Hc).
    destruct (law2_readdir _ _ _ _ _ _ _ Lb2 (unfault w) p m Hq (inv_wf_b _ _ _ _ HI)
                ltac:(rewrite Vb_unfault; exact Hnlp) ltac:(rewrite Vb_unfault; exact Hm))
      as (r2 & w2 & Hrun2 & Hnh2 & HV2 & Hsr2 & Hnames).
    rewrite Vb_unfault in Hnames.
    unfold read_dir_names.
    destruct (fcall_cases (eq tagb) (a_open base p) (unfault w) fl (flaw_open _ _ _ _ _ HFb p) Hq)
      as [Hc1 | (wx & Hrunf & Hsim & Hcx & Hfx & Hns & Hs1 & _)].
    2:{ fold (lw (unfault w)) in Hrunf. rewrite Hlw in Hrunf.
        exists (MErr EIO), wx. split; [exact (bind_err _ _ _ _ EIO Hrunf) | split; [discriminate | split; [| intros names E; discriminate E]]].
        apply (sameF_sim w wx H); [exact (sim_trans _ _ _ (conj eq_refl eq_refl : sim w (unfault w)) Hsim) | exact Hcx | exact Hfx |].
        intros _. exact (Hs1 Hsingle). }
    destruct (a_open base p (unfault w)) as [ro wa] eqn:Ha.
    destruct (cleanrun_result _ (unfault w) fl ro wa Hc1 Ha) as (Hno & Hqa & Hrunfa & Hspa).
    fold (lw (unfault w)) in Hrunfa, Hspa. rewrite Hlw in Hrunfa, Hspa.
    destruct ro as [h | e |]; [| | contradiction Hno; reflexivity].
    2:{ (* Open fails without plan too: nothing else is called *)
        assert (E2 : (r2, w2) = (MErr e, wa)).
        { rewrite <- Hrun2. unfold read_dir_names. rewrite (bind_err _ _ _ _ e Ha). reflexivity. }
        injection E2 as -> ->.
        pose proof (Inv_transfer Vb Vk B0 _ wa HI (same_all_base Vb Vk _ wa HV2 Hsr2)) as HIa.
        exists (MErr e), (lw wa). split; [exact (bind_err _ _ _ _ e Hrunfa) | split; [discriminate | split; [| intros names E; discriminate E]]].
        split; [exact (IF_lw wa HIa) |]. rewrite Vb_lw, Vk_lw, HV2, (proj1 Hsr2), Vb_unfault, Vk_unfault.
        split; [reflexivity | split; [reflexivity | split; [exact (proj1 (proj2 Hsr2)) | intros Hs; apply Hspa; exact Hs]]]. }
    destruct (read_dir_names_mid base p (unfault w) w2 wa r2 h Hrun2 Hnh2 Ha) as (rb & wb & rc & Hb & Hcl).
    pose proof (hreaddirnames_sim h wa rb wb Hb) as Hsimb. pose proof (hclose_sim h wb rc w2 Hcl) as Hsimc.
    (* the state after Open is the one the run without plan ends with *)
    assert (Hsa2 : sim wa w2) by (exact (sim_trans _ _ _ Hsimb Hsimc)).
    pose proof (Inv_transfer Vb Vk B0 _ w2 HI (same_all_base Vb Vk _ w2 HV2 Hsr2)) as HI2.
    assert (HIa : inv wa).
    { apply (Inv_sim w2 wa HI2 Hqa). split; symmetry; [exact (proj1 Hsa2) | exact (proj2 Hsa2)]. }
    assert (Hsame_a : sameF w (lw wa)).
    { split; [exact (IF_lw wa HIa) |]. rewrite Vb_lw, Vk_lw.
      rewrite <- (Vb_sim wa w2 Hsa2), <- (Vk_sim wa w2 Hsa2), HV2, (proj1 Hsr2), Vb_unfault, Vk_unfault.
      split; [reflexivity | split; [reflexivity | split; [| intros Hs; apply Hspa; exact Hs]]].
      change (w_infos (lw wa)) with (w_infos wa). rewrite <- (proj2 Hsa2). exact (proj1 (proj2 Hsr2)). }
    assert (Hh : handle_tag tagb h).
    { apply (flaw_user _ _ _ _ _ HFb p (unfault w) wa h). left. exact Ha. }
    rewrite (bind_ok _ _ _ _ h Hrunfa).
    (* Readdirnames *)
    destruct (fcall_cases (eq tagb) (hreaddirnames h) wa fl (fcall_hreaddirnames _ h (handle_tag_T tagb h Hh)) Hqa)
      as [Hcb | (wx & Hrunfb & Hsimx & Hcx & Hfx & Hns & Hs1 & _)].
    - destruct (cleanrun_result _ wa fl rb wb Hcb Hb) as (Hnb & Hqb & Hrunfb & Hspb).
      destruct (try_hclose_any h (set_faults wb fl) (proj1 Hqb)) as (y & w3 & Hcl3 & Hsim3 & Hc3 & Hf3 & Hsp3).
      assert (Hsame3 : sameF w w3).
      { apply (sameF_trans w (lw wa) w3 Hsame_a).
        apply (sameF_sim (lw wa) w3 (proj1 Hsame_a)); [| exact Hc3 | exact Hf3 |].
        - apply (sim_trans (lw wa) wb w3); [| exact (sim_trans _ _ _ (sim_lift wb fl) Hsim3)].
          exact (sim_trans (lw wa) wa wb (conj eq_refl eq_refl) Hsimb).
        - intros Hs. apply Hsp3. apply Hspb. exact Hs. }
      (* the result is the one of the run without plan *)
      assert (Hr2 : r2 = match rb with MOk names => MOk (sort_strings names) | MErr e => MErr e | MHalt => MHalt end).
      { assert (E2 : (r2, w2) = read_dir_names base p (unfault w)) by (symmetry; exact Hrun2).
        unfold read_dir_names in E2. rewrite (bind_ok _ _ _ _ h Ha) in E2.
        unfold bind, try_ in E2. rewrite Hb in E2.
        destruct rb as [names | e |]; cbv beta iota in E2; [| | congruence];
          rewrite Hcl in E2; destruct rc as [u | e2 |]; cbv beta iota in E2; unfold ret, fail in E2;
          try congruence; contradiction Hnh2; congruence. }
      destruct rb as [names | e |]; [| | contradiction Hnb; reflexivity].
      + exists (MOk (sort_strings names)), w3. split; [| split; [discriminate | split; [exact Hsame3 |]]].
        * rewrite (bind_ok _ _ _ _ (Ok names) (try_ok _ _ _ names Hrunfb)). rewrite (bind_ok _ _ _ _ y Hcl3). reflexivity.
        * intros names' E. injection E as <-. apply Hnames. exact Hr2.
      + exists (MErr e), w3. split; [| split; [discriminate | split; [exact Hsame3 | intros names' E; discriminate E]]].
        rewrite (bind_ok _ _ _ _ (Err e) (try_err _ _ _ e Hrunfb)). rewrite (bind_ok _ _ _ _ y Hcl3). reflexivity.
    - destruct (try_hclose_any h wx Hcx) as (y & w3 & Hcl3 & Hsim3 & Hc3 & Hf3 & Hsp3).
      exists (MErr EIO), w3. split; [| split; [discriminate | split; [| intros names' E; discriminate E]]].
      + rewrite (bind_ok _ _ _ _ (Err EIO) (try_err _ _ _ EIO Hrunfb)). rewrite (bind_ok _ _ _ _ y Hcl3). reflexivity.
      + apply (sameF_trans w (lw wa) w3 Hsame_a).
        apply (sameF_sim (lw wa) w3 (proj1 Hsame_a)); [| exact Hc3 | congruence |].
        * exact (sim_trans (lw wa) wx w3 (sim_trans (lw wa) wa wx (conj eq_refl eq_refl) Hsimx) Hsim3).
        * intros _. apply Hsp3. exact (Hs1 Hsingle).
  Qed.

  Local Notation okdF := (okd Vb).

  Lemma remove_underF (n : str) (w : world) (d : str) :
    n <> s_root -> IF w -> okdF n w d ->
    exists r w', b_remove base backup d w = (r, w') /\ keptF (below_chain n) w r w'.
  Proof.
    intros Hnr H [Hnlp Hun].
    destruct (remove_strongF w d H Hnlp (under_not_root n d Hnr Hun)) as (r & w' & Hrun & Hk).
    exists r, w'. split; [exact Hrun |]. eapply keptF_weaken; [| exact Hk].
    intros q Hq. exists d. split; assumption.
  Qed.

  (** the walk below [n] *)
  Lemma walkF (n : str) : n <> s_root ->
    forall (fuel : nat) (path : str) (info : finfo) (acc0 : list str) (w : world),
    IF w -> okdF n w path -> (is_dir_info info = true -> sdir (Vb w) path) ->
    Forall (okdF n w) acc0 ->
    exists r w', walk_fold fuel base path info (ra_fn base backup) acc0 w = (r, w') /\
                 keptF (below_chain n) w r w' /\
                 forall acc', r = MOk acc' -> Forall (okdF n w') acc'.
  Proof.
    intros Hnr. induction fuel as [|fuel IH]; intros path info acc0 w H Hpath Hdir Hacc.
    { exists (MErr EFUEL), w. split; [reflexivity |].
      split; [apply keptF_same; [discriminate | apply sameF_refl; exact H] | intros acc' D; discriminate D]. }
    cbn [walk_fold]. destruct (is_dir_info info) eqn:Ed.
    2:{ destruct (remove_underF n w path Hnr H Hpath) as (r1 & w1 & Hrun1 & Hk1).
        destruct r1 as [[] | e |]; [| | destruct Hk1 as [Hnh _]; contradiction Hnh; reflexivity].
        - assert (Hfn : ra_fn base backup acc0 path info w = (MOk acc0, w1)).
          { unfold ra_fn. rewrite Ed. rewrite (bind_ok _ _ w w1 tt Hrun1). reflexivity. }
          rewrite (bind_ok _ _ w w1 acc0 Hfn).
          exists (MOk acc0), w1. split; [reflexivity |].
          split; [apply (keptF_result _ w (MOk tt) (MOk acc0) w1); [discriminate | exact Hk1] |].
          intros acc' E. injection E as <-. destruct Hk1 as (_ & _ & _ & Hsh & _). exact (okd_shrinks Vb n w w1 acc0 Hsh Hacc).
        - assert (Hfn : ra_fn base backup acc0 path info w = (MErr e, w1)).
          { unfold ra_fn. rewrite Ed. rewrite (bind_err _ _ w w1 e Hrun1). reflexivity. }
          rewrite (bind_err _ _ w w1 e Hfn).
          exists (MErr e), w1. split; [reflexivity |].
          split; [apply (keptF_result _ w (MErr e : mres unit) (MErr e) w1); [discriminate | exact Hk1] |].
          intros acc' D. discriminate D. }
    assert (Hfn : ra_fn base backup acc0 path info w = (MOk (acc0 ++ [path]), w)).
    { unfold ra_fn. rewrite Ed. reflexivity. }
    rewrite (bind_ok _ _ w w (acc0 ++ [path]) Hfn).
    destruct (Hdir eq_refl) as [m Hm]. destruct Hpath as [Hnlp Hun].
    destruct (read_dir_namesF w path m H Hnlp Hm) as (r2 & w2 & Hrun2 & Hnh2 & Hsame2 & Hnames).
    pose proof Hsame2 as (H2 & HV2 & _ & _ & _).
    destruct r2 as [names | e |]; [| | contradiction Hnh2; reflexivity].
    2:{ rewrite (bind_err _ _ w w2 e Hrun2). exists (MErr e), w2. split; [reflexivity |].
        split; [apply keptF_same; [discriminate | exact Hsame2] | intros acc' D; discriminate D]. }
    rewrite (bind_ok _ _ w w2 names Hrun2).
    assert (Hacc2 : Forall (okdF n w2) (acc0 ++ [path])).
    { apply (okd_shrinks Vb n w w2); [apply shrinks_eq; exact HV2 |].
      apply Forall_app. split; [exact Hacc |]. constructor; [split; assumption | constructor]. }
    assert (Hnm2 : Forall (okdF n w2) (map (join2 path) names)).
    { specialize (Hnames names eq_refl). apply List.Forall_forall. intros f Hf0.
      apply in_map_iff in Hf0. destruct Hf0 as (nm & <- & Hnm).
      rewrite List.Forall_forall in Hnames. destruct (Hnames nm Hnm) as [Hex Hpar].
      destruct (Vb w !! join2 path nm) as [nd|] eqn:Hb; [| contradiction Hex; reflexivity].
      pose proof (swf_lookup_snolinkpar _ _ _ (IF_wf_b w H) Hb) as Hnlf.
      split; [rewrite HV2; exact Hnlf |].
      exact (under_child n path _ (proj1 (proj1 Hnlf)) Hun Hpar). }
    assert (Hfold : forall (l : list str) (acc1 : list str) (w0 : world),
              IF w0 -> Forall (okdF n w0) (map (join2 path) l) -> Forall (okdF n w0) acc1 ->
              exists r w', mfold (fun a name =>
                                    fi <- a_lstat base (join2 path name) ;;
                                    walk_fold fuel base (join2 path name) fi (ra_fn base backup) a) l acc1 w0 = (r, w') /\
                           keptF (below_chain n) w0 r w' /\
                           forall acc', r = MOk acc' -> Forall (okdF n w') acc').
    { induction l as [|nm rest IHl]; intros acc1 w0 H0 Hl0 Hacc0.
      { exists (MOk acc1), w0. split; [reflexivity |].
        split; [apply keptF_same; [discriminate | apply sameF_refl; exact H0] |].
        intros acc' E. injection E as <-. exact Hacc0. }
      cbn [mfold]. cbn [map] in Hl0.
      pose proof (List.Forall_inv Hl0) as [Hnlf Hunf]. pose proof (List.Forall_inv_tail Hl0) as Hrest.
      destruct (lstatF w0 (join2 path nm) H0 Hnlf) as (r1 & w1 & Hrun1 & Hn1 & Hsame1 & Hinfo1).
      pose proof Hsame1 as (H1 & HV1 & _ & _ & _).
      destruct r1 as [fi | e |]; [| | contradiction Hn1; reflexivity].
      2:{ assert (Hin : (fi <- a_lstat base (join2 path nm) ;;
                         walk_fold fuel base (join2 path nm) fi (ra_fn base backup) acc1) w0 = (MErr e, w1)).
          { rewrite (bind_err _ _ w0 w1 e Hrun1). reflexivity. }
          rewrite (bind_err _ _ w0 w1 e Hin). exists (MErr e), w1. split; [reflexivity |].
          split; [apply keptF_same; [discriminate | exact Hsame1] | intros acc' D; discriminate D]. }
      destruct (Hinfo1 fi eq_refl) as (nd & Hb & Him).
      destruct (IH (join2 path nm) fi acc1 w1 H1) as (r3 & w3 & Hrun3 & Hk3 & Hacc3).
      { split; [rewrite HV1; exact Hnlf | exact Hunf]. }
      { intros Edf. rewrite HV1. unfold is_dir_info in Edf. rewrite (proj1 Him) in Edf.
        destruct nd as [md | md cd | md td]; [exists md; exact Hb | discriminate Edf | discriminate Edf]. }
      { apply (okd_shrinks Vb n w0 w1); [apply shrinks_eq; exact HV1 | exact Hacc0]. }
      assert (Hk03 : keptF (below_chain n) w0 r3 w3).
      { eapply keptF_trans; [| exact Hk3].
        apply (keptF_same _ w0 w1 (MOk tt)); [discriminate | exact Hsame1]. }
      assert (Hin : (fi <- a_lstat base (join2 path nm) ;;
                     walk_fold fuel base (join2 path nm) fi (ra_fn base backup) acc1) w0 = (r3, w3)).
      { rewrite (bind_ok _ _ w0 w1 fi Hrun1). exact Hrun3. }
      destruct r3 as [acc3 | e |]; [| | destruct Hk3 as [Hnh _]; contradiction Hnh; reflexivity].
      2:{ rewrite (bind_err _ _ w0 w3 e Hin). exists (MErr e), w3. split; [reflexivity |].
          split; [exact Hk03 | intros acc' D; discriminate D]. }
      rewrite (bind_ok _ _ w0 w3 acc3 Hin).
      pose proof Hk03 as (_ & H3 & _ & Hsh03 & _).
      destruct (IHl acc3 w3 H3 (okd_shrinks Vb n w0 w3 _ Hsh03 Hrest) (Hacc3 acc3 eq_refl))
        as (r4 & w4 & Hrun4 & Hk4 & Hacc4).
      exists r4, w4. split; [exact Hrun4 |]. split; [exact (keptF_trans _ w0 w3 w4 _ r4 Hk03 Hk4) | exact Hacc4]. }
    destruct (Hfold names (acc0 ++ [path]) w2 H2 Hnm2 Hacc2) as (r5 & w5 & Hrun5 & Hk5 & Hacc5).
    exists r5, w5. split; [exact Hrun5 |]. split; [| exact Hacc5].
    eapply keptF_trans; [| exact Hk5].
    apply (keptF_same _ w w2 (MOk tt)); [discriminate | exact Hsame2].
  Qed.

  Lemma miter_removeF (n : str) : n <> s_root -> forall (l : list str) (w : world),
    IF w -> Forall (okdF n w) l ->
    exists r w', miter (b_remove base backup) l w = (r, w') /\ keptF (below_chain n) w r w'.
  Proof.
    intros Hnr. induction l as [|d rest IHl]; intros w H Hl.
    { exists (MOk tt), w. split; [reflexivity |].
      apply keptF_same; [discriminate | apply sameF_refl; exact H]. }
    cbn [miter].
    destruct (remove_underF n w d Hnr H (List.Forall_inv Hl)) as (r1 & w1 & Hrun1 & Hk1).
    destruct r1 as [[] | e |]; [| | destruct Hk1 as [Hnh _]; contradiction Hnh; reflexivity].
    - rewrite (bind_ok _ _ w w1 tt Hrun1). pose proof Hk1 as (_ & H1 & _ & Hsh1 & _).
      destruct (IHl w1 H1 (okd_shrinks Vb n w w1 rest Hsh1 (List.Forall_inv_tail Hl))) as (r2 & w2 & Hrun2 & Hk2).
      exists r2, w2. split; [exact Hrun2 | exact (keptF_trans _ w w1 w2 _ r2 Hk1 Hk2)].
    - rewrite (bind_err _ _ w w1 e Hrun1). exists (MErr e), w1. split; [reflexivity | exact Hk1].
  Qed.

  Lemma removeallF (w : world) (n : str) :
    IF w -> snolinkpar (Vb w) n -> n <> s_root ->
    exists r w', b_removeall base backup n w = (r, w') /\ keepsF (below_chain n) w r w'.
  Proof.
    intros H Hnlp Hnr. rewrite b_removeall_eq. pose proof Hnlp as [[Hc _] _].
    destruct (real_pathF w n H Hnlp) as (r1 & w1 & Hrun1 & Hr1 & H1 & HVb1 & HVk1 & Hi1 & Hsp1 & _).
    assert (Hsame1 : sameF w w1) by (split; [exact H1 | split; [exact HVb1 | split; [exact HVk1 | split; [exact Hi1 | exact Hsp1]]]]).
    destruct Hr1 as [-> | [e ->]].
    2:{ exists (MErr e), w1. split; [exact (bind_err _ _ _ _ e Hrun1) |].
        apply keptF_keepsF. apply keptF_same; [discriminate | exact Hsame1]. }
    rewrite (bind_ok _ _ _ _ n Hrun1).
    assert (Hnlp1 : snolinkpar (Vb w1) n) by (rewrite HVb1; exact Hnlp).
    destruct (lstatF w1 n H1 Hnlp1) as (r2 & w2 & Hrun2 & Hn2 & Hsame2 & Hinfo2).
    pose proof (sameF_trans w w1 w2 Hsame1 Hsame2) as Hsame02.
    pose proof Hsame02 as (H2 & HVb02 & _ & _ & _).
    destruct r2 as [fi | e |]; [| | contradiction Hn2; reflexivity].
    2:{ rewrite (bind_ok _ _ _ _ (Err e) (try_err _ _ _ e Hrun2)).
        destruct (is_not_found e).
        - exists (MOk tt), w2. split; [reflexivity |]. apply keptF_keepsF. apply keptF_same; [discriminate | exact Hsame02].
        - exists (MErr e), w2. split; [reflexivity |]. apply keptF_keepsF. apply keptF_same; [discriminate | exact Hsame02]. }
    rewrite (bind_ok _ _ _ _ (Ok fi) (try_ok _ _ _ fi Hrun2)).
    destruct (Hinfo2 fi eq_refl) as (nd & Hb1 & Him).
    assert (Hnlp2 : snolinkpar (Vb w2) n) by (rewrite HVb02; exact Hnlp).
    destruct (is_dir_info fi) eqn:Ed; cbn [negb].
    2:{ destruct (remove_underF n w2 n Hnr H2 (conj Hnlp2 (or_introl eq_refl))) as (r3 & w3 & Hrun3 & Hk3).
        exists r3, w3. split; [exact Hrun3 |]. apply keptF_keepsF.
        eapply keptF_trans; [| exact Hk3].
        apply (keptF_same _ w w2 (MOk tt)); [discriminate | exact Hsame02]. }
    destruct (lstatF w2 n H2 Hnlp2) as (r3 & w3 & Hrun3 & Hn3 & Hsame3 & Hinfo3).
    pose proof (sameF_trans w w2 w3 Hsame02 Hsame3) as Hsame03.
    pose proof Hsame03 as (H3 & HVb03 & _ & _ & _).
    unfold walk_m.
    destruct r3 as [fi' | e |]; [| | contradiction Hn3; reflexivity].
    2:{ rewrite (bind_err _ _ _ _ e (bind_err _ _ _ _ e Hrun3)).
        exists (MErr e), w3. split; [reflexivity |]. apply keptF_keepsF. apply keptF_same; [discriminate | exact Hsame03]. }
    destruct (Hinfo3 fi' eq_refl) as (nd' & Hb2 & Him').
    destruct (walkF n Hnr tree_fuel n fi' [] w3 H3) as (r4 & w4 & Hrun4 & Hk4 & Hacc4).
    { split; [rewrite HVb03; exact Hnlp | left; reflexivity]. }
    { intros Edf. destruct Hsame3 as (_ & HV3 & _). rewrite HV3. unfold is_dir_info in Edf. rewrite (proj1 Him') in Edf.
      destruct nd' as [md | md cd | md td]; [exists md; exact Hb2 | discriminate Edf | discriminate Edf]. }
    { constructor. }
    assert (Hk04 : keptF (below_chain n) w r4 w4).
    { eapply keptF_trans; [| exact Hk4].
      apply (keptF_same _ w w3 (MOk tt)); [discriminate | exact Hsame03]. }
    assert (Hwalk : (info <- a_lstat base n ;; walk_fold tree_fuel base n info (ra_fn base backup) []) w2 = (r4, w4)).
    { rewrite (bind_ok _ _ w2 w3 fi' Hrun3). exact Hrun4. }
    destruct r4 as [dirs | e |]; [| | destruct Hk4 as [Hnh _]; contradiction Hnh; reflexivity].
    2:{ rewrite (bind_err _ _ w2 w4 e Hwalk). exists (MErr e), w4. split; [reflexivity |].
        apply keptF_keepsF. apply (keptF_result _ w (MErr e : mres (list str)) (MErr e) w4); [discriminate | exact Hk04]. }
    rewrite (bind_ok _ _ w2 w4 dirs Hwalk).
    pose proof Hk04 as (_ & H4 & _ & _ & _).
    assert (Hsorted : Forall (okdF n w4) (sort_most dirs)).
    { specialize (Hacc4 dirs eq_refl). apply List.Forall_forall. intros d Hd.
      rewrite List.Forall_forall in Hacc4. apply Hacc4.
      unfold sort_most in Hd. exact (Permutation_in d (isort_perm most dirs) Hd). }
    destruct (miter_removeF n Hnr (sort_most dirs) w4 H4 Hsorted) as (r5 & w5 & Hrun5 & Hk5).
    exists r5, w5. split; [exact Hrun5 |]. apply keptF_keepsF.
    exact (keptF_trans _ w w4 w5 _ r5 Hk04 Hk5).
  Qed.

  (** ** every covered operation under a single fault *)

  Lemma finish_nameF {A} (o : op) (n : str) (m : M A) (w : world) (Q : mres A -> world -> Prop) :
    In n (op_names o) ->
    (exists r w', m w = (r, w') /\ keepsF (fun q => In q (cands n)) w r w' /\ Q r w') ->
    exists r w', m w = (r, w') /\ keepsF (op_touches o) w r w' /\ Q r w'.
  Proof.
    intros Hn (r & w' & Hrun & Hk & HQ). exists r, w'. split; [exact Hrun | split; [| exact HQ]].
    eapply keepsF_weaken; [| exact Hk]. intros q Hq. exact (touches_cands o n q Hn Hq).
  Qed.

  Lemma finish_roF {A} (o : op) (m : M A) (w : world) (Q : mres A -> world -> Prop) :
    (forall r w', Q r w') ->
    (exists r w', m w = (r, w') /\ keepsF (fun _ => False) w r w') ->
    exists r w', m w = (r, w') /\ keepsF (op_touches o) w r w' /\ Q r w'.
  Proof.
    intros HQ (r & w' & Hrun & Hk). exists r, w'. split; [exact Hrun | split; [| apply HQ]].
    eapply keepsF_weaken; [| exact Hk]. intros q [].
  Qed.

  Lemma stepF (o : op) (w : world) :
    IF w -> covered Vb o w ->
    exists r w', step base backup o w = (r, w') /\ keepsF (op_touches o) w r w' /\
                 (takes_backup o = true -> nobase -> ~ spent w -> spent w' ->
                  (exists e, r = MErr e) /\ Vb w' = Vb w).
  Proof.
    intros H (Hso & Hres & Hfol & Hren & Hrm).
    destruct (IF_parts w H) as (HI & Hq & Hlw & Hcr).
    destruct Hso as [n d | n fl0 perm d | n perm | n perm | n | n | o n | t n | n m | n u g | n u g | n t
                     | n | n | n | n | n];
      cbn [op_names follows rename_source_leaf removeall_not_root takes_backup] in *;
      pose proof (List.Forall_inv Hres) as Hn; unfold resolved in Hn; pose proof Hn as [[Hc _] _];
      cbn [step].
    - (* Create *)
      apply (finish_nameF _ n); [left; reflexivity |].
      destruct (handle_opF (a_create base) w n d H Hn (List.Forall_inv (Hfol eq_refl))) as (r & w' & Hrun & Hk & Hf).
      + intros w2 Hq2 Hwf2 HVb2. apply (law_user_create _ _ _ _ _ _ _ _ _ Lb w2 n Hq2 Hwf2);
          rewrite HVb2; [exact Hn | exact (List.Forall_inv (Hfol eq_refl))].
      + intros w2 r w' Hcall. right. exact Hcall.
      + apply (flaw_create _ _ _ _ _ HFb).
      + exists r, w'. split; [exact Hrun | split; [exact Hk | intros _; exact Hf]].
    - (* OpenFile, then write *)
      unfold b_openfile. destruct (N.eqb fl0 0) eqn:Efl.
      + apply finish_roF; [intros r w' D; discriminate D |]. exact (ro_open_writeF w n d H Hn).
      + apply (finish_nameF _ n); [left; reflexivity |]. cbn [negb] in Hfol.
        destruct (handle_opF (fun rn => a_openfile base rn fl0 perm) w n d H Hn (List.Forall_inv (Hfol eq_refl)))
          as (r & w' & Hrun & Hk & Hf).
        * intros w2 Hq2 Hwf2 HVb2. apply (law_user_openfile _ _ _ _ _ _ _ _ _ Lb w2 n fl0 perm Hq2 Hwf2);
            rewrite HVb2; [exact Hn | exact (List.Forall_inv (Hfol eq_refl))].
        * intros w2 r w' Hcall. left. exists fl0, perm. exact Hcall.
        * apply (flaw_openfile _ _ _ _ _ HFb).
        * exists r, w'. split; [exact Hrun | split; [exact Hk | intros _; exact Hf]].
    - (* Mkdir *)
      apply (finish_nameF _ n); [left; reflexivity |].
      destruct (unit_opF (fun rn => a_mkdir base rn perm) w n [n] H Hn (incl_self_cands n Hc)) as (r & w' & Hrun & Hk & Hf).
      + intros w2 Hq2 Hwf2 HVb2. apply (law_user_mkdir _ _ _ _ _ _ _ _ _ Lb w2 n perm Hq2 Hwf2).
        rewrite HVb2. exact Hn.
      + apply (flaw_mkdir _ _ _ _ _ HFb).
      + exists r, w'. split; [exact Hrun | split; [exact Hk | intros _; exact Hf]].
    - (* MkdirAll *)
      apply (finish_nameF _ n); [left; reflexivity |].
      destruct (unit_opF (fun rn => a_mkdirall base rn perm) w n (cands n) H Hn (incl_refl _)) as (r & w' & Hrun & Hk & Hf).
      + intros w2 Hq2 Hwf2 HVb2. apply (law_user_mkdirall _ _ _ _ _ _ _ _ _ Lb w2 n perm Hq2 Hwf2).
        rewrite HVb2. exact Hn.
      + apply (flaw_mkdirall _ _ _ _ _ HFb).
      + exists r, w'. split; [exact Hrun | split; [exact Hk | intros _; exact Hf]].
    - (* Remove *)
      apply (finish_nameF _ n); [left; reflexivity |].
      destruct (unit_opF (fun rn => a_remove base rn) w n [n] H Hn (incl_self_cands n Hc)) as (r & w' & Hrun & Hk & Hf).
      + intros w2 Hq2 Hwf2 HVb2. apply (law_user_remove _ _ _ _ _ _ _ _ _ Lb w2 n Hq2 Hwf2); [| exact Hrm].
        rewrite HVb2. exact Hn.
      + apply (flaw_remove _ _ _ _ _ HFb).
      + exists r, w'. split; [exact Hrun | split; [exact Hk | intros _; exact Hf]].
    - (* RemoveAll *)
      destruct (removeallF w n H Hn Hrm) as (r & w' & Hrun & Hk).
      destruct (keepsF_map _ (b_removeall base backup n) (fun _ => ObUnit) w w w' r Hrun Hk) as (r' & Hrun' & Hk' & _).
      exists r', w'. split; [exact Hrun' | split; [| intros D; discriminate D]].
      eapply keepsF_weaken; [| exact Hk'].
      intros q (s0 & Hs & Hqs). exists n, s0. split; [left; reflexivity |]. split; [| exact Hqs].
      destruct Hs as [-> | Hin]; [left; reflexivity | right; split; [reflexivity | exact Hin]].
    - (* Rename *)
      pose proof (List.Forall_inv (List.Forall_inv_tail Hres)) as Hn2. unfold resolved in Hn2.
      destruct (renameF w o n H Hn Hn2 Hren) as (r & w' & Hrun & Hk & Hf).
      destruct (keepsF_map _ (b_rename base backup o n) (fun _ => ObUnit) w w w' r Hrun Hk) as (r' & Hrun' & Hk' & Herr).
      exists r', w'. split; [exact Hrun' | split].
      + eapply keepsF_weaken; [| exact Hk'].
        intros q Hin. apply in_app_or in Hin. destruct Hin as [Hin | Hin].
        * apply (touches_cands _ o q); [left; reflexivity | exact Hin].
        * apply (touches_cands _ n q); [right; left; reflexivity | exact Hin].
      + intros _ Hnb Hns Hs. destruct (Hf Hnb Hns Hs) as [He HV]. split; [exact (Herr He) | exact HV].
    - (* Symlink *)
      apply (finish_nameF _ n); [left; reflexivity |].
      destruct (unit_opF (fun rn => a_symlink base t rn) w n [n] H Hn (incl_self_cands n Hc)) as (r & w' & Hrun & Hk & Hf).
      + intros w2 Hq2 Hwf2 HVb2. apply (law_user_symlink _ _ _ _ _ _ _ _ _ Lb w2 t n Hq2 Hwf2).
        rewrite HVb2. exact Hn.
      + apply (flaw_symlink _ _ _ _ _ HFb).
      + exists r, w'. split; [exact Hrun | split; [exact Hk | intros _; exact Hf]].
    - (* Chmod *)
      apply (finish_nameF _ n); [left; reflexivity |].
      destruct (unit_opF (fun rn => a_chmod base rn m) w n [n] H Hn (incl_self_cands n Hc)) as (r & w' & Hrun & Hk & Hf).
      + intros w2 Hq2 Hwf2 HVb2. apply (law_user_chmod _ _ _ _ _ _ _ _ _ Lb w2 n m Hq2 Hwf2);
          rewrite HVb2; [exact Hn | exact (List.Forall_inv (Hfol eq_refl))].
      + apply (flaw_chmod _ _ _ _ _ HFb).
      + exists r, w'. split; [exact Hrun | split; [exact Hk | intros _; exact Hf]].
    - (* Chown *)
      apply (finish_nameF _ n); [left; reflexivity |].
      destruct (unit_opF (fun rn => a_chown base rn u g) w n [n] H Hn (incl_self_cands n Hc)) as (r & w' & Hrun & Hk & Hf).
      + intros w2 Hq2 Hwf2 HVb2. apply (law_user_chown _ _ _ _ _ _ _ _ _ Lb w2 n u g Hq2 Hwf2);
          rewrite HVb2; [exact Hn | exact (List.Forall_inv (Hfol eq_refl))].
      + apply (flaw_chown _ _ _ _ _ HFb).
      + exists r, w'. split; [exact Hrun | split; [exact Hk | intros _; exact Hf]].
    - (* Lchown *)
      apply (finish_nameF _ n); [left; reflexivity |].
      destruct (unit_opF (fun rn => a_lchown base rn u g) w n [n] H Hn (incl_self_cands n Hc)) as (r & w' & Hrun & Hk & Hf).
      + intros w2 Hq2 Hwf2 HVb2. apply (law_user_lchown _ _ _ _ _ _ _ _ _ Lb w2 n u g Hq2 Hwf2).
        rewrite HVb2. exact Hn.
      + apply (flaw_lchown _ _ _ _ _ HFb).
      + exists r, w'. split; [exact Hrun | split; [exact Hk | intros _; exact Hf]].
    - (* Chtimes *)
      apply (finish_nameF _ n); [left; reflexivity |].
      destruct (unit_opF (fun rn => a_chtimes base rn (Preset t)) w n [n] H Hn (incl_self_cands n Hc)) as (r & w' & Hrun & Hk & Hf).
      + intros w2 Hq2 Hwf2 HVb2. apply (law_user_chtimes _ _ _ _ _ _ _ _ _ Lb w2 n (Preset t) Hq2 Hwf2);
          rewrite HVb2; [exact Hn | exact (List.Forall_inv (Hfol eq_refl))].
      + apply (flaw_chtimes _ _ _ _ _ HFb).
      + exists r, w'. split; [exact Hrun | split; [exact Hk | intros _; exact Hf]].
    - (* Stat *)
      apply finish_roF; [intros r w' D; discriminate D |]. unfold b_stat.
      apply (ro_callF (a_stat base n) ObInfo w H (flaw_stat _ _ _ _ _ HFb n)).
      apply (law2_stat _ _ _ _ _ _ _ Lb2 (unfault w) n Hq (inv_wf_b _ _ _ _ HI)). rewrite Vb_unfault. exact Hn.
    - (* Lstat *)
      apply finish_roF; [intros r w' D; discriminate D |]. unfold b_lstat.
      apply (ro_callF (a_lstat base n) ObInfo w H (flaw_lstat _ _ _ _ _ HFb n)).
      apply (lstat_framed base Vb Vk tnb accb rhb whb hid anc Lb (unfault w) n Hq (inv_wf_b _ _ _ _ HI)). rewrite Vb_unfault. exact Hn.
    - (* Readlink *)
      apply finish_roF; [intros r w' D; discriminate D |]. unfold b_readlink.
      apply (ro_callF (a_readlink base n) ObStr w H (flaw_readlink _ _ _ _ _ HFb n)).
      apply (law2_readlink _ _ _ _ _ _ _ Lb2 (unfault w) n Hq (inv_wf_b _ _ _ _ HI)). rewrite Vb_unfault. exact Hn.
    - (* Read *)
      apply finish_roF; [intros r w' D; discriminate D |].
      change (b_open base backup n) with (a_openfile base n 0 0).
      apply (ro_handle_opF (fun h => read_all tree_fuel h []) ObData w n H Hn).
      intros h wx Hcx Hfx. exact (read_allF tree_fuel h [] wx Hcx Hfx).
    - (* Readdir *)
      apply finish_roF; [intros r w' D; discriminate D |].
      change (b_open base backup n) with (a_openfile base n 0 0).
      apply (ro_handle_opF hreaddirnames (fun l => ObNames (sort_strings l)) w n H Hn).
      intros h wx Hcx Hfx.
      destruct (fcall_any Tany (hreaddirnames h) wx (fcall_hreaddirnames _ h (any_tag h)) Hcx) as (r1 & w1 & Hrun1 & Hn1 & Hc1 & Hf1 & Hsp1).
      exists r1, w1. split; [exact Hrun1 | split; [exact Hn1 | split; [exact (hreaddirnames_sim h wx r1 w1 Hrun1) |]]].
      split; [exact Hc1 | split; [congruence | exact Hsp1]].
  Qed.
End FTry.

(* ------------------------------------------------------------------ *)
(** * The theorems, as stated in Spec/Faults.v *)

Theorem try_backup_fault :
  forall base backup Vb Vk tnb tnk accb acck rhb rhk whb whk hid anc B0 tagb tagk,
  try_backup_fault_stmt base backup Vb Vk tnb tnk accb acck rhb rhk whb whk hid anc B0 tagb tagk.
Proof.
  intros base backup Vb Vk tnb tnk accb acck rhb rhk whb whk hid anc B0 tagb tagk.
  unfold try_backup_fault_stmt. cbv zeta. intros HLb HLk HFb HFk Hlinks Hsmall HwfB0 w p HI Hsingle Hnlp.
  destruct (try_backupFw base backup Vb Vk tnb tnk accb acck rhb rhk whb whk hid anc B0 tagb tagk
              HLb HLk HFb HFk Hlinks Hsmall HwfB0 (w_faults w) Hsingle w p (conj HI eq_refl) Hnlp)
    as (r & w' & Hrun & Hn & [HI' Hf'] & (HVb & Hm & Hd) & Htr & Hsp & Hfire).
  exists r, w'. split; [exact Hrun | split; [exact Hn | split; [exact HI' | split; [exact Hf' |]]]].
  split; [exact HVb | split; [split; [exact Hm | exact Hd] | split; [exact Htr | split; [exact Hsp |]]]].
  intros Hns Hs. destruct (Hfire Hns Hs) as [He | (f & Hin & Hft)]; [left; exact He | right].
  intros Hnb. exact (Hnb f Hin Hft).
Qed.

Theorem step_fault :
  forall base backup Vb Vk tnb tnk accb acck rhb rhk whb whk hid anc B0 tagb tagk,
  step_fault_stmt base backup Vb Vk tnb tnk accb acck rhb rhk whb whk hid anc B0 tagb tagk.
Proof.
  intros base backup Vb Vk tnb tnk accb acck rhb rhk whb whk hid anc B0 tagb tagk.
  unfold step_fault_stmt. cbv zeta. intros HLb HLb2 HLk HFb HFk Hlinks Hsmall HwfB0 o w HI Hsingle Hcov.
  destruct (stepF base backup Vb Vk tnb tnk accb acck rhb rhk whb whk hid anc B0 tagb tagk
              HLb HLk HFb HFk Hlinks Hsmall HwfB0 (w_faults w) Hsingle HLb2 o w (conj HI eq_refl) Hcov)
    as (r & w' & Hrun & (Hn & Hc' & Hf' & Hinv & Hie & Hsp) & Hfire).
  exists r, w'. split; [exact Hrun | split; [exact Hn | split; [exact Hc' | split; [exact Hf' |]]]].
  split; [intros Hks; exact (proj1 (Hinv Hks)) | split; [exact Hie | split; [exact Hsp | exact Hfire]]].
Qed.

(** the invariant along a history under a single fault *)
Lemma good_run_fault_inv :
  forall base backup Vb Vk tnb tnk accb acck rhb rhk whb whk hid anc B0 tagb tagk,
  base_laws base Vb Vk tnb accb rhb whb hid anc -> base_laws2 base Vb Vk tnb accb rhb whb ->
  backup_laws backup Vb Vk tnk acck rhk whk ->
  fault_laws base Vb tagb rhb whb -> fault_laws backup Vk tagk rhk whk ->
  links_ok tnb tnk accb acck B0 -> all_small B0 -> swf B0 ->
  forall w ops w', good_run base backup Vb w ops w' ->
  InvF Vb Vk B0 w -> single (w_faults w) ->
  InvF Vb Vk B0 w' /\ w_faults w' = w_faults w /\ (spent w -> spent w').
Proof.
  intros base backup Vb Vk tnb tnk accb acck rhb rhk whb whk hid anc B0 tagb tagk HLb HLb2 HLk HFb HFk Hlinks Hsmall HwfB
         w ops w' Hrun.
  induction Hrun as [w | w o ops r w1 w2 Hcov Hstep Hks Hrest IH]; intros HI Hsingle.
  - split; [exact HI | split; [reflexivity | intros Hs; exact Hs]].
  - destruct (step_fault base backup Vb Vk tnb tnk accb acck rhb rhk whb whk hid anc B0 tagb tagk
                HLb HLb2 HLk HFb HFk Hlinks Hsmall HwfB o w HI Hsingle Hcov)
      as (r' & w1' & Hstep' & _ & _ & Hf1 & Hinv & _ & Hsp1 & _).
    rewrite Hstep in Hstep'. injection Hstep' as Er Ew. subst r' w1'.
    destruct (IH (Hinv Hks) ltac:(rewrite Hf1; exact Hsingle)) as (HI2 & Hf2 & Hsp2).
    split; [exact HI2 | split; [congruence | intros Hs; exact (Hsp2 (Hsp1 Hs))]].
Qed.

(** the invariant of the state without its plan gives recoverable originals (C02) *)
Lemma InvF_recoverable (base backup : fsapi) (Vb Vk : world -> store) (B0 : store) tagb tagk rhb rhk whb whk :
  fault_laws base Vb tagb rhb whb -> fault_laws backup Vk tagk rhk whk ->
  forall w, InvF Vb Vk B0 w -> recoverable Vb Vk B0 w.
Proof.
  intros HFb HFk w [_ HI]. pose proof (Inv_rec Vb Vk B0 (unfault w) HI) as Hr.
  unfold recoverable in *.
  rewrite (flaw_st _ _ _ _ _ HFb w (unfault w) eq_refl), (flaw_st _ _ _ _ _ HFk w (unfault w) eq_refl) in Hr.
  exact Hr.
Qed.

Print Assumptions try_backup_fault.
Print Assumptions step_fault.
