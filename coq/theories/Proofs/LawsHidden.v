(** Theorem B for the DOCUMENTED layering - the backup location lies inside the
    base tree and is hidden from the base by HiddenFS -

      [dcfg pa h = mkConfig (Some pa) [h] (pa ++ h)]:
      base   = [spy TBase (hiddenfs [h] (prefixfs pa osfs))],  view [VpH pa h],
      backup = [spy TBackup (prefixfs (pa ++ h) osfs)],          view [Vp (pa ++ h)]

    ([pa]: the prefix of the base, an absolute cleaned path other than the
    root; [h]: the view path of the location, absolute, cleaned, not the root):
    the law records of Spec/Laws.v, Spec/Laws2.v, Spec/Always.v and
    Spec/Faults.v for both filesystems, with [hid := hid_h h] (at or below the
    location) and [anc := anc_h h] (proper ancestors of the location) for the
    base, and the BackupFS theorems of Proofs/Backup*.v, Always*.v, Fault*.v
    instantiated: closed theorems about [cfg_base (dcfg pa h)] and
    [cfg_backup (dcfg pa h)]. *)
From stdpp Require Import gmap.
From BFS Require Import Spec.CopySpecs Spec.Always Spec.Faults Spec.ViewOsfs Spec.ViewHidden.
From BFS Require Import Proofs.LawsOsfsBase Proofs.LawsOsfsA Proofs.LawsOsfsB Proofs.LawsOsfs.
From BFS Require Import Proofs.BackupCopy Proofs.BackupTry Proofs.BackupRollback Proofs.BackupC01 Proofs.BackupForce.
From BFS Require Import Proofs.RollbackFacts Proofs.AlwaysLib Proofs.AlwaysTry Proofs.AlwaysRollback Proofs.LawsOsfsCrash.
From BFS Require Import Proofs.FaultLib Proofs.FaultTry Proofs.FaultRollback Proofs.LawsOsfsFault.
From BFS Require Import Proofs.LawsHiddenBase Proofs.LawsHiddenView Proofs.LawsHiddenFrame Proofs.LawsHiddenApi.
From BFS Require Import Proofs.LawsHiddenA Proofs.LawsHiddenK Proofs.LawsHiddenStop.
Local Open Scope nat_scope.

(* ------------------------------------------------------------------ *)
(** * An auxiliary prefix disjoint from a given one *)

Lemma exists_disjoint_prefix (pa : str) :
  prefix_ok pa -> exists pb, prefix_ok pb /\ disjoint_prefixes pa pb.
Proof.
  intros Ha. pose proof (kp_nonnil pa Ha) as Hne. pose proof (kp_good pa Ha) as Hg.
  unfold kp in Hne, Hg. destruct (comps pa) as [| c0 rest] eqn:Ec; [contradiction Hne; reflexivity |].
  set (c1 := c0 ++ [120%N]).
  assert (Hg0 : good_compb c0 = true).
  { apply forallb_good_compb_spec in Hg. cbn [forallb] in Hg. apply andb_true_iff in Hg. exact (proj1 Hg). }
  assert (Hc1 : good_compb c1 = true).
  { unfold good_compb in Hg0 |- *. apply andb_true_iff in Hg0. destruct Hg0 as [Hg0 Hsep].
    apply andb_true_iff. split; [| unfold c1; rewrite existsb_app; apply negb_true_iff in Hsep;
                                   rewrite Hsep; reflexivity].
    apply andb_true_iff. split; [apply andb_true_iff; split |]; apply negb_true_iff; apply str_eqb_neq; unfold c1.
    - intros E. destruct c0; discriminate E.
    - intros E. change s_dot with ([] ++ [46%N]) in E. apply app_inj_tail in E. destruct E as [_ E]. discriminate E.
    - intros E. change s_dotdot with ([46%N] ++ [46%N]) in E. apply app_inj_tail in E. destruct E as [_ E]. discriminate E. }
  assert (Hgk : good_key [c1]).
  { apply forallb_good_compb_spec. cbn [forallb]. rewrite Hc1. reflexivity. }
  exists (kpath [c1]). split; [split |].
  - exact (kpath_good_abs_cleaned _ Hgk).
  - intros E. pose proof (comps_kpath_good _ Hgk) as Ek. rewrite E, comps_root in Ek. discriminate Ek.
  - unfold disjoint_prefixes. rewrite (comps_kpath_good _ Hgk), Ec.
    assert (Hne1 : c1 <> c0) by (unfold c1; apply snoc_neq).
    split; apply key_prefixb_false_iff; intros [r Er].
    + injection Er as E _. exact (Hne1 E).
    + injection Er as E _. exact (Hne1 (eq_sym E)).
Qed.

(* ------------------------------------------------------------------ *)
(** * The law records *)

Section Records.
  Variable tag : fstag.
  Variables pa h : str.
  Hypothesis Ha : prefix_ok pa.
  Hypothesis Hh : hidden_ok h.

  Notation pk := (pk_h pa h).

  (** the base *)
  Theorem hid_api_laws :
    api_laws (hid_api tag pa h) (VpH pa h) (Vp pk) clean (acc_h pa h) (rh_h tag pa) (wh_h tag pa)
             (hid_h h) (anc_h h).
  Proof.
    destruct (exists_disjoint_prefix pa Ha) as (pb0 & Hb0 & Hd0).
    exact (hid_api_laws_aux tag pa h pb0 Ha Hh Hb0 Hd0).
  Qed.

  Theorem hid_api_laws2 :
    api_laws2 (hid_api tag pa h) (VpH pa h) (Vp pk) clean (acc_h pa h) (rh_h tag pa) (wh_h tag pa).
  Proof.
    destruct (exists_disjoint_prefix pa Ha) as (pb0 & Hb0 & Hd0).
    exact (hid_api_laws2_aux tag pa h pb0 Ha Hh Hb0 Hd0).
  Qed.

  (** the backup filesystem, next to the base view *)
  Theorem backup_laws_hidden :
    api_laws (the_api tag pk) (Vp pk) (VpH pa h) clean (acc_p pk) (rh_p tag pk) (wh_p tag pk) nohid nohid.
  Proof.
    destruct (exists_disjoint_prefix pk (pk_ok pa h Ha Hh)) as (pb1 & Hb1 & Hd1).
    exact (backup_laws_hidden_aux tag pa h pb1 Ha Hh Hb1 Hd1).
  Qed.

  (** ** every method of the base is one primitive call *)
  Let H := hiddenfs [h] (prefixfs pa osfs).
  Let HS : stop_api H := hiddenfs_stop [h] _ (prefixfs_stop pa).

  Lemma plainop_mark (p : str) (m : M fhandle) : stop m -> plainop (x <- m ;; ret (spy_handle tag p x)).
  Proof. intros Hm. apply plainop_spy_handle. apply stop_plainop. exact Hm. Qed.

  Lemma fplain_mark (p : str) (m : M fhandle) : stop m -> fplain (x <- m ;; ret (spy_handle tag p x)).
  Proof. intros Hm. apply fplain_spy_handle. apply stop_fplain. exact Hm. Qed.

  Lemma VpH_w_st (w w' : world) : w_st w' = w_st w -> VpH pa h w' = VpH pa h w.
  Proof. intros E. rewrite !VpH_FH, (Vp_st pa w w' E). reflexivity. Qed.

  Theorem hid_api_crash_laws : api_crash_laws (hid_api tag pa h) (VpH pa h).
  Proof.
    unfold hid_api. fold H.
    constructor; cbn [spy a_lstat a_stat a_readlink a_open a_openfile a_create a_mkdir
      a_mkdirall a_remove a_removeall a_rename a_chmod a_chown a_lchown a_chtimes a_symlink].
    - intros w c. apply VpH_w_st. reflexivity.
    - intros p. apply spied_atomic. apply stop_plainop. apply HS.
    - intros p. apply spied_atomic. apply stop_plainop. apply HS.
    - intros p. apply spied_atomic. apply stop_plainop. apply HS.
    - intros p. apply spied_atomic. apply plainop_mark. apply HS.
    - intros p fl perm. apply spied_atomic. apply plainop_mark. apply HS.
    - intros p. apply spied_atomic. apply plainop_mark. apply HS.
    - intros p perm. apply spied_atomic. apply stop_plainop. apply HS.
    - intros p perm. apply spied_atomic. apply stop_plainop. apply HS.
    - intros p. apply spied_atomic. apply stop_plainop. apply HS.
    - intros p. apply spied_atomic. apply stop_plainop. apply HS.
    - intros o n. apply spied_atomic. apply stop_plainop. apply HS.
    - intros p m. apply spied_atomic. apply stop_plainop. apply HS.
    - intros p u g. apply spied_atomic. apply stop_plainop. apply HS.
    - intros p u g. apply spied_atomic. apply stop_plainop. apply HS.
    - intros p t. apply spied_atomic. apply stop_plainop. apply HS.
    - intros t p. apply spied_atomic. apply stop_plainop. apply HS.
    - intros x w r w' Hrun. apply VpH_w_st. exact (hread_st x w r w' Hrun).
    - intros x w r w' Hrun. apply VpH_w_st. exact (hclose_st x w r w' Hrun).
    - intros x w r w' Hrun. apply VpH_w_st. exact (hstat_st x w r w' Hrun).
    - intros x w r w' Hrun. apply VpH_w_st. exact (hreaddirnames_st x w r w' Hrun).
  Qed.

  (** the handles the base returns are spied *)
  Lemma spied_handle_tag (pm : pmeth) (p : str) (m : M fhandle) (w w' : world) (x : fhandle) :
    spied tag pm p [] (x0 <- m ;; ret (spy_handle tag p x0)) w = (MOk x, w') -> fh_spy x = Some (tag, p).
  Proof.
    intros Hrun. unfold spied in Hrun.
    set (w1 := mkWorld (w_st w) (w_trace w) (N.succ (w_ticks w)) (w_crash w) (w_faults w) (w_infos w)) in *.
    assert (Hbody : (if faulted w1 tag pm p then (MErr EIO, record (mkTcall tag pm p [] (Some EIO)) w1)
                     else match (x0 <- m ;; ret (spy_handle tag p x0)) w1 with
                          | (MOk a, w2) => (MOk a, record (mkTcall tag pm p [] None) w2)
                          | (MErr e, w2) => (MErr e, record (mkTcall tag pm p [] (Some e)) w2)
                          | (MHalt, w2) => (MHalt, w2)
                          end) = (MOk x, w') -> fh_spy x = Some (tag, p)).
    { intros E. destruct (faulted w1 tag pm p); [discriminate E |].
      unfold bind in E. destruct (m w1) as [[x0 | e |] w2]; try discriminate E.
      unfold ret in E. injection E as <- _. reflexivity. }
    destruct (w_crash w) as [k |]; [| exact (Hbody Hrun)].
    destruct (N.leb k (w_ticks w)); [discriminate Hrun | exact (Hbody Hrun)].
  Qed.

  Theorem hid_api_fault_laws : fault_laws (hid_api tag pa h) (VpH pa h) tag (rh_h tag pa) (wh_h tag pa).
  Proof.
    unfold hid_api. fold H.
    constructor; cbn [spy a_lstat a_stat a_readlink a_open a_openfile a_create a_mkdir
      a_mkdirall a_remove a_removeall a_rename a_chmod a_chown a_lchown a_chtimes a_symlink].
    - intros w w' E. exact (VpH_w_st w w' E).
    - intros p. apply spied_fcall. apply stop_fplain. apply HS.
    - intros p. apply spied_fcall. apply stop_fplain. apply HS.
    - intros p. apply spied_fcall. apply stop_fplain. apply HS.
    - intros p. apply spied_fcall. apply fplain_mark. apply HS.
    - intros p fl perm. apply spied_fcall. apply fplain_mark. apply HS.
    - intros p. apply spied_fcall. apply fplain_mark. apply HS.
    - intros p perm. apply spied_fcall. apply stop_fplain. apply HS.
    - intros p perm. apply spied_fcall. apply stop_fplain. apply HS.
    - intros p. apply spied_fcall. apply stop_fplain. apply HS.
    - intros p. apply spied_fcall. apply stop_fplain. apply HS.
    - intros o n. apply spied_fcall. apply stop_fplain. apply HS.
    - intros p m. apply spied_fcall. apply stop_fplain. apply HS.
    - intros p u g. apply spied_fcall. apply stop_fplain. apply HS.
    - intros p u g. apply spied_fcall. apply stop_fplain. apply HS.
    - intros p t. apply spied_fcall. apply stop_fplain. apply HS.
    - intros t p. apply spied_fcall. apply stop_fplain. apply HS.
    - intros x p pos (Hs & _) t q Ht. cbn [unmark fh_spy] in Hs. rewrite Hs in Ht. injection Ht as <- _. reflexivity.
    - intros x p pos (Hs & _) t q Ht. cbn [unmark fh_spy] in Hs. rewrite Hs in Ht. injection Ht as <- _. reflexivity.
    - intros p w w' x Hopen t q Ht.
      assert (Hs : fh_spy x = Some (tag, p)).
      { destruct Hopen as [E | [(fl & perm & E) | E]]; exact (spied_handle_tag _ p _ w w' x E). }
      rewrite Hs in Ht. injection Ht as <- _. reflexivity.
  Qed.
End Records.

Print Assumptions hid_api_laws.
Print Assumptions hid_api_laws2.
Print Assumptions backup_laws_hidden.
Print Assumptions hid_api_crash_laws.
Print Assumptions hid_api_fault_laws.

(* ------------------------------------------------------------------ *)
(** * The BackupFS theorems for the documented layering

    [dcfg pa h = mkConfig (Some pa) [h] (pa ++ h)]: [cfg_base] and
    [cfg_backup] of this configuration are (by computation) [hid_api TBase pa h]
    and [the_api TBackup (pa ++ h)]. *)

Section Documented.
  Variables pa h : str.
  Hypothesis Ha : prefix_ok pa.
  Hypothesis Hh : hidden_ok h.

  Notation pk := (pk_h pa h).
  Notation dbase := (cfg_base (dcfg pa h)).
  Notation dbackup := (cfg_backup (dcfg pa h)).
  Notation Vb := (VpH pa h).
  Notation Vk := (Vp (pk_h pa h)).
  Notation accb := (acc_h pa h).
  Notation acck := (acc_p (pk_h pa h)).

  Lemma dcfg_base : dbase = hid_api TBase pa h.
  Proof. reflexivity. Qed.
  Lemma dcfg_backup : dbackup = the_api TBackup pk.
  Proof. reflexivity. Qed.

  Let Lb := hid_api_laws TBase pa h Ha Hh.
  Let Lb2 := hid_api_laws2 TBase pa h Ha Hh.
  Let Lk := backup_laws_hidden TBackup pa h Ha Hh.
  Let Cb := hid_api_crash_laws TBase pa h.
  Let Ck := the_api_crash_laws TBackup pk.
  Let Fb := hid_api_fault_laws TBase pa h.
  Let Fk := the_api_fault_laws TBackup pk.

  (** C01, closed: any history of covered operations - operations on the
      ancestors of the location included - then Rollback *)
  Theorem c01_documented :
    forall B0, all_small B0 ->
    forall w0 ops w,
      initial Vb Vk clean clean accb acck B0 w0 ->
      good_run dbase dbackup Vb w0 ops w ->
      exists w', b_rollback dbase dbackup w = (MOk tt, w') /\
                 store_eqv (Vb w') B0 /\ (forall p, p <> s_root -> Vk w' !! p = None) /\
                 w_infos w' = ∅.
  Proof using Ha Hh.
    intros B0 Hsmall w0 ops w Hinit Hrun.
    exact (c01_spec (hid_api TBase pa h) (the_api TBackup pk) Vb Vk clean clean accb acck
             (rh_h TBase pa) (rh_p TBackup pk) (wh_h TBase pa) (wh_p TBackup pk) (hid_h h) (anc_h h)
             B0 Lb Lb2 Lk Hsmall w0 ops w Hinit Hrun).
  Qed.

  (** Rollback from any state satisfying the invariant *)
  Theorem rollback_documented :
    forall B0, links_ok clean clean accb acck B0 -> all_small B0 -> swf B0 -> loc_ok (hid_h h) (anc_h h) B0 ->
    forall w, Inv Vb Vk B0 w ->
    exists w', b_rollback dbase dbackup w = (MOk tt, w') /\ quiet w' /\
               store_eqv (Vb w') B0 /\ (forall p, p <> s_root -> Vk w' !! p = None) /\
               w_infos w' = ∅.
  Proof using Ha Hh.
    intros B0 Hl Hs Hwf Hloc w HI.
    exact (rollback_spec (hid_api TBase pa h) (the_api TBackup pk) Vb Vk clean clean accb acck
             (rh_h TBase pa) (rh_p TBackup pk) (wh_h TBase pa) (wh_p TBackup pk) (hid_h h) (anc_h h)
             B0 Lb Lk Hl Hs Hwf Hloc w HI).
  Qed.

  (** every covered operation keeps the invariant *)
  Theorem step_documented :
    forall B0, links_ok clean clean accb acck B0 -> all_small B0 -> swf B0 ->
    forall o w, Inv Vb Vk B0 w -> covered Vb o w ->
    exists r w', step dbase dbackup o w = (r, w') /\ r <> MHalt /\
                 (kind_stable Vb w' -> Inv Vb Vk B0 w') /\
                 infos_ext_in w w' (op_touches o).
  Proof using Ha Hh.
    intros B0 Hl Hs Hwf o w HI Hc.
    exact (step_spec (hid_api TBase pa h) (the_api TBackup pk) Vb Vk clean clean accb acck
             (rh_h TBase pa) (rh_p TBackup pk) (wh_h TBase pa) (wh_p TBackup pk) (hid_h h) (anc_h h)
             B0 Lb Lb2 Lk Hl Hs Hwf o w HI Hc).
  Qed.

  (** C02 between operations, closed *)
  Theorem c02_documented :
    forall B0, all_small B0 ->
    forall w0 ops w,
      initial Vb Vk clean clean accb acck B0 w0 ->
      good_run dbase dbackup Vb w0 ops w ->
      (forall p n0, B0 !! p = Some n0 -> p <> s_root ->
         sonode_eqv (Vb w !! p) (Some n0) \/
         exists nk, Vk w !! p = Some nk /\ copy_of n0 nk) /\
      (forall p, p <> s_root -> Vk w !! p <> None ->
         exists n0 nk, B0 !! p = Some n0 /\ Vk w !! p = Some nk /\ copy_of n0 nk).
  Proof using Ha Hh.
    intros B0 Hsmall w0 ops w Hinit Hrun.
    exact (recoverable_between_operations (hid_api TBase pa h) (the_api TBackup pk) Vb Vk
             clean clean accb acck (rh_h TBase pa) (rh_p TBackup pk)
             (wh_h TBase pa) (wh_p TBackup pk) (hid_h h) (anc_h h) B0 Lb Lb2 Lk Hsmall w0 ops w Hinit Hrun).
  Qed.

  (** the invariant holds in every state reached from an initial one by covered operations *)
  Theorem inv_documented :
    forall B0, all_small B0 ->
    forall w0 ops w,
      initial Vb Vk clean clean accb acck B0 w0 ->
      good_run dbase dbackup Vb w0 ops w ->
      Inv Vb Vk B0 w.
  Proof using Ha Hh.
    intros B0 Hsmall w0 ops w Hinit Hrun.
    pose proof Hinit as (_ & _ & _ & HwfB & Hlinks & _ & _).
    exact (good_run_inv (hid_api TBase pa h) (the_api TBackup pk) Vb Vk clean clean accb acck
             (rh_h TBase pa) (rh_p TBackup pk) (wh_h TBase pa) (wh_p TBackup pk) (hid_h h) (anc_h h)
             B0 Lb Lb2 Lk Hlinks Hsmall HwfB w0 ops w Hrun
             (initial_inv_spec Vb Vk clean clean accb acck B0 w0 Hinit)).
  Qed.

  (** the initial store shows nothing of the location and its ancestors as directories *)
  Theorem loc_ok_documented :
    forall B0 w0, initial Vb Vk clean clean accb acck B0 w0 -> loc_ok (hid_h h) (anc_h h) B0.
  Proof using Ha Hh.
    intros B0 w0 Hinit.
    exact (initial_loc_ok (hid_api TBase pa h) Vb Vk clean clean accb acck (rh_h TBase pa) (wh_h TBase pa)
             (hid_h h) (anc_h h) B0 Lb w0 Hinit).
  Qed.

  (** C17, closed: ForceBackup(p), covered operations, Rollback *)
  Theorem c17_documented :
    forall B0, links_ok clean clean accb acck B0 -> all_small B0 -> swf B0 -> loc_ok (hid_h h) (anc_h h) B0 ->
    forall w p, Inv Vb Vk B0 w -> snolinkpar (Vb w) p -> p <> s_root ->
    entry_ok clean clean accb acck p (Vb w !! p) -> orig_not_dir_cond w p ->
    parents_original Vb B0 w p ->
    forall r w1 ops w2,
      b_force_backup dbase dbackup p w = (r, w1) ->
      good_run dbase dbackup Vb w1 ops w2 ->
      exists w3, b_rollback dbase dbackup w2 = (MOk tt, w3) /\
                 sonode_eqv (Vb w3 !! p) (Vb w !! p) /\
                 (forall q, q <> p -> q <> s_root -> sonode_eqv (Vb w3 !! q) (B0 !! q)) /\
                 (forall q, q <> s_root -> Vk w3 !! q = None) /\ w_infos w3 = ∅ /\
                 (r <> MOk tt -> (forall fi, w_infos w !! p <> Some (Some fi)) ->
                  sonode_eqv (Vb w3 !! p) (B0 !! p)).
  Proof using Ha Hh.
    intros B0 Hl Hs Hwf Hloc w p HI Hnlp Hne Hcur Hfi Hpar0 r w1 ops w2 Hrun Hgood.
    exact (c17_spec (hid_api TBase pa h) (the_api TBackup pk) Vb Vk clean clean accb acck
             (rh_h TBase pa) (rh_p TBackup pk) (wh_h TBase pa) (wh_p TBackup pk) (hid_h h) (anc_h h)
             B0 Lb Lb2 Lk Hl Hs Hwf Hloc w p HI Hnlp Hne Hcur Hfi Hpar0 r w1 ops w2 Hrun Hgood).
  Qed.

  (** ** at every instant (crash points) *)

  (** C02 at every instant, closed: a history of covered operations started in
      an [initial] world with a crash point, wherever it stops *)
  Theorem c02_instant_documented :
    forall B0, all_small B0 ->
    forall w0 ops w,
      initial Vb Vk clean clean accb acck B0 w0 ->
      good_run dbase dbackup Vb w0 ops w ->
    forall k outs wh, run_history (dcfg pa h) ops (with_crash w0 (Some k)) = (outs, wh) ->
    recoverable Vb Vk B0 wh.
  Proof using Ha Hh.
    intros B0 Hs w0 ops w Hinit Hrun k outs wh Hk.
    exact (run_always (hid_api TBase pa h) (the_api TBackup pk) Vb Vk clean clean accb acck
             (rh_h TBase pa) (rh_p TBackup pk) (wh_h TBase pa) (wh_p TBackup pk) (hid_h h) (anc_h h)
             B0 Lb Lb2 Lk Cb Ck Hs w0 ops w Hinit Hrun k outs wh Hk).
  Qed.

  (** ... Rollback included *)
  Theorem c02_instant_rollback_documented :
    forall B0, all_small B0 ->
    forall w0 ops w,
      initial Vb Vk clean clean accb acck B0 w0 ->
      good_run dbase dbackup Vb w0 ops w ->
    forall k outs wh, run_history (dcfg pa h) (ops ++ [ORollback]) (with_crash w0 (Some k)) = (outs, wh) ->
    recoverable Vb Vk B0 wh.
  Proof using Ha Hh.
    intros B0 Hs w0 ops w Hinit Hrun k outs wh Hk.
    exact (run_rollback_always (hid_api TBase pa h) (the_api TBackup pk) Vb Vk clean clean accb acck
             (rh_h TBase pa) (rh_p TBackup pk) (wh_h TBase pa) (wh_p TBackup pk) (hid_h h) (anc_h h)
             B0 Lb Lb2 Lk Cb Ck Hs w0 ops w Hinit Hrun k outs wh Hk).
  Qed.

  (** ** under a single fault *)
  Local Notation invf := (InvF Vb Vk).

  (** every covered operation under a single fault (C08) *)
  Theorem step_fault_documented :
    forall B0, links_ok clean clean accb acck B0 -> all_small B0 -> swf B0 ->
    forall o w, invf B0 w -> single (w_faults w) -> covered Vb o w ->
    exists r w', step dbase dbackup o w = (r, w') /\ r <> MHalt /\ w_crash w' = None /\
      w_faults w' = w_faults w /\
      (kind_stable Vb w' -> invf B0 w') /\ infos_ext_in w w' (op_touches o) /\
      (spent w -> spent w') /\
      (takes_backup o = true -> no_base_fault TBase w -> ~ spent w -> spent w' ->
       (exists e, r = MErr e) /\ Vb w' = Vb w).
  Proof using Ha Hh.
    intros B0 Hl Hs Hwf.
    exact (step_fault (hid_api TBase pa h) (the_api TBackup pk) Vb Vk clean clean accb acck
             (rh_h TBase pa) (rh_p TBackup pk) (wh_h TBase pa) (wh_p TBackup pk) (hid_h h) (anc_h h)
             B0 TBase TBackup Lb Lb2 Lk Fb Fk Hl Hs Hwf).
  Qed.

  (** Rollback under any fault plan: nil only if restored (C09) *)
  Theorem rollback_nil_documented :
    forall B0, links_ok clean clean accb acck B0 -> all_small B0 -> swf B0 -> loc_ok (hid_h h) (anc_h h) B0 ->
    forall w r w', invf B0 w -> b_rollback dbase dbackup w = (r, w') ->
    r <> MHalt /\
    (r = MOk tt -> store_eqv (Vb w') B0 /\ (forall p, p <> s_root -> Vk w' !! p = None) /\
                   w_infos w' = ∅).
  Proof using Ha Hh.
    intros B0 Hl Hs Hwf Hloc.
    exact (rollback_nil_restored (hid_api TBase pa h) (the_api TBackup pk) Vb Vk clean clean accb acck
             (rh_h TBase pa) (rh_p TBackup pk) (wh_h TBase pa) (wh_p TBackup pk) (hid_h h) (anc_h h)
             B0 TBase TBackup Lb Lk Fb Fk Hl Hs Hwf Hloc).
  Qed.

  (** a history of covered operations under a single fault, then Rollback (C08 / C01 / C02 / C09) *)
  Theorem run_fault_documented :
    forall B0, all_small B0 ->
    forall w0 ops w,
      initialF Vb Vk clean clean accb acck B0 w0 ->
      good_run dbase dbackup Vb w0 ops w ->
    invf B0 w /\ recoverable Vb Vk B0 w /\
    exists r w', b_rollback dbase dbackup w = (r, w') /\ r <> MHalt /\
      (r = MOk tt -> store_eqv (Vb w') B0 /\ (forall p, p <> s_root -> Vk w' !! p = None) /\
                     w_infos w' = ∅) /\
      (spent w -> r = MOk tt).
  Proof using Ha Hh.
    intros B0 Hs.
    exact (run_fault (hid_api TBase pa h) (the_api TBackup pk) Vb Vk clean clean accb acck
             (rh_h TBase pa) (rh_p TBackup pk) (wh_h TBase pa) (wh_p TBackup pk) (hid_h h) (anc_h h)
             B0 TBase TBackup Lb Lb2 Lk Fb Fk Hs).
  Qed.
End Documented.

Print Assumptions c01_documented.
Print Assumptions rollback_documented.
Print Assumptions step_documented.
Print Assumptions c02_documented.
Print Assumptions inv_documented.
Print Assumptions loc_ok_documented.
Print Assumptions c17_documented.
Print Assumptions c02_instant_documented.
Print Assumptions c02_instant_rollback_documented.
Print Assumptions step_fault_documented.
Print Assumptions rollback_nil_documented.
Print Assumptions run_fault_documented.
