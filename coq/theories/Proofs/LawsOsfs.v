(** Theorem B: the laws of Spec/Laws.v and Spec/Laws2.v hold for the concrete
    layered filesystem [the_api tag pa = spy tag (prefixfs pa osfs)] with the
    view [Vp pa], next to a second filesystem rooted at a disjoint prefix [pb].
    The individual laws are proved in LawsOsfsBase.v (Section Examples),
    LawsOsfsA.v and LawsOsfsB.v; here they are assembled into the records, and
    the BackupFS theorems of Proofs/Backup*.v are instantiated: they become
    closed theorems about [cfg_base c] / [cfg_backup c] for the configuration
    [c = mkConfig (Some pa) [] pb] - the very objects the correspondence check
    runs against the Go code (layering "generic p=... q=..."). *)
From stdpp Require Import gmap.
From BFS Require Import Spec.CopySpecs Spec.ViewOsfs.
From BFS Require Import Proofs.LawsOsfsBase Proofs.LawsOsfsA Proofs.LawsOsfsB.
From BFS Require Import Proofs.BackupCopy Proofs.BackupTry Proofs.BackupRollback Proofs.BackupC01 Proofs.BackupForce.

Section Assemble.
  Variable tag : fstag.
  Variables pa pb : str.
  Hypothesis Ha : prefix_ok pa.
  Hypothesis Hb : prefix_ok pb.
  Hypothesis Hd : disjoint_prefixes pa pb.

  Theorem the_api_laws :
    api_laws (the_api tag pa) (Vp pa) (Vp pb) clean (acc_p pa) (rh_p tag pa) (wh_p tag pa).
  Proof using Ha Hb Hd.
    constructor.
    - apply osfs_law_infos_indep.
    - eapply ex_law_lstat_some; eassumption.
    - eapply ex_law_lstat_none; eassumption.
    - eapply osfs_law_readlink; eassumption.
    - eapply osfs_law_open_file; eassumption.
    - eapply osfs_law_open_err; eassumption.
    - eapply osfs_law_hread; eassumption.
    - eapply osfs_law_hstat; eassumption.
    - eapply osfs_law_hclose_r; eassumption.
    - eapply ex_law_mkdirall_new; eassumption.
    - eapply osfs_law_mkdirall_dir; eassumption.
    - eapply ex_law_chmod; eassumption.
    - eapply osfs_law_chtimes; eassumption.
    - eapply osfs_law_chown; eassumption.
    - eapply osfs_law_lchown; eassumption.
    - eapply ex_law_symlink; eassumption.
    - eapply osfs_law_openfile_new; eassumption.
    - eapply osfs_law_openfile_trunc; eassumption.
    - eapply ex_law_hwrite; eassumption.
    - eapply osfs_law_hclose_w; eassumption.
    - eapply ex_law_remove_leaf; eassumption.
    - eapply osfs_law_removeall_leaf; eassumption.
    - eapply osfs_law_remove_none; eassumption.
    - eapply osfs_law_remove_nonempty; eassumption.
    - eapply osfs_law_user_create; eassumption.
    - eapply osfs_law_user_openfile; eassumption.
    - eapply osfs_law_user_handle; eassumption.
    - eapply ex_law_user_mkdir; eassumption.
    - eapply osfs_law_user_mkdirall; eassumption.
    - eapply osfs_law_user_remove_nonroot; eassumption.
    - eapply ex_law_user_rename; eassumption.
    - eapply osfs_law_user_chmod; eassumption.
    - eapply osfs_law_user_chown; eassumption.
    - eapply osfs_law_user_chtimes; eassumption.
    - eapply osfs_law_user_lchown; eassumption.
    - eapply osfs_law_user_symlink; eassumption.
    - apply osfs_law_tnorm_idem.
  Qed.

  Theorem the_api_laws2 :
    api_laws2 (the_api tag pa) (Vp pa) (Vp pb) clean (acc_p pa) (rh_p tag pa) (wh_p tag pa).
  Proof using Ha Hb Hd.
    constructor.
    - eapply osfs_law2_stat; eassumption.
    - eapply osfs_law2_readlink; eassumption.
    - eapply osfs_law2_open_ro; eassumption.
    - eapply osfs_law2_ro_handle; eassumption.
    - eapply osfs_law2_readdir; eassumption.
  Qed.
End Assemble.

Print Assumptions the_api_laws.
Print Assumptions the_api_laws2.

(** * The BackupFS theorems for the concrete layering

    [c = mkConfig (Some pa) [] pb]: the base is PrefixFS([pa]) over the OS
    filesystem, the backup is PrefixFS([pb]) over the same OS filesystem, the
    two prefixes are disjoint directories - the layering "generic" of the
    correspondence check.  [cfg_base c] and [cfg_backup c] are (by
    computation) [the_api TBase pa] and [the_api TBackup pb]. *)
Section Concrete.
  Variables pa pb : str.
  Hypothesis Ha : prefix_ok pa.
  Hypothesis Hb : prefix_ok pb.
  Hypothesis Hd : disjoint_prefixes pa pb.

  Definition gcfg : config := mkConfig (Some pa) [] pb.

  Lemma gcfg_base : cfg_base gcfg = the_api TBase pa.
  Proof. reflexivity. Qed.
  Lemma gcfg_backup : cfg_backup gcfg = the_api TBackup pb.
  Proof. reflexivity. Qed.

  Let Lb := the_api_laws TBase pa pb Ha Hb Hd.
  Let Lb2 := the_api_laws2 TBase pa pb Ha Hb Hd.
  Let Lk := the_api_laws TBackup pb pa Hb Ha (disjoint_prefixes_sym pa pb Hd).

  (** C01, closed: any history of covered operations, then Rollback *)
  Theorem c01_concrete :
    forall B0, all_small B0 ->
    forall w0 ops w,
      initial (Vp pa) (Vp pb) clean clean (acc_p pa) (acc_p pb) B0 w0 ->
      good_run (cfg_base gcfg) (cfg_backup gcfg) (Vp pa) w0 ops w ->
      exists w', b_rollback (cfg_base gcfg) (cfg_backup gcfg) w = (MOk tt, w') /\
                 store_eqv (Vp pa w') B0 /\ (forall p, p <> s_root -> Vp pb w' !! p = None) /\
                 w_infos w' = ∅.
  Proof using Ha Hb Hd.
    intros B0 Hsmall w0 ops w Hinit Hrun.
    exact (c01_spec (the_api TBase pa) (the_api TBackup pb) (Vp pa) (Vp pb) clean clean
             (acc_p pa) (acc_p pb) (rh_p TBase pa) (rh_p TBackup pb) (wh_p TBase pa) (wh_p TBackup pb)
             B0 Lb Lb2 Lk Hsmall w0 ops w Hinit Hrun).
  Qed.

  (** Rollback from any state satisfying the invariant *)
  Theorem rollback_concrete :
    forall B0, links_ok clean clean (acc_p pa) (acc_p pb) B0 -> all_small B0 -> swf B0 ->
    forall w, Inv (Vp pa) (Vp pb) B0 w ->
    exists w', b_rollback (cfg_base gcfg) (cfg_backup gcfg) w = (MOk tt, w') /\ quiet w' /\
               store_eqv (Vp pa w') B0 /\ (forall p, p <> s_root -> Vp pb w' !! p = None) /\
               w_infos w' = ∅.
  Proof using Ha Hb Hd.
    intros B0 Hl Hs Hwf w HI.
    exact (rollback_spec (the_api TBase pa) (the_api TBackup pb) (Vp pa) (Vp pb) clean clean
             (acc_p pa) (acc_p pb) (rh_p TBase pa) (rh_p TBackup pb) (wh_p TBase pa) (wh_p TBackup pb)
             B0 Lb Lk Hl Hs Hwf w HI).
  Qed.

  (** every covered operation keeps the invariant *)
  Theorem step_concrete :
    forall B0, links_ok clean clean (acc_p pa) (acc_p pb) B0 -> all_small B0 -> swf B0 ->
    forall o w, Inv (Vp pa) (Vp pb) B0 w -> covered (Vp pa) o w ->
    exists r w', step (cfg_base gcfg) (cfg_backup gcfg) o w = (r, w') /\ r <> MHalt /\
                 (kind_stable (Vp pa) w' -> Inv (Vp pa) (Vp pb) B0 w') /\
                 infos_ext_in w w' (op_touches o).
  Proof using Ha Hb Hd.
    intros B0 Hl Hs Hwf o w HI Hc.
    exact (step_spec (the_api TBase pa) (the_api TBackup pb) (Vp pa) (Vp pb) clean clean
             (acc_p pa) (acc_p pb) (rh_p TBase pa) (rh_p TBackup pb) (wh_p TBase pa) (wh_p TBackup pb)
             B0 Lb Lb2 Lk Hl Hs Hwf o w HI Hc).
  Qed.
End Concrete.

Print Assumptions c01_concrete.
Print Assumptions rollback_concrete.
Print Assumptions step_concrete.
