(** Theorem B: the laws of Spec/Laws.v and Spec/Laws2.v hold for the concrete
    layered filesystem [the_api tag pa = spy tag (prefixfs pa osfs)] with the
    view [Vp pa], next to a second filesystem rooted at a disjoint prefix [pb].
    The individual laws are proved in LawsOsfsBase.v (Section Examples),
    LawsOsfsA.v and LawsOsfsB.v; here they are assembled into the records, and
    the BackupFS theorems of Proofs/Backup*.v are instantiated: they become
    closed theorems about [cfg_base c] / [cfg_backup c] for the configuration
    [c = mkConfig (Some pa) [] pb] - the very objects the correspondence check
    runs against the Go code (layering "generic p=... q=..."). *)
From stdpp Require Import gmap.
From BFS Require Import Spec.CopySpecs Spec.ViewOsfs.
From BFS Require Import Proofs.LawsOsfsBase Proofs.LawsOsfsA Proofs.LawsOsfsB.
From BFS Require Import Proofs.BackupCopy Proofs.BackupTry Proofs.BackupRollback Proofs.BackupC01 Proofs.BackupForce.

Section Assemble.
  Variable tag : fstag.
  Variables pa pb : str.
  Hypothesis Ha : prefix_ok pa.
  Hypothesis Hb : prefix_ok pb.
  Hypothesis Hd : disjoint_prefixes pa pb.

  Theorem the_api_laws :
    api_laws (the_api tag pa) (Vp pa) (Vp pb) clean (acc_p pa) (rh_p tag pa) (wh_p tag pa) nohid nohid.
  Proof using Ha Hb Hd.
    constructor.
    - apply osfs_law_infos_indep.
    - eapply ex_law_lstat_some; eassumption.
    - eapply ex_law_lstat_none; eassumption.
    - eapply osfs_law_readlink; eassumption.
    - eapply osfs_law_open_file; eassumption.
    - eapply osfs_law_open_err; eassumption.
    - eapply osfs_law_hread; eassumption.
    - eapply osfs_law_hstat; eassumption.
    - eapply osfs_law_hclose_r; eassumption.
    - intros w p perm Hq Hwf Hdir Hnone _. eapply ex_law_mkdirall_new; eassumption.
    - eapply osfs_law_mkdirall_dir; eassumption.
    - eapply ex_law_chmod; eassumption.
    - eapply osfs_law_chtimes; eassumption.
    - eapply osfs_law_chown; eassumption.
    - eapply osfs_law_lchown; eassumption.
    - intros w t p Hq Hwf Hdir Hnone Ht Hacc _. eapply ex_law_symlink; eassumption.
    - intros w p perm Hq Hwf Hdir Hnone _. eapply osfs_law_openfile_new; eassumption.
    - eapply osfs_law_openfile_trunc; eassumption.
    - eapply ex_law_hwrite; eassumption.
    - eapply osfs_law_hclose_w; eassumption.
    - intros w p n Hq Hwf Hnlp Hp Hnc Hne _. eapply ex_law_remove_leaf; eassumption.
    - eapply osfs_law_removeall_leaf; eassumption.
    - eapply osfs_law_remove_none; eassumption.
    - eapply osfs_law_remove_nonempty; eassumption.
    - eapply osfs_law_user_create; eassumption.
    - eapply osfs_law_user_openfile; eassumption.
    - eapply osfs_law_user_handle; eassumption.
    - eapply ex_law_user_mkdir; eassumption.
    - eapply osfs_law_user_mkdirall; eassumption.
    - eapply osfs_law_user_remove_nonroot; eassumption.
    - eapply ex_law_user_rename; eassumption.
    - eapply osfs_law_user_chmod; eassumption.
    - eapply osfs_law_user_chown; eassumption.
    - eapply osfs_law_user_chtimes; eassumption.
    - eapply osfs_law_user_lchown; eassumption.
    - eapply osfs_law_user_symlink; eassumption.
    - apply osfs_law_tnorm_idem.
    - intros w p [].
    - intros w p [].
    - intros w p _ _ [].
    - intros p. right. intros [].
  Qed.

  Theorem the_api_laws2 :
    api_laws2 (the_api tag pa) (Vp pa) (Vp pb) clean (acc_p pa) (rh_p tag pa) (wh_p tag pa).
  Proof using Ha Hb Hd.
    constructor.
    - eapply osfs_law2_stat; eassumption.
    - eapply osfs_law2_readlink; eassumption.
    - eapply osfs_law2_open_ro; eassumption.
    - eapply osfs_law2_ro_handle; eassumption.
    - eapply osfs_law2_readdir; eassumption.
  Qed.
End Assemble.

Print Assumptions the_api_laws.
Print Assumptions the_api_laws2.

(** * The BackupFS theorems for the concrete layering

    [c = mkConfig (Some pa) [] pb]: the base is PrefixFS([pa]) over the OS
    filesystem, the backup is PrefixFS([pb]) over the same OS filesystem, the
    two prefixes are disjoint directories - the layering "generic" of the
    correspondence check.  [cfg_base c] and [cfg_backup c] are (by
    computation) [the_api TBase pa] and [the_api TBackup pb]. *)
Section Concrete.
  Variables pa pb : str.
  Hypothesis Ha : prefix_ok pa.
  Hypothesis Hb : prefix_ok pb.
  Hypothesis Hd : disjoint_prefixes pa pb.

  Definition gcfg : config := mkConfig (Some pa) [] pb.

  Lemma gcfg_base : cfg_base gcfg = the_api TBase pa.
  Proof. reflexivity. Qed.
  Lemma gcfg_backup : cfg_backup gcfg = the_api TBackup pb.
  Proof. reflexivity. Qed.

  Let Lb := the_api_laws TBase pa pb Ha Hb Hd.
  Let Lb2 := the_api_laws2 TBase pa pb Ha Hb Hd.
  Let Lk := the_api_laws TBackup pb pa Hb Ha (disjoint_prefixes_sym pa pb Hd).

  (** C01, closed: any history of covered operations, then Rollback *)
  Theorem c01_concrete :
    forall B0, all_small B0 ->
    forall w0 ops w,
      initial (Vp pa) (Vp pb) clean clean (acc_p pa) (acc_p pb) B0 w0 ->
      good_run (cfg_base gcfg) (cfg_backup gcfg) (Vp pa) w0 ops w ->
      exists w', b_rollback (cfg_base gcfg) (cfg_backup gcfg) w = (MOk tt, w') /\
                 store_eqv (Vp pa w') B0 /\ (forall p, p <> s_root -> Vp pb w' !! p = None) /\
                 w_infos w' = ∅.
  Proof using Ha Hb Hd.
    intros B0 Hsmall w0 ops w Hinit Hrun.
    exact (c01_spec (the_api TBase pa) (the_api TBackup pb) (Vp pa) (Vp pb) clean clean
             (acc_p pa) (acc_p pb) (rh_p TBase pa) (rh_p TBackup pb) (wh_p TBase pa) (wh_p TBackup pb) nohid nohid
             B0 Lb Lb2 Lk Hsmall w0 ops w Hinit Hrun).
  Qed.

  (** Rollback from any state satisfying the invariant *)
  Theorem rollback_concrete :
    forall B0, links_ok clean clean (acc_p pa) (acc_p pb) B0 -> all_small B0 -> swf B0 ->
    forall w, Inv (Vp pa) (Vp pb) B0 w ->
    exists w', b_rollback (cfg_base gcfg) (cfg_backup gcfg) w = (MOk tt, w') /\ quiet w' /\
               store_eqv (Vp pa w') B0 /\ (forall p, p <> s_root -> Vp pb w' !! p = None) /\
               w_infos w' = ∅.
  Proof using Ha Hb Hd.
    intros B0 Hl Hs Hwf w HI.
    exact (rollback_spec (the_api TBase pa) (the_api TBackup pb) (Vp pa) (Vp pb) clean clean
             (acc_p pa) (acc_p pb) (rh_p TBase pa) (rh_p TBackup pb) (wh_p TBase pa) (wh_p TBackup pb) nohid nohid
             B0 Lb Lk Hl Hs Hwf (loc_ok_nohid B0) w HI).
  Qed.

  (** every covered operation keeps the invariant *)
  Theorem step_concrete :
    forall B0, links_ok clean clean (acc_p pa) (acc_p pb) B0 -> all_small B0 -> swf B0 ->
    forall o w, Inv (Vp pa) (Vp pb) B0 w -> covered (Vp pa) o w ->
    exists r w', step (cfg_base gcfg) (cfg_backup gcfg) o w = (r, w') /\ r <> MHalt /\
                 (kind_stable (Vp pa) w' -> Inv (Vp pa) (Vp pb) B0 w') /\
                 infos_ext_in w w' (op_touches o).
  Proof using Ha Hb Hd.
    intros B0 Hl Hs Hwf o w HI Hc.
    exact (step_spec (the_api TBase pa) (the_api TBackup pb) (Vp pa) (Vp pb) clean clean
             (acc_p pa) (acc_p pb) (rh_p TBase pa) (rh_p TBackup pb) (wh_p TBase pa) (wh_p TBackup pb) nohid nohid
             B0 Lb Lb2 Lk Hl Hs Hwf o w HI Hc).
  Qed.
End Concrete.

Print Assumptions c01_concrete.
Print Assumptions rollback_concrete.
Print Assumptions step_concrete.

(** * C02 (between operations) and C17 for the concrete layering *)

(** Generic over the laws, as C01 above: in every state reached by covered
    operations every original entry is intact in the base view or copied at the
    same path of the backup view, and the backup view holds nothing but such
    copies (the statement of Props/C02.v; proved here from [good_run_inv] so
    that it can be instantiated below). *)
Section Recoverable.
  Variables base backup : fsapi.
  Variables Vb Vk : world -> store.
  Variables tnb tnk : str -> str.
  Variables accb acck : str -> str -> Prop.
  Variables rhb rhk whb whk : fhandle -> str -> nat -> Prop.
  Variables hid anc : str -> Prop.
  Variable B0 : store.

  Lemma inv_recoverable_gen : forall w, Inv Vb Vk B0 w ->
    (forall p n0, B0 !! p = Some n0 -> p <> s_root ->
       sonode_eqv (Vb w !! p) (Some n0) \/
       exists nk, Vk w !! p = Some nk /\ copy_of n0 nk) /\
    (forall p, p <> s_root -> Vk w !! p <> None ->
       exists n0 nk, B0 !! p = Some n0 /\ Vk w !! p = Some nk /\ copy_of n0 nk).
  Proof.
    intros w HI. split.
    - intros p n0 Hp Hne. destruct (w_infos w !! p) as [[fi|]|] eqn:E.
      + destruct (inv_some _ _ _ _ HI p fi E) as (n0' & Hn0' & _ & [Hr | (nk & Hk & Hc)]);
          [contradiction|].
        rewrite Hp in Hn0'. injection Hn0' as <-. right. exists nk. split; assumption.
      + pose proof (inv_none _ _ _ _ HI p E) as Hn. rewrite Hp in Hn. discriminate Hn.
      + left. pose proof (inv_untracked _ _ _ _ HI p E) as H. rewrite Hp in H. exact H.
    - intros p Hne Hk. destruct (inv_backup_only _ _ _ _ HI p Hne Hk) as (fi & E).
      destruct (inv_some _ _ _ _ HI p fi E) as (n0 & Hn0 & _ & [Hr | (nk & Hk' & Hc)]);
        [contradiction|].
      exists n0, nk. split; [exact Hn0 | split; [exact Hk' | exact Hc]].
  Qed.

  Lemma recoverable_between_operations :
    base_laws base Vb Vk tnb accb rhb whb hid anc -> base_laws2 base Vb Vk tnb accb rhb whb ->
    backup_laws backup Vb Vk tnk acck rhk whk ->
    all_small B0 ->
    forall w0 ops w, initial Vb Vk tnb tnk accb acck B0 w0 -> good_run base backup Vb w0 ops w ->
    (forall p n0, B0 !! p = Some n0 -> p <> s_root ->
       sonode_eqv (Vb w !! p) (Some n0) \/
       exists nk, Vk w !! p = Some nk /\ copy_of n0 nk) /\
    (forall p, p <> s_root -> Vk w !! p <> None ->
       exists n0 nk, B0 !! p = Some n0 /\ Vk w !! p = Some nk /\ copy_of n0 nk).
  Proof.
    intros HLb HLb2 HLk Hsmall w0 ops w Hinit Hrun.
    pose proof Hinit as (_ & _ & _ & HwfB & Hlinks & _ & _).
    apply inv_recoverable_gen.
    eapply (good_run_inv base backup Vb Vk tnb tnk accb acck rhb rhk whb whk hid anc B0);
      [exact HLb | exact HLb2 | exact HLk | exact Hlinks | exact Hsmall | exact HwfB | exact Hrun |].
    apply (initial_inv_spec Vb Vk tnb tnk accb acck B0 w0 Hinit).
  Qed.
End Recoverable.

Print Assumptions recoverable_between_operations.

Section Concrete2.
  Variables pa pb : str.
  Hypothesis Ha : prefix_ok pa.
  Hypothesis Hb : prefix_ok pb.
  Hypothesis Hd : disjoint_prefixes pa pb.

  Let Lb := the_api_laws TBase pa pb Ha Hb Hd.
  Let Lb2 := the_api_laws2 TBase pa pb Ha Hb Hd.
  Let Lk := the_api_laws TBackup pb pa Hb Ha (disjoint_prefixes_sym pa pb Hd).

  (** C02 between operations, closed *)
  Theorem c02_concrete :
    forall B0, all_small B0 ->
    forall w0 ops w,
      initial (Vp pa) (Vp pb) clean clean (acc_p pa) (acc_p pb) B0 w0 ->
      good_run (cfg_base (gcfg pa pb)) (cfg_backup (gcfg pa pb)) (Vp pa) w0 ops w ->
      (forall p n0, B0 !! p = Some n0 -> p <> s_root ->
         sonode_eqv (Vp pa w !! p) (Some n0) \/
         exists nk, Vp pb w !! p = Some nk /\ copy_of n0 nk) /\
      (forall p, p <> s_root -> Vp pb w !! p <> None ->
         exists n0 nk, B0 !! p = Some n0 /\ Vp pb w !! p = Some nk /\ copy_of n0 nk).
  Proof using Ha Hb Hd.
    intros B0 Hsmall w0 ops w Hinit Hrun.
    exact (recoverable_between_operations (the_api TBase pa) (the_api TBackup pb) (Vp pa) (Vp pb)
             clean clean (acc_p pa) (acc_p pb) (rh_p TBase pa) (rh_p TBackup pb)
             (wh_p TBase pa) (wh_p TBackup pb) nohid nohid B0 Lb Lb2 Lk Hsmall w0 ops w Hinit Hrun).
  Qed.

  (** the invariant holds in every state reached from an initial one by
      covered operations (what links C01/C02 to [step_concrete],
      [rollback_concrete] and the ForceBackup theorems below) *)
  Theorem inv_concrete :
    forall B0, all_small B0 ->
    forall w0 ops w,
      initial (Vp pa) (Vp pb) clean clean (acc_p pa) (acc_p pb) B0 w0 ->
      good_run (cfg_base (gcfg pa pb)) (cfg_backup (gcfg pa pb)) (Vp pa) w0 ops w ->
      Inv (Vp pa) (Vp pb) B0 w.
  Proof using Ha Hb Hd.
    intros B0 Hsmall w0 ops w Hinit Hrun.
    pose proof Hinit as (_ & _ & _ & HwfB & Hlinks & _ & _).
    exact (good_run_inv (the_api TBase pa) (the_api TBackup pb) (Vp pa) (Vp pb) clean clean
             (acc_p pa) (acc_p pb) (rh_p TBase pa) (rh_p TBackup pb) (wh_p TBase pa) (wh_p TBackup pb) nohid nohid
             B0 Lb Lb2 Lk Hlinks Hsmall HwfB w0 ops w Hrun
             (initial_inv_spec (Vp pa) (Vp pb) clean clean (acc_p pa) (acc_p pb) B0 w0 Hinit)).
  Qed.

  (** ForceBackup keeps the invariant for the new baseline, closed
      ([force_backup_stmt] of Proofs/BackupForce.v without its law hypotheses) *)
  Theorem force_backup_concrete :
    forall B0, links_ok clean clean (acc_p pa) (acc_p pb) B0 -> all_small B0 -> swf B0 ->
    forall w p, Inv (Vp pa) (Vp pb) B0 w -> snolinkpar (Vp pa w) p -> p <> s_root ->
    entry_ok clean clean (acc_p pa) (acc_p pb) p (Vp pa w !! p) -> orig_not_dir_cond w p ->
    parents_original (Vp pa) B0 w p ->
    let B0' := rebase B0 p (Vp pa w !! p) in
    swf B0' /\ links_ok clean clean (acc_p pa) (acc_p pb) B0' /\ all_small B0' /\
    exists r w', b_force_backup (cfg_base (gcfg pa pb)) (cfg_backup (gcfg pa pb)) p w = (r, w') /\
                 r <> MHalt /\ Vp pa w' = Vp pa w /\
                 Inv (Vp pa) (Vp pb) B0' w' /\
                 (forall q, q <> p -> w_infos w !! q <> None -> w_infos w' !! q = w_infos w !! q) /\
                 (forall q, w_infos w' !! q <> None -> w_infos w !! q <> None \/ In q (cands p)) /\
                 (r = MOk tt ->
                    Forall (tracked w') (ancestors p) /\
                    match Vp pa w !! p with
                    | None => w_infos w' !! p = Some None
                    | Some n => exists fi, w_infos w' !! p = Some (Some fi) /\ info_matches fi n
                    end) /\
                 ((forall q n, In q (ancestors p) -> Vp pa w !! q = Some n -> node_kind n = KDir) ->
                  r = MOk tt) /\
                 (r <> MOk tt -> w_infos w !! p = Some None ->
                  w_infos w' !! p = Some None /\ Vp pa w !! p = None).
  Proof using Ha Hb Hd.
    intros B0 Hl Hs Hwf w p HI Hnlp Hne Hcur Hfi Hpar0.
    exact (force_backup_spec (the_api TBase pa) (the_api TBackup pb) (Vp pa) (Vp pb) clean clean
             (acc_p pa) (acc_p pb) (rh_p TBase pa) (rh_p TBackup pb) (wh_p TBase pa) (wh_p TBackup pb) nohid nohid
             B0 Lb Lk Hl Hs Hwf w p HI Hnlp Hne Hcur Hfi Hpar0).
  Qed.

  (** C17, closed: ForceBackup(p), covered operations, Rollback *)
  Theorem c17_concrete :
    forall B0, links_ok clean clean (acc_p pa) (acc_p pb) B0 -> all_small B0 -> swf B0 ->
    forall w p, Inv (Vp pa) (Vp pb) B0 w -> snolinkpar (Vp pa w) p -> p <> s_root ->
    entry_ok clean clean (acc_p pa) (acc_p pb) p (Vp pa w !! p) -> orig_not_dir_cond w p ->
    parents_original (Vp pa) B0 w p ->
    forall r w1 ops w2,
      b_force_backup (cfg_base (gcfg pa pb)) (cfg_backup (gcfg pa pb)) p w = (r, w1) ->
      good_run (cfg_base (gcfg pa pb)) (cfg_backup (gcfg pa pb)) (Vp pa) w1 ops w2 ->
      exists w3, b_rollback (cfg_base (gcfg pa pb)) (cfg_backup (gcfg pa pb)) w2 = (MOk tt, w3) /\
                 sonode_eqv (Vp pa w3 !! p) (Vp pa w !! p) /\
                 (forall q, q <> p -> q <> s_root -> sonode_eqv (Vp pa w3 !! q) (B0 !! q)) /\
                 (forall q, q <> s_root -> Vp pb w3 !! q = None) /\ w_infos w3 = ∅ /\
                 (r <> MOk tt -> (forall fi, w_infos w !! p <> Some (Some fi)) ->
                  sonode_eqv (Vp pa w3 !! p) (B0 !! p)).
  Proof using Ha Hb Hd.
    intros B0 Hl Hs Hwf w p HI Hnlp Hne Hcur Hfi Hpar0 r w1 ops w2 Hrun Hgood.
    exact (c17_spec (the_api TBase pa) (the_api TBackup pb) (Vp pa) (Vp pb) clean clean
             (acc_p pa) (acc_p pb) (rh_p TBase pa) (rh_p TBackup pb) (wh_p TBase pa) (wh_p TBackup pb) nohid nohid
             B0 Lb Lb2 Lk Hl Hs Hwf (loc_ok_nohid B0) w p HI Hnlp Hne Hcur Hfi Hpar0 r w1 ops w2 Hrun Hgood).
  Qed.
End Concrete2.

Print Assumptions c02_concrete.
Print Assumptions inv_concrete.
Print Assumptions force_backup_concrete.
Print Assumptions c17_concrete.
