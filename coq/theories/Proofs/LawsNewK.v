(** The laws of Spec/Laws.v for the BACKUP filesystem of the layering of
    [New]/[NewWithFS], [the_api tag h] with the view [Vp h], next to the base
    view [V0H h] (the whole filesystem without the location): the laws of
    Theorem B (Proofs/LawsOsfs.v, with an auxiliary disjoint prefix) with the
    frame replaced - a call of the backup filesystem changes the world only at
    or below the location, which the base view does not show ([V0H_frame],
    Proofs/LawsRootFrame.v).  The counterpart of Proofs/LawsHiddenK.v. *)
From stdpp Require Import gmap.
From BFS Require Import Spec.CopySpecs Spec.ViewOsfs Spec.ViewHidden Spec.ViewRoot.
From BFS Require Import Proofs.LawsOsfsBase Proofs.LawsOsfsA Proofs.LawsOsfsB Proofs.LawsOsfs.
From BFS Require Import Proofs.BackupCopy Proofs.AlwaysLib.
From BFS Require Import Proofs.LawsHiddenBase Proofs.LawsHiddenView Proofs.LawsHiddenFrame Proofs.LawsHiddenK.
From BFS Require Import Proofs.LawsRootBase Proofs.LawsRootA Proofs.LawsRootFrame Proofs.LawsNewA.
Local Open Scope nat_scope.

Section BackupNew.
  Variable tag : fstag.
  Variables h pb1 : str.
  Hypothesis Hh : hidden_ok h.
  Hypothesis Hb1 : prefix_ok pb1.
  Hypothesis Hd1 : disjoint_prefixes h pb1.

  Notation pk := h.
  Notation K := (the_api tag h).
  Notation V := (Vp h).
  Notation V1 := (Vp pb1).
  Notation V2 := (V0H h).

  Let Hk : prefix_ok h := Hh.
  Let L1 := the_api_laws tag pk pb1 Hk Hb1 Hd1.
  Let L12 := the_api_laws2 tag pk pb1 Hk Hb1 Hd1.

  (** the frame of a call with a footprint *)
  Lemma bk_frame {X} (ps : list str) (m : M X) (w : world) (r : mres X) (w' : world) :
    fpr pk ps (m w) w -> world_okb pk (st_fs (w_st w)) = true -> m w = (r, w') ->
    world_okb pk (st_fs (w_st w')) = true -> V2 w' = V2 w.
  Proof.
    intros Hfp Hok E Hok'. apply (V0H_frame h Hh w w' Hok Hok').
    exact (proj2 (fpr_run pk ps m w r w' Hfp E)).
  Qed.

  Lemma bk_st (w w' : world) : w_st w' = w_st w -> V2 w' = V2 w.
  Proof. intros E. rewrite !V0H_FH, (V0_st w w' E). reflexivity. Qed.

  Lemma okb_of_lookup (w : world) (p : str) (n : node) : V w !! p = Some n -> world_okb pk (st_fs (w_st w)) = true.
  Proof. apply Vp_lookup_Some_ok. Qed.

  Lemma okb_of_insert (w' : world) (s : store) (p : str) (n : node) :
    V w' = <[p := n]> s -> world_okb pk (st_fs (w_st w')) = true.
  Proof. intros E. apply (okb_of_lookup w' p n). rewrite E. apply lookup_insert. Qed.

  Ltac okw w Hwf := pose proof (swf_Vp_world_okb pk w Hwf) as Hok.

  (** the three forms in which a law is re-framed *)
  Lemma rf_ok_same {X} (ps : list str) (m : M X) (w : world) (x : X) :
    swf (V w) -> ok_step V V1 m w x (V w) -> fpr pk ps (m w) w -> ok_step V V2 m w x (V w).
  Proof.
    intros Hwf Hstep Hfp. okw w Hwf. apply (reframe_ok V V1 V2 m w x _ Hstep). intros w' E HV.
    apply (bk_frame ps m w (MOk x) w' Hfp Hok E). apply (swf_Vp_world_okb pk w'). rewrite HV. exact Hwf.
  Qed.

  Lemma rf_ok_ins {X} (ps : list str) (m : M X) (w : world) (x : X) (p : str) (n : node) :
    world_okb pk (st_fs (w_st w)) = true -> ok_step V V1 m w x (<[p := n]> (V w)) -> fpr pk ps (m w) w ->
    ok_step V V2 m w x (<[p := n]> (V w)).
  Proof.
    intros Hok Hstep Hfp. apply (reframe_ok V V1 V2 m w x _ Hstep). intros w' E HV.
    exact (bk_frame ps m w (MOk x) w' Hfp Hok E (okb_of_insert w' _ p n HV)).
  Qed.

  Lemma rf_ok_new {X} (ps : list str) (m : M X) (w : world) (x : X) (s' : store) :
    world_okb pk (st_fs (w_st w)) = true -> ok_step V V1 m w x s' -> swf s' -> fpr pk ps (m w) w ->
    ok_step V V2 m w x s'.
  Proof.
    intros Hok Hstep Hswf Hfp. apply (reframe_ok V V1 V2 m w x _ Hstep). intros w' E HV.
    apply (bk_frame ps m w (MOk x) w' Hfp Hok E). apply (swf_Vp_world_okb pk w'). rewrite HV. exact Hswf.
  Qed.

  Lemma rf_err {X} (ps : list str) (m : M X) (w : world) (P : errno -> Prop) :
    swf (V w) -> err_step V V1 m w P -> fpr pk ps (m w) w -> err_step V V2 m w P.
  Proof.
    intros Hwf Hstep Hfp. okw w Hwf. apply (reframe_err V V1 V2 m w P Hstep). intros e w' E HV.
    apply (bk_frame ps m w (MErr e) w' Hfp Hok E). apply (swf_Vp_world_okb pk w'). rewrite HV. exact Hwf.
  Qed.

  Lemma rf_framed {X} (ps : list str) (m : M X) (w : world) (t : list str) :
    swf (V w) -> framed V V1 m w t -> fpr pk ps (m w) w -> framed V V2 m w t.
  Proof.
    intros Hwf Hfr Hfp. okw w Hwf. apply (reframe_framed V V1 V2 m w t Hfr). intros r w' E Hwf'.
    exact (bk_frame ps m w r w' Hfp Hok E (swf_Vp_world_okb pk w' Hwf')).
  Qed.

  Lemma rf_ok_st {X} (m : M X) (w : world) (x : X) (s' : store) :
    ok_step V V1 m w x s' -> (forall r w', m w = (r, w') -> w_st w' = w_st w) -> ok_step V V2 m w x s'.
  Proof.
    intros Hstep Hst. apply (reframe_ok V V1 V2 m w x _ Hstep). intros w' E _. exact (bk_st w w' (Hst _ _ E)).
  Qed.

  (** the cases of a resolved name *)
  Lemma rc (w : world) (p : str) : swf (V w) -> snolinkpar (V w) p -> abs_cleaned p /\ rcase pk w p.
  Proof. intros Hwf Hnl. destruct (snl_setup pk Hk w p Hwf Hnl) as (_ & Hac & Hc). split; assumption. Qed.

  Lemma nl (w : world) (p : str) : world_okb pk (st_fs (w_st w)) = true -> abs_cleaned p -> snotlink (V w) p ->
    not_link_at (st_fs (w_st w)) (wkey pk p).
  Proof. intros Hok Hac Hsl. exact (proj1 (snotlink_Vp pk w p Hok Hac) Hsl). Qed.

  Lemma nl_node (w : world) (p : str) (n : node) :
    world_okb pk (st_fs (w_st w)) = true -> abs_cleaned p -> V w !! p = Some n -> ~ is_link n ->
    not_link_at (st_fs (w_st w)) (wkey pk p).
  Proof. intros Hok Hac Hl Hn. exact (nl w p Hok Hac (snotlink_of_node _ p n Hl Hn)). Qed.

  Lemma nl_none (w : world) (p : str) :
    world_okb pk (st_fs (w_st w)) = true -> abs_cleaned p -> V w !! p = None ->
    not_link_at (st_fs (w_st w)) (wkey pk p).
  Proof. intros Hok Hac Hl. exact (nl w p Hok Hac (snotlink_of_none _ p Hl)). Qed.

  Lemma not_link_file (m : meta) (c : list N) : ~ is_link (File m c).
  Proof. intros (m1 & t1 & E). discriminate E. Qed.

  Theorem backup_laws_new_aux :
    api_laws K V V2 clean (acc_p pk) (rh_p tag pk) (wh_p tag pk) nohid nohid.
  Proof.
    constructor.
    - (* infos_indep *) intros w i. exact (law_infos_indep _ _ _ _ _ _ _ _ _ L1 w i).
    - (* lstat_some *) intros w p n Hq Hwf Hnl Hl.
      destruct (law_lstat_some _ _ _ _ _ _ _ _ _ L1 w p n Hq Hwf Hnl Hl) as (fi & Hstep & H).
      exists fi. split; [| exact H]. apply (rf_ok_same [p]); [exact Hwf | exact Hstep |].
      apply fpr_lstat; [exact Hk | exact Hq | exact (proj1 Hnl)].
    - (* lstat_none *) intros w p Hq Hwf Hnl Hl.
      apply (rf_err [p]); [exact Hwf | exact (law_lstat_none _ _ _ _ _ _ _ _ _ L1 w p Hq Hwf Hnl Hl) |].
      apply fpr_lstat; [exact Hk | exact Hq | exact (proj1 Hnl)].
    - (* readlink *) intros w p m t Hq Hwf Hnl Hl.
      apply (rf_ok_same [p]); [exact Hwf | exact (law_readlink _ _ _ _ _ _ _ _ _ L1 w p m t Hq Hwf Hnl Hl) |].
      apply fpr_readlink; [exact Hk | exact Hq | exact (proj1 Hnl)].
    - (* open_file *) intros w p m c Hq Hwf Hnl Hl. okw w Hwf. destruct (rc w p Hwf Hnl) as [Hac Hrc].
      destruct (law_open_file _ _ _ _ _ _ _ _ _ L1 w p m c Hq Hwf Hnl Hl) as (x & Hstep & Hrh).
      exists x. split; [| exact Hrh]. apply (rf_ok_same [p]); [exact Hwf | exact Hstep |].
      apply fpr_open; try assumption. exact (nl_node w p _ Hok Hac Hl (not_link_file m c)).
    - (* open_err *) intros w p Hq Hwf Hnl Hl. okw w Hwf. destruct (rc w p Hwf Hnl) as [Hac Hrc].
      apply (rf_err [p]); [exact Hwf | exact (law_open_err _ _ _ _ _ _ _ _ _ L1 w p Hq Hwf Hnl Hl) |].
      apply fpr_open; try assumption. exact (nl_none w p Hok Hac Hl).
    - (* hread *) intros w x p pos m c Hq Hrh Hl.
      pose proof (law_hread _ _ _ _ _ _ _ _ _ L1 w x p pos m c Hq Hrh Hl) as HT.
      destruct (skipn pos c) as [| b rest].
      + destruct HT as [x' Hstep]. exists x'. apply (rf_ok_st _ w _ _ Hstep). intros r w'. apply hread_st.
      + destruct HT as (x' & Hstep & Hrh'). exists x'. split; [| exact Hrh'].
        apply (rf_ok_st _ w _ _ Hstep). intros r w'. apply hread_st.
    - (* hstat *) intros w x p pos n Hq Hrh Hl.
      destruct (law_hstat _ _ _ _ _ _ _ _ _ L1 w x p pos n Hq Hrh Hl) as (fi & Hstep & Him).
      exists fi. split; [| exact Him]. apply (rf_ok_st _ w _ _ Hstep). intros r w'. apply hstat_st.
    - (* hclose_r *) intros w x p pos Hq Hrh.
      apply (rf_ok_st _ w _ _ (law_hclose_r _ _ _ _ _ _ _ _ _ L1 w x p pos Hq Hrh)). intros r w'. apply hclose_st.
    - (* mkdirall_new *) intros w p perm Hq Hwf Hsd Hl _. okw w Hwf.
      destruct (law_mkdirall_new _ _ _ _ _ _ _ _ _ L1 w p perm Hq Hwf Hsd Hl (nnh p)) as (m' & s' & Hstep & Hp & He & Hs).
      exists m', s'. split; [| split; [exact Hp | split; [exact He | exact Hs]]].
      apply (rf_ok_new (cands p)); [exact Hok | exact Hstep | exact Hs |].
      apply fpr_mkdirall; [exact Hk | exact Hq | exact Hwf | exact (sdirect_snolinkpar _ _ Hsd)].
    - (* mkdirall_dir *) intros w p perm m Hq Hwf Hsd Hl.
      apply (rf_ok_same (cands p)); [exact Hwf | exact (law_mkdirall_dir _ _ _ _ _ _ _ _ _ L1 w p perm m Hq Hwf Hsd Hl) |].
      apply fpr_mkdirall; [exact Hk | exact Hq | exact Hwf | exact (sdirect_snolinkpar _ _ Hsd)].
    - (* chmod *) intros w p mode n Hq Hwf Hnl Hl Hnlk. okw w Hwf. destruct (rc w p Hwf Hnl) as [Hac Hrc].
      apply (rf_ok_ins [p]); [exact Hok | exact (law_chmod _ _ _ _ _ _ _ _ _ L1 w p mode n Hq Hwf Hnl Hl Hnlk) |].
      apply fpr_chmod; try assumption. exact (nl_node w p n Hok Hac Hl Hnlk).
    - (* chtimes *) intros w p t n Hq Hwf Hnl Hl Hnlk. okw w Hwf. destruct (rc w p Hwf Hnl) as [Hac Hrc].
      apply (rf_ok_ins [p]); [exact Hok | exact (law_chtimes _ _ _ _ _ _ _ _ _ L1 w p t n Hq Hwf Hnl Hl Hnlk) |].
      apply fpr_chtimes; try assumption. exact (nl_node w p n Hok Hac Hl Hnlk).
    - (* chown *) intros w p u g n Hq Hwf Hnl Hl Hnlk. okw w Hwf. destruct (rc w p Hwf Hnl) as [Hac Hrc].
      apply (rf_ok_ins [p]); [exact Hok | exact (law_chown _ _ _ _ _ _ _ _ _ L1 w p u g n Hq Hwf Hnl Hl Hnlk) |].
      apply fpr_chown; try assumption. exact (nl_node w p n Hok Hac Hl Hnlk).
    - (* lchown *) intros w p u g n Hq Hwf Hnl Hl. okw w Hwf. destruct (rc w p Hwf Hnl) as [Hac Hrc].
      apply (rf_ok_ins [p]); [exact Hok | exact (law_lchown _ _ _ _ _ _ _ _ _ L1 w p u g n Hq Hwf Hnl Hl) |].
      apply fpr_lchown; assumption.
    - (* symlink *) intros w t p Hq Hwf Hsd Hl Ht Hacc _. okw w Hwf.
      pose proof (sdirect_snolinkpar _ _ Hsd) as Hnl. destruct (rc w p Hwf Hnl) as [Hac Hrc].
      destruct (law_symlink _ _ _ _ _ _ _ _ _ L1 w t p Hq Hwf Hsd Hl Ht Hacc (nnh p)) as (m' & s' & Hstep & Hp & Hpm & He & Hs).
      exists m', s'. split; [| split; [exact Hp | split; [exact Hpm | split; [exact He | exact Hs]]]].
      apply (rf_ok_new [p]); [exact Hok | exact Hstep | exact Hs |]. apply fpr_symlink; assumption.
    - (* openfile_new *) intros w p perm Hq Hwf Hsd Hl _. okw w Hwf.
      pose proof (sdirect_snolinkpar _ _ Hsd) as Hnl. destruct (rc w p Hwf Hnl) as [Hac Hrc].
      destruct (law_openfile_new _ _ _ _ _ _ _ _ _ L1 w p perm Hq Hwf Hsd Hl (nnh p))
        as (x & m' & s' & Hstep & Hwh & Hp & He & Hs).
      exists x, m', s'. split; [| split; [exact Hwh | split; [exact Hp | split; [exact He | exact Hs]]]].
      apply (rf_ok_new [p]); [exact Hok | exact Hstep | exact Hs |].
      apply fpr_openfile; try assumption. right. exact (nl_none w p Hok Hac Hl).
    - (* openfile_trunc *) intros w p perm m c Hq Hwf Hnl Hl. okw w Hwf. destruct (rc w p Hwf Hnl) as [Hac Hrc].
      destruct (law_openfile_trunc _ _ _ _ _ _ _ _ _ L1 w p perm m c Hq Hwf Hnl Hl) as (x & t' & Hstep & Hwh).
      exists x, t'. split; [| exact Hwh]. apply (rf_ok_ins [p]); [exact Hok | exact Hstep |].
      apply fpr_openfile; try assumption. right. exact (nl_node w p _ Hok Hac Hl (not_link_file m c)).
    - (* hwrite *) intros w x p pos m c data Hq Hwh Hl Hlen.
      destruct (law_hwrite _ _ _ _ _ _ _ _ _ L1 w x p pos m c data Hq Hwh Hl Hlen) as (x' & t' & Hstep & Hwh').
      exists x', t'. split; [| exact Hwh']. destruct Hwh as (Hspy & Hkey & _).
      apply (rf_ok_ins [p]); [exact (okb_of_lookup w p _ Hl) | exact Hstep |].
      apply (fpr_hwrite tag pk x p w data); assumption.
    - (* hclose_w *) intros w x p pos Hq Hwh.
      apply (rf_ok_st _ w _ _ (law_hclose_w _ _ _ _ _ _ _ _ _ L1 w x p pos Hq Hwh)). intros r w'. apply hclose_st.
    - (* remove_leaf *) intros w p n Hq Hwf Hnl Hl Hnc Hne _. okw w Hwf. destruct (rc w p Hwf Hnl) as [Hac Hrc].
      destruct (law_remove_leaf _ _ _ _ _ _ _ _ _ L1 w p n Hq Hwf Hnl Hl Hnc Hne (nnh p)) as (s' & Hstep & Hp & He & Hs).
      exists s'. split; [| split; [exact Hp | split; [exact He | exact Hs]]].
      apply (rf_ok_new [p]); [exact Hok | exact Hstep | exact Hs |]. apply fpr_remove; assumption.
    - (* removeall_leaf *) intros w p n Hq Hwf Hnl Hl Hkd Hne. okw w Hwf.
      destruct (law_removeall_leaf _ _ _ _ _ _ _ _ _ L1 w p n Hq Hwf Hnl Hl Hkd Hne) as (s' & Hstep & Hp & He & Hs).
      exists s'. split; [| split; [exact Hp | split; [exact He | exact Hs]]].
      apply (rf_ok_new [p]); [exact Hok | exact Hstep | exact Hs |].
      destruct (Vp_lookup_Some_inv pk w p n Hl) as (_ & Hac & nd & Hnd & En).
      apply (fpr_removeall_leaf tag pk Hk w p nd); try assumption.
      + exact (present_direct pk _ p nd Hk Hok (proj2 Hac) Hnd).
      + subst n. rewrite vnode_kind in Hkd. destruct nd; [exfalso; apply Hkd; reflexivity | reflexivity | reflexivity].
    - (* remove_none *) intros w p Hq Hwf Hnl Hl. okw w Hwf. destruct (rc w p Hwf Hnl) as [Hac Hrc].
      assert (Hne : p <> s_root).
      { intros ->. destruct Hwf as [[m Hm] _]. rewrite Hm in Hl. discriminate Hl. }
      apply (rf_err [p]); [exact Hwf | exact (law_remove_none _ _ _ _ _ _ _ _ _ L1 w p Hq Hwf Hnl Hl) |].
      apply fpr_remove; assumption.
    - (* remove_nonempty *) intros w p n Hq Hwf Hnl Hl Hnn. okw w Hwf. destruct (rc w p Hwf Hnl) as [Hac Hrc].
      pose proof (law_remove_nonempty _ _ _ _ _ _ _ _ _ L1 w p n Hq Hwf Hnl Hl Hnn) as Hstep.
      apply (reframe_err V V1 V2 _ w _ Hstep). intros e w' E HV.
      (* the entry has children: the call fails and the state is the same *)
      apply bk_st.
      destruct Hrc as [Hdir | [_ Hnone]].
      2:{ rewrite (Vp_lookup pk w p Hok Hac) in Hl. norm_keys. rewrite Hnone in Hl. discriminate Hl. }
      rewrite (run_remove tag pk Hk w Hq p Hac Hdir) in E.
      assert (Hch : has_children (st_fs (w_st w)) (wkey pk p) = true).
      { destruct (has_children (st_fs (w_st w)) (wkey pk p)) eqn:Ec; [reflexivity |]. exfalso. apply Hnn.
        rewrite (Vp_ok pk w Hok).
        exact (proj2 (no_children_view pk _ p Hk (world_okb_keys_good _ _ Hok) Hac) Ec). }
      revert E. dlook pk p as [[m | m c | m t]|] eqn:Hnd; unfold fin; cbn [fst snd mres_of err_of].
      + rewrite Hch. cbn [fst snd mres_of err_of]. intros E. injection E as _ <-. reflexivity.
      + intros E. discriminate E.
      + intros E. discriminate E.
      + intros E. injection E as _ <-. reflexivity.
    - (* user_create *) intros w p Hq Hwf Hnl Hsl. okw w Hwf. destruct (rc w p Hwf Hnl) as [Hac Hrc].
      apply (rf_framed [p]); [exact Hwf | exact (law_user_create _ _ _ _ _ _ _ _ _ L1 w p Hq Hwf Hnl Hsl) |].
      apply fpr_create; try assumption. exact (nl w p Hok Hac Hsl).
    - (* user_openfile *) intros w p fl perm Hq Hwf Hnl Hsl. okw w Hwf. destruct (rc w p Hwf Hnl) as [Hac Hrc].
      apply (rf_framed [p]); [exact Hwf | exact (law_user_openfile _ _ _ _ _ _ _ _ _ L1 w p fl perm Hq Hwf Hnl Hsl) |].
      apply fpr_openfile; try assumption. right. exact (nl w p Hok Hac Hsl).
    - (* user_handle *) intros w p r w1 Hq Hwf Hnl Hsl Hopen x data Er Hq1 Hwf1.
      pose proof (law_user_handle _ _ _ _ _ _ _ _ _ L1 w p r w1 Hq Hwf Hnl Hsl Hopen x data Er Hq1 Hwf1) as Hfr.
      subst r.
      assert (Hx : fh_spy x = Some (tag, p) /\ h_key (fh x) = wkey pk p).
      { destruct Hopen as [(fl & perm & Hrun) | Hrun].
        - exact (openfile_handle tag pk Hk w p fl perm x w1 Hq Hwf Hnl Hsl Hrun).
        - exact (create_handle tag pk Hk w p x w1 Hq Hwf Hnl Hsl Hrun). }
      destruct Hx as [Hspy Hkey].
      apply (rf_framed [p]); [exact Hwf1 | exact Hfr |]. apply (fpr_write_close tag pk x p w1 data); assumption.
    - (* user_mkdir *) intros w p perm Hq Hwf Hnl. okw w Hwf. destruct (rc w p Hwf Hnl) as [Hac Hrc].
      apply (rf_framed [p]); [exact Hwf | exact (law_user_mkdir _ _ _ _ _ _ _ _ _ L1 w p perm Hq Hwf Hnl) |].
      apply fpr_mkdir; assumption.
    - (* user_mkdirall *) intros w p perm Hq Hwf Hnl.
      apply (rf_framed (cands p)); [exact Hwf | exact (law_user_mkdirall _ _ _ _ _ _ _ _ _ L1 w p perm Hq Hwf Hnl) |].
      apply fpr_mkdirall; assumption.
    - (* user_remove *) intros w p Hq Hwf Hnl Hne. destruct (rc w p Hwf Hnl) as [Hac Hrc].
      apply (rf_framed [p]); [exact Hwf | exact (law_user_remove _ _ _ _ _ _ _ _ _ L1 w p Hq Hwf Hnl Hne) |].
      apply fpr_remove; assumption.
    - (* user_rename *) intros w po pn Hq Hwf Hnlo Hnln Hnc. okw w Hwf.
      destruct (rc w po Hwf Hnlo) as [Haco Hrco]. destruct (rc w pn Hwf Hnln) as [Hacn Hrcn].
      apply (rf_framed [po; pn]); [exact Hwf | exact (law_user_rename _ _ _ _ _ _ _ _ _ L1 w po pn Hq Hwf Hnlo Hnln Hnc) |].
      apply fpr_rename; try assumption. rewrite (Vp_ok pk w Hok) in Hnc.
      exact (proj1 (no_children_view pk _ po Hk (world_okb_keys_good _ _ Hok) Haco) Hnc).
    - (* user_chmod *) intros w p mode Hq Hwf Hnl Hsl. okw w Hwf. destruct (rc w p Hwf Hnl) as [Hac Hrc].
      apply (rf_framed [p]); [exact Hwf | exact (law_user_chmod _ _ _ _ _ _ _ _ _ L1 w p mode Hq Hwf Hnl Hsl) |].
      apply fpr_chmod; try assumption. exact (nl w p Hok Hac Hsl).
    - (* user_chown *) intros w p u g Hq Hwf Hnl Hsl. okw w Hwf. destruct (rc w p Hwf Hnl) as [Hac Hrc].
      apply (rf_framed [p]); [exact Hwf | exact (law_user_chown _ _ _ _ _ _ _ _ _ L1 w p u g Hq Hwf Hnl Hsl) |].
      apply fpr_chown; try assumption. exact (nl w p Hok Hac Hsl).
    - (* user_chtimes *) intros w p t Hq Hwf Hnl Hsl. okw w Hwf. destruct (rc w p Hwf Hnl) as [Hac Hrc].
      apply (rf_framed [p]); [exact Hwf | exact (law_user_chtimes _ _ _ _ _ _ _ _ _ L1 w p t Hq Hwf Hnl Hsl) |].
      apply fpr_chtimes; try assumption. exact (nl w p Hok Hac Hsl).
    - (* user_lchown *) intros w p u g Hq Hwf Hnl. destruct (rc w p Hwf Hnl) as [Hac Hrc].
      apply (rf_framed [p]); [exact Hwf | exact (law_user_lchown _ _ _ _ _ _ _ _ _ L1 w p u g Hq Hwf Hnl) |].
      apply fpr_lchown; assumption.
    - (* user_symlink *) intros w t p Hq Hwf Hnl. okw w Hwf. destruct (rc w p Hwf Hnl) as [Hac Hrc].
      apply (rf_framed [p]); [exact Hwf | exact (law_user_symlink _ _ _ _ _ _ _ _ _ L1 w t p Hq Hwf Hnl) |].
      apply fpr_symlink; assumption.
    - (* tnorm_idem *) exact (law_tnorm_idem _ _ _ _ _ _ _ _ _ L1).
    - intros w p [].
    - intros w p [].
    - intros w p _ _ [].
    - intros p. right. intros [].
  Qed.
End BackupNew.
