(** The crash laws of Spec/Always.v for the concrete layered filesystem
    [the_api tag pfx = spy tag (prefixfs pfx osfs)] with the view [Vp pfx]
    (from the definition of [spied]), and - with Theorem B (Proofs/LawsOsfs.v) -
    the closed theorems: at every instant of every covered operation of a
    history (and of Rollback) on the concrete layering the originals are
    recoverable. *)
From stdpp Require Import gmap.
From BFS Require Import Spec.Always Spec.ViewOsfs.
From BFS Require Import Proofs.LawsOsfsBase Proofs.LawsOsfs.
From BFS Require Import Proofs.RollbackFacts Proofs.AlwaysLib Proofs.AlwaysTry Proofs.AlwaysRollback.

(* ------------------------------------------------------------------ *)
(** * The methods of a layered OS filesystem do not look at the crash point *)

Lemma plainop_with_outcome {A} (o : outcome) (k : call -> M A) (multi : M A) :
  (forall c, plainop (k c)) -> plainop multi -> plainop (with_outcome o k multi).
Proof. intros Hk Hm. destruct o; [apply Hk | apply plainop_fail | exact Hm]. Qed.

Lemma plainop_os_openfile (p : str) (fl perm : N) : plainop (os_openfile p fl perm).
Proof. unfold os_openfile. apply plainop_bind; [apply plainop_fs_upd | intros h; apply plainop_ret]. Qed.

Lemma plainop_dispatch_unit_osfs (c : call) : plainop (dispatch_unit osfs c).
Proof. unfold dispatch_unit. destruct (c_meth c); cbn [osfs a_mkdir a_mkdirall a_remove a_removeall a_rename
  a_chmod a_chown a_lchown a_chtimes a_symlink]; try apply plainop_fs_upd; apply plainop_fail. Qed.

Lemma plainop_dispatch_info_osfs (c : call) : plainop (dispatch_info osfs c).
Proof. unfold dispatch_info. destruct (c_meth c); cbn [osfs a_stat a_lstat];
  try apply plainop_fs_get; apply plainop_fail. Qed.

Lemma plainop_dispatch_handle_osfs (c : call) : plainop (dispatch_handle osfs c).
Proof. unfold dispatch_handle. destruct (c_meth c); cbn [osfs a_open a_create a_openfile];
  try apply plainop_os_openfile; apply plainop_fail. Qed.

Section PlainPrefix.
  Variable pfx : str.
  Let b := prefixfs pfx osfs.

  Ltac unit_method :=
    unfold b, prefixfs, layered, layered_with; cbn -[prefix_layer dispatch_unit];
    apply plainop_with_outcome; [apply plainop_dispatch_unit_osfs | apply plainop_fail].

  Lemma plainop_p_lstat p : plainop (a_lstat b p).
  Proof.
    unfold b, prefixfs, layered, layered_with; cbn -[prefix_layer dispatch_info].
    apply plainop_with_outcome; [| apply plainop_fail].
    intros c. apply plainop_bind; [apply plainop_dispatch_info_osfs | intros fi; apply plainop_ret].
  Qed.
  Lemma plainop_p_stat p : plainop (a_stat b p).
  Proof.
    unfold b, prefixfs, layered, layered_with; cbn -[prefix_layer dispatch_info].
    apply plainop_with_outcome; [| apply plainop_fail].
    intros c. apply plainop_bind; [apply plainop_dispatch_info_osfs | intros fi; apply plainop_ret].
  Qed.
  Lemma plainop_p_readlink p : plainop (a_readlink b p).
  Proof.
    unfold b, prefixfs, layered, layered_with; cbn -[prefix_layer].
    apply plainop_with_outcome; [| apply plainop_fail].
    intros c. apply plainop_bind; [apply plainop_fs_get | intros t; apply plainop_ret].
  Qed.
  Lemma plainop_p_open p : plainop (a_open b p).
  Proof.
    unfold b, prefixfs, layered, layered_with; cbn -[prefix_layer dispatch_handle].
    apply plainop_with_outcome; [| apply plainop_fail].
    intros c. apply plainop_bind; [apply plainop_dispatch_handle_osfs | intros h; apply plainop_ret].
  Qed.
  Lemma plainop_p_openfile p fl perm : plainop (a_openfile b p fl perm).
  Proof.
    unfold b, prefixfs, layered, layered_with; cbn -[prefix_layer dispatch_handle].
    apply plainop_with_outcome; [| apply plainop_fail].
    intros c. apply plainop_bind; [apply plainop_dispatch_handle_osfs | intros h; apply plainop_ret].
  Qed.
  Lemma plainop_p_create p : plainop (a_create b p).
  Proof.
    unfold b, prefixfs, layered, layered_with; cbn -[prefix_layer dispatch_handle].
    apply plainop_with_outcome; [| apply plainop_fail].
    intros c. apply plainop_bind; [apply plainop_dispatch_handle_osfs | intros h; apply plainop_ret].
  Qed.
  Lemma plainop_p_mkdir p perm : plainop (a_mkdir b p perm). Proof. unit_method. Qed.
  Lemma plainop_p_mkdirall p perm : plainop (a_mkdirall b p perm). Proof. unit_method. Qed.
  Lemma plainop_p_remove p : plainop (a_remove b p). Proof. unit_method. Qed.
  Lemma plainop_p_removeall p : plainop (a_removeall b p). Proof. unit_method. Qed.
  Lemma plainop_p_rename o n : plainop (a_rename b o n). Proof. unit_method. Qed.
  Lemma plainop_p_chmod p m : plainop (a_chmod b p m). Proof. unit_method. Qed.
  Lemma plainop_p_chown p u g : plainop (a_chown b p u g). Proof. unit_method. Qed.
  Lemma plainop_p_lchown p u g : plainop (a_lchown b p u g). Proof. unit_method. Qed.
  Lemma plainop_p_chtimes p t : plainop (a_chtimes b p t). Proof. unit_method. Qed.
  Lemma plainop_p_symlink t p : plainop (a_symlink b t p). Proof. unit_method. Qed.
End PlainPrefix.

(* ------------------------------------------------------------------ *)
(** * The crash laws of the concrete filesystem *)

Lemma Vp_st (pfx : str) (w w' : world) : w_st w' = w_st w -> Vp pfx w' = Vp pfx w.
Proof. intros E. unfold Vp. rewrite E. reflexivity. Qed.

Lemma plainop_spy_handle (t : fstag) (p : str) (m : M fhandle) :
  plainop m -> plainop (h <- m ;; ret (spy_handle t p h)).
Proof. intros Hm. apply plainop_bind; [exact Hm | intros h; apply plainop_ret]. Qed.

Theorem the_api_crash_laws (tag : fstag) (pfx : str) : api_crash_laws (the_api tag pfx) (Vp pfx).
Proof.
  unfold the_api. constructor; cbn [spy a_lstat a_stat a_readlink a_open a_openfile a_create a_mkdir
    a_mkdirall a_remove a_removeall a_rename a_chmod a_chown a_lchown a_chtimes a_symlink].
  - intros w c. reflexivity.
  - intros p. apply spied_atomic. apply plainop_p_lstat.
  - intros p. apply spied_atomic. apply plainop_p_stat.
  - intros p. apply spied_atomic. apply plainop_p_readlink.
  - intros p. apply spied_atomic. apply plainop_spy_handle. apply plainop_p_open.
  - intros p fl perm. apply spied_atomic. apply plainop_spy_handle. apply plainop_p_openfile.
  - intros p. apply spied_atomic. apply plainop_spy_handle. apply plainop_p_create.
  - intros p perm. apply spied_atomic. apply plainop_p_mkdir.
  - intros p perm. apply spied_atomic. apply plainop_p_mkdirall.
  - intros p. apply spied_atomic. apply plainop_p_remove.
  - intros p. apply spied_atomic. apply plainop_p_removeall.
  - intros o n. apply spied_atomic. apply plainop_p_rename.
  - intros p m. apply spied_atomic. apply plainop_p_chmod.
  - intros p u g. apply spied_atomic. apply plainop_p_chown.
  - intros p u g. apply spied_atomic. apply plainop_p_lchown.
  - intros p t. apply spied_atomic. apply plainop_p_chtimes.
  - intros t p. apply spied_atomic. apply plainop_p_symlink.
  - intros h w r w' Hrun. apply Vp_st. exact (hread_st h w r w' Hrun).
  - intros h w r w' Hrun. apply Vp_st. exact (hclose_st h w r w' Hrun).
  - intros h w r w' Hrun. apply Vp_st. exact (hstat_st h w r w' Hrun).
  - intros h w r w' Hrun. apply Vp_st. exact (hreaddirnames_st h w r w' Hrun).
Qed.

(** every method of the concrete filesystem counts: with a crash point it halts
    exactly when the crash point has been reached (the tick-faithful form of
    Spec/Always.v); so do the operations on the handles it returns *)
Theorem the_api_uniform (tag : fstag) (pfx : str) :
  (forall p, uniform (a_lstat (the_api tag pfx) p)) /\
  (forall p, uniform (a_stat (the_api tag pfx) p)) /\
  (forall p, uniform (a_readlink (the_api tag pfx) p)) /\
  (forall p, uniform (a_open (the_api tag pfx) p)) /\
  (forall p fl perm, uniform (a_openfile (the_api tag pfx) p fl perm)) /\
  (forall p, uniform (a_create (the_api tag pfx) p)) /\
  (forall p perm, uniform (a_mkdir (the_api tag pfx) p perm)) /\
  (forall p perm, uniform (a_mkdirall (the_api tag pfx) p perm)) /\
  (forall p, uniform (a_remove (the_api tag pfx) p)) /\
  (forall p, uniform (a_removeall (the_api tag pfx) p)) /\
  (forall o n, uniform (a_rename (the_api tag pfx) o n)) /\
  (forall p m, uniform (a_chmod (the_api tag pfx) p m)) /\
  (forall p u g, uniform (a_chown (the_api tag pfx) p u g)) /\
  (forall p u g, uniform (a_lchown (the_api tag pfx) p u g)) /\
  (forall p t, uniform (a_chtimes (the_api tag pfx) p t)) /\
  (forall t p, uniform (a_symlink (the_api tag pfx) t p)).
Proof.
  unfold the_api. cbn [spy a_lstat a_stat a_readlink a_open a_openfile a_create a_mkdir
    a_mkdirall a_remove a_removeall a_rename a_chmod a_chown a_lchown a_chtimes a_symlink].
  repeat match goal with |- _ /\ _ => split end;
    repeat match goal with |- forall _, _ => intro end; apply spied_uniform;
    first [ apply plainop_p_lstat | apply plainop_p_stat | apply plainop_p_readlink
          | apply plainop_spy_handle; first [apply plainop_p_open | apply plainop_p_openfile | apply plainop_p_create]
          | apply plainop_p_mkdir | apply plainop_p_mkdirall | apply plainop_p_remove | apply plainop_p_removeall
          | apply plainop_p_rename | apply plainop_p_chmod | apply plainop_p_chown | apply plainop_p_lchown
          | apply plainop_p_chtimes | apply plainop_p_symlink ].
Qed.

(** the handles the concrete filesystem returns are spied *)
Lemma the_api_handles_spied (tag : fstag) (pfx : str) (p : str) (w w' : world) (h : fhandle) :
  (a_open (the_api tag pfx) p w = (MOk h, w') \/
   (exists fl perm, a_openfile (the_api tag pfx) p fl perm w = (MOk h, w')) \/
   a_create (the_api tag pfx) p w = (MOk h, w')) -> fh_spy h = Some (tag, p).
Proof.
  assert (Hgen : forall (m : M fhandle) pm,
            spied tag pm p [] (h0 <- m ;; ret (spy_handle tag p h0)) w = (MOk h, w') ->
            fh_spy h = Some (tag, p)).
  { intros m pm Hrun. unfold spied in Hrun.
    set (w1 := mkWorld (w_st w) (w_trace w) (N.succ (w_ticks w)) (w_crash w) (w_faults w) (w_infos w)) in *.
    assert (Hbody : (if faulted w1 tag pm p then (MErr EIO, record (mkTcall tag pm p [] (Some EIO)) w1)
                     else match (h0 <- m ;; ret (spy_handle tag p h0)) w1 with
                          | (MOk a, w2) => (MOk a, record (mkTcall tag pm p [] None) w2)
                          | (MErr e, w2) => (MErr e, record (mkTcall tag pm p [] (Some e)) w2)
                          | (MHalt, w2) => (MHalt, w2)
                          end) = (MOk h, w') -> fh_spy h = Some (tag, p)).
    { intros H. destruct (faulted w1 tag pm p); [discriminate H |].
      unfold bind in H. destruct (m w1) as [[h0 | e |] w2]; try discriminate H.
      unfold ret in H. injection H as <- _. reflexivity. }
    destruct (w_crash w) as [k|]; [| exact (Hbody Hrun)].
    destruct (N.leb k (w_ticks w)); [discriminate Hrun | exact (Hbody Hrun)]. }
  unfold the_api. cbn [spy a_open a_openfile a_create].
  intros [H | [(fl & perm & H) | H]]; exact (Hgen _ _ H).
Qed.

Print Assumptions the_api_crash_laws.
Print Assumptions the_api_uniform.

(* ------------------------------------------------------------------ *)
(** * The closed theorems for the concrete layering *)

Section ConcreteAlways.
  Variables pa pb : str.
  Hypothesis Ha : prefix_ok pa.
  Hypothesis Hb : prefix_ok pb.
  Hypothesis Hd : disjoint_prefixes pa pb.

  Let Lb := the_api_laws TBase pa pb Ha Hb Hd.
  Let Lb2 := the_api_laws2 TBase pa pb Ha Hb Hd.
  Let Lk := the_api_laws TBackup pb pa Hb Ha (disjoint_prefixes_sym pa pb Hd).
  Let Cb := the_api_crash_laws TBase pa.
  Let Ck := the_api_crash_laws TBackup pb.

  (** at every instant of [tryBackup] *)
  Theorem try_backup_always_concrete :
    forall B0, links_ok clean clean (acc_p pa) (acc_p pb) B0 -> all_small B0 -> swf B0 ->
    forall w p, Inv (Vp pa) (Vp pb) B0 w -> snolinkpar (Vp pa w) p ->
    always (recoverable (Vp pa) (Vp pb) B0) (try_backup (cfg_base (gcfg pa pb)) (cfg_backup (gcfg pa pb)) p) w.
  Proof using Ha Hb Hd.
    intros B0 Hl Hs Hwf w p HI Hp.
    exact (try_backup_always (the_api TBase pa) (the_api TBackup pb) (Vp pa) (Vp pb) clean clean
             (acc_p pa) (acc_p pb) (rh_p TBase pa) (rh_p TBackup pb) (wh_p TBase pa) (wh_p TBackup pb) nohid nohid
             B0 Lb Lk Cb Ck Hl Hs Hwf w p HI Hp).
  Qed.

  (** at every instant of every covered operation *)
  Theorem step_always_concrete :
    forall B0, links_ok clean clean (acc_p pa) (acc_p pb) B0 -> all_small B0 -> swf B0 ->
    forall o w, Inv (Vp pa) (Vp pb) B0 w -> covered (Vp pa) o w ->
    forall k wh, step (cfg_base (gcfg pa pb)) (cfg_backup (gcfg pa pb)) o (with_crash w (Some k)) = (MHalt, wh) ->
    recoverable (Vp pa) (Vp pb) B0 wh.
  Proof using Ha Hb Hd.
    intros B0 Hl Hs Hwf o w HI Hc.
    exact (step_always (the_api TBase pa) (the_api TBackup pb) (Vp pa) (Vp pb) clean clean
             (acc_p pa) (acc_p pb) (rh_p TBase pa) (rh_p TBackup pb) (wh_p TBase pa) (wh_p TBackup pb) nohid nohid
             B0 Lb Lb2 Lk Cb Ck Hl Hs Hwf o w HI Hc).
  Qed.

  (** C02 at every instant, closed: a history of covered operations started in
      an [initial] world with a crash point, wherever it stops *)
  Theorem c02_instant_concrete :
    forall B0, all_small B0 ->
    forall w0 ops w,
      initial (Vp pa) (Vp pb) clean clean (acc_p pa) (acc_p pb) B0 w0 ->
      good_run (cfg_base (gcfg pa pb)) (cfg_backup (gcfg pa pb)) (Vp pa) w0 ops w ->
    forall k outs wh, run_history (gcfg pa pb) ops (with_crash w0 (Some k)) = (outs, wh) ->
    recoverable (Vp pa) (Vp pb) B0 wh.
  Proof using Ha Hb Hd.
    intros B0 Hs w0 ops w Hinit Hrun k outs wh Hk.
    exact (run_always (the_api TBase pa) (the_api TBackup pb) (Vp pa) (Vp pb) clean clean
             (acc_p pa) (acc_p pb) (rh_p TBase pa) (rh_p TBackup pb) (wh_p TBase pa) (wh_p TBackup pb) nohid nohid
             B0 Lb Lb2 Lk Cb Ck Hs w0 ops w Hinit Hrun k outs wh Hk).
  Qed.

  (** at every instant of Rollback, from any state satisfying the invariant *)
  Theorem rollback_always_concrete :
    forall B0, links_ok clean clean (acc_p pa) (acc_p pb) B0 -> all_small B0 -> swf B0 ->
    forall w, Inv (Vp pa) (Vp pb) B0 w ->
    forall k wh, b_rollback (cfg_base (gcfg pa pb)) (cfg_backup (gcfg pa pb)) (with_crash w (Some k)) = (MHalt, wh) ->
    recoverable (Vp pa) (Vp pb) B0 wh.
  Proof using Ha Hb Hd.
    intros B0 Hl Hs Hwf w HI.
    exact (rollback_always (the_api TBase pa) (the_api TBackup pb) (Vp pa) (Vp pb) clean clean
             (acc_p pa) (acc_p pb) (rh_p TBase pa) (rh_p TBackup pb) (wh_p TBase pa) (wh_p TBackup pb) nohid nohid
             B0 Lb Lk Cb Ck Hl Hs Hwf (loc_ok_nohid B0) w HI).
  Qed.

  (** C02 at every instant, closed, Rollback included: a history of covered
      operations followed by Rollback, started in an [initial] world with a
      crash point, wherever it stops *)
  Theorem c02_instant_rollback_concrete :
    forall B0, all_small B0 ->
    forall w0 ops w,
      initial (Vp pa) (Vp pb) clean clean (acc_p pa) (acc_p pb) B0 w0 ->
      good_run (cfg_base (gcfg pa pb)) (cfg_backup (gcfg pa pb)) (Vp pa) w0 ops w ->
    forall k outs wh, run_history (gcfg pa pb) (ops ++ [ORollback]) (with_crash w0 (Some k)) = (outs, wh) ->
    recoverable (Vp pa) (Vp pb) B0 wh.
  Proof using Ha Hb Hd.
    intros B0 Hs w0 ops w Hinit Hrun k outs wh Hk.
    exact (run_rollback_always (the_api TBase pa) (the_api TBackup pb) (Vp pa) (Vp pb) clean clean
             (acc_p pa) (acc_p pb) (rh_p TBase pa) (rh_p TBackup pb) (wh_p TBase pa) (wh_p TBackup pb) nohid nohid
             B0 Lb Lb2 Lk Cb Ck Hs w0 ops w Hinit Hrun k outs wh Hk).
  Qed.
End ConcreteAlways.

Print Assumptions try_backup_always_concrete.
Print Assumptions step_always_concrete.
Print Assumptions c02_instant_concrete.
Print Assumptions rollback_always_concrete.
Print Assumptions c02_instant_rollback_concrete.
