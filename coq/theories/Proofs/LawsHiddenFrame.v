(** Footprints: which keys of the world a call of [the_api tag pfx] on a
    resolved view path (and the operations on its handles) may change - the
    key of the path and the key of its parent - and the two frames of the
    documented layering that follow:

    - a call of the base on a name that is not at or below the location leaves
      the view [Vp (pa ++ h)] of the backup filesystem alone ([Vp_pk_frame]);
    - a call of the backup filesystem leaves the view [VpH pa h] of the base
      alone ([VpH_frame]). *)
From stdpp Require Import gmap.
From BFS Require Import Spec.CopySpecs Spec.ViewOsfs Spec.ViewHidden.
From BFS Require Import Proofs.LawsOsfsBase Proofs.LawsOsfsA Proofs.LawsOsfsB.
From BFS Require Import Proofs.LawsHiddenBase Proofs.LawsHiddenView.
Local Open Scope nat_scope.

(* ------------------------------------------------------------------ *)
(** * Footprints of state changes *)

Section Footprint.
  Variable pfx : str.
  Hypothesis Hp : prefix_ok pfx.

  (** the key of [p] or of its parent *)
  Definition chainK (p : str) (k : key) : Prop := k = wkey pfx p \/ k = removelast (wkey pfx p).

  (** [s'] agrees with [s] outside the keys of [ps] and of their parents *)
  Definition fp (ps : list str) (s' s : fstate) : Prop :=
    forall k, (forall p, In p ps -> ~ chainK p k) -> st_fs s' !! k = st_fs s !! k.

  Lemma fp_refl (ps : list str) (s : fstate) : fp ps s s.
  Proof. intros k _. reflexivity. Qed.

  Lemma fp_same (ps : list str) (s' s : fstate) : st_fs s' = st_fs s -> fp ps s' s.
  Proof. intros E k _. rewrite E. reflexivity. Qed.

  Lemma fp_trans (ps : list str) (s1 s2 s3 : fstate) : fp ps s1 s2 -> fp ps s2 s3 -> fp ps s1 s3.
  Proof. intros H1 H2 k Hk. rewrite (H1 k Hk). exact (H2 k Hk). Qed.

  Lemma fp_mono (ps qs : list str) (s' s : fstate) : incl ps qs -> fp ps s' s -> fp qs s' s.
  Proof. intros Hi H k Hk. apply H. intros p Hin. apply Hk. apply Hi. exact Hin. Qed.

  Lemma fp_update (ps : list str) (s1 s : fstate) (p : str) (n : node) :
    st_fs s1 = st_fs s -> In p ps -> fp ps (update_node s1 (wkey pfx p) n) s.
  Proof.
    intros E Hin k Hk. rewrite <- E. apply update_node_lookup_ne.
    intros ->. apply (Hk p Hin). left. reflexivity.
  Qed.

  Lemma fp_add (ps : list str) (s : fstate) (p : str) mk :
    In p ps -> fp ps (add_entry s (removelast (wkey pfx p)) (last (wkey pfx p) []) mk) s.
  Proof.
    intros Hin k Hk. apply add_entry_last_lookup_other.
    - apply wkey_nonnil. exact Hp.
    - intros ->. apply (Hk p Hin). left. reflexivity.
    - intros ->. apply (Hk p Hin). right. reflexivity.
  Qed.

  Lemma fp_remove (ps : list str) (s : fstate) (p : str) :
    In p ps -> fp ps (remove_entry s (wkey pfx p)) s.
  Proof.
    intros Hin k Hk. apply remove_entry_lookup_other.
    - intros ->. apply (Hk p Hin). left. reflexivity.
    - intros ->. apply (Hk p Hin). right. reflexivity.
  Qed.

  Lemma fp_moved (ps : list str) (s : fstate) (po pn : str) (no : node) :
    In po ps -> In pn ps -> fp ps (moved_leaf s (wkey pfx po) (wkey pfx pn) no) s.
  Proof.
    intros Ho Hn k Hk. unfold moved_leaf. cbn [st_fs].
    assert (A1 : k <> wkey pfx po) by (intros ->; apply (Hk po Ho); left; reflexivity).
    assert (A2 : k <> removelast (wkey pfx po)) by (intros ->; apply (Hk po Ho); right; reflexivity).
    assert (B1 : k <> wkey pfx pn) by (intros ->; apply (Hk pn Hn); left; reflexivity).
    assert (B2 : k <> removelast (wkey pfx pn)) by (intros ->; apply (Hk pn Hn); right; reflexivity).
    rewrite touch_dir_lookup_ne by exact B2. rewrite touch_dir_lookup_ne by exact A2.
    rewrite lookup_insert_ne by congruence. rewrite !lookup_delete_ne by congruence. reflexivity.
  Qed.

  (** ... and, in addition, outside the directory of the prefix *)
  Definition fpo (ps : list str) (s' s : fstate) : Prop :=
    fp ps s' s /\ same_outside pfx (st_fs s') (st_fs s).

  Lemma fpo_refl (ps : list str) (s : fstate) : fpo ps s s.
  Proof. split; [apply fp_refl | apply same_outside_refl]. Qed.

  Lemma fpo_same (ps : list str) (s' s : fstate) : st_fs s' = st_fs s -> fpo ps s' s.
  Proof. intros E. split; [apply fp_same; exact E | intros k _; rewrite E; reflexivity]. Qed.

  Lemma fpo_trans (ps : list str) (s1 s2 s3 : fstate) : fpo ps s1 s2 -> fpo ps s2 s3 -> fpo ps s1 s3.
  Proof.
    intros [H1 G1] [H2 G2]. split; [exact (fp_trans ps s1 s2 s3 H1 H2) | exact (same_outside_trans pfx _ _ _ G1 G2)].
  Qed.

  Lemma fpo_mono (ps qs : list str) (s' s : fstate) : incl ps qs -> fpo ps s' s -> fpo qs s' s.
  Proof. intros Hi [H G]. split; [exact (fp_mono ps qs s' s Hi H) | exact G]. Qed.

  Lemma fpo_update (ps : list str) (s1 s : fstate) (p : str) (n : node) :
    st_fs s1 = st_fs s -> In p ps -> fpo ps (update_node s1 (wkey pfx p) n) s.
  Proof.
    intros E Hin. split; [exact (fp_update ps s1 s p n E Hin) |].
    rewrite <- E. apply same_outside_update_node_wkey.
  Qed.

  Lemma fpo_add (ps : list str) (s : fstate) (p : str) mk :
    In p ps -> comps p <> [] -> fpo ps (add_entry s (removelast (wkey pfx p)) (last (wkey pfx p) []) mk) s.
  Proof.
    intros Hin Hne. split; [exact (fp_add ps s p mk Hin) | apply same_outside_add_entry_wkey; exact Hne].
  Qed.

  Lemma fpo_remove (ps : list str) (s : fstate) (p : str) :
    In p ps -> comps p <> [] -> fpo ps (remove_entry s (wkey pfx p)) s.
  Proof.
    intros Hin Hne. split; [exact (fp_remove ps s p Hin) | apply same_outside_remove_entry_wkey; exact Hne].
  Qed.

  Lemma fpo_moved (ps : list str) (s : fstate) (po pn : str) (no : node) :
    In po ps -> In pn ps -> comps po <> [] -> comps pn <> [] ->
    fpo ps (moved_leaf s (wkey pfx po) (wkey pfx pn) no) s.
  Proof.
    intros Ho Hn Hone Hnne. split; [exact (fp_moved ps s po pn no Ho Hn) |].
    apply same_outside_moved_leaf; try (apply wkey_removelast_prefix; assumption); apply wkey_nonnil; exact Hp.
  Qed.

  (** on the pair a call returns *)
  Definition fpr {X} (ps : list str) (rw : mres X * world) (w : world) : Prop :=
    fpo ps (w_st (snd rw)) (w_st w).

  Lemma fpr_run {X} (ps : list str) (m : M X) (w : world) (r : mres X) (w' : world) :
    fpr ps (m w) w -> m w = (r, w') -> fpo ps (w_st w') (w_st w).
  Proof. intros H E. unfold fpr in H. rewrite E in H. exact H. Qed.
End Footprint.

(* ------------------------------------------------------------------ *)
(** * The two frames *)

Section Frames.
  Variables pa h : str.
  Hypothesis Ha : prefix_ok pa.
  Hypothesis Hh : hidden_ok h.

  Let Hhac : abs_cleaned h := proj1 Hh.
  Let pk := pk_h pa h.
  Let Hk : prefix_ok pk := pk_ok pa h Ha Hh.

  (** the chain keys of a shown path of the base are not at or below the location *)
  Lemma chain_shown_not_below (p : str) (k : key) :
    abs_cleaned p -> shownb h p = true -> chainK pa p k -> key_prefixb (kp pk) k = false.
  Proof.
    intros Hac Hs [-> | ->].
    - unfold pk. rewrite (below_pk_wkey pa h Ha Hh p), Hs. reflexivity.
    - destruct (list_eq_dec str_eq_dec (comps p) []) as [E | E].
      + (* the parent of the prefix directory *)
        unfold wkey. rewrite E, app_nil_r. apply key_prefixb_false_iff. intros [r Er].
        unfold pk in Er. rewrite (kp_pk pa h Ha Hh) in Er. unfold wkey in Er.
        assert (L : length (removelast (kp pa)) = length ((kp pa ++ comps h) ++ r)) by (rewrite Er; reflexivity).
        rewrite !app_length in L.
        pose proof (kp_nonnil pa Ha) as Hne.
        assert (L2 : S (length (removelast (kp pa))) = length (kp pa)).
        { rewrite <- (removelast_last_snoc _ (kp pa) [] Hne) at 2. rewrite app_length. simpl. lia. }
        lia.
      + rewrite <- (wkey_vparent pa p (proj2 Hac) E). unfold pk.
        rewrite (below_pk_wkey pa h Ha Hh (vparent p)).
        assert (Hne : p <> s_root) by (intros ->; apply E; apply comps_root).
        rewrite (shownb_ancestor h p (vparent p) Hac Hs (vparent_ancestor p Hac Hne)). reflexivity.
  Qed.

  (** ** base calls on shown names do not show in the view of the backup filesystem *)
  Lemma Vp_pk_frame (ps : list str) (w w' : world) :
    Forall abs_cleaned ps -> Forall (fun p => shownb h p = true) ps ->
    world_okb pa (st_fs (w_st w)) = true -> world_okb pa (st_fs (w_st w')) = true ->
    fp pa ps (w_st w') (w_st w) -> Vp pk w' = Vp pk w.
  Proof.
    intros Hacs Hss Hok Hok' Hfp.
    assert (Hag : forall k, key_prefixb (kp pk) k = true -> st_fs (w_st w') !! k = st_fs (w_st w) !! k).
    { intros k Hb. apply Hfp. intros p Hin Hc.
      rewrite List.Forall_forall in Hacs, Hss.
      rewrite (chain_shown_not_below p k (Hacs p Hin) (Hss p Hin) Hc) in Hb. discriminate Hb. }
    unfold Vp. rewrite (world_okb_is_dirb pa pk _ Hok), (world_okb_is_dirb pa pk _ Hok').
    unfold is_dirb. rewrite (Hag _ (key_prefixb_refl (kp pk))).
    destruct (st_fs (w_st w) !! kp pk) as [[m | m c | m t]|]; try reflexivity.
    apply view_of_agree; [eapply world_okb_keys_good; exact Hok | eapply world_okb_keys_good; exact Hok' | exact Hag].
  Qed.

  (** ** calls of the backup filesystem do not show in the view of the base *)

  (** the keys of the base view that are shown are not at or below the location *)
  Lemma VpH_frame (w w' : world) :
    world_okb pk (st_fs (w_st w)) = true -> world_okb pk (st_fs (w_st w')) = true ->
    same_outside pk (st_fs (w_st w')) (st_fs (w_st w)) ->
    VpH pa h w' = VpH pa h w.
  Proof.
    intros Hok Hok' Hso.
    assert (Hpa : forall f, world_okb pk f = true -> is_dir_at f (kp pa) -> world_okb pa f = true).
    { intros f H Hd. exact (world_okb_other pk pa f H Hd). }
    (* the prefix directory of the base lies above the location *)
    assert (Hdpa : forall f, world_okb pk f = true -> is_dir_at f (kp pa)).
    { intros f H. pose proof (world_okb_prefix_dir _ _ H) as [m Hm].
      unfold pk in Hm. rewrite (kp_pk pa h Ha Hh) in Hm. unfold wkey in Hm.
      destruct (list_eq_dec str_eq_dec (comps h) []) as [E | E].
      - exfalso. apply (proj2 Hh). apply (abs_cleaned_comps_nil h Hhac). exact E.
      - exact (wf_prefix_dir f (kp pa) (comps h) (Dir m) (world_okb_wf _ _ H) E Hm). }
    pose proof (Hpa _ Hok (Hdpa _ Hok)) as Hoka. pose proof (Hpa _ Hok' (Hdpa _ Hok')) as Hoka'.
    pose proof (world_okb_prefix_dir _ _ Hok) as [m Hm]. pose proof (world_okb_prefix_dir _ _ Hok') as [m' Hm'].
    unfold pk in Hm, Hm'. rewrite (kp_pk pa h Ha Hh) in Hm, Hm'.
    assert (Hd : sdir (Vp pa w) h).
    { exists m. rewrite (Vp_lookup pa w h Hoka Hhac). norm_keys. rewrite Hm. reflexivity. }
    assert (Hd' : sdir (Vp pa w') h).
    { exists m'. rewrite (Vp_lookup pa w' h Hoka' Hhac). norm_keys. rewrite Hm'. reflexivity. }
    rewrite !VpH_FH. apply map_eq. intros p.
    rewrite (FH_lookup h (Vp pa w') p Hd'), (FH_lookup h (Vp pa w) p Hd).
    destruct (shownb h p) eqn:Hs; [| reflexivity].
    destruct (abs_cleaned_dec p) as [Hac | Hnac].
    - rewrite (Vp_lookup pa w' p Hoka' Hac), (Vp_lookup pa w p Hoka Hac). f_equal.
      apply Hso. unfold pk. rewrite (below_pk_wkey pa h Ha Hh p), Hs. reflexivity.
    - rewrite (Vp_ok pa w' Hoka'), (Vp_ok pa w Hoka).
      rewrite (view_lookup_not_ac pa _ p (world_okb_keys_good _ _ Hoka') Hnac).
      rewrite (view_lookup_not_ac pa _ p (world_okb_keys_good _ _ Hoka) Hnac). reflexivity.
  Qed.

End Frames.

(* ------------------------------------------------------------------ *)
(** * Footprints of the methods of [the_api tag pfx] *)

Section Methods.
  Variable tag : fstag.
  Variable pfx : str.
  Hypothesis Hp : prefix_ok pfx.
  Notation A := (the_api tag pfx).

  (** the two cases of a resolved name (what [snl_setup] of Proofs/LawsOsfsB.v gives) *)
  Definition rcase (w : world) (p : str) : Prop :=
    direct (st_fs (w_st w)) (wpath pfx p) \/
    (unresolvable (st_fs (w_st w)) (wpath pfx p) /\ st_fs (w_st w) !! wkey pfx p = None).

  Notation FPR := (fpr pfx).

  Lemma comps_ne_of_none (w : world) (p : str) :
    world_okb pfx (st_fs (w_st w)) = true -> abs_cleaned p ->
    st_fs (w_st w) !! wkey pfx p = None -> comps p <> [].
  Proof.
    intros Hok Hac Hn E. apply (lookup_none_not_root pfx w p Hok Hn).
    apply (abs_cleaned_comps_nil p Hac). exact E.
  Qed.

  Ltac fin_same := unfold fpr, fin, finmap; cbn [fst snd]; apply fpo_refl.
  Ltac fin_upd := unfold fpr, fin, finmap; cbn [fst snd]; apply fpo_update; [reflexivity | left; reflexivity].

  (** ** reading *)
  Lemma fpr_lstat (w : world) (p : str) : quiet w -> abs_cleaned p -> FPR [p] (a_lstat A p w) w.
  Proof.
    intros Hq Hac. rewrite (the_api_lstat tag pfx Hp p (proj2 Hac)).
    rewrite (spied_fs_get_map_quiet _ _ tag (PM MLstat) p [] _ _ w Hq). apply fpo_refl.
  Qed.

  Lemma fpr_stat (w : world) (p : str) : quiet w -> abs_cleaned p -> FPR [p] (a_stat A p w) w.
  Proof.
    intros Hq Hac. rewrite (the_api_stat tag pfx Hp p (proj2 Hac)).
    rewrite (spied_fs_get_map_quiet _ _ tag (PM MStat) p [] _ _ w Hq). apply fpo_refl.
  Qed.

  Lemma fpr_readlink (w : world) (p : str) : quiet w -> abs_cleaned p -> FPR [p] (a_readlink A p w) w.
  Proof.
    intros Hq Hac. rewrite (the_api_readlink tag pfx Hp p (proj2 Hac)).
    rewrite (spied_fs_get_map_quiet _ _ tag (PM MReadlink) p [] _ _ w Hq). apply fpo_refl.
  Qed.

  (** ** metadata *)
  Lemma fpr_chmod (w : world) (p : str) (mode : N) :
    quiet w -> abs_cleaned p -> rcase w p -> not_link_at (st_fs (w_st w)) (wkey pfx p) ->
    FPR [p] (a_chmod A p mode w) w.
  Proof.
    intros Hq Hac [Hdir | [Hun _]] Hnl.
    - rewrite (run_chmod tag pfx Hp w Hq p Hac Hdir mode Hnl). dlook pfx p as [nd|]; [fin_upd | fin_same].
    - destruct (run_chmod_unresolvable tag pfx Hp w Hq p Hac Hun mode) as (e & E & _). rewrite E. apply fpo_refl.
  Qed.

  Lemma fpr_chtimes (w : world) (p : str) (t : mtime) :
    quiet w -> abs_cleaned p -> rcase w p -> not_link_at (st_fs (w_st w)) (wkey pfx p) ->
    FPR [p] (a_chtimes A p t w) w.
  Proof.
    intros Hq Hac [Hdir | [Hun _]] Hnl.
    - rewrite (run_chtimes tag pfx Hp w Hq p Hac Hdir t Hnl). dlook pfx p as [nd|]; [fin_upd | fin_same].
    - destruct (run_chtimes_unresolvable tag pfx Hp w Hq p Hac Hun t) as (e & E & _). rewrite E. apply fpo_refl.
  Qed.

  Lemma fpr_chown (w : world) (p : str) (u g : Z) :
    quiet w -> abs_cleaned p -> rcase w p -> not_link_at (st_fs (w_st w)) (wkey pfx p) ->
    FPR [p] (a_chown A p u g w) w.
  Proof.
    intros Hq Hac [Hdir | [Hun _]] Hnl.
    - rewrite (run_chown tag pfx Hp w Hq p Hac Hdir u g Hnl). dlook pfx p as [nd|]; [fin_upd | fin_same].
    - destruct (run_chown_unresolvable tag pfx Hp w Hq p Hac Hun u g) as (e & E & _). rewrite E. apply fpo_refl.
  Qed.

  Lemma fpr_lchown (w : world) (p : str) (u g : Z) :
    quiet w -> abs_cleaned p -> rcase w p -> FPR [p] (a_lchown A p u g w) w.
  Proof.
    intros Hq Hac [Hdir | [Hun _]].
    - rewrite (run_lchown tag pfx Hp w Hq p Hac Hdir u g). dlook pfx p as [nd|]; [fin_upd | fin_same].
    - destruct (run_lchown_unresolvable tag pfx Hp w Hq p Hac Hun u g) as (e & E & _). rewrite E. apply fpo_refl.
  Qed.

  (** ** creation *)
  Lemma fpr_mkdir (w : world) (p : str) (perm : N) :
    quiet w -> world_okb pfx (st_fs (w_st w)) = true -> abs_cleaned p -> rcase w p ->
    FPR [p] (a_mkdir A p perm w) w.
  Proof.
    intros Hq Hok Hac [Hdir | [Hun _]].
    - rewrite (run_mkdir tag pfx Hp w Hq p Hac Hdir perm). dlook pfx p as [nd|] eqn:Hnd; [fin_same |].
      unfold fpr, fin; cbn [fst snd]. apply (fpo_add pfx Hp); [left; reflexivity | exact (comps_ne_of_none w p Hok Hac Hnd)].
    - destruct (run_mkdir_unresolvable tag pfx Hp w Hq p Hac Hun perm) as (e & E & _). rewrite E. apply fpo_refl.
  Qed.

  (** MkdirAll on a name whose parents are directories *)
  Lemma fpr_mkdirall_direct (w : world) (p : str) (perm : N) :
    quiet w -> world_okb pfx (st_fs (w_st w)) = true -> abs_cleaned p ->
    direct (st_fs (w_st w)) (wpath pfx p) -> not_link_at (st_fs (w_st w)) (wkey pfx p) ->
    FPR [p] (a_mkdirall A p perm w) w.
  Proof.
    intros Hq Hok Hac Hdir Hnl.
    rewrite (run_mkdirall tag pfx Hp w Hq p Hac Hdir perm Hnl).
    dlook pfx p as [[m | m c | m t]|] eqn:Hnd; try fin_same.
    unfold fpr, fin; cbn [fst snd]. apply (fpo_add pfx Hp); [left; reflexivity | exact (comps_ne_of_none w p Hok Hac Hnd)].
  Qed.

  Lemma fpr_symlink (w : world) (t p : str) :
    quiet w -> world_okb pfx (st_fs (w_st w)) = true -> abs_cleaned p -> rcase w p ->
    FPR [p] (a_symlink A t p w) w.
  Proof.
    intros Hq Hok Hac Hcase. destruct t as [| x t'].
    { destruct (run_symlink_nil tag pfx Hp w p Hq Hac) as [e E]. rewrite E. apply fpo_refl. }
    destruct Hcase as [Hdir | [Hun _]].
    - rewrite (run_symlink tag pfx Hp w Hq p Hac Hdir (x :: t')) by discriminate.
      destruct (sym_accb pfx (x :: t') p); [| fin_same].
      dlook pfx p as [nd|] eqn:Hnd; [fin_same |].
      unfold fpr, fin; cbn [fst snd]. apply (fpo_add pfx Hp); [left; reflexivity | exact (comps_ne_of_none w p Hok Hac Hnd)].
    - destruct (run_symlink_unresolvable tag pfx Hp w Hq p Hac Hun (x :: t')) as [e E]. rewrite E. apply fpo_refl.
  Qed.

  Lemma fpr_openfile (w : world) (p : str) (fl perm : N) :
    quiet w -> world_okb pfx (st_fs (w_st w)) = true -> abs_cleaned p -> rcase w p ->
    (o_creat fl && o_excl fl = true \/ not_link_at (st_fs (w_st w)) (wkey pfx p)) ->
    FPR [p] (a_openfile A p fl perm w) w.
  Proof.
    intros Hq Hok Hac [Hdir | [Hun _]] Hside.
    - rewrite (run_openfile tag pfx Hp w Hq p Hac Hdir fl perm Hside).
      dlook pfx p as [[m | m c | m t]|] eqn:Hnd.
      + destruct (o_creat fl && o_excl fl); [fin_same |].
        destruct (o_wronly fl || o_rdwr fl || o_creat fl || o_trunc fl); fin_same.
      + destruct (o_creat fl && o_excl fl); [fin_same |]. destruct (o_trunc fl); [fin_upd | fin_same].
      + destruct (o_creat fl && o_excl fl); fin_same.
      + destruct (o_creat fl); [| fin_same].
        unfold fpr, finmap; cbn [fst snd]. apply (fpo_add pfx Hp); [left; reflexivity | exact (comps_ne_of_none w p Hok Hac Hnd)].
    - destruct (run_openfile_unresolvable tag pfx Hp w Hq p Hac Hun fl perm) as (e & E & _). rewrite E. apply fpo_refl.
  Qed.

  Lemma fpr_create (w : world) (p : str) :
    quiet w -> world_okb pfx (st_fs (w_st w)) = true -> abs_cleaned p -> rcase w p ->
    not_link_at (st_fs (w_st w)) (wkey pfx p) -> FPR [p] (a_create A p w) w.
  Proof.
    intros Hq Hok Hac [Hdir | [Hun _]] Hnl.
    - rewrite (run_create tag pfx Hp w Hq p Hac Hdir Hnl).
      dlook pfx p as [[m | m c | m t]|] eqn:Hnd; try fin_same; [fin_upd |].
      unfold fpr, finmap; cbn [fst snd]. apply (fpo_add pfx Hp); [left; reflexivity | exact (comps_ne_of_none w p Hok Hac Hnd)].
    - destruct (run_create_unresolvable tag pfx Hp w Hq p Hac Hun) as (e & E & _). rewrite E. apply fpo_refl.
  Qed.

  Lemma fpr_open (w : world) (p : str) :
    quiet w -> abs_cleaned p -> rcase w p -> not_link_at (st_fs (w_st w)) (wkey pfx p) ->
    FPR [p] (a_open A p w) w.
  Proof.
    intros Hq Hac [Hdir | [Hun _]] Hnl.
    - rewrite (run_open tag pfx Hp w Hq p Hac Hdir Hnl). dlook pfx p as [[m | m c | m t]|]; fin_same.
    - destruct (run_open_unresolvable tag pfx Hp w Hq p Hac Hun) as (e & E & _). rewrite E. apply fpo_refl.
  Qed.

  (** ** removal *)
  Lemma fpr_remove (w : world) (p : str) :
    quiet w -> abs_cleaned p -> p <> s_root -> rcase w p -> FPR [p] (a_remove A p w) w.
  Proof.
    intros Hq Hac Hne [Hdir | [Hun _]].
    - assert (Hc : comps p <> []) by (intros E; apply Hne; apply (abs_cleaned_comps_nil p Hac); exact E).
      rewrite (run_remove tag pfx Hp w Hq p Hac Hdir).
      dlook pfx p as [[m | m c | m t]|]; try fin_same.
      + destruct (has_children (st_fs (w_st w)) (wkey pfx p)); [fin_same |].
        unfold fpr, fin; cbn [fst snd]. apply fpo_remove; [left; reflexivity | exact Hc].
      + unfold fpr, fin; cbn [fst snd]. apply fpo_remove; [left; reflexivity | exact Hc].
      + unfold fpr, fin; cbn [fst snd]. apply fpo_remove; [left; reflexivity | exact Hc].
    - destruct (run_remove_unresolvable tag pfx Hp w Hq p Hac Hun) as (e & E & _). rewrite E. apply fpo_refl.
  Qed.

  (** Remove of any name, the root of the view included: the keys of the name and of its parent *)
  Lemma fp_remove_any (w : world) (p : str) :
    quiet w -> abs_cleaned p -> rcase w p ->
    fp pfx [p] (w_st (snd (a_remove A p w))) (w_st w).
  Proof.
    intros Hq Hac [Hdir | [Hun _]].
    - rewrite (run_remove tag pfx Hp w Hq p Hac Hdir).
      dlook pfx p as [[m | m c | m t]|]; unfold fin; cbn [fst snd]; try apply fp_refl.
      + destruct (has_children (st_fs (w_st w)) (wkey pfx p)); cbn [fst snd]; [apply fp_refl |].
        apply fp_remove. left. reflexivity.
      + apply fp_remove. left. reflexivity.
      + apply fp_remove. left. reflexivity.
    - destruct (run_remove_unresolvable tag pfx Hp w Hq p Hac Hun) as (e & E & _). rewrite E. apply fp_refl.
  Qed.

  (** RemoveAll of a non-directory *)
  Lemma fpr_removeall_leaf (w : world) (p : str) (nd : node) :
    quiet w -> world_okb pfx (st_fs (w_st w)) = true -> abs_cleaned p -> p <> s_root ->
    direct (st_fs (w_st w)) (wpath pfx p) ->
    st_fs (w_st w) !! wkey pfx p = Some nd -> is_dir nd = false ->
    FPR [p] (a_removeall A p w) w.
  Proof.
    intros Hq Hok Hac Hne Hdir Hnd Hnd'.
    assert (Hc : comps p <> []) by (intros E; apply Hne; apply (abs_cleaned_comps_nil p Hac); exact E).
    pose proof (wf_nondir_no_children _ _ nd (world_okb_wf _ _ Hok) Hnd Hnd') as Hnc.
    rewrite (run_removeall tag pfx Hp w Hq p Hac Hdir). norm_keys. rewrite Hnd. rewrite fin_ok.
    unfold fpr; cbn [snd]. eapply fpo_trans; [| apply (fpo_remove pfx [p] (w_st w) p); [left; reflexivity | exact Hc]].
    apply fpo_same. cbn [st_fs after w_st]. rewrite remove_entry_fs.
    rewrite (delete_subtree_leaf _ _ (proj1 (has_children_false_iff _ _) Hnc)). reflexivity.
  Qed.

  (** ** Rename of an entry without children *)
  Lemma fpr_rename (w : world) (po pn : str) :
    quiet w -> world_okb pfx (st_fs (w_st w)) = true -> abs_cleaned po -> abs_cleaned pn ->
    rcase w po -> rcase w pn -> has_children (st_fs (w_st w)) (wkey pfx po) = false ->
    FPR [po; pn] (a_rename A po pn w) w.
  Proof.
    intros Hq Hok Hao Han Ho Hn Hnc.
    destruct Ho as [Hdo | [Huo _]];
      [| destruct (run_rename_unresolvable tag pfx w po pn Hp Hq Hao Han (or_introl Huo)) as [e E];
         rewrite E; apply fpo_refl].
    destruct Hn as [Hdn | [Hun _]];
      [| destruct (run_rename_unresolvable tag pfx w po pn Hp Hq Hao Han (or_intror Hun)) as [e E];
         rewrite E; apply fpo_refl].
    rewrite (run_rename_leaf tag pfx w po pn Hp Hq Hok Hao Han Hdo Hdn Hnc).
    assert (Hmv : forall no, st_fs (w_st w) !! wkey pfx po = Some no ->
              (is_dir no && key_prefixb (wkey pfx po) (wkey pfx pn) = false \/ True) ->
              comps po <> [] -> comps pn <> [] ->
              fpo pfx [po; pn] (moved_leaf (w_st w) (wkey pfx po) (wkey pfx pn) no) (w_st w)).
    { intros no _ _ H1 H2. apply fpo_moved; [exact Hp | left; reflexivity | right; left; reflexivity | exact H1 | exact H2]. }
    destruct (st_fs (w_st w) !! wkey pfx po) as [no|] eqn:Hno; [| fin_same].
    (* the source exists: moving the prefix directory itself, or onto it, fails *)
    destruct (list_eq_dec str_eq_dec (comps po) []) as [Eo | Eo].
    { (* the source is the root of the view: a directory, and every target is below it *)
      assert (Epo : po = s_root) by (apply (abs_cleaned_comps_nil po Hao); exact Eo). subst po.
      pose proof (world_okb_prefix_dir _ _ Hok) as [mr Hmr]. rewrite wkey_root in Hno.
      norm_keys. rewrite Hmr in Hno. injection Hno as <-.
      rewrite wkey_root. cbn [is_dir]. rewrite (wkey_prefix pfx pn).
      dlook pfx pn as [nn|]; [| fin_same].
      destruct (is_dir nn); [fin_same |]. destruct (str_eqb s_root pn); fin_same. }
    destruct (list_eq_dec str_eq_dec (comps pn) []) as [En | En].
    { assert (Epn : pn = s_root) by (apply (abs_cleaned_comps_nil pn Han); exact En). subst pn.
      pose proof (world_okb_prefix_dir _ _ Hok) as [mr Hmr]. rewrite wkey_root.
      norm_keys. rewrite Hmr. cbn [is_dir]. fin_same. }
    dlook pfx pn as [nn|].
    - destruct (is_dir nn); [fin_same |]. destruct (str_eqb po pn); [fin_same |].
      destruct (is_dir no); [destruct (key_prefixb (wkey pfx po) (wkey pfx pn)); fin_same |].
      unfold fpr, fin; cbn [fst snd]. apply (Hmv no eq_refl (or_intror I) Eo En).
    - destruct (is_dir no && key_prefixb (wkey pfx po) (wkey pfx pn)); [fin_same |].
      unfold fpr, fin; cbn [fst snd]. apply (Hmv no eq_refl (or_intror I) Eo En).
  Qed.
End Methods.

(* ------------------------------------------------------------------ *)
(** * MkdirAll: the missing directories on the way to [p] *)

Section MkdirAll.
  Variable tag : fstag.
  Variable pfx : str.
  Hypothesis Hp : prefix_ok pfx.
  Notation A := (the_api tag pfx).

  Lemma cands_vparent (p : str) : abs_cleaned p -> p <> s_root -> cands p = cands (vparent p) ++ [p].
  Proof.
    intros Hac Hne.
    assert (Hcp : comps p <> []) by (intro E; apply Hne; apply (abs_cleaned_comps_nil p Hac); exact E).
    pose proof (vparent_abs_cleaned p (proj2 Hac)) as Hpac.
    rewrite (cands_kprefixes p Hac), (cands_kprefixes (vparent p) Hpac).
    rewrite (comps_vparent p (proj2 Hac)).
    rewrite <- (removelast_last_snoc _ (comps p) [] Hcp) at 1. rewrite kprefixes_snoc, map_app. reflexivity.
  Qed.

  Lemma fs_mkdirall_aux_fp : forall fuel perm s p,
    world_okb pfx (st_fs s) = true -> abs_cleaned p -> nolinkpar (st_fs s) (wpath pfx p) ->
    forall r s', fs_mkdirall_aux fuel s (wpath pfx p) perm = (r, s') -> fpo pfx (cands p) s' s.
  Proof.
    induction fuel as [|fuel IH]; intros perm s p Hok Hac Hnl r s' E.
    - injection E as _ <-. apply fpo_refl.
    - destruct (fs_stat s (wpath pfx p)) as [fi|e] eqn:Est.
      + rewrite fs_mkdirall_aux_S, Est in E.
        destruct (fi_kind fi); injection E as _ <-; apply fpo_refl.
      + assert (Hne : p <> s_root).
        { intro E0. subst p. destruct (fs_stat_prefix_root pfx Hp s Hok) as [fi Efi]. rewrite Efi in Est. discriminate Est. }
        assert (Hcp : comps p <> []) by (intro E0; apply Hne; apply (abs_cleaned_comps_nil p Hac); exact E0).
        pose proof (vparent_abs_cleaned p (proj2 Hac)) as Hpac.
        pose proof (wpath_abs_cleaned pfx p Hp (proj2 Hac)) as WAC.
        pose proof (comps_wpath pfx p Hp (proj2 Hac)) as CW.
        assert (Hc : comps (wpath pfx p) <> []) by (rewrite CW; apply wkey_nonnil; exact Hp).
        assert (Hkk : wkey pfx p = wkey pfx (vparent p) ++ [last (wkey pfx p) []]).
        { rewrite (wkey_vparent pfx p (proj2 Hac) Hcp). symmetry. apply wkey_split. exact Hp. }
        assert (Hnlp : nolinkpar (st_fs s) (wpath pfx (vparent p))).
        { split; [apply wpath_abs_cleaned; [exact Hp | exact (proj2 Hpac)]|].
          rewrite (comps_wpath pfx _ Hp (proj2 Hpac)).
          destruct Hnl as [_ Hnl]. rewrite CW, Hkk, kprefixes_snoc in Hnl.
          apply List.Forall_app in Hnl. exact (proj1 Hnl). }
        rewrite (fs_mkdirall_aux_step fuel s _ perm e _ Est (mkdirall_parent_string pfx Hp p Hac Hne)
                   (wpath_nonempty pfx _)) in E.
        destruct (fs_mkdirall_aux_inv pfx Hp fuel perm s (vparent p) Hok Hpac Hnlp) as (r1 & s1 & E1 & Hinv1).
        pose proof (IH perm s (vparent p) Hok Hpac Hnlp r1 s1 E1) as Hfp1.
        assert (Hfp1' : fpo pfx (cands p) s1 s).
        { apply (fpo_mono pfx (cands (vparent p))); [| exact Hfp1].
          rewrite (cands_vparent p Hac Hne). intros x Hx. apply in_or_app. left. exact Hx. }
        rewrite E1 in E.
        pose proof (mk_inv_weaken pfx s s1 _ _ _ Hkk Hinv1) as Hinv1'.
        destruct r1 as [[]|e1]; [| injection E as _ <-; exact Hfp1'].
        pose proof Hinv1' as (Hok1 & _ & _).
        pose proof (mk_inv_nolinkpar pfx s s1 _ _ Hinv1' Hnl) as Hnl1.
        assert (Hinp : In p (cands p)).
        { rewrite (cands_vparent p Hac Hne). apply in_or_app. right. left. reflexivity. }
        destruct (direct_decidable (st_fs s1) (wpath pfx p) WAC) as [Hdir1|Hnd1].
        * destruct (st_fs s1 !! wkey pfx p) as [n1|] eqn:Hn1.
          -- rewrite (fs_mkdir_direct_exists s1 (wpath pfx p) perm n1 Hdir1) in E by (rewrite CW; exact Hn1).
             cbv beta iota in E.
             destruct (fs_lstat s1 (wpath pfx p)) as [fi|e2]; [destruct (fi_kind fi)|];
               injection E as _ <-; exact Hfp1'.
          -- rewrite (fs_mkdir_direct_missing s1 (wpath pfx p) perm Hdir1 Hc) in E by (rewrite CW; exact Hn1).
             rewrite CW in E. cbv beta iota in E. injection E as _ <-.
             eapply fpo_trans; [| exact Hfp1']. apply (fpo_add pfx Hp); [exact Hinp | exact Hcp].
        * destruct (fs_mkdir_unresolvable s1 (wpath pfx p) WAC
                      (nolinkpar_unresolvable _ _ (world_okb_wf _ _ Hok1) Hnl1 Hnd1) perm) as [e2 [E2 _]].
          rewrite E2 in E. cbv beta iota in E.
          destruct (fs_lstat s1 (wpath pfx p)) as [fi|e3]; [destruct (fi_kind fi)|];
            injection E as _ <-; exact Hfp1'.
  Qed.

  Lemma fpr_mkdirall (w : world) (p : str) (perm : N) :
    quiet w -> swf (Vp pfx w) -> snolinkpar (Vp pfx w) p ->
    fpr pfx (cands p) (a_mkdirall A p perm w) w.
  Proof.
    intros Hq Hwf Hnl.
    pose proof (swf_Vp_world_okb pfx w Hwf) as Hok. pose proof (proj1 Hnl) as Hac.
    rewrite (Vp_ok pfx w Hok) in Hnl. apply (snolinkpar_view pfx _ p Hp Hok Hac) in Hnl.
    rewrite (the_api_mkdirall tag pfx Hp p perm (proj2 Hac)).
    rewrite (spied_fs_upd_fin _ tag (PM MMkdirAll) p [] _ w Hq). unfold fs_mkdirall.
    destruct (fs_mkdirall_aux (S (length (wpath pfx p))) (w_st w) (wpath pfx p) perm) as [r s'] eqn:E.
    unfold fpr, fin; cbn [fst snd].
    exact (fs_mkdirall_aux_fp (S (length (wpath pfx p))) perm (w_st w) p Hok Hac Hnl r s' E).
  Qed.
End MkdirAll.

(* ------------------------------------------------------------------ *)
(** * Operations on handles *)

Section HandleOps.
  Variable tag : fstag.
  Variable pfx : str.
  Hypothesis Hp : prefix_ok pfx.

  (** writing through a handle on [p] changes at most [p] *)
  Lemma fpr_hwrite (x : fhandle) (p : str) (w : world) (data : list N) :
    quiet w -> fh_spy x = Some (tag, p) -> h_key (fh x) = wkey pfx p ->
    fpr pfx [p] (hwrite x data w) w.
  Proof.
    intros Hq Hs Hk.
    destruct (hwrite_quiet_gen tag x p w data Hq Hs) as [[e E] | (m & c & c' & x' & _ & _ & _ & E)];
      rewrite E; unfold fpr; cbn [snd].
    - apply fpo_refl.
    - cbn [after w_st]. rewrite Hk. apply fpo_update; [reflexivity | left; reflexivity].
  Qed.

  (** write, then close *)
  Lemma fpr_write_close (x : fhandle) (p : str) (w : world) (data : list N) :
    quiet w -> fh_spy x = Some (tag, p) -> h_key (fh x) = wkey pfx p ->
    fpr pfx [p] (write_close x data w) w.
  Proof.
    intros Hq Hs Hk. destruct data as [| b d].
    - rewrite write_close_nil, (hclose_quiet tag x p w Hq Hs). apply fpo_refl.
    - rewrite write_close_cons.
      destruct (hwrite_quiet_gen tag x p w (b :: d) Hq Hs) as [[e E] | (m & c & c' & x' & _ & _ & _ & E)]; rewrite E.
      + rewrite (hclose_quiet tag x p _ (proj2 (quiet_after _ _ _ _ _ _ _) Hq) Hs). apply fpo_refl.
      + rewrite (hclose_quiet tag x p _ (proj2 (quiet_after _ _ _ _ _ _ _) Hq) Hs).
        unfold fpr. cbn [snd after w_st]. rewrite Hk. apply fpo_update; [reflexivity | left; reflexivity].
  Qed.

  Lemma fpr_of_st {X} (ps : list str) (m : M X) (w : world) :
    (forall r w', m w = (r, w') -> w_st w' = w_st w) -> fpr pfx ps (m w) w.
  Proof.
    intros H. unfold fpr. destruct (m w) as [r w'] eqn:E. cbn [snd]. apply fpo_same.
    rewrite (H r w' eq_refl). reflexivity.
  Qed.
End HandleOps.
