(** Rules for [safe] / [always] / [silent] / [atomic] of Spec/Always.v:
    the monad combinators, the bookkeeping accessors (which make no primitive
    call), the spy around a primitive call, the operations on handles. *)
From stdpp Require Import gmap.
From BFS Require Import Spec.Always.
From BFS Require Import Proofs.RollbackFacts.

(* ------------------------------------------------------------------ *)
(** * [set_crash] *)

Lemma set_crash_st w c : w_st (set_crash w c) = w_st w. Proof. reflexivity. Qed.
Lemma set_crash_infos w c : w_infos (set_crash w c) = w_infos w. Proof. reflexivity. Qed.
Lemma set_crash_faults w c : w_faults (set_crash w c) = w_faults w. Proof. reflexivity. Qed.
Lemma set_crash_crash w c : w_crash (set_crash w c) = c. Proof. reflexivity. Qed.
Lemma set_crash_ticks w c : w_ticks (set_crash w c) = w_ticks w. Proof. reflexivity. Qed.
Lemma set_crash_trace w c : w_trace (set_crash w c) = w_trace w. Proof. reflexivity. Qed.

Lemma set_crash_twice w c c' : set_crash (set_crash w c) c' = set_crash w c'.
Proof. reflexivity. Qed.

Lemma set_crash_same w : set_crash w (w_crash w) = w.
Proof. destruct w; reflexivity. Qed.

Lemma set_crash_quiet w : quiet w -> set_crash w None = w.
Proof. intros [Hc _]. rewrite <- Hc. apply set_crash_same. Qed.

Lemma set_crash_back w k : quiet w -> set_crash (set_crash w (Some k)) None = w.
Proof. intros Hq. rewrite set_crash_twice. apply set_crash_quiet. exact Hq. Qed.

Lemma set_crash_with_crash w c : set_crash w c = with_crash w c.
Proof. reflexivity. Qed.

Lemma set_crash_with_infos w c i : set_crash (with_infos w i) c = with_infos (set_crash w c) i.
Proof. reflexivity. Qed.

Lemma quiet_with_infos w i : quiet w -> quiet (with_infos w i).
Proof. intros [H1 H2]. split; assumption. Qed.

(* ------------------------------------------------------------------ *)
(** * [safe] *)

Lemma safe_mono {A} (I J : world -> Prop) (m : M A) (w : world) :
  (forall x, I x -> J x) -> safe I m w -> safe J m w.
Proof.
  intros HIJ Hs k r w' Hrun. destruct (Hs k r w' Hrun) as [[Hr HI] | Hag].
  - left. split; [exact Hr | exact (HIJ _ HI)].
  - right. exact Hag.
Qed.

Lemma safe_ret {A} (I : world -> Prop) (a : A) (w : world) : safe I (ret a) w.
Proof.
  intros k r w' Hrun. right. unfold ret in Hrun. injection Hrun as <- <-.
  exists w. split; reflexivity.
Qed.

Lemma safe_fail {A} (I : world -> Prop) (e : errno) (w : world) : safe I (@fail A e) w.
Proof.
  intros k r w' Hrun. right. unfold fail in Hrun. injection Hrun as <- <-.
  exists w. split; reflexivity.
Qed.

(** the general rule for [bind]: the first stage, then - for its result in
    the run without crash point - the continuation *)
Lemma safe_bind {A B} (I : world -> Prop) (m : M A) (f : A -> M B) (w : world) :
  safe I m w ->
  (forall a w1, m w = (MOk a, w1) -> safe I (f a) w1) ->
  safe I (bind m f) w.
Proof.
  intros Hm Hf k r w' Hrun. unfold bind in Hrun.
  destruct (m (set_crash w (Some k))) as [[a | e |] wm] eqn:Hmk.
  - destruct (Hm k _ _ Hmk) as [[Hr _] | (w1 & Hq & ->)]; [discriminate Hr |].
    destruct (Hf a w1 Hq k r w' Hrun) as [Hh | (w2 & Hq2 & ->)]; [left; exact Hh | right].
    exists w2. split; [| reflexivity]. unfold bind. rewrite Hq. exact Hq2.
  - injection Hrun as <- <-.
    destruct (Hm k _ _ Hmk) as [[Hr _] | (w1 & Hq & ->)]; [discriminate Hr | right].
    exists w1. split; [| reflexivity]. unfold bind. rewrite Hq. reflexivity.
  - injection Hrun as <- <-.
    destruct (Hm k _ _ Hmk) as [[_ HI] | (w1 & Hq & ->)].
    + left. split; [reflexivity | exact HI].
    + right. exists w1. split; [| reflexivity]. unfold bind. rewrite Hq. reflexivity.
Qed.

(** pointwise equal computations *)
Lemma safe_ext {A} (I : world -> Prop) (m m' : M A) (w : world) :
  (forall x, m x = m' x) -> safe I m' w -> safe I m w.
Proof.
  intros E H k r w' Hrun. rewrite E in Hrun.
  destruct (H k r w' Hrun) as [Hh | (w1 & Hq & ->)]; [left; exact Hh | right].
  exists w1. split; [rewrite E; exact Hq | reflexivity].
Qed.

(** with the result of the first stage at hand *)
Lemma safe_bind_run {A B} (I : world -> Prop) (m : M A) (f : A -> M B) (w w1 : world) (r : mres A) :
  m w = (r, w1) -> safe I m w ->
  (forall a, r = MOk a -> safe I (f a) w1) ->
  safe I (bind m f) w.
Proof.
  intros Hrun Hm Hf. apply safe_bind; [exact Hm |].
  intros a w1' Hq. rewrite Hrun in Hq. injection Hq as -> <-. apply Hf. reflexivity.
Qed.

Lemma safe_bind_ok {A B} (I : world -> Prop) (m : M A) (f : A -> M B) (w w1 : world) (a : A) :
  m w = (MOk a, w1) -> safe I m w -> safe I (f a) w1 -> safe I (bind m f) w.
Proof.
  intros Hrun Hm Hf. apply (safe_bind_run I m f w w1 (MOk a) Hrun Hm).
  intros a' E. injection E as <-. exact Hf.
Qed.

Lemma safe_bind_err {A B} (I : world -> Prop) (m : M A) (f : A -> M B) (w w1 : world) (e : errno) :
  m w = (MErr e, w1) -> safe I m w -> safe I (bind m f) w.
Proof.
  intros Hrun Hm. apply (safe_bind_run I m f w w1 (MErr e) Hrun Hm).
  intros a' E. discriminate E.
Qed.

Lemma safe_try {A} (I : world -> Prop) (m : M A) (w : world) : safe I m w -> safe I (try_ m) w.
Proof.
  intros Hm k r w' Hrun. unfold try_ in Hrun.
  destruct (m (set_crash w (Some k))) as [[a | e |] wm] eqn:Hmk; injection Hrun as <- <-.
  - destruct (Hm k _ _ Hmk) as [[Hr _] | (w1 & Hq & ->)]; [discriminate Hr | right].
    exists w1. split; [| reflexivity]. unfold try_. rewrite Hq. reflexivity.
  - destruct (Hm k _ _ Hmk) as [[Hr _] | (w1 & Hq & ->)]; [discriminate Hr | right].
    exists w1. split; [| reflexivity]. unfold try_. rewrite Hq. reflexivity.
  - destruct (Hm k _ _ Hmk) as [[_ HI] | (w1 & Hq & ->)].
    + left. split; [reflexivity | exact HI].
    + right. exists w1. split; [| reflexivity]. unfold try_. rewrite Hq. reflexivity.
Qed.

(** one primitive call: [I] has to hold before it *)
Lemma safe_call {A} (I : world -> Prop) (m : M A) (w : world) :
  atomic m -> quiet w -> I w -> safe I m w.
Proof.
  intros Hat Hq HI k r w' Hrun. destruct (Hat w Hq) as (r0 & w0 & Hrun0 & _ & Hk).
  destruct (Hk k) as [Hh | Hag].
  - rewrite Hh in Hrun. injection Hrun as <- <-. left. split; [reflexivity |].
    rewrite (set_crash_back w k Hq). exact HI.
  - rewrite Hag in Hrun. injection Hrun as <- <-. right. exists w0. split; [exact Hrun0 | reflexivity].
Qed.

Lemma atomic_quiet {A} (m : M A) (w w' : world) (r : mres A) :
  atomic m -> quiet w -> m w = (r, w') -> quiet w'.
Proof.
  intros Hat Hq Hrun. destruct (Hat w Hq) as (r0 & w0 & Hrun0 & Hq0 & _).
  rewrite Hrun in Hrun0. injection Hrun0 as _ <-. exact Hq0.
Qed.

(** from [safe] to [always] *)
Lemma safe_always {A} (I J : world -> Prop) (m : M A) (w : world) :
  safe I m w -> (forall w1, m w <> (MHalt, w1)) ->
  (forall x, I (set_crash x None) -> J x) -> always J m w.
Proof.
  intros Hs Hnh HIJ k wh Hrun. destruct (Hs k _ _ Hrun) as [[_ HI] | (w1 & Hq & _)].
  - exact (HIJ wh HI).
  - contradiction (Hnh w1).
Qed.

(* ------------------------------------------------------------------ *)
(** * [silent] *)

Lemma silent_safe {A} (I : world -> Prop) (m : M A) (w : world) : silent m -> safe I m w.
Proof.
  intros Hs k r w' Hrun. destruct (Hs w (Some k)) as (r0 & w0 & Hrun0 & _ & Hc).
  rewrite Hc in Hrun. injection Hrun as <- <-. right. exists w0. split; [exact Hrun0 | reflexivity].
Qed.

Lemma silent_ret {A} (a : A) : silent (ret a).
Proof. intros w c. exists (MOk a), w. repeat split. discriminate. Qed.

Lemma silent_fail {A} (e : errno) : silent (@fail A e).
Proof. intros w c. exists (MErr e), w. repeat split. discriminate. Qed.

Lemma silent_bind {A B} (m : M A) (f : A -> M B) :
  silent m -> (forall a, silent (f a)) -> silent (bind m f).
Proof.
  intros Hm Hf w c. destruct (Hm w c) as (r & w1 & Hrun & Hnh & Hc).
  destruct r as [a | e |]; [| | contradiction Hnh; reflexivity].
  - destruct (Hf a w1 c) as (r2 & w2 & Hrun2 & Hnh2 & Hc2).
    exists r2, w2. unfold bind. rewrite Hrun, Hc. split; [exact Hrun2 | split; [exact Hnh2 | exact Hc2]].
  - exists (MErr e), w1. unfold bind. rewrite Hrun, Hc. repeat split. discriminate.
Qed.

Lemma silent_try {A} (m : M A) : silent m -> silent (try_ m).
Proof.
  intros Hm w c. destruct (Hm w c) as (r & w1 & Hrun & Hnh & Hc).
  destruct r as [a | e |]; [| | contradiction Hnh; reflexivity].
  - exists (MOk (Ok a)), w1. unfold try_. rewrite Hrun, Hc. repeat split. discriminate.
  - exists (MOk (Err e)), w1. unfold try_. rewrite Hrun, Hc. repeat split. discriminate.
Qed.

Lemma silent_lift_res {A} (r : res A) : silent (lift_res r).
Proof. destruct r; [apply silent_ret | apply silent_fail]. Qed.

Lemma silent_get_infos : silent get_infos.
Proof. intros w c. exists (MOk (w_infos w)), w. repeat split. discriminate. Qed.

Lemma silent_put_infos (i : infomap) : silent (put_infos i).
Proof. intros w c. eexists (MOk tt), _. split; [reflexivity |]. split; [discriminate | reflexivity]. Qed.

Lemma silent_set_info_if_new (p : str) (fi : option finfo) : silent (set_info_if_new p fi).
Proof.
  unfold set_info_if_new. apply silent_bind; [apply silent_get_infos |].
  intros i. destruct (i !! p); [apply silent_ret | apply silent_put_infos].
Qed.

Lemma silent_already_seen (p : str) : silent (already_seen p).
Proof.
  unfold already_seen. apply silent_bind; [apply silent_get_infos | intros i; apply silent_ret].
Qed.

Lemma silent_delete_info (p : str) : silent (delete_info p).
Proof.
  unfold delete_info. apply silent_bind; [apply silent_get_infos | intros i; apply silent_put_infos].
Qed.

(** a first stage followed by a continuation that makes no call *)
Lemma safe_bind_silent {A B} (I : world -> Prop) (m : M A) (f : A -> M B) (w : world) :
  safe I m w -> (forall a, silent (f a)) -> safe I (bind m f) w.
Proof.
  intros Hm Hf. apply safe_bind; [exact Hm |]. intros a w1 _. apply silent_safe. apply Hf.
Qed.

(** a silent first stage *)
Lemma safe_silent_bind {A B} (I : world -> Prop) (m : M A) (f : A -> M B) (w : world) :
  silent m -> (forall a w1, m w = (MOk a, w1) -> safe I (f a) w1) -> safe I (bind m f) w.
Proof. intros Hm Hf. apply safe_bind; [apply silent_safe; exact Hm | exact Hf]. Qed.

(* ------------------------------------------------------------------ *)
(** * The wrappers of fs_utils.go *)

Section Wrappers.
  Variable I : world -> Prop.

  Lemma safe_ignore_permission (m : M unit) (w : world) :
    safe I m w -> safe I (ignore_permission m) w.
  Proof.
    intros Hm. unfold ignore_permission. apply safe_bind_silent; [apply safe_try; exact Hm |].
    intros [x | e]; [apply silent_ret |]. destruct (is_permission e); [apply silent_ret | apply silent_fail].
  Qed.

  Lemma safe_wrap_other (m : M unit) (w : world) : safe I m w -> safe I (wrap_other m) w.
  Proof.
    intros Hm. unfold wrap_other. apply safe_bind_silent; [apply safe_try; exact Hm |].
    intros [x | e]; [apply silent_ret | apply silent_fail].
  Qed.

  (** a conditional call *)
  Lemma safe_if_call (b : bool) (m : M unit) (w : world) :
    atomic m -> quiet w -> I w -> safe I (if b then m else ret tt) w.
  Proof. intros Hat Hq HI. destruct b; [apply safe_call; assumption | apply safe_ret]. Qed.
End Wrappers.

(* ------------------------------------------------------------------ *)
(** * The spy around a primitive call *)

(** the wrapped operation does not halt by itself, does not count, and does
    not look at the crash point (nor at the fault plan) *)
Definition plainop {A} (op : M A) : Prop :=
  forall w r w', op w = (r, w') ->
    r <> MHalt /\ w_ticks w' = w_ticks w /\
    w_faults w' = w_faults w /\ forall c, op (set_crash w c) = (r, set_crash w' c).

Lemma plainop_indep {A} (op : M A) (w w' : world) (r : mres A) :
  plainop op -> op w = (r, w') -> forall c, op (set_crash w c) = (r, set_crash w' c).
Proof. intros Hp Hrun. exact (proj2 (proj2 (proj2 (Hp w r w' Hrun)))). Qed.

Lemma plainop_crash {A} (op : M A) (w w' : world) (r : mres A) :
  plainop op -> op w = (r, w') -> w_crash w' = w_crash w.
Proof.
  intros Hp Hrun. pose proof (plainop_indep op w w' r Hp Hrun (w_crash w)) as Hc.
  rewrite set_crash_same in Hc. rewrite Hrun in Hc. injection Hc as Hc.
  rewrite Hc at 1. reflexivity.
Qed.

Lemma plainop_ret {A} (a : A) : plainop (ret a).
Proof.
  intros w r w' Hrun. unfold ret in Hrun. injection Hrun as <- <-.
  split; [discriminate | repeat split].
Qed.

Lemma plainop_fail {A} (e : errno) : plainop (@fail A e).
Proof.
  intros w r w' Hrun. unfold fail in Hrun. injection Hrun as <- <-.
  split; [discriminate | repeat split].
Qed.

Lemma plainop_bind {A B} (m : M A) (f : A -> M B) : plainop m -> (forall a, plainop (f a)) -> plainop (bind m f).
Proof.
  intros Hm Hf w r w' Hrun. unfold bind in Hrun |- *.
  destruct (m w) as [[a | e |] w1] eqn:Hmw; destruct (Hm w _ w1 Hmw) as (Hn1 & Ht1 & Hf1 & Hc1).
  - destruct (Hf a w1 r w' Hrun) as (Hn2 & Ht2 & Hf2 & Hc2).
    split; [exact Hn2 | split; [congruence | split; [congruence |]]].
    intros c. rewrite Hc1. apply Hc2.
  - injection Hrun as <- <-. split; [discriminate | split; [exact Ht1 | split; [exact Hf1 |]]].
    intros c. rewrite Hc1. reflexivity.
  - contradiction Hn1. reflexivity.
Qed.

Lemma plainop_try {A} (m : M A) : plainop m -> plainop (try_ m).
Proof.
  intros Hm w r w' Hrun. unfold try_ in Hrun |- *.
  destruct (m w) as [[a | e |] w1] eqn:Hmw; destruct (Hm w _ w1 Hmw) as (Hn1 & Ht1 & Hf1 & Hc1);
    [| | contradiction Hn1; reflexivity];
    injection Hrun as <- <-; (split; [discriminate | split; [exact Ht1 | split; [exact Hf1 |]]]);
    intros c; rewrite Hc1; reflexivity.
Qed.

Lemma plainop_lift_res {A} (r : res A) : plainop (lift_res r).
Proof. destruct r; [apply plainop_ret | apply plainop_fail]. Qed.

Lemma plainop_fs_get {A} (f : fstate -> res A) : plainop (fs_get f).
Proof.
  intros w r w' Hrun. unfold fs_get in *.
  destruct (f (w_st w)) eqn:Ef; cbn in Hrun; injection Hrun as <- <-;
    (split; [discriminate | split; [reflexivity | split; [reflexivity |]]]);
    intros c; cbn [w_st set_crash]; rewrite Ef; reflexivity.
Qed.

Lemma plainop_fs_upd {A} (f : fstate -> res A * fstate) : plainop (fs_upd f).
Proof.
  intros w r w' Hrun. unfold fs_upd in *.
  destruct (f (w_st w)) as [[a | e] s'] eqn:Ef; cbn in Hrun; injection Hrun as <- <-;
    (split; [discriminate | split; [reflexivity | split; [reflexivity |]]]);
    intros c; cbn [w_st set_crash]; rewrite Ef; reflexivity.
Qed.

Lemma plainop_quiet {A} (op : M A) (w w' : world) (r : mres A) :
  plainop op -> quiet w -> op w = (r, w') -> quiet w'.
Proof.
  intros Hp [Hc Hf] Hrun. split.
  - rewrite (plainop_crash op w w' r Hp Hrun). exact Hc.
  - rewrite (proj1 (proj2 (proj2 (Hp w r w' Hrun)))). exact Hf.
Qed.

(** a plainop operation without spy: no crash point at all *)
Lemma plainop_atomic {A} (op : M A) : plainop op -> atomic op.
Proof.
  intros Hp w Hq. destruct (op w) as [r w'] eqn:Hrun. exists r, w'.
  split; [reflexivity |]. split; [exact (plainop_quiet op w w' r Hp Hq Hrun) |].
  intros k. right. exact (plainop_indep op w w' r Hp Hrun (Some k)).
Qed.

Definition tick (w : world) : world :=
  mkWorld (w_st w) (w_trace w) (N.succ (w_ticks w)) (w_crash w) (w_faults w) (w_infos w).

Lemma faulted_quiet (w : world) t m p : w_faults w = [] -> faulted w t m p = false.
Proof. intros H. unfold faulted. rewrite H. reflexivity. Qed.

Lemma spied_quiet_run {A} t pm p p2 (op : M A) (w : world) :
  quiet w ->
  spied t pm p p2 op w =
  match op (tick w) with
  | (MOk a, w2) => (MOk a, record (mkTcall t pm p p2 None) w2)
  | (MErr e, w2) => (MErr e, record (mkTcall t pm p p2 (Some e)) w2)
  | (MHalt, w2) => (MHalt, w2)
  end.
Proof.
  intros [Hc Hf]. unfold spied, tick. rewrite Hc.
  rewrite faulted_quiet by exact Hf. reflexivity.
Qed.

Lemma spied_crash_run {A} t pm p p2 (op : M A) (w : world) (k : N) :
  quiet w ->
  spied t pm p p2 op (set_crash w (Some k)) =
  if N.leb k (w_ticks w) then (MHalt, set_crash w (Some k))
  else match op (set_crash (tick w) (Some k)) with
       | (MOk a, w2) => (MOk a, record (mkTcall t pm p p2 None) w2)
       | (MErr e, w2) => (MErr e, record (mkTcall t pm p p2 (Some e)) w2)
       | (MHalt, w2) => (MHalt, w2)
       end.
Proof.
  intros [Hc Hf]. unfold spied, tick, set_crash. cbn [w_crash w_ticks w_st w_trace w_faults w_infos].
  destruct (N.leb k (w_ticks w)); [reflexivity |].
  rewrite faulted_quiet by exact Hf. reflexivity.
Qed.

Lemma spied_atomic {A} t pm p p2 (op : M A) : plainop op -> atomic (spied t pm p p2 op).
Proof.
  intros Hp w Hq. rewrite (spied_quiet_run t pm p p2 op w Hq).
  assert (Hqt : quiet (tick w)) by (destruct Hq as [H1 H2]; split; assumption).
  destruct (op (tick w)) as [r w2] eqn:Hrun.
  pose proof (plainop_quiet op _ _ _ Hp Hqt Hrun) as Hq2.
  pose proof (plainop_indep op _ _ _ Hp Hrun) as Hc.
  destruct r as [a | e |].
  - eexists _, _. split; [reflexivity |]. split; [destruct Hq2 as [H1 H2]; split; assumption |].
    intros k. rewrite (spied_crash_run t pm p p2 op w k Hq).
    destruct (N.leb k (w_ticks w)); [left; reflexivity | right]. rewrite Hc. reflexivity.
  - eexists _, _. split; [reflexivity |]. split; [destruct Hq2 as [H1 H2]; split; assumption |].
    intros k. rewrite (spied_crash_run t pm p p2 op w k Hq).
    destruct (N.leb k (w_ticks w)); [left; reflexivity | right]. rewrite Hc. reflexivity.
  - eexists _, _. split; [reflexivity |]. split; [exact Hq2 |].
    intros k. rewrite (spied_crash_run t pm p p2 op w k Hq).
    destruct (N.leb k (w_ticks w)); [left; reflexivity | right]. rewrite Hc. reflexivity.
Qed.

(** the tick-faithful form *)
Lemma spied_uniform {A} t pm p p2 (op : M A) : plainop op -> uniform (spied t pm p p2 op).
Proof.
  intros Hp w k Hq. rewrite (spied_crash_run t pm p p2 op w k Hq). split.
  - intros ->. reflexivity.
  - intros -> r w' Hrun. rewrite (spied_quiet_run t pm p p2 op w Hq) in Hrun.
    destruct (op (tick w)) as [r2 w2] eqn:Hop. destruct (Hp _ _ _ Hop) as (Hnh & Ht & _ & Hc). rewrite Hc.
    destruct r2 as [a | e |]; [| | contradiction Hnh; reflexivity];
      injection Hrun as <- <-; (split; [reflexivity |]); cbn; exact Ht.
Qed.

(* ------------------------------------------------------------------ *)
(** * Operations on handles *)

Lemma spy_h_atomic {A} (h : fhandle) (pm : pmeth) (op : M A) : plainop op -> atomic (spy_h h pm op).
Proof.
  intros Hp. unfold spy_h. destruct (fh_spy h) as [[t p]|];
    [apply spied_atomic; exact Hp | apply plainop_atomic; exact Hp].
Qed.

Lemma plainop_hread_op (h : fhandle) :
  plainop (fun w => let '(r, h') := fs_read (w_st w) (fh h) in
                  match r with
                  | Ok d => (MOk (d, set_fh h h'), w)
                  | Err e => (MErr e, w)
                  end).
Proof.
  intros w r w' Hrun. cbv beta in *.
  destruct (fs_read (w_st w) (fh h)) as [[d | e] h'] eqn:Ef; injection Hrun as <- <-;
    (split; [discriminate | split; [reflexivity | split; [reflexivity |]]]);
    intros c; cbn [w_st set_crash]; rewrite Ef; reflexivity.
Qed.

Lemma plainop_hwrite_op (h : fhandle) (data : list N) :
  plainop (fun w => let '(r, (s', h')) := fs_write (w_st w) (fh h) data in
                  match r with
                  | Ok _ => (MOk (set_fh h h'), mkWorld s' (w_trace w) (w_ticks w) (w_crash w) (w_faults w) (w_infos w))
                  | Err e => (MErr e, w)
                  end).
Proof.
  intros w r w' Hrun. cbv beta in *.
  destruct (fs_write (w_st w) (fh h) data) as [[x | e] [s' h']] eqn:Ef; injection Hrun as <- <-;
    (split; [discriminate | split; [reflexivity | split; [reflexivity |]]]);
    intros c; cbn [w_st set_crash]; rewrite Ef; reflexivity.
Qed.

Lemma plainop_hreaddirnames_op (h : fhandle) :
  plainop (names <- fs_get (fun s => fs_readdirnames s (fh h)) ;;
         match fh_hidden h with
         | None => ret names
         | Some (dirp, hs) =>
             match fst (hidden_list dirp hs (-1) names) with
             | LOk l | LEof l => ret l
             | LErr => fail (ELayer EHiddenCheck)
             end
         end).
Proof.
  apply plainop_bind; [apply plainop_fs_get |]. intros names.
  destruct (fh_hidden h) as [[dirp hs]|]; [| apply plainop_ret].
  destruct (fst (hidden_list dirp hs (-1) names)); [apply plainop_ret | apply plainop_ret | apply plainop_fail].
Qed.

Lemma atomic_hread (h : fhandle) : atomic (hread h).
Proof. unfold hread. apply spy_h_atomic. apply plainop_hread_op. Qed.

Lemma atomic_hwrite (h : fhandle) (data : list N) : atomic (hwrite h data).
Proof. unfold hwrite. apply spy_h_atomic. apply plainop_hwrite_op. Qed.

Lemma atomic_hclose (h : fhandle) : atomic (hclose h).
Proof. unfold hclose. apply spy_h_atomic. apply plainop_ret. Qed.

Lemma atomic_hstat (h : fhandle) : atomic (hstat h).
Proof. unfold hstat. apply spy_h_atomic. apply plainop_fs_get. Qed.

Lemma atomic_hreaddirnames (h : fhandle) : atomic (hreaddirnames h).
Proof. unfold hreaddirnames. apply spy_h_atomic. apply plainop_hreaddirnames_op. Qed.

(** [spied] around an operation that leaves the filesystem state alone does so too *)
Lemma spied_st {A} t pm p p2 (op : M A) :
  (forall w r w', op w = (r, w') -> w_st w' = w_st w) ->
  forall w r w', spied t pm p p2 op w = (r, w') -> w_st w' = w_st w.
Proof.
  intros Hop w r w' Hrun. unfold spied in Hrun.
  set (w1 := mkWorld (w_st w) (w_trace w) (N.succ (w_ticks w)) (w_crash w) (w_faults w) (w_infos w)) in *.
  assert (Hbody : forall r w',
            (if faulted w1 t pm p then (MErr EIO, record (mkTcall t pm p p2 (Some EIO)) w1)
             else match op w1 with
                  | (MOk a, w2) => (MOk a, record (mkTcall t pm p p2 None) w2)
                  | (MErr e, w2) => (MErr e, record (mkTcall t pm p p2 (Some e)) w2)
                  | (MHalt, w2) => (MHalt, w2)
                  end) = (r, w') -> w_st w' = w_st w).
  { intros r0 w0 H. destruct (faulted w1 t pm p).
    - injection H as <- <-. reflexivity.
    - destruct (op w1) as [[a | e |] w2] eqn:Hop1; injection H as <- <-;
        exact (Hop _ _ _ Hop1). }
  destruct (w_crash w) as [k|].
  - destruct (N.leb k (w_ticks w)); [injection Hrun as <- <-; reflexivity | exact (Hbody _ _ Hrun)].
  - exact (Hbody _ _ Hrun).
Qed.

Lemma spy_h_st {A} (h : fhandle) (pm : pmeth) (op : M A) :
  (forall w r w', op w = (r, w') -> w_st w' = w_st w) ->
  forall w r w', spy_h h pm op w = (r, w') -> w_st w' = w_st w.
Proof.
  intros Hop. unfold spy_h. destruct (fh_spy h) as [[t p]|]; [apply spied_st; exact Hop | exact Hop].
Qed.

Lemma hread_st (h : fhandle) w r w' : hread h w = (r, w') -> w_st w' = w_st w.
Proof.
  unfold hread. apply spy_h_st. clear. intros w r w' Hrun. cbv beta in Hrun.
  destruct (fs_read (w_st w) (fh h)) as [[d | e] h']; injection Hrun as <- <-; reflexivity.
Qed.

Lemma hclose_st (h : fhandle) w r w' : hclose h w = (r, w') -> w_st w' = w_st w.
Proof.
  unfold hclose. apply spy_h_st. clear. intros w r w' Hrun. injection Hrun as <- <-. reflexivity.
Qed.

Lemma hstat_st (h : fhandle) w r w' : hstat h w = (r, w') -> w_st w' = w_st w.
Proof.
  unfold hstat. apply spy_h_st. clear. intros w r w' Hrun. unfold fs_get, lift_res, ret, fail in Hrun.
  destruct (fs_hstat (w_st w) (fh h)); injection Hrun as <- <-; reflexivity.
Qed.

Lemma hreaddirnames_st (h : fhandle) w r w' : hreaddirnames h w = (r, w') -> w_st w' = w_st w.
Proof.
  unfold hreaddirnames. apply spy_h_st. clear. intros w r w' Hrun.
  unfold bind, fs_get, lift_res, ret, fail in Hrun.
  destruct (fs_readdirnames (w_st w) (fh h)) as [names | e].
  - destruct (fh_hidden h) as [[dirp hs]|].
    + destruct (fst (hidden_list dirp hs (-1) names)); injection Hrun as <- <-; reflexivity.
    + injection Hrun as <- <-. reflexivity.
  - injection Hrun as <- <-. reflexivity.
Qed.

(* ------------------------------------------------------------------ *)
(** * Loops *)

Lemma safe_miter_silent {A} (I : world -> Prop) (f : A -> M unit) (l : list A) (w : world) :
  (forall x, silent (f x)) -> safe I (miter f l) w.
Proof.
  intros Hf. apply silent_safe. induction l as [|x r IH]; [apply silent_ret |].
  cbn [miter]. apply silent_bind; [apply Hf | intros _; exact IH].
Qed.

(** the handle operations on a spied handle count *)
Lemma spy_h_uniform {A} (h : fhandle) (pm : pmeth) (op : M A) :
  fh_spy h <> None -> plainop op -> uniform (spy_h h pm op).
Proof.
  intros Hs Hp. unfold spy_h. destruct (fh_spy h) as [[t p]|]; [| contradiction Hs; reflexivity].
  apply spied_uniform. exact Hp.
Qed.

Lemma uniform_hread (h : fhandle) : fh_spy h <> None -> uniform (hread h).
Proof. intros Hs. unfold hread. apply spy_h_uniform; [exact Hs | apply plainop_hread_op]. Qed.
Lemma uniform_hwrite (h : fhandle) (data : list N) : fh_spy h <> None -> uniform (hwrite h data).
Proof. intros Hs. unfold hwrite. apply spy_h_uniform; [exact Hs | apply plainop_hwrite_op]. Qed.
Lemma uniform_hclose (h : fhandle) : fh_spy h <> None -> uniform (hclose h).
Proof. intros Hs. unfold hclose. apply spy_h_uniform; [exact Hs | apply plainop_ret]. Qed.
Lemma uniform_hstat (h : fhandle) : fh_spy h <> None -> uniform (hstat h).
Proof. intros Hs. unfold hstat. apply spy_h_uniform; [exact Hs | apply plainop_fs_get]. Qed.
Lemma uniform_hreaddirnames (h : fhandle) : fh_spy h <> None -> uniform (hreaddirnames h).
Proof. intros Hs. unfold hreaddirnames. apply spy_h_uniform; [exact Hs | apply plainop_hreaddirnames_op]. Qed.
