(** Non-vacuity of the closed fault theorems of Proofs/LawsOsfsFault.v, on
    the instance of Proofs/ConcreteExample.v (base = PrefixFS("/base"), backup
    = PrefixFS("/backup"), nine operations of eight kinds) with single-fault
    plans: the hypotheses are discharged by reflection and computation, the
    conclusions are obtained by *applying the theorems* and cross-checked by
    *running the model*.

    - [f1]: the first OpenFile on "/f" of the backup filesystem is refused
      (while Chmod("/f") takes its backup): Chmod returns an error, "/f" keeps
      its mode, the partial copy is removed again; the rest of the history
      runs; Rollback returns nil and restores.
    - [f2]: the Chmod call on the base itself is refused.
    - [f3]: a call is refused during Rollback: Rollback reports
      ErrRollbackFailed. *)
From stdpp Require Import gmap.
From BFS Require Import Spec.Faults Spec.ViewOsfs Spec.CopySpecs.
From BFS Require Import Proofs.LawsOsfsBase Proofs.LawsOsfs Proofs.ConcreteExample.
From BFS Require Import Proofs.FaultLib Proofs.FaultTry Proofs.FaultRollback Proofs.LawsOsfsFault.
Open Scope N_scope.

Definition f1 : fault := mkFault TBackup (PM MOpenFile) [47;102] 0.
Definition wf1 : world := with_faults w0 [f1].

Lemma wf1_initialF : initialF (Vp pa) (Vp pb) clean clean (acc_p pa) (acc_p pb) B0 wf1.
Proof.
  split; [reflexivity | split; [unfold single; simpl; lia |]].
  replace (unfault wf1) with w0 by (vm_compute; reflexivity). exact w0_initial.
Qed.

Definition wf1' : world := snd (run_history (gcfg pa pb) ops wf1).

Lemma ops_run_ok_f1 : run_okb cbase cbackup (Vp pa) ops wf1 = true.
Proof. vm_compute. reflexivity. Qed.

Lemma ops_no_halt_f1 : forallb not_haltb (fst (run_history (gcfg pa pb) ops wf1)) = true.
Proof. vm_compute. reflexivity. Qed.

Lemma ops_good_run_f1 : good_run cbase cbackup (Vp pa) wf1 ops wf1'.
Proof. exact (good_run_history_reflect (gcfg pa pb) (Vp pa) ops wf1 ops_run_ok_f1 ops_no_halt_f1). Qed.

(** by the theorem: the invariant survived, originals are recoverable, and
    Rollback returns nil only if it restored; the plan being spent, it does *)
Example run_fault_concrete_instance :
  InvF (Vp pa) (Vp pb) B0 wf1' /\ recoverable (Vp pa) (Vp pb) B0 wf1' /\
  exists r w', b_rollback cbase cbackup wf1' = (r, w') /\ r <> MHalt /\
    (r = MOk tt -> store_eqv (Vp pa w') B0 /\ (forall p, p <> s_root -> Vp pb w' !! p = None) /\
                   w_infos w' = ∅) /\
    (spent wf1' -> r = MOk tt).
Proof.
  exact (run_fault_concrete pa pb pa_ok pb_ok pab_disjoint B0 B0_small wf1 ops wf1'
           wf1_initialF ops_good_run_f1).
Qed.

(** by running the model: Chmod failed, everything else returned nil *)
Example f1_results :
  fst (run_history (gcfg pa pb) ops wf1) = MErr EOther :: repeat (MOk ObUnit) 8.
Proof. vm_compute. reflexivity. Qed.

(** ... the failed Chmod left the base view exactly as it was, nothing of
    "/f" in the backup view, and the plan spent *)
Example f1_first_step :
  let w1 := snd (step cbase cbackup (OChmod [47;102] 384) wf1) in
  Vp pa w1 = Vp pa wf1 /\ Vp pb w1 !! [47;102] = None /\
  w_infos w1 !! [47;102] = None.
Proof. vm_compute. repeat split; reflexivity. Qed.

Lemma f1_spent : spent wf1'.
Proof.
  unfold spent. replace (w_faults wf1') with [f1] by (vm_compute; reflexivity).
  constructor; [| constructor]. unfold fault_spent. vm_compute. reflexivity.
Qed.

(** ... and Rollback returns nil *)
Example f1_rollback_nil : fst (b_rollback cbase cbackup wf1') = MOk tt.
Proof. vm_compute. reflexivity. Qed.

(** a refused call on the base: Chmod fails, its backup was taken *)
Definition f2 : fault := mkFault TBase (PM MChmod) [47;102] 0.
Definition wf2 : world := with_faults w0 [f2].

Example f2_first_step :
  let '(r, w1) := step cbase cbackup (OChmod [47;102] 384) wf2 in
  r = MErr EIO /\ Vp pa w1 = Vp pa wf2 /\ w_infos w1 !! [47;102] <> None /\
  Vp pb w1 !! [47;102] = Vp pa wf2 !! [47;102].
Proof. vm_compute. repeat split; try reflexivity. discriminate. Qed.

(** a refused call during Rollback (the first Remove on the base): not nil *)
Definition f3 : fault := mkFault TBase (PM MRemove) [47;108;50] 0.

Example f3_rollback_fails :
  fst (b_rollback cbase cbackup (with_faults w [f3])) = MErr ERollback.
Proof. vm_compute. reflexivity. Qed.

Print Assumptions run_fault_concrete_instance.
