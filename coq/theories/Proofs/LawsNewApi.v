(** The methods of the base filesystem of the layering of [New]/[NewWithFS],
    [hid_api0 tag h = spy tag (hiddenfs [h] osfs)] (Spec/ViewRoot.v: HiddenFS
    directly over the OS filesystem, no PrefixFS), against those of
    [spy tag osfs]: the counterpart of Section HidApi of
    Proofs/LawsHiddenApi.v. *)
From stdpp Require Import gmap.
From BFS Require Import Spec.CopySpecs Spec.ViewOsfs Spec.ViewHidden Spec.ViewRoot.
From BFS Require Import Proofs.LawsOsfsBase Proofs.HiddenFacts Proofs.SealedFacts.
From BFS Require Import Proofs.LawsHiddenBase Proofs.LawsHiddenApi.
Local Open Scope nat_scope.

Section NewApi.
  Variable tag : fstag.
  Variable h : str.
  Hypothesis Hh : hidden_ok h.

  Notation AH := (hid_api0 tag h).
  Notation TA := (spy tag osfs).
  Notation B := osfs.
  Notation mk := (fun p => mark p [h]).

  Lemma hid_api0_eq : AH = spy tag (layered (hidden_layer [h]) B).
  Proof. unfold hid_api0. rewrite (hiddenfs_single h B (proj1 (proj1 Hh))). reflexivity. Qed.

  Ltac spy_unfold :=
    rewrite hid_api0_eq;
    cbn [spy a_lstat a_stat a_readlink a_open a_openfile a_create a_mkdir a_mkdirall a_remove
         a_removeall a_rename a_chmod a_chown a_lchown a_chtimes a_symlink].

  Section ShownName.
    Variable p : str.
    Hypothesis Hac : abs_cleaned p.
    Hypothesis Hs : shownb h p = true.

    Let Hish : is_hidden p [h] = Some false.
    Proof. rewrite (is_hidden_ac h Hh p Hac), Hs. reflexivity. Qed.

    Lemma NH_lstat w : a_lstat AH p w = a_lstat TA p w.
    Proof. spy_unfold. apply spied_ext. apply sh_lstat. exact Hish. Qed.
    Lemma NH_stat w : a_stat AH p w = a_stat TA p w.
    Proof. spy_unfold. apply spied_ext. apply sh_stat. exact Hish. Qed.
    Lemma NH_readlink w : a_readlink AH p w = a_readlink TA p w.
    Proof. spy_unfold. apply spied_ext. apply sh_readlink. exact Hish. Qed.
    Lemma NH_mkdir perm w : a_mkdir AH p perm w = a_mkdir TA p perm w.
    Proof. spy_unfold. apply spied_ext. apply sh_mkdir. exact Hish. Qed.
    Lemma NH_mkdirall perm w : a_mkdirall AH p perm w = a_mkdirall TA p perm w.
    Proof. spy_unfold. apply spied_ext. apply sh_mkdirall. exact Hish. Qed.
    Lemma NH_remove w : a_remove AH p w = a_remove TA p w.
    Proof. spy_unfold. apply spied_ext. apply sh_remove. exact Hish. Qed.
    Lemma NH_chmod m w : a_chmod AH p m w = a_chmod TA p m w.
    Proof. spy_unfold. apply spied_ext. apply sh_chmod. exact Hish. Qed.
    Lemma NH_chown u g w : a_chown AH p u g w = a_chown TA p u g w.
    Proof. spy_unfold. apply spied_ext. apply sh_chown. exact Hish. Qed.
    Lemma NH_lchown u g w : a_lchown AH p u g w = a_lchown TA p u g w.
    Proof. spy_unfold. apply spied_ext. apply sh_lchown. exact Hish. Qed.
    Lemma NH_chtimes t w : a_chtimes AH p t w = a_chtimes TA p t w.
    Proof. spy_unfold. apply spied_ext. apply sh_chtimes. exact Hish. Qed.

    (** the handle-returning methods: the handle of [the_api], marked *)
    Lemma mark_spy_handle0 x : spy_handle tag p (mark p [h] x) = mark p [h] (spy_handle tag p x).
    Proof. reflexivity. Qed.

    Lemma NH_handle_gen (pm : pmeth) (op1 op2 : M fhandle) :
      meq op1 (x <- op2 ;; ret (mark p [h] x)) ->
      forall w, spied tag pm p [] (x <- op1 ;; ret (spy_handle tag p x)) w =
                map_fst (mres_map (mark p [h])) (spied tag pm p [] (x <- op2 ;; ret (spy_handle tag p x)) w).
    Proof.
      intros Hop w.
      rewrite (spied_map tag pm p [] op2 (spy_handle tag p) w).
      assert (E : meq (x <- op1 ;; ret (spy_handle tag p x))
                      (x <- op2 ;; ret (mark p [h] (spy_handle tag p x)))).
      { intros w1. unfold bind. rewrite (Hop w1). unfold bind, ret.
        destruct (op2 w1) as [[a | e |] w2]; reflexivity. }
      rewrite (spied_ext tag pm p [] _ _ E w).
      rewrite (spied_map tag pm p [] op2 (fun x => mark p [h] (spy_handle tag p x)) w).
      unfold map_fst. cbn [fst snd]. destruct (spied tag pm p [] op2 w) as [[a | e |] w2]; reflexivity.
    Qed.

    Lemma NH_open w : a_open AH p w = map_fst (mres_map (mark p [h])) (a_open TA p w).
    Proof.
      spy_unfold. apply NH_handle_gen. intros w1. rewrite (sh_open [h] B p Hish w1).
      reflexivity.
    Qed.
    Lemma NH_openfile fl perm w :
      a_openfile AH p fl perm w = map_fst (mres_map (mark p [h])) (a_openfile TA p fl perm w).
    Proof. spy_unfold. apply NH_handle_gen. apply sh_openfile. exact Hish. Qed.
    Lemma NH_create w : a_create AH p w = map_fst (mres_map (mark p [h])) (a_create TA p w).
    Proof.
      spy_unfold. apply NH_handle_gen. intros w1. rewrite (sh_create [h] B p Hish w1).
      reflexivity.
    Qed.

    Lemma NH_symlink t w :
      is_hidden (to_abs_symlink t p) [h] = Some false -> a_symlink AH t p w = a_symlink TA t p w.
    Proof. intros Ht. spy_unfold. apply spied_ext. apply sh_symlink; [exact Ht | exact Hish]. Qed.

    Lemma NH_rename_shown pn w :
      abs_cleaned pn -> shownb h pn = true -> ~ anc_h h p -> a_rename AH p pn w = a_rename TA p pn w.
    Proof.
      intros Hacn Hsn Hna. spy_unfold. apply spied_ext. apply sh_rename.
      - exact Hish.
      - rewrite (is_hidden_ac h Hh pn Hacn), Hsn. reflexivity.
      - exact (is_parent_not_anc h Hh p Hac Hna).
    Qed.

    Lemma NH_rename_anc pn w :
      abs_cleaned pn -> shownb h pn = true -> anc_h h p ->
      a_rename AH p pn w = spied tag (PM MRename) p pn (hfail EHiddenPerm) w.
    Proof.
      intros Hacn Hsn Han. spy_unfold. apply spied_ext. apply anc_rename.
      - exact Hish.
      - rewrite (is_hidden_ac h Hh pn Hacn), Hsn. reflexivity.
      - exact (is_parent_anc h Hh p Hac Han).
    Qed.

    Lemma NH_removeall w :
      a_removeall AH p w =
      spied tag (PM MRemoveAll) p []
        (hidden_removeall [h] B (layered_with (hidden_layer [h]) B null_api) p) w.
    Proof. spy_unfold. apply spied_ext. apply sh_removeall. exact Hish. Qed.
  End ShownName.

  (** ** names at or below the location *)
  Section HiddenName.
    Variable p : str.
    Hypothesis Hac : abs_cleaned p.
    Hypothesis Hs : shownb h p = false.

    Let Hhid : hid [h] p.
    Proof. unfold hid. rewrite (is_hidden_ac h Hh p Hac), Hs. reflexivity. Qed.

    Lemma NH_lstat_hid w : a_lstat AH p w = spied tag (PM MLstat) p [] (hfail EHiddenNotExist) w.
    Proof. spy_unfold. apply spied_ext. apply hid_lstat. exact Hhid. Qed.
    Lemma NH_stat_hid w : a_stat AH p w = spied tag (PM MStat) p [] (hfail EHiddenNotExist) w.
    Proof. spy_unfold. apply spied_ext. apply hid_stat. exact Hhid. Qed.
    Lemma NH_readlink_hid w : a_readlink AH p w = spied tag (PM MReadlink) p [] (hfail EHiddenNotExist) w.
    Proof. spy_unfold. apply spied_ext. apply hid_readlink. exact Hhid. Qed.
    Lemma NH_mkdir_hid perm w : a_mkdir AH p perm w = spied tag (PM MMkdir) p [] (hfail EHiddenPerm) w.
    Proof. spy_unfold. apply spied_ext. apply hid_mkdir. exact Hhid. Qed.
    Lemma NH_mkdirall_hid perm w : a_mkdirall AH p perm w = spied tag (PM MMkdirAll) p [] (hfail EHiddenPerm) w.
    Proof. spy_unfold. apply spied_ext. apply hid_mkdirall. exact Hhid. Qed.
    Lemma NH_remove_hid w : a_remove AH p w = spied tag (PM MRemove) p [] (hfail EHiddenNotExist) w.
    Proof. spy_unfold. apply spied_ext. apply hid_remove. exact Hhid. Qed.
    Lemma NH_removeall_hid w : a_removeall AH p w = spied tag (PM MRemoveAll) p [] (hfail EHiddenNotExist) w.
    Proof. spy_unfold. apply spied_ext. apply hid_removeall. exact Hhid. Qed.
    Lemma NH_chmod_hid m w : a_chmod AH p m w = spied tag (PM MChmod) p [] (hfail EHiddenNotExist) w.
    Proof. spy_unfold. apply spied_ext. apply hid_chmod. exact Hhid. Qed.
    Lemma NH_chown_hid u g w : a_chown AH p u g w = spied tag (PM MChown) p [] (hfail EHiddenNotExist) w.
    Proof. spy_unfold. apply spied_ext. apply hid_chown. exact Hhid. Qed.
    Lemma NH_lchown_hid u g w : a_lchown AH p u g w = spied tag (PM MLchown) p [] (hfail EHiddenNotExist) w.
    Proof. spy_unfold. apply spied_ext. apply hid_lchown. exact Hhid. Qed.
    Lemma NH_chtimes_hid t w : a_chtimes AH p t w = spied tag (PM MChtimes) p [] (hfail EHiddenNotExist) w.
    Proof. spy_unfold. apply spied_ext. apply hid_chtimes. exact Hhid. Qed.

    Lemma bind_fail0 {A B} (e : errno) (k : A -> M B) : meq (x <- fail e ;; k x) (fail e).
    Proof. intros w. reflexivity. Qed.

    Lemma NH_open_hid w : a_open AH p w = spied tag (PM MOpen) p [] (hfail EHiddenNotExist) w.
    Proof.
      spy_unfold. apply spied_ext. intros w1. unfold bind. rewrite (hid_open [h] B p Hhid w1). reflexivity.
    Qed.
    Lemma NH_openfile_hid fl perm w : exists e,
      a_openfile AH p fl perm w = spied tag (PM MOpenFile) p [] (fail e) w.
    Proof.
      eexists. spy_unfold. apply spied_ext. intros w1. unfold bind.
      rewrite (hid_openfile [h] B p fl perm Hhid w1). reflexivity.
    Qed.
    Lemma NH_create_hid w : a_create AH p w = spied tag (PM MCreate) p [] (hfail EHiddenPerm) w.
    Proof.
      spy_unfold. apply spied_ext. intros w1. unfold bind. rewrite (hid_create [h] B p Hhid w1). reflexivity.
    Qed.

    Lemma NH_rename_old_hid pn w : exists e, a_rename AH p pn w = spied tag (PM MRename) p pn (fail e) w.
    Proof. eexists. spy_unfold. apply spied_ext. apply hid_rename. left. exact Hhid. Qed.
    Lemma NH_rename_new_hid po w : exists e, a_rename AH po p w = spied tag (PM MRename) po p (fail e) w.
    Proof. eexists. spy_unfold. apply spied_ext. apply hid_rename. right. exact Hhid. Qed.
    Lemma NH_symlink_hid t w : exists e, a_symlink AH t p w = spied tag (PM MSymlink) p t (fail e) w.
    Proof. eexists. spy_unfold. apply spied_ext. apply hid_symlink. left. exact Hhid. Qed.
  End HiddenName.

  (** Symlink at a shown location whose lexical target is not accepted *)
  Lemma NH_symlink_rej t p w :
    is_hidden (to_abs_symlink t p) [h] <> Some false ->
    exists e, a_symlink AH t p w = spied tag (PM MSymlink) p t (fail e) w.
  Proof.
    intros Hn. spy_unfold.
    unfold layered, layered_with. cbn [a_symlink hidden_layer l_call hiddenfs_call c_meth c_a c_b].
    destruct (is_hidden (to_abs_symlink t p) [h]) as [[|]|]; try (eexists; reflexivity).
    contradiction Hn. reflexivity.
  Qed.
End NewApi.
