(** Facts about the HiddenFS directory-listing model ([Layers/HiddenList.v]).
    Used by Props/C11.v.  [visible'], [collected'], [ended'] are copies of the
    definitions made in Props/C11.v (convertible with them). *)
From BFS Require Import Base.Bytes Path.GoPath.
From BFS Require Import Layers.Call Layers.LayerSpec Layers.HiddenList.
From BFS Require Import Proofs.PathFacts.
Local Open Scope nat_scope.

Definition visible' (dirp : str) (hs : list str) (content : list str) : list str :=
  filter (fun e => match is_hidden (join2 dirp e) hs with Some false => true | _ => false end) content.

Fixpoint collected' (rs : list lres) : list str :=
  match rs with
  | [] => []
  | LOk [] :: _ => []
  | LOk l :: r => l ++ collected' r
  | LEof l :: _ => l
  | LErr :: _ => []
  end.

Definition ended' (rs : list lres) : Prop :=
  Exists (fun r => match r with LEof _ | LOk [] => True | _ => False end) rs.

(* ------------------------------------------------------------------ *)
(** * List facts *)

Lemma firstn_add : forall (A : Type) (d k : nat) (l : list A),
  firstn (d + k) l = firstn d l ++ firstn k (skipn d l).
Proof.
  intros A d. induction d as [|d IH]; intros k l.
  - reflexivity.
  - destruct l as [|x l].
    + simpl. rewrite firstn_nil. reflexivity.
    + simpl. f_equal. apply IH.
Qed.

Lemma skipn_add : forall (A : Type) (d k : nat) (l : list A),
  skipn (d + k) l = skipn k (skipn d l).
Proof.
  intros A d. induction d as [|d IH]; intros k l.
  - reflexivity.
  - destruct l as [|x l].
    + simpl. rewrite skipn_nil. reflexivity.
    + simpl. apply IH.
Qed.

Lemma in_skipn : forall (A : Type) (k : nat) (l : list A) (x : A),
  In x (skipn k l) -> In x l.
Proof.
  intros A k l x H. rewrite <- (firstn_skipn k l). apply in_or_app. right. exact H.
Qed.

Lemma in_firstn : forall (A : Type) (k : nat) (l : list A) (x : A),
  In x (firstn k l) -> In x l.
Proof.
  intros A k l x H. rewrite <- (firstn_skipn k l). apply in_or_app. left. exact H.
Qed.

(* ------------------------------------------------------------------ *)
(** * [visible'], [filter_visible], [take] *)

Section Listing.
Variable dirp : str.
Variable hs : list str.

Definition defined_on (l : list str) : Prop :=
  forall e, In e l -> is_hidden (join2 dirp e) hs <> None.

Notation vis := (visible' dirp hs).

Lemma vis_app : forall a b, vis (a ++ b) = vis a ++ vis b.
Proof. intros a b. unfold visible'. apply filter_app. Qed.

Lemma vis_split : forall k l, vis l = vis (firstn k l) ++ vis (skipn k l).
Proof. intros k l. rewrite <- vis_app. rewrite firstn_skipn. reflexivity. Qed.

Lemma filter_visible_vis : forall names,
  defined_on names -> filter_visible dirp hs names = Some (vis names).
Proof.
  induction names as [|n r IH]; intro Hd.
  - reflexivity.
  - simpl.
    assert (Hn : is_hidden (join2 dirp n) hs <> None) by (apply Hd; left; reflexivity).
    assert (Hr : defined_on r) by (intros e He; apply Hd; right; exact He).
    rewrite (IH Hr).
    destruct (is_hidden (join2 dirp n) hs) as [hid|]; [|contradiction Hn; reflexivity].
    destruct hid; reflexivity.
Qed.

Lemma defined_on_skipn : forall k l, defined_on l -> defined_on (skipn k l).
Proof. intros k l H e He. apply H. eapply in_skipn. exact He. Qed.

Lemma defined_on_firstn : forall k l, defined_on l -> defined_on (firstn k l).
Proof. intros k l H e He. apply H. eapply in_firstn. exact He. Qed.

Lemma take_nonpos : forall n h, (n <= 0)%Z -> take n h = (h, false, []).
Proof.
  intros n h Hn. unfold take. apply Z.leb_le in Hn. rewrite Hn. reflexivity.
Qed.

Lemma take_pos_nil : forall n, (0 < n)%Z -> take n [] = ([], true, []).
Proof.
  intros n Hn. unfold take.
  assert (E : (n <=? 0)%Z = false) by (apply Z.leb_gt; exact Hn).
  rewrite E. reflexivity.
Qed.

Lemma take_pos_cons : forall n e h, (0 < n)%Z ->
  take n (e :: h) = (firstn (Z.to_nat n) (e :: h), false, skipn (Z.to_nat n) (e :: h)).
Proof.
  intros n e h Hn. unfold take.
  assert (E : (n <=? 0)%Z = false) by (apply Z.leb_gt; exact Hn).
  rewrite E. reflexivity.
Qed.

(* ------------------------------------------------------------------ *)
(** * One call *)

Lemma list_loop_S : forall fuel count avail h,
  list_loop (S fuel) dirp hs count avail h =
  if (Z.of_nat (length avail) <? count)%Z then
    let diff := (count - Z.of_nat (length avail))%Z in
    let '(names, eof, h') := take diff h in
    match filter_visible dirp hs names with
    | None => (LErr, h')
    | Some vis =>
        let avail' := avail ++ vis in
        if eof then (LEof avail', h') else list_loop fuel dirp hs count avail' h'
    end
  else (LOk avail, h).
Proof. reflexivity. Qed.

Definition res_ok (count : Z) (avail h : list str) (res : lres) (h' : handle) : Prop :=
  exists k, h' = skipn k h /\
    match res with
    | LOk l => l = avail ++ vis (firstn k h) /\ (count <= Z.of_nat (length l))%Z
    | LEof l => l = avail ++ vis (firstn k h) /\ h' = []
    | LErr => False
    end.

Lemma list_loop_spec : forall fuel count avail h res h',
  defined_on h -> length h < fuel ->
  list_loop fuel dirp hs count avail h = (res, h') ->
  res_ok count avail h res h'.
Proof.
  induction fuel as [|fuel IH]; intros count avail h res h' Hd Hf Hl.
  - exfalso. lia.
  - rewrite list_loop_S in Hl.
    destruct (Z.of_nat (length avail) <? count)%Z eqn:Elt.
    + apply Z.ltb_lt in Elt.
      assert (Hpos : (0 < count - Z.of_nat (length avail))%Z) by lia.
      cbv zeta in Hl.
      destruct h as [|e h0].
      * rewrite (take_pos_nil _ Hpos) in Hl. simpl in Hl.
        inversion Hl; subst. exists 0. split; [reflexivity|].
        simpl. split; reflexivity.
      * rewrite (take_pos_cons _ e h0 Hpos) in Hl.
        set (d := Z.to_nat (count - Z.of_nat (length avail))) in *.
        assert (Hd1 : 1 <= d) by (unfold d; lia).
        cbv iota beta in Hl.
        rewrite (filter_visible_vis _ (defined_on_firstn d _ Hd)) in Hl.
        cbv zeta iota in Hl.
        apply IH in Hl.
        -- destruct Hl as [k [Hk Hres]].
           exists (d + k). split.
           ++ rewrite skipn_add. exact Hk.
           ++ rewrite firstn_add, vis_app, app_assoc. exact Hres.
        -- apply defined_on_skipn. exact Hd.
        -- rewrite skipn_length. simpl length in *. lia.
    + apply Z.ltb_ge in Elt. inversion Hl; subst.
      exists 0. split; [reflexivity|]. simpl. rewrite app_nil_r.
      split; [reflexivity|exact Elt].
Qed.

Definition step_ok (c : Z) (h : list str) (res : lres) (h' : handle) : Prop :=
  (exists k, h' = skipn k h /\
    match res with
    | LOk l => l = vis (firstn k h) /\ (l = [] -> h' = [])
    | LEof l => l = vis (firstn k h) /\ h' = []
    | LErr => False
    end) /\
  ((c <= 0)%Z -> res = LOk (vis h)).

Lemma hidden_list_spec : forall c h res h',
  defined_on h -> hidden_list dirp hs c h = (res, h') -> step_ok c h res h'.
Proof.
  intros c h res h' Hd Hl. unfold hidden_list in Hl.
  destruct (c <=? 0)%Z eqn:Ec.
  - apply Z.leb_le in Ec. rewrite (take_nonpos c h Ec) in Hl.
    cbv iota beta in Hl. rewrite (filter_visible_vis h Hd) in Hl.
    inversion Hl; subst. split.
    + exists (length h). split.
      * rewrite skipn_all. reflexivity.
      * rewrite firstn_all. split; [reflexivity|]. intros _. reflexivity.
    + intros _. reflexivity.
  - apply Z.leb_gt in Ec.
    apply list_loop_spec in Hl; [|exact Hd|lia].
    destruct Hl as [k [Hk Hres]]. split.
    + exists k. split; [exact Hk|].
      destruct res as [l|l|].
      * destruct Hres as [Hl Hlen]. simpl in Hl. split; [exact Hl|].
        intro El. rewrite El in Hlen. simpl in Hlen. lia.
      * simpl in Hres. exact Hres.
      * exact Hres.
    + intro F. lia.
Qed.

(* ------------------------------------------------------------------ *)
(** * A sequence of calls *)

Lemma hidden_list_calls_spec : forall counts h,
  defined_on h ->
  Forall (fun r => r <> LErr) (hidden_list_calls dirp hs counts h) /\
  (exists k, collected' (hidden_list_calls dirp hs counts h) = vis (firstn k h)) /\
  (ended' (hidden_list_calls dirp hs counts h) ->
   collected' (hidden_list_calls dirp hs counts h) = vis h).
Proof.
  induction counts as [|c r IH]; intros h Hd.
  - simpl. split; [constructor|]. split.
    + exists 0. reflexivity.
    + intro He. inversion He.
  - simpl. destruct (hidden_list dirp hs c h) as [res h'] eqn:Eh.
    destruct (hidden_list_spec c h res h' Hd Eh) as [[k [Hk Hres]] _].
    assert (Hd' : defined_on h') by (rewrite Hk; apply defined_on_skipn; exact Hd).
    destruct (IH h' Hd') as [IH1 [[k' IH2] IH3]].
    destruct res as [l|l|].
    + destruct Hres as [Hl Hnil].
      destruct l as [|x l0].
      * split; [constructor; [discriminate|exact IH1]|]. split.
        -- exists 0. reflexivity.
        -- intros _. simpl. rewrite (vis_split k h). rewrite <- Hl, <- Hk.
           rewrite (Hnil eq_refl). reflexivity.
      * split; [constructor; [discriminate|exact IH1]|]. split.
        -- exists (k + k'). simpl collected'. rewrite IH2.
           rewrite firstn_add, vis_app. rewrite <- Hl, <- Hk. reflexivity.
        -- intro He. simpl collected'.
           assert (He' : ended' (hidden_list_calls dirp hs r h')).
           { unfold ended' in He. inversion He as [? ? F|? ? F]; subst.
             - contradiction F.
             - exact F. }
           rewrite (IH3 He'). rewrite (vis_split k h). rewrite <- Hl, <- Hk. reflexivity.
    + destruct Hres as [Hl Hnil].
      split; [constructor; [discriminate|exact IH1]|]. split.
      * exists k. simpl. exact Hl.
      * intros _. simpl. rewrite (vis_split k h). rewrite <- Hl, <- Hk, Hnil.
        simpl. rewrite app_nil_r. reflexivity.
    + contradiction Hres.
Qed.

End Listing.

(* ------------------------------------------------------------------ *)
(** * Statement used by Props/C11.v *)

Lemma hidden_listing :
  forall dirp hs content counts,
  (forall e, In e content -> is_hidden (join2 dirp e) hs <> None) ->
  let rs := hidden_list_calls dirp hs counts content in
  Forall (fun r => r <> LErr) rs /\
  (exists k, collected' rs = firstn k (visible' dirp hs content)) /\
  (ended' rs -> collected' rs = visible' dirp hs content) /\
  (forall c cs, counts = c :: cs -> (c <= 0)%Z -> hd LErr rs = LOk (visible' dirp hs content)).
Proof.
  intros dirp hs content counts Hd rs.
  destruct (hidden_list_calls_spec dirp hs counts content Hd) as [H1 [[k H2] H3]].
  fold rs in H1, H2, H3.
  split; [exact H1|]. split; [|split; [exact H3|]].
  - exists (length (visible' dirp hs (firstn k content))).
    rewrite H2. rewrite (vis_split dirp hs k content).
    symmetry. apply firstn_length_app.
  - intros c cs Ec Hc. subst counts. unfold rs. simpl.
    destruct (hidden_list dirp hs c content) as [res h'] eqn:Eh.
    destruct (hidden_list_spec dirp hs c content res h' Hd Eh) as [_ Hle].
    simpl. apply Hle. exact Hc.
Qed.
