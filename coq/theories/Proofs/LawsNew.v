(** Theorem B for the layering of the Go constructors [New] / [NewWithFS] -
    HiddenFS directly over the OS filesystem, NO PrefixFS; the backup location
    [q] (an absolute cleaned path other than the root) is hidden from the base
    and is the root of the backup filesystem -

      [ncfg q = mkConfig None [q] q]:
      base   = [spy TBase (hiddenfs [q] osfs)],   view [V0H q] (Spec/ViewRoot.v),
      backup = [spy TBackup (prefixfs q osfs)],   view [Vp q]

    the law records of Spec/Laws.v, Spec/Laws2.v, Spec/Always.v and
    Spec/Faults.v for both filesystems, with [hid := hid_h q] (at or below the
    location) and [anc := anc_h q] (its proper ancestors, the root "/"
    included) for the base, and the BackupFS theorems instantiated: closed
    theorems about [cfg_base (ncfg q)] and [cfg_backup (ncfg q)].

    The base shows link targets as stored ([tnorm := tn_0], the identity;
    without PrefixFS nothing cleans them); the backup filesystem (PrefixFS)
    shows them cleaned ([clean]) as before. *)
From stdpp Require Import gmap.
From BFS Require Import Spec.CopySpecs Spec.Always Spec.Faults Spec.ViewOsfs Spec.ViewHidden Spec.ViewRoot.
From BFS Require Import Proofs.LawsOsfsBase Proofs.LawsOsfsA Proofs.LawsOsfsB Proofs.LawsOsfs.
From BFS Require Import Proofs.BackupCopy Proofs.BackupTry Proofs.BackupRollback Proofs.BackupC01 Proofs.BackupForce.
From BFS Require Import Proofs.RollbackFacts Proofs.AlwaysLib Proofs.AlwaysTry Proofs.AlwaysRollback Proofs.LawsOsfsCrash.
From BFS Require Import Proofs.FaultLib Proofs.FaultTry Proofs.FaultRollback Proofs.LawsOsfsFault.
From BFS Require Import Proofs.LawsHiddenBase Proofs.LawsHiddenView Proofs.LawsHiddenFrame Proofs.LawsHiddenApi.
From BFS Require Import Proofs.LawsHiddenStop Proofs.LawsHidden Proofs.Transparent.
From BFS Require Import Proofs.LawsRootBase Proofs.LawsRootA Proofs.LawsRootFrame Proofs.LawsNewApi.
From BFS Require Import Proofs.LawsNewA Proofs.LawsNewK.
Local Open Scope nat_scope.

(* ------------------------------------------------------------------ *)
(** * The law records *)

Section Records.
  Variable tag : fstag.
  Variable h : str.
  Hypothesis Hh : hidden_ok h.

  Notation pk := h.

  (** the base *)
  Theorem hid_api0_laws :
    api_laws (hid_api0 tag h) (V0H h) (Vp h) tn_0 (acc_0 h) (rh_0 tag) (wh_0 tag) (hid_h h) (anc_h h).
  Proof. exact (hid_api0_laws_aux tag h Hh). Qed.

  Theorem hid_api0_laws2 :
    api_laws2 (hid_api0 tag h) (V0H h) (Vp h) tn_0 (acc_0 h) (rh_0 tag) (wh_0 tag).
  Proof. exact (hid_api0_laws2_aux tag h Hh). Qed.

  (** the backup filesystem, next to the base view *)
  Theorem backup_laws_new :
    api_laws (the_api tag h) (Vp h) (V0H h) clean (acc_p h) (rh_p tag h) (wh_p tag h) nohid nohid.
  Proof.
    destruct (exists_disjoint_prefix h Hh) as (pb1 & Hb1 & Hd1).
    exact (backup_laws_new_aux tag h pb1 Hh Hb1 Hd1).
  Qed.

  (** ** every method of the base is one primitive call *)
  Let H := hiddenfs [h] osfs.
  Let HS : stop_api H := hiddenfs_stop [h] _ osfs_stop.

  Lemma plainop_mark0 (p : str) (m : M fhandle) : stop m -> plainop (x <- m ;; ret (spy_handle tag p x)).
  Proof. intros Hm. apply plainop_spy_handle. apply stop_plainop. exact Hm. Qed.

  Lemma fplain_mark0 (p : str) (m : M fhandle) : stop m -> fplain (x <- m ;; ret (spy_handle tag p x)).
  Proof. intros Hm. apply fplain_spy_handle. apply stop_fplain. exact Hm. Qed.

  Lemma V0H_w_st (w w' : world) : w_st w' = w_st w -> V0H h w' = V0H h w.
  Proof. intros E. rewrite !V0H_FH, (V0_st w w' E). reflexivity. Qed.

  Theorem hid_api0_crash_laws : api_crash_laws (hid_api0 tag h) (V0H h).
  Proof.
    unfold hid_api0. fold H.
    constructor; cbn [spy a_lstat a_stat a_readlink a_open a_openfile a_create a_mkdir
      a_mkdirall a_remove a_removeall a_rename a_chmod a_chown a_lchown a_chtimes a_symlink].
    - intros w c. apply V0H_w_st. reflexivity.
    - intros p. apply spied_atomic. apply stop_plainop. apply HS.
    - intros p. apply spied_atomic. apply stop_plainop. apply HS.
    - intros p. apply spied_atomic. apply stop_plainop. apply HS.
    - intros p. apply spied_atomic. apply plainop_mark0. apply HS.
    - intros p fl perm. apply spied_atomic. apply plainop_mark0. apply HS.
    - intros p. apply spied_atomic. apply plainop_mark0. apply HS.
    - intros p perm. apply spied_atomic. apply stop_plainop. apply HS.
    - intros p perm. apply spied_atomic. apply stop_plainop. apply HS.
    - intros p. apply spied_atomic. apply stop_plainop. apply HS.
    - intros p. apply spied_atomic. apply stop_plainop. apply HS.
    - intros o n. apply spied_atomic. apply stop_plainop. apply HS.
    - intros p m. apply spied_atomic. apply stop_plainop. apply HS.
    - intros p u g. apply spied_atomic. apply stop_plainop. apply HS.
    - intros p u g. apply spied_atomic. apply stop_plainop. apply HS.
    - intros p t. apply spied_atomic. apply stop_plainop. apply HS.
    - intros t p. apply spied_atomic. apply stop_plainop. apply HS.
    - intros x w r w' Hrun. apply V0H_w_st. exact (hread_st x w r w' Hrun).
    - intros x w r w' Hrun. apply V0H_w_st. exact (hclose_st x w r w' Hrun).
    - intros x w r w' Hrun. apply V0H_w_st. exact (hstat_st x w r w' Hrun).
    - intros x w r w' Hrun. apply V0H_w_st. exact (hreaddirnames_st x w r w' Hrun).
  Qed.

  (** the handles the base returns are spied *)
  Lemma spied_handle_tag0 (pm : pmeth) (p : str) (m : M fhandle) (w w' : world) (x : fhandle) :
    spied tag pm p [] (x0 <- m ;; ret (spy_handle tag p x0)) w = (MOk x, w') -> fh_spy x = Some (tag, p).
  Proof.
    intros Hrun. unfold spied in Hrun.
    set (w1 := mkWorld (w_st w) (w_trace w) (N.succ (w_ticks w)) (w_crash w) (w_faults w) (w_infos w)) in *.
    assert (Hbody : (if faulted w1 tag pm p then (MErr EIO, record (mkTcall tag pm p [] (Some EIO)) w1)
                     else match (x0 <- m ;; ret (spy_handle tag p x0)) w1 with
                          | (MOk a, w2) => (MOk a, record (mkTcall tag pm p [] None) w2)
                          | (MErr e, w2) => (MErr e, record (mkTcall tag pm p [] (Some e)) w2)
                          | (MHalt, w2) => (MHalt, w2)
                          end) = (MOk x, w') -> fh_spy x = Some (tag, p)).
    { intros E. destruct (faulted w1 tag pm p); [discriminate E |].
      unfold bind in E. destruct (m w1) as [[x0 | e |] w2]; try discriminate E.
      unfold ret in E. injection E as <- _. reflexivity. }
    destruct (w_crash w) as [k |]; [| exact (Hbody Hrun)].
    destruct (N.leb k (w_ticks w)); [discriminate Hrun | exact (Hbody Hrun)].
  Qed.

  Theorem hid_api0_fault_laws : fault_laws (hid_api0 tag h) (V0H h) tag (rh_0 tag) (wh_0 tag).
  Proof.
    unfold hid_api0. fold H.
    constructor; cbn [spy a_lstat a_stat a_readlink a_open a_openfile a_create a_mkdir
      a_mkdirall a_remove a_removeall a_rename a_chmod a_chown a_lchown a_chtimes a_symlink].
    - intros w w' E. exact (V0H_w_st w w' E).
    - intros p. apply spied_fcall. apply stop_fplain. apply HS.
    - intros p. apply spied_fcall. apply stop_fplain. apply HS.
    - intros p. apply spied_fcall. apply stop_fplain. apply HS.
    - intros p. apply spied_fcall. apply fplain_mark0. apply HS.
    - intros p fl perm. apply spied_fcall. apply fplain_mark0. apply HS.
    - intros p. apply spied_fcall. apply fplain_mark0. apply HS.
    - intros p perm. apply spied_fcall. apply stop_fplain. apply HS.
    - intros p perm. apply spied_fcall. apply stop_fplain. apply HS.
    - intros p. apply spied_fcall. apply stop_fplain. apply HS.
    - intros p. apply spied_fcall. apply stop_fplain. apply HS.
    - intros o n. apply spied_fcall. apply stop_fplain. apply HS.
    - intros p m. apply spied_fcall. apply stop_fplain. apply HS.
    - intros p u g. apply spied_fcall. apply stop_fplain. apply HS.
    - intros p u g. apply spied_fcall. apply stop_fplain. apply HS.
    - intros p t. apply spied_fcall. apply stop_fplain. apply HS.
    - intros t p. apply spied_fcall. apply stop_fplain. apply HS.
    - intros x p pos (Hs & _) t q Ht. cbn [unmark fh_spy] in Hs. rewrite Hs in Ht. injection Ht as <- _. reflexivity.
    - intros x p pos (Hs & _) t q Ht. cbn [unmark fh_spy] in Hs. rewrite Hs in Ht. injection Ht as <- _. reflexivity.
    - intros p w w' x Hopen t q Ht.
      assert (Hs : fh_spy x = Some (tag, p)).
      { destruct Hopen as [E | [(fl & perm & E) | E]]; exact (spied_handle_tag0 _ p _ w w' x E). }
      rewrite Hs in Ht. injection Ht as <- _. reflexivity.
  Qed.
End Records.

Print Assumptions hid_api0_laws.
Print Assumptions hid_api0_laws2.
Print Assumptions backup_laws_new.
Print Assumptions hid_api0_crash_laws.
Print Assumptions hid_api0_fault_laws.

(* ------------------------------------------------------------------ *)
(** * The BackupFS theorems for the layering of New/NewWithFS

    [ncfg h = mkConfig None [h] h]: [cfg_base] and [cfg_backup] of this
    configuration are (by computation) [hid_api0 TBase h] and
    [the_api TBackup h]. *)

Section NewLayering.
  Variable h : str.
  Hypothesis Hh : hidden_ok h.

  Notation pk := h.
  Notation dbase := (cfg_base (ncfg h)).
  Notation dbackup := (cfg_backup (ncfg h)).
  Notation Vb := (V0H h).
  Notation Vk := (Vp h).
  Notation accb := (acc_0 h).
  Notation acck := (acc_p h).

  Lemma ncfg_base : dbase = hid_api0 TBase h.
  Proof. reflexivity. Qed.
  Lemma ncfg_backup : dbackup = the_api TBackup pk.
  Proof. reflexivity. Qed.

  Let Lb := hid_api0_laws TBase h Hh.
  Let Lb2 := hid_api0_laws2 TBase h Hh.
  Let Lk := backup_laws_new TBackup h Hh.
  Let Cb := hid_api0_crash_laws TBase h.
  Let Ck := the_api_crash_laws TBackup pk.
  Let Fb := hid_api0_fault_laws TBase h.
  Let Fk := the_api_fault_laws TBackup pk.

  (** C01, closed: any history of covered operations - operations on the
      ancestors of the location included - then Rollback *)
  Theorem c01_new :
    forall B0, all_small B0 ->
    forall w0 ops w,
      initial Vb Vk tn_0 clean accb acck B0 w0 ->
      good_run dbase dbackup Vb w0 ops w ->
      exists w', b_rollback dbase dbackup w = (MOk tt, w') /\
                 store_eqv (Vb w') B0 /\ (forall p, p <> s_root -> Vk w' !! p = None) /\
                 w_infos w' = ∅.
  Proof using Hh.
    intros B0 Hsmall w0 ops w Hinit Hrun.
    exact (c01_spec (hid_api0 TBase h) (the_api TBackup pk) Vb Vk tn_0 clean accb acck
             (rh_0 TBase) (rh_p TBackup pk) (wh_0 TBase) (wh_p TBackup pk) (hid_h h) (anc_h h)
             B0 Lb Lb2 Lk Hsmall w0 ops w Hinit Hrun).
  Qed.

  (** Rollback from any state satisfying the invariant *)
  Theorem rollback_new :
    forall B0, links_ok tn_0 clean accb acck B0 -> all_small B0 -> swf B0 -> loc_ok (hid_h h) (anc_h h) B0 ->
    forall w, Inv Vb Vk B0 w ->
    exists w', b_rollback dbase dbackup w = (MOk tt, w') /\ quiet w' /\
               store_eqv (Vb w') B0 /\ (forall p, p <> s_root -> Vk w' !! p = None) /\
               w_infos w' = ∅.
  Proof using Hh.
    intros B0 Hl Hs Hwf Hloc w HI.
    exact (rollback_spec (hid_api0 TBase h) (the_api TBackup pk) Vb Vk tn_0 clean accb acck
             (rh_0 TBase) (rh_p TBackup pk) (wh_0 TBase) (wh_p TBackup pk) (hid_h h) (anc_h h)
             B0 Lb Lk Hl Hs Hwf Hloc w HI).
  Qed.

  (** every covered operation keeps the invariant *)
  Theorem step_new :
    forall B0, links_ok tn_0 clean accb acck B0 -> all_small B0 -> swf B0 ->
    forall o w, Inv Vb Vk B0 w -> covered Vb o w ->
    exists r w', step dbase dbackup o w = (r, w') /\ r <> MHalt /\
                 (kind_stable Vb w' -> Inv Vb Vk B0 w') /\
                 infos_ext_in w w' (op_touches o).
  Proof using Hh.
    intros B0 Hl Hs Hwf o w HI Hc.
    exact (step_spec (hid_api0 TBase h) (the_api TBackup pk) Vb Vk tn_0 clean accb acck
             (rh_0 TBase) (rh_p TBackup pk) (wh_0 TBase) (wh_p TBackup pk) (hid_h h) (anc_h h)
             B0 Lb Lb2 Lk Hl Hs Hwf o w HI Hc).
  Qed.

  (** C02 between operations, closed *)
  Theorem c02_new :
    forall B0, all_small B0 ->
    forall w0 ops w,
      initial Vb Vk tn_0 clean accb acck B0 w0 ->
      good_run dbase dbackup Vb w0 ops w ->
      (forall p n0, B0 !! p = Some n0 -> p <> s_root ->
         sonode_eqv (Vb w !! p) (Some n0) \/
         exists nk, Vk w !! p = Some nk /\ copy_of n0 nk) /\
      (forall p, p <> s_root -> Vk w !! p <> None ->
         exists n0 nk, B0 !! p = Some n0 /\ Vk w !! p = Some nk /\ copy_of n0 nk).
  Proof using Hh.
    intros B0 Hsmall w0 ops w Hinit Hrun.
    exact (recoverable_between_operations (hid_api0 TBase h) (the_api TBackup pk) Vb Vk
             tn_0 clean accb acck (rh_0 TBase) (rh_p TBackup pk)
             (wh_0 TBase) (wh_p TBackup pk) (hid_h h) (anc_h h) B0 Lb Lb2 Lk Hsmall w0 ops w Hinit Hrun).
  Qed.

  (** the invariant holds in every state reached from an initial one by covered operations *)
  Theorem inv_new :
    forall B0, all_small B0 ->
    forall w0 ops w,
      initial Vb Vk tn_0 clean accb acck B0 w0 ->
      good_run dbase dbackup Vb w0 ops w ->
      Inv Vb Vk B0 w.
  Proof using Hh.
    intros B0 Hsmall w0 ops w Hinit Hrun.
    pose proof Hinit as (_ & _ & _ & HwfB & Hlinks & _ & _).
    exact (good_run_inv (hid_api0 TBase h) (the_api TBackup pk) Vb Vk tn_0 clean accb acck
             (rh_0 TBase) (rh_p TBackup pk) (wh_0 TBase) (wh_p TBackup pk) (hid_h h) (anc_h h)
             B0 Lb Lb2 Lk Hlinks Hsmall HwfB w0 ops w Hrun
             (initial_inv_spec Vb Vk tn_0 clean accb acck B0 w0 Hinit)).
  Qed.

  (** the initial store shows nothing of the location and its ancestors as directories *)
  Theorem loc_ok_new :
    forall B0 w0, initial Vb Vk tn_0 clean accb acck B0 w0 -> loc_ok (hid_h h) (anc_h h) B0.
  Proof using Hh.
    intros B0 w0 Hinit.
    exact (initial_loc_ok (hid_api0 TBase h) Vb Vk tn_0 clean accb acck (rh_0 TBase) (wh_0 TBase)
             (hid_h h) (anc_h h) B0 Lb w0 Hinit).
  Qed.

  (** C17, closed: ForceBackup(p), covered operations, Rollback *)
  Theorem c17_new :
    forall B0, links_ok tn_0 clean accb acck B0 -> all_small B0 -> swf B0 -> loc_ok (hid_h h) (anc_h h) B0 ->
    forall w p, Inv Vb Vk B0 w -> snolinkpar (Vb w) p -> p <> s_root ->
    entry_ok tn_0 clean accb acck p (Vb w !! p) -> orig_not_dir_cond w p ->
    parents_original Vb B0 w p ->
    forall r w1 ops w2,
      b_force_backup dbase dbackup p w = (r, w1) ->
      good_run dbase dbackup Vb w1 ops w2 ->
      exists w3, b_rollback dbase dbackup w2 = (MOk tt, w3) /\
                 sonode_eqv (Vb w3 !! p) (Vb w !! p) /\
                 (forall q, q <> p -> q <> s_root -> sonode_eqv (Vb w3 !! q) (B0 !! q)) /\
                 (forall q, q <> s_root -> Vk w3 !! q = None) /\ w_infos w3 = ∅ /\
                 (r <> MOk tt -> (forall fi, w_infos w !! p <> Some (Some fi)) ->
                  sonode_eqv (Vb w3 !! p) (B0 !! p)).
  Proof using Hh.
    intros B0 Hl Hs Hwf Hloc w p HI Hnlp Hne Hcur Hfi Hpar0 r w1 ops w2 Hrun Hgood.
    exact (c17_spec (hid_api0 TBase h) (the_api TBackup pk) Vb Vk tn_0 clean accb acck
             (rh_0 TBase) (rh_p TBackup pk) (wh_0 TBase) (wh_p TBackup pk) (hid_h h) (anc_h h)
             B0 Lb Lb2 Lk Hl Hs Hwf Hloc w p HI Hnlp Hne Hcur Hfi Hpar0 r w1 ops w2 Hrun Hgood).
  Qed.

  (** ** at every instant (crash points) *)

  (** C02 at every instant, closed: a history of covered operations started in
      an [initial] world with a crash point, wherever it stops *)
  Theorem c02_instant_new :
    forall B0, all_small B0 ->
    forall w0 ops w,
      initial Vb Vk tn_0 clean accb acck B0 w0 ->
      good_run dbase dbackup Vb w0 ops w ->
    forall k outs wh, run_history (ncfg h) ops (with_crash w0 (Some k)) = (outs, wh) ->
    recoverable Vb Vk B0 wh.
  Proof using Hh.
    intros B0 Hs w0 ops w Hinit Hrun k outs wh Hk.
    exact (run_always (hid_api0 TBase h) (the_api TBackup pk) Vb Vk tn_0 clean accb acck
             (rh_0 TBase) (rh_p TBackup pk) (wh_0 TBase) (wh_p TBackup pk) (hid_h h) (anc_h h)
             B0 Lb Lb2 Lk Cb Ck Hs w0 ops w Hinit Hrun k outs wh Hk).
  Qed.

  (** ... Rollback included *)
  Theorem c02_instant_rollback_new :
    forall B0, all_small B0 ->
    forall w0 ops w,
      initial Vb Vk tn_0 clean accb acck B0 w0 ->
      good_run dbase dbackup Vb w0 ops w ->
    forall k outs wh, run_history (ncfg h) (ops ++ [ORollback]) (with_crash w0 (Some k)) = (outs, wh) ->
    recoverable Vb Vk B0 wh.
  Proof using Hh.
    intros B0 Hs w0 ops w Hinit Hrun k outs wh Hk.
    exact (run_rollback_always (hid_api0 TBase h) (the_api TBackup pk) Vb Vk tn_0 clean accb acck
             (rh_0 TBase) (rh_p TBackup pk) (wh_0 TBase) (wh_p TBackup pk) (hid_h h) (anc_h h)
             B0 Lb Lb2 Lk Cb Ck Hs w0 ops w Hinit Hrun k outs wh Hk).
  Qed.

  (** ** under a single fault *)
  Local Notation invf := (InvF Vb Vk).

  (** every covered operation under a single fault (C08) *)
  Theorem step_fault_new :
    forall B0, links_ok tn_0 clean accb acck B0 -> all_small B0 -> swf B0 ->
    forall o w, invf B0 w -> single (w_faults w) -> covered Vb o w ->
    exists r w', step dbase dbackup o w = (r, w') /\ r <> MHalt /\ w_crash w' = None /\
      w_faults w' = w_faults w /\
      (kind_stable Vb w' -> invf B0 w') /\ infos_ext_in w w' (op_touches o) /\
      (spent w -> spent w') /\
      (takes_backup o = true -> no_base_fault TBase w -> ~ spent w -> spent w' ->
       (exists e, r = MErr e) /\ Vb w' = Vb w).
  Proof using Hh.
    intros B0 Hl Hs Hwf.
    exact (step_fault (hid_api0 TBase h) (the_api TBackup pk) Vb Vk tn_0 clean accb acck
             (rh_0 TBase) (rh_p TBackup pk) (wh_0 TBase) (wh_p TBackup pk) (hid_h h) (anc_h h)
             B0 TBase TBackup Lb Lb2 Lk Fb Fk Hl Hs Hwf).
  Qed.

  (** Rollback under any fault plan: nil only if restored (C09) *)
  Theorem rollback_nil_new :
    forall B0, links_ok tn_0 clean accb acck B0 -> all_small B0 -> swf B0 -> loc_ok (hid_h h) (anc_h h) B0 ->
    forall w r w', invf B0 w -> b_rollback dbase dbackup w = (r, w') ->
    r <> MHalt /\
    (r = MOk tt -> store_eqv (Vb w') B0 /\ (forall p, p <> s_root -> Vk w' !! p = None) /\
                   w_infos w' = ∅).
  Proof using Hh.
    intros B0 Hl Hs Hwf Hloc.
    exact (rollback_nil_restored (hid_api0 TBase h) (the_api TBackup pk) Vb Vk tn_0 clean accb acck
             (rh_0 TBase) (rh_p TBackup pk) (wh_0 TBase) (wh_p TBackup pk) (hid_h h) (anc_h h)
             B0 TBase TBackup Lb Lk Fb Fk Hl Hs Hwf Hloc).
  Qed.

  (** a history of covered operations under a single fault, then Rollback (C08 / C01 / C02 / C09) *)
  Theorem run_fault_new :
    forall B0, all_small B0 ->
    forall w0 ops w,
      initialF Vb Vk tn_0 clean accb acck B0 w0 ->
      good_run dbase dbackup Vb w0 ops w ->
    invf B0 w /\ recoverable Vb Vk B0 w /\
    exists r w', b_rollback dbase dbackup w = (r, w') /\ r <> MHalt /\
      (r = MOk tt -> store_eqv (Vb w') B0 /\ (forall p, p <> s_root -> Vk w' !! p = None) /\
                     w_infos w' = ∅) /\
      (spent w -> r = MOk tt).
  Proof using Hh.
    intros B0 Hs.
    exact (run_fault (hid_api0 TBase h) (the_api TBackup pk) Vb Vk tn_0 clean accb acck
             (rh_0 TBase) (rh_p TBackup pk) (wh_0 TBase) (wh_p TBackup pk) (hid_h h) (anc_h h)
             B0 TBase TBackup Lb Lb2 Lk Fb Fk Hs).
  Qed.
End NewLayering.

Print Assumptions c01_new.
Print Assumptions rollback_new.
Print Assumptions step_new.
Print Assumptions c02_new.
Print Assumptions inv_new.
Print Assumptions loc_ok_new.
Print Assumptions c17_new.
Print Assumptions c02_instant_new.
Print Assumptions c02_instant_rollback_new.
Print Assumptions step_fault_new.
Print Assumptions rollback_nil_new.
Print Assumptions run_fault_new.

(** C03 (mutating half) for the layering of New/NewWithFS *)
Theorem c03_mutating_new : forall q, hidden_ok q ->
  forall B0, links_ok tn_0 clean (acc_0 q) (acc_p q) B0 -> all_small B0 -> swf B0 ->
  c03_mutating_stmt (cfg_base (ncfg q)) (cfg_backup (ncfg q)) (V0H q) (Vp q) B0.
Proof.
  intros q Hh B0 Hl Hs Hwf.
  exact (c03_mutating_spec (hid_api0 TBase q) (the_api TBackup q) (V0H q) (Vp q)
           tn_0 clean (acc_0 q) (acc_p q)
           (rh_0 TBase) (rh_p TBackup q) (wh_0 TBase) (wh_p TBackup q)
           (hid_h q) (anc_h q) B0
           (hid_api0_laws TBase q Hh) (hid_api0_laws2 TBase q Hh)
           (backup_laws_new TBackup q Hh) Hl Hs Hwf).
Qed.

Print Assumptions c03_mutating_new.

(** the central statement, spelled out: no law left as a hypothesis *)
Theorem c03_mutating_transparent_new : forall q, hidden_ok q ->
  forall B0, links_ok tn_0 clean (acc_0 q) (acc_p q) B0 -> all_small B0 -> swf B0 ->
  forall o w, Inv (V0H q) (Vp q) B0 w -> covered (V0H q) o w -> mut1 o ->
  exists w2 r w',
    V0H q w2 = V0H q w /\ w_crash w2 = w_crash w /\ w_faults w2 = w_faults w /\
    Inv (V0H q) (Vp q) B0 w2 /\ infos_ext w w2 (cands (op_name o)) /\
    step (cfg_base (ncfg q)) (cfg_backup (ncfg q)) o w = (r, w') /\ r <> MHalt /\
    swf (V0H q w') /\ store_eqv_except (op_frame o) (V0H q w') (V0H q w) /\
    same_rest (Vp q) w2 w' /\
    (((exists e, r = MErr e) /\ w' = w2 /\ ~ all_dirs (V0H q) w (op_name o)) \/
     step_direct (cfg_base (ncfg q)) o w2 = (r, w')).
Proof.
  intros q Hh B0 Hl Hs Hwf. exact (proj1 (c03_mutating_new q Hh B0 Hl Hs Hwf)).
Qed.

Print Assumptions c03_mutating_transparent_new.
